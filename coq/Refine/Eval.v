(* Refine/Eval.v — unfolding equations for the fuel-indexed core of NetModel.v, the scan loop of
   [evaluate] as a stand-alone function, and fuel-free ("for all sufficiently large fuel")
   descriptions of one evaluation: [ScanTo] / [EvalTo], with the two composition lemmas
   "nothing enabled: evaluation stops" and "first enabled transition fires, its callbacks run
   in order, the scan restarts".  Proof file. *)
From PFDL Require Import NetModel.
From Coq Require Import Lia.
Local Open Scope net_scope.

Section Eval.
  Variable tasks : list task.
  Variable env : envcfg.

  (* the search for the parallel-loop callback in evaluate_petri_net *)
  Fixpoint find_pl (h : nat) (i : nat) (l : list cb) (temp : option cb) {struct h} : option cb * list cb :=
    match h with
    | O => (temp, l)
    | S h' =>
      match nth_error l i with
      | None => (temp, l)
      | Some c =>
        if is_parloop_cb c
        then find_pl h' (S i) (firstn i l ++ skipn (S i) l) (Some c)
        else find_pl h' (S i) l temp
      end
    end.

  (* "for callback in callbacks: callback()" over the live list of transition [index] *)
  Section Inner.
  Variable f' : nat.
  Section Each.
  Variable index : nat.
  Fixpoint eachF (h : nat) (i : nat) {struct h} : NetModel.N unit :=
    match h with
    | O => nfail Fuel
    | S h' =>
      s <~ nget ;;
      match nth_error (nth index (ns_cbs s) []) i with
      | None => nret tt
      | Some c => run_cb tasks env f' c ;;~ eachF h' (S i)
      end
    end.

  End Each.
  Variable snapshot : nat.
  Fixpoint scanF (g : nat) (index : nat) {struct g} : NetModel.N unit :=
    match g with
    | O => nfail Fuel
    | S g' =>
      if Nat.leb snapshot index then nret tt
      else
        s <~ nget ;;
        match nth_error (ns_trans s) index with
        | None => nret tt
        | Some t =>
          if enabled s t then
            let cbs := nth index (ns_cbs s) [] in
            let '(temp, cbs1) := find_pl (S (List.length cbs)) 0 cbs None in
            match temp with
            | Some pl =>
              nmod (fun s => s <| ns_cbs := upd index (fun _ => cbs1) (ns_cbs s) |>) ;;~
              nfor cbs1 (fun c =>
                           run_cb tasks env f' c ;;~
                           nmod (fun s => s <| ns_cbs := upd index
                                                (fun l => match l with [] => [] | _ :: r => r end) (ns_cbs s) |>)) ;;~
              run_cb tasks env f' pl
            | None =>
              fire_trans t ;;~
              eachF index (S (S (List.length cbs))) 0 ;;~
              scanF g' 0
            end
          else scanF g' (S index)
        end
    end.
  End Inner.

  Lemma evaluate_S : forall f' s,
      evaluate tasks env (S f') s = scanF f' (List.length (ns_trans s)) f' 0 s.
  Proof. intros. reflexivity. Qed.
End Eval.

(* ---- small list facts ---- *)
Lemma upd_same : forall A (f : A -> A) (l : list A) i a,
    nth_error l i = Some a -> f a = a -> upd i f l = l.
Proof.
  intros A f l. induction l as [|x l IH]; intros [|i] a H E; cbn in *; try discriminate; auto.
  - inversion H; subst. rewrite E. reflexivity.
  - rewrite (IH i a H E). reflexivity.
Qed.

Lemma nth_error_upd_eq : forall A (f : A -> A) (l : list A) i a,
    nth_error l i = Some a -> nth_error (upd i f l) i = Some (f a).
Proof.
  intros A f l. induction l as [|x l IH]; intros [|i] a H; cbn in *; try discriminate; auto.
  inversion H; reflexivity.
Qed.

Lemma nth_error_upd_neq : forall A (f : A -> A) (l : list A) i j,
    i <> j -> nth_error (upd i f l) j = nth_error l j.
Proof.
  intros A f l. induction l as [|x l IH]; intros [|i] [|j] H; cbn in *; auto; try congruence.
Qed.

Lemma upd_length : forall A (f : A -> A) (l : list A) i, List.length (upd i f l) = List.length l.
Proof. intros A f l. induction l as [|x l IH]; intros [|i]; cbn; auto. Qed.

Lemma with_params_same : forall a, with_params (a_params a) a = a.
Proof. intros []; reflexivity. Qed.

Lemma ns_eta : forall s : NS,
    mkNS (ns_places s) (ns_trans s) (ns_cbs s) (ns_place_dict s) (ns_apis s) (ns_start_place s)
         (ns_final_place s) (ns_fresh s) (ns_test_ids s) (ns_awaited s) (ns_running s) (ns_counters s)
         (ns_tid s) (ns_sid s) (ns_ls s) (ns_obs s) (ns_log s) (ns_q s) (ns_nss s) (ns_nnot s)
         (ns_pending s) = s.
Proof. intros []; reflexivity. Qed.

(* the environment of the fragment: no reactions from inside notifications, no mutation of
   parameter lists (immediate completions of services are allowed) *)
Definition env_quiet (env : envcfg) : Prop :=
  (forall k, ec_react env k = None) /\ ec_mutate env = 0.

Section Cbs.
  Variable tasks : list task.
  Variable env : envcfg.
  Variable Hq : env_quiet env.

  (* ---- unfolding equations (by conversion) ---- *)
  Lemma run_cb_S : forall f c,
      run_cb tasks env (S f) c =
      match c with
      | CbTS a => on_task_started tasks env f a
      | CbTF a => on_task_finished tasks env f a
      | CbSS a => on_service_started tasks env f a
      | CbSF a => on_service_finished tasks env f a
      | _ => run_cb tasks env (S f) c
      end.
  Proof. intros f []; reflexivity. Qed.

  Lemma on_service_finished_S : forall f ai,
      on_service_finished tasks env (S f) ai = notify_user tasks env f SF ai false.
  Proof. reflexivity. Qed.

  Lemma on_task_finished_S : forall f ai,
      on_task_finished tasks env (S f) ai =
      (a <~ get_api ai ;; notify_user tasks env f TF ai (Nat.eqb (a_name a) production_task)).
  Proof. reflexivity. Qed.

  (* what the engine's pending list becomes *)
  Definition pend_after (k : nkind) (id : ident) (l : list ident) : list ident :=
    match k with
    | SS => l ++ [id]
    | SF => match remove_first (ident_eqb id) l with Some l' => l' | None => l end
    | _ => l
    end.

  Section NE.
    Variable f' : nat. Variable k : nkind. Variable ai : nat.
    Fixpoint neach (h : nat) (i : nat) {struct h} : NetModel.N unit :=
         match h with
         | O => nfail Fuel
         | S h' =>
           s <~ nget ;;
           match nth_error (listeners_of k (ns_ls s)) i with
           | None => nret tt
           | Some l =>
             a <~ get_api ai ;;
             nlog [ENotif l (notif_of s k a) (ns_running s)] ;;~
             (if Nat.eqb l 0 then engine_reacts tasks env f' k ai else nret tt) ;;~
             neach h' (S i)
           end
         end.
  End NE.
  Lemma notify_user_S : forall f k ai fin,
    notify_user tasks env (S f) k ai fin =
      (s0 <~ nget ;;
      neach f k ai (S (List.length (ns_ls s0))) 0 ;;~
      (if fin then nmod (fun s => s <| ns_running := false |>) else nret tt) ;;~
      a <~ get_api ai ;;
      s <~ nget ;;
      nlog (map (fun o => EObs o k (a_name a) (ident_nat (a_uuid a)) fin) (ns_obs s))).
  Proof. reflexivity. Qed.
  Lemma engine_reacts_S : forall f k ai,
    engine_reacts tasks env (S f) k ai =
      (a <~ get_api ai ;;
      let id := a_uuid a in
      (match k with
       | SS => nmod (fun s => s <| ns_pending := ns_pending s ++ [id] |>)
       | SF => nmod (fun s => s <| ns_pending :=
                                 match remove_first (ident_eqb id) (ns_pending s) with
                                 | Some l => l | None => ns_pending s end |>)
       | _ => nret tt
       end) ;;~
      (match k with
       | TS | SS => set_api ai (with_params (hostile (ec_mutate env) (a_params a)))
       | _ => nret tt
       end) ;;~
      (match k with
       | SS =>
         s <~ nget ;;
         nmod (fun s => s <| ns_nss := S (ns_nss s) |>) ;;~
         if ec_imm env (ns_nss s)
         then sched_fire_event tasks env f (EvFinish (a_uuid a)) ;;~ nret tt
         else nret tt
       | _ => nret tt
       end) ;;~
      s <~ nget ;;
      nmod (fun s => s <| ns_nnot := S (ns_nnot s) |>) ;;~
      match (if ec_react_all env || match k with TS | SS => true | _ => false end
             then ec_react env (ns_nnot s) else None), ns_pending s with
      | Some j, p0 :: prest =>
        let pend := p0 :: prest in
        let sid := nth (Nat.modulo j (List.length pend)) pend p0 in
        nlog [EFireIn (ident_nat sid)] ;;~
        r <~ sched_fire_event tasks env f (EvFinish sid) ;;
        nlog [EFireOut (ident_nat sid) r]
      | _, _ => nret tt
      end).
  Proof. reflexivity. Qed.

  Definition reacted (k : nkind) (a : api) (s : NS) : NS :=
    s <| ns_pending := pend_after k (a_uuid a) (ns_pending s) |>
      <| ns_nss := match k with SS => S (ns_nss s) | _ => ns_nss s end |>
      <| ns_nnot := S (ns_nnot s) |>.
  Lemma engine_reacts_frag : forall f k ai s a,
      nth_error (ns_apis s) ai = Some a ->
      (k = SS -> ec_imm env (ns_nss s) = false) ->
      engine_reacts tasks env (S f) k ai s = Ok (tt, reacted k a s).
  Proof.
    intros f k ai s a Ha Himm. destruct Hq as (Hreact & Hmut).
    rewrite engine_reacts_S. unfold nbind at 1. unfold get_api at 1. rewrite Ha.
    cbv zeta. rewrite Hmut. unfold hostile.
    destruct s as [pl tr cbs pd apis sp fp fr ti aw rn cn tid sid ls obs lg q nss nnot pend].
    cbn [ns_apis] in Ha.
    destruct k; unfold nbind, nget, nmod, nret, set_api, reacted, pend_after.
    all: cbn [ns_pending ns_nss ns_nnot ns_apis set].
    all: cbn.
    all: cbn [ns_nss] in Himm.
    all: try rewrite (Himm eq_refl).
    all: rewrite ?Hreact, ?orb_true_r.
    all: rewrite ?(upd_same _ _ _ _ _ Ha (with_params_same a)).
    all: try reflexivity.
    all: destruct (ec_react_all env); cbn; try reflexivity.

  Qed.

  (* the registered functions of every kind: function 0 (the recording engine) first, once *)
  Definition ls_ok (ls : list (nkind * nat)) : Prop :=
    forall k, exists rest, listeners_of k ls = 0 :: rest /\ ~ In 0 rest.

  Lemma listeners_default : forall k, listeners_of k default_listeners = [0].
  Proof. intros []; reflexivity. Qed.

  Lemma ls_ok_default : ls_ok default_listeners.
  Proof. intro k. exists []. rewrite listeners_default. split; [reflexivity|intros []]. Qed.

  (* the log entries of one notification: every registered function of the kind in registration
     order, then every attached observer *)
  Definition notif_entries (k : nkind) (a : api) (fin : bool) (s : NS) : list entry :=
    map (fun l => ENotif l (notif_of s k a) (ns_running s)) (listeners_of k (ns_ls s))
    ++ map (fun o => EObs o k (a_name a) (ident_nat (a_uuid a)) fin) (ns_obs s).

  Definition notified (k : nkind) (a : api) (fin : bool) (s : NS) : NS :=
    let s1 := reacted k a (s <| ns_log := rev (notif_entries k a fin s) ++ ns_log s |>) in
    if fin then s1 <| ns_running := false |> else s1.

  Lemma set_log_log : forall (s : NS) a b, (s <| ns_log := a |>) <| ns_log := b |> = s <| ns_log := b |>.
  Proof. intros [] a b; reflexivity. Qed.
  Lemma set_log_same : forall (s : NS), s <| ns_log := ns_log s |> = s.
  Proof. intros []; reflexivity. Qed.

  Lemma nth_error_skipn_cons : forall A (l : list A) i x r, skipn i l = x :: r -> nth_error l i = Some x /\ skipn (S i) l = r.
  Proof.
    induction l as [|y l IH]; intros [|i] x r H; cbn [skipn] in H; try discriminate.
    - inversion H; subst. split; reflexivity.
    - apply IH. exact H.
  Qed.
  Lemma nth_error_skipn_nil : forall A (l : list A) i, skipn i l = [] -> nth_error l i = None.
  Proof.
    induction l as [|y l IH]; intros [|i] H; cbn [skipn] in H; try discriminate; try reflexivity. apply IH. exact H.
  Qed.

  (* the registered functions other than function 0: one log entry each *)
  Lemma neach_tail : forall f k ai a rest i (sX : NS) h,
      nth_error (ns_apis sX) ai = Some a ->
      skipn i (listeners_of k (ns_ls sX)) = rest -> ~ In 0 rest -> List.length rest < h ->
      neach (S f) k ai h i sX
      = Ok (tt, sX <| ns_log := rev (map (fun l => ENotif l (notif_of sX k a) (ns_running sX)) rest) ++ ns_log sX |>).
  Proof.
    intros f k ai a. induction rest as [|l rest IH]; intros i sX h Ha Hsk Hn0 Hh; (destruct h as [|h]; [cbn in Hh; lia|]).
    - cbn [neach]. unfold nbind at 1. unfold nget at 1. rewrite (nth_error_skipn_nil _ _ _ Hsk).
      cbn [map rev app]. rewrite set_log_same. reflexivity.
    - destruct (nth_error_skipn_cons _ _ _ _ _ Hsk) as [Hn Hsk'].
      cbn [neach]. unfold nbind at 1. unfold nget at 1. rewrite Hn.
      unfold nbind at 1. unfold get_api at 1. rewrite Ha.
      unfold nbind at 1. unfold nlog at 1, nmod at 1. cbn [rev app].
      assert (Hl : Nat.eqb l 0 = false) by (apply Nat.eqb_neq; intro E; apply Hn0; left; exact E).
      rewrite Hl. unfold nbind at 1. unfold nret at 1.
      rewrite (IH (S i) _ h); [| exact Ha | exact Hsk' | intro Hi; apply Hn0; right; exact Hi | cbn in Hh; lia].
      rewrite set_log_log. cbn [map rev]. rewrite <- app_assoc. reflexivity.
  Qed.

  Lemma listeners_length : forall k ls, List.length (listeners_of k ls) <= List.length ls.
  Proof.
    intros k ls. unfold listeners_of. rewrite map_length. induction ls as [|x r IH]; cbn [filter List.length]; [lia|].
    destruct (nkind_eqb (fst x) k); cbn [List.length]; lia.
  Qed.

  Lemma notify_user_frag : forall f k ai fin s a,
      ls_ok (ns_ls s) ->
      nth_error (ns_apis s) ai = Some a ->
      (k = SS -> ec_imm env (ns_nss s) = false) ->
      notify_user tasks env (S (S f)) k ai fin s = Ok (tt, notified k a fin s).
  Proof.
    intros f k ai fin s a Hls Ha Himm. destruct (Hls k) as (rest & HL & Hn0).
    rewrite notify_user_S. unfold nbind at 1. unfold nget at 1. unfold nbind at 1.
    pose proof (listeners_length k (ns_ls s)) as Hlen. rewrite HL in Hlen. cbn [List.length] in Hlen.
    set (e0 := ENotif 0 (notif_of s k a) (ns_running s)).
    set (s1 := reacted k a (s <| ns_log := e0 :: ns_log s |>)).
    assert (E : neach (S f) k ai (S (List.length (ns_ls s))) 0 s
                = Ok (tt, s1 <| ns_log := rev (map (fun l => ENotif l (notif_of s k a) (ns_running s)) rest) ++ ns_log s1 |>)).
    { cbn [neach]. unfold nbind at 1. unfold nget at 1. rewrite HL. cbn [nth_error].
      unfold nbind at 1. unfold get_api at 1. rewrite Ha.
      unfold nbind at 1. unfold nlog at 1, nmod at 1. cbn [rev app Nat.eqb].
      unfold nbind at 1. rewrite (engine_reacts_frag f k ai _ a) by (first [exact Ha|exact Himm]). fold e0. fold s1.
      apply (neach_tail f k ai a rest 1 s1 (List.length (ns_ls s))); [exact Ha| |exact Hn0|lia].
      change (ns_ls s1) with (ns_ls s). rewrite HL. reflexivity. }
    rewrite E. clear E. unfold notified, notif_entries. rewrite HL.
    cbn [map]. fold e0.
    assert (Elog : forall fin0, rev ((e0 :: map (fun l => ENotif l (notif_of s k a) (ns_running s)) rest)
                        ++ map (fun o => EObs o k (a_name a) (ident_nat (a_uuid a)) fin0) (ns_obs s)) ++ ns_log s
                   = rev (map (fun o => EObs o k (a_name a) (ident_nat (a_uuid a)) fin0) (ns_obs s))
                         ++ rev (map (fun l => ENotif l (notif_of s k a) (ns_running s)) rest) ++ e0 :: ns_log s).
    { intro fin0. rewrite rev_app_distr. cbn [rev]. rewrite <- !app_assoc. reflexivity. }
    rewrite Elog.
    destruct fin; unfold nbind, nmod, nret, nget, get_api, nlog.
    - match goal with |- context [nth_error (ns_apis ?X) ai] => change (ns_apis X) with (ns_apis s) end. rewrite Ha.
      match goal with |- context [ns_obs ?X] => change (ns_obs X) with (ns_obs s) end.
      unfold s1, reacted. destruct s; reflexivity.
    - match goal with |- context [nth_error (ns_apis ?X) ai] => change (ns_apis X) with (ns_apis s) end. rewrite Ha.
      match goal with |- context [ns_obs ?X] => change (ns_obs X) with (ns_obs s) end.
      unfold s1, reacted. destruct s; reflexivity.
  Qed.

  Lemma on_task_started_S : forall f ai,
    on_task_started tasks env (S f) ai =
      (a <~ get_api ai ;;
      s <~ nget ;;
      (if a_in_loop a
       then
         u <~ new_test_or_uuid true ;;
         set_api ai (with_uuid u) ;;~
         (if a_has_call a then set_api ai (with_params (a_src a)) else nret tt) ;;~
         substitute_loop_indexes tasks ai
       else if ns_test_ids s
            then u <~ new_test_or_uuid true ;; set_api ai (with_uuid u)
            else nret tt) ;;~
      notify_user tasks env f TS ai false).
  Proof. reflexivity. Qed.

  Definition ts_pre (ai : nat) (s : NS) : NS :=
    s <| ns_tid := S (ns_tid s) |> <| ns_apis := upd ai (with_uuid (ITest (ns_tid s))) (ns_apis s) |>.

  Lemma on_task_started_frag : forall f ai s a,
      ls_ok (ns_ls s) -> ns_test_ids s = true ->
      nth_error (ns_apis s) ai = Some a -> a_in_loop a = false ->
      on_task_started tasks env (S (S (S f))) ai s
      = Ok (tt, notified TS (with_uuid (ITest (ns_tid s)) a) false (ts_pre ai s)).
  Proof.
    intros f ai s a Hls Hti Ha Hloop.
    rewrite on_task_started_S. unfold nbind at 1. unfold get_api at 1. rewrite Ha.
    unfold nbind at 1. unfold nget at 1. rewrite Hloop, Hti.
    unfold nbind at 1. unfold nbind at 1. unfold new_test_or_uuid.
    unfold nbind at 1. unfold nget at 1. rewrite Hti.
    unfold nbind at 1. unfold nmod at 1. unfold nret at 1. unfold set_api, nmod.
    apply notify_user_frag.
    - exact Hls.
    - cbn [ns_apis set]. change (ns_apis (s <| ns_tid := S (ns_tid s) |>)) with (ns_apis s).
      apply nth_error_upd_eq. exact Ha.
    - intro E; discriminate E.
  Qed.

  Lemma on_service_started_S : forall f ai,
    on_service_started tasks env (S f) ai =
      (a <~ get_api ai ;;
      s <~ nget ;;
      let rebind (u : ident) : NetModel.N unit :=
          s <~ nget ;;
          match dict_get ident_eqb (a_uuid a) (ns_place_dict s) with
          | None => nfail (Exn KeyError)
          | Some p => nmod (fun s => s <| ns_place_dict := (u, p) :: ns_place_dict s |>) ;;~
                      set_api ai (with_uuid u)
          end in
      (if a_in_loop a
       then
         u0 <~ fresh_uuid ;;
         u <~ (if ns_test_ids s then new_test_or_uuid false else nret u0) ;;
         rebind u ;;~
         set_api ai (with_params (a_src a)) ;;~
         substitute_loop_indexes tasks ai
       else if ns_test_ids s
            then u <~ new_test_or_uuid false ;; rebind u
            else nret tt) ;;~
      a' <~ get_api ai ;;
      nmod (fun s => s <| ns_awaited := ns_awaited s ++ [EvFinish (a_uuid a')] |>) ;;~
      notify_user tasks env f SS ai false).
  Proof. reflexivity. Qed.

  Definition ss_pre (ai : nat) (p : nat) (s : NS) : NS :=
    s <| ns_sid := S (ns_sid s) |>
      <| ns_place_dict := (ITest (ns_sid s), p) :: ns_place_dict s |>
      <| ns_apis := upd ai (with_uuid (ITest (ns_sid s))) (ns_apis s) |>
      <| ns_awaited := ns_awaited s ++ [EvFinish (ITest (ns_sid s))] |>.

  Lemma on_service_started_eq : forall f ai s a p,
      ns_test_ids s = true ->
      nth_error (ns_apis s) ai = Some a -> a_in_loop a = false ->
      dict_get ident_eqb (a_uuid a) (ns_place_dict s) = Some p ->
      on_service_started tasks env (S (S (S f))) ai s
      = notify_user tasks env (S (S f)) SS ai false (ss_pre ai p s).
  Proof.
    intros f ai s a p Hti Ha Hloop Hd.
    rewrite on_service_started_S. unfold nbind at 1. unfold get_api at 1. rewrite Ha.
    unfold nbind at 1. unfold nget at 1. cbv zeta. rewrite Hloop, Hti.
    unfold nbind at 1. unfold nbind at 1. unfold new_test_or_uuid.
    unfold nbind at 1. unfold nget at 1. rewrite Hti.
    unfold nbind at 1. unfold nmod at 1. unfold nret at 1.
    unfold nbind at 1. unfold nget at 1.
    change (ns_place_dict (s <| ns_sid := S (ns_sid s) |>)) with (ns_place_dict s). rewrite Hd.
    unfold nbind at 1. unfold nmod at 1. unfold set_api at 1. unfold nmod at 1.
    unfold nbind at 1. unfold get_api at 1.
    match goal with |- context [nth_error (ns_apis ?X) ai] =>
      change (ns_apis X) with (upd ai (with_uuid (ITest (ns_sid s))) (ns_apis s)) end.
    rewrite (nth_error_upd_eq _ _ _ _ _ Ha).
    unfold nbind at 1. unfold nmod at 1.
    change (a_uuid (with_uuid (ITest (ns_sid s)) a)) with (ITest (ns_sid s)).
    match goal with |- notify_user _ _ _ _ _ _ ?X = _ => change X with (ss_pre ai p s) end.
    reflexivity.
  Qed.

  Lemma on_service_started_frag : forall f ai s a p,
      ls_ok (ns_ls s) -> ns_test_ids s = true ->
      nth_error (ns_apis s) ai = Some a -> a_in_loop a = false ->
      dict_get ident_eqb (a_uuid a) (ns_place_dict s) = Some p ->
      ec_imm env (ns_nss s) = false ->
      on_service_started tasks env (S (S (S f))) ai s
      = Ok (tt, notified SS (with_uuid (ITest (ns_sid s)) a) false (ss_pre ai p s)).
  Proof.
    intros f ai s a p Hls Hti Ha Hloop Hd Hni.
    rewrite on_service_started_S. unfold nbind at 1. unfold get_api at 1. rewrite Ha.
    unfold nbind at 1. unfold nget at 1. cbv zeta. rewrite Hloop, Hti.
    unfold nbind at 1. unfold nbind at 1. unfold new_test_or_uuid.
    unfold nbind at 1. unfold nget at 1. rewrite Hti.
    unfold nbind at 1. unfold nmod at 1. unfold nret at 1.
    unfold nbind at 1. unfold nget at 1.
    change (ns_place_dict (s <| ns_sid := S (ns_sid s) |>)) with (ns_place_dict s). rewrite Hd.
    unfold nbind at 1. unfold nmod at 1. unfold set_api at 1. unfold nmod at 1.
    unfold nbind at 1. unfold get_api at 1.
    match goal with |- context [nth_error (ns_apis ?X) ai] =>
      change (ns_apis X) with (upd ai (with_uuid (ITest (ns_sid s))) (ns_apis s)) end.
    rewrite (nth_error_upd_eq _ _ _ _ _ Ha).
    unfold nbind at 1. unfold nmod at 1.
    change (a_uuid (with_uuid (ITest (ns_sid s)) a)) with (ITest (ns_sid s)).
    match goal with |- notify_user _ _ _ _ _ _ ?X = _ => change X with (ss_pre ai p s) end.
    apply notify_user_frag.
    - exact Hls.
    - change (ns_apis (ss_pre ai p s)) with (upd ai (with_uuid (ITest (ns_sid s))) (ns_apis s)).
      apply nth_error_upd_eq. exact Ha.
    - intros _. exact Hni.
  Qed.

  (* ---- statements generated inside a loop body (in_loop = true): the parameters are reset
          from their source and the loop indexes are substituted; without counting loops there
          is nothing to substitute ---- *)
  Lemma upd_upd_same : forall A (f g h : A -> A) (l : list A) i,
      (forall x, nth_error l i = Some x -> g (f x) = h x) -> upd i g (upd i f l) = upd i h l.
  Proof.
    intros A f g h l. induction l as [|x l IH]; intros [|i] H; cbn [upd]; [reflexivity|reflexivity| |].
    - f_equal. apply H. reflexivity.
    - f_equal. apply IH. intros y Hy. apply H. exact Hy.
  Qed.

  (* ---- when substitute_loop_indexes changes nothing ---- *)
  Definition idxfree_pe (e : pelem) : bool := match e with PIdxVar _ => false | _ => true end.
  Definition idxfree_p (p : param) : bool := match p with PPath _ l => forallb idxfree_pe l | _ => true end.
  Definition idxfree (ps : list param) : bool := forallb idxfree_p ps.
  Definition plain (d : list (lkey * cval)) : Prop := Forall (fun kv => exists n, snd kv = CInt n) d.
  (* the parameters of [a] have nothing to substitute in the state [s] *)
  Definition sub_ok (s : NS) (a : api) : Prop :=
    forall ci c d, a_ctx a = Some ci -> nth_error (ns_apis s) ci = Some c ->
                   dict_get ident_eqb (a_uuid c) (ns_counters s) = Some d ->
                   plain d /\ (d = [] \/ idxfree (a_src a) = true).

  Lemma subst_path_id : forall cur raised l, cur = [] \/ forallb idxfree_pe l = true ->
      subst_path cur raised l = (l, cur, raised).
  Proof.
    intros cur raised l. revert cur raised. induction l as [|e r IH]; intros cur raised H; [reflexivity|].
    cbn [subst_path].
    assert (E1 : subst_one cur raised e = (e, cur, raised)).
    { destruct H as [->|H]; [destruct e; reflexivity|].
      cbn [forallb] in H. apply andb_prop in H. destruct H as [H _]. destruct e; try reflexivity. discriminate H. }
    rewrite E1. rewrite IH; [reflexivity|].
    destruct H as [H|H]; [left; exact H|right]. cbn [forallb] in H. apply andb_prop in H. apply H.
  Qed.

  Lemma subst_all_id : forall cur raised ps, cur = [] \/ idxfree ps = true ->
      subst_all cur raised ps = (ps, cur).
  Proof.
    intros cur raised ps. revert cur raised. induction ps as [|p r IH]; intros cur raised H; [reflexivity|].
    assert (Hr : cur = [] \/ idxfree r = true).
    { destruct H as [H|H]; [left; exact H|right]. unfold idxfree in H. cbn [forallb] in H. apply andb_prop in H. apply H. }
    destruct p as [v|v l|sn j]; cbn [subst_all]; try (rewrite (IH cur raised Hr); reflexivity).
    rewrite subst_path_id.
    - rewrite (IH cur raised Hr). reflexivity.
    - destruct H as [H|H]; [left; exact H|right]. unfold idxfree in H. cbn [forallb idxfree_p] in H.
      apply andb_prop in H. apply H.
  Qed.

  Lemma ident_eqb_eq : forall a b, ident_eqb a b = true -> a = b.
  Proof. intros [i|i] [j|j] H; cbn [ident_eqb] in H; try discriminate H; apply Nat.eqb_eq in H; subst; reflexivity. Qed.
  Lemma ident_eqb_refl : forall a, ident_eqb a a = true.
  Proof. intros [i|i]; cbn [ident_eqb]; apply Nat.eqb_refl. Qed.

  Lemma dict_set_same : forall (V : Type) u (d : V) l,
      dict_get ident_eqb u l = Some d -> dict_set ident_eqb u d l = l.
  Proof.
    intros V u d. induction l as [|[k v] r IH]; intros H; cbn [dict_get] in H; [discriminate H|].
    cbn [dict_set]. destruct (ident_eqb u k) eqn:E.
    - apply ident_eqb_eq in E. inversion H; subst. reflexivity.
    - rewrite (IH H). reflexivity.
  Qed.

  Lemma plain_map_id : forall (cur' : list (name * cval)) d, plain d ->
      map (fun kv : lkey * cval =>
             match fst kv, snd kv with
             | KVar v, CPar _ => match dict_get Nat.eqb v cur' with
                                 | Some (CPar z) => (fst kv, CPar z)
                                 | _ => kv
                                 end
             | _, _ => kv
             end) d = d.
  Proof.
    intros cur' d H. induction H as [|[k v] r (n & Hn) Hr IH]; [reflexivity|].
    cbn [map]. rewrite IH. cbn [fst snd] in *. subst v. destruct k; reflexivity.
  Qed.

  Lemma subst_loop_noop : forall ai s a,
      nth_error (ns_apis s) ai = Some a ->
      (forall ci, a_ctx a = Some ci -> exists c, nth_error (ns_apis s) ci = Some c) ->
      a_params a = a_src a -> sub_ok s a ->
      substitute_loop_indexes tasks ai s = Ok (tt, s).
  Proof.
    intros ai s a Ha Hc Hps Hn. unfold substitute_loop_indexes. unfold nbind at 1. unfold get_api at 1. rewrite Ha.
    destruct (a_ctx a) as [ci|] eqn:E; [|reflexivity].
    destruct (Hc ci eq_refl) as [c Hci]. unfold nbind at 1. unfold get_api at 1. rewrite Hci.
    unfold nbind at 1. unfold nget at 1.
    destruct (dict_get ident_eqb (a_uuid c) (ns_counters s)) as [d|] eqn:Ed; [|reflexivity].
    destruct (Hn ci c d E Hci Ed) as [Hpl Hfree].
    rewrite Hps.
    rewrite (subst_all_id (current_counters' tasks d) [] (a_src a)).
    - rewrite plain_map_id by exact Hpl.
      unfold nbind, set_api, nmod. f_equal. f_equal.
      change (ns_counters (s <| ns_apis := upd ai (with_params (a_src a)) (ns_apis s) |>)) with (ns_counters s).
      rewrite (dict_set_same _ _ _ _ Ed).
      rewrite <- Hps.
      rewrite (upd_same _ (with_params (a_params a)) (ns_apis s) ai a Ha (with_params_same a)).
      destruct s; reflexivity.
    - destruct Hfree as [->|Hf]; [left; reflexivity|right; exact Hf].
  Qed.

  Lemma sub_ok_nil : forall s a, ns_counters s = [] -> sub_ok s a.
  Proof. intros s a H ci c d _ _ Hd. rewrite H in Hd. discriminate Hd. Qed.

  (* ---- the callbacks of API objects inside loops: the identifier is renewed, the parameter
          list is reset to the source list and the loop indices are substituted ---- *)
  Definition reid (u : ident) (ps : list param) (x : api) : api := with_params ps (with_uuid u x).
  (* what substitute_loop_indexes does to the parameters of [a] once its identifier is renewed
     and its parameter list reset: the result is [ps], nothing else changes *)
  Definition sub_to (s : NS) (ai : nat) (a : api) (ps : list param) : Prop :=
    forall s1 u, nth_error (ns_apis s1) ai = Some (reid u (a_src a) a) ->
                 ns_counters s1 = ns_counters s ->
                 (forall k, k <> ai -> nth_error (ns_apis s1) k = nth_error (ns_apis s) k) ->
                 substitute_loop_indexes tasks ai s1 = Ok (tt, s1 <| ns_apis := upd ai (with_params ps) (ns_apis s1) |>).

  Definition ts_pre_l (ai : nat) (ps : list param) (s : NS) : NS :=
    s <| ns_tid := S (ns_tid s) |> <| ns_apis := upd ai (reid (ITest (ns_tid s)) ps) (ns_apis s) |>.

  Lemma upd_reid : forall u ps src (l : list api) ai,
      upd ai (with_params ps) (upd ai (with_params src) (upd ai (with_uuid u) l)) = upd ai (reid u ps) l.
  Proof.
    intros u ps src l ai.
    rewrite (upd_upd_same _ (with_uuid u) (with_params src) (reid u src) l ai) by (intros; reflexivity).
    apply upd_upd_same. intros; reflexivity.
  Qed.

  Lemma on_task_started_loop : forall f ai s a ps,
      ls_ok (ns_ls s) -> ns_test_ids s = true ->
      nth_error (ns_apis s) ai = Some a -> a_in_loop a = true -> a_has_call a = true ->
      sub_to s ai a ps ->
      on_task_started tasks env (S (S (S f))) ai s
      = Ok (tt, notified TS (reid (ITest (ns_tid s)) ps a) false (ts_pre_l ai ps s)).
  Proof.
    intros f ai s a ps Hls Hti Ha Hloop Hhc Hsub.
    rewrite on_task_started_S. unfold nbind at 1. unfold get_api at 1. rewrite Ha.
    unfold nbind at 1. unfold nget at 1. rewrite Hloop.
    unfold nbind at 1. unfold nbind at 1. unfold nbind at 1. unfold new_test_or_uuid.
    unfold nbind at 1. unfold nget at 1. rewrite Hti.
    unfold nbind at 1. unfold nmod at 1. unfold nret at 1.
    unfold nbind at 1. unfold set_api at 1. unfold nmod at 1.
    set (s1 := (s <| ns_tid := S (ns_tid s) |>) <| ns_apis := upd ai (with_uuid (ITest (ns_tid s))) (ns_apis (s <| ns_tid := S (ns_tid s) |>)) |>).
    set (s2 := s1 <| ns_apis := upd ai (with_params (a_src a)) (ns_apis s1) |>).
    assert (Estep : (if a_has_call a then set_api ai (with_params (a_src a)) else nret tt) s1 = Ok (tt, s2)).
    { rewrite Hhc. reflexivity. }
    rewrite Estep.
    assert (Ha2 : nth_error (ns_apis s2) ai = Some (reid (ITest (ns_tid s)) (a_src a) a)).
    { unfold s2, s1. cbn [ns_apis set]. change (ns_apis (s <| ns_tid := S (ns_tid s) |>)) with (ns_apis s).
      rewrite (upd_upd_same _ (with_uuid (ITest (ns_tid s))) (with_params (a_src a)) (reid (ITest (ns_tid s)) (a_src a)) (ns_apis s) ai)
        by (intros; reflexivity).
      apply nth_error_upd_eq. exact Ha. }
    rewrite (Hsub s2 (ITest (ns_tid s)) Ha2).
    - assert (E : s2 <| ns_apis := upd ai (with_params ps) (ns_apis s2) |> = ts_pre_l ai ps s).
      { unfold s2, s1, ts_pre_l. cbn [ns_apis set]. change (ns_apis (s <| ns_tid := S (ns_tid s) |>)) with (ns_apis s).
        rewrite upd_reid. destruct s; reflexivity. }
      rewrite E. apply notify_user_frag; [exact Hls| |intro E0; discriminate E0].
      unfold ts_pre_l. cbn [ns_apis set]. apply nth_error_upd_eq. exact Ha.
    - reflexivity.
    - intros k Hk. unfold s2, s1. cbn [ns_apis set]. change (ns_apis (s <| ns_tid := S (ns_tid s) |>)) with (ns_apis s).
      rewrite !nth_error_upd_neq by congruence. reflexivity.
  Qed.

  (* the service callback draws a uuid4 first, even in test-id mode *)
  Definition ss_pre_loop (ai : nat) (p : nat) (s : NS) : NS := ss_pre ai p (s <| ns_fresh := S (ns_fresh s) |>).
  Definition ss_pre_l (ai : nat) (p : nat) (ps : list param) (s : NS) : NS :=
    (s <| ns_fresh := S (ns_fresh s) |>)
      <| ns_sid := S (ns_sid s) |>
      <| ns_place_dict := (ITest (ns_sid s), p) :: ns_place_dict s |>
      <| ns_apis := upd ai (reid (ITest (ns_sid s)) ps) (ns_apis s) |>
      <| ns_awaited := ns_awaited s ++ [EvFinish (ITest (ns_sid s))] |>.

  Lemma on_service_started_loop_eq : forall f ai s a p ps,
      ns_test_ids s = true ->
      nth_error (ns_apis s) ai = Some a -> a_in_loop a = true ->
      sub_to s ai a ps ->
      dict_get ident_eqb (a_uuid a) (ns_place_dict s) = Some p ->
      on_service_started tasks env (S (S (S f))) ai s
      = notify_user tasks env (S (S f)) SS ai false (ss_pre_l ai p ps s).
  Proof.
    intros f ai s a p ps Hti Ha Hloop Hsub Hd.
    rewrite on_service_started_S. unfold nbind at 1. unfold get_api at 1. rewrite Ha.
    unfold nbind at 1. unfold nget at 1. cbv zeta. rewrite Hloop, Hti.
    unfold nbind at 1. unfold nbind at 1. unfold fresh_uuid at 1.
    unfold nbind at 1. unfold new_test_or_uuid at 1.
    unfold nbind at 1. unfold nget at 1.
    change (ns_test_ids (s <| ns_fresh := S (ns_fresh s) |>)) with (ns_test_ids s). rewrite Hti.
    unfold nbind at 1. unfold nmod at 1. unfold nret at 1.
    unfold nbind at 1. unfold nbind at 1. unfold nget at 1.
    set (sf := s <| ns_fresh := S (ns_fresh s) |>).
    change (ns_place_dict (sf <| ns_sid := S (ns_sid sf) |>)) with (ns_place_dict s). rewrite Hd.
    unfold nbind at 1. unfold nmod at 1. unfold set_api at 1. unfold nmod at 1.
    change (ns_sid sf) with (ns_sid s).
    set (s1 := ((sf <| ns_sid := S (ns_sid s) |>) <| ns_place_dict := _ |>) <| ns_apis := _ |>).
    set (s2 := s1 <| ns_apis := upd ai (with_params (a_src a)) (ns_apis s1) |>).
    assert (Estep : set_api ai (with_params (a_src a)) s1 = Ok (tt, s2)) by reflexivity.
    unfold nbind at 1. rewrite Estep.
    assert (Ha2 : nth_error (ns_apis s2) ai = Some (reid (ITest (ns_sid s)) (a_src a) a)).
    { unfold s2, s1. cbn [ns_apis set].
      match goal with |- nth_error (upd ai ?g (upd ai ?h ?l)) ai = _ =>
        rewrite (upd_upd_same _ h g (reid (ITest (ns_sid s)) (a_src a)) l ai) by (intros; reflexivity) end.
      apply nth_error_upd_eq. exact Ha. }
    unfold nbind at 1. rewrite (Hsub s2 (ITest (ns_sid s)) Ha2).
    - assert (E : s2 <| ns_apis := upd ai (with_params ps) (ns_apis s2) |>
                  = (ss_pre_l ai p ps s) <| ns_awaited := ns_awaited s |>).
      { unfold s2, s1, ss_pre_l, sf. cbn [ns_apis set]. rewrite upd_reid. destruct s; reflexivity. }
      rewrite E.
      unfold nbind at 1. unfold get_api at 1.
      assert (Ha3 : nth_error (ns_apis ((ss_pre_l ai p ps s) <| ns_awaited := ns_awaited s |>)) ai
                    = Some (reid (ITest (ns_sid s)) ps a)).
      { unfold ss_pre_l. cbn [ns_apis set]. apply nth_error_upd_eq. exact Ha. }
      rewrite Ha3. unfold nmod at 1.
      change (a_uuid (reid (ITest (ns_sid s)) ps a)) with (ITest (ns_sid s)).
      match goal with |- notify_user _ _ _ _ _ _ ?X = _ => assert (EX : X = ss_pre_l ai p ps s) by (destruct s; reflexivity) end.
      rewrite EX. reflexivity.
    - reflexivity.
    - intros k Hk. unfold s2, s1. cbn [ns_apis set]. rewrite !nth_error_upd_neq by congruence. reflexivity.
  Qed.

  Lemma on_service_started_loop : forall f ai s a p ps,
      ls_ok (ns_ls s) -> ns_test_ids s = true ->
      nth_error (ns_apis s) ai = Some a -> a_in_loop a = true ->
      sub_to s ai a ps ->
      dict_get ident_eqb (a_uuid a) (ns_place_dict s) = Some p ->
      ec_imm env (ns_nss s) = false ->
      on_service_started tasks env (S (S (S f))) ai s
      = Ok (tt, notified SS (reid (ITest (ns_sid s)) ps a) false (ss_pre_l ai p ps s)).
  Proof.
    intros f ai s a p ps Hls Hti Ha Hloop Hsub Hd Hni.
    rewrite (on_service_started_loop_eq f ai s a p ps Hti Ha Hloop Hsub Hd).
    apply notify_user_frag; [exact Hls| |intros _; exact Hni].
    unfold ss_pre_l. cbn [ns_apis set]. apply nth_error_upd_eq. exact Ha.
  Qed.

  Lemma run_cb_TS_loop : forall f ai s a ps,
      ls_ok (ns_ls s) -> ns_test_ids s = true ->
      nth_error (ns_apis s) ai = Some a -> a_in_loop a = true -> a_has_call a = true ->
      sub_to s ai a ps ->
      run_cb tasks env (S (S (S (S f)))) (CbTS ai) s
      = Ok (tt, notified TS (reid (ITest (ns_tid s)) ps a) false (ts_pre_l ai ps s)).
  Proof. intros. rewrite run_cb_S. apply on_task_started_loop; assumption. Qed.

  Lemma run_cb_SS_loop : forall f ai s a p ps,
      ls_ok (ns_ls s) -> ns_test_ids s = true ->
      nth_error (ns_apis s) ai = Some a -> a_in_loop a = true ->
      sub_to s ai a ps ->
      dict_get ident_eqb (a_uuid a) (ns_place_dict s) = Some p ->
      ec_imm env (ns_nss s) = false ->
      run_cb tasks env (S (S (S (S f)))) (CbSS ai) s
      = Ok (tt, notified SS (reid (ITest (ns_sid s)) ps a) false (ss_pre_l ai p ps s)).
  Proof. intros. rewrite run_cb_S. apply on_service_started_loop; assumption. Qed.

  (* ---- the four notification callbacks, for every sufficiently large fuel ---- *)
  Lemma run_cb_TS : forall f ai s a,
      ls_ok (ns_ls s) -> ns_test_ids s = true ->
      nth_error (ns_apis s) ai = Some a -> a_in_loop a = false ->
      run_cb tasks env (S (S (S (S f)))) (CbTS ai) s
      = Ok (tt, notified TS (with_uuid (ITest (ns_tid s)) a) false (ts_pre ai s)).
  Proof. intros. rewrite run_cb_S. apply on_task_started_frag; assumption. Qed.

  Lemma run_cb_SS : forall f ai s a p,
      ls_ok (ns_ls s) -> ns_test_ids s = true ->
      nth_error (ns_apis s) ai = Some a -> a_in_loop a = false ->
      dict_get ident_eqb (a_uuid a) (ns_place_dict s) = Some p ->
      ec_imm env (ns_nss s) = false ->
      run_cb tasks env (S (S (S (S f)))) (CbSS ai) s
      = Ok (tt, notified SS (with_uuid (ITest (ns_sid s)) a) false (ss_pre ai p s)).
  Proof. intros. rewrite run_cb_S. apply on_service_started_frag; assumption. Qed.

  Lemma run_cb_SF : forall f ai s a,
      ls_ok (ns_ls s) ->
      nth_error (ns_apis s) ai = Some a ->
      run_cb tasks env (S (S (S (S f)))) (CbSF ai) s = Ok (tt, notified SF a false s).
  Proof.
    intros. rewrite run_cb_S, on_service_finished_S. apply notify_user_frag; try assumption. intro E; discriminate E.
  Qed.

  Lemma run_cb_TF : forall f ai s a,
      ls_ok (ns_ls s) ->
      nth_error (ns_apis s) ai = Some a ->
      run_cb tasks env (S (S (S (S f)))) (CbTF ai) s
      = Ok (tt, notified TF a (Nat.eqb (a_name a) production_task) s).
  Proof.
    intros f ai s a Hls Ha. rewrite run_cb_S, on_task_finished_S.
    unfold nbind, get_api. rewrite Ha. apply notify_user_frag; try assumption. intro E; discriminate E.
  Qed.

  (* ---- a service that the engine reports as finished from inside its started notification
          (the engine is the only function registered for service-started notifications and no
          observer is attached: otherwise the rest of the notification would be served after
          everything that the completion triggers) ---- *)
  Definition imm_mid (a : api) (s : NS) : NS :=
    (s <| ns_log := ENotif 0 (notif_of s SS a) (ns_running s) :: ns_log s |>)
      <| ns_pending := ns_pending s ++ [a_uuid a] |> <| ns_nss := S (ns_nss s) |>.
  Definition bump (s : NS) : NS := s <| ns_nnot := S (ns_nnot s) |>.

  Definition imm_er (a : api) (s : NS) : NS :=
    s <| ns_pending := ns_pending s ++ [a_uuid a] |> <| ns_nss := S (ns_nss s) |>.

  Lemma engine_reacts_imm : forall f ai s a s',
      nth_error (ns_apis s) ai = Some a -> ec_imm env (ns_nss s) = true ->
      sched_fire_event tasks env f (EvFinish (a_uuid a)) (imm_er a s) = Ok (true, s') ->
      engine_reacts tasks env (S f) SS ai s = Ok (tt, bump s').
  Proof.
    intros f ai s a s' Ha Himm Hfire. destruct Hq as (Hreact & Hmut).
    rewrite engine_reacts_S. unfold nbind at 1. unfold get_api at 1. rewrite Ha.
    cbv zeta. rewrite Hmut. unfold hostile.
    unfold nbind at 1. unfold nbind at 1. unfold nbind at 1. unfold nmod at 1.
    unfold set_api at 1. unfold nmod at 1.
    set (s1 := (s <| ns_pending := ns_pending s ++ [a_uuid a] |>) <| ns_apis := _ |>).
    assert (E1 : s1 = s <| ns_pending := ns_pending s ++ [a_uuid a] |>).
    { unfold s1. cbn [ns_apis set]. rewrite (upd_same _ _ _ _ _ Ha (with_params_same a)). destruct s; reflexivity. }
    rewrite E1. clear s1 E1.
    unfold nbind at 1. unfold nget at 1. unfold nbind at 1. unfold nmod at 1.
    change (ns_nss (s <| ns_pending := ns_pending s ++ [a_uuid a] |>)) with (ns_nss s). rewrite Himm.
    unfold nbind at 1. fold (imm_er a s). rewrite Hfire. unfold nret at 1.
    unfold nbind at 1. unfold nget at 1. unfold nbind at 1. unfold nmod at 1.
    rewrite Hreact, orb_true_r. reflexivity.
  Qed.

  Lemma notify_user_imm : forall f ai s a s',
      listeners_of SS (ns_ls s) = [0] -> nth_error (ns_apis s) ai = Some a -> ec_imm env (ns_nss s) = true ->
      sched_fire_event tasks env f (EvFinish (a_uuid a)) (imm_mid a s) = Ok (true, s') ->
      listeners_of SS (ns_ls s') = [0] -> ns_obs s' = [] -> (exists a', nth_error (ns_apis s') ai = Some a') ->
      notify_user tasks env (S (S f)) SS ai false s = Ok (tt, bump s').
  Proof.
    intros f ai s a s' HL Ha Himm Hfire HL' Hobs' [a' Ha'].
    rewrite notify_user_S. unfold nbind at 1. unfold nget at 1. unfold nbind at 1.
    assert (E : neach (S f) SS ai (S (List.length (ns_ls s))) 0 s = Ok (tt, bump s')).
    { cbn [neach]. unfold nbind at 1. unfold nget at 1. rewrite HL. cbn [nth_error].
      unfold nbind at 1. unfold get_api at 1. rewrite Ha.
      unfold nbind at 1. unfold nlog at 1, nmod at 1. cbn [rev app Nat.eqb].
      unfold nbind at 1.
      rewrite (engine_reacts_imm f ai _ a s'); [| exact Ha | exact Himm | exact Hfire].
      destruct (List.length (ns_ls s)) as [|h] eqn:EL; cbn [neach].
      - exfalso. pose proof (listeners_length SS (ns_ls s)) as Hl. rewrite HL, EL in Hl. cbn in Hl. lia.
      - unfold nbind at 1. unfold nget at 1.
        change (ns_ls (bump s')) with (ns_ls s'). rewrite HL'. reflexivity. }
    rewrite E. unfold nbind at 1. unfold nret at 1.
    unfold nbind at 1. unfold get_api at 1. change (ns_apis (bump s')) with (ns_apis s'). rewrite Ha'.
    unfold nbind at 1. unfold nget at 1. change (ns_obs (bump s')) with (ns_obs s'). rewrite Hobs'.
    unfold nlog, nmod. cbn [map rev app]. rewrite set_log_same. reflexivity.
  Qed.

  Definition ss_pre0 (il : bool) (ai p : nat) (ps : list param) (s : NS) : NS := if il then ss_pre_l ai p ps s else ss_pre ai p s.
  Lemma reid_same : forall u a, reid u (a_params a) a = with_uuid u a.
  Proof. intros u a. destruct a; reflexivity. Qed.
End Cbs.

(* =========================================================================== *)
(* fuel-free description of one evaluation                                      *)
(* =========================================================================== *)
Definition fire_ns (t : trans) (s : NS) : NS :=
  s <| ns_places := fold_left (fun ps p => upd p (option_map S) ps) (tr_post t)
                      (fold_left (fun ps p => upd p (option_map Nat.pred) ps) (tr_pre t) (ns_places s)) |>.

Lemma fire_trans_eq : forall t s, fire_trans t s = Ok (tt, fire_ns t s).
Proof. reflexivity. Qed.

Definition no_parloop (l : list cb) : bool := forallb (fun c => negb (is_parloop_cb c)) l.

Lemma find_pl_none : forall l, no_parloop l = true ->
    forall h i temp, find_pl h i l temp = (temp, l).
Proof.
  intros l Hl. induction h as [|h IH]; intros i temp; cbn [find_pl]; [reflexivity|].
  destruct (nth_error l i) as [c|] eqn:E; [|reflexivity].
  assert (Hc : is_parloop_cb c = false).
  { unfold no_parloop in Hl. rewrite forallb_forall in Hl.
    apply nth_error_In in E. apply Hl in E. destruct (is_parloop_cb c); [discriminate|reflexivity]. }
  rewrite Hc. apply IH.
Qed.

Section Scan.
  Variable tasks : list task.
  Variable env : envcfg.

  Definition RunCb (c : cb) (s s' : NS) : Prop :=
    exists f0, forall f, f0 <= f -> run_cb tasks env f c s = Ok (tt, s').

  (* the callbacks of transition [t], from position [i] on, run in order; the list is [cbs]
     throughout *)
  Inductive RunFrom (t : nat) (cbs : list cb) : nat -> NS -> NS -> Prop :=
  | rf_end : forall i s, nth t (ns_cbs s) [] = cbs -> nth_error cbs i = None -> RunFrom t cbs i s s
  | rf_cb : forall i c s s1 s', nth t (ns_cbs s) [] = cbs -> nth_error cbs i = Some c ->
                                RunCb c s s1 -> RunFrom t cbs (S i) s1 s' -> RunFrom t cbs i s s'.

  Lemma eachF_S : forall f t h i s,
      eachF tasks env f t (S h) i s =
      match nth_error (nth t (ns_cbs s) []) i with
      | None => Ok (tt, s)
      | Some c => match run_cb tasks env f c s with
                  | Ok (_, s1) => eachF tasks env f t h (S i) s1
                  | Fuel => Fuel | Exn k => Exn k | Unsupported => Unsupported
                  end
      end.
  Proof.
    intros. cbn [eachF]. unfold nbind, nget, nret.
    destruct (nth_error (nth t (ns_cbs s) []) i); [|reflexivity].
    destruct (run_cb tasks env f c s) as [[[] s1]| | |]; reflexivity.
  Qed.

  Lemma RunFrom_eachF : forall t cbs i s s',
      RunFrom t cbs i s s' ->
      exists f0, forall f h, f0 <= f -> List.length cbs - i < h ->
                             eachF tasks env f t h i s = Ok (tt, s').
  Proof.
    intros t cbs i s s' H. induction H as [i s Hl Hn|i c s s1 s' Hl Hn [fc Hc] _ [f0 IH]].
    - exists 0. intros f h _ Hh. destruct h as [|h]; [lia|]. rewrite eachF_S, Hl, Hn. reflexivity.
    - exists (Nat.max fc f0). intros f h Hf Hh.
      assert (Hi : i < List.length cbs) by (apply nth_error_Some; congruence).
      destruct h as [|h]; [lia|]. rewrite eachF_S, Hl, Hn, (Hc f) by lia. apply IH; lia.
  Qed.

  Definition ScanTo (n : nat) (s s' : NS) : Prop :=
    exists f0 g0, forall f g, f0 <= f -> g0 <= g -> scanF tasks env f n g 0 s = Ok (tt, s').

  Definition EvalTo (s s' : NS) : Prop :=
    exists f0, forall f, f0 <= f -> evaluate tasks env f s = Ok (tt, s').

  Lemma ScanTo_EvalTo : forall s s', ScanTo (List.length (ns_trans s)) s s' -> EvalTo s s'.
  Proof.
    intros s s' (f0 & g0 & H). exists (S (Nat.max f0 g0)). intros f Hf.
    destruct f as [|f]; [lia|]. rewrite evaluate_S. apply H; lia.
  Qed.

  (* transition [i] cannot fire *)
  Definition disabled (s : NS) (i : nat) : Prop :=
    match nth_error (ns_trans s) i with Some t => enabled s t = false | None => True end.

  Lemma scanF_S : forall f n g index s,
      scanF tasks env f n (S g) index s =
      if Nat.leb n index then Ok (tt, s)
      else match nth_error (ns_trans s) index with
           | None => Ok (tt, s)
           | Some t =>
             if enabled s t then
               let cbs := nth index (ns_cbs s) [] in
               let '(temp, cbs1) := find_pl (S (List.length cbs)) 0 cbs None in
               match temp with
               | Some pl =>
                 (nmod (fun s => s <| ns_cbs := upd index (fun _ => cbs1) (ns_cbs s) |>) ;;~
                  nfor cbs1 (fun c =>
                               run_cb tasks env f c ;;~
                               nmod (fun s => s <| ns_cbs := upd index
                                                    (fun l => match l with [] => [] | _ :: r => r end) (ns_cbs s) |>)) ;;~
                  run_cb tasks env f pl) s
               | None =>
                 match eachF tasks env f index (S (S (List.length cbs))) 0 (fire_ns t s) with
                 | Ok (_, s1) => scanF tasks env f n g 0 s1
                 | Fuel => Fuel | Exn k => Exn k | Unsupported => Unsupported
                 end
               end
             else scanF tasks env f n g (S index) s
           end.
  Proof.
    intros. cbn [scanF]. destruct (Nat.leb n index); [reflexivity|].
    unfold nbind at 1. unfold nget at 1.
    destruct (nth_error (ns_trans s) index) as [t|]; [|reflexivity].
    destruct (enabled s t); [|reflexivity].
    cbv zeta. destruct (find_pl (S (List.length (nth index (ns_cbs s) []))) 0 (nth index (ns_cbs s) []) None) as [[pl|] cbs1];
      [reflexivity|].
    unfold nbind. rewrite fire_trans_eq.
    destruct (eachF tasks env f index (S (S (List.length (nth index (ns_cbs s) [])))) 0 (fire_ns t s)) as [[[] s1]| | |];
      reflexivity.
  Qed.

  Lemma scan_skip : forall f n s k g index,
      index + k <= n -> index + k <= List.length (ns_trans s) ->
      (forall j, index <= j < index + k -> disabled s j) ->
      scanF tasks env f n (k + g) index s = scanF tasks env f n g (index + k) s.
  Proof.
    intros f n s. induction k as [|k IH]; intros g index Hn Hl Hd.
    - rewrite Nat.add_0_r. reflexivity.
    - cbn [Nat.add]. rewrite scanF_S. rewrite (proj2 (Nat.leb_gt n index)) by lia.
      pose proof (Hd index ltac:(lia)) as H0. unfold disabled in H0.
      destruct (nth_error (ns_trans s) index) as [t|] eqn:E.
      + rewrite H0. replace (index + S k) with (S index + k) by lia.
        apply IH; try lia. intros j Hj. apply Hd. lia.
      + apply nth_error_None in E. lia.
  Qed.

  (* nothing below the snapshot is enabled: the evaluation returns *)
  Lemma ScanTo_dead : forall n s, (forall j, j < n -> disabled s j) -> ScanTo n s s.
  Proof.
    intros n s Hd. exists 0, (S n). intros f g _ Hg.
    set (m := Nat.min n (List.length (ns_trans s))).
    replace g with (m + S (g - m - 1)) by lia.
    rewrite (scan_skip f n s m (S (g - m - 1)) 0) by (try lia; intros j Hj; apply Hd; lia).
    cbn [Nat.add]. rewrite scanF_S.
    destruct (Nat.leb n m) eqn:E; [reflexivity|]. apply Nat.leb_gt in E.
    assert (Hm : m = List.length (ns_trans s)) by lia.
    destruct (nth_error (ns_trans s) m) eqn:E2; [|reflexivity].
    assert (m < List.length (ns_trans s)) by (apply nth_error_Some; congruence). lia.
  Qed.

  (* the first enabled transition fires, its callbacks run, the scan restarts *)
  Lemma ScanTo_step : forall n s t tr cbs s1 s',
      t < n -> (forall j, j < t -> disabled s j) ->
      nth_error (ns_trans s) t = Some tr -> enabled s tr = true ->
      nth t (ns_cbs s) [] = cbs -> no_parloop cbs = true ->
      RunFrom t cbs 0 (fire_ns tr s) s1 ->
      ScanTo n s1 s' -> ScanTo n s s'.
  Proof.
    intros n s t tr cbs s1 s' Htn Hd Htr Hen Hcbs Hnp Hrun (f1 & g1 & Hscan).
    destruct (RunFrom_eachF _ _ _ _ _ Hrun) as [f0 Heach].
    assert (Hlen : t < List.length (ns_trans s)) by (apply nth_error_Some; congruence).
    exists (Nat.max f0 f1), (t + S g1). intros f g Hf Hg.
    replace g with (t + (S (g - t - 1))) by lia.
    rewrite (scan_skip f n s t (S (g - t - 1)) 0) by (try lia; intros j Hj; apply Hd; lia).
    cbn [Nat.add]. rewrite scanF_S.
    rewrite (proj2 (Nat.leb_gt n t)) by lia. rewrite Htr, Hen. cbv zeta.
    rewrite Hcbs, (find_pl_none _ Hnp).
    rewrite Heach by lia. apply Hscan; lia.
  Qed.
End Scan.

(* ---- projections of the states the notification callbacks produce ---- *)
Section Proj.
  Variables (k : nkind) (a : api) (fin : bool) (ai p : nat) (s : NS).
  Lemma nf_places : ns_places (notified k a fin s) = ns_places s. Proof. destruct fin; reflexivity. Qed.
  Lemma nf_trans : ns_trans (notified k a fin s) = ns_trans s. Proof. destruct fin; reflexivity. Qed.
  Lemma nf_cbs : ns_cbs (notified k a fin s) = ns_cbs s. Proof. destruct fin; reflexivity. Qed.
  Lemma nf_place_dict : ns_place_dict (notified k a fin s) = ns_place_dict s. Proof. destruct fin; reflexivity. Qed.
  Lemma nf_apis : ns_apis (notified k a fin s) = ns_apis s. Proof. destruct fin; reflexivity. Qed.
  Lemma nf_start_place : ns_start_place (notified k a fin s) = ns_start_place s. Proof. destruct fin; reflexivity. Qed.
  Lemma nf_final_place : ns_final_place (notified k a fin s) = ns_final_place s. Proof. destruct fin; reflexivity. Qed.
  Lemma nf_fresh : ns_fresh (notified k a fin s) = ns_fresh s. Proof. destruct fin; reflexivity. Qed.
  Lemma nf_test_ids : ns_test_ids (notified k a fin s) = ns_test_ids s. Proof. destruct fin; reflexivity. Qed.
  Lemma nf_awaited : ns_awaited (notified k a fin s) = ns_awaited s. Proof. destruct fin; reflexivity. Qed.
  Lemma nf_counters : ns_counters (notified k a fin s) = ns_counters s. Proof. destruct fin; reflexivity. Qed.
  Lemma nf_tid : ns_tid (notified k a fin s) = ns_tid s. Proof. destruct fin; reflexivity. Qed.
  Lemma nf_sid : ns_sid (notified k a fin s) = ns_sid s. Proof. destruct fin; reflexivity. Qed.
  Lemma nf_ls : ns_ls (notified k a fin s) = ns_ls s. Proof. destruct fin; reflexivity. Qed.
  Lemma nf_obs : ns_obs (notified k a fin s) = ns_obs s. Proof. destruct fin; reflexivity. Qed.
  Lemma nf_q : ns_q (notified k a fin s) = ns_q s. Proof. destruct fin; reflexivity. Qed.
  Lemma nf_running : ns_running (notified k a fin s) = if fin then false else ns_running s. Proof. destruct fin; reflexivity. Qed.
  Lemma nf_log : ns_log (notified k a fin s) = rev (notif_entries k a fin s) ++ ns_log s. Proof. destruct fin; reflexivity. Qed.
  Lemma nf_nss : ns_nss (notified k a fin s) = match k with SS => S (ns_nss s) | _ => ns_nss s end. Proof. destruct fin; reflexivity. Qed.
  Lemma nf_pending : ns_pending (notified k a fin s) = pend_after k (a_uuid a) (ns_pending s). Proof. destruct fin; reflexivity. Qed.
End Proj.

(* =========================================================================== *)
(* Scheduler.fire_event / PetriNetLogic.fire_event                              *)
(* =========================================================================== *)
Definition placed (p : nat) (s : NS) : NS := s <| ns_places := upd p (option_map S) (ns_places s) |>.

Section Fire.
  Variable tasks : list task.
  Variable env : envcfg.

  Lemma logic_fire_event_S : forall f ev s,
      logic_fire_event tasks env (S f) ev s =
      match (match ev with
             | EvStart => Ok (Some (ns_start_place s))
             | EvSetPlace p => Ok (Some p)
             | EvFinish id => match dict_get ident_eqb id (ns_place_dict s) with
                              | Some p => Ok (Some p)
                              | None => Exn KeyError
                              end
             | EvJunk => Ok None
             end) with
      | Ok (Some p) =>
        if has_place s p
        then match evaluate tasks env f (placed p s) with
             | Ok (_, s') => Ok (true, s')
             | Fuel => Fuel | Exn k => Exn k | Unsupported => Unsupported
             end
        else Ok (false, s)
      | Ok None => Ok (false, s)
      | Fuel => Fuel | Exn k => Exn k | Unsupported => Unsupported
      end.
  Proof.
    intros f ev s.
    change (logic_fire_event tasks env (S f) ev s) with
        (nbind nget (fun s0 =>
           match (match ev with
                  | EvStart => Ok (Some (ns_start_place s0))
                  | EvSetPlace p => Ok (Some p)
                  | EvFinish id => match dict_get ident_eqb id (ns_place_dict s0) with
                                   | Some p => Ok (Some p)
                                   | None => Exn KeyError
                                   end
                  | EvJunk => Ok None
                  end) with
           | Ok (Some p) =>
             if has_place s0 p
             then nbind (place_add p) (fun _ => nbind (evaluate tasks env f) (fun _ => nret true))
             else nret false
           | Ok None => nret false
           | Fuel => nfail Fuel | Exn k => nfail (Exn k) | Unsupported => nfail Unsupported
           end) s).
    unfold nbind at 1. unfold nget at 1.
    destruct (match ev with
              | EvStart => Ok (Some (ns_start_place s))
              | EvSetPlace p => Ok (Some p)
              | EvFinish id => match dict_get ident_eqb id (ns_place_dict s) with
                               | Some p => Ok (Some p)
                               | None => Exn KeyError
                               end
              | EvJunk => Ok None
              end) as [[p|]| | |]; try reflexivity.
    destruct (has_place s p); [|reflexivity].
    unfold nbind, place_add, nmod, nret. fold (placed p s).
    destruct (evaluate tasks env f (placed p s)) as [[[] s']| | |]; reflexivity.
  Qed.

  Lemma sched_fire_event_S' : forall f ev s,
      sched_fire_event tasks env (S f) ev s =
      if existsb (event_eqb ev) (ns_awaited s)
      then match remove_first (event_eqb ev) (ns_awaited s) with
           | None => Exn ValueError
           | Some l =>
             match logic_fire_event tasks env f ev (s <| ns_awaited := l |>) with
             | Ok (true, s') => Ok (true, s')
             | Ok (false, s') => Ok (false, s' <| ns_awaited := ns_awaited s' ++ [ev] |>)
             | Fuel => Fuel | Exn k => Exn k | Unsupported => Unsupported
             end
           end
      else Ok (false, s).
  Proof.
    intros f ev s.
    change (sched_fire_event tasks env (S f) ev s) with
        ((nbind nget (fun s0 =>
           if existsb (event_eqb ev) (ns_awaited s0)
           then match remove_first (event_eqb ev) (ns_awaited s0) with
                | None => nfail (Exn ValueError)
                | Some l =>
                  nbind (nmod (fun s1 => s1 <| ns_awaited := l |>)) (fun _ =>
                  nbind (logic_fire_event tasks env f ev) (fun r =>
                  if r then nret true
                  else nbind (nmod (fun s1 => s1 <| ns_awaited := ns_awaited s1 ++ [ev] |>)) (fun _ => nret false)))
                end
           else nret false)) s).
    unfold nbind, nget, nmod, nret, nfail. cbn [rbind].
    destruct (existsb (event_eqb ev) (ns_awaited s)); [|reflexivity].
    destruct (remove_first (event_eqb ev) (ns_awaited s)) as [l|]; [|reflexivity].
    destruct (logic_fire_event tasks env f ev (s <| ns_awaited := l |>)) as [[[|] s']| | |]; reflexivity.
  Qed.

  (* an awaited event whose place exists: the token is put and the net evaluated *)
  Lemma fire_event_to : forall ev s l p s',
      existsb (event_eqb ev) (ns_awaited s) = true ->
      remove_first (event_eqb ev) (ns_awaited s) = Some l ->
      (match ev with
       | EvStart => Some (ns_start_place s)
       | EvSetPlace q => Some q
       | EvFinish id => dict_get ident_eqb id (ns_place_dict s)
       | EvJunk => None
       end) = Some p ->
      has_place s p = true ->
      EvalTo tasks env (placed p (s <| ns_awaited := l |>)) s' ->
      exists f0, forall f, f0 <= f -> sched_fire_event tasks env f ev s = Ok (true, s').
  Proof.
    intros ev s l p s' Hex Hrem Hp Hhas [f0 Hev]. exists (S (S f0)). intros f Hf.
    destruct f as [|[|f]]; try lia. rewrite sched_fire_event_S', Hex, Hrem, logic_fire_event_S.
    assert (E : (match ev with
                 | EvStart => Ok (Some (ns_start_place (s <| ns_awaited := l |>)))
                 | EvSetPlace p0 => Ok (Some p0)
                 | EvFinish id => match dict_get ident_eqb id (ns_place_dict (s <| ns_awaited := l |>)) with
                                  | Some p0 => Ok (Some p0)
                                  | None => Exn KeyError
                                  end
                 | EvJunk => Ok None
                 end) = Ok (Some p)).
    { destruct ev; try discriminate Hp.
      - change (ns_start_place (s <| ns_awaited := l |>)) with (ns_start_place s). congruence.
      - congruence.
      - change (ns_place_dict (s <| ns_awaited := l |>)) with (ns_place_dict s). rewrite Hp. reflexivity. }
    rewrite E. change (has_place (s <| ns_awaited := l |>) p) with (has_place s p). rewrite Hhas.
    rewrite Hev by lia. reflexivity.
  Qed.

  Lemma fire_event_reject : forall ev s f,
      existsb (event_eqb ev) (ns_awaited s) = false -> sched_fire_event tasks env (S f) ev s = Ok (false, s).
  Proof. intros ev s f H. rewrite sched_fire_event_S', H. reflexivity. Qed.
End Fire.

(* =========================================================================== *)
(* the Condition callback: a decision, then a nested fire_event                 *)
(* =========================================================================== *)
Section CondCb.
  Variable tasks : list task.
  Variable env : envcfg.

  Lemma run_cb_S_cond : forall f e pt pf ctx,
      run_cb tasks env (S f) (CbCond e pt pf ctx) =
      (b <~ check_expression env e ctx ;;
       nmod (fun s => s <| ns_awaited := ns_awaited s ++ [EvSetPlace (if b then pt else pf)] |>) ;;~
       sched_fire_event tasks env f (EvSetPlace (if b then pt else pf)) ;;~ nret tt)%net.
  Proof. reflexivity. Qed.

  Lemma remove_first_snoc : forall ev l, event_eqb ev ev = true -> existsb (event_eqb ev) l = false ->
      remove_first (event_eqb ev) (l ++ [ev]) = Some l /\ existsb (event_eqb ev) (l ++ [ev]) = true.
  Proof.
    intros ev. induction l as [|x r IH]; intros He Hn.
    - cbn. rewrite He. split; reflexivity.
    - cbn [existsb] in Hn. apply orb_false_iff in Hn. destruct Hn as [Hx Hr]. cbn [app remove_first existsb]. rewrite Hx.
      destruct (IH He Hr) as [E1 E2]. rewrite E1, E2. split; reflexivity.
  Qed.

  (* the state in which the nested evaluation starts *)
  Definition cond_pre (e : expr) (cid : nat) (q' : nat) (s : NS) : NS :=
    s <| ns_log := rev (map (fun v => EQuery v cid) (expr_vars e)) ++ ns_log s |> <| ns_q := q' |>.

  Lemma RunCb_Cond : forall e pt pf ctx s c b q' s',
      nth_error (ns_apis s) ctx = Some c ->
      decide expected_ops (ec_orc env) e (ns_q s) = Ok (b, q') ->
      existsb (event_eqb (EvSetPlace (if b then pt else pf))) (ns_awaited s) = false ->
      has_place s (if b then pt else pf) = true ->
      EvalTo tasks env (placed (if b then pt else pf) (cond_pre e (ident_nat (a_uuid c)) q' s)) s' ->
      RunCb tasks env (CbCond e pt pf ctx) s s'.
  Proof.
    intros e pt pf ctx s c b q' s' Hc Hdec Hnaw Hhas Hev.
    set (p := if b then pt else pf) in *. set (ev := EvSetPlace p).
    set (s1 := cond_pre e (ident_nat (a_uuid c)) q' s) in *.
    destruct (remove_first_snoc ev (ns_awaited s) (Nat.eqb_refl p) Hnaw) as [Hrem Hex].
    destruct (fire_event_to tasks env ev (s1 <| ns_awaited := ns_awaited s1 ++ [ev] |>) (ns_awaited s) p s') as [f0 Hf0].
    - exact Hex.
    - exact Hrem.
    - reflexivity.
    - exact Hhas.
    - assert (E : (s1 <| ns_awaited := ns_awaited s1 ++ [ev] |>) <| ns_awaited := ns_awaited s |> = s1).
      { unfold s1, cond_pre. destruct s; reflexivity. }
      rewrite E. exact Hev.
    - exists (S f0). intros f Hf. destruct f as [|f]; [lia|]. rewrite run_cb_S_cond.
      unfold nbind at 1. unfold check_expression. unfold nbind at 1. unfold get_api at 1. rewrite Hc.
      unfold nbind at 1. unfold nget at 1. unfold nbind at 1. unfold nlog at 1, nmod at 1.
      cbn [ns_q set]. change (ns_q (s <| ns_log := _ |>)) with (ns_q s). rewrite Hdec.
      unfold nbind at 1. unfold nmod at 1. unfold nret at 1.
      unfold nbind at 1. unfold nmod at 1. unfold nbind at 1.
      fold p. fold ev.
      match goal with |- match sched_fire_event _ _ _ _ ?X with _ => _ end = _ =>
        change X with (s1 <| ns_awaited := ns_awaited s1 ++ [ev] |>) end.
      assert (Hx := Hf0 f ltac:(lia)).
      match goal with |- match ?X with _ => _ end = _ => generalize (Hx : X = Ok (true, s')); generalize X end.
      intros r Hr. rewrite Hr. reflexivity.
  Qed.
  Lemma run_cb_S_while : forall f e pt pf ctx,
      run_cb tasks env (S f) (CbWhile e pt pf ctx) =
      (b <~ check_expression env e ctx ;;
       nmod (fun s => s <| ns_awaited := ns_awaited s ++ [EvSetPlace (if b then pt else pf)] |>) ;;~
       sched_fire_event tasks env f (EvSetPlace (if b then pt else pf)) ;;~ nret tt)%net.
  Proof. reflexivity. Qed.

  Lemma RunCb_While : forall e pt pf ctx s c b q' s',
      nth_error (ns_apis s) ctx = Some c ->
      decide expected_ops (ec_orc env) e (ns_q s) = Ok (b, q') ->
      existsb (event_eqb (EvSetPlace (if b then pt else pf))) (ns_awaited s) = false ->
      has_place s (if b then pt else pf) = true ->
      EvalTo tasks env (placed (if b then pt else pf) (cond_pre e (ident_nat (a_uuid c)) q' s)) s' ->
      RunCb tasks env (CbWhile e pt pf ctx) s s'.
  Proof.
    intros e pt pf ctx s c b q' s' Hc Hdec Hnaw Hhas Hev.
    set (p := if b then pt else pf) in *. set (ev := EvSetPlace p).
    set (s1 := cond_pre e (ident_nat (a_uuid c)) q' s) in *.
    destruct (remove_first_snoc ev (ns_awaited s) (Nat.eqb_refl p) Hnaw) as [Hrem Hex].
    destruct (fire_event_to tasks env ev (s1 <| ns_awaited := ns_awaited s1 ++ [ev] |>) (ns_awaited s) p s') as [f0 Hf0].
    - exact Hex.
    - exact Hrem.
    - reflexivity.
    - exact Hhas.
    - assert (E : (s1 <| ns_awaited := ns_awaited s1 ++ [ev] |>) <| ns_awaited := ns_awaited s |> = s1).
      { unfold s1, cond_pre. destruct s; reflexivity. }
      rewrite E. exact Hev.
    - exists (S f0). intros f Hf. destruct f as [|f]; [lia|]. rewrite run_cb_S_while.
      unfold nbind at 1. unfold check_expression. unfold nbind at 1. unfold get_api at 1. rewrite Hc.
      unfold nbind at 1. unfold nget at 1. unfold nbind at 1. unfold nlog at 1, nmod at 1.
      cbn [ns_q set]. change (ns_q (s <| ns_log := _ |>)) with (ns_q s). rewrite Hdec.
      unfold nbind at 1. unfold nmod at 1. unfold nret at 1.
      unfold nbind at 1. unfold nmod at 1. unfold nbind at 1.
      fold p. fold ev.
      match goal with |- match sched_fire_event _ _ _ _ ?X with _ => _ end = _ =>
        change X with (s1 <| ns_awaited := ns_awaited s1 ++ [ev] |>) end.
      assert (Hx := Hf0 f ltac:(lia)).
      match goal with |- match ?X with _ => _ end = _ => generalize (Hx : X = Ok (true, s')); generalize X end.
      intros r Hr. rewrite Hr. reflexivity.
  Qed.

  (* ---- the counting-loop callback: count, read the limit, then a nested fire_event ---- *)
  Lemma run_cb_S_count : forall f key lim pt pf ctx,
      run_cb tasks env (S f) (CbCount key lim pt pf ctx) =
      (cx <~ get_api ctx ;;
       s <~ nget ;;
       let u := a_uuid cx in
       let d := counters_of u s in
       let cnt := match dict_get lkey_eqb (KLoop key) d with
                  | None => 0
                  | Some (CInt n) => S n
                  | Some (CPar _) => 0
                  end in
       set_counters u (dict_set lkey_eqb (KLoop key) (CInt cnt) d) ;;~
       l <~ get_loop_limit env lim ctx ;;
       if Qlt_bool (inject_Z (Z.of_nat cnt)) l
       then
         nmod (fun s => s <| ns_awaited := ns_awaited s ++ [EvSetPlace pt] |>) ;;~
         sched_fire_event tasks env f (EvSetPlace pt) ;;~ nret tt
       else
         s <~ nget ;;
         set_counters u (dict_del lkey_eqb (KLoop key) (counters_of u s)) ;;~
         nmod (fun s => s <| ns_awaited := ns_awaited s ++ [EvSetPlace pf] |>) ;;~
         sched_fire_event tasks env f (EvSetPlace pf) ;;~ nret tt)%net.
  Proof. reflexivity. Qed.

  Definition count_next (key : site) (d : list (lkey * cval)) : nat :=
    match dict_get lkey_eqb (KLoop key) d with
    | None => 0
    | Some (CInt n) => S n
    | Some (CPar _) => 0
    end.
  Definition set_cnt (u : ident) (d : list (lkey * cval)) (s : NS) : NS :=
    s <| ns_counters := dict_set ident_eqb u d (ns_counters s) |>.

  Lemma RunCb_Count : forall key lim pt pf ctx s c l s2 s',
      nth_error (ns_apis s) ctx = Some c ->
      let u := a_uuid c in
      let cnt := count_next key (counters_of u s) in
      get_loop_limit env lim ctx (set_cnt u (dict_set lkey_eqb (KLoop key) (CInt cnt) (counters_of u s)) s) = Ok (l, s2) ->
      let b := Qlt_bool (inject_Z (Z.of_nat cnt)) l in
      let s3 := if b then s2 else set_cnt u (dict_del lkey_eqb (KLoop key) (counters_of u s2)) s2 in
      existsb (event_eqb (EvSetPlace (if b then pt else pf))) (ns_awaited s3) = false ->
      has_place s3 (if b then pt else pf) = true ->
      EvalTo tasks env (placed (if b then pt else pf) s3) s' ->
      RunCb tasks env (CbCount key lim pt pf ctx) s s'.
  Proof.
    intros key lim pt pf ctx s c l s2 s' Hc u cnt Hlim b s3 Hnaw Hhas Hev.
    set (p := if b then pt else pf) in *. set (ev := EvSetPlace p).
    destruct (remove_first_snoc ev (ns_awaited s3) (Nat.eqb_refl p) Hnaw) as [Hrem Hex].
    destruct (fire_event_to tasks env ev (s3 <| ns_awaited := ns_awaited s3 ++ [ev] |>) (ns_awaited s3) p s') as [f0 Hf0].
    - exact Hex.
    - exact Hrem.
    - reflexivity.
    - exact Hhas.
    - assert (E : (s3 <| ns_awaited := ns_awaited s3 ++ [ev] |>) <| ns_awaited := ns_awaited s3 |> = s3) by (destruct s3; reflexivity).
      rewrite E. exact Hev.
    - exists (S f0). intros f Hf. destruct f as [|f]; [lia|]. rewrite run_cb_S_count.
      unfold nbind at 1. unfold get_api at 1. rewrite Hc.
      unfold nbind at 1. unfold nget at 1. cbv zeta.
      fold u. fold (count_next key (counters_of u s)). fold cnt.
      unfold nbind at 1. unfold set_counters at 1. unfold nmod at 1.
      fold (set_cnt u (dict_set lkey_eqb (KLoop key) (CInt cnt) (counters_of u s)) s).
      unfold nbind at 1. rewrite Hlim. fold b.
      assert (Hx := Hf0 f ltac:(lia)).
      clear Hnaw Hhas Hev Hrem Hex Hf0. unfold ev, p, s3 in Hx. clear ev p s3.
      destruct b.
      + unfold nbind at 1. unfold nmod at 1. unfold nbind at 1.
        match goal with |- match ?X with _ => _ end = _ => generalize (Hx : X = Ok (true, s')); generalize X end.
        intros r Hr. rewrite Hr. reflexivity.
      + unfold nbind at 1. unfold nget at 1.
        unfold nbind at 1. unfold set_counters at 1. unfold nmod at 1.
        fold (set_cnt u (dict_del lkey_eqb (KLoop key) (counters_of u s2)) s2).
        unfold nbind at 1. unfold nmod at 1. unfold nbind at 1.
        match goal with |- match ?X with _ => _ end = _ => generalize (Hx : X = Ok (true, s')); generalize X end.
        intros r Hr. rewrite Hr. reflexivity.
  Qed.
End CondCb.

(* =========================================================================== *)
(* the service-started callback when the engine completes the service at once   *)
(* =========================================================================== *)
Section ImmCb.
  Variable tasks : list task.
  Variable env : envcfg.
  Variable Hq : env_quiet env.

  Lemma ident_eqb_refl' : forall a, ident_eqb a a = true.
  Proof. intros [i|i]; cbn [ident_eqb]; apply Nat.eqb_refl. Qed.

  Lemma RunCb_SS_imm : forall ai s a p ps s',
      ns_test_ids s = true -> listeners_of SS (ns_ls s) = [0] ->
      nth_error (ns_apis s) ai = Some a ->
      (a_in_loop a = true -> sub_to tasks s ai a ps) -> (a_in_loop a = false -> ps = a_params a) ->
      dict_get ident_eqb (a_uuid a) (ns_place_dict s) = Some p ->
      ec_imm env (ns_nss s) = true ->
      existsb (event_eqb (EvFinish (ITest (ns_sid s)))) (ns_awaited s) = false ->
      has_place s p = true ->
      let a' := reid (ITest (ns_sid s)) ps a in
      let mid := imm_mid a' (ss_pre0 (a_in_loop a) ai p ps s) in
      EvalTo tasks env (placed p (mid <| ns_awaited := ns_awaited s |>)) s' ->
      listeners_of SS (ns_ls s') = [0] -> ns_obs s' = [] -> (exists a'', nth_error (ns_apis s') ai = Some a'') ->
      RunCb tasks env (CbSS ai) s (bump s').
  Proof.
    intros ai s a p ps s' Hti HL Ha Hsub Hps Hd Himm Hnaw Hhas a' mid Hev HL' Hobs' Hapi'.
    set (ev := EvFinish (ITest (ns_sid s))) in *.
    assert (Eaw : ns_awaited mid = ns_awaited s ++ [ev]) by (unfold mid, imm_mid, ss_pre0; destruct (a_in_loop a); reflexivity).
    assert (Hevr : event_eqb ev ev = true) by (unfold ev; cbn [event_eqb ident_eqb]; apply Nat.eqb_refl).
    destruct (remove_first_snoc ev (ns_awaited s) Hevr Hnaw) as [Hrem Hex].
    destruct (fire_event_to tasks env ev mid (ns_awaited s) p s') as [f0 Hf0].
    - rewrite Eaw. exact Hex.
    - rewrite Eaw. exact Hrem.
    - unfold ev, mid, imm_mid, ss_pre0. destruct (a_in_loop a); cbn [ns_place_dict set ss_pre ss_pre_l dict_get ident_eqb];
        rewrite Nat.eqb_refl; reflexivity.
    - unfold mid, imm_mid, ss_pre0. destruct (a_in_loop a); exact Hhas.
    - exact Hev.
    - exists (S (S (S (S f0)))). intros f Hf. do 4 (destruct f as [|f]; [lia|]).
      rewrite run_cb_S.
      assert (Hni : forall il, ec_imm env (ns_nss (ss_pre0 il ai p ps s)) = true).
      { intro il. unfold ss_pre0. destruct il; exact Himm. }
      assert (HL1 : forall il, listeners_of SS (ns_ls (ss_pre0 il ai p ps s)) = [0]).
      { intro il. unfold ss_pre0. destruct il; exact HL. }
      unfold mid in Hf0.
      destruct (a_in_loop a) eqn:Eil.
      + assert (Ha1 : nth_error (ns_apis (ss_pre0 true ai p ps s)) ai = Some a').
        { unfold ss_pre0, ss_pre_l. cbn [ns_apis set]. apply nth_error_upd_eq. exact Ha. }
        rewrite (on_service_started_loop_eq tasks env f ai s a p ps Hti Ha Eil (Hsub eq_refl) Hd).
        apply (notify_user_imm tasks env Hq f ai _ a' s' (HL1 true) Ha1 (Hni true)); try assumption.
        apply Hf0. lia.
      + assert (Ea' : a' = with_uuid (ITest (ns_sid s)) a) by (unfold a'; rewrite (Hps eq_refl); apply reid_same).
        assert (Ha1 : nth_error (ns_apis (ss_pre0 false ai p ps s)) ai = Some a').
        { rewrite Ea'. unfold ss_pre0, ss_pre. cbn [ns_apis set]. apply nth_error_upd_eq. exact Ha. }
        rewrite (on_service_started_eq tasks env f ai s a p); try assumption.
        apply (notify_user_imm tasks env Hq f ai _ a' s' (HL1 false) Ha1 (Hni false)); try assumption.
        apply Hf0. lia.
  Qed.
End ImmCb.

(* =========================================================================== *)
(* an evaluation changes neither the registered functions nor the attached      *)
(* observers, and no API object disappears (NetQuiescent's frame rule)          *)
(* =========================================================================== *)
From PFDL Require Import NetQuiescent.

Definition keeps (s s' : NS) : Prop :=
  ns_ls s' = ns_ls s /\ ns_obs s' = ns_obs s /\ List.length (ns_apis s) <= List.length (ns_apis s').

Lemma keeps_refl : forall s, keeps s s.
Proof. intro s. unfold keeps. repeat split; auto. Qed.
Lemma keeps_trans : forall a b c, keeps a b -> keeps b c -> keeps a c.
Proof. unfold keeps. intros a b c (A1 & A2 & A3) (B1 & B2 & B3). repeat split; [congruence|congruence|lia]. Qed.

Ltac keeps_solve :=
  unfold keeps; cbn;
  rewrite ?NetQuiescent.fold_upd_length, ?NetQuiescent.upd_length, ?map_length, ?app_length; cbn; repeat split; try reflexivity; lia.
Ltac kprim_solve :=
  intros; try (match goal with |- fpres _ _ => intros ? ? ? HH; inversion HH; subst; clear HH end);
  keeps_solve.

Theorem keeps_frame : frame_ok keeps.
Proof.
  constructor; constructor; first [exact keeps_refl | exact keeps_trans | solve [kprim_solve]].
Qed.

Theorem eval_keeps : forall tasks env s s', EvalTo tasks env s s' -> keeps s s'.
Proof.
  intros tasks env s s' [f0 H].
  destruct (frame_block (fr_s keeps_frame) (fr_n keeps_frame) tasks env f0) as (E & _).
  apply (E s tt s'). apply H. apply Nat.le_refl.
Qed.
