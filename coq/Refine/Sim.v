(* Refine/Sim.v — the simulation: on the net that the generator builds for a program of the
   fragment, starting a component and delivering a completion make the net fire exactly the
   transitions, and run exactly the callbacks, that correspond to the reference semantics'
   start_* / deliver_* functions, with the same notifications in the same order.  Proof file. *)
From PFDL Require Import NetModel RefBase RefProgress.
From PFDL.Refine Require Import Eval Layout GenSpec Abs SubstIdx Mach.
From Coq Require Import Lia.

Lemma subst_params_nil : forall ps, subst_params [] ps = ps.
Proof.
  unfold subst_params. induction ps as [|p ps IH]; [reflexivity|]. cbn [map]. rewrite IH. f_equal.
  destruct p as [v|v l|sn j]; try reflexivity. cbn [subst_param]. f_equal.
  induction l as [|e l IHl]; [reflexivity|]. cbn [map]. rewrite IHl. f_equal. destruct e; reflexivity.
Qed.

Lemma subst_pelem_idxfree : forall ie l, forallb idxfree_pe l = true -> map (subst_pelem ie) l = l.
Proof.
  intros ie. induction l as [|e l IH]; intro H; [reflexivity|]. cbn [forallb] in H. apply andb_prop in H.
  destruct H as [H1 H2]. cbn [map]. rewrite (IH H2). f_equal. destruct e; try reflexivity. discriminate H1.
Qed.
Lemma subst_params_idxfree : forall ie ps, idxfree ps = true -> subst_params ie ps = ps.
Proof.
  intros ie. unfold subst_params, idxfree. induction ps as [|p ps IH]; intro H; [reflexivity|].
  cbn [forallb] in H. apply andb_prop in H. destruct H as [H1 H2]. cbn [map]. rewrite (IH H2). f_equal.
  destruct p as [v|v l|sn j]; try reflexivity. cbn [subst_param idxfree_p] in *. rewrite (subst_pelem_idxfree ie l H1). reflexivity.
Qed.

Definition cnts_plain (cs : list (ident * list (lkey * cval))) : Prop := Forall (fun ud => plain (snd ud)) cs.
Lemma cnts_plain_get : forall cs u d, cnts_plain cs -> dict_get ident_eqb u cs = Some d -> plain d.
Proof.
  induction cs as [|[k v] r IH]; intros u d H Hg; [discriminate Hg|]. inversion H as [|? ? H1 H2]; subst.
  cbn [dict_get] in Hg. destruct (ident_eqb u k); [inversion Hg; subst; exact H1|apply (IH u d H2 Hg)].
Qed.
Lemma cnts_plain_set : forall cs u d, cnts_plain cs -> plain d -> cnts_plain (dict_set ident_eqb u d cs).
Proof.
  induction cs as [|[k v] r IH]; intros u d H Hd; [constructor; [exact Hd|constructor]|].
  inversion H as [|? ? H1 H2]; subst. cbn [dict_set]. destruct (ident_eqb u k); constructor; try assumption.
  apply IH; assumption.
Qed.

(* ---- the counters dict of a task instance with its running counting loops ---- *)
Lemma list_eqb_nat_iff : forall a b : list nat, list_eqb Nat.eqb a b = true <-> a = b.
Proof.
  induction a as [|x a IH]; intros [|y b]; cbn [list_eqb]; split; intro H; try reflexivity; try discriminate H.
  - apply andb_prop in H. destruct H as [H1 H2]. apply Nat.eqb_eq in H1. apply IH in H2. subst. reflexivity.
  - inversion H; subst. rewrite Nat.eqb_refl. cbn [andb]. apply IH. reflexivity.
Qed.
Lemma lkey_eqb_loop : forall a b, lkey_eqb (KLoop a) (KLoop b) = true <-> a = b.
Proof.
  intros [t1 p1] [t2 p2]. cbn [lkey_eqb]. unfold site_eqb'. cbn [st_task st_path]. split; intro H.
  - apply andb_prop in H. destruct H as [H1 H2]. apply Nat.eqb_eq in H1. apply list_eqb_nat_iff in H2. subst. reflexivity.
  - inversion H; subst. rewrite Nat.eqb_refl. cbn [andb]. apply list_eqb_nat_iff. reflexivity.
Qed.
Lemma lkey_eqb_loop_neq : forall a b, a <> b -> lkey_eqb (KLoop a) (KLoop b) = false.
Proof. intros a b H. destruct (lkey_eqb (KLoop a) (KLoop b)) eqn:E; [|reflexivity]. apply lkey_eqb_loop in E. contradiction. Qed.

Lemma enc_app : forall a b, enc (a ++ b) = enc a ++ enc b.
Proof. intros. unfold enc. apply map_app. Qed.
Lemma enc_get_none : forall key l, (forall k, ~ In (key, k) l) -> dict_get lkey_eqb (KLoop key) (enc l) = None.
Proof.
  intros key. induction l as [|[k0 n0] l IH]; intro H; [reflexivity|]. cbn [enc map dict_get fst snd].
  rewrite lkey_eqb_loop_neq by (intros ->; apply (H n0); left; reflexivity).
  apply IH. intros k Hk. apply (H k). right. exact Hk.
Qed.
Lemma enc_set_new : forall key n l, (forall k, ~ In (key, k) l) ->
    dict_set lkey_eqb (KLoop key) (CInt n) (enc l) = enc (l ++ [(key, n)]).
Proof.
  intros key n. induction l as [|[k0 n0] l IH]; intro H; [reflexivity|]. cbn [enc map dict_set fst snd app].
  rewrite lkey_eqb_loop_neq by (intros ->; apply (H n0); left; reflexivity).
  f_equal. apply IH. intros k Hk. apply (H k). right. exact Hk.
Qed.
Lemma enc_get_last : forall key n l, (forall k, ~ In (key, k) l) ->
    dict_get lkey_eqb (KLoop key) (enc (l ++ [(key, n)])) = Some (CInt n).
Proof.
  intros key n. induction l as [|[k0 n0] l IH]; intro H.
  - cbn [enc map dict_get fst snd app]. rewrite (proj2 (lkey_eqb_loop key key) eq_refl). reflexivity.
  - cbn [enc map dict_get fst snd app]. rewrite lkey_eqb_loop_neq by (intros ->; apply (H n0); left; reflexivity).
    apply IH. intros k Hk. apply (H k). right. exact Hk.
Qed.
Lemma enc_set_last : forall key n n' l, (forall k, ~ In (key, k) l) ->
    dict_set lkey_eqb (KLoop key) (CInt n') (enc (l ++ [(key, n)])) = enc (l ++ [(key, n')]).
Proof.
  intros key n n'. induction l as [|[k0 n0] l IH]; intro H.
  - cbn [enc map dict_set fst snd app]. rewrite (proj2 (lkey_eqb_loop key key) eq_refl). reflexivity.
  - cbn [enc map dict_set fst snd app]. rewrite lkey_eqb_loop_neq by (intros ->; apply (H n0); left; reflexivity).
    f_equal. apply IH. intros k Hk. apply (H k). right. exact Hk.
Qed.
Lemma enc_del_last : forall key n l, (forall k, ~ In (key, k) l) ->
    dict_del lkey_eqb (KLoop key) (enc (l ++ [(key, n)])) = enc l.
Proof.
  intros key n. unfold dict_del. induction l as [|[k0 n0] l IH]; intro H.
  - cbn [enc map filter fst snd app]. rewrite (proj2 (lkey_eqb_loop key key) eq_refl). reflexivity.
  - cbn [enc map filter fst snd app]. rewrite lkey_eqb_loop_neq by (intros ->; apply (H n0); left; reflexivity).
    cbn [negb]. f_equal. apply IH. intros k Hk. apply (H k). right. exact Hk.
Qed.
Lemma enc_plain : forall l, plain (enc l).
Proof. intro l. unfold plain, enc. apply Forall_forall. intros kv Hin. apply in_map_iff in Hin. destruct Hin as (x & <- & _). eexists. reflexivity. Qed.
Lemma in_rev_fresh : forall (key : site) (l : list (site * nat)), (forall k, ~ In (key, k) l) -> forall k, ~ In (key, k) (rev l).
Proof. intros key l H k Hin. apply in_rev in Hin. exact (H k Hin). Qed.

Lemma remove_first_sub : forall A (p : A -> bool) l l' x, remove_first p l = Some l' -> In x l' -> In x l.
Proof.
  intros A p. induction l as [|y l IH]; intros l' x H Hx; cbn [remove_first] in H; [discriminate H|].
  destruct (p y).
  - inversion H; subst. right. exact Hx.
  - destruct (remove_first p l) as [t|] eqn:E; [|discriminate H]. inversion H; subst.
    destruct Hx as [<-|Hx]; [left; reflexivity|right; apply (IH t x eq_refl Hx)].
Qed.

(* ---- the identifiers of task instances ---- *)
Lemma dict_get_set_ident : forall (V : Type) u u' (d : V) l,
    dict_get ident_eqb u (dict_set ident_eqb u' d l) = if ident_eqb u u' then Some d else dict_get ident_eqb u l.
Proof.
  intros V u u' d. induction l as [|[k v] r IH]; cbn [dict_set dict_get]; [reflexivity|].
  destruct (ident_eqb u' k) eqn:E; cbn [dict_get].
  - apply ident_eqb_eq in E. subst k. destruct (ident_eqb u u'); reflexivity.
  - rewrite IH. destruct (ident_eqb u k) eqn:E2; [|reflexivity].
    apply ident_eqb_eq in E2. subst k. destruct (ident_eqb u u') eqn:E3; [|reflexivity].
    apply ident_eqb_eq in E3. subst u'. rewrite ident_eqb_refl in E. discriminate E.
Qed.

(* the keys of the counters store are identifiers of task instances that have started; a task's
   record carries a test identifier below the task counter (the production task's record is
   generated with identifier 0); two task records never carry the same test identifier *)
Definition UQ (ns : NS) : Prop :=
  (forall u d, dict_get ident_eqb u (ns_counters ns) = Some d -> exists i, u = ITest i /\ i < ns_tid ns) /\
  (forall k a i, nth_error (ns_apis ns) k = Some a -> a_is_task a = true -> a_uuid a = ITest i ->
                 i < ns_tid ns \/ (k = 0 /\ i = 0)) /\
  (forall k1 k2 a1 a2 i, nth_error (ns_apis ns) k1 = Some a1 -> nth_error (ns_apis ns) k2 = Some a2 ->
                         a_is_task a1 = true -> a_is_task a2 = true -> a_uuid a1 = ITest i -> a_uuid a2 = ITest i -> k1 = k2).

Lemma UQ_eq : forall a b, UQ a -> ns_counters b = ns_counters a -> ns_apis b = ns_apis a -> ns_tid b = ns_tid a -> UQ b.
Proof. intros a b (U1 & U2 & U3) E1 E2 E3. unfold UQ. rewrite E1, E2, E3. auto. Qed.

Lemma UQ_svc : forall a b k (f : api -> api) ak, UQ a -> ns_counters b = ns_counters a -> ns_tid b = ns_tid a ->
    nth_error (ns_apis a) k = Some ak -> a_is_task ak = false -> (forall x, a_is_task (f x) = a_is_task x) ->
    ns_apis b = upd k f (ns_apis a) -> UQ b.
Proof.
  intros a b k f ak (U1 & U2 & U3) E1 E3 Hk Ht Hf E2. unfold UQ. rewrite E1, E2, E3.
  assert (G : forall j x, nth_error (upd k f (ns_apis a)) j = Some x -> a_is_task x = true ->
                          nth_error (ns_apis a) j = Some x).
  { intros j x Hj Hx. destruct (Nat.eq_dec j k) as [->|Hne].
    - rewrite (nth_error_upd_eq _ _ _ _ _ Hk) in Hj. inversion Hj; subst x. rewrite Hf in Hx. congruence.
    - rewrite nth_error_upd_neq in Hj by congruence. exact Hj. }
  split; [exact U1|]. split.
  - intros j x i Hj Hx Hu. apply (U2 j x i (G j x Hj Hx) Hx Hu).
  - intros k1 k2 a1 a2 i H1 H2 T1 T2 X1 X2. apply (U3 k1 k2 a1 a2 i (G _ _ H1 T1) (G _ _ H2 T2) T1 T2 X1 X2).
Qed.

Lemma UQ_task : forall a b k (f : api -> api) ak, UQ a -> ns_counters b = ns_counters a -> ns_tid b = S (ns_tid a) ->
    nth_error (ns_apis a) k = Some ak -> (forall x, a_uuid (f x) = ITest (ns_tid a)) -> ns_apis b = upd k f (ns_apis a) ->
    (k = 0 \/ 0 < ns_tid a) -> UQ b.
Proof.
  intros a b k f ak (U1 & U2 & U3) E1 E3 Hk Hf E2 Hpos. unfold UQ. rewrite E1, E2, E3.
  assert (G : forall j x, j <> k -> nth_error (upd k f (ns_apis a)) j = Some x ->
                          nth_error (ns_apis a) j = Some x).
  { intros j x Hne Hj. rewrite nth_error_upd_neq in Hj by congruence. exact Hj. }
  assert (K : forall x, nth_error (upd k f (ns_apis a)) k = Some x -> a_uuid x = ITest (ns_tid a)).
  { intros x Hx. rewrite (nth_error_upd_eq _ _ _ _ _ Hk) in Hx. inversion Hx; subst x. apply Hf. }
  assert (F : forall j x, j <> k -> nth_error (ns_apis a) j = Some x -> a_is_task x = true -> a_uuid x <> ITest (ns_tid a)).
  { intros j x Hne Hj Hx Hu. destruct (U2 j x _ Hj Hx Hu) as [Hlt|[-> Hz]]; [lia|]. destruct Hpos as [->|Hp]; [congruence|lia]. }
  split; [intros u d Hd; destruct (U1 u d Hd) as (i & -> & Hi); exists i; split; [reflexivity|lia]|]. split.
  - intros j x i Hj Hx Hu. destruct (Nat.eq_dec j k) as [->|Hne].
    + rewrite (K x Hj) in Hu. inversion Hu; subst i. left. lia.
    + destruct (U2 j x i (G j x Hne Hj) Hx Hu) as [Hlt|Hz]; [left; lia|right; exact Hz].
  - intros k1 k2 a1 a2 i H1 H2 T1 T2 X1 X2.
    destruct (Nat.eq_dec k1 k) as [->|N1]; destruct (Nat.eq_dec k2 k) as [->|N2]; [reflexivity| | |].
    + exfalso. rewrite (K a1 H1) in X1. inversion X1; subst i. apply (F k2 a2 N2 (G _ _ N2 H2) T2 X2).
    + exfalso. rewrite (K a2 H2) in X2. inversion X2; subst i. apply (F k1 a1 N1 (G _ _ N1 H1) T1 X1).
    + apply (U3 k1 k2 a1 a2 i (G _ _ N1 H1) (G _ _ N2 H2) T1 T2 X1 X2).
Qed.

Lemma UQ_cnt : forall a b cid d, UQ a -> ns_counters b = dict_set ident_eqb (ITest cid) d (ns_counters a) ->
    ns_apis b = ns_apis a -> ns_tid b = ns_tid a -> cid < ns_tid a -> UQ b.
Proof.
  intros a b cid d (U1 & U2 & U3) E1 E2 E3 Hc. unfold UQ. rewrite E1, E2, E3. split; [|split; assumption].
  intros u d0 Hd. rewrite dict_get_set_ident in Hd. destruct (ident_eqb u (ITest cid)) eqn:E.
  - apply ident_eqb_eq in E. subst u. exists cid. split; [reflexivity|exact Hc].
  - apply (U1 u d0 Hd).
Qed.

(* a task instance that starts has no counters yet *)
Lemma UQ_fresh : forall ns, UQ ns -> counters_of (ITest (ns_tid ns)) ns = [].
Proof.
  intros ns (U1 & _). unfold counters_of. destruct (dict_get ident_eqb (ITest (ns_tid ns)) (ns_counters ns)) as [d|] eqn:E; [|reflexivity].
  destruct (U1 _ _ E) as (i & Hi & Hlt). inversion Hi; subst i. lia.
Qed.

Section Sim.
  Variable NC : bool.
  Variable tasks : list task.
  (* the counting variables are those of the program *)
  Local Instance LVs : LoopVars := loop_var tasks.
  Variable env : envcfg.
  Variable Henv : env_quiet env.
  Variable orc : oracle.
  Variable imm : nat -> bool.
  Variable Himm : forall k, ec_imm env k = imm k.
  (* [IM]: the engine may complete services at once; then the engine is the only function
     registered for service-started notifications and no observer is attached *)
  Variable IM : bool.
  Variable Him0 : IM = false -> forall k, imm k = false.
  Variable Horc : ec_orc env = orc.
  Variable body : list xstmt.
  Variable N0 : NS.
  Variable HN0 : NetOf body N0.
  Variable Hfrag : frag_block body = true.

  (* ---- what never changes at run time ---- *)
  Record Inv (ns : NS) : Prop := {
    iv_trans : ns_trans ns = ns_trans N0;
    iv_cbs : ns_cbs ns = ns_cbs N0;
    iv_ti : ns_test_ids ns = true;
    iv_ls : ls_ok (ns_ls ns) /\ (IM = true -> listeners_of SS (ns_ls ns) = [0] /\ ns_obs ns = []) /\
            (forall i, In (EvFinish (ITest i)) (ns_awaited ns) -> i < ns_sid ns) /\
            (forall i, In (ITest i) (ns_pending ns) -> i < ns_sid ns);
    iv_cnt : (cnts_plain (ns_counters ns) /\ (NC = true -> ns_counters ns = [])) /\ UQ ns;
    iv_start : ns_start_place ns = 0;
    iv_final : ns_final_place ns = 1;
    iv_npl : List.length (ns_places ns) = List.length (ns_places N0);
    iv_napi : List.length (ns_apis ns) = List.length (ns_apis N0);
    iv_dict : exists d, ns_place_dict ns = d ++ ns_place_dict N0 /\
                        Forall (fun kv => exists i, fst kv = ITest i /\ i < ns_sid ns) d;
    (* every API record is the generated one up to its current identifier and, inside loops,
       its current parameter list (loop indices substituted); a service's
       identifier is bound to the 'finished' place of that service *)
    iv_ready : forall k a0, nth_error (ns_apis N0) k = Some a0 ->
               exists u ps, nth_error (ns_apis ns) k = Some (reid u ps a0) /\
                         (a_in_loop a0 = false -> ps = a_params a0) /\
                         (a_is_task a0 = false -> forall k', a_uuid a0 = IUuid k' ->
                          dict_get ident_eqb u (ns_place_dict ns) = dict_get ident_eqb (IUuid k') (ns_place_dict N0) /\
                          forall i, u = ITest i -> i < ns_sid ns)
  }.

  (* ---- scheduler bookkeeping of the two models; [pend] = the engine's pending services ---- *)
  Record GR (g : G) (ns : NS) (pend : list nat) : Prop := {
    gr_tid : ns_tid ns = g_tid g;
    gr_sid : ns_sid ns = g_sid g;
    gr_ss : ns_nss ns = g_ss g;
    gr_run : ns_running ns = g_running g;
    gr_log : ns_log ns = g_log g;
    gr_ls : ns_ls ns = g_ls g;
    gr_obs : ns_obs ns = g_obs g;
    gr_aw : ns_awaited ns = map EvF (g_awaited g);
    gr_pend : ns_pending ns = map ITest pend;
    gr_q : ns_q ns = g_q g
  }.

  (* ---- a list of callbacks run one after the other (Mach.RunList) ---- *)
  Definition RunList : list cb -> NS -> NS -> Prop := Mach.RunList tasks env.
  Lemma rl_nil : forall s, RunList [] s s. Proof. exact (Mach.rl_nil tasks env). Qed.
  Lemma rl_cons : forall c l s s1 s', RunCb tasks env c s s1 -> ns_cbs s1 = ns_cbs s -> is_parloop_cb c = false ->
                                      RunList l s1 s' -> RunList (c :: l) s s'.
  Proof. exact (Mach.rl_cons tasks env). Qed.
  Lemma RunList_app : forall l1 l2 s s1 s', RunList l1 s s1 -> RunList l2 s1 s' -> RunList (l1 ++ l2) s s'.
  Proof. exact (Mach.RunList_app tasks env). Qed.
  Lemma RunList_cbs : forall l s s', RunList l s s' -> ns_cbs s' = ns_cbs s.
  Proof. exact (Mach.RunList_cbs tasks env). Qed.

  (* ---- the four callbacks as [RunCb] facts ---- *)
  Lemma upd_at_ext : forall A (f g : A -> A) l i x, nth_error l i = Some x -> f x = g x -> upd i f l = upd i g l.
  Proof.
    intros A f g. induction l as [|y l IH]; intros [|i] x H E; cbn in *; try discriminate; [inversion H; subst; rewrite E; reflexivity|].
    f_equal. eapply IH; eassumption.
  Qed.
  Lemma ts_pre_l_same : forall ai s a, nth_error (ns_apis s) ai = Some a -> ts_pre_l ai (a_params a) s = ts_pre ai s.
  Proof.
    intros ai s a Ha. unfold ts_pre_l, ts_pre.
    rewrite (upd_at_ext _ (reid (ITest (ns_tid s)) (a_params a)) (with_uuid (ITest (ns_tid s))) (ns_apis s) ai a Ha (reid_same _ a)).
    reflexivity.
  Qed.
  Lemma RunCb_TS : forall ai s a ps,
      ls_ok (ns_ls s) -> ns_test_ids s = true ->
      nth_error (ns_apis s) ai = Some a ->
      (a_in_loop a = false -> ps = a_params a) ->
      (a_in_loop a = true -> a_has_call a = true /\ sub_to tasks s ai a ps) ->
      RunCb tasks env (CbTS ai) s (notified TS (reid (ITest (ns_tid s)) ps a) false (ts_pre_l ai ps s)).
  Proof.
    intros ai s a ps Hls Hti Ha Hf Ht. exists 4. intros f Hf0. do 4 (destruct f as [|f]; [lia|]).
    destruct (a_in_loop a) eqn:E.
    - destruct (Ht eq_refl) as [Hc Hs]. apply run_cb_TS_loop; assumption.
    - rewrite (Hf eq_refl), reid_same, (ts_pre_l_same ai s a Ha). apply run_cb_TS; assumption.
  Qed.
  (* the state in which the notification of a started service is sent; a service inside a loop
     body has drawn a uuid4 before and got its parameter list with the loop indices substituted *)
  Definition ss_st (il : bool) (ai p : nat) (ps : list param) (s : NS) : NS := ss_pre0 il ai p ps s.
  Lemma RunCb_SS : forall ai s a p ps,
      ls_ok (ns_ls s) -> ns_test_ids s = true ->
      nth_error (ns_apis s) ai = Some a ->
      (a_in_loop a = false -> ps = a_params a) ->
      (a_in_loop a = true -> sub_to tasks s ai a ps) ->
      dict_get ident_eqb (a_uuid a) (ns_place_dict s) = Some p ->
      ec_imm env (ns_nss s) = false ->
      RunCb tasks env (CbSS ai) s (notified SS (reid (ITest (ns_sid s)) ps a) false (ss_st (a_in_loop a) ai p ps s)).
  Proof.
    intros ai s a p ps Hls Hti Ha Hf Ht Hd Hni. exists 4. intros f Hf0. do 4 (destruct f as [|f]; [lia|]).
    unfold ss_st, ss_pre0. destruct (a_in_loop a) eqn:E.
    - apply run_cb_SS_loop; try assumption. apply Ht. reflexivity.
    - rewrite (Hf eq_refl), reid_same. apply run_cb_SS; assumption.
  Qed.
  Lemma RunCb_SF : forall ai s a,
      ls_ok (ns_ls s) -> nth_error (ns_apis s) ai = Some a ->
      RunCb tasks env (CbSF ai) s (notified SF a false s).
  Proof.
    intros. exists 4. intros f Hf. do 4 (destruct f as [|f]; [lia|]). apply run_cb_SF; assumption.
  Qed.
  Lemma RunCb_TF : forall ai s a,
      ls_ok (ns_ls s) -> nth_error (ns_apis s) ai = Some a ->
      RunCb tasks env (CbTF ai) s (notified TF a (Nat.eqb (a_name a) production_task) s).
  Proof.
    intros. exists 4. intros f Hf. do 4 (destruct f as [|f]; [lia|]). apply run_cb_TF; assumption.
  Qed.

  (* what substitute_loop_indexes does when the counters of the context are those of the running
     counting loops [kl] and [ie] is the index environment of these loops *)
  Lemma ie_of_nil : forall ie, ie_of tasks [] ie -> ie = [].
  Proof. intros ie H. inversion H. reflexivity. Qed.
  Lemma enc_rev_nil : forall kl, [] = enc (rev kl) -> kl = [].
  Proof.
    intros kl H. destruct kl as [|x kl]; [reflexivity|]. cbn [rev] in H. unfold enc in H. rewrite map_app in H.
    destruct (map (fun kk : site * nat => (KLoop (fst kk), CInt (snd kk))) (rev kl)); discriminate H.
  Qed.
  Lemma sub_to_ok : forall ns ai a ci c cid kl ie,
      a_ctx a = Some ci -> ci <> ai -> nth_error (ns_apis ns) ci = Some c -> a_uuid c = ITest cid ->
      C0 ns cid kl -> ie_of tasks kl ie ->
      sub_to tasks ns ai a (subst_params ie (a_src a)).
  Proof.
    intros ns ai a ci c cid kl ie Hctx Hne Hc Hu Hc0 Hie s1 u H1 Ecn Hoth.
    assert (Hc1 : nth_error (ns_apis s1) ci = Some c) by (rewrite Hoth by exact Hne; exact Hc).
    unfold C0, counters_of in Hc0.
    destruct (dict_get ident_eqb (ITest cid) (ns_counters ns)) as [d|] eqn:Ed.
    - subst d.
      apply (substitute_loop_indexes_spec tasks ai s1 (reid u (a_src a) a) ci c kl ie H1 Hctx Hc1); [|exact Hie].
      rewrite Hu, Ecn. exact Ed.
    - apply enc_rev_nil in Hc0. subst kl. apply ie_of_nil in Hie. subst ie.
      unfold substitute_loop_indexes. unfold nbind at 1. unfold get_api at 1. rewrite H1.
      cbn [reid with_params with_uuid a_ctx]. rewrite Hctx.
      unfold nbind at 1. unfold get_api at 1. rewrite Hc1.
      unfold nbind at 1. unfold nget at 1. rewrite Hu, Ecn, Ed. unfold nret. f_equal. f_equal.
      rewrite subst_params_nil.
      rewrite (upd_same _ (with_params (a_src a)) (ns_apis s1) ai _ H1) by reflexivity.
      destruct s1; reflexivity.
  Qed.

  (* ---- one notification on the reference side, default listeners, no observers ---- *)
  Definition g_entries (n : notif) (fin : bool) (g : G) : list entry :=
    map (fun l => ENotif l n (g_running g)) (listeners_of (n_kind n) (g_ls g))
    ++ map (fun o => EObs o (n_kind n) (n_name n) (n_id n) fin) (g_obs g).

  Lemma emit_gen_eq : forall n fin g,
      emit_gen n fin g = Ok (tt, g <| g_log := rev (g_entries n fin g) ++ g_log g |>).
  Proof. reflexivity. Qed.

  Lemma notif_entries_eq : forall k a fin s g name site id octx params,
      ns_ls s = g_ls g -> ns_obs s = g_obs g -> ns_running s = g_running g ->
      notif_of s k a = mk k name site id octx params -> a_name a = name -> ident_nat (a_uuid a) = id ->
      notif_entries k a fin s = g_entries (mk k name site id octx params) fin g.
  Proof.
    intros k a fin s g name site id octx params H1 H2 H3 H4 H5 H6.
    unfold notif_entries, g_entries. cbn [mk n_kind n_name n_id]. rewrite H1, H2, H3, H4, H5, H6. reflexivity.
  Qed.

  Definition ctx_is (ns : NS) (ctx cid : nat) : Prop :=
    exists ac, nth_error (ns_apis ns) ctx = Some ac /\ (a_uuid ac = ITest cid /\ a_is_task ac = true /\ cid < ns_tid ns).

  (* ---- starting a service ---- *)
  Lemma with_uuid_uuid : forall u v a, with_uuid v (with_uuid u a) = with_uuid v a.
  Proof. reflexivity. Qed.
  Lemma with_uuid_inj : forall u v a b, with_uuid u a = with_uuid v b -> u = v /\ forall w, with_uuid w a = with_uuid w b.
  Proof.
    intros u v [a1 a2 a3 a4 a5 a6 a7 a8 a9] [b1 b2 b3 b4 b5 b6 b7 b8 b9] H. unfold with_uuid in H. cbn in H.
    injection H as E1 E2 E3 E4 E5 E6 E7 E8 E9. subst. split; reflexivity.
  Qed.

  (* the reference side of a service start, up to the point where the engine may complete it *)
  Definition ss_pfx (cid : nat) (ie : ienv) (n : name) (at_ : site) (ins : list param) : M nat :=
    id <- fresh_s ;; await id ;;; emit (mk SS n at_ id (Some cid) (subst_params ie ins)) ;;; k <- tick_ss ;; ret id.
  Lemma start_svc_unf : forall f cid ie n at_ ins g,
      start_stmt orc imm (S f) cid ie (XService n at_ ins) g =
      match ss_pfx cid ie n at_ ins g with
      | Ok (id, g1) => if imm (g_ss g)
                       then (unawait id ;;; emit (mk SF n at_ id (Some cid) (subst_params ie ins)) ;;; ret RDone) g1
                       else Ok (RAwait id, g1)
      | Fuel => Fuel | Exn k => Exn k | Unsupported => Unsupported
      end.
  Proof.
    intros. cbn [start_stmt]. unfold ss_pfx, bind, fresh_s, await, set_awaited, emit, tick_ss, ret.
    rewrite !emit_gen_eq. cbn [g_ss set]. destruct (imm (g_ss g)); reflexivity.
  Qed.

  Lemma sim_SS : forall ie kl il u ps0 n at_ ins ctx cid a fin g id g' ns pend,
      ss_pfx cid ie n at_ ins g = Ok (id, g') ->
      ie_of tasks kl ie -> C0 ns cid kl -> (il = false -> ie = [] /\ ps0 = ins) ->
      Inv ns -> GR g ns pend ->
      nth_error (ns_apis ns) a = Some (reid u ps0 (svc_api il n at_ ins ctx a)) ->
      dict_get ident_eqb u (ns_place_dict ns) = Some fin ->
      ctx_is ns ctx cid -> ctx <> a ->
      let ps := subst_params ie ins in
      let ns' := notified SS (reid (ITest (ns_sid ns)) ps (svc_api il n at_ ins ctx a)) false (ss_st il a fin ps ns) in
      id = g_sid g /\ g_awaited g' = g_awaited g ++ [g_sid g] /\ g_sid g' = S (g_sid g) /\
      (imm (g_ss g) = false -> RunCb tasks env (CbSS a) ns ns') /\ ns_cbs ns' = ns_cbs ns /\ Inv ns' /\ GR g' ns' (pend ++ [g_sid g]) /\
      ns_places ns' = ns_places ns /\
      ns_apis ns' = upd a (reid (ITest (g_sid g)) ps) (ns_apis ns) /\
      ns_place_dict ns' = (ITest (g_sid g), fin) :: ns_place_dict ns /\
      ns_counters ns' = ns_counters ns.
  Proof.
    intros ie kl il u ps0 n at_ ins ctx cid a fin g id g' ns pend H Hie Hc0 Hil Hinv Hgr Ha Hd Hctx Hne ps ns'.
    pose proof Hctx as (ac & Hac & Huc & Htk & Hct).
    destruct Hinv as [I1 I2 I3 I4 I5 I6 I7 I8 I9 (d & Id & Ik) I11].
    destruct Hgr as [G1 G2 G3 G4 G5 G6 G7 G8 G9 G10].
    unfold ss_pfx, bind, fresh_s, await, set_awaited, emit, tick_ss in H.
    rewrite emit_gen_eq in H. cbn [g_ss set] in H. unfold ret in H.
    inversion H; subst id g'; clear H.
    set (PRE := ss_st il a fin ps ns) in *.
    (* outside loops nothing is substituted *)
    assert (Hpsf : il = false -> ps = ins /\ ps0 = ins).
    { intro E. destruct (Hil E) as [-> ->]. split; [apply subst_params_nil|reflexivity]. }
    assert (E_apis : ns_apis PRE = upd a (reid (ITest (ns_sid ns)) ps) (ns_apis ns)).
    { unfold PRE, ss_st, ss_pre0. destruct il; [reflexivity|]. destruct (Hpsf eq_refl) as [E1 E2].
      unfold ss_pre. cbn [ns_apis set]. symmetry. eapply upd_at_ext; [exact Ha|]. rewrite E1, E2. reflexivity. }
    assert (E_dict : ns_place_dict PRE = (ITest (ns_sid ns), fin) :: ns_place_dict ns) by (unfold PRE, ss_st, ss_pre0; destruct il; reflexivity).
    assert (E_sid : ns_sid PRE = S (ns_sid ns)) by (unfold PRE, ss_st, ss_pre0; destruct il; reflexivity).
    assert (E_aw : ns_awaited PRE = ns_awaited ns ++ [EvFinish (ITest (ns_sid ns))]) by (unfold PRE, ss_st, ss_pre0; destruct il; reflexivity).
    assert (E_trans : ns_trans PRE = ns_trans ns) by (unfold PRE, ss_st, ss_pre0; destruct il; reflexivity).
    assert (E_cbs : ns_cbs PRE = ns_cbs ns) by (unfold PRE, ss_st, ss_pre0; destruct il; reflexivity).
    assert (E_ti : ns_test_ids PRE = ns_test_ids ns) by (unfold PRE, ss_st, ss_pre0; destruct il; reflexivity).
    assert (E_ls : ns_ls PRE = ns_ls ns) by (unfold PRE, ss_st, ss_pre0; destruct il; reflexivity).
    assert (E_obs : ns_obs PRE = ns_obs ns) by (unfold PRE, ss_st, ss_pre0; destruct il; reflexivity).
    assert (E_st : ns_start_place PRE = ns_start_place ns) by (unfold PRE, ss_st, ss_pre0; destruct il; reflexivity).
    assert (E_fi : ns_final_place PRE = ns_final_place ns) by (unfold PRE, ss_st, ss_pre0; destruct il; reflexivity).
    assert (E_pl : ns_places PRE = ns_places ns) by (unfold PRE, ss_st, ss_pre0; destruct il; reflexivity).
    assert (E_cn : ns_counters PRE = ns_counters ns) by (unfold PRE, ss_st, ss_pre0; destruct il; reflexivity).
    assert (E_tid : ns_tid PRE = ns_tid ns) by (unfold PRE, ss_st, ss_pre0; destruct il; reflexivity).
    assert (E_nss : ns_nss PRE = ns_nss ns) by (unfold PRE, ss_st, ss_pre0; destruct il; reflexivity).
    assert (E_run : ns_running PRE = ns_running ns) by (unfold PRE, ss_st, ss_pre0; destruct il; reflexivity).
    assert (E_log : ns_log PRE = ns_log ns) by (unfold PRE, ss_st, ss_pre0; destruct il; reflexivity).
    assert (E_pend : ns_pending PRE = ns_pending ns) by (unfold PRE, ss_st, ss_pre0; destruct il; reflexivity).
    assert (E_q : ns_q PRE = ns_q ns) by (unfold PRE, ss_st, ss_pre0; destruct il; reflexivity).
    split; [reflexivity|]. split; [reflexivity|]. split; [reflexivity|].
    split.
    { intro Hni. pose proof (RunCb_SS a ns _ fin ps (proj1 I4) I3 Ha) as Hr.
      cbn [reid with_params with_uuid a_uuid a_in_loop a_params svc_api] in Hr.
      apply Hr; [| |exact Hd|rewrite Himm, G3; exact Hni].
      - intro E. destruct (Hpsf E) as [E1 E2]. congruence.
      - intros _. apply (sub_to_ok ns a (reid u ps0 (svc_api il n at_ ins ctx a)) ctx ac cid kl ie eq_refl Hne Hac Huc Hc0 Hie). }
    unfold ns'. split; [rewrite nf_cbs; exact E_cbs|].
    split; [|split; [|split; [|split]]].
    - constructor; rewrite ?nf_trans, ?nf_cbs, ?nf_test_ids, ?nf_ls, ?nf_obs, ?nf_start_place, ?nf_final_place,
                   ?nf_places, ?nf_apis, ?nf_place_dict, ?nf_sid, ?nf_counters,
                   ?E_trans, ?E_cbs, ?E_ti, ?E_ls, ?E_obs, ?E_st, ?E_fi, ?E_pl, ?E_cn; try assumption.
      + destruct I4 as (A4 & B4 & C4 & D4). split; [exact A4|]. split; [exact B4|].
        rewrite nf_awaited, nf_pending, E_sid, E_aw, E_pend. unfold pend_after. cbn [reid with_params with_uuid a_uuid]. split.
        * intros i Hi. apply in_app_or in Hi. destruct Hi as [Hi|[Hi|[]]]; [specialize (C4 i Hi); lia|inversion Hi; lia].
        * intros i Hi. apply in_app_or in Hi. destruct Hi as [Hi|[Hi|[]]]; [specialize (D4 i Hi); lia|inversion Hi; lia].
      + split; [exact (proj1 I5)|].
        eapply (UQ_svc ns _ a (reid (ITest (ns_sid ns)) ps) _ (proj2 I5)); rewrite ?nf_counters, ?nf_tid, ?nf_apis;
          [exact E_cn|exact E_tid|exact Ha|reflexivity|intro x; reflexivity|exact E_apis].
      + rewrite E_apis, upd_length. exact I9.
      + rewrite E_dict, E_sid.
        exists ((ITest (ns_sid ns), fin) :: d). split; [rewrite Id; reflexivity|].
        constructor; [exists (ns_sid ns); split; [reflexivity|lia]|].
        eapply Forall_impl; [|exact Ik]. intros kv (i & E & Hi). exists i. split; [exact E|lia].
      + intros k a0 Hk0. destruct (I11 k a0 Hk0) as (u0 & q0 & Hu0 & Hq0 & Hdk). rewrite E_apis, E_dict, E_sid.
        destruct (Nat.eq_dec k a) as [->|Hka].
        * exists (ITest (ns_sid ns)), ps. rewrite (nth_error_upd_eq _ _ _ _ _ Hu0). split; [reflexivity|].
          rewrite Ha in Hu0. pose proof (f_equal (option_map a_uuid) Hu0) as Eu.
          cbn [option_map reid with_params with_uuid a_uuid] in Eu. injection Eu as Eu. subst u0.
          pose proof (f_equal (option_map a_in_loop) Hu0) as El. cbn [option_map reid with_params with_uuid a_in_loop svc_api] in El.
          injection El as El.
          pose proof (f_equal (option_map a_params) Hu0) as Ep. cbn [option_map reid with_params with_uuid a_params] in Ep.
          injection Ep as Ep.
          split.
          { intro E. rewrite <- El in E. destruct (Hpsf E) as [E1 E2]. rewrite <- (Hq0 ltac:(rewrite <- El; exact E)). congruence. }
          intros Hta k' Hk'.
          destruct (Hdk Hta k' Hk') as [D1 _]. cbn [dict_get ident_eqb]. rewrite Nat.eqb_refl.
          split; [rewrite <- D1, Hd; reflexivity|]. intros i Hi. injection Hi as <-. lia.
        * exists u0, q0. rewrite nth_error_upd_neq by congruence. split; [exact Hu0|]. split; [exact Hq0|].
          intros Hta k' Hk'. destruct (Hdk Hta k' Hk') as [D1 D2]. split.
          -- cbn [dict_get]. destruct (ident_eqb u0 (ITest (ns_sid ns))) eqn:Eq; [|exact D1].
             exfalso. destruct u0 as [i0|k0]; cbn [ident_eqb] in Eq; [|discriminate Eq].
             apply Nat.eqb_eq in Eq. subst i0. specialize (D2 _ eq_refl). lia.
          -- intros i Hi. specialize (D2 i Hi). lia.
    - constructor; rewrite ?nf_tid, ?nf_sid, ?nf_nss, ?nf_running, ?nf_log, ?nf_awaited, ?nf_pending, ?nf_ls, ?nf_obs, ?nf_q,
                   ?E_tid, ?E_sid, ?E_nss, ?E_run, ?E_log, ?E_ls, ?E_obs, ?E_q; cbn [g_tid g_sid g_ss g_running g_log g_ls g_obs g_awaited g_q set]; try assumption.
      + congruence.
      + congruence.
      + rewrite G5. f_equal. f_equal.
        apply notif_entries_eq; rewrite ?E_ls, ?E_obs, ?E_run; try assumption; try reflexivity.
        unfold notif_of, mk. cbn [a_name a_site a_uuid a_ctx a_params reid with_params with_uuid svc_api ident_nat].
        rewrite G2. f_equal.
        unfold ctx_uuid_nat. rewrite E_apis.
        rewrite nth_error_upd_neq by congruence. rewrite Hac, Huc. reflexivity.
      + rewrite E_aw, G8, map_app, G2. reflexivity.
      + unfold pend_after. cbn [a_uuid reid with_params with_uuid]. rewrite E_pend, G9, map_app, G2. reflexivity.
    - rewrite nf_places. exact E_pl.
    - rewrite nf_apis, <- G2. exact E_apis.
    - split; [rewrite nf_place_dict, <- G2; exact E_dict|rewrite nf_counters; exact E_cn].
  Qed.

  (* the context identifier a notification reports *)
  Definition octx_is (ns : NS) (a : nat) (oc : option nat) (ocid : option nat) : Prop :=
    match oc, ocid with
    | None, None => True
    | Some c, Some cid => ctx_is ns c cid /\ c <> a
    | _, _ => False
    end.

  Lemma octx_uuid : forall ns ns' a oc ocid,
      octx_is ns a oc ocid ->
      (forall j, j <> a -> nth_error (ns_apis ns') j = nth_error (ns_apis ns) j) ->
      ctx_uuid_nat ns' oc = ocid.
  Proof.
    intros ns ns' a [c|] [cid|] H Hsame; cbn [octx_is] in H; try contradiction; [|reflexivity].
    destruct H as [(ac & Hac & Hu & _) Hne]. unfold ctx_uuid_nat. rewrite Hsame by exact Hne. rewrite Hac, Hu. reflexivity.
  Qed.

  (* the reference bookkeeping after one more log entry; [tid'] / [run'] the new values *)
  Definition g_step (g g1 : G) (n : notif) (fin : bool) (tid' : nat) (run' : bool) : Prop :=
    g_tid g1 = tid' /\ g_sid g1 = g_sid g /\ g_ss g1 = g_ss g /\ g_running g1 = run' /\
    g_log g1 = rev (g_entries n fin g) ++ g_log g /\ g_ls g1 = g_ls g /\ g_obs g1 = g_obs g /\ g_awaited g1 = g_awaited g /\
    g_q g1 = g_q g.

  (* ---- task started ---- *)
  Lemma sim_TS : forall a a0 ps ocid g g1 ns pend,
      Inv ns -> GR g ns pend ->
      nth_error (ns_apis ns) a = Some a0 -> a_is_task a0 = true ->
      (a_in_loop a0 = false -> ps = a_params a0) ->
      (a_in_loop a0 = true -> a_has_call a0 = true /\ sub_to tasks ns a a0 ps) ->
      octx_is ns a (a_ctx a0) ocid -> (a = 0 \/ 0 < ns_tid ns) ->
      g_step g g1 (mk TS (a_name a0) (a_site a0) (g_tid g) ocid ps) false
             (S (g_tid g)) (g_running g) ->
      let ns' := notified TS (reid (ITest (ns_tid ns)) ps a0) false (ts_pre_l a ps ns) in
      RunCb tasks env (CbTS a) ns ns' /\ ns_cbs ns' = ns_cbs ns /\ Inv ns' /\ GR g1 ns' pend /\
      ns_places ns' = ns_places ns /\
      ns_apis ns' = upd a (reid (ITest (g_tid g)) ps) (ns_apis ns) /\
      ns_place_dict ns' = ns_place_dict ns /\ ns_counters ns' = ns_counters ns.
  Proof.
    intros a a0 ps ocid g g1 ns pend Hinv Hgr Ha Htask Hpf Hpt Hc Hpos (S1 & S2 & S3 & S4 & S5 & S6 & S7 & S8 & S9) ns'.
    destruct Hinv as [I1 I2 I3 I4 I5 I6 I7 I8 I9 (d & Id & Ik) I11]. pose proof (proj1 I4) as I4l.
    destruct Hgr as [G1 G2 G3 G4 G5 G6 G7 G8 G9 G10].
    split; [apply RunCb_TS; assumption|].
    unfold ns'. split; [rewrite nf_cbs; reflexivity|].
    assert (EA : ns_apis (ts_pre_l a ps ns) = upd a (reid (ITest (ns_tid ns)) ps) (ns_apis ns)) by reflexivity.
    split; [|split; [|split; [|split]]].
    - constructor; rewrite ?nf_trans, ?nf_cbs, ?nf_test_ids, ?nf_ls, ?nf_obs, ?nf_start_place, ?nf_final_place,
                   ?nf_places, ?nf_apis, ?nf_place_dict, ?nf_sid, ?nf_counters; try assumption.
      + split; [exact (proj1 I5)|].
        eapply (UQ_task ns _ a (reid (ITest (ns_tid ns)) ps) a0 (proj2 I5)); rewrite ?nf_counters, ?nf_tid, ?nf_apis;
          [reflexivity|reflexivity|exact Ha|intro x; reflexivity|reflexivity|exact Hpos].
      + rewrite EA, upd_length. exact I9.
      + exists d. split; [exact Id|exact Ik].
      + intros k b0 Hk0. destruct (I11 k b0 Hk0) as (u0 & q0 & Hu0 & Hq0 & Hdk).
        rewrite EA.
        change (ns_place_dict (ts_pre_l a ps ns)) with (ns_place_dict ns). change (ns_sid (ts_pre_l a ps ns)) with (ns_sid ns).
        destruct (Nat.eq_dec k a) as [->|Hka].
        * exists (ITest (ns_tid ns)), ps. rewrite (nth_error_upd_eq _ _ _ _ _ Hu0). split; [reflexivity|].
          rewrite Ha in Hu0. injection Hu0 as Hu0. subst a0. split.
          { intro E. rewrite (Hpf E). cbn [reid with_params with_uuid a_params]. apply Hq0. exact E. }
          intros Hta. exfalso. cbn [reid with_params with_uuid a_is_task] in Htask. congruence.
        * exists u0, q0. rewrite nth_error_upd_neq by congruence. split; [exact Hu0|]. split; [exact Hq0|exact Hdk].
    - constructor; rewrite ?nf_tid, ?nf_sid, ?nf_nss, ?nf_running, ?nf_log, ?nf_awaited, ?nf_pending, ?nf_ls, ?nf_obs.
      + change (ns_tid (ts_pre_l a ps ns)) with (S (ns_tid ns)). congruence.
      + change (ns_sid (ts_pre_l a ps ns)) with (ns_sid ns). congruence.
      + change (ns_nss (ts_pre_l a ps ns)) with (ns_nss ns). congruence.
      + change (ns_running (ts_pre_l a ps ns)) with (ns_running ns). congruence.
      + change (ns_log (ts_pre_l a ps ns)) with (ns_log ns). rewrite S5, G5. f_equal. f_equal.
        apply notif_entries_eq; try assumption; try reflexivity; try (destruct a0; reflexivity);
          try (destruct a0; cbn [reid with_params with_uuid a_uuid ident_nat]; exact G1).
        unfold notif_of, mk. destruct a0 as [x1 x2 x3 x4 x5 x6 x7 x8 x9]; cbn [a_name a_site a_uuid a_ctx a_params reid with_params with_uuid ident_nat] in *.
        rewrite G1. f_equal.
        eapply octx_uuid; [exact Hc|]. intros j Hj.
        rewrite EA. apply nth_error_upd_neq. congruence.
      + change (ns_ls (ts_pre_l a ps ns)) with (ns_ls ns). congruence.
      + change (ns_obs (ts_pre_l a ps ns)) with (ns_obs ns). congruence.
      + change (ns_awaited (ts_pre_l a ps ns)) with (ns_awaited ns). congruence.
      + unfold pend_after. change (ns_pending (ts_pre_l a ps ns)) with (ns_pending ns). exact G9.
      + rewrite nf_q. change (ns_q (ts_pre_l a ps ns)) with (ns_q ns). congruence.
    - rewrite nf_places. reflexivity.
    - rewrite nf_apis, <- G1. reflexivity.
    - split; [rewrite nf_place_dict; reflexivity|rewrite nf_counters; reflexivity].
  Qed.

  Lemma remove_first_ITest : forall id pend,
      remove_first (ident_eqb (ITest id)) (map ITest pend)
      = option_map (map ITest) (remove_first (Nat.eqb id) pend).
  Proof.
    intros id. induction pend as [|x r IH]; [reflexivity|]. cbn [map remove_first ident_eqb].
    destruct (Nat.eqb id x); [reflexivity|]. rewrite IH. destruct (remove_first (Nat.eqb id) r); reflexivity.
  Qed.

  (* ---- a notification that changes no identifier: service finished / task finished ---- *)
  Lemma sim_fin : forall k a a1 ocid (fin : bool) g g1 ns pend pend',
      (k = SF \/ k = TF) ->
      Inv ns -> GR g ns pend ->
      nth_error (ns_apis ns) a = Some a1 ->
      octx_is ns a (a_ctx a1) ocid ->
      (match k with
       | SF => exists id, a_uuid a1 = ITest id /\ remove_first (Nat.eqb id) pend = Some pend'
       | _ => pend' = pend
       end) ->
      g_step g g1 (mk k (a_name a1) (a_site a1) (ident_nat (a_uuid a1)) ocid (a_params a1)) fin
             (g_tid g) (if fin then false else g_running g) ->
      let ns' := notified k a1 fin ns in
      ns_cbs ns' = ns_cbs ns /\ Inv ns' /\ GR g1 ns' pend' /\
      ns_places ns' = ns_places ns /\ ns_apis ns' = ns_apis ns /\ ns_place_dict ns' = ns_place_dict ns.
  Proof.
    intros k a a1 ocid fin g g1 ns pend pend' Hk Hinv Hgr Ha Hc Hp (S1 & S2 & S3 & S4 & S5 & S6 & S7 & S8 & S9) ns'.
    destruct Hinv as [I1 I2 I3 I4 I5 I6 I7 I8 I9 (d & Id & Ik) I11].
    destruct Hgr as [G1 G2 G3 G4 G5 G6 G7 G8 G9 G10].
    unfold ns'. split; [rewrite nf_cbs; reflexivity|].
    split; [|split; [|split; [|split]]].
    - constructor; rewrite ?nf_trans, ?nf_cbs, ?nf_test_ids, ?nf_ls, ?nf_obs, ?nf_start_place, ?nf_final_place,
                   ?nf_places, ?nf_apis, ?nf_place_dict, ?nf_sid, ?nf_counters; try assumption.
      + destruct I4 as (A4 & B4 & C4 & D4). split; [exact A4|]. split; [exact B4|]. rewrite nf_awaited, nf_pending.
        split; [exact C4|]. intros i Hi. apply D4. unfold pend_after in Hi. destruct k; try exact Hi;
          try (exfalso; destruct Hk as [E|E]; discriminate E).
        destruct (remove_first (ident_eqb (a_uuid a1)) (ns_pending ns)) as [t|] eqn:Er; [|exact Hi].
        apply (remove_first_sub _ _ _ _ _ Er Hi).
      + split; [exact (proj1 I5)|apply (UQ_eq _ _ (proj2 I5)); rewrite ?nf_counters, ?nf_apis, ?nf_tid; reflexivity].
      + exists d. split; [exact Id|exact Ik].
    - constructor; rewrite ?nf_tid, ?nf_sid, ?nf_nss, ?nf_running, ?nf_log, ?nf_awaited, ?nf_pending.
      + congruence.
      + congruence.
      + destruct Hk as [-> | ->]; congruence.
      + destruct fin; congruence.
      + rewrite S5, G5. f_equal. f_equal.
        apply notif_entries_eq; try assumption; try reflexivity.
        unfold notif_of, mk. f_equal.
        eapply octx_uuid; [exact Hc|]. intros j Hj. reflexivity.
      + rewrite nf_ls. congruence.
      + rewrite nf_obs. congruence.
      + congruence.
      + unfold pend_after. destruct Hk as [-> | ->].
        * destruct Hp as (id & Hu & Hr). rewrite Hu, G9, remove_first_ITest, Hr. reflexivity.
        * subst pend'. exact G9.
      + rewrite nf_q. congruence.
    - rewrite nf_places. reflexivity.
    - rewrite nf_apis. reflexivity.
    - rewrite nf_place_dict. reflexivity.
  Qed.

  (* =========================================================================== *)
  (* steps of one evaluation                                                      *)
  (* =========================================================================== *)
  Definition nT : nat := List.length (ns_trans N0).
  Definition nP : nat := List.length (ns_places N0).

  (* transition j cannot fire under marking m: it reads an unmarked place *)
  Definition dis (m : list nat) (j : nat) : Prop := exists q, In q (preN N0 j) /\ ~ In q m.

  Lemma nth_error_preN : forall j tr, nth_error (ns_trans N0) j = Some tr -> preN N0 j = tr_pre tr.
  Proof. intros j tr H. unfold preN. rewrite (nth_error_nth _ _ _ H). reflexivity. Qed.
  Lemma nth_error_postN : forall j tr, nth_error (ns_trans N0) j = Some tr -> postN N0 j = tr_post tr.
  Proof. intros j tr H. unfold postN. rewrite (nth_error_nth _ _ _ H). reflexivity. Qed.

  Lemma dis_disabled : forall ns m j, Inv ns -> Marks ns m -> dis m j -> disabled ns j.
  Proof.
    intros ns m j Hinv Hm (q & Hqi & Hn). unfold disabled. rewrite (iv_trans _ Hinv).
    destruct (nth_error (ns_trans N0) j) as [tr|] eqn:E; [|exact I].
    rewrite (nth_error_preN _ _ E) in Hqi.
    destruct (enabled ns tr) eqn:En; [|reflexivity]. exfalso. apply Hn.
    apply (proj1 (enabled_iff ns m tr Hm) En). exact Hqi.
  Qed.

  (* the machine of Mach.v on this net *)
  Definition Steps : NS -> NS -> Prop := Mach.Steps tasks env (ns_trans N0) (ns_cbs N0).
  Definition Starts : list cb -> NS -> NS -> Prop := Mach.Starts tasks env (ns_trans N0) (ns_cbs N0).
  Definition dead (s : NS) : Prop := forall j, j < nT -> disabled s j.

  Lemma steps_refl : forall ns, Steps ns ns.
  Proof. exact (Mach.steps_refl tasks env _ _). Qed.
  Lemma Steps_trans : forall a b c, Steps a b -> Steps b c -> Steps a c.
  Proof. exact (Mach.Steps_trans tasks env _ _). Qed.
  Lemma Starts_nil : forall a, Starts [] a a.
  Proof. exact (Mach.Starts_nil tasks env _ _). Qed.
  Lemma Starts_RunList : forall l a b, RunList l a b -> Starts l a b.
  Proof. exact (Mach.Starts_RunList tasks env _ _). Qed.
  Lemma Starts_app : forall l1 l2 a b c, Starts l1 a b -> Starts l2 b c -> Starts (l1 ++ l2) a c.
  Proof. exact (Mach.Starts_app tasks env _ _). Qed.
  Lemma Starts_cons : forall c l a b d, RunCb tasks env c a b -> ns_cbs b = ns_cbs a -> is_parloop_cb c = false ->
                                        Starts l b d -> Starts (c :: l) a d.
  Proof. exact (Mach.Starts_cons tasks env _ _). Qed.

  (* a complete evaluation *)
  Lemma Steps_eval : forall a b, Steps a b -> Inv a -> Inv b -> dead b -> EvalTo tasks env a b.
  Proof.
    intros a b H Ia Ib Hd.
    apply (Mach.Steps_EvalTo tasks env (ns_trans N0) (ns_cbs N0) a b H (iv_trans _ Ia) (iv_cbs _ Ib) (iv_trans _ Ib)). exact Hd.
  Qed.

  Lemma Marks_places : forall ns ns' m, ns_places ns' = ns_places ns -> Marks ns m -> Marks ns' m.
  Proof. intros ns ns' m E [A B]. split; [rewrite E; exact A|]. intro q. unfold tokens. rewrite E. apply B. Qed.

  Lemma Inv_fire : forall ns tr, Inv ns -> List.length (ns_places (fire_ns tr ns)) = List.length (ns_places ns) ->
                                 Inv (fire_ns tr ns).
  Proof.
    intros ns tr [I1 I2 I3 I4 I5 I6 I7 I8 I9 I10 I11] Hl. constructor; try assumption. congruence.
  Qed.

  Lemma GR_fire : forall g ns pend tr, GR g ns pend -> GR g (fire_ns tr ns) pend.
  Proof. intros g ns pend tr [G1 G2 G3 G4 G5 G6 G7 G8 G9 G10]. constructor; assumption. Qed.

  Lemma Marks_placed : forall s m p, Marks s m -> p < List.length (ns_places s) -> Marks (placed p s) (p :: m).
  Proof.
    intros s m p [Ha Hm] Hp. split.
    - unfold placed. change (ns_places (s <| ns_places := ?l |>)) with l. cbn [ns_places set]. apply all_some_upd. exact Ha.
    - intro q. rewrite tokens_tok. unfold placed. cbn [ns_places set]. rewrite tok_upd, cnt_cons.
      rewrite <- tokens_tok, (Nat.eqb_sym p q). destruct (Nat.eqb_spec q p) as [->|Hne].
      + destruct (Ha p Hp) as [k Hk]. rewrite Hk. rewrite <- (Hm p). unfold tokens. rewrite Hk. lia.
      + rewrite Hm. lia.
  Qed.

  Lemma fire_len : forall ns m tr, Marks ns m -> List.length (ns_places (fire_ns tr ns)) = List.length (ns_places ns).
  Proof.
    intros ns m tr Mk. rewrite places_fire_ns.
    destruct (all_some_fold Nat.pred (tr_pre tr) (ns_places ns) (proj1 Mk)) as [A1 L1].
    destruct (all_some_fold S (tr_post tr) _ A1) as [A2 L2]. congruence.
  Qed.

  Lemma Marks_ext : forall ns m m', Marks ns m -> (forall q, cnt m q = cnt m' q) -> Marks ns m'.
  Proof. intros ns m m' [A B] E. split; [exact A|]. intro q. rewrite B. apply E. Qed.

  (* one step: [e] is the only enabled transition; it fires and its callbacks [l] run *)
  Lemma step_starts : forall ns m e tr l ns1,
      Inv ns -> Marks ns m -> e < nT -> nth_error (ns_trans N0) e = Some tr ->
      (forall q, In q (tr_pre tr) -> In q m) ->
      (forall j, j < nT -> j <> e -> dis m j) ->
      cbsN N0 e = l -> no_parloop l = true ->
      Starts l (fire_ns tr ns) ns1 -> Steps ns ns1.
  Proof.
    intros ns m e tr l ns1 Hinv Hm He Htr Hen Hdis Hl Hnp Hrun.
    apply (Mach.Steps_fire tasks env (ns_trans N0) (ns_cbs N0) ns e tr ns1 (iv_trans _ Hinv) He Htr).
    - apply (proj2 (enabled_iff ns m tr Hm)). exact Hen.
    - intros j Hj. eapply dis_disabled; [exact Hinv|exact Hm|]. apply Hdis; lia.
    - unfold cbsN in Hl. rewrite Hl. exact Hnp.
    - unfold cbsN in Hl. rewrite Hl. exact Hrun.
  Qed.

  Lemma step_only : forall ns m e tr l ns1,
      Inv ns -> Marks ns m -> e < nT -> nth_error (ns_trans N0) e = Some tr ->
      (forall q, In q (tr_pre tr) -> In q m) ->
      (forall j, j < nT -> j <> e -> dis m j) ->
      cbsN N0 e = l -> no_parloop l = true ->
      RunList l (fire_ns tr ns) ns1 -> Steps ns ns1.
  Proof.
    intros ns m e tr l ns1 Hinv Hm He Htr Hen Hdis Hl Hnp Hrun.
    eapply step_starts; try eassumption. apply Starts_RunList. exact Hrun.
  Qed.

  (* ---- configurations of the machine: state and stack of pending callback lists ---- *)
  Definition MS : NS * list (list cb) -> NS * list (list cb) -> Prop := Mach.MS tasks env (ns_trans N0) (ns_cbs N0).
  Lemma MS_refl : forall c, MS c c. Proof. exact (Mach.MS_refl tasks env _ _). Qed.
  Lemma MS_trans : forall a b c, MS a b -> MS b c -> MS a c. Proof. exact (Mach.MS_trans tasks env _ _). Qed.
  Lemma MS_cb : forall c l K s s1, RunCb tasks env c s s1 -> ns_cbs s1 = ns_cbs s -> is_parloop_cb c = false ->
                                   MS (s, (c :: l) :: K) (s1, l :: K).
  Proof. exact (Mach.MS_cb tasks env _ _). Qed.
  Lemma MS_list : forall l1 l K s s1, RunList l1 s s1 -> MS (s, (l1 ++ l) :: K) (s1, l :: K).
  Proof. exact (Mach.MS_list tasks env _ _). Qed.
  Lemma MS_steps : forall a b K, Steps a b -> MS (a, [] :: K) (b, [] :: K).
  Proof. intros a b K H. apply H. Qed.
  Lemma MS_starts : forall l a b rest K, Starts l a b -> MS (a, (l ++ rest) :: K) (b, rest :: K).
  Proof. intros l a b rest K H. apply H. Qed.
  Lemma MS_unwind : forall ms l K s, Inv s -> dead s -> MS (s, [] :: UnwE ms (l :: K)) (bumpn (sumn ms) s, l :: K).
  Proof. intros ms l K s Hi Hd. apply (Mach.MS_unwindE tasks env _ _ ms l K s (iv_trans _ Hi)). exact Hd. Qed.
  Lemma MS_marks : forall j l K s, MS (s, (marks j ++ l) :: K) (bumpn j s, l :: K).
  Proof. exact (Mach.MS_marks tasks env _ _). Qed.

  (* the only enabled transition fires *)
  Lemma MS_fire1 : forall ns m e tr l K,
      Inv ns -> Marks ns m -> e < nT -> nth_error (ns_trans N0) e = Some tr ->
      (forall q, In q (tr_pre tr) -> In q m) ->
      (forall j, j < nT -> j <> e -> dis m j) ->
      cbsN N0 e = l -> no_parloop l = true ->
      MS (ns, [] :: K) (fire_ns tr ns, l :: K).
  Proof.
    intros ns m e tr l K Hinv Hm He Htr Hen Hdis Hl Hnp. unfold cbsN in Hl. subst l.
    apply (Mach.MS_fire tasks env (ns_trans N0) (ns_cbs N0) ns e tr K (iv_trans _ Hinv) He Htr).
    - apply (proj2 (enabled_iff ns m tr Hm)). exact Hen.
    - intros j Hj. eapply dis_disabled; [exact Hinv|exact Hm|]. apply Hdis; lia.
    - exact Hnp.
  Qed.

  (* a callback that opens an evaluation *)
  Lemma MS_push : forall c l K s s2, ns_cbs s2 = ns_cbs s -> is_parloop_cb c = false ->
      (forall s', EvalTo tasks env s2 s' -> RunCb tasks env c s s') -> MS (s, (c :: l) :: K) (s2, [] :: l :: K).
  Proof. intros c l K s s2 Hc Hnp H. apply (Mach.MS_push tasks env _ _). split; [|split]; assumption. Qed.
  Lemma MS_pushb : forall c l K s s2, ns_cbs s2 = ns_cbs s -> is_parloop_cb c = false ->
      (forall s', EvalTo tasks env s2 s' -> RunCb tasks env c s (bump s')) -> MS (s, (c :: l) :: K) (s2, [] :: (MARK :: l) :: K).
  Proof. intros c l K s s2 Hc Hnp H. apply (Mach.MS_pushb tasks env _ _). split; [|split]; assumption. Qed.

  (* the start callbacks [l] of a component (followed by [rest], in an evaluation whose outer
     evaluations are [K]): either they run and the component waits, or the component completes
     inside evaluations that they open ([k] of them are still open), and the callbacks [xcbs]
     of its exit transition are about to run *)
  Definition Enters (l : list cb) (ns ns' : NS) (done : bool) (xcbs : list cb) : Prop :=
    if done then exists ms m, forall rest K, MS (ns, (l ++ rest) :: K) (ns', xcbs :: UnwE ms ((marks m ++ rest) :: K))
    else Starts l ns ns'.
  (* from the scan of an evaluation to the exit transition of a component, [k] evaluations deeper *)
  Definition Exits (ns ns' : NS) (xcbs : list cb) : Prop :=
    exists ms, forall K, MS (ns, [] :: K) (ns', xcbs :: UnwE ms K).

  Lemma Enters_pre : forall l1 l2 a b c d x, Starts l1 a b -> Enters l2 b c d x -> Enters (l1 ++ l2) a c d x.
  Proof.
    intros l1 l2 a b c d x H1 H2. destruct d; cbn [Enters] in *.
    - destruct H2 as (ms & m & H2). exists ms, m. intros rest K. rewrite <- app_assoc.
      eapply MS_trans; [apply (MS_starts _ _ _ _ _ H1)|apply H2].
    - eapply Starts_app; eassumption.
  Qed.
  Lemma Enters_cons : forall c l a b e d x, RunCb tasks env c a b -> ns_cbs b = ns_cbs a -> is_parloop_cb c = false ->
                                            Enters l b e d x -> Enters (c :: l) a e d x.
  Proof.
    intros c l a b e d x H Hc Hnp H2. change (c :: l) with ([c] ++ l). eapply Enters_pre; [|exact H2].
    apply Starts_RunList. eapply rl_cons; [exact H|exact Hc|exact Hnp|apply rl_nil].
  Qed.
  Lemma Enters_cb : forall l a b b' c x, Enters l a b true (c :: x) -> RunCb tasks env c b b' -> ns_cbs b' = ns_cbs b ->
                                         is_parloop_cb c = false -> Enters l a b' true x.
  Proof.
    intros l a b b' c x (ms & m & H) Hr Hc Hnp. exists ms, m. intros rest K. eapply MS_trans; [apply H|]. apply MS_cb; assumption.
  Qed.
  Lemma Exits_cb : forall a b b' c x, Exits a b (c :: x) -> RunCb tasks env c b b' -> ns_cbs b' = ns_cbs b ->
                                      is_parloop_cb c = false -> Exits a b' x.
  Proof.
    intros a b b' c x [ms H] Hr Hc Hnp. exists ms. intros K. eapply MS_trans; [apply H|]. apply MS_cb; assumption.
  Qed.
  (* the unwinding passes the markers: the engine's notification counter advances *)
  Lemma Exits_steps : forall a b, Exits a b [] -> Inv b -> dead b -> exists j, Steps a (bumpn j b).
  Proof.
    intros a b [ms H] Hi Hd. exists (sumn ms). intro K. eapply MS_trans; [apply H|].
    apply (Mach.MS_unwind0 tasks env _ _ ms K b (iv_trans _ Hi) Hd).
  Qed.
  Lemma MS_unwind0 : forall ms K s, Inv s -> dead s -> MS (s, [] :: UnwE ms K) (bumpn (sumn ms) s, [] :: K).
  Proof. intros ms K s Hi Hd. apply (Mach.MS_unwind0 tasks env _ _ ms K s (iv_trans _ Hi) Hd). Qed.
  Lemma Steps_Exits : forall a b c x, Steps a b -> Exits b c x -> Exits a c x.
  Proof. intros a b c x H [k H2]. exists k. intros K. eapply MS_trans; [apply H|apply H2]. Qed.

  (* =========================================================================== *)
  (* delivering a completion                                                      *)
  (* =========================================================================== *)
  (* what a start / a delivery in the context [ctx] leaves alone: the counters of every other
     task instance whose record lies outside the component's own range of API records *)
  Definition CF (ctx : nat) (a b : NS) (lo hi : nat) : Prop :=
    forall k ac, ~ (lo <= k < hi) -> k <> ctx -> nth_error (ns_apis a) k = Some ac -> a_is_task ac = true ->
                 counters_of (a_uuid ac) b = counters_of (a_uuid ac) a.
  Lemma CF_same : forall ctx a b lo hi, ns_counters b = ns_counters a -> CF ctx a b lo hi.
  Proof. intros ctx a b lo hi E k ac _ _ _ _. unfold counters_of. rewrite E. reflexivity. Qed.

  Lemma CF_eq_r : forall ctx a b b' lo hi, CF ctx a b lo hi -> ns_counters b' = ns_counters b -> CF ctx a b' lo hi.
  Proof. intros ctx a b b' lo hi H E k ac H1 H2 H3 H4. rewrite <- (H k ac H1 H2 H3 H4). unfold counters_of. rewrite E. reflexivity. Qed.

  Record Frame (ctx : nat) (ns ns' : NS) (lo hi : nat) : Prop := {
    fr_apis : forall k, ~ (lo <= k < hi) -> nth_error (ns_apis ns') k = nth_error (ns_apis ns) k;
    fr_sid : ns_sid ns <= ns_sid ns' /\ ns_tid ns <= ns_tid ns' /\ CF ctx ns ns' lo hi;
    fr_dict : exists d, ns_place_dict ns' = d ++ ns_place_dict ns /\
                        Forall (fun kv => exists i, fst kv = ITest i /\ ns_sid ns <= i) d
  }.

  Lemma Frame_refl : forall ctx ns lo hi, Frame ctx ns ns lo hi.
  Proof.
    intros. constructor; [reflexivity|split; [lia|split; [lia|apply CF_same; reflexivity]]|exists []; split; [reflexivity|constructor]].
  Qed.

  Lemma Frame_trans : forall ctx a b c lo hi lo1 hi1 lo2 hi2,
      Frame ctx a b lo1 hi1 -> Frame ctx b c lo2 hi2 -> lo <= lo1 -> hi1 <= hi -> lo <= lo2 -> hi2 <= hi ->
      Frame ctx a c lo hi.
  Proof.
    intros ctx a b c lo hi lo1 hi1 lo2 hi2 [A1 S1 (d1 & D1 & K1)] [A2 S2 (d2 & D2 & K2)] H1 H2 H3 H4.
    constructor; [intros k Hk; rewrite A2 by lia; apply A1; lia| |].
    { split; [lia|]. split; [lia|]. destruct S1 as (_ & _ & C1). destruct S2 as (_ & _ & C2).
      intros k ac Hk Hc Ha Ht. rewrite (C2 k ac); [apply (C1 k ac); try assumption; lia|lia|exact Hc| |exact Ht].
      rewrite A1 by lia. exact Ha. }
    exists (d2 ++ d1). split; [rewrite D2, D1, app_assoc; reflexivity|].
    apply Forall_app. split; [|exact K1].
    eapply Forall_impl; [|exact K2]. intros kv (i & E & Hi). exists i. split; [exact E|lia].
  Qed.

  (* what happens in the context of a call, seen from the caller's context *)
  Lemma Frame_ctx : forall c ctx a b lo hi LO HI, Frame c a b lo hi -> LO <= lo -> hi <= HI -> LO <= c < HI -> Frame ctx a b LO HI.
  Proof.
    intros c ctx a b lo hi LO HI [A (S1 & S2 & C) D] H1 H2 H3. constructor; [intros k Hk; apply A; lia| |exact D].
    split; [exact S1|]. split; [exact S2|]. intros k ac Hk _. apply C; lia.
  Qed.

  (* what holds after the net has processed (part of) a delivery *)
  Definition Post (ctx : nat) (ns ns' : NS) (g g' : G) (pend0 : list nat) (lo hi : nat) : Prop :=
    Inv ns' /\ Frame ctx ns ns' lo hi /\
    exists new, g_awaited g' = g_awaited g ++ new /\ GR g' ns' (pend0 ++ new).

  Definition agrees_in (lo hi : nat) (m m0 : list nat) : Prop := forall q, lo <= q < hi -> cnt m q = cnt m0 q.
  Definition agrees_out (lo hi : nat) (m m' : list nat) : Prop := forall q, ~ (lo <= q < hi) -> cnt m' q = cnt m q.

  (* outside the component (and apart from the transition that follows it) every transition
     is blocked by an unmarked place that does not belong to the component *)
  Definition Hout (plo phi tlo thi t2 : nat) (m : list nat) : Prop :=
    forall j, j < nT -> ~ (tlo <= j < thi) -> j <> t2 ->
              exists q, In q (preN N0 j) /\ ~ (plo <= q < phi) /\ ~ In q m.

  Lemma Hout_out : forall plo phi tlo thi t2 m m',
      Hout plo phi tlo thi t2 m -> agrees_out plo phi m m' -> Hout plo phi tlo thi t2 m'.
  Proof.
    intros plo phi tlo thi t2 m m' H Ho j H1 H2 H3. destruct (H j H1 H2 H3) as (q & Q1 & Q2 & Q3).
    exists q. split; [exact Q1|]. split; [exact Q2|]. apply not_in_cnt. rewrite (Ho q Q2). apply not_in_cnt. exact Q3.
  Qed.

  Lemma trans_exists : forall j, j < nT -> exists tr, nth_error (ns_trans N0) j = Some tr.
  Proof.
    intros j Hj. destruct (nth_error (ns_trans N0) j) eqn:E; [eauto|]. apply nth_error_None in E. unfold nT in Hj. lia.
  Qed.

  Ltac cnt_cases :=
    rewrite ?cnt_cons, ?cnt_nil, ?cnt_app, ?cnt_outside;
    repeat match goal with
           | |- context [Nat.eqb ?a ?b] => destruct (Nat.eqb_spec a b); try lia
           | |- context [inb ?a ?b ?c] => let E := fresh "E" in destruct (inb a b c) eqn:E;
                                          [apply inb_spec in E|apply not_true_iff_false in E; rewrite inb_spec in E]; try lia
           end; try lia.

  (* once a component has exited (only its exit place is marked inside it), nothing but the
     transition that follows it can be enabled *)
  Lemma exited_only_t2 : forall s p ctx xcbs t2 m m',
      frag s = true -> wired N0 s p ctx xcbs ->
      Hout (pp p) (pp p + nplaces s) (pt p) (pt p + ntrans s) t2 m ->
      agrees_out (pp p) (pp p + nplaces s) m m' ->
      agrees_in (pp p) (pp p + nplaces s) m' [xplace s p] ->
      forall j, j < nT -> j <> t2 -> dis m' j.
  Proof.
    intros s p ctx xcbs t2 m m' Hf Hw Hout Ho Hi j Hj Hne.
    destruct (Nat.lt_ge_cases j (pt p)) as [Hlo|Hlo]; [|destruct (Nat.lt_ge_cases j (pt p + ntrans s)) as [Hhi|Hhi]].
    - destruct (Hout j Hj ltac:(lia) Hne) as (q & Q1 & Q2 & Q3). exists q. split; [exact Q1|].
      apply not_in_cnt. rewrite (Ho q Q2). apply not_in_cnt. exact Q3.
    - destruct (exit_blocked N0 s p ctx xcbs Hf Hw j ltac:(unfold in_t; lia)) as (q & Q1 & Q2 & Q3).
      exists q. split; [exact Q1|]. apply not_in_cnt. rewrite (Hi q Q2). cnt_cases.
    - destruct (Hout j Hj ltac:(lia) Hne) as (q & Q1 & Q2 & Q3). exists q. split; [exact Q1|].
      apply not_in_cnt. rewrite (Ho q Q2). apply not_in_cnt. exact Q3.
  Qed.

  (* structure of a block: a transition of the block outside statement i, other than the
     connection that follows statement i, reads a place of the block outside statement i *)
  Lemma block_blocked : forall l bp ctx xcbs i s1,
      frag_block l = true -> wired_block (wired N0) N0 ctx xcbs l bp -> nth_error l i = Some s1 ->
      forall j, in_tb l bp j -> ~ in_t s1 (spos l bp i) j ->
                (nth_error l (S i) <> None -> j <> pt (spos l bp i) - 1) ->
                exists q, In q (preN N0 j) /\ in_pb l bp q /\ ~ in_p s1 (spos l bp i) q.
  Proof.
    intros l bp ctx xcbs i s1 Hfb Hw Hn j Hj Hnot Hconn.
    assert (Hdisj : forall k x q, nth_error l k = Some x -> k <> i -> in_p x (spos l bp k) q ->
                                  in_pb l bp q /\ ~ in_p s1 (spos l bp i) q).
    { intros k x q Hk Hki Hq. pose proof (spos_range l bp k x Hk) as R. unfold in_p, in_pb in *. split; [lia|].
      destruct (Nat.lt_ge_cases k i) as [Hlt|Hge].
      - pose proof (spos_mono l bp k i x s1 Hlt Hk Hn). lia.
      - pose proof (spos_mono l bp i k s1 x ltac:(lia) Hn Hk). lia. }
    destruct (block_cover l bp j Hfb Hj) as [(k & x & Hk & Hin)|(k & x & x' & Hk & Hk' & Hjc)].
    - destruct (Nat.eq_dec k i) as [->|Hki]; [rewrite Hn in Hk; inversion Hk; subst; contradiction|].
      destruct (wired_block_nth _ _ _ _ _ _ _ _ Hw Hk) as [Wx _].
      destruct (exit_blocked N0 x _ _ _ (frag_block_nth _ _ _ Hfb Hk) Wx j Hin) as (q & Q1 & Q2 & _).
      exists q. split; [exact Q1|]. eapply Hdisj; eassumption.
    - destruct (Nat.eq_dec k i) as [->|Hki].
      + exfalso. apply Hconn; [rewrite Hk'; discriminate|exact Hjc].
      + destruct (wired_block_nth _ _ _ _ _ _ _ _ Hw Hk) as [_ Wc]. destruct (Wc x' Hk') as (C1 & _). cbv zeta in C1.
        subst j. exists (xplace x (spos l bp k)). rewrite C1. split; [left; reflexivity|].
        eapply Hdisj; [exact Hk|exact Hki|]. apply (xplace_range x (frag_block_nth _ _ _ Hfb Hk)).
  Qed.

  (* the surroundings of statement i of a block, seen from that statement *)
  Lemma Hout_stmt_of_block : forall l bp ctx xcbs i s1 t2 t2i m,
      frag_block l = true -> wired_block (wired N0) N0 ctx xcbs l bp -> nth_error l i = Some s1 ->
      Hout (pp bp) (pp bp + nplaces_l l) (pt bp) (pt bp + ntrans_b l) t2 m ->
      In (xplace_b l bp) (preN N0 t2) -> ~ in_tb l bp t2 ->
      (forall q, in_pb l bp q -> ~ in_p s1 (spos l bp i) q -> cnt m q = 0) ->
      (nth_error l (S i) = None -> t2i = t2) ->
      (nth_error l (S i) <> None -> t2i = pt (spos l bp i) - 1) ->
      Hout (pp (spos l bp i)) (pp (spos l bp i) + nplaces s1) (pt (spos l bp i)) (pt (spos l bp i) + ntrans s1) t2i m.
  Proof.
    intros l bp ctx xcbs i s1 t2 t2i m Hfb Hw Hn Hout Hx2 Ht2 Hz Hlast Hnl j Hj Hnot Hne.
    pose proof (spos_range l bp i s1 Hn) as R.
    destruct (Nat.lt_ge_cases j (pt bp)) as [Hlo|Hlo]; [|destruct (Nat.lt_ge_cases j (pt bp + ntrans_b l)) as [Hhi|Hhi]].
    3: destruct (Nat.eq_dec j t2) as [->|Hn2].
    1: destruct (Nat.eq_dec j t2) as [->|Hn2].
    - (* j = t2 below the block: then statement i is not the last one *)
      destruct (nth_error l (S i)) as [s'|] eqn:En'; [|exfalso; apply Hne; symmetry; apply Hlast; reflexivity].
      destruct (xplace_b_nth l bp Hfb) as (sl & Hl & El).
      assert (Hil : i < List.length l - 1).
      { assert (S i < List.length l) by (apply nth_error_Some; congruence). lia. }
      pose proof (spos_mono l bp i _ s1 sl Hil Hn Hl) as M.
      pose proof (spos_range l bp _ sl Hl) as Rl.
      pose proof (xplace_range sl (frag_block_nth _ _ _ Hfb Hl) (spos l bp (List.length l - 1))) as X.
      exists (xplace_b l bp). split; [exact Hx2|]. rewrite El. split; [lia|].
      apply not_in_cnt. apply Hz; unfold in_pb, in_p; lia.
    - destruct (Hout j Hj ltac:(lia) Hn2) as (q & Q1 & Q2 & Q3). exists q. split; [exact Q1|]. split; [lia|exact Q3].
    - destruct (block_blocked l bp ctx xcbs i s1 Hfb Hw Hn j ltac:(unfold in_tb; lia) ltac:(unfold in_t; lia))
        as (q & Q1 & Q2 & Q3).
      { intros Hnn Hjc. apply Hne. rewrite (Hnl Hnn). exact Hjc. }
      exists q. split; [exact Q1|]. split; [exact Q3|]. apply not_in_cnt. apply Hz; assumption.
    - destruct (nth_error l (S i)) as [s'|] eqn:En'; [|exfalso; apply Hne; symmetry; apply Hlast; reflexivity].
      destruct (xplace_b_nth l bp Hfb) as (sl & Hl & El).
      assert (Hil : i < List.length l - 1).
      { assert (S i < List.length l) by (apply nth_error_Some; congruence). lia. }
      pose proof (spos_mono l bp i _ s1 sl Hil Hn Hl) as M.
      pose proof (spos_range l bp _ sl Hl) as Rl.
      pose proof (xplace_range sl (frag_block_nth _ _ _ Hfb Hl) (spos l bp (List.length l - 1))) as X.
      exists (xplace_b l bp). split; [exact Hx2|]. rewrite El. split; [lia|].
      apply not_in_cnt. apply Hz; unfold in_pb, in_p; lia.
    - destruct (Hout j Hj ltac:(lia) Hn2) as (q & Q1 & Q2 & Q3). exists q. split; [exact Q1|]. split; [lia|exact Q3].
  Qed.

  Lemma spos_conn : forall l bp i s s', nth_error l i = Some s -> nth_error l (S i) = Some s' ->
      pt bp <= pt (spos l bp i) - 1 /\ 1 <= pt (spos l bp i) /\ pt (spos l bp i) - 1 < pt (spos l bp i).
  Proof.
    induction l as [|x r IH]; intros bp i s s' H H'; [destruct i; discriminate H|].
    destruct r as [|x' r]; [destruct i as [|i]; [discriminate H'|destruct i; discriminate H]|].
    destruct i as [|i].
    - cbn [spos first_pos conn_skip pt]. lia.
    - rewrite spos_cons2. cbn [nth_error] in H, H'.
      destruct (IH (adv x (conn_skip bp)) i s s' H H') as (A & B & C). cbn [adv conn_skip pt] in A. lia.
  Qed.

  Lemma Post_widen : forall ctx ns ns' g g' pend0 lo hi LO HI,
      Post ctx ns ns' g g' pend0 lo hi -> LO <= lo -> hi <= HI -> Post ctx ns ns' g g' pend0 LO HI.
  Proof.
    intros ctx ns ns' g g' pend0 lo hi LO HI (I & F & N) H1 H2. split; [exact I|]. split; [|exact N].
    destruct F as [A (S1 & S2 & C) D]. constructor; [intros k Hk; apply A; lia| |exact D].
    split; [exact S1|]. split; [exact S2|]. intros k ac Hk. apply C. lia.
  Qed.

  Lemma Post_ctx : forall c ctx ns ns' g g' pend0 lo hi LO HI,
      Post c ns ns' g g' pend0 lo hi -> LO <= lo -> hi <= HI -> LO <= c < HI -> Post ctx ns ns' g g' pend0 LO HI.
  Proof.
    intros c ctx ns ns' g g' pend0 lo hi LO HI (I & F & N) H1 H2 H3. split; [exact I|]. split; [|exact N].
    apply (Frame_ctx c ctx ns ns' lo hi LO HI F H1 H2 H3).
  Qed.

  Lemma agrees_in_widen : forall lo hi LO HI m m' ml',
      agrees_in lo hi m' ml' -> agrees_out lo hi m m' -> LO <= lo -> hi <= HI ->
      (forall q, LO <= q < HI -> ~ (lo <= q < hi) -> cnt m q = 0 /\ cnt ml' q = 0) ->
      agrees_in LO HI m' ml'.
  Proof.
    intros lo hi LO HI m m' ml' Hi Ho H1 H2 Hz q Hq.
    destruct (Nat.lt_ge_cases q lo) as [A|A]; [|destruct (Nat.lt_ge_cases q hi) as [B|B]].
    - rewrite (Ho q ltac:(lia)). destruct (Hz q Hq ltac:(lia)) as [Z1 Z2]. lia.
    - apply Hi. lia.
    - rewrite (Ho q ltac:(lia)). destruct (Hz q Hq ltac:(lia)) as [Z1 Z2]. lia.
  Qed.

  Lemma agrees_out_widen : forall lo hi LO HI m m',
      agrees_out lo hi m m' -> LO <= lo -> hi <= HI -> agrees_out LO HI m m'.
  Proof. intros lo hi LO HI m m' H H1 H2 q Hq. apply H. lia. Qed.


  (* a block that waits inside statement j, in surroundings that are blocked: nothing can fire *)
  Lemma block_dis : forall l bp ctx xcbs t2 j st ns m m' {ie},
      frag_block l = true -> wired_block (wired N0) N0 ctx xcbs l bp ->
      In (xplace_b l bp) (preN N0 t2) ->
      Hout (pp bp) (pp bp + nplaces_l l) (pt bp) (pt bp + ntrans_b l) t2 m ->
      agrees_out (pp bp) (pp bp + nplaces_l l) m m' ->
      agrees_in (pp bp) (pp bp + nplaces_l l) m' (ml_block l bp j st) ->
      act_block N0 ns l bp ctx j st ie ->
      forall j0, j0 < nT -> dis m' j0.
  Proof.
    intros l bp ctx xcbs t2 j st ns m m' ie Hf Hw Hx2 HO Ao Ai Hab j0 Hj0.
    assert (Hx : dis m' t2).
    { exists (xplace_b l bp). split; [exact Hx2|]. apply not_in_cnt. rewrite (Ai _ (xplace_range_b l Hf bp)).
      apply not_in_cnt. intro Hi. destruct (ml_range_block N0 ns l bp ctx j st Hf Hab _ Hi) as (_ & Hne & _). congruence. }
    destruct (Nat.lt_ge_cases j0 (pt bp)) as [A|A]; [|destruct (Nat.lt_ge_cases j0 (pt bp + ntrans_b l)) as [B|B]].
    - destruct (Nat.eq_dec j0 t2) as [->|Hne]; [exact Hx|].
      destruct (HO j0 Hj0 ltac:(lia) Hne) as (q & Q1 & Q2 & Q3). exists q. split; [exact Q1|].
      apply not_in_cnt. rewrite (Ao q Q2). apply not_in_cnt. exact Q3.
    - destruct (stable_blocked_block N0 ns N0 l bp ctx ctx xcbs j st Hf Hw Hab j0 ltac:(unfold in_tb; lia)) as (q & Q1 & Q2 & Q3).
      exists q. split; [exact Q1|]. apply not_in_cnt. rewrite (Ai q Q2). apply not_in_cnt. exact Q3.
    - destruct (Nat.eq_dec j0 t2) as [->|Hne]; [exact Hx|].
      destruct (HO j0 Hj0 ltac:(lia) Hne) as (q & Q1 & Q2 & Q3). exists q. split; [exact Q1|].
      apply not_in_cnt. rewrite (Ao q Q2). apply not_in_cnt. exact Q3.
  Qed.

  (* a component that waits, in surroundings that are blocked: nothing can fire *)
  Lemma stmt_dis : forall s p ctx xcbs t2 st ns m m' {ie},
      frag s = true -> wired N0 s p ctx xcbs -> is_done st = false ->
      In (xplace s p) (preN N0 t2) ->
      Hout (pp p) (pp p + nplaces s) (pt p) (pt p + ntrans s) t2 m ->
      agrees_out (pp p) (pp p + nplaces s) m m' ->
      agrees_in (pp p) (pp p + nplaces s) m' (ml st s p) ->
      act N0 ns st s p ctx ie ->
      forall j0, j0 < nT -> dis m' j0.
  Proof.
    intros s p ctx xcbs t2 st ns m m' ie Hf Hw Hnd Hx2 HO Ao Ai Hact j0 Hj0.
    assert (Hx : dis m' t2).
    { exists (xplace s p). split; [exact Hx2|]. apply not_in_cnt. rewrite (Ai _ (xplace_range s Hf p)).
      apply not_in_cnt. intro Hi. destruct (ml_range N0 ns st s p ctx Hf Hact _ Hi) as [_ Hne]. congruence. }
    destruct (Nat.lt_ge_cases j0 (pt p)) as [A|A]; [|destruct (Nat.lt_ge_cases j0 (pt p + ntrans s)) as [B|B]].
    - destruct (Nat.eq_dec j0 t2) as [->|Hne]; [exact Hx|].
      destruct (HO j0 Hj0 ltac:(lia) Hne) as (q & Q1 & Q2 & Q3). exists q. split; [exact Q1|].
      apply not_in_cnt. rewrite (Ao q Q2). apply not_in_cnt. exact Q3.
    - destruct (stable_blocked N0 ns N0 st s p ctx ctx xcbs Hf Hw Hact Hnd j0 ltac:(unfold in_t; lia)) as (q & Q1 & Q2 & Q3).
      exists q. split; [exact Q1|]. apply not_in_cnt. rewrite (Ai q Q2). apply not_in_cnt. exact Q3.
    - destruct (Nat.eq_dec j0 t2) as [->|Hne]; [exact Hx|].
      destruct (HO j0 Hj0 ltac:(lia) Hne) as (q & Q1 & Q2 & Q3). exists q. split; [exact Q1|].
      apply not_in_cnt. rewrite (Ao q Q2). apply not_in_cnt. exact Q3.
  Qed.

  (* a complete block: only the transition that follows it can fire *)
  Lemma exited_only_t2_block : forall l bp ctx xcbs t2 m m',
      frag_block l = true -> wired_block (wired N0) N0 ctx xcbs l bp ->
      Hout (pp bp) (pp bp + nplaces_l l) (pt bp) (pt bp + ntrans_b l) t2 m ->
      agrees_out (pp bp) (pp bp + nplaces_l l) m m' ->
      agrees_in (pp bp) (pp bp + nplaces_l l) m' [xplace_b l bp] ->
      forall j, j < nT -> j <> t2 -> dis m' j.
  Proof.
    intros l bp ctx xcbs t2 m m' Hf Hw HO Ao Ai j Hj Hne.
    destruct (Nat.lt_ge_cases j (pt bp)) as [A|A]; [|destruct (Nat.lt_ge_cases j (pt bp + ntrans_b l)) as [B|B]].
    - destruct (HO j Hj ltac:(lia) Hne) as (q & Q1 & Q2 & Q3). exists q. split; [exact Q1|].
      apply not_in_cnt. rewrite (Ao q Q2). apply not_in_cnt. exact Q3.
    - destruct (exit_blocked_block N0 l bp ctx xcbs Hf Hw j ltac:(unfold in_tb; lia)) as (q & Q1 & Q2 & Q3).
      exists q. split; [exact Q1|]. apply not_in_cnt. rewrite (Ai q Q2). cnt_cases.
    - destruct (HO j Hj ltac:(lia) Hne) as (q & Q1 & Q2 & Q3). exists q. split; [exact Q1|].
      apply not_in_cnt. rewrite (Ao q Q2). apply not_in_cnt. exact Q3.
  Qed.

  Lemma dis_dead : forall ns m, Inv ns -> Marks ns m -> (forall j, j < nT -> dis m j) -> dead ns.
  Proof. intros ns m Hi Hm H j Hj. eapply dis_disabled; [exact Hi|exact Hm|apply H; exact Hj]. Qed.

  (* ---- the engine's notification counter is not observed by anything below ---- *)
  Lemma Inv_bumpn : forall j s, Inv s -> Inv (bumpn j s).
  Proof. intros j s [I1 I2 I3 I4 I5 I6 I7 I8 I9 I10 I11]. constructor; assumption. Qed.
  Lemma GR_bumpn : forall j g s pend, GR g s pend -> GR g (bumpn j s) pend.
  Proof. intros j g s pend [G1 G2 G3 G4 G5 G6 G7 G8 G9 G10]. constructor; assumption. Qed.
  Lemma Frame_bumpn : forall ctx j a b lo hi, Frame ctx a b lo hi -> Frame ctx a (bumpn j b) lo hi.
  Proof. intros ctx j a b lo hi [A S D]. constructor; assumption. Qed.
  Lemma Post_bumpn : forall ctx j ns ns' g g' pend0 lo hi, Post ctx ns ns' g g' pend0 lo hi -> Post ctx ns (bumpn j ns') g g' pend0 lo hi.
  Proof.
    intros ctx j ns ns' g g' pend0 lo hi (I & F & new & A & G). split; [apply Inv_bumpn; exact I|].
    split; [apply Frame_bumpn; exact F|]. exists new. split; [exact A|apply GR_bumpn; exact G].
  Qed.
  Lemma UnwE_nest : forall ms2 m2 ms (X : list (list cb)), UnwE ms2 ((marks m2 ++ []) :: UnwE ms X) = UnwE (ms2 ++ m2 :: ms) X.
  Proof. intros ms2 m2 ms X. rewrite app_nil_r. change (marks m2 :: UnwE ms X) with (UnwE (m2 :: ms) X). apply UnwE_app. Qed.

  (* a component entered from inside evaluations that a callback of [L] has opened *)
  Lemma Enters_after : forall (d : bool) L L2 ns nsf ns2 ms m xcbs,
      (forall rest K, MS (ns, (L ++ rest) :: K) (nsf, L2 :: UnwE ms ((marks m ++ rest) :: K))) ->
      Enters L2 nsf ns2 d xcbs -> Inv ns2 -> (d = false -> dead ns2) ->
      Enters L ns (if d then ns2 else bumpn (m + sumn ms) ns2) d xcbs.
  Proof.
    intros d L L2 ns nsf ns2 ms m xcbs Hgo Hen Hi Hd. destruct d; cbn [Enters] in *.
    - destruct Hen as (ms2 & m2 & Hk2). exists (ms2 ++ m2 :: ms), m. intros rest K. eapply MS_trans; [apply Hgo|].
      specialize (Hk2 [] (UnwE ms ((marks m ++ rest) :: K))). rewrite app_nil_r, UnwE_nest in Hk2. exact Hk2.
    - intros rest K. eapply MS_trans; [apply Hgo|].
      eapply MS_trans; [specialize (Hen [] (UnwE ms ((marks m ++ rest) :: K))); rewrite app_nil_r in Hen; exact Hen|].
      eapply MS_trans; [apply MS_unwind; [exact Hi|exact (Hd eq_refl)]|].
      eapply MS_trans; [apply MS_marks|]. rewrite (Mach.bumpn_add). apply MS_refl.
  Qed.
  (* ... from the scan of an evaluation *)
  Lemma Steps_after : forall L2 ns nsf ns2 ms,
      (forall K, MS (ns, [] :: K) (nsf, L2 :: UnwE ms K)) ->
      Starts L2 nsf ns2 -> Inv ns2 -> dead ns2 -> Steps ns (bumpn (sumn ms) ns2).
  Proof.
    intros L2 ns nsf ns2 ms Hgo Hen Hi Hd K. eapply MS_trans; [apply Hgo|].
    eapply MS_trans; [specialize (Hen [] (UnwE ms K)); rewrite app_nil_r in Hen; exact Hen|].
    apply MS_unwind0; assumption.
  Qed.
  Lemma Exits_after : forall L2 ns nsf ns2 ms xcbs,
      (forall K, MS (ns, [] :: K) (nsf, L2 :: UnwE ms K)) ->
      Enters L2 nsf ns2 true xcbs -> Exits ns ns2 xcbs.
  Proof.
    intros L2 ns nsf ns2 ms xcbs Hgo (ms2 & m2 & Hk2). exists (ms2 ++ m2 :: ms). intro K. eapply MS_trans; [apply Hgo|].
    specialize (Hk2 [] (UnwE ms K)). rewrite app_nil_r, UnwE_nest in Hk2. exact Hk2.
  Qed.

  (* =========================================================================== *)
  (* starting a component                                                         *)
  (* =========================================================================== *)
  Lemma dict_IUuid : forall ns k, Inv ns ->
      dict_get ident_eqb (IUuid k) (ns_place_dict ns) = dict_get ident_eqb (IUuid k) (ns_place_dict N0).
  Proof.
    intros ns k [_ _ _ _ _ _ _ _ _ (d & Hd & Hk)]. rewrite Hd. clear Hd.
    induction d as [|[u q] d IH]; [reflexivity|]. inversion Hk as [|? ? (i & E & _) Hr]; subst.
    cbn [app dict_get]. cbn [fst] in E. subst u. cbn [ident_eqb]. apply IH. exact Hr.
  Qed.

  Definition StartRes (ctx : nat) (ns ns' : NS) (g g' : G) (pend ids : list nat) (p : pos) (da : nat) : Prop :=
    Inv ns' /\ GR g' ns' (pend ++ ids) /\
    (forall k, ~ (pa p <= k < pa p + da) -> nth_error (ns_apis ns') k = nth_error (ns_apis ns) k) /\
    g_awaited g' = g_awaited g ++ ids /\ (g_sid g <= g_sid g' /\ g_tid g <= g_tid g' /\ CF ctx ns ns' (pa p) (pa p + da)) /\
    (exists d, ns_place_dict ns' = d ++ ns_place_dict ns /\
               Forall (fun kv => exists i, fst kv = ITest i /\ ns_sid ns <= i) d).

  Lemma StartRes_trans : forall ctx ns ns1 ns2 g g1 g2 pend ids1 ids2 p da p1 da1 p2 da2,
      GR g ns pend ->
      StartRes ctx ns ns1 g g1 pend ids1 p1 da1 -> StartRes ctx ns1 ns2 g1 g2 (pend ++ ids1) ids2 p2 da2 ->
      pa p <= pa p1 -> pa p1 + da1 <= pa p + da -> pa p <= pa p2 -> pa p2 + da2 <= pa p + da ->
      StartRes ctx ns ns2 g g2 pend (ids1 ++ ids2) p da.
  Proof.
    intros ctx ns ns1 ns2 g g1 g2 pend ids1 ids2 p da p1 da1 p2 da2 Hgr
           (I1 & G1 & A1 & W1 & S1 & (d1 & D1 & K1)) (I2 & G2 & A2 & W2 & S2 & (d2 & D2 & K2)) R1 R2 R3 R4.
    split; [exact I2|]. split; [rewrite app_assoc; exact G2|].
    split; [intros k Hk; rewrite A2 by lia; apply A1; lia|].
    split; [rewrite W2, W1, app_assoc; reflexivity|]. split.
    { split; [lia|]. split; [lia|]. destruct S1 as (_ & _ & C1). destruct S2 as (_ & _ & C2).
      intros k ac Hk Hc Ha Ht. rewrite (C2 k ac); [apply (C1 k ac); try assumption; lia|lia|exact Hc| |exact Ht].
      rewrite A1 by lia. exact Ha. }
    exists (d2 ++ d1). split; [rewrite D2, D1, app_assoc; reflexivity|].
    apply Forall_app. split; [|exact K1].
    eapply Forall_impl; [|exact K2]. intros kv (i & E & Hi). exists i. split; [exact E|].
    pose proof (gr_sid _ _ _ G1). pose proof (gr_sid _ _ _ Hgr). lia.
  Qed.

  Lemma StartRes_bumpn : forall ctx j ns ns' g g' pend ids p da,
      StartRes ctx ns ns' g g' pend ids p da -> StartRes ctx ns (bumpn j ns') g g' pend ids p da.
  Proof.
    intros ctx j ns ns' g g' pend ids p da (I & G & A & W & S & D). split; [apply Inv_bumpn; exact I|].
    split; [apply GR_bumpn; exact G|]. split; [exact A|]. split; [exact W|]. split; [exact S|exact D].
  Qed.
  Lemma StartRes_if : forall ctx (d : bool) j ns ns' g g' pend ids p da,
      StartRes ctx ns ns' g g' pend ids p da -> StartRes ctx ns (if d then ns' else bumpn j ns') g g' pend ids p da.
  Proof. intros ctx [] j ns ns' g g' pend ids p da H; [exact H|apply StartRes_bumpn; exact H]. Qed.

  Lemma StartRes_widen : forall ctx ns ns' g g' pend ids p da p1 da1,
      StartRes ctx ns ns' g g' pend ids p1 da1 -> pa p <= pa p1 -> pa p1 + da1 <= pa p + da ->
      StartRes ctx ns ns' g g' pend ids p da.
  Proof.
    intros ctx ns ns' g g' pend ids p da p1 da1 (I1 & G1 & A1 & W1 & (S1 & S2 & C) & D1) R1 R2.
    split; [exact I1|]. split; [exact G1|]. split; [intros k Hk; apply A1; lia|].
    split; [exact W1|]. split; [|exact D1]. split; [exact S1|]. split; [exact S2|]. intros k ac Hk. apply C. lia.
  Qed.

  Lemma Frame_fire : forall ctx a tr lo, Frame ctx a (fire_ns tr a) lo lo.
  Proof.
    intros. constructor; [reflexivity|split; [apply Nat.le_refl|split; [apply Nat.le_refl|apply CF_same; reflexivity]]|
                          exists []; split; [reflexivity|constructor]].
  Qed.

  Lemma Frame_of_StartRes : forall ctx a b g g' pend ids p da,
      GR g a pend -> StartRes ctx a b g g' pend ids p da -> Frame ctx a b (pa p) (pa p + da).
  Proof.
    intros ctx a b g g' pend ids p da Hg (I & G & A & W & S & D). constructor; [exact A| |exact D].
    rewrite (gr_sid _ _ _ Hg), (gr_sid _ _ _ G), (gr_tid _ _ _ Hg), (gr_tid _ _ _ G). exact S.
  Qed.

  Lemma ctx_is_frame : forall c a b ctx cid lo hi, ctx_is a ctx cid -> Frame c a b lo hi -> ctx < lo -> ctx_is b ctx cid.
  Proof.
    intros c a b ctx cid lo hi (ac & H1 & H2 & H3 & H4) F Hlt. exists ac. split; [rewrite (fr_apis _ _ _ _ _ F) by lia; exact H1|].
    split; [exact H2|]. split; [exact H3|]. pose proof (fr_sid _ _ _ _ _ F). lia.
  Qed.

  Lemma ctx_is_same : forall a b ctx cid, ctx_is a ctx cid ->
      nth_error (ns_apis b) ctx = nth_error (ns_apis a) ctx -> ns_tid a <= ns_tid b -> ctx_is b ctx cid.
  Proof.
    intros a b ctx cid (ac & H1 & H2 & H3 & H4) E Ht. exists ac. split; [rewrite E; exact H1|].
    split; [exact H2|]. split; [exact H3|lia].
  Qed.
  Lemma ctx_is_start : forall c a b g g' pend ids p da ctx cid,
      GR g a pend -> StartRes c a b g g' pend ids p da -> ctx_is a ctx cid -> ctx < pa p -> ctx_is b ctx cid.
  Proof.
    intros c a b g g' pend ids p da ctx cid Hg Hr Hc Hlt.
    apply (ctx_is_frame c a b ctx cid _ _ Hc (Frame_of_StartRes _ _ _ _ _ _ _ _ _ Hg Hr) Hlt).
  Qed.
  Lemma ctx_is_tid : forall ns ctx cid, ctx_is ns ctx cid -> cid < ns_tid ns.
  Proof. intros ns ctx cid (ac & _ & _ & _ & H). exact H. Qed.

  (* ---- the loop counters: what the lemmas below assume about the context of a component ---- *)
  (* [ple p q]: q lies (weakly) deeper in the same task than p *)
  Definition ple (p q : pos) : Prop :=
    List.length (s_pre (psi p)) <= List.length (s_pre (psi q)) /\ (s_il (psi p) = true -> s_il (psi q) = true).
  Lemma ple_refl : forall p, ple p p.
  Proof. intro p. split; [apply Nat.le_refl|auto]. Qed.
  Lemma ple_spos : forall l bp i, ple bp (spos l bp i).
  Proof. intros l bp i. split; [rewrite (proj1 (psi_spos l bp i)); apply Nat.le_refl|rewrite psi_spos_il; auto]. Qed.
  Ltac ple_tac :=
    split; [unfold cond_p, cond_f, loop_p, par_pos, si_sub, si_sub2, si_loop, s_path; cbn [psi s_pre]; rewrite ?app_length; cbn [List.length]; lia
           |cbn [cond_p cond_f loop_p par_pos si_sub si_sub2 si_loop psi s_il]; auto].

  Record CX (ns : NS) (ctx cid : nat) (ie : ienv) (kl : list (site * nat)) (rt : bool) (p : pos) : Prop := {
    cx_c0 : C0 ns cid kl;
    cx_ie : ie_of tasks kl ie /\ (s_il (psi p) = false -> ie = []);
    cx_rt : klb kl p
  }.
  Lemma CX_pos : forall ns ns' ctx cid ie kl rt p q,
      CX ns ctx cid ie kl rt p -> C0 ns' cid kl -> ple p q ->
      CX ns' ctx cid ie kl rt q.
  Proof.
    intros ns ns' ctx cid ie kl rt p q [H1 [H2 H2'] H3] Hc [Hle Hil]. constructor; [exact Hc| |eapply klb_sub; eassumption].
    split; [exact H2|]. intro E. apply H2'. destruct (s_il (psi p)); [specialize (Hil eq_refl); congruence|reflexivity].
  Qed.
  Lemma C0_same : forall ns ns' cid kl, ns_counters ns' = ns_counters ns -> C0 ns cid kl -> C0 ns' cid kl.
  Proof. intros ns ns' cid kl E H. unfold C0, counters_of in *. rewrite E. exact H. Qed.
  (* the counters of the context survive whatever happens in another context *)
  Lemma C0_frame : forall c a b ctx cid kl lo hi,
      ctx_is a ctx cid -> Frame c a b lo hi -> ~ (lo <= ctx < hi) -> ctx <> c -> C0 a cid kl -> C0 b cid kl.
  Proof.
    intros c a b ctx cid kl lo hi (ac & H1 & H2 & H3 & _) F Hr Hne H. destruct (fr_sid _ _ _ _ _ F) as (_ & _ & C).
    unfold C0 in *. rewrite <- H2, (C ctx ac Hr Hne H1 H3), H2. exact H.
  Qed.

  (* a callback in the context [ctx] that rewrites the counters of [ctx] only *)
  Lemma CF_other : forall ns b ctx cid lo hi, UQ ns -> ctx_is ns ctx cid ->
      (forall u, u <> ITest cid -> dict_get ident_eqb u (ns_counters b) = dict_get ident_eqb u (ns_counters ns)) ->
      CF ctx ns b lo hi.
  Proof.
    intros ns b ctx cid lo hi (_ & _ & U3) (ac & Hac & Huc & Htk & _) H k ac0 _ Hne Hk Ht.
    unfold counters_of. rewrite H; [reflexivity|]. intro E. apply Hne. apply (U3 k ctx ac0 ac cid Hk Hac Ht Htk E Huc).
  Qed.

  (* the start callbacks of a component, run in order after the entering transition has fired
     (the entry places hold their tokens; everything around the component is blocked): the
     reference state, the bookkeeping and the marking that start_stmt denotes.  A Condition's
     callback evaluates the net again from inside (fire_event of the decision place); a component
     that completes at once does so inside such evaluations *)
  Definition StartOK (f : nat) : Prop :=
    forall s p ctx cid ie kl rt xcbs t2 g st g' ns m pend,
      start_stmt orc imm f cid ie s g = Ok (st, g') ->
      frag s = true -> sok NC rt s = true -> CX ns ctx cid ie kl rt p ->
      wired N0 s p ctx xcbs -> no_parloop xcbs = true ->
      pp p + nplaces s <= nP -> pt p + ntrans s <= nT ->
      t2 < nT -> ~ in_t s p t2 -> In (xplace s p) (preN N0 t2) ->
      Inv ns -> GR g ns pend -> ctx_is ns ctx cid -> ctx < pa p ->
      Marks ns m -> (forall q, in_p s p q -> cnt m q = cnt (entries s p) q) ->
      Hout (pp p) (pp p + nplaces s) (pt p) (pt p + ntrans s) t2 m ->
      exists ns' m', Enters (startcbs s p ctx) ns ns' (is_done st) xcbs /\
                     Marks ns' m' /\ agrees_in (pp p) (pp p + nplaces s) m' (mlx st s p) /\
                     agrees_out (pp p) (pp p + nplaces s) m m' /\
                     StartRes ctx ns ns' g g' pend (svc_ids st) p (napis s) /\
                     (act N0 ns' st s p ctx ie /\ C0 ns' cid (rch st s p kl)).

  Lemma del_svc_case : forall f ie n at_ ins p ctx cid xcbs t2 id' id g st' g' ns m pend pend0 finp,
      deliver orc imm (S f) cid ie (XService n at_ ins) (RAwait id') id g = Ok (Some st', g') ->
      wired N0 (XService n at_ ins) p ctx xcbs -> pp p + 3 <= nP -> pt p < nT ->
      t2 < nT -> t2 <> pt p -> In (pp p + 2) (preN N0 t2) ->
      Inv ns -> GR g ns pend -> remove_first (Nat.eqb id) pend = Some pend0 ->
      act N0 ns (RAwait id') (XService n at_ ins) p ctx ie -> ctx_is ns ctx cid -> ctx < pa p ->
      Marks ns m -> dict_get ident_eqb (ITest id) (ns_place_dict ns) = Some finp ->
      (forall q, pp p <= q < pp p + 3 -> cnt m q = cnt [pp p] q + (if Nat.eqb q finp then 1 else 0)) ->
      Hout (pp p) (pp p + 3) (pt p) (pt p + 1) t2 m ->
      st' = RDone /\ pp p <= finp < pp p + 3 /\
      exists tr ns' m',
        nth_error (ns_trans N0) (pt p) = Some tr /\ (forall q, In q (tr_pre tr) -> In q m) /\
        (forall j, j < nT -> j <> pt p -> dis m j) /\
        RunList [CbSF (pa p)] (fire_ns tr ns) ns' /\
        Marks ns' m' /\ agrees_in (pp p) (pp p + 3) m' [pp p + 2] /\ agrees_out (pp p) (pp p + 3) m m' /\
        Post ctx ns ns' g g' pend0 (pa p) (pa p + 1) /\ ns_counters ns' = ns_counters ns.
  Proof.
    intros f ie n at_ ins p ctx cid xcbs t2 id' id g st' g' ns m pend pend0 finp
           H Hw HP HT Ht2 Hne2 Hx2 Hinv Hgr Hrem Hact Hctx Hlt Hm Hd Hin Hout.
    cbn [deliver] in H. destruct (Nat.eqb_spec id id') as [<-|Hneq]; [|discriminate H].
    unfold bind in H. unfold emit in H.
    rewrite emit_gen_eq in H.
    unfold ret in H. injection H as E1 E2. subst st'.
    cbn [act] in Hact. destruct Hact as ((il & Hapi) & Hdict & Hidlt).
    assert (Hfin : finp = pp p + 1) by congruence. subst finp.
    split; [reflexivity|]. split; [lia|].
    cbn [wired] in Hw. destruct Hw as (Hpre & Hpost & _).
    destruct (trans_exists (pt p) HT) as [tr Htr].
    rewrite (nth_error_preN _ _ Htr) in Hpre. rewrite (nth_error_postN _ _ Htr) in Hpost.
    set (m' := (pp p + 2) :: outside (pp p) (pp p + 3) m).
    assert (Hen : forall q, In q (tr_pre tr) -> In q m).
    { intros q Hq. rewrite Hpre in Hq. apply cnt_pos_in.
      destruct Hq as [<-|[<-|[]]]; rewrite Hin by lia; cnt_cases. }
    destruct (Marks_fire ns m tr m' Hm) as [Hm' Hlen'].
    { intros x Hx. rewrite Hpost in Hx. destruct Hx as [<-|[]]. rewrite (iv_npl _ Hinv). unfold nP in HP. lia. }
    { intro q. rewrite Hpre. destruct (Nat.eq_dec q (pp p)) as [->|N1]; [rewrite Hin by lia; cnt_cases|].
      destruct (Nat.eq_dec q (pp p + 1)) as [->|N2]; [rewrite Hin by lia; cnt_cases|]. cnt_cases. }
    { intro q. rewrite Hpre, Hpost. unfold m'.
      destruct (inb (pp p) (pp p + 3) q) eqn:E.
      - apply inb_spec in E. rewrite (Hin q E). cnt_cases.
      - apply not_true_iff_false in E. rewrite inb_spec in E. cnt_cases. }
    set (nsf := fire_ns tr ns) in *.
    pose proof (Inv_fire ns tr Hinv Hlen') as Hinvf. pose proof (GR_fire g ns pend tr Hgr) as Hgrf.
    set (a1 := reid (ITest id) (subst_params ie ins) (svc_api il n at_ ins ctx (pa p))).
    assert (Hapif : nth_error (ns_apis nsf) (pa p) = Some a1) by exact Hapi.
    exists tr, (notified SF a1 false nsf), m'.
    split; [exact Htr|]. split; [exact Hen|]. split.
    { intros j Hj Hne. destruct (Nat.eq_dec j t2) as [->|Hn2].
      - exists (pp p + 2). split; [exact Hx2|]. apply not_in_cnt. rewrite Hin by lia. cnt_cases.
      - destruct (Hout j Hj ltac:(lia) Hn2) as (q & Q1 & _ & Q3). exists q. split; assumption. }
    destruct (sim_fin SF (pa p) a1 (Some cid) false g g' nsf pend pend0 (or_introl eq_refl) Hinvf Hgrf Hapif)
      as (Hcbs & Hinv' & Hgr' & Hpl & Hap & Hdi).
    { cbn [octx_is a1 reid with_params with_uuid svc_api a_ctx]. split; [exact Hctx|lia]. }
    { exists id. split; [reflexivity|exact Hrem]. }
    { rewrite <- E2. unfold g_step. cbn [a1 reid with_params with_uuid svc_api a_name a_site a_uuid a_params ident_nat].
      repeat split; reflexivity. }
    split.
    { eapply rl_cons; [apply RunCb_SF; [apply (proj1 (iv_ls _ Hinvf))|exact Hapif]|exact Hcbs|reflexivity|apply rl_nil]. }
    split; [eapply Marks_places; [exact Hpl|exact Hm']|].
    split; [intros q Hq; unfold m'; cnt_cases|].
    split; [intros q Hq; unfold m'; cnt_cases|].
    split; [|rewrite nf_counters; reflexivity].
    split; [exact Hinv'|]. split.
    - constructor; [intros k _; rewrite Hap; reflexivity|rewrite nf_sid, nf_tid; split; [apply Nat.le_refl|split; [apply Nat.le_refl|apply CF_same; rewrite nf_counters; reflexivity]]|].
      exists []. split; [rewrite Hdi; reflexivity|constructor].
    - exists []. split; [rewrite <- E2, app_nil_r; reflexivity|rewrite app_nil_r; exact Hgr'].
  Qed.

  Lemma existsb_EvF : forall id aw, existsb (event_eqb (EvFinish (ITest id))) (map EvF aw) = mem id aw.
  Proof. induction aw as [|x r IH]; [reflexivity|]. cbn [map existsb mem EvF event_eqb ident_eqb]. rewrite IH. reflexivity. Qed.

  Lemma Marks_has_place : forall ns m q, Inv ns -> Marks ns m -> q < nP -> has_place ns q = true.
  Proof.
    intros ns m q Hi Hm Hq. unfold has_place. destruct (proj1 Hm q) as [k0 Hk0]; [rewrite (iv_npl _ Hi); exact Hq|].
    rewrite Hk0. reflexivity.
  Qed.

  (* Inv only looks at some components *)
  Lemma Inv_eq : forall a b, Inv a ->
      ns_trans b = ns_trans a -> ns_cbs b = ns_cbs a -> ns_test_ids b = ns_test_ids a -> ns_ls b = ns_ls a ->
      ns_obs b = ns_obs a -> ns_counters b = ns_counters a ->
      ns_start_place b = ns_start_place a -> ns_final_place b = ns_final_place a ->
      List.length (ns_places b) = List.length (ns_places a) ->
      ns_apis b = ns_apis a -> ns_place_dict b = ns_place_dict a -> ns_sid b = ns_sid a -> ns_tid b = ns_tid a ->
      (forall e, In e (ns_awaited b) -> In e (ns_awaited a)) -> (forall e, In e (ns_pending b) -> In e (ns_pending a)) -> Inv b.
  Proof.
    intros a b [I1 I2 I3 I4 I5 I6 I7 I8 I9 I10 I11] E1 E2 E3 E4 E5 E6 E7 E8 E9 E10 E11 E12 E13 Haw Hpe.
    constructor; rewrite ?E1, ?E2, ?E3, ?E4, ?E5, ?E6, ?E7, ?E8, ?E9, ?E10, ?E11, ?E12; try assumption.
    - destruct I4 as (A & B & C & D). split; [exact A|]. split; [exact B|].
      split; [intros i Hi; apply C; apply Haw; exact Hi|intros i Hi; apply D; apply Hpe; exact Hi].
    - split; [exact (proj1 I5)|apply (UQ_eq _ _ (proj2 I5)); assumption].
  Qed.

  Lemma start_svc_case : forall f n at_ ins p ctx cid ie kl rt xcbs t2 g st g' ns m pend,
      start_stmt orc imm (S f) cid ie (XService n at_ ins) g = Ok (st, g') ->
      sok NC rt (XService n at_ ins) = true -> CX ns ctx cid ie kl rt p ->
      wired N0 (XService n at_ ins) p ctx xcbs -> no_parloop xcbs = true ->
      pp p + 3 <= nP -> pt p + 1 <= nT -> t2 < nT -> t2 <> pt p -> In (pp p + 2) (preN N0 t2) ->
      Inv ns -> GR g ns pend -> ctx_is ns ctx cid -> ctx < pa p ->
      Marks ns m -> (forall q, in_p (XService n at_ ins) p q -> cnt m q = cnt (entries (XService n at_ ins) p) q) ->
      Hout (pp p) (pp p + 3) (pt p) (pt p + 1) t2 m ->
      exists ns' m', Enters (startcbs (XService n at_ ins) p ctx) ns ns' (is_done st) xcbs /\
                     Marks ns' m' /\ agrees_in (pp p) (pp p + 3) m' (mlx st (XService n at_ ins) p) /\
                     agrees_out (pp p) (pp p + 3) m m' /\
                     StartRes ctx ns ns' g g' pend (svc_ids st) p 1 /\
                     (act N0 ns' st (XService n at_ ins) p ctx ie /\ C0 ns' cid (rch st (XService n at_ ins) p kl)).
  Proof.
    intros f n at_ ins p ctx cid ie kl rt xcbs t2 g st g' ns m pend H Hsok Hcx Hw Hnp HP HT Ht2 Hne2 Hx2 Hinv Hgr Hctx Hlt Hm Hin HO.
    pose proof Hw as Hwall.
    cbn [wired] in Hw. destruct Hw as (Wpre & Wpost & Wcbs & Hapi & Hdict). set (il := s_il (psi p)) in *.
    destruct (iv_ready _ Hinv _ _ Hapi) as (u & ps0 & Ha & Hps0 & Hrd).
    destruct (Hrd eq_refl (pa p) eq_refl) as [Hd _]. rewrite Hdict in Hd.
    rewrite start_svc_unf in H.
    destruct (ss_pfx cid ie n at_ ins g) as [[id g1]| | |] eqn:Ep; try discriminate H.
    destruct (cx_ie _ _ _ _ _ _ _ Hcx) as [Hieo Hiel].
    assert (Hilf : il = false -> ie = [] /\ ps0 = ins).
    { intro E. split; [apply Hiel; exact E|apply Hps0; exact E]. }
    set (ps := subst_params ie ins) in *.
    destruct (sim_SS ie kl il u ps0 n at_ ins ctx cid (pa p) (pp p + 1) g id g1 ns pend Ep Hieo (cx_c0 _ _ _ _ _ _ _ Hcx) Hilf Hinv Hgr Ha Hd Hctx ltac:(lia))
      as (-> & Haw & Hsid & Hrun & Hcbs & Hinv' & Hgr' & Hpl & Hap & Hdi & Hcn).
    fold ps in Hrun, Hcbs, Hinv', Hgr', Hpl, Hap, Hdi, Hcn.
    set (a' := reid (ITest (ns_sid ns)) ps (svc_api il n at_ ins ctx (pa p))) in *.
    set (PRE := ss_st il (pa p) (pp p + 1) ps ns) in *.
    set (nsN := notified SS a' false PRE) in *.
    assert (Etid : ns_tid nsN = ns_tid ns) by (unfold nsN; rewrite nf_tid; unfold PRE, ss_st; destruct il; reflexivity).
    assert (Egt : g_tid g1 = g_tid g) by (rewrite <- (gr_tid _ _ _ Hgr'), <- (gr_tid _ _ _ Hgr); exact Etid).
    destruct (imm (g_ss g)) eqn:Ei.
    2:{ (* the service waits *)
      injection H as <- <-. specialize (Hrun eq_refl).
      exists nsN, m. cbn [is_done Enters mlx].
      split; [apply Starts_RunList; eapply rl_cons; [exact Hrun|exact Hcbs|reflexivity|apply rl_nil]|].
      split; [eapply Marks_places; [exact Hpl|exact Hm]|].
      split; [intros q Hq; cbn [ml]; apply Hin; unfold in_p; cbn [nplaces]; exact Hq|].
      split; [intros q _; reflexivity|].
      cbn [svc_ids]. split.
      - split; [exact Hinv'|]. split; [exact Hgr'|].
        split; [intros k Hk; rewrite Hap; apply nth_error_upd_neq; lia|].
        split; [exact Haw|]. split; [split; [lia|split; [lia|apply CF_same; exact Hcn]]|].
        exists [(ITest (g_sid g), pp p + 1)]. split; [rewrite Hdi; reflexivity|].
        constructor; [|constructor]. exists (g_sid g). split; [reflexivity|]. rewrite (gr_sid _ _ _ Hgr). lia.
      - split; [|cbn [rch]; apply (C0_same ns _ cid kl Hcn (cx_c0 _ _ _ _ _ _ _ Hcx))].
        cbn [act]. split; [exists il; rewrite Hap, (nth_error_upd_eq _ _ _ _ _ Ha); reflexivity|].
        split; [rewrite Hdi; cbn [dict_get ident_eqb]; rewrite Nat.eqb_refl; reflexivity|].
        rewrite (gr_sid _ _ _ Hgr'), Hsid. lia. }
    (* the engine reports the service as finished from inside the started notification *)
    assert (Him : IM = true) by (destruct IM; [reflexivity|rewrite (Him0 eq_refl) in Ei; discriminate Ei]).
    destruct (iv_ls _ Hinv) as (Hlsok & Hlo & Hawb & Hpeb). destruct (Hlo Him) as [HL Hobs].
    pose proof Hgr as [G1 G2 G3 G4 G5 G6 G7 G8 G9 G10].
    set (sid := g_sid g) in *.
    assert (Esid : ns_sid ns = sid) by exact G2.
    (* the identifier is new *)
    assert (Hfresh : ~ In sid (g_awaited g)).
    { intro Hi. assert (Hi' : In (EvFinish (ITest sid)) (ns_awaited ns)) by (rewrite G8; apply in_map_iff; exists sid; split; [reflexivity|exact Hi]).
      specialize (Hawb _ Hi'). lia. }
    assert (Hnaw : existsb (event_eqb (EvFinish (ITest (ns_sid ns)))) (ns_awaited ns) = false).
    { rewrite Esid, G8, existsb_EvF. destruct (mem sid (g_awaited g)) eqn:Em; [|reflexivity].
      exfalso. apply Hfresh. clear -Em. induction (g_awaited g) as [|x r IH]; [discriminate Em|]. cbn [mem] in Em.
      destruct (Nat.eqb_spec sid x); [left; congruence|right; apply IH; exact Em]. }
    (* the reference side *)
    unfold bind at 1 in H. unfold unawait at 1 in H. rewrite Haw, (remove_first_fresh _ _ Hfresh) in H.
    unfold set_awaited at 1 in H. set (g2 := g1 <| g_awaited := g_awaited g |>) in *.
    unfold bind, emit in H. rewrite emit_gen_eq in H. unfold ret in H. injection H as <- <-.
    set (g' := g2 <| g_log := _ |>).
    assert (Hdel : deliver orc imm 1 cid ie (XService n at_ ins) (RAwait sid) sid g2 = Ok (Some RDone, g')).
    { cbn [deliver]. rewrite Nat.eqb_refl. unfold bind, emit. rewrite emit_gen_eq. reflexivity. }
    (* the state in which the completion is sent *)
    set (mid := imm_mid a' PRE).
    assert (HLp : listeners_of SS (ns_ls PRE) = [0]) by (unfold PRE, ss_st; destruct il; exact HL).
    assert (Hobsp : ns_obs PRE = []) by (unfold PRE, ss_st; destruct il; exact Hobs).
    assert (EN : nsN = bump mid).
    { unfold nsN, notified, notif_entries, reacted, mid, imm_mid, bump, pend_after. rewrite HLp, Hobsp. cbn [map app rev].
      destruct PRE; reflexivity. }
    set (s2 := placed (pp p + 1) (mid <| ns_awaited := ns_awaited ns |>)).
    assert (Hlenp : pp p + 1 < List.length (ns_places (mid <| ns_awaited := ns_awaited ns |>))).
    { change (ns_places (mid <| ns_awaited := ns_awaited ns |>)) with (ns_places PRE).
      replace (ns_places PRE) with (ns_places ns) by (unfold PRE, ss_st; destruct il; reflexivity).
      rewrite (iv_npl _ Hinv). fold nP. lia. }
    assert (Inv2 : Inv s2).
    { apply (Inv_eq nsN s2 Hinv'); rewrite ?EN; try reflexivity.
      - unfold s2, placed. cbn [ns_places set]. rewrite upd_length. reflexivity.
      - intros e He. change (ns_awaited s2) with (ns_awaited ns) in He.
        change (ns_awaited (bump mid)) with (ns_awaited PRE).
        replace (ns_awaited PRE) with (ns_awaited ns ++ [EvFinish (ITest (ns_sid ns))]) by (unfold PRE, ss_st; destruct il; reflexivity).
        apply in_or_app. left. exact He.
      - intros e He. exact He. }
    assert (Gr2 : GR g2 s2 (pend ++ [sid])).
    { rewrite EN in Hgr'. destruct Hgr' as [A1 A2 A3 A4 A5 A6 A7 A8 A9 A10]. constructor; try assumption. }
    assert (Hapi2 : nth_error (ns_apis s2) (pa p) = Some a').
    { change (ns_apis s2) with (ns_apis (bump mid)). rewrite <- EN, Hap, (nth_error_upd_eq _ _ _ _ _ Ha). unfold a'. rewrite Esid. reflexivity. }
    assert (Hdi2 : ns_place_dict s2 = (ITest sid, pp p + 1) :: ns_place_dict ns).
    { change (ns_place_dict s2) with (ns_place_dict (bump mid)). rewrite <- EN. exact Hdi. }
    assert (Hact2 : act N0 s2 (RAwait sid) (XService n at_ ins) p ctx ie).
    { cbn [act]. split; [exists il; unfold a' in Hapi2; rewrite Esid in Hapi2; exact Hapi2|]. split; [rewrite Hdi2; cbn [dict_get ident_eqb]; rewrite Nat.eqb_refl; reflexivity|].
      change (ns_sid s2) with (ns_sid (bump mid)). rewrite <- EN, (gr_sid _ _ _ Hgr'), Hsid. lia. }
    assert (Hctx2 : ctx_is s2 ctx cid).
    { apply (ctx_is_same ns s2 ctx cid Hctx).
      - change (ns_apis s2) with (ns_apis (bump mid)). rewrite <- EN, Hap, nth_error_upd_neq by lia. reflexivity.
      - change (ns_tid s2) with (ns_tid (bump mid)). rewrite <- EN, Etid. apply Nat.le_refl. }
    assert (Mk2 : Marks s2 ((pp p + 1) :: m)).
    { apply Marks_placed; [|exact Hlenp]. eapply Marks_places; [|exact Hm]. unfold PRE, ss_st; destruct il; reflexivity. }
    assert (Hin2 : forall q, pp p <= q < pp p + 3 -> cnt ((pp p + 1) :: m) q = cnt [pp p] q + (if Nat.eqb q (pp p + 1) then 1 else 0)).
    { intros q Hq. rewrite cnt_cons, (Hin q ltac:(unfold in_p; cbn [nplaces]; exact Hq)). cbn [entries].
      rewrite (Nat.eqb_sym (pp p + 1) q). lia. }
    assert (HO2 : Hout (pp p) (pp p + 3) (pt p) (pt p + 1) t2 ((pp p + 1) :: m)).
    { apply (Hout_out _ _ _ _ _ m _ HO). intros q Hq. rewrite cnt_cons. destruct (Nat.eqb_spec (pp p + 1) q); [lia|reflexivity]. }
    assert (Hrem : remove_first (Nat.eqb sid) (pend ++ [sid]) = Some pend).
    { apply remove_first_fresh. intro Hi. assert (Hi' : In (ITest sid) (ns_pending ns)) by (rewrite G9; apply in_map; exact Hi).
      specialize (Hpeb _ Hi'). lia. }
    destruct (del_svc_case 0 ie n at_ ins p ctx cid xcbs t2 sid sid g2 RDone g' s2 ((pp p + 1) :: m) (pend ++ [sid]) pend (pp p + 1)
                           Hdel Hwall HP ltac:(lia) Ht2 Hne2 Hx2 Inv2 Gr2 Hrem Hact2 Hctx2 Hlt Mk2
                           ltac:(rewrite Hdi2; cbn [dict_get ident_eqb]; rewrite Nat.eqb_refl; reflexivity) Hin2 HO2)
      as (_ & _ & tr & nsD & m' & Htr & Hen & Hdis & Hrl & Mk' & Ai & Ao & (InvD & FrD & new & AwD & GrD) & HcnD).
    assert (Enew : new = []).
    { change (g_awaited g') with (g_awaited g2) in AwD.
      rewrite <- (app_nil_r (g_awaited g2)) in AwD at 1. apply app_inv_head in AwD. symmetry. exact AwD. }
    subst new. rewrite app_nil_r in GrD.
    exists nsD, m'. cbn [is_done Enters mlx svc_ids xplace startcbs].
    split.
    { exists [], 1. intros rest K. rewrite UnwE_nil.
      assert (Ecb2 : ns_cbs s2 = ns_cbs ns) by (unfold s2, mid, imm_mid, PRE, ss_st; destruct il; reflexivity).
      eapply MS_trans; [apply (MS_pushb (CbSS (pa p)) rest K ns s2 Ecb2 eq_refl)|].
      - intros s' Hev. destruct (eval_keeps tasks env s2 s' Hev) as (K1 & K2 & K3).
        assert (Hex' : exists a'', nth_error (ns_apis s') (pa p) = Some a'').
        { destruct (nth_error (ns_apis s') (pa p)) as [x|] eqn:Ex; [eexists; reflexivity|].
          apply nth_error_None in Ex. assert (pa p < List.length (ns_apis s2)) by (apply nth_error_Some; rewrite Hapi2; discriminate). lia. }
        pose proof (RunCb_SS_imm tasks env Henv (pa p) ns _ (pp p + 1) ps s' (iv_ti _ Hinv) HL Ha) as Hr.
        cbn [reid with_params with_uuid a_uuid a_in_loop a_params svc_api a_ctx] in Hr. apply Hr; clear Hr; try assumption.
        + intros _. destruct Hctx as (ac & Hac & Huc & _).
          apply (sub_to_ok ns (pa p) (reid u ps0 (svc_api il n at_ ins ctx (pa p))) ctx ac cid kl ie eq_refl ltac:(lia) Hac Huc (cx_c0 _ _ _ _ _ _ _ Hcx) Hieo).
        + intro E. destruct (Hilf E) as [E1 E2]. unfold ps. rewrite E1, E2. apply subst_params_nil.
        + rewrite Himm, G3. exact Ei.
        + apply (Marks_has_place ns m _ Hinv Hm). lia.
        + rewrite K1. replace (ns_ls s2) with (ns_ls ns) by (unfold s2, mid, imm_mid, PRE, ss_st; destruct il; reflexivity). exact HL.
        + rewrite K2. replace (ns_obs s2) with (ns_obs ns) by (unfold s2, mid, imm_mid, PRE, ss_st; destruct il; reflexivity). exact Hobs.
      - eapply MS_trans; [apply (MS_fire1 s2 ((pp p + 1) :: m) (pt p) tr _ _ Inv2 Mk2 ltac:(lia) Htr Hen Hdis Wcbs Hnp)|].
        change (CbSF (pa p) :: xcbs) with ([CbSF (pa p)] ++ xcbs). apply MS_list. exact Hrl. }
    split; [exact Mk'|]. split; [exact Ai|].
    split; [intros q Hq; rewrite (Ao q Hq), cnt_cons; destruct (Nat.eqb_spec (pp p + 1) q); [lia|reflexivity]|].
    split.
    - split; [exact InvD|]. split; [rewrite app_nil_r; exact GrD|].
      split; [intros k Hk; rewrite (fr_apis _ _ _ _ _ FrD) by lia; change (ns_apis s2) with (ns_apis (bump mid)); rewrite <- EN, Hap; apply nth_error_upd_neq; lia|].
      split; [rewrite app_nil_r; reflexivity|].
      split; [change (g_sid g') with (g_sid g1); change (g_tid g') with (g_tid g1); split; [lia|split; [lia|]]|].
      { apply CF_same. rewrite HcnD. change (ns_counters s2) with (ns_counters (bump mid)). rewrite <- EN. exact Hcn. }
      destruct (fr_dict _ _ _ _ _ FrD) as (d & Hd' & Hk'). exists (d ++ [(ITest sid, pp p + 1)]).
      split; [rewrite Hd', Hdi2, <- app_assoc; reflexivity|].
      apply Forall_app. split.
      + eapply Forall_impl; [|exact Hk']. intros kv (i & E & Hi). exists i. split; [exact E|].
        change (ns_sid s2) with (ns_sid (bump mid)) in Hi. rewrite <- EN, (gr_sid _ _ _ Hgr'), Hsid in Hi. lia.
      + constructor; [|constructor]. exists sid. split; [reflexivity|lia].
    - split; [exact I|]. cbn [rch]. unfold C0, counters_of. rewrite HcnD.
      change (ns_counters s2) with (ns_counters (bump mid)). rewrite <- EN, Hcn. exact (cx_c0 _ _ _ _ _ _ _ Hcx).
  Qed.

  (* the surroundings of statement i of a block: the transition that follows it and what blocks
     everything else *)
  Lemma block_stmt_ctx : forall l bp ctx xcbs t2 i s1 m,
      frag_block l = true -> wired_block (wired N0) N0 ctx xcbs l bp -> nth_error l i = Some s1 ->
      pt bp + ntrans_b l <= nT -> t2 < nT -> ~ in_tb l bp t2 -> In (xplace_b l bp) (preN N0 t2) ->
      Hout (pp bp) (pp bp + nplaces_l l) (pt bp) (pt bp + ntrans_b l) t2 m ->
      (forall q, in_pb l bp q -> ~ in_p s1 (spos l bp i) q -> cnt m q = 0) ->
      exists t2i, t2i = (match nth_error l (S i) with None => t2 | Some _ => pt (spos l bp i) - 1 end) /\
                  t2i < nT /\ ~ in_t s1 (spos l bp i) t2i /\ In (xplace s1 (spos l bp i)) (preN N0 t2i) /\
                  Hout (pp (spos l bp i)) (pp (spos l bp i) + nplaces s1) (pt (spos l bp i)) (pt (spos l bp i) + ntrans s1) t2i m.
  Proof.
    intros l bp ctx xcbs t2 i s1 m Hfb Hw En HT Ht2 Hnt2 Hx2 HO Hz.
    set (pi := spos l bp i) in *.
    pose proof (spos_range l bp i s1 En) as Ri. fold pi in Ri.
    destruct (wired_block_nth _ _ _ _ _ _ _ _ Hw En) as [W1 Wc]. fold pi in W1, Wc.
    set (t2i := match nth_error l (S i) with None => t2 | Some _ => pt pi - 1 end).
    exists t2i. split; [reflexivity|].
    assert (Houti : Hout (pp pi) (pp pi + nplaces s1) (pt pi) (pt pi + ntrans s1) t2i m).
    { apply (Hout_stmt_of_block l bp ctx xcbs i s1 t2 t2i m Hfb Hw En HO Hx2 Hnt2 Hz); unfold t2i.
      - intros ->. reflexivity.
      - intros Hne. destruct (nth_error l (S i)); [reflexivity|congruence]. }
    unfold t2i in *. destruct (nth_error l (S i)) as [s'|] eqn:En'.
    - destruct (spos_conn l bp i s1 s' En En') as (C1 & C2 & C3). fold pi in C1, C2, C3.
      destruct (Wc s' eq_refl) as (P1 & _). cbv zeta in P1.
      split; [lia|]. split; [unfold in_t; lia|]. split; [rewrite P1; left; reflexivity|exact Houti].
    - split; [exact Ht2|]. split; [unfold in_t, in_tb in *; lia|]. split; [|exact Houti].
      destruct (xplace_b_nth l bp Hfb) as (sl & Hl & El).
      assert (i = List.length l - 1).
      { apply nth_error_None in En'. assert (i < List.length l) by (apply nth_error_Some; congruence). lia. }
      subst i. rewrite En in Hl. inversion Hl; subst sl. fold pi in El. rewrite <- El. exact Hx2.
  Qed.

  (* ---- a block from statement i on, through the statements that complete at once ---- *)
  Definition mlb (l : list xstmt) (bp : pos) (r : option (nat * rst)) : list nat :=
    match r with None => [xplace_b l bp] | Some (j, st) => ml_block l bp j st end.
  Definition actb (ns : NS) (l : list xstmt) (bp : pos) (ctx : nat) (r : option (nat * rst)) (ie : ienv) : Prop :=
    match r with None => True | Some (j, st) => act_block N0 ns l bp ctx j st ie end.
  Definition is_none {A : Type} (o : option A) : bool := match o with None => true | Some _ => false end.
  Definition StartBK (f : nat) : Prop :=
    forall l bp ctx cid ie kl rt xcbs t2 i s g r g' ns m pend,
      run_block orc imm f cid ie l i g = Ok (r, g') -> nth_error l i = Some s ->
      frag_block l = true -> sok_block NC rt l = true -> CX ns ctx cid ie kl rt bp ->
      wired_block (wired N0) N0 ctx xcbs l bp -> no_parloop xcbs = true ->
      pp bp + nplaces_l l <= nP -> pt bp + ntrans_b l <= nT ->
      t2 < nT -> ~ in_tb l bp t2 -> In (xplace_b l bp) (preN N0 t2) ->
      Inv ns -> GR g ns pend -> ctx_is ns ctx cid -> ctx < pa bp ->
      Marks ns m -> (forall q, in_pb l bp q -> cnt m q = cnt (entries s (spos l bp i)) q) ->
      Hout (pp bp) (pp bp + nplaces_l l) (pt bp) (pt bp + ntrans_b l) t2 m ->
      exists ns' m', Enters (startcbs s (spos l bp i) ctx) ns ns' (is_none r) xcbs /\
                     Marks ns' m' /\ agrees_in (pp bp) (pp bp + nplaces_l l) m' (mlb l bp r) /\
                     agrees_out (pp bp) (pp bp + nplaces_l l) m m' /\
                     StartRes ctx ns ns' g g' pend (ids_opt r) bp (napis_l l) /\
                     (actb ns' l bp ctx r ie /\ C0 ns' cid (rchb l bp r kl)).

  Lemma CX_spos : forall ns ns' ctx cid ie kl rt l bp i,
      CX ns ctx cid ie kl rt bp -> C0 ns' cid kl -> CX ns' ctx cid ie kl rt (spos l bp i).
  Proof. intros. eapply CX_pos; [eassumption|assumption|]. apply ple_spos. Qed.
  Lemma C0_fire : forall ns tr cid kl, C0 ns cid kl -> C0 (fire_ns tr ns) cid kl.
  Proof. intros ns tr cid kl H. exact H. Qed.

  Lemma StartRes_fire : forall ctx a tr b g g' pend ids p da,
      StartRes ctx (fire_ns tr a) b g g' pend ids p da -> StartRes ctx a b g g' pend ids p da.
  Proof. intros ctx a tr b g g' pend ids p da H. exact H. Qed.

  Lemma is_done_RDone : forall st, is_done st = true -> st = RDone.
  Proof. intros st H. destruct st; try discriminate H. reflexivity. Qed.


  Lemma run_block_S : forall f cid ie l i,
      run_block orc imm (S f) cid ie l i =
      match nth_error l i with
      | None => ret None
      | Some s1 => st <- start_stmt orc imm f cid ie s1 ;;
                   if is_done st then run_block orc imm f cid ie l (S i) else ret (Some (i, st))
      end.
  Proof. reflexivity. Qed.

  Lemma start_block_case : forall f, (forall f0, f0 <= f -> StartOK f0) -> StartBK (S f).
  Proof.
    induction f as [|f IHf]; intros HS l bp ctx cid ie kl rt xcbs t2 i s g r g' ns m pend
                                    H Hn Hf Hsok Hcx Hw Hnp HP HT Ht2 Hnt2 Hx2 Hinv Hgr Hctx Hlt Hm Hin HO.
    { rewrite run_block_S, Hn in H. mstep; discriminate. }
    rewrite run_block_S, Hn in H. mstep as st g1 E1.
    pose proof (frag_block_nth _ _ _ Hf Hn) as Hfs.
    destruct (wired_block_nth _ _ _ _ _ _ _ _ Hw Hn) as [Ws Wc].
    pose proof (spos_range l bp i s Hn) as R. set (pi := spos l bp i) in *.
    assert (Hent : forall q, In q (entries s pi) -> in_p s pi q) by (intros q Hq; apply (entries_range s Hfs pi q Hq)).
    assert (Hz : forall q, in_pb l bp q -> ~ in_p s pi q -> cnt m q = 0).
    { intros q Hq Hnq. rewrite (Hin q Hq). apply not_in_cnt. intro Hi. apply Hnq. apply Hent. exact Hi. }
    destruct (block_stmt_ctx l bp ctx xcbs t2 i s m Hf Hw Hn HT Ht2 Hnt2 Hx2 HO Hz) as (t2i & Et2 & T1 & T2 & T3 & Houti).
    fold pi in Et2, T2, T3, Houti.
    assert (Hnpi : no_parloop (if Nat.eqb (S i) (List.length l) then xcbs else []) = true)
      by (destruct (Nat.eqb (S i) (List.length l)); [exact Hnp|reflexivity]).
    destruct (HS (S f) (le_n _) s pi ctx cid ie kl rt _ t2i g st g1 ns m pend E1 Hfs (sok_block_nth _ _ _ _ _ Hsok Hn)
                 (CX_spos _ _ _ _ _ _ _ l bp i Hcx (cx_c0 _ _ _ _ _ _ _ Hcx)) Ws Hnpi ltac:(lia) ltac:(lia) T1 T2 T3 Hinv Hgr Hctx
                 ltac:(lia) Hm ltac:(intros q Hq; apply Hin; unfold in_p, in_pb in *; lia) Houti)
      as (ns1 & m1 & Hen1 & Mk1 & Ai1 & Ao1 & Hres1 & Hact1 & Hc1).
    pose proof Hres1 as (Inv1 & Gr1 & Ap1 & Aw1 & Sid1 & Di1).
    assert (Hmz : forall q, in_pb l bp q -> ~ in_p s pi q -> cnt m1 q = 0).
    { intros q Hq Hnq. rewrite (Ao1 q ltac:(unfold in_p in Hnq; exact Hnq)). apply Hz; assumption. }
    destruct (is_done st) eqn:D.
    - (* statement i completes at once *)
      pose proof (is_done_RDone _ D) as ->. cbn [mlx svc_ids] in *. rewrite app_nil_r in Gr1, Aw1.
      destruct (nth_error l (S i)) as [s'|] eqn:En'.
      + (* the connection fires, statement i+1 is entered *)
        assert (Elast : Nat.eqb (S i) (List.length l) = false).
        { apply Nat.eqb_neq. assert (S i < List.length l) by (apply nth_error_Some; congruence). lia. }
        rewrite Elast in Ws, Hen1. destruct (Wc s' eq_refl) as (C1 & C2 & C3). cbv zeta in C1, C2, C3. fold pi in C1, C2, C3.
        set (pj := spos l bp (S i)) in *.
        pose proof (frag_block_nth _ _ _ Hf En') as Hf'.
        pose proof (spos_range l bp (S i) s' En') as Rj. fold pj in Rj.
        pose proof (spos_mono l bp i (S i) s s' ltac:(lia) Hn En') as Mij. fold pi pj in Mij.
        destruct (spos_conn l bp i s s' Hn En') as (Cn1 & Cn2 & Cn3). fold pi in Cn1, Cn2, Cn3.
        set (c := pt pi - 1) in *.
        assert (Et2i : t2i = c) by exact Et2.
        subst t2i.
        assert (HcT : c < nT) by exact T1.
        destruct (trans_exists c HcT) as [trc Htrc].
        rewrite (nth_error_preN _ _ Htrc) in C1. rewrite (nth_error_postN _ _ Htrc) in C2.
        assert (Hdisc : forall j, j < nT -> j <> c -> dis m1 j)
          by exact (exited_only_t2 s pi ctx [] c m m1 Hfs Ws Houti Ao1 Ai1).
        assert (Henc : forall q, In q (tr_pre trc) -> In q m1).
        { intros q Hq. rewrite C1 in Hq. destruct Hq as [<-|[]]. apply cnt_pos_in.
          rewrite (Ai1 _ (xplace_range s Hfs pi)). cnt_cases. }
        set (nsf := fire_ns trc ns1).
        pose proof (fire_len ns1 m1 trc Mk1) as Hlenf. fold nsf in Hlenf.
        pose proof (Inv_fire ns1 trc Inv1 Hlenf) as Invf. pose proof (GR_fire _ _ _ trc Gr1) as Grf. fold nsf in Invf, Grf.
        assert (Hent' : forall q, In q (entries s' pj) -> in_p s' pj q) by (intros q Hq; apply (entries_range s' Hf' pj q Hq)).
        set (m'' := entries s' pj ++ outside (pp bp) (pp bp + nplaces_l l) m1).
        assert (Hcnt_in : forall q, in_pb l bp q -> cnt m1 q = if Nat.eqb (xplace s pi) q then 1 else 0).
        { intros q Hq. destruct (Nat.lt_ge_cases q (pp pi)) as [A|A]; [|destruct (Nat.lt_ge_cases q (pp pi + nplaces s)) as [B|B]].
          - rewrite (Hmz q Hq ltac:(unfold in_p; lia)). pose proof (xplace_range s Hfs pi). cnt_cases.
          - rewrite (Ai1 q ltac:(lia)). cnt_cases.
          - rewrite (Hmz q Hq ltac:(unfold in_p; lia)). pose proof (xplace_range s Hfs pi). cnt_cases. }
        destruct (Marks_fire ns1 m1 trc m'' Mk1) as [Mkf _].
        { intros x Hx. rewrite C2 in Hx. apply Hent' in Hx. unfold in_p in Hx.
          rewrite (iv_npl _ Inv1). unfold nP in HP. lia. }
        { intro q. rewrite C1. destruct (Nat.eq_dec q (xplace s pi)) as [->|Hne].
          - rewrite (Ai1 _ (xplace_range s Hfs pi)). cnt_cases.
          - cnt_cases. }
        { intro q. rewrite C1, C2. unfold m''. rewrite cnt_app, cnt_outside.
          destruct (inb (pp bp) (pp bp + nplaces_l l) q) eqn:E.
          - apply inb_spec in E. rewrite (Hcnt_in q E). cnt_cases.
          - apply not_true_iff_false in E. rewrite inb_spec in E.
            assert (cnt (entries s' pj) q = 0) by (apply not_in_cnt; intro Hq; apply Hent' in Hq; unfold in_p in Hq; lia).
            pose proof (xplace_range s Hfs pi). cnt_cases. }
        fold nsf in Mkf.
        assert (Hin'' : forall q, in_pb l bp q -> cnt m'' q = cnt (entries s' pj) q).
        { intros q Hq. unfold m''. rewrite cnt_app, cnt_outside. rewrite (proj2 (inb_spec _ _ q) Hq). lia. }
        assert (Hout'' : agrees_out (pp bp) (pp bp + nplaces_l l) m m'').
        { intros q Hq. unfold m''. rewrite cnt_app, cnt_outside.
          assert (cnt (entries s' pj) q = 0) by (apply not_in_cnt; intro Hi; apply Hent' in Hi; unfold in_p in Hi; lia).
          destruct (inb (pp bp) (pp bp + nplaces_l l) q) eqn:E; [apply inb_spec in E; lia|].
          rewrite (Ao1 q ltac:(lia)). lia. }
        assert (Hctxf : ctx_is nsf ctx cid).
        { change (ctx_is ns1 ctx cid). apply (ctx_is_start _ _ _ _ _ _ _ _ _ _ _ Hgr Hres1 Hctx). lia. }
        assert (Hcxf : CX nsf ctx cid ie kl rt bp).
        { eapply CX_pos; [exact Hcx|exact Hc1|apply ple_refl]. }
        destruct (IHf ltac:(intros f0 Hf0; apply HS; lia) l bp ctx cid ie kl rt xcbs t2 (S i) s' g1 r g' nsf m'' pend
                      H En' Hf Hsok Hcxf Hw Hnp HP HT Ht2 Hnt2 Hx2 Invf Grf Hctxf Hlt Mkf Hin'' (Hout_out _ _ _ _ _ _ _ HO Hout''))
          as (ns2 & m2 & Hen2 & Mk2 & Ai2 & Ao2 & Hres2 & Hact2). fold pj in Hen2.
        pose proof Hres2 as (Inv2 & Gr2 & Ap2 & Aw2 & Sid2 & Di2).
        destruct Hen1 as (ms & mm & Hk).
        assert (Hgo : forall rest K, MS (ns, (startcbs s pi ctx ++ rest) :: K) (nsf, startcbs s' pj ctx :: UnwE ms ((marks mm ++ rest) :: K))).
        { intros rest K. eapply MS_trans; [apply Hk|].
          apply (MS_fire1 ns1 m1 c trc _ _ Inv1 Mk1 HcT Htrc Henc Hdisc C3 (no_parloop_startcbs _ _ _)). }
        assert (Hd2 : is_none r = false -> dead ns2).
        { intro Hr. destruct r as [[j st']|]; [|discriminate Hr]. cbn [actb] in Hact2.
          apply (dis_dead ns2 m2 Inv2 Mk2).
          apply (block_dis (ie := ie) l bp ctx xcbs t2 j st' ns2 m m2 Hf Hw Hx2 HO); [|exact Ai2|exact (proj1 Hact2)].
          intros q Hq. rewrite (Ao2 q Hq). apply Hout''. exact Hq. }
        pose proof (Enters_after (is_none r) _ _ ns nsf ns2 ms mm xcbs Hgo Hen2 Inv2 Hd2) as HenF.
        exists (if is_none r then ns2 else bumpn (mm + sumn ms) ns2), m2.
        split; [exact HenF|]. split; [destruct (is_none r); exact Mk2|]. split; [exact Ai2|]. split; [|split].
        * intros q Hq. rewrite (Ao2 q Hq). apply Hout''. exact Hq.
        * apply StartRes_if. apply StartRes_fire in Hres2.
          assert (E0 : ids_opt r = [] ++ ids_opt r) by reflexivity. rewrite E0.
          eapply (StartRes_trans ctx ns ns1 ns2 g g1 g' pend [] (ids_opt r) bp (napis_l l) pi (napis s) bp (napis_l l));
            [exact Hgr|exact Hres1|rewrite app_nil_r; exact Hres2|lia|lia|lia|lia].
        * destruct (is_none r); exact Hact2.
      + (* it was the last statement: the block is complete *)
        assert (Elast : Nat.eqb (S i) (List.length l) = true).
        { apply Nat.eqb_eq. apply nth_error_None in En'. assert (i < List.length l) by (apply nth_error_Some; congruence). lia. }
        rewrite Elast in Ws, Hen1.
        rewrite run_block_S, En' in H.
        unfold ret in H. injection H as Hr Hg. subst r g1.
        assert (Hi : i = List.length l - 1) by (apply Nat.eqb_eq in Elast; lia).
        assert (El : xplace_b l bp = xplace s pi).
        { destruct (xplace_b_nth l bp Hf) as (sl & Hl & E). rewrite <- Hi in Hl, E. rewrite Hn in Hl. inversion Hl; subst sl. exact E. }
        exists ns1, m1. cbn [is_none mlb actb ids_opt]. rewrite El.
        split; [exact Hen1|]. split; [exact Mk1|].
        split; [|split; [eapply agrees_out_widen; [exact Ao1|lia|lia]|split; [eapply StartRes_widen; [exact Hres1|lia|lia]|split; [exact I|exact Hc1]]]].
        eapply (agrees_in_widen (pp pi) (pp pi + nplaces s)); [exact Ai1|exact Ao1|lia|lia|].
        intros q Hq Hnq. split; [apply Hz; [exact Hq|unfold in_p; lia]|].
        pose proof (xplace_range s Hfs pi). cnt_cases.
    - (* statement i waits *)
      unfold ret in H. injection H as Hr Hg. subst r g1. rewrite (mlx_nd _ _ _ D) in Ai1.
      exists ns1, m1. cbn [is_none mlb actb ids_opt Enters] in *.
      split; [exact Hen1|]. split; [exact Mk1|].
      split; [|split; [eapply agrees_out_widen; [exact Ao1|lia|lia]|split; [eapply StartRes_widen; [exact Hres1|lia|lia]|]]].
      + assert (Hmlb : ml_block l bp i st = ml st s pi) by (unfold ml_block; rewrite Hn; reflexivity). rewrite Hmlb.
        eapply (agrees_in_widen (pp pi) (pp pi + nplaces s)); [exact Ai1|exact Ao1|lia|lia|].
        intros q Hq Hnq. split; [apply Hz; [exact Hq|unfold in_p; lia]|].
        apply not_in_cnt. intro Hi. destruct (ml_range N0 ns1 st s pi ctx Hfs Hact1 q Hi) as [Hr _]. unfold in_p in Hr. lia.
      + split; [|cbn [rchb]; unfold rch_block; rewrite Hn; exact Hc1].
        split; [exact D|]. split; [reflexivity|rewrite Hn; exact Hact1].
  Qed.

  Lemma ids_list_snoc : forall st sts, ids_list (st :: sts) = svc_ids st ++ ids_list sts.
  Proof. reflexivity. Qed.

  (* a started or completed component: each of its transitions reads one of its places that is
     not marked *)
  Lemma stmt_blocked : forall ns st s p ctx xcbs {ie},
      frag s = true -> wired N0 s p ctx xcbs -> act N0 ns st s p ctx ie ->
      forall j, in_t s p j -> exists q, In q (preN N0 j) /\ in_p s p q /\ ~ In q (mlx st s p).
  Proof.
    intros ns st s p ctx xcbs ie Hf Hw Ha j Hj. destruct (is_done st) eqn:D.
    - apply is_done_RDone in D. subst st. destruct (exit_blocked N0 s p ctx xcbs Hf Hw j Hj) as (q & Q1 & Q2 & Q3).
      exists q. split; [exact Q1|]. split; [exact Q2|]. cbn [mlx]. intros [E|[]]. congruence.
    - destruct (stable_blocked N0 ns N0 st s p ctx ctx xcbs Hf Hw Ha D j Hj) as (q & Q1 & Q2 & Q3).
      exists q. split; [exact Q1|]. split; [exact Q2|]. rewrite (mlx_nd _ _ _ D). exact Q3.
  Qed.

  Definition is_nil {A : Type} (l : list A) : bool := match l with [] => true | _ => false end.

  Lemma start_list_S : forall f cid ie b r,
      start_list orc imm (S f) cid ((ie, b) :: r) =
      (st <- start_stmt orc imm f cid ie b ;; sts <- start_list orc imm f cid r ;; ret (st :: sts)).
  Proof. reflexivity. Qed.

  (* forking the branches of a Parallel, one after the other: the branches before the current one
     are running or complete, those after it have been entered only.  [pre_done]: the branches
     before this suffix are all complete *)
  Lemma rch_is_call : forall st b q kl, is_call b = true -> rch st b q kl = kl.
  Proof. intros st b q kl H. destruct b; try discriminate H. destruct st; reflexivity. Qed.
  Lemma psi_adv : forall b q, s_pre (psi (adv b q)) = s_pre (psi q).
  Proof. reflexivity. Qed.

  Lemma start_list_case : forall fl, (forall f0, f0 < fl -> StartOK f0) ->
      forall bs q ctx cid ie kl rt sync (pre_done : bool) g sts g' ns m pend,
        start_list orc imm fl cid (map (fun b => (ie, b)) bs) g = Ok (sts, g') ->
        frag_brs bs = true -> forallb (sok NC rt) bs = true -> CX ns ctx cid ie kl rt q ->
        wired_list (wired N0) ctx bs q ->
        pp q + nplaces_l bs <= nP -> pt q + ntrans_l bs <= nT ->
        sync < nT -> ~ (pt q <= sync < pt q + ntrans_l bs) ->
        (forall k b, nth_error bs k = Some b -> In (xplace b (bpos bs q k)) (preN N0 sync)) ->
        Inv ns -> GR g ns pend -> ctx_is ns ctx cid -> ctx < pa q ->
        Marks ns m ->
        (forall x, pp q <= x < pp q + nplaces_l bs -> cnt m x = cnt (cat_of entries bs q) x) ->
        Hout (pp q) (pp q + nplaces_l bs) (pt q) (pt q + ntrans_l bs) sync m ->
        (pre_done = false -> exists x, In x (preN N0 sync) /\ ~ (pp q <= x < pp q + nplaces_l bs) /\ ~ In x m) ->
        exists ns' m', Enters (cat_of (fun b q => startcbs b q ctx) bs q) ns ns'
                              (pre_done && all_done sts && negb (is_nil bs)) [] /\
                       Marks ns' m' /\ agrees_in (pp q) (pp q + nplaces_l bs) m' (ml_list sts bs q) /\
                       agrees_out (pp q) (pp q + nplaces_l bs) m m' /\
                       StartRes ctx ns ns' g g' pend (ids_list sts) q (napis_l bs) /\
                       (act_list N0 ns' sts bs q ctx ie /\ C0 ns' cid kl).
  Proof.
    intros fl HS bs. revert fl HS.
    induction bs as [|b r IH]; intros fl HS q ctx cid ie kl rt sync pre_done g sts g' ns m pend
                                      H Hf Hsok Hcx Hw HP HT Hsy Hnsy Hxs Hinv Hgr Hctx Hlt Hm Hin HO Hsync;
      (destruct fl as [|f]; [discriminate H|]).
    - cbn [map start_list] in H. mstep. exists ns, m. cbn [is_nil negb]. rewrite andb_false_r. cbn [Enters].
      split; [apply Starts_nil|]. split; [exact Hm|].
      split; [intros x Hx; unfold nplaces_l in Hx; cbn in Hx; lia|]. split; [intros x _; reflexivity|].
      split; [|split; [exact I|exact (cx_c0 _ _ _ _ _ _ _ Hcx)]].
      unfold ids_list. cbn [flat_map]. split; [exact Hinv|]. split; [rewrite app_nil_r; exact Hgr|].
      split; [reflexivity|]. split; [rewrite app_nil_r; reflexivity|]. split; [split; [lia|split; [lia|apply CF_same; reflexivity]]|].
      exists []. split; [reflexivity|constructor].
    - cbn [map] in H. rewrite start_list_S in H. mstep as st g1 E1. mstep as sts1 g2 E2. mstep.
      pose proof Hf as Hfall. apply frag_brs_cons in Hf. destruct Hf as (Hcall & Hfb & Hfr').
      cbn [forallb] in Hsok. apply andb_prop in Hsok. destruct Hsok as [Hsokb Hsokr].
      pose proof Hw as Hwall. cbn [wired_list] in Hw. destruct Hw as [Wb Wr].
      rewrite nplaces_l_cons, ntrans_l_cons in *.
      set (q1 := adv b q) in *.
      assert (Hq1 : pp q1 = pp q + nplaces b /\ pt q1 = pt q + ntrans b /\ pa q1 = pa q + napis b) by (repeat split; reflexivity).
      destruct Hq1 as (Q1p & Q1t & Q1a).
      (* the marking inside the head branch: its entries *)
      assert (Hinb : forall x, in_p b q x -> cnt m x = cnt (entries b q) x).
      { intros x Hx. rewrite (Hin x ltac:(unfold in_p in Hx; lia)).
        apply (cnt_cat_entries_at (b :: r) q 0 b x Hfall eq_refl Hx). }
      (* the later branches have been entered only *)
      assert (Hlater : forall j, pt q1 <= j < pt q1 + ntrans_l r ->
                                 exists x, In x (preN N0 j) /\ pp q1 <= x < pp q1 + nplaces_l r /\ cnt m x = 0).
      { intros j Hj. destruct (list_cover r q1 j Hj) as (k' & b' & Hb' & Hj').
        destruct (frag_brs_nth _ _ _ Hfr' Hb') as [Hfb' _].
        destruct (entered_blocked N0 b' Hfb' _ ctx [] (wired_list_nth _ _ _ _ _ _ Wr Hb') j Hj') as (x & X1 & X2 & X3).
        pose proof (bpos_range r q1 k' b' Hb') as Rk'.
        exists x. split; [exact X1|]. unfold in_p in X2. split; [lia|].
        rewrite (Hin x ltac:(lia)).
        rewrite (cnt_cat_entries_at (b :: r) q (S k') b' x Hfall Hb' X2). apply not_in_cnt. exact X3. }
      (* everything around the head branch is blocked *)
      assert (Houtb : Hout (pp q) (pp q + nplaces b) (pt q) (pt q + ntrans b) sync m).
      { intros j Hj Hnj Hne.
        destruct (Nat.lt_ge_cases j (pt q)) as [A|A]; [|destruct (Nat.lt_ge_cases j (pt q + (ntrans b + ntrans_l r))) as [B|B]].
        - destruct (HO j Hj ltac:(lia) Hne) as (x & X1 & X2 & X3). exists x. split; [exact X1|]. split; [lia|exact X3].
        - destruct (Hlater j ltac:(lia)) as (x & X1 & X2 & X3). exists x. split; [exact X1|]. split; [lia|]. apply not_in_cnt. exact X3.
        - destruct (HO j Hj ltac:(lia) Hne) as (x & X1 & X2 & X3). exists x. split; [exact X1|]. split; [lia|exact X3]. }
      destruct (HS f ltac:(lia) b q ctx cid ie kl rt [] sync g st g1 ns m pend E1 Hfb Hsokb Hcx Wb eq_refl ltac:(lia) ltac:(lia) Hsy
                   ltac:(unfold in_t; lia) (Hxs 0 b eq_refl) Hinv Hgr Hctx Hlt Hm Hinb Houtb)
        as (ns1 & m1 & Hen1 & Mk1 & Ai1 & Ao1 & Hres1 & Hact1 & Hc1).
      rewrite (rch_is_call st b q kl) in Hc1 by (destruct b; try discriminate Hcall; reflexivity).
      assert (Hcx1 : CX ns1 ctx cid ie kl rt q1) by (eapply CX_pos; [exact Hcx|exact Hc1|split; [apply Nat.le_refl|intro Hx; exact Hx]]).
      pose proof Hres1 as (Hinv1 & Hgr1 & Hap1 & Haw1 & Hsid1 & Hd1).
      assert (Hctx1 : ctx_is ns1 ctx cid).
      { apply (ctx_is_start _ _ _ _ _ _ _ _ _ _ _ Hgr Hres1 Hctx). lia. }
      assert (Hin1 : forall x, pp q1 <= x < pp q1 + nplaces_l r -> cnt m1 x = cnt (cat_of entries r q1) x).
      { intros x Hx. rewrite (Ao1 x ltac:(lia)), (Hin x ltac:(lia)). cbn [cat_of]. fold q1. rewrite cnt_app.
        assert (cnt (entries b q) x = 0); [|lia]. apply not_in_cnt. intro Hi.
        destruct (entries_range b Hfb q x Hi) as [R _]. unfold in_p in R. lia. }
      assert (Hout1 : Hout (pp q1) (pp q1 + nplaces_l r) (pt q1) (pt q1 + ntrans_l r) sync m1).
      { intros j Hj Hnj Hne.
        destruct (Nat.lt_ge_cases j (pt q)) as [A|A]; [|destruct (Nat.lt_ge_cases j (pt q + ntrans b)) as [B|B]].
        - destruct (HO j Hj ltac:(lia) Hne) as (x & X1 & X2 & X3). exists x. split; [exact X1|]. split; [lia|].
          apply not_in_cnt. rewrite (Ao1 x ltac:(lia)). apply not_in_cnt. exact X3.
        - destruct (stmt_blocked ns1 st b q ctx [] Hfb Wb Hact1 j ltac:(unfold in_t; lia)) as (x & X1 & X2 & X3).
          exists x. split; [exact X1|]. unfold in_p in X2. split; [lia|]. apply not_in_cnt. rewrite (Ai1 x X2). apply not_in_cnt. exact X3.
        - destruct (HO j Hj ltac:(lia) Hne) as (x & X1 & X2 & X3). exists x. split; [exact X1|]. split; [lia|].
          apply not_in_cnt. rewrite (Ao1 x ltac:(lia)). apply not_in_cnt. exact X3. }
      destruct (is_done st && pre_done && is_nil r) eqn:Q.
      + (* the last branch completes, and so the Parallel *)
        apply andb_prop in Q. destruct Q as [Q Q3]. apply andb_prop in Q. destruct Q as [Q1 Q2].
        destruct r as [|b' r']; [|discriminate Q3]. subst pre_done. rewrite Q1 in Hen1.
        destruct f as [|f0]; [discriminate E2|]. cbn [map start_list] in E2. unfold ret in E2. injection E2 as Es Eg. subst sts1 g2.
        exists ns1, m1. cbn [all_done is_nil negb andb cat_of ml_list]. rewrite Q1. cbn [andb].
        split; [rewrite app_nil_r; exact Hen1|]. split; [exact Mk1|].
        rewrite napis_l_cons. change (nplaces_l (@nil xstmt)) with 0. change (napis_l (@nil xstmt)) with 0.
        rewrite !Nat.add_0_r, !app_nil_r.
        split; [exact Ai1|]. split; [exact Ao1|]. split; [|split; [split; [exact Hact1|exact I]|exact Hc1]].
        unfold ids_list. cbn [flat_map]. rewrite app_nil_r. exact Hres1.
      + (* the other branches are entered next *)
        assert (Hsync1 : (pre_done && is_done st) = false -> exists x, In x (preN N0 sync) /\ ~ (pp q1 <= x < pp q1 + nplaces_l r) /\ ~ In x m1).
        { intro Hpd. destruct pre_done.
          - cbn [andb] in Hpd. exists (xplace b q). split; [apply (Hxs 0 b eq_refl)|].
            pose proof (xplace_range b Hfb q) as X. split; [lia|]. apply not_in_cnt. rewrite (Ai1 _ X), (mlx_nd _ _ _ Hpd).
            apply not_in_cnt. intro Hi. destruct (ml_range N0 ns1 st b q ctx Hfb Hact1 _ Hi) as [_ Hne]. congruence.
          - destruct (Hsync eq_refl) as (x & X1 & X2 & X3). exists x. split; [exact X1|]. split; [lia|].
            apply not_in_cnt. rewrite (Ao1 x ltac:(lia)). apply not_in_cnt. exact X3. }
        assert (Hst : exists jj, Starts (startcbs b q ctx) ns (bumpn jj ns1)).
        { destruct (is_done st) eqn:D; [|exists 0; rewrite (Mach.bumpn_0); exact Hen1]. destruct Hen1 as (ms & mm & Hk). exists (mm + sumn ms). intros rest K.
          eapply MS_trans; [apply Hk|]. eapply MS_trans; [apply MS_unwind|eapply MS_trans; [apply MS_marks|rewrite Mach.bumpn_add; apply MS_refl]]; [exact Hinv1|].
          apply (dis_dead ns1 m1 Hinv1 Mk1). intros j Hj.
          destruct (Nat.eq_dec j sync) as [->|Hne].
          - (* the sync waits for a branch *)
            destruct r as [|b' r'].
            + destruct pre_done; [discriminate Q|]. destruct (Hsync eq_refl) as (x & X1 & X2 & X3). exists x. split; [exact X1|].
              apply not_in_cnt. rewrite (Ao1 x ltac:(lia)). apply not_in_cnt. exact X3.
            + destruct (frag_brs_nth (b' :: r') 0 b' Hfr' eq_refl) as [Hfb' _].
              pose proof (xplace_range b' Hfb' q1) as X. pose proof (bpos_range (b' :: r') q1 0 b' eq_refl) as Rb.
              change (bpos (b' :: r') q1 0) with q1 in Rb.
              exists (xplace b' q1). split; [apply (Hxs 1 b' eq_refl)|]. apply not_in_cnt.
              rewrite (Hin1 (xplace b' q1) ltac:(lia)). rewrite (cnt_cat_entries_at (b' :: r') q1 0 b' _ Hfr' eq_refl X).
              apply not_in_cnt. intro Hi. destruct (entries_range b' Hfb' q1 _ Hi) as [_ Hne]. congruence.
          - destruct (Nat.lt_ge_cases j (pt q1)) as [A|A]; [|destruct (Nat.lt_ge_cases j (pt q1 + ntrans_l r)) as [B|B]].
            + destruct (Hout1 j Hj ltac:(lia) Hne) as (x & X1 & X2 & X3). exists x. split; assumption.
            + destruct (Hlater j ltac:(lia)) as (x & X1 & X2 & X3). exists x. split; [exact X1|].
              apply not_in_cnt. rewrite (Ao1 x ltac:(lia)). exact X3.
            + destruct (Hout1 j Hj ltac:(lia) Hne) as (x & X1 & X2 & X3). exists x. split; assumption. }
        destruct Hst as [jj Hst].
        assert (T : Inv (bumpn jj ns1) /\ GR g1 (bumpn jj ns1) (pend ++ svc_ids st) /\ ctx_is (bumpn jj ns1) ctx cid /\
                    Marks (bumpn jj ns1) m1 /\ CX (bumpn jj ns1) ctx cid ie kl rt q1 /\
                    StartRes ctx ns (bumpn jj ns1) g g1 pend (svc_ids st) q (napis b) /\ act N0 (bumpn jj ns1) st b q ctx ie).
        { split; [apply Inv_bumpn; exact Hinv1|]. split; [apply GR_bumpn; exact Hgr1|]. split; [exact Hctx1|]. split; [exact Mk1|].
          split; [destruct Hcx1 as [X1 X2 X3]; constructor; [exact X1|exact X2|exact X3]|]. split; [apply StartRes_bumpn; exact Hres1|exact Hact1]. }
        clear Hinv1 Hgr1 Hctx1 Mk1 Hcx1 Hres1 Hact1 Hap1 Haw1 Hsid1 Hd1 Hen1 Hc1.
        rename ns1 into ns1o. set (ns1 := bumpn jj ns1o) in *.
        destruct T as (Hinv1 & Hgr1 & Hctx1 & Mk1 & Hcx1 & Hres1 & Hact1).
        pose proof Hres1 as (_ & _ & Hap1 & Haw1 & Hsid1 & Hd1).
        destruct (IH f ltac:(intros f0 Hf0; apply HS; lia) q1 ctx cid ie kl rt sync (pre_done && is_done st) g1 sts1 g2 ns1 m1 (pend ++ svc_ids st) E2 Hfr' Hsokr Hcx1 Wr
                     ltac:(lia) ltac:(lia) Hsy ltac:(lia) ltac:(intros k b' Hb'; apply (Hxs (S k) b' Hb')) Hinv1 Hgr1 Hctx1
                     ltac:(lia) Mk1 Hin1 Hout1 Hsync1)
          as (ns2 & m2 & Hen2 & Mk2 & Ai2 & Ao2 & Hres2 & Hact2 & Hc2).
        pose proof Hres2 as (Hinv2 & Hgr2 & Hap2 & Haw2 & Hsid2 & Hd2).
        assert (Hact1' : act N0 ns2 st b q ctx ie).
        { apply (act_mono N0 ns1 ns2 st b q ctx Hfb Hact1).
          - intros k Hk. apply Hap2. lia.
          - rewrite (gr_sid _ _ _ Hgr1), (gr_sid _ _ _ Hgr2). exact (proj1 Hsid2).
          - exact Hd2.
          - intros k ac Hk Hka Hta. destruct Hsid2 as (_ & _ & C2). apply (C2 k ac); [lia|lia|exact Hka|exact Hta]. }
        assert (Eflag : pre_done && is_done st && all_done sts1 && negb (is_nil r)
                        = pre_done && all_done (st :: sts1) && negb (is_nil (b :: r))).
        { cbn [all_done is_nil negb]. destruct pre_done, (is_done st), (all_done sts1), r; cbn in *; try reflexivity; discriminate Q. }
        rewrite Eflag in Hen2.
        exists ns2, m2. split; [cbn [cat_of]; eapply Enters_pre; eassumption|]. split; [exact Mk2|].
        split; [|split; [|split; [|split; [split; assumption|exact Hc2]]]].
        * intros x Hx. cbn [ml_list]. fold q1. rewrite cnt_app.
          destruct (Nat.lt_ge_cases x (pp q + nplaces b)) as [A|A].
          -- rewrite (Ao2 x ltac:(lia)), (Ai1 x ltac:(lia)).
             assert (cnt (ml_list sts1 r q1) x = 0); [|lia]. apply not_in_cnt. intro Hi.
             pose proof (ml_list_range N0 ns2 sts1 r q1 ctx x Hfr' Hact2 Hi). lia.
          -- rewrite (Ai2 x ltac:(lia)).
             assert (cnt (mlx st b q) x = 0); [|lia]. apply not_in_cnt. intro Hi.
             pose proof (mlx_range N0 ns2 st b q ctx Hfb Hact1' x Hi) as R. unfold in_p in R. lia.
        * intros x Hx. rewrite (Ao2 x ltac:(lia)). apply Ao1. lia.
        * rewrite ids_list_snoc.
          eapply (StartRes_trans ctx ns ns1 ns2 g g1 g2 pend _ _ q (napis b + napis_l r) q (napis b) q1 (napis_l r));
            try eassumption; lia.
  Qed.

  Lemma all_done_nth : forall sts k st, all_done sts = true -> nth_error sts k = Some st -> is_done st = true.
  Proof.
    induction sts as [|s1 sr IH]; intros [|k] st D Hs; cbn in *; try discriminate.
    - inversion Hs; subst. apply andb_prop in D. apply D.
    - apply andb_prop in D. eapply IH; [apply D|exact Hs].
  Qed.

  (* all the branches of a Parallel are complete: the sync fires *)
  Lemma par_exit : forall bs p ctx xcbs sts ns' m m' {ie},
      frag_brs bs = true -> wired N0 (XParallel bs) p ctx xcbs -> no_parloop xcbs = true ->
      pp p + S (nplaces_l bs) <= nP -> pt p + S (ntrans_l bs) <= nT ->
      act_list N0 ns' sts bs (par_pos p) ctx ie -> all_done sts = true ->
      Hout (pp (par_pos p)) (pp (par_pos p) + nplaces_l bs) (pt (par_pos p)) (pt (par_pos p) + ntrans_l bs) (pt p) m ->
      cnt m (pp p) = 0 ->
      Inv ns' -> Marks ns' m' ->
      agrees_in (pp (par_pos p)) (pp (par_pos p) + nplaces_l bs) m' (ml_list sts bs (par_pos p)) ->
      agrees_out (pp (par_pos p)) (pp (par_pos p) + nplaces_l bs) m m' ->
      exists tr, let nsf := fire_ns tr ns' in let m'' := pp p :: outside (pp p) (pp p + S (nplaces_l bs)) m' in
        (forall K, MS (ns', [] :: K) (nsf, xcbs :: K)) /\ Marks nsf m'' /\ Inv nsf /\
        agrees_in (pp p) (pp p + S (nplaces_l bs)) m'' [pp p] /\ agrees_out (pp p) (pp p + S (nplaces_l bs)) m m''.
  Proof.
    intros bs p ctx xcbs sts ns' m m' ie Hfb Hw Hnp HP HT Hal' D Houtl Hpfin Inv' Mk Ai Ao.
    cbn [wired] in Hw. destruct Hw as (Hpre & Hpost & Hcbs & Hwl).
    set (q0 := par_pos p) in *.
    assert (Hq0 : pp q0 = S (pp p) /\ pt q0 = S (pt p) /\ pa q0 = pa p) by (repeat split; reflexivity).
    destruct Hq0 as (Qp & Qt & Qa).
    assert (Hlen' : List.length sts = List.length bs) by (apply (act_list_length _ _ _ _ _ _ Hal')).
    assert (Hpfin' : cnt m' (pp p) = 0) by (rewrite (Ao (pp p) ltac:(lia)); exact Hpfin).
    assert (HeT : pt p < nT) by lia.
    destruct (trans_exists (pt p) HeT) as [tr Htr]. exists tr. cbv zeta.
    rewrite (nth_error_preN _ _ Htr) in Hpre. rewrite (nth_error_postN _ _ Htr) in Hpost.
    pose proof (ml_list_all_done sts bs q0 D Hlen') as Hmld.
    set (m'' := pp p :: outside (pp p) (pp p + S (nplaces_l bs)) m').
    assert (Hcx : forall q, pp q0 <= q < pp q0 + nplaces_l bs -> cnt m' q = cnt (tr_pre tr) q).
    { intros q Hq. rewrite (Ai q Hq), Hmld, Hpre. reflexivity. }
    assert (Hpre_in : forall q, In q (tr_pre tr) -> pp q0 <= q < pp q0 + nplaces_l bs).
    { intros q Hq. rewrite Hpre in Hq. apply in_cat_of in Hq. destruct Hq as (k & b & Hb & [<-|[]]).
      pose proof (xplace_range b (proj1 (frag_brs_nth _ _ _ Hfb Hb)) (bpos bs q0 k)).
      pose proof (bpos_range bs q0 k b Hb). lia. }
    destruct (Marks_fire ns' m' tr m'' Mk) as [Mkf Hlenf].
    { intros x Hx. rewrite Hpost in Hx. destruct Hx as [<-|[]]. rewrite (iv_npl _ Inv'). unfold nP in HP. lia. }
    { intro q. destruct (in_dec Nat.eq_dec q (tr_pre tr)) as [Hi|Hn].
      - rewrite (Hcx q (Hpre_in q Hi)). lia.
      - apply not_in_cnt in Hn. lia. }
    { intro q. rewrite Hpost. unfold m''. rewrite cnt_cons, cnt_outside.
      destruct (inb (pp p) (pp p + S (nplaces_l bs)) q) eqn:E.
      - apply inb_spec in E. destruct (Nat.eq_dec q (pp p)) as [->|Hnq].
        + rewrite Hpfin'. assert (cnt (tr_pre tr) (pp p) = 0) by (apply not_in_cnt; intro Hi; apply Hpre_in in Hi; lia).
          cnt_cases.
        + rewrite (Hcx q ltac:(lia)). cnt_cases.
      - apply not_true_iff_false in E. rewrite inb_spec in E.
        assert (cnt (tr_pre tr) q = 0) by (apply not_in_cnt; intro Hi; apply Hpre_in in Hi; lia).
        cnt_cases. }
    split.
    { intro K. apply (MS_fire1 ns' m' (pt p) tr xcbs K Inv' Mk HeT Htr).
      - intros q Hq. apply cnt_pos_in. rewrite (Hcx q (Hpre_in q Hq)). apply cnt_pos_in. exact Hq.
      - intros j Hj Hnej.
        destruct (Nat.lt_ge_cases j (pt q0)) as [A|A]; [|destruct (Nat.lt_ge_cases j (pt q0 + ntrans_l bs)) as [B|B]].
        + destruct (Houtl j Hj ltac:(lia) Hnej) as (q & Q1 & Q2 & Q3). exists q. split; [exact Q1|].
          apply not_in_cnt. rewrite (Ao q Q2). apply not_in_cnt. exact Q3.
        + destruct (list_cover bs q0 j ltac:(lia)) as (k' & b' & Hb' & Hj').
          destruct (frag_brs_nth _ _ _ Hfb Hb') as [Hfb' _].
          destruct (exit_blocked N0 b' _ _ _ Hfb' (wired_list_nth _ _ _ _ _ _ Hwl Hb') j Hj') as (q & Q1 & Q2 & Q3).
          exists q. split; [exact Q1|]. apply not_in_cnt.
          pose proof (bpos_range bs q0 k' b' Hb') as Rk'. unfold in_p in Q2.
          rewrite (Ai q ltac:(lia)).
          destruct (nth_error sts k') as [st0|] eqn:Hs0.
          2:{ apply nth_error_None in Hs0. assert (k' < List.length bs) by (apply nth_error_Some; congruence). lia. }
          rewrite (cnt_ml_list_at N0 ns' sts bs q0 ctx k' st0 b' q Hfb Hal' Hs0 Hb' Q2).
          pose proof (all_done_nth _ _ _ D Hs0) as Hd0.
          destruct st0; try discriminate Hd0. cbn [mlx]. cnt_cases.
        + destruct (Houtl j Hj ltac:(lia) Hnej) as (q & Q1 & Q2 & Q3). exists q. split; [exact Q1|].
          apply not_in_cnt. rewrite (Ao q Q2). apply not_in_cnt. exact Q3.
      - exact Hcbs.
      - exact Hnp. }
    split; [exact Mkf|]. split; [apply Inv_fire; [exact Inv'|exact Hlenf]|].
    split; [intros q Hq; unfold m''; cnt_cases|].
    intros q Hq. unfold m''. rewrite cnt_cons, cnt_outside.
    destruct (inb (pp p) (pp p + S (nplaces_l bs)) q) eqn:E; [apply inb_spec in E; lia|rewrite (Ao q ltac:(lia)); cnt_cases].
  Qed.

  Lemma StartRes_fired : forall ctx a b tr g g' pend ids p da,
      StartRes ctx a b g g' pend ids p da -> List.length (ns_places (fire_ns tr b)) = List.length (ns_places b) ->
      StartRes ctx a (fire_ns tr b) g g' pend ids p da.
  Proof.
    intros ctx a b tr g g' pend ids p da (I1 & G1 & A1 & W1 & S1 & D1) Hl.
    split; [apply Inv_fire; assumption|]. split; [apply GR_fire; exact G1|]. split; [exact A1|].
    split; [exact W1|]. split; [exact S1|exact D1].
  Qed.

  Lemma start_call_case : forall f, (forall f0, f0 < S f -> StartOK f0) ->
      forall t at_ ins bd p ctx cid ie kl rt xcbs t2 g st g' ns m pend,
        start_stmt orc imm (S f) cid ie (XCall t at_ ins bd) g = Ok (st, g') ->
        frag (XCall t at_ ins bd) = true -> sok NC rt (XCall t at_ ins bd) = true -> CX ns ctx cid ie kl rt p ->
        wired N0 (XCall t at_ ins bd) p ctx xcbs -> no_parloop xcbs = true ->
        pp p + nplaces (XCall t at_ ins bd) <= nP -> pt p + ntrans (XCall t at_ ins bd) <= nT ->
        t2 < nT -> ~ in_t (XCall t at_ ins bd) p t2 -> In (xplace (XCall t at_ ins bd) p) (preN N0 t2) ->
        Inv ns -> GR g ns pend -> ctx_is ns ctx cid -> ctx < pa p ->
        Marks ns m -> (forall q, in_p (XCall t at_ ins bd) p q -> cnt m q = cnt (entries (XCall t at_ ins bd) p) q) ->
        Hout (pp p) (pp p + nplaces (XCall t at_ ins bd)) (pt p) (pt p + ntrans (XCall t at_ ins bd)) t2 m ->
        exists ns' m', Enters (startcbs (XCall t at_ ins bd) p ctx) ns ns' (is_done st) xcbs /\
                       Marks ns' m' /\ agrees_in (pp p) (pp p + nplaces (XCall t at_ ins bd)) m' (mlx st (XCall t at_ ins bd) p) /\
                       agrees_out (pp p) (pp p + nplaces (XCall t at_ ins bd)) m m' /\
                       StartRes ctx ns ns' g g' pend (svc_ids st) p (napis (XCall t at_ ins bd)) /\
                       (act N0 ns' st (XCall t at_ ins bd) p ctx ie /\ C0 ns' cid (rch st (XCall t at_ ins bd) p kl)).
  Proof.
    intros f IHf t at_ ins bd p ctx cid ie kl rt xcbs t2 g st g' ns m pend H Hf Hsok Hcx Hw Hnp HP HT Ht2 Hnt2 Hx2 Hinv Hgr Hctx Hlt Hm Hin HO.
    cbn [sok] in Hsok. apply andb_prop in Hsok. destruct Hsok as [Hidx Hsokb].
    destruct (cx_ie _ _ _ _ _ _ _ Hcx) as [Hieo Hiel].
    set (ps := subst_params ie ins) in *.
    pose proof (frag_call _ _ _ _ Hf) as [Hname Hfb].
    rewrite nplaces_call, ntrans_call, napis_call in *. unfold in_t, in_p in *. rewrite ?nplaces_call, ?ntrans_call in *.
    cbn [xplace] in Hx2.
    cbn [start_stmt] in H. fold ps in H. unfold bind at 1 in H. unfold fresh_t at 1 in H.
    unfold bind at 1 in H. unfold emit at 1 in H.
    rewrite emit_gen_eq in H.
    set (g1 := (g <| g_tid := S (g_tid g) |>) <| g_log := _ |>) in H.
    mstep as r g2 E2.
    cbn [wired] in Hw. destruct Hw as [Hapi Hwb]. set (il := s_il (psi p)) in *.
    destruct (iv_ready _ Hinv _ _ Hapi) as (u & ps0 & Ha & Hps0 & _).
    pose proof (ctx_is_tid _ _ _ Hctx) as Hcidlt.
    destruct (sim_TS (pa p) (reid u ps0 (call_api il t at_ ins ctx (pa p))) ps (Some cid) g g1 ns pend Hinv Hgr Ha eq_refl)
      as (Hrun & Hcbs & Hinv1 & Hgr1 & Hpl1 & Hap1 & Hd1 & Hcn1).
    { cbn [reid with_params with_uuid call_api a_in_loop a_params]. intro E.
      rewrite (Hps0 E). unfold ps. rewrite (Hiel E). apply subst_params_nil. }
    { intros _. split; [reflexivity|]. destruct Hctx as (ac & Hac & Huc & _).
      apply (sub_to_ok ns (pa p) (reid u ps0 (call_api il t at_ ins ctx (pa p))) ctx ac cid kl ie eq_refl ltac:(lia) Hac Huc (cx_c0 _ _ _ _ _ _ _ Hcx) Hieo). }
    { cbn [octx_is call_api a_ctx reid with_params with_uuid]. split; [exact Hctx|lia]. }
    { right. lia. }
    { unfold g1, g_step. cbn [call_api a_name a_site a_params reid with_params with_uuid].
      repeat split; reflexivity. }
    set (ns1 := notified TS (reid (ITest (ns_tid ns)) ps (reid u ps0 (call_api il t at_ ins ctx (pa p)))) false (ts_pre_l (pa p) ps ns)) in *.
    set (a1 := reid (ITest (g_tid g)) ps (call_api il t at_ ins ctx (pa p))).
    assert (Hn0' : exists s0, nth_error bd 0 = Some s0) by (destruct bd; [discriminate Hfb|eexists; reflexivity]).
    destruct Hn0' as [s0 Hn0].
    set (bp := body_pos t p) in *.
    assert (Hctx1 : ctx_is ns1 (pa p) (g_tid g)).
    { eexists. split; [rewrite Hap1; apply nth_error_upd_eq; exact Ha|]. split; [reflexivity|]. split; [reflexivity|].
      rewrite (gr_tid _ _ _ Hgr1). unfold g1. cbn [g_tid set]. lia. }
    assert (Etid1 : ns_tid ns <= ns_tid ns1).
    { rewrite (gr_tid _ _ _ Hgr1), (gr_tid _ _ _ Hgr). unfold g1. cbn [g_tid set]. lia. }
    assert (Hctxc1 : ctx_is ns1 ctx cid).
    { apply (ctx_is_same ns ns1 ctx cid Hctx); [rewrite Hap1; apply nth_error_upd_neq; lia|exact Etid1]. }
    assert (Hm1 : Marks ns1 m) by (eapply Marks_places; [exact Hpl1|exact Hm]).
    assert (Hnp' : no_parloop (CbTF (pa p) :: xcbs) = true) by exact Hnp.
    destruct f as [|f']; [discriminate E2|].
    assert (Hc01 : C0 ns1 cid kl) by (apply (C0_same ns ns1 cid kl Hcn1 (cx_c0 _ _ _ _ _ _ _ Hcx))).
    assert (Hcx1 : CX ns1 (pa p) (g_tid g) [] [] rt bp).
    { constructor; [|split; [constructor|reflexivity]|intros key k []].
      unfold C0. rewrite <- (gr_tid _ _ _ Hgr). unfold counters_of. rewrite Hcn1.
      apply (UQ_fresh ns (proj2 (iv_cnt _ Hinv))). }
    destruct (start_block_case f' ltac:(intros f0 Hf0; apply IHf; lia) bd bp (pa p) (g_tid g) [] [] rt (CbTF (pa p) :: xcbs) t2 0 s0 g1 r g2 ns1 m pend
                               E2 Hn0 Hfb Hsokb Hcx1 Hwb Hnp' HP HT Ht2 ltac:(unfold in_tb; cbn [bp body_pos pt]; lia) Hx2 Hinv1 Hgr1 Hctx1
                               ltac:(cbn [bp body_pos pa]; lia) Hm1)
      as (ns2 & m2 & Hen2 & Mk2 & Ai2 & Ao2 & Hres2 & Hact2 & Hc2).
    { intros q Hq. rewrite (Hin q Hq), entries_call, (entries_b_nth0 _ _ _ Hn0). reflexivity. }
    { exact HO. }
    pose proof Hres2 as (Hinv2 & Hgr2 & Hap2 & Haw2 & Hsid2 & Hd2).
    (* the caller's counters are untouched *)
    assert (Hcc2 : C0 ns2 cid kl).
    { apply (C0_frame (pa p) ns1 ns2 ctx cid kl _ _ Hctxc1 (Frame_of_StartRes _ _ _ _ _ _ _ _ _ Hgr1 Hres2)); [cbn [bp body_pos pa]; lia|lia|exact Hc01]. }
    assert (Hapi2 : nth_error (ns_apis ns2) (pa p) = Some a1).
    { rewrite Hap2 by (cbn [bp body_pos pa]; lia). rewrite Hap1. rewrite (nth_error_upd_eq _ _ _ _ _ Ha). reflexivity. }
    assert (Hres12 : StartRes ctx ns ns2 g g2 pend (ids_opt r) p (S (napis_l bd))).
    { split; [exact Hinv2|]. split; [exact Hgr2|].
      split; [intros k Hk; rewrite Hap2 by (cbn [bp body_pos pa]; lia); rewrite Hap1; apply nth_error_upd_neq; lia|].
      split; [rewrite Haw2; reflexivity|]. split.
      { destruct Hsid2 as (S1 & S2 & C2). change (g_sid g1) with (g_sid g) in S1. change (g_tid g1) with (S (g_tid g)) in S2.
        split; [exact S1|]. split; [lia|]. intros k ac Hk Hkc Hka Hta.
        rewrite (C2 k ac); [unfold counters_of; rewrite Hcn1; reflexivity|cbn [bp body_pos pa]; lia|lia| |exact Hta].
        rewrite Hap1, nth_error_upd_neq by lia. exact Hka. }
      destruct Hd2 as (d & Hd & Hk). exists d. split; [rewrite Hd, Hd1; reflexivity|].
      eapply Forall_impl; [|exact Hk]. intros kv (i & E & Hi). exists i. split; [exact E|].
      change (ns_sid ns1) with (ns_sid (ts_pre (pa p) ns)) in Hi. exact Hi. }
    rewrite startcbs_call, (startcbs_b_nth0 _ _ _ _ Hn0).
    destruct r as [[j st0]|]; cbn [is_none mlb actb ids_opt] in *.
    - (* the body waits *)
      mstep. exists ns2, m2. cbn [is_done mlx svc_ids]. cbn [Enters].
      split; [eapply Starts_cons; [exact Hrun|exact Hcbs|reflexivity|exact Hen2]|].
      split; [exact Mk2|]. split; [rewrite ml_call; exact Ai2|]. split; [exact Ao2|]. split; [exact Hres12|].
      split; [|rewrite rch_call; exact Hcc2].
      rewrite act_call. fold bp. split; [|exact Hact2].
      split; [exists il; exact Hapi2|exact Hc2].
    - (* the body is complete: task finished *)
      unfold bind at 1 in H. unfold emit at 1 in H. rewrite emit_gen_eq in H.
      unfold ret in H. injection H as Hs Hg. subst st.
      assert (Hctx2 : ctx_is ns2 ctx cid).
      { apply (ctx_is_start _ _ _ _ _ _ _ _ _ _ _ Hgr Hres12 Hctx). lia. }
      rewrite app_nil_r in Hgr2.
      destruct (sim_fin TF (pa p) a1 (Some cid) false g2 g' ns2 pend pend (or_intror eq_refl) Hinv2 Hgr2 Hapi2)
        as (Hcbs3 & Inv3 & Gr3 & Pl3 & Ap3 & Di3).
      { unfold a1. cbn [octx_is reid with_params with_uuid call_api a_ctx]. split; [exact Hctx2|lia]. }
      { reflexivity. }
      { rewrite <- Hg. unfold g_step, a1. cbn [reid with_params with_uuid call_api a_name a_site a_uuid a_params ident_nat].
        repeat split; reflexivity. }
      set (ns3 := notified TF a1 false ns2) in *.
      assert (Hr3 : RunCb tasks env (CbTF (pa p)) ns2 ns3).
      { pose proof (RunCb_TF (pa p) ns2 a1 (proj1 (iv_ls _ Hinv2)) Hapi2) as Hr.
        unfold a1 in Hr. cbn [reid with_params with_uuid call_api a_name] in Hr. rewrite Hname in Hr. exact Hr. }
      exists ns3, m2. cbn [is_done mlx svc_ids xplace].
      split; [eapply Enters_cons; [exact Hrun|exact Hcbs|reflexivity|]; eapply Enters_cb; [exact Hen2|exact Hr3|exact Hcbs3|reflexivity]|].
      split; [eapply Marks_places; [exact Pl3|exact Mk2]|]. split; [exact Ai2|]. split; [exact Ao2|].
      split; [|split; [exact I|cbn [rch]; unfold ns3; apply (C0_same ns2 _ cid kl (nf_counters _ _ _ _) Hcc2)]].
      destruct Hres12 as (_ & _ & A12 & W12 & (S12 & S12' & C12) & D12).
      split; [exact Inv3|]. split; [rewrite app_nil_r; exact Gr3|]. split; [intros k Hk; rewrite Ap3; apply A12; exact Hk|].
      split; [rewrite <- Hg; exact W12|]. split; [rewrite <- Hg; split; [exact S12|split; [exact S12'|]]|rewrite Di3; exact D12].
      apply (CF_eq_r _ _ ns2 _ _ _ C12). unfold ns3. apply nf_counters.
  Qed.

  Lemma start_list_length : forall fl cid l g sts g',
      start_list orc imm fl cid l g = Ok (sts, g') -> List.length sts = List.length l.
  Proof.
    induction fl as [|f IH]; intros cid l g sts g' H; [discriminate H|]. cbn [start_list] in H.
    destruct l as [|[ie b] r]; [mstep; reflexivity|].
    mstep as st g1 E1. mstep as sts1 g2 E2. mstep. cbn [List.length]. f_equal. eapply IH. exact E2.
  Qed.

  Lemma ids_list_all_done : forall sts, all_done sts = true -> ids_list sts = [].
  Proof.
    induction sts as [|st sr IH]; intro D; [reflexivity|]. cbn [all_done] in D. apply andb_prop in D. destruct D as [D1 D2].
    apply is_done_RDone in D1. subst st. rewrite ids_list_snoc, (IH D2). reflexivity.
  Qed.

  Lemma start_par_case : forall f, (forall f0, f0 < S f -> StartOK f0) ->
      forall bs p ctx cid ie kl rt xcbs t2 g st g' ns m pend,
        start_stmt orc imm (S f) cid ie (XParallel bs) g = Ok (st, g') ->
        frag (XParallel bs) = true -> sok NC rt (XParallel bs) = true -> CX ns ctx cid ie kl rt p ->
        wired N0 (XParallel bs) p ctx xcbs -> no_parloop xcbs = true ->
        pp p + nplaces (XParallel bs) <= nP -> pt p + ntrans (XParallel bs) <= nT ->
        t2 < nT -> ~ in_t (XParallel bs) p t2 -> In (xplace (XParallel bs) p) (preN N0 t2) ->
        Inv ns -> GR g ns pend -> ctx_is ns ctx cid -> ctx < pa p ->
        Marks ns m -> (forall q, in_p (XParallel bs) p q -> cnt m q = cnt (entries (XParallel bs) p) q) ->
        Hout (pp p) (pp p + nplaces (XParallel bs)) (pt p) (pt p + ntrans (XParallel bs)) t2 m ->
        exists ns' m', Enters (startcbs (XParallel bs) p ctx) ns ns' (is_done st) xcbs /\
                       Marks ns' m' /\ agrees_in (pp p) (pp p + nplaces (XParallel bs)) m' (mlx st (XParallel bs) p) /\
                       agrees_out (pp p) (pp p + nplaces (XParallel bs)) m m' /\
                       StartRes ctx ns ns' g g' pend (svc_ids st) p (napis (XParallel bs)) /\
                       (act N0 ns' st (XParallel bs) p ctx ie /\ C0 ns' cid (rch st (XParallel bs) p kl)).
  Proof.
    intros f IHf bs p ctx cid ie kl rt xcbs t2 g st g' ns m pend H Hf Hsok Hcx Hw Hnp HP HT Ht2 Hnt2 Hx2 Hinv Hgr Hctx Hlt Hm Hin HO.
    cbn [sok] in Hsok.
    pose proof (frag_par _ Hf) as [Hne Hfb]. pose proof Hw as Hwall.
    rewrite nplaces_par, ntrans_par, napis_par in *. unfold in_t, in_p in *. rewrite ?nplaces_par, ?ntrans_par in *.
    cbn [xplace] in Hx2. cbn [entries] in Hin.
    cbn [start_stmt] in H. mstep as sts g1 E1.
    cbn [wired] in Hw. destruct Hw as (Hpre & _ & _ & Hwl).
    set (q0 := par_pos p) in *.
    assert (Hq0 : pp q0 = S (pp p) /\ pt q0 = S (pt p) /\ pa q0 = pa p) by (repeat split; reflexivity).
    destruct Hq0 as (Qp & Qt & Qa).
    assert (Hpfin : cnt m (pp p) = 0).
    { rewrite (Hin (pp p) ltac:(lia)). apply not_in_cnt. intro Hi. pose proof (cat_entries_range bs q0 _ Hfb Hi). lia. }
    assert (Houtl : Hout (pp q0) (pp q0 + nplaces_l bs) (pt q0) (pt q0 + ntrans_l bs) (pt p) m).
    { intros j Hj Hnj Hnes. destruct (Nat.eq_dec j t2) as [->|Hn2].
      - exists (pp p). split; [exact Hx2|]. split; [lia|]. apply not_in_cnt. exact Hpfin.
      - destruct (HO j Hj ltac:(lia) Hn2) as (q & Q1 & Q2 & Q3). exists q. split; [exact Q1|]. split; [lia|exact Q3]. }
    assert (Hxs : forall k b, nth_error bs k = Some b -> In (xplace b (bpos bs q0 k)) (preN N0 (pt p))).
    { intros k b Hb. rewrite Hpre. apply in_cat_of. exists k, b. split; [exact Hb|left; reflexivity]. }
    assert (Hcx0 : CX ns ctx cid ie kl rt q0).
    { eapply CX_pos; [exact Hcx|exact (cx_c0 _ _ _ _ _ _ _ Hcx)|]. unfold q0. ple_tac. }
    destruct (start_list_case f ltac:(intros f0 Hf0; apply IHf; lia) bs q0 ctx cid ie kl rt (pt p) true g sts g1 ns m pend E1 Hfb Hsok Hcx0 Hwl
                              ltac:(lia) ltac:(lia) ltac:(lia) ltac:(lia) Hxs Hinv Hgr Hctx
                              ltac:(lia) Hm ltac:(intros x Hx; apply Hin; lia) Houtl ltac:(intro HH; discriminate HH))
      as (ns' & m' & Hen & Mk & Ai & Ao & Hres & Hact & Hc').
    assert (Hnil : is_nil bs = false) by (destruct bs; [congruence|reflexivity]).
    rewrite Hnil in Hen. cbn [negb andb] in Hen. rewrite andb_true_r in Hen.
    assert (Hlen : List.length sts = List.length bs).
    { rewrite (start_list_length _ _ _ _ _ _ E1), map_length. reflexivity. }
    change (startcbs (XParallel bs) p ctx) with (cat_of (fun b q => startcbs b q ctx) bs q0).
    destruct (all_done sts) eqn:Had.
    - (* every branch completed at once: the sync fires *)
      unfold ret in H. injection H as Hs Hg. subst st g1. cbn [is_done mlx svc_ids xplace].
      pose proof Hres as (Inv' & _).
      destruct (par_exit bs p ctx xcbs sts ns' m m' Hfb Hwall Hnp ltac:(lia) ltac:(lia) Hact Had Houtl Hpfin Inv' Mk Ai Ao)
        as (tr & Hms & Mkf & Invf & Aif & Aof). cbv zeta in Hms, Mkf, Invf, Aif, Aof.
      eexists. eexists. split; [|split; [exact Mkf|split; [exact Aif|split; [exact Aof|split; [|split; [exact I|exact Hc']]]]]].
      + destruct Hen as (ms & mm & Hk). exists ms, mm. intros rest K. eapply MS_trans; [apply Hk|apply Hms].
      + rewrite (ids_list_all_done _ Had) in Hres. apply StartRes_fired; [exact Hres|]. rewrite (iv_npl _ Invf), (iv_npl _ Inv'). reflexivity.
    - (* some branch waits *)
      unfold ret in H. injection H as Hs Hg. subst st g1. cbn [is_done mlx svc_ids Enters] in *.
      exists ns', m'. split; [exact Hen|]. split; [exact Mk|].
      split; [|split; [eapply agrees_out_widen; [exact Ao|lia|lia]|split; [exact Hres|]]].
      + rewrite ml_par. fold q0. intros q Hq. destruct (Nat.eq_dec q (pp p)) as [->|Hnq].
        * rewrite (Ao (pp p) ltac:(lia)), Hpfin. symmetry. apply not_in_cnt. intro Hi.
          pose proof (ml_list_range N0 ns' sts bs q0 ctx _ Hfb Hact Hi). lia.
        * apply Ai. lia.
      + split; [apply act_par; split; assumption|rewrite rch_par; exact Hc'].
  Qed.

  (* ---- the decision of a Condition on the reference side ---- *)
  Definition g_same (g g1 : G) : Prop :=
    g_tid g1 = g_tid g /\ g_sid g1 = g_sid g /\ g_ss g1 = g_ss g /\ g_running g1 = g_running g /\
    g_ls g1 = g_ls g /\ g_obs g1 = g_obs g /\ g_awaited g1 = g_awaited g.

  Lemma log_queries_spec : forall vs cid g u g1,
      log_queries vs cid g = Ok (u, g1) ->
      g_log g1 = rev (map (fun v => EQuery v cid) vs) ++ g_log g /\ g_q g1 = g_q g /\ g_same g g1.
  Proof.
    induction vs as [|v vs IH]; intros cid g u g1 H; cbn [log_queries] in H.
    - unfold ret in H. injection H as _ <-. repeat split; reflexivity.
    - unfold bind at 1 in H. unfold log_entry, log_entries in H.
      destruct (IH cid _ u g1 H) as (L & Q & (T1 & T2 & T3 & T4 & T5 & T6 & T7)).
      cbn [g_log g_q g_tid g_sid g_ss g_running g_ls g_obs g_awaited set] in *.
      split; [rewrite L; cbn [map rev app]; rewrite <- app_assoc; reflexivity|]. split; [exact Q|].
      repeat split; assumption.
  Qed.

  Lemma decide_m_spec : forall e cid g b g1,
      decide_m orc e cid g = Ok (b, g1) ->
      exists q', decide expected_ops orc e (g_q g) = Ok (b, q') /\ g_q g1 = q' /\
                 g_log g1 = rev (map (fun v => EQuery v cid) (expr_vars e)) ++ g_log g /\ g_same g g1.
  Proof.
    intros e cid g b g1 H. unfold decide_m in H.
    destruct (decide expected_ops orc e (g_q g)) as [[b0 k']| | |] eqn:E; try discriminate H.
    unfold bind at 1 in H. destruct (log_queries (expr_vars e) cid g) as [[u g2]| | |] eqn:E2; try discriminate H.
    unfold bind, set_q, ret in H. injection H as <- <-.
    destruct (log_queries_spec _ _ _ _ _ E2) as (L & Q & (T1 & T2 & T3 & T4 & T5 & T6 & T7)).
    exists k'. split; [reflexivity|]. split; [reflexivity|]. split; [exact L|]. repeat split; assumption.
  Qed.

  Lemma no_setplace_awaited : forall p aw, existsb (event_eqb (EvSetPlace p)) (map EvF aw) = false.
  Proof. induction aw as [|x r IH]; [reflexivity|]. cbn. exact IH. Qed.

  (* ---- the start of a Condition: the callback decides, puts the token on the decision place and
          evaluates the net from inside; there the first transition of the chosen branch fires,
          the branch starts, and nothing else can fire ---- *)
  (* the block of a Condition or of a loop is complete: the transition that follows it fires,
     its token goes to the place [x] of the enclosing component *)
  Lemma block_exit : forall B cb sb x PL PH xcbs ctx nsa m m',
      frag_block B = true -> wired_block (wired N0) N0 ctx [] B cb ->
      PL + 4 <= pp cb -> pp cb + nplaces_l B <= PH -> PH <= nP -> sb < nT -> PL <= x < PL + 4 ->
      preN N0 sb = [xplace_b B cb] -> postN N0 sb = [x] -> cbsN N0 sb = xcbs -> no_parloop xcbs = true ->
      Hout (pp cb) (pp cb + nplaces_l B) (pt cb) (pt cb + ntrans_b B) sb m ->
      (forall q, PL <= q < PH -> ~ in_pb B cb q -> cnt m q = 0) ->
      Inv nsa -> Marks nsa m' ->
      agrees_in (pp cb) (pp cb + nplaces_l B) m' [xplace_b B cb] ->
      agrees_out (pp cb) (pp cb + nplaces_l B) m m' ->
      exists trs, let ns5 := fire_ns trs nsa in let m5 := x :: outside PL PH m' in
        (forall K, MS (nsa, [] :: K) (ns5, xcbs :: K)) /\ Marks ns5 m5 /\ Inv ns5 /\
        agrees_in PL PH m5 [x] /\ agrees_out PL PH m m5.
  Proof.
    intros B cb sb x PL PH xcbs ctx nsa m m' HfB WB R1 R2 HP HsT Hx Psb Qsb Csb Hnp HoutB Hz Inva Mka Aia Aoa.
    destruct (trans_exists sb HsT) as [trs Htrs]. exists trs. cbv zeta.
    rewrite (nth_error_preN _ _ Htrs) in Psb. rewrite (nth_error_postN _ _ Htrs) in Qsb.
    set (m'' := x :: outside PL PH m').
    pose proof (xplace_range_b B HfB cb) as XB.
    assert (Hm'in : forall q, PL <= q < PH -> cnt m' q = cnt [xplace_b B cb] q).
    { intros q Hq. destruct (inb (pp cb) (pp cb + nplaces_l B) q) eqn:E.
      - apply inb_spec in E. apply Aia. exact E.
      - apply not_true_iff_false in E. rewrite inb_spec in E. rewrite (Aoa q E), (Hz q Hq E). cnt_cases. }
    destruct (Marks_fire nsa m' trs m'' Mka) as [Mkf Hlenf].
    { intros x0 Hx0. rewrite Qsb in Hx0. destruct Hx0 as [<-|[]]. rewrite (iv_npl _ Inva). unfold nP in HP. lia. }
    { intro q. rewrite Psb. destruct (Nat.eq_dec q (xplace_b B cb)) as [->|Hne].
      - rewrite (Aia _ XB). cnt_cases.
      - cnt_cases. }
    { intro q. rewrite Psb, Qsb. unfold m''. rewrite cnt_cons, cnt_outside.
      destruct (inb PL PH q) eqn:E.
      - apply inb_spec in E. rewrite (Hm'in q E). cnt_cases.
      - apply not_true_iff_false in E. rewrite inb_spec in E. cnt_cases. }
    split.
    { intro K. apply (MS_fire1 nsa m' sb trs xcbs K Inva Mka HsT Htrs).
      - intros q Hq. rewrite Psb in Hq. destruct Hq as [<-|[]]. apply cnt_pos_in. rewrite (Aia _ XB). cnt_cases.
      - exact (exited_only_t2_block B cb ctx [] sb m m' HfB WB HoutB Aoa Aia).
      - exact Csb.
      - exact Hnp. }
    split; [exact Mkf|]. split; [apply Inv_fire; [exact Inva|exact Hlenf]|].
    split; [intros q Hq; unfold m''; cnt_cases|].
    intros q Hq. unfold m''. rewrite cnt_cons, cnt_outside.
    destruct (inb PL PH q) eqn:E; [apply inb_spec in E; lia|rewrite (Aoa q ltac:(lia)); cnt_cases].
  Qed.

  Lemma cond_exit : forall B cb sb PL PH xcbs ctx nsa m m',
      frag_block B = true -> wired_block (wired N0) N0 ctx [] B cb ->
      PL + 4 <= pp cb -> pp cb + nplaces_l B <= PH -> PH <= nP -> sb < nT ->
      preN N0 sb = [xplace_b B cb] -> postN N0 sb = [PL + 3] -> cbsN N0 sb = xcbs -> no_parloop xcbs = true ->
      Hout (pp cb) (pp cb + nplaces_l B) (pt cb) (pt cb + ntrans_b B) sb m ->
      (forall q, PL <= q < PH -> ~ in_pb B cb q -> cnt m q = 0) ->
      Inv nsa -> Marks nsa m' ->
      agrees_in (pp cb) (pp cb + nplaces_l B) m' [xplace_b B cb] ->
      agrees_out (pp cb) (pp cb + nplaces_l B) m m' ->
      exists trs, let ns5 := fire_ns trs nsa in let m5 := (PL + 3) :: outside PL PH m' in
        (forall K, MS (nsa, [] :: K) (ns5, xcbs :: K)) /\ Marks ns5 m5 /\ Inv ns5 /\
        agrees_in PL PH m5 [PL + 3] /\ agrees_out PL PH m m5.
  Proof.
    intros B cb sb PL PH xcbs ctx nsa m m' HfB WB R1 R2 HP HsT Psb Qsb Csb Hnp HoutB Hz Inva Mka Aia Aoa.
    apply (block_exit B cb sb (PL + 3) PL PH xcbs ctx nsa m m'); try assumption. lia.
  Qed.


  Lemma start_branch : forall f, (forall f0, f0 < S f -> StartOK f0) ->
      forall cbk ep pb xs scbs B cb fb sb PL PH TL TH AL AH ctx cid ie kl rt t2 s1 g g1 r g' ns m pend,
        PL <= ep < PL + 3 -> PL <= pb < PL + 3 -> ep <> pb -> PL <= xs < PL + 4 ->
        frag_block B = true -> sok_block NC rt B = true -> wired_block (wired N0) N0 ctx [] B cb ->
        PL + 4 <= pp cb -> pp cb + nplaces_l B <= PH -> TL + 3 <= pt cb -> pt cb + ntrans_b B <= TH ->
        AL <= pa cb -> pa cb + napis_l B <= AH ->
        TL <= fb < TL + 2 -> TL + 2 <= sb < TH -> ~ in_tb B cb sb ->
        preN N0 fb = [ep; pb] -> postN N0 fb = entries_b B cb -> cbsN N0 fb = startcbs_b B cb ctx ->
        preN N0 sb = [xplace_b B cb] -> postN N0 sb = [xs] -> cbsN N0 sb = scbs -> no_parloop scbs = true ->
        is_parloop_cb cbk = false ->
        (forall j, TL <= j < TH -> ~ in_tb B cb j -> j <> sb -> j <> fb ->
                   exists q, In q (preN N0 j) /\ PL <= q < PH /\ ~ in_pb B cb q /\ q <> pb /\ q <> ep) ->
        PH <= nP -> TH <= nT -> t2 < nT -> ~ (TL <= t2 < TH) -> In (PL + 3) (preN N0 t2) ->
        Inv ns -> GR g ns pend ->
        ctx_is ns ctx cid -> ctx < AL ->
        Marks ns m -> (forall q, PL <= q < PH -> cnt m q = cnt [ep] q) ->
        Hout PL PH TL TH t2 m ->
        Inv s1 -> GR g1 s1 pend -> CX s1 ctx cid ie kl rt cb ->
        ns_places s1 = ns_places ns -> ns_apis s1 = ns_apis ns -> ns_place_dict s1 = ns_place_dict ns ->
        ns_sid s1 = ns_sid ns -> ns_cbs s1 = ns_cbs ns -> ns_tid s1 = ns_tid ns -> CF ctx ns s1 AL AH ->
        (forall s', EvalTo tasks env (placed pb s1) s' -> RunCb tasks env cbk ns s') ->
        g_same g g1 ->
        run_block orc imm f cid ie B 0 g1 = Ok (r, g') ->
        exists ns' m',
          match r with
          | Some _ => Starts [cbk] ns ns'
          | None => exists ms mm, forall rest K, MS (ns, (cbk :: rest) :: K) (ns', scbs :: UnwE ms ((marks mm ++ rest) :: K))
          end /\
          Marks ns' m' /\
          agrees_in PL PH m' (match r with None => [xs] | Some (j, st0) => ml_block B cb j st0 end) /\
          agrees_out PL PH m m' /\
          Inv ns' /\ GR g' ns' (pend ++ ids_opt r) /\
          (forall k, ~ (AL <= k < AH) -> nth_error (ns_apis ns') k = nth_error (ns_apis ns) k) /\
          g_awaited g' = g_awaited g ++ ids_opt r /\ (g_sid g <= g_sid g' /\ g_tid g <= g_tid g' /\ CF ctx ns ns' AL AH) /\
          (exists d, ns_place_dict ns' = d ++ ns_place_dict ns /\
                     Forall (fun kv => exists i, fst kv = ITest i /\ ns_sid ns <= i) d) /\
          (actb ns' B cb ctx r ie /\ C0 ns' cid (rchb B cb r kl)).
  Proof.
    intros f IHf cbk ep pb xs scbs B cb fb sb PL PH TL TH AL AH ctx cid ie kl rt t2 s1 g g1 r g' ns m pend Hep Hpb Hepb Hxs
           HfB HsokB WB R1 R2 R3 R4 R5 R6 Hfb Hsb Hnsb Pfb Qfb Cfb Psb Qsb Csb Hnp Hcbk Hoth HP HT Ht2 Hnt2 Hx2
           Hinv Hgr Hctx Hlt Hm Hin HO Inv1 Gr1 Hcx1 Epl Eap Edi Esid Ecb Etid Hcf1 Hopen (T1 & T2 & T3 & T4 & T5 & T6 & T7) E2.
    pose proof Hctx as (ac & Hac & Huc & Htk & Hcl).
    assert (Hlenp : pb < List.length (ns_places s1)).
    { rewrite Epl, (iv_npl _ Hinv). fold nP. lia. }
    assert (Mk1 : Marks s1 m) by (eapply Marks_places; [exact Epl|exact Hm]).
    assert (Mk2 : Marks (placed pb s1) (pb :: m)) by (apply Marks_placed; assumption).
    set (s2 := placed pb s1) in *.
    assert (Inv2 : Inv s2).
    { destruct Inv1 as [I1 I2 I3 I4 I5 I6 I7 I8 I9 I10 I11]. constructor; try assumption.
      unfold s2, placed. cbn [ns_places set]. rewrite upd_length. exact I8. }
    assert (Gr2 : GR g1 s2 pend) by (destruct Gr1; constructor; assumption).
    (* the callback opens an evaluation in s2 *)
    assert (Hpush : forall rest K, MS (ns, (cbk :: rest) :: K) (s2, [] :: rest :: K)).
    { intros rest K. apply MS_push; [exact Ecb|exact Hcbk|]. intros s' Hev. apply (Hopen s' Hev). }
    (* the first transition of the chosen branch *)
    assert (HfbT : fb < nT) by lia.
    destruct (trans_exists fb HfbT) as [trf Htrf].
    rewrite (nth_error_preN _ _ Htrf) in Pfb. rewrite (nth_error_postN _ _ Htrf) in Qfb.
    set (nsf := fire_ns trf s2).
    pose proof (fire_len s2 (pb :: m) trf Mk2) as Hlenf. fold nsf in Hlenf.
    pose proof (Inv_fire s2 trf Inv2 Hlenf) as Invf. pose proof (GR_fire _ _ _ trf Gr2) as Grf. fold nsf in Invf, Grf.
    assert (Hn0' : exists s0, nth_error B 0 = Some s0) by (destruct B; [discriminate HfB|eexists; reflexivity]).
    destruct Hn0' as [s0 Hn0].
    pose proof (frag_block_nth _ _ _ HfB Hn0) as Hf0.
    pose proof (spos_range B cb 0 s0 Hn0) as R0. set (p0' := spos B cb 0) in *.
    rewrite (entries_b_nth0 _ _ _ Hn0) in Qfb. rewrite (startcbs_b_nth0 _ _ _ _ Hn0) in Cfb. fold p0' in Qfb, Cfb.
    assert (Hent : forall q, In q (entries s0 p0') -> in_p s0 p0' q) by (intros q Hq; apply (entries_range s0 Hf0 p0' q Hq)).
    (* the marking after that transition *)
    set (m3 := entries s0 p0' ++ outside PL PH m).
    destruct (Marks_fire s2 (pb :: m) trf m3 Mk2) as [Mkf _].
    { intros x Hx. rewrite Qfb in Hx. apply Hent in Hx. unfold in_p in Hx. rewrite (iv_npl _ Inv2). fold nP. lia. }
    { intro q. rewrite Pfb. rewrite !cnt_cons, cnt_nil.
      destruct (Nat.lt_ge_cases q PL) as [A|A]; [|destruct (Nat.lt_ge_cases q PH) as [B0|B0]].
      - cnt_cases.
      - rewrite (Hin q ltac:(lia)). cnt_cases.
      - cnt_cases. }
    { intro q. rewrite Pfb, Qfb. unfold m3. rewrite cnt_app, cnt_outside, !cnt_cons, cnt_nil.
      destruct (inb PL PH q) eqn:Eq.
      - apply inb_spec in Eq. rewrite (Hin q Eq). cnt_cases.
      - apply not_true_iff_false in Eq. rewrite inb_spec in Eq.
        assert (cnt (entries s0 p0') q = 0) by (apply not_in_cnt; intro Hi; apply Hent in Hi; unfold in_p in Hi; lia).
        cnt_cases. }
    fold nsf in Mkf.
    assert (Hm3_in : forall q, PL <= q < PH -> cnt m3 q = cnt (entries s0 p0') q).
    { intros q Hq. unfold m3. rewrite cnt_app, cnt_outside. rewrite (proj2 (inb_spec PL PH q) Hq). lia. }
    assert (Hm3_out : forall q, ~ (PL <= q < PH) -> cnt m3 q = cnt m q).
    { intros q Hq. unfold m3. rewrite cnt_app, cnt_outside.
      assert (cnt (entries s0 p0') q = 0) by (apply not_in_cnt; intro Hi; apply Hent in Hi; unfold in_p in Hi; lia).
      destruct (inb PL PH q) eqn:Eq; [apply inb_spec in Eq; lia|lia]. }
    assert (Hz3 : forall q, PL <= q < PH -> ~ in_pb B cb q -> cnt m3 q = 0).
    { intros q Hq Hnq. rewrite (Hm3_in q Hq). apply not_in_cnt. intro Hi. apply Hent in Hi. apply Hnq. unfold in_p, in_pb in *. lia. }
    (* around the chosen branch everything is blocked *)
    assert (HoutB : Hout (pp cb) (pp cb + nplaces_l B) (pt cb) (pt cb + ntrans_b B) sb m3).
    { intros j Hj Hnj Hne.
      destruct (Nat.lt_ge_cases j TL) as [A|A]; [|destruct (Nat.lt_ge_cases j TH) as [B0|B0]].
      - destruct (Nat.eq_dec j t2) as [->|Hn2].
        + exists (PL + 3). split; [exact Hx2|]. split; [lia|]. apply not_in_cnt. apply Hz3; [lia|unfold in_pb; lia].
        + destruct (HO j Hj ltac:(lia) Hn2) as (q & Q1 & Q2 & Q3). exists q. split; [exact Q1|]. split; [lia|].
          apply not_in_cnt. rewrite (Hm3_out q Q2). apply not_in_cnt. exact Q3.
      - destruct (Nat.eq_dec j fb) as [->|Hnf].
        + exists ep. rewrite (nth_error_preN _ _ Htrf), Pfb. split; [left; reflexivity|]. split; [lia|].
          apply not_in_cnt. apply Hz3; [lia|unfold in_pb; lia].
        + destruct (Hoth j ltac:(lia) ltac:(unfold in_tb; lia) Hne Hnf) as (q & Q1 & Q2 & Q3 & Q4 & Q5).
          exists q. split; [exact Q1|]. unfold in_pb in Q3. split; [lia|]. apply not_in_cnt. apply Hz3; assumption.
      - destruct (Nat.eq_dec j t2) as [->|Hn2].
        + exists (PL + 3). split; [exact Hx2|]. split; [lia|]. apply not_in_cnt. apply Hz3; [lia|unfold in_pb; lia].
        + destruct (HO j Hj ltac:(lia) Hn2) as (q & Q1 & Q2 & Q3). exists q. split; [exact Q1|]. split; [lia|].
          apply not_in_cnt. rewrite (Hm3_out q Q2). apply not_in_cnt. exact Q3. }
    (* that transition is the only one that can fire *)
    assert (Hfire : forall K, MS (s2, [] :: K) (nsf, startcbs s0 p0' ctx :: K)).
    { intro K. apply (MS_fire1 s2 (pb :: m) fb trf _ K Inv2 Mk2 HfbT Htrf).
      - intros q Hq. rewrite Pfb in Hq. destruct Hq as [<-|[<-|[]]]; [right|left; reflexivity].
        apply cnt_pos_in. rewrite (Hin ep ltac:(lia)). cnt_cases.
      - intros j Hj Hne.
        assert (Hpbm : forall q, PL <= q < PH -> q <> pb -> q <> ep -> ~ In q (pb :: m)).
        { intros q Hq N1 N2 [E0|Hi]; [congruence|]. apply cnt_pos_in in Hi. rewrite (Hin q Hq) in Hi. revert Hi. cnt_cases. }
        destruct (Nat.lt_ge_cases j TL) as [A|A]; [|destruct (Nat.lt_ge_cases j TH) as [B0|B0]].
        + destruct (Nat.eq_dec j t2) as [->|Hn2].
          * exists (PL + 3). split; [exact Hx2|]. apply Hpbm; lia.
          * destruct (HO j Hj ltac:(lia) Hn2) as (q & Q1 & Q2 & Q3). exists q. split; [exact Q1|].
            intros [E0|Hi]; [lia|contradiction].
        + destruct (Nat.eq_dec j sb) as [->|Hns].
          * exists (xplace_b B cb). rewrite Psb. split; [left; reflexivity|].
            pose proof (xplace_range_b B HfB cb). apply Hpbm; lia.
          * destruct (Nat.lt_ge_cases j (pt cb)) as [C|C]; [|destruct (Nat.lt_ge_cases j (pt cb + ntrans_b B)) as [D|D]].
            -- destruct (Hoth j ltac:(lia) ltac:(unfold in_tb; lia) Hns Hne) as (q & Q1 & Q2 & Q3 & Q4 & Q5).
               exists q. split; [exact Q1|]. apply Hpbm; assumption.
            -- destruct (exit_blocked_block N0 B cb ctx [] HfB WB j ltac:(unfold in_tb; lia)) as (q & Q1 & Q2 & _).
               exists q. split; [exact Q1|]. unfold in_pb in Q2. apply Hpbm; lia.
            -- destruct (Hoth j ltac:(lia) ltac:(unfold in_tb; lia) Hns Hne) as (q & Q1 & Q2 & Q3 & Q4 & Q5).
               exists q. split; [exact Q1|]. apply Hpbm; assumption.
        + destruct (Nat.eq_dec j t2) as [->|Hn2].
          * exists (PL + 3). split; [exact Hx2|]. apply Hpbm; lia.
          * destruct (HO j Hj ltac:(lia) Hn2) as (q & Q1 & Q2 & Q3). exists q. split; [exact Q1|].
            intros [E0|Hi]; [lia|contradiction].
      - exact Cfb.
      - apply no_parloop_startcbs. }
    (* the branch starts *)
    assert (Hctxf : ctx_is nsf ctx cid).
    { apply (ctx_is_same ns nsf ctx cid Hctx); [change (ns_apis nsf) with (ns_apis s1); rewrite Eap; reflexivity|].
      change (ns_tid nsf) with (ns_tid s1). rewrite Etid. apply Nat.le_refl. }
    assert (Hcxf : CX nsf ctx cid ie kl rt cb) by (destruct Hcx1 as [X1 X2 X3]; constructor; [exact X1|exact X2|exact X3]).
    destruct f as [|f']; [discriminate E2|].
    destruct (start_block_case f' ltac:(intros f0 Hlef0; apply IHf; lia) B cb ctx cid ie kl rt [] sb 0 s0 g1 r g' nsf m3 pend E2 Hn0 HfB HsokB Hcxf WB eq_refl
                               ltac:(lia) ltac:(lia) ltac:(lia) Hnsb ltac:(rewrite Psb; left; reflexivity) Invf Grf Hctxf
                               ltac:(lia) Mkf)
      as (ns4 & m4 & Hen4 & Mk4 & Ai4 & Ao4 & Hres4 & Hact4 & Hc4).
    { intros q Hq. fold p0'. apply Hm3_in. unfold in_pb in Hq. lia. }
    { exact HoutB. }
    fold p0' in Hen4.
    pose proof Hres4 as (Inv4 & Gr4 & Ap4 & Aw4 & Sid4 & Di4).
    assert (Sid4' : g_sid g <= g_sid g' /\ g_tid g <= g_tid g' /\ CF ctx ns ns4 AL AH).
    { destruct Sid4 as (S1 & S2 & C4). rewrite T2 in S1. rewrite T1 in S2. split; [exact S1|]. split; [exact S2|].
      intros k ac0 Hk Hkc Hka Hta. rewrite (C4 k ac0); [apply (Hcf1 k ac0 Hk Hkc Hka Hta)|lia|exact Hkc| |exact Hta].
      change (ns_apis nsf) with (ns_apis s1). rewrite Eap. exact Hka. }
    change (ns_apis nsf) with (ns_apis s1) in Ap4. rewrite Eap in Ap4.
    change (ns_place_dict nsf) with (ns_place_dict s1) in Di4. change (ns_sid nsf) with (ns_sid s1) in Di4. rewrite Edi, Esid in Di4.
    assert (Hgo : forall rest K, MS (ns, ([cbk] ++ rest) :: K) (nsf, startcbs s0 p0' ctx :: UnwE [] ((marks 0 ++ rest) :: K))).
    { intros rest K. cbn [app]. eapply MS_trans; [apply Hpush|]. apply Hfire. }
    assert (Hd4 : is_none r = false -> dead ns4).
    { intro Hr. destruct r as [[j st0]|]; [|discriminate Hr]. cbn [actb] in Hact4. apply (dis_dead ns4 m4 Inv4 Mk4).
      apply (block_dis B cb ctx [] sb j st0 ns4 m3 m4 HfB WB ltac:(rewrite Psb; left; reflexivity) HoutB Ao4 Ai4 Hact4). }
    pose proof (Enters_after (is_none r) [cbk] _ ns nsf ns4 [] 0 [] Hgo Hen4 Inv4 Hd4) as HenF.
    change (0 + sumn []) with 0 in HenF. rewrite Mach.bumpn_0 in HenF.
    destruct r as [[j st0]|]; cbn [is_none mlb actb ids_opt Enters] in *.
    - (* the branch waits: the evaluation that the callback opened ends *)
      exists ns4, m4. split; [exact HenF|].
      split; [exact Mk4|]. split.
      { eapply (agrees_in_widen (pp cb) (pp cb + nplaces_l B) PL PH m3 m4); [exact Ai4|exact Ao4|lia|lia|].
        intros q Hq Hnq. split; [apply Hz3; [exact Hq|exact Hnq]|].
        apply not_in_cnt. intro Hi. destruct (ml_range_block N0 ns4 B cb ctx j st0 HfB Hact4 q Hi) as (Hr & _). apply Hnq. exact Hr. }
      split; [intros q Hq; rewrite (Ao4 q ltac:(lia)); apply Hm3_out; exact Hq|].
      split; [exact Inv4|]. split; [exact Gr4|].
      split; [intros k Hk; rewrite Ap4 by lia; reflexivity|].
      split; [rewrite Aw4, T7; reflexivity|]. split; [exact Sid4'|].
      split; [exact Di4|split; [exact Hact4|exact Hc4]].
    - (* the branch is complete: its second transition fires *)
      destruct (block_exit B cb sb xs PL PH scbs ctx ns4 m3 m4 HfB WB R1 R2 HP ltac:(lia) Hxs Psb Qsb Csb Hnp HoutB Hz3 Inv4 Mk4 Ai4 Ao4)
        as (trs & Hms & Mk5 & Inv5 & Ai5 & Ao5). cbv zeta in Hms, Mk5, Inv5, Ai5, Ao5.
      eexists. eexists. split.
      { destruct HenF as (ms & mm & Hk). exists ms, mm. intros rest K. eapply MS_trans; [apply (Hk rest K)|]. apply Hms. }
      split; [exact Mk5|]. split; [exact Ai5|].
      split; [intros q Hq; rewrite (Ao5 q Hq); apply Hm3_out; exact Hq|].
      split; [exact Inv5|]. split; [apply GR_fire; exact Gr4|].
      split; [intros k Hk; change (ns_apis (fire_ns trs ns4)) with (ns_apis ns4); rewrite Ap4 by lia; reflexivity|].
      split; [rewrite Aw4, T7; reflexivity|]. split; [exact Sid4'|].
      split; [exact Di4|split; [exact I|exact Hc4]].
  Qed.

  Lemma cond_pre_ok : forall e cid q' g g1 ns pend ac,
      Inv ns -> GR g ns pend -> a_uuid ac = ITest cid ->
      g_q g1 = q' -> g_log g1 = rev (map (fun v => EQuery v cid) (expr_vars e)) ++ g_log g -> g_same g g1 ->
      Inv (cond_pre e (ident_nat (a_uuid ac)) q' ns) /\ GR g1 (cond_pre e (ident_nat (a_uuid ac)) q' ns) pend.
  Proof.
    intros e cid q' g g1 ns pend ac Hinv Hgr Huc Hq1 Hlog1 (T1 & T2 & T3 & T4 & T5 & T6 & T7).
    set (s1 := cond_pre e (ident_nat (a_uuid ac)) q' ns).
    split; [destruct Hinv as [I1 I2 I3 I4 I5 I6 I7 I8 I9 I10 I11]; constructor; assumption|].
    destruct Hgr as [G1 G2 G3 G4 G5 G6 G7 G8 G9 G10]. constructor.
    - change (ns_tid s1) with (ns_tid ns). congruence.
    - change (ns_sid s1) with (ns_sid ns). congruence.
    - change (ns_nss s1) with (ns_nss ns). congruence.
    - change (ns_running s1) with (ns_running ns). congruence.
    - change (ns_log s1) with (rev (map (fun v => EQuery v (ident_nat (a_uuid ac))) (expr_vars e)) ++ ns_log ns).
      rewrite Hlog1, G5, Huc. reflexivity.
    - change (ns_ls s1) with (ns_ls ns). congruence.
    - change (ns_obs s1) with (ns_obs ns). congruence.
    - change (ns_awaited s1) with (ns_awaited ns). congruence.
    - change (ns_pending s1) with (ns_pending ns). exact G9.
    - change (ns_q s1) with q'. congruence.
  Qed.

  Lemma start_cond_branch : forall f, (forall f0, f0 < S f -> StartOK f0) ->
      forall e (b : bool) B cb fb sb PL PH TL TH AL AH ctx cid ie kl rt xcbs t2 q' g g1 r g' ns m pend,
        let pb := if b then PL else PL + 1 in
        frag_block B = true -> sok_block NC rt B = true -> CX ns ctx cid ie kl rt cb -> wired_block (wired N0) N0 ctx [] B cb ->
        PL + 4 <= pp cb -> pp cb + nplaces_l B <= PH -> TL + 3 <= pt cb -> pt cb + ntrans_b B <= TH ->
        AL <= pa cb -> pa cb + napis_l B <= AH ->
        TL <= fb < TL + 2 -> TL + 2 <= sb < TH -> ~ in_tb B cb sb ->
        preN N0 fb = [PL + 2; pb] -> postN N0 fb = entries_b B cb -> cbsN N0 fb = startcbs_b B cb ctx ->
        preN N0 sb = [xplace_b B cb] -> postN N0 sb = [PL + 3] -> cbsN N0 sb = xcbs -> no_parloop xcbs = true ->
        (forall j, TL <= j < TH -> ~ in_tb B cb j -> j <> sb -> j <> fb ->
                   exists q, In q (preN N0 j) /\ PL <= q < PH /\ ~ in_pb B cb q /\ q <> pb /\ q <> PL + 2) ->
        PH <= nP -> TH <= nT -> t2 < nT -> ~ (TL <= t2 < TH) -> In (PL + 3) (preN N0 t2) ->
        Inv ns -> GR g ns pend ->
        ctx_is ns ctx cid -> ctx < AL ->
        Marks ns m -> (forall q, PL <= q < PH -> cnt m q = cnt [PL + 2] q) ->
        Hout PL PH TL TH t2 m ->
        decide expected_ops orc e (g_q g) = Ok (b, q') -> g_q g1 = q' ->
        g_log g1 = rev (map (fun v => EQuery v cid) (expr_vars e)) ++ g_log g -> g_same g g1 ->
        run_block orc imm f cid ie B 0 g1 = Ok (r, g') ->
        exists ns' m',
          Enters [CbCond e PL (PL + 1) ctx] ns ns' (is_none r) xcbs /\
          Marks ns' m' /\
          agrees_in PL PH m' (match r with None => [PL + 3] | Some (j, st0) => ml_block B cb j st0 end) /\
          agrees_out PL PH m m' /\
          Inv ns' /\ GR g' ns' (pend ++ ids_opt r) /\
          (forall k, ~ (AL <= k < AH) -> nth_error (ns_apis ns') k = nth_error (ns_apis ns) k) /\
          g_awaited g' = g_awaited g ++ ids_opt r /\ (g_sid g <= g_sid g' /\ g_tid g <= g_tid g' /\ CF ctx ns ns' AL AH) /\
          (exists d, ns_place_dict ns' = d ++ ns_place_dict ns /\
                     Forall (fun kv => exists i, fst kv = ITest i /\ ns_sid ns <= i) d) /\
          (actb ns' B cb ctx r ie /\ C0 ns' cid (rchb B cb r kl)).
  Proof.
    intros f IHf e b B cb fb sb PL PH TL TH AL AH ctx cid ie kl rt xcbs t2 q' g g1 r g' ns m pend pb
           HfB HsokB Hcx WB R1 R2 R3 R4 R5 R6 Hfb Hsb Hnsb Pfb Qfb Cfb Psb Qsb Csb Hnp Hoth HP HT Ht2 Hnt2 Hx2
           Hinv Hgr Hctx Hlt Hm Hin HO Hdec Hq1 Hlog1 Hsame E2.
    assert (Hpb : PL <= pb < PL + 2) by (unfold pb; destruct b; lia).
    pose proof Hctx as (ac & Hac & Huc & Htk & Hcl).
    destruct (cond_pre_ok e cid q' g g1 ns pend ac Hinv Hgr Huc Hq1 Hlog1 Hsame) as [Inv1 Gr1].
    assert (Hopen : forall s',
                       EvalTo tasks env (placed pb (cond_pre e (ident_nat (a_uuid ac)) q' ns)) s' ->
                       RunCb tasks env (CbCond e PL (PL + 1) ctx) ns s').
    { intros s' Hev. apply (RunCb_Cond tasks env e PL (PL + 1) ctx ns ac b q' s' Hac).
      - rewrite Horc, (gr_q _ _ _ Hgr). exact Hdec.
      - rewrite (gr_aw _ _ _ Hgr). apply no_setplace_awaited.
      - fold pb. apply (Marks_has_place ns m pb Hinv Hm). lia.
      - fold pb. exact Hev. }
    assert (Hcx1 : CX (cond_pre e (ident_nat (a_uuid ac)) q' ns) ctx cid ie kl rt cb).
    { destruct Hcx as [X1 X2 X3]. constructor; [exact X1|exact X2|exact X3]. }
    destruct (start_branch f IHf (CbCond e PL (PL + 1) ctx) (PL + 2) pb (PL + 3) xcbs B cb fb sb PL PH TL TH AL AH ctx cid ie kl rt t2
                           (cond_pre e (ident_nat (a_uuid ac)) q' ns) g g1 r g' ns m pend
                           ltac:(lia) ltac:(lia) ltac:(lia) ltac:(lia) HfB HsokB WB R1 R2 R3 R4 R5 R6 Hfb Hsb Hnsb Pfb Qfb Cfb Psb Qsb Csb Hnp eq_refl Hoth
                           HP HT Ht2 Hnt2 Hx2 Hinv Hgr Hctx Hlt Hm Hin HO Inv1 Gr1 Hcx1 eq_refl eq_refl eq_refl eq_refl eq_refl eq_refl (CF_same _ _ _ _ _ eq_refl) Hopen Hsame E2)
      as (ns' & m' & Hen & Rest).
    exists ns', m'. split; [|exact Rest]. destruct r as [[j st0]|]; exact Hen.
  Qed.

  (* a Condition without a Failed block whose test fails: the first-failed transition leads
     to the 'finished' place at once, inside the evaluation that the callback opens *)
  Lemma start_cond_empty : forall e P p ctx cid xcbs t2 q' g g1 ns m pend,
      frag_block P = true -> wired N0 (XCond e P []) p ctx xcbs -> no_parloop xcbs = true ->
      pp p + (4 + nplaces_l P) <= nP -> pt p + (3 + ntrans_b P) <= nT ->
      t2 < nT -> ~ (pt p <= t2 < pt p + (3 + ntrans_b P)) -> In (pp p + 3) (preN N0 t2) ->
      Inv ns -> GR g ns pend -> ctx_is ns ctx cid ->
      Marks ns m -> (forall q, pp p <= q < pp p + (4 + nplaces_l P) -> cnt m q = cnt [pp p + 2] q) ->
      Hout (pp p) (pp p + (4 + nplaces_l P)) (pt p) (pt p + (3 + ntrans_b P)) t2 m ->
      decide expected_ops orc e (g_q g) = Ok (false, q') -> g_q g1 = q' ->
      g_log g1 = rev (map (fun v => EQuery v cid) (expr_vars e)) ++ g_log g -> g_same g g1 ->
      exists ns' m',
        Enters [CbCond e (pp p) (pp p + 1) ctx] ns ns' true xcbs /\ Marks ns' m' /\
        agrees_in (pp p) (pp p + (4 + nplaces_l P)) m' [pp p + 3] /\
        agrees_out (pp p) (pp p + (4 + nplaces_l P)) m m' /\
        Inv ns' /\ GR g1 ns' pend /\ ns_apis ns' = ns_apis ns /\ ns_place_dict ns' = ns_place_dict ns /\
        ns_sid ns' = ns_sid ns /\ ns_counters ns' = ns_counters ns.
  Proof.
    intros e P p ctx cid xcbs t2 q' g g1 ns m pend HfP Hw Hnp HP HT Ht2 Hnt2 Hx2 Hinv Hgr Hctx Hm Hin HO Hdec Hq1 Hlog1
           (T1 & T2 & T3 & T4 & T5 & T6 & T7).
    cbn [wired] in Hw. destruct Hw as (W1 & W2 & W3 & W4 & W5 & W6 & W7 & W8 & W9 & WP).
    set (PL := pp p) in *. set (PH := pp p + (4 + nplaces_l P)) in *.
    pose proof Hctx as (ac & Hac & Huc & Htk & Hcl).
    set (s1 := cond_pre e (ident_nat (a_uuid ac)) q' ns).
    assert (Inv1 : Inv s1) by (destruct Hinv as [I1 I2 I3 I4 I5 I6 I7 I8 I9 I10 I11]; constructor; assumption).
    assert (Gr1 : GR g1 s1 pend).
    { destruct Hgr as [G1 G2 G3 G4 G5 G6 G7 G8 G9 G10]. constructor.
      - change (ns_tid s1) with (ns_tid ns). congruence.
      - change (ns_sid s1) with (ns_sid ns). congruence.
      - change (ns_nss s1) with (ns_nss ns). congruence.
      - change (ns_running s1) with (ns_running ns). congruence.
      - change (ns_log s1) with (rev (map (fun v => EQuery v (ident_nat (a_uuid ac))) (expr_vars e)) ++ ns_log ns).
        rewrite Hlog1, G5, Huc. reflexivity.
      - change (ns_ls s1) with (ns_ls ns). congruence.
      - change (ns_obs s1) with (ns_obs ns). congruence.
      - change (ns_awaited s1) with (ns_awaited ns). congruence.
      - change (ns_pending s1) with (ns_pending ns). exact G9.
      - change (ns_q s1) with q'. congruence. }
    set (pb := PL + 1).
    assert (Hlenp : pb < List.length (ns_places s1)).
    { change (ns_places s1) with (ns_places ns). rewrite (iv_npl _ Hinv). fold nP. unfold pb, PL. lia. }
    assert (Mk1 : Marks s1 m) by exact Hm.
    assert (Mk2 : Marks (placed pb s1) (pb :: m)) by (apply Marks_placed; assumption).
    set (s2 := placed pb s1) in *.
    assert (Inv2 : Inv s2).
    { destruct Inv1 as [I1 I2 I3 I4 I5 I6 I7 I8 I9 I10 I11]. constructor; try assumption.
      unfold s2, placed. cbn [ns_places set]. rewrite upd_length. exact I8. }
    assert (Gr2 : GR g1 s2 pend) by (destruct Gr1; constructor; assumption).
    assert (Hpush : forall rest K, MS (ns, (CbCond e PL (PL + 1) ctx :: rest) :: K) (s2, [] :: rest :: K)).
    { intros rest K. apply MS_push; [reflexivity|reflexivity|]. intros s' Hev.
      apply (RunCb_Cond tasks env e PL (PL + 1) ctx ns ac false q' s' Hac).
      - rewrite Horc, (gr_q _ _ _ Hgr). exact Hdec.
      - rewrite (gr_aw _ _ _ Hgr). apply no_setplace_awaited.
      - fold pb. unfold has_place. destruct (proj1 Hm pb) as [k0 Hk0]; [change (ns_places s1) with (ns_places ns) in Hlenp; exact Hlenp|].
        rewrite Hk0. reflexivity.
      - fold pb. exact Hev. }
    (* the first-failed transition *)
    assert (HffT : pt p + 1 < nT) by lia.
    destruct (trans_exists (pt p + 1) HffT) as [trf Htrf].
    rewrite (nth_error_preN _ _ Htrf) in W4. rewrite (nth_error_postN _ _ Htrf) in W5.
    set (nsf := fire_ns trf s2).
    pose proof (fire_len s2 (pb :: m) trf Mk2) as Hlenf. fold nsf in Hlenf.
    pose proof (Inv_fire s2 trf Inv2 Hlenf) as Invf. pose proof (GR_fire _ _ _ trf Gr2) as Grf. fold nsf in Invf, Grf.
    set (m3 := (PL + 3) :: outside PL PH m).
    destruct (Marks_fire s2 (pb :: m) trf m3 Mk2) as [Mkf _].
    { intros x Hx. rewrite W5 in Hx. destruct Hx as [<-|[]]. rewrite (iv_npl _ Inv2). fold nP. unfold PL. lia. }
    { intro q. rewrite W4. fold PL. fold pb. rewrite !cnt_cons, cnt_nil.
      destruct (Nat.lt_ge_cases q PL) as [A|A]; [|destruct (Nat.lt_ge_cases q PH) as [B0|B0]].
      - unfold pb. cnt_cases.
      - rewrite (Hin q ltac:(lia)). unfold pb. cnt_cases.
      - unfold pb, PH, PL in *. cnt_cases. }
    { intro q. rewrite W4, W5. fold PL. fold pb. unfold m3. rewrite ?cnt_cons, ?cnt_outside, ?cnt_nil.
      destruct (inb PL PH q) eqn:Eq.
      - apply inb_spec in Eq. rewrite (Hin q Eq). unfold pb. cnt_cases.
      - apply not_true_iff_false in Eq. rewrite inb_spec in Eq. unfold pb, PH, PL in *. cnt_cases. }
    fold nsf in Mkf.
    pose proof (xplace_range_b P HfP (cond_p p)) as XP. cbn [cond_p pp] in XP. fold PL in XP.
    assert (Hpbm : forall q, PL <= q < PH -> q <> pb -> q <> PL + 2 -> ~ In q (pb :: m)).
    { intros q Hq N1 N2 [E0|Hi]; [congruence|]. apply cnt_pos_in in Hi. rewrite (Hin q Hq) in Hi. revert Hi. cnt_cases. }
    assert (Hfire : forall K, MS (s2, [] :: K) (nsf, xcbs :: K)).
    { intro K. apply (MS_fire1 s2 (pb :: m) (pt p + 1) trf xcbs K Inv2 Mk2 HffT Htrf).
      - intros q Hq. rewrite W4 in Hq. fold PL in Hq. fold pb in Hq. destruct Hq as [<-|[<-|[]]]; [right|left; reflexivity].
        apply cnt_pos_in. rewrite (Hin (PL + 2) ltac:(unfold PH, PL; lia)). cnt_cases.
      - intros j Hj Hne.
        destruct (Nat.lt_ge_cases j (pt p)) as [A|A]; [|destruct (Nat.lt_ge_cases j (pt p + (3 + ntrans_b P))) as [B0|B0]].
        + destruct (Nat.eq_dec j t2) as [->|Hn2].
          * exists (PL + 3). split; [exact Hx2|]. apply Hpbm; unfold pb, PH, PL; lia.
          * destruct (HO j Hj ltac:(lia) Hn2) as (q & Q1 & Q2 & Q3). exists q. split; [exact Q1|].
            intros [E0|Hi]; [unfold pb, PH, PL in *; lia|contradiction].
        + destruct (Nat.eq_dec j (pt p)) as [->|N0']; [|destruct (Nat.eq_dec j (pt p + 2)) as [->|N2]].
          * exists PL. rewrite W1. split; [right; left; reflexivity|]. apply Hpbm; unfold pb, PH, PL; lia.
          * exists (xplace_b P (cond_p p)). rewrite W7. split; [left; reflexivity|]. apply Hpbm; unfold pb, PH; lia.
          * destruct (exit_blocked_block N0 P (cond_p p) ctx [] HfP WP j ltac:(unfold in_tb; cbn [cond_p pt]; lia)) as (q & Q1 & Q2 & _).
            exists q. split; [exact Q1|]. unfold in_pb in Q2. cbn [cond_p pp] in Q2. fold PL in Q2. apply Hpbm; unfold pb, PH; lia.
        + destruct (Nat.eq_dec j t2) as [->|Hn2].
          * exists (PL + 3). split; [exact Hx2|]. apply Hpbm; unfold pb, PH, PL; lia.
          * destruct (HO j Hj ltac:(lia) Hn2) as (q & Q1 & Q2 & Q3). exists q. split; [exact Q1|].
            intros [E0|Hi]; [unfold pb, PH, PL in *; lia|contradiction].
      - exact W6.
      - exact Hnp. }
    exists nsf, m3. split.
    { exists [], 0. intros rest K. cbn [app]. eapply MS_trans; [apply Hpush|]. apply Hfire. }
    split; [exact Mkf|].
    split; [intros q Hq; unfold m3; cnt_cases|].
    split; [intros q Hq; unfold m3; cnt_cases|].
    split; [exact Invf|]. split; [exact Grf|]. repeat split; reflexivity.
  Qed.

  Definition loop_wired (P : list xstmt) (p : pos) (ctx : nat) (xcbs : list cb) : Prop :=
    preN N0 (pt p) = [pp p; pp p + 1] /\ preN N0 (pt p + 1) = [pp p; pp p + 2] /\ postN N0 (pt p + 1) = [pp p + 3] /\
    cbsN N0 (pt p + 1) = xcbs /\ preN N0 (pt p + 2) = [xplace_b P (loop_p p)] /\
    wired_block (wired N0) N0 ctx [] P (loop_p p).
  Lemma loop_wired_while : forall e P p ctx xcbs, wired N0 (XWhile e P) p ctx xcbs -> loop_wired P p ctx xcbs.
  Proof. intros e P p ctx xcbs Hw. cbn [wired] in Hw. destruct Hw as (W1 & W2 & W3 & W4 & W5 & W6 & W7 & W8 & W9 & WP). repeat split; assumption. Qed.
  Lemma loop_wired_count : forall v l P p ctx xcbs, wired N0 (XCount v l P) p ctx xcbs -> loop_wired P p ctx xcbs.
  Proof. intros v l P p ctx xcbs Hw. cbn [wired] in Hw. destruct Hw as (W1 & W2 & W3 & W4 & W5 & W6 & W7 & W8 & W9 & WP). repeat split; assumption. Qed.

  Lemma loop_else : forall cbk s1 P p ctx cid xcbs t2 g1 ns m pend,
      is_parloop_cb cbk = false ->
      frag_block P = true -> loop_wired P p ctx xcbs -> no_parloop xcbs = true ->
      pp p + (4 + nplaces_l P) <= nP -> pt p + (3 + ntrans_b P) <= nT ->
      t2 < nT -> ~ (pt p <= t2 < pt p + (3 + ntrans_b P)) -> In (pp p + 3) (preN N0 t2) ->
      Inv ns -> ctx_is ns ctx cid ->
      Marks ns m -> (forall q, pp p <= q < pp p + (4 + nplaces_l P) -> cnt m q = cnt [pp p] q) ->
      Hout (pp p) (pp p + (4 + nplaces_l P)) (pt p) (pt p + (3 + ntrans_b P)) t2 m ->
      Inv s1 -> GR g1 s1 pend ->
      ns_places s1 = ns_places ns -> ns_apis s1 = ns_apis ns -> ns_place_dict s1 = ns_place_dict ns ->
      ns_sid s1 = ns_sid ns -> ns_cbs s1 = ns_cbs ns ->
      (forall s', EvalTo tasks env (placed (pp p + 2) s1) s' -> RunCb tasks env cbk ns s') ->
      exists ns' m',
        Enters [cbk] ns ns' true xcbs /\ Marks ns' m' /\
        agrees_in (pp p) (pp p + (4 + nplaces_l P)) m' [pp p + 3] /\
        agrees_out (pp p) (pp p + (4 + nplaces_l P)) m m' /\
        Inv ns' /\ GR g1 ns' pend /\ ns_apis ns' = ns_apis ns /\ ns_place_dict ns' = ns_place_dict ns /\
        ns_sid ns' = ns_sid ns /\ ns_counters ns' = ns_counters s1.
  Proof.
    intros cbk s1 P p ctx cid xcbs t2 g1 ns m pend Hcbk HfP Hw Hnp HP HT Ht2 Hnt2 Hx2 Hinv Hctx Hm Hin HO
           Inv1 Gr1 Epl Eap Edi Esid Ecb Hopen.
    destruct Hw as (W1 & W4 & W5 & W6 & W7 & WP).
    set (PL := pp p) in *. set (PH := pp p + (4 + nplaces_l P)) in *.
    set (pb := PL + 2).
    assert (Hlenp : pb < List.length (ns_places s1)).
    { rewrite Epl, (iv_npl _ Hinv). fold nP. unfold pb, PL. lia. }
    assert (Mk1 : Marks s1 m) by (eapply Marks_places; [exact Epl|exact Hm]).
    assert (Mk2 : Marks (placed pb s1) (pb :: m)) by (apply Marks_placed; assumption).
    set (s2 := placed pb s1) in *.
    assert (Inv2 : Inv s2).
    { destruct Inv1 as [I1 I2 I3 I4 I5 I6 I7 I8 I9 I10 I11]. constructor; try assumption.
      unfold s2, placed. cbn [ns_places set]. rewrite upd_length. exact I8. }
    assert (Gr2 : GR g1 s2 pend) by (destruct Gr1; constructor; assumption).
    assert (Hpush : forall rest K, MS (ns, (cbk :: rest) :: K) (s2, [] :: rest :: K)).
    { intros rest K. apply MS_push; [exact Ecb|exact Hcbk|]. intros s' Hev. apply Hopen. exact Hev. }
    (* the condition-failed transition *)
    assert (HffT : pt p + 1 < nT) by lia.
    destruct (trans_exists (pt p + 1) HffT) as [trf Htrf].
    rewrite (nth_error_preN _ _ Htrf) in W4. rewrite (nth_error_postN _ _ Htrf) in W5.
    set (nsf := fire_ns trf s2).
    pose proof (fire_len s2 (pb :: m) trf Mk2) as Hlenf. fold nsf in Hlenf.
    pose proof (Inv_fire s2 trf Inv2 Hlenf) as Invf. pose proof (GR_fire _ _ _ trf Gr2) as Grf. fold nsf in Invf, Grf.
    set (m3 := (PL + 3) :: outside PL PH m).
    destruct (Marks_fire s2 (pb :: m) trf m3 Mk2) as [Mkf _].
    { intros x Hx. rewrite W5 in Hx. destruct Hx as [<-|[]]. rewrite (iv_npl _ Inv2). fold nP. unfold PL. lia. }
    { intro q. rewrite W4. fold PL. fold pb. rewrite !cnt_cons, cnt_nil.
      destruct (Nat.lt_ge_cases q PL) as [A|A]; [|destruct (Nat.lt_ge_cases q PH) as [B0|B0]].
      - unfold pb. cnt_cases.
      - rewrite (Hin q ltac:(lia)). unfold pb. cnt_cases.
      - unfold pb, PH, PL in *. cnt_cases. }
    { intro q. rewrite W4, W5. fold PL. fold pb. unfold m3. rewrite ?cnt_cons, ?cnt_outside, ?cnt_nil.
      destruct (inb PL PH q) eqn:Eq.
      - apply inb_spec in Eq. rewrite (Hin q Eq). unfold pb. cnt_cases.
      - apply not_true_iff_false in Eq. rewrite inb_spec in Eq. unfold pb, PH, PL in *. cnt_cases. }
    fold nsf in Mkf.
    pose proof (xplace_range_b P HfP (loop_p p)) as XP. cbn [loop_p pp] in XP. fold PL in XP.
    assert (Hpbm : forall q, PL <= q < PH -> q <> pb -> q <> PL -> ~ In q (pb :: m)).
    { intros q Hq N1 N2 [E0|Hi]; [congruence|]. apply cnt_pos_in in Hi. rewrite (Hin q Hq) in Hi. revert Hi. cnt_cases. }
    assert (Hfire : forall K, MS (s2, [] :: K) (nsf, xcbs :: K)).
    { intro K. apply (MS_fire1 s2 (pb :: m) (pt p + 1) trf xcbs K Inv2 Mk2 HffT Htrf).
      - intros q Hq. rewrite W4 in Hq. fold PL in Hq. fold pb in Hq. destruct Hq as [<-|[<-|[]]]; [right|left; reflexivity].
        apply cnt_pos_in. rewrite (Hin PL ltac:(unfold PH, PL; lia)). cnt_cases.
      - intros j Hj Hne.
        destruct (Nat.lt_ge_cases j (pt p)) as [A|A]; [|destruct (Nat.lt_ge_cases j (pt p + (3 + ntrans_b P))) as [B0|B0]].
        + destruct (Nat.eq_dec j t2) as [->|Hn2].
          * exists (PL + 3). split; [exact Hx2|]. apply Hpbm; unfold pb, PH, PL; lia.
          * destruct (HO j Hj ltac:(lia) Hn2) as (q & Q1 & Q2 & Q3). exists q. split; [exact Q1|].
            intros [E0|Hi]; [unfold pb, PH, PL in *; lia|contradiction].
        + destruct (Nat.eq_dec j (pt p)) as [->|N0']; [|destruct (Nat.eq_dec j (pt p + 2)) as [->|N2]].
          * exists (PL + 1). rewrite W1. split; [right; left; reflexivity|]. apply Hpbm; unfold pb, PH, PL; lia.
          * exists (xplace_b P (loop_p p)). rewrite W7. split; [left; reflexivity|]. apply Hpbm; unfold pb, PH; lia.
          * destruct (exit_blocked_block N0 P (loop_p p) ctx [] HfP WP j ltac:(unfold in_tb; cbn [loop_p pt]; lia)) as (q & Q1 & Q2 & _).
            exists q. split; [exact Q1|]. unfold in_pb in Q2. cbn [loop_p pp] in Q2. fold PL in Q2. apply Hpbm; unfold pb, PH; lia.
        + destruct (Nat.eq_dec j t2) as [->|Hn2].
          * exists (PL + 3). split; [exact Hx2|]. apply Hpbm; unfold pb, PH, PL; lia.
          * destruct (HO j Hj ltac:(lia) Hn2) as (q & Q1 & Q2 & Q3). exists q. split; [exact Q1|].
            intros [E0|Hi]; [unfold pb, PH, PL in *; lia|contradiction].
      - exact W6.
      - exact Hnp. }
    exists nsf, m3. split.
    { exists [], 0. intros rest K. cbn [app]. eapply MS_trans; [apply Hpush|]. apply Hfire. }
    split; [exact Mkf|].
    split; [intros q Hq; unfold m3; cnt_cases|].
    split; [intros q Hq; unfold m3; cnt_cases|].
    split; [exact Invf|]. split; [exact Grf|]. split; [exact Eap|]. split; [exact Edi|]. split; [exact Esid|reflexivity].
  Qed.

  Lemma start_cond_case : forall f, (forall f0, f0 < S f -> StartOK f0) ->
      forall e P F p ctx cid ie kl rt xcbs t2 g st g' ns m pend,
        start_stmt orc imm (S f) cid ie (XCond e P F) g = Ok (st, g') ->
        frag (XCond e P F) = true -> sok NC rt (XCond e P F) = true -> CX ns ctx cid ie kl rt p -> wired N0 (XCond e P F) p ctx xcbs -> no_parloop xcbs = true ->
        pp p + nplaces (XCond e P F) <= nP -> pt p + ntrans (XCond e P F) <= nT ->
        t2 < nT -> ~ in_t (XCond e P F) p t2 -> In (xplace (XCond e P F) p) (preN N0 t2) ->
        Inv ns -> GR g ns pend -> ctx_is ns ctx cid -> ctx < pa p ->
        Marks ns m -> (forall q, in_p (XCond e P F) p q -> cnt m q = cnt (entries (XCond e P F) p) q) ->
        Hout (pp p) (pp p + nplaces (XCond e P F)) (pt p) (pt p + ntrans (XCond e P F)) t2 m ->
        exists ns' m', Enters (startcbs (XCond e P F) p ctx) ns ns' (is_done st) xcbs /\
                       Marks ns' m' /\ agrees_in (pp p) (pp p + nplaces (XCond e P F)) m' (mlx st (XCond e P F) p) /\
                       agrees_out (pp p) (pp p + nplaces (XCond e P F)) m m' /\
                       StartRes ctx ns ns' g g' pend (svc_ids st) p (napis (XCond e P F)) /\
                       (act N0 ns' st (XCond e P F) p ctx ie /\ C0 ns' cid (rch st (XCond e P F) p kl)).
  Proof.
    intros f IHf e P F p ctx cid ie kl rt xcbs t2 g st g' ns m pend H Hf Hsok Hcx Hw Hnp HP HT Ht2 Hnt2 Hx2 Hinv Hgr Hctx Hlt Hm Hin HO.
    cbn [sok] in Hsok. apply andb_prop in Hsok. destruct Hsok as [HsP HsF].
    assert (HcxP : CX ns ctx cid ie kl rt (cond_p p)).
    { eapply CX_pos; [exact Hcx|exact (cx_c0 _ _ _ _ _ _ _ Hcx)|]. ple_tac. }
    assert (HcxF : CX ns ctx cid ie kl rt (cond_f P p)).
    { eapply CX_pos; [exact Hcx|exact (cx_c0 _ _ _ _ _ _ _ Hcx)|]. ple_tac. }
    destruct (list_nil_dec F) as [->|HneF].
    { (* no Failed block *)
      pose proof (frag_cond0 _ _ Hf) as HfP. pose proof Hw as Hwall.
      rewrite nplaces_cond, ntrans_cond0, napis_cond in *. unfold in_t, in_p in *. rewrite ?nplaces_cond, ?ntrans_cond0 in *.
      change (nplaces_l (@nil xstmt)) with 0 in *. change (napis_l (@nil xstmt)) with 0 in *. rewrite ?Nat.add_0_r in *.
      cbn [xplace] in Hx2. cbn [entries] in Hin.
      cbn [wired] in Hw. destruct Hw as (W1 & W2 & W3 & W4 & W5 & W6 & W7 & W8 & W9 & WP).
      cbn [start_stmt] in H. mstep as b g1 E1. mstep as r g2 E2.
      destruct (decide_m_spec _ _ _ _ _ E1) as (q' & Hdec & Hq1 & Hlog1 & Hsame).
      pose proof (xplace_range_b P HfP (cond_p p)) as XP. cbn [cond_p pp] in XP.
      cbn [startcbs].
      destruct b.
      - (* the test passes *)
        destruct (start_cond_branch f IHf e true P (cond_p p) (pt p) (pt p + 2) (pp p) (pp p + (4 + nplaces_l P))
                   (pt p) (pt p + (3 + ntrans_b P)) (pa p) (pa p + napis_l P) ctx cid ie kl rt xcbs t2 q' g g1 r g2 ns m pend
                   HfP HsP HcxP WP ltac:(cbn [cond_p pp]; lia) ltac:(cbn [cond_p pp]; lia) ltac:(cbn [cond_p pt]; lia)
                   ltac:(cbn [cond_p pt]; lia) ltac:(cbn [cond_p pa]; lia) ltac:(cbn [cond_p pa]; lia)
                   ltac:(lia) ltac:(lia) ltac:(unfold in_tb; cbn [cond_p pt]; lia) W1 W2 W3 W7 W8 W9 Hnp)
          as (ns' & m' & Hen & Mk & Ai & Ao & Inv' & Gr' & Ap' & Aw' & Sid' & Di' & Hab); try assumption.
        { intros j Hj Hnj Hns Hnf. unfold in_tb in Hnj. cbn [cond_p pt] in Hnj.
          assert (j = pt p + 1) by lia. subst j.
          exists (pp p + 1). rewrite W4. split; [right; left; reflexivity|]. unfold in_pb. cbn [cond_p pp]. repeat split; lia. }
        destruct r as [[j st0]|]; mstep; cbn [is_none is_done mlx svc_ids ids_opt actb xplace] in *.
        + exists ns', m'. split; [exact Hen|]. split; [exact Mk|]. split; [rewrite ml_cond; exact Ai|]. split; [exact Ao|].
          split; [|split; [rewrite act_cond; exact (proj1 Hab)|rewrite rch_cond; exact (proj2 Hab)]].
          split; [exact Inv'|]. split; [exact Gr'|]. split; [exact Ap'|]. split; [exact Aw'|]. split; [exact Sid'|exact Di'].
        + exists ns', m'. split; [exact Hen|]. split; [exact Mk|]. split; [exact Ai|]. split; [exact Ao|].
          split; [|split; [exact I|exact (proj2 Hab)]].
          split; [exact Inv'|]. split; [exact Gr'|]. split; [exact Ap'|]. split; [exact Aw'|]. split; [exact Sid'|exact Di'].
      - (* the test fails: nothing to run *)
        destruct f as [|f0]; [discriminate E2|].
        change (run_block orc imm (S f0) cid ie [] 0 g1 = Ok (r, g2)) in E2. rewrite run_block_S in E2. cbn [nth_error] in E2.
        unfold ret in E2. injection E2 as Er Eg. subst r g2. mstep. cbn [is_done mlx svc_ids xplace].
        destruct (start_cond_empty e P p ctx cid xcbs t2 q' g g1 ns m pend HfP Hwall Hnp HP HT Ht2 Hnt2 Hx2 Hinv Hgr Hctx Hm Hin HO
                                   Hdec Hq1 Hlog1 Hsame) as (ns' & m' & Hen & Mk & Ai & Ao & Inv' & Gr' & Ea & Ed & Es & Ec).
        destruct Hsame as (T1 & T2 & T3 & T4 & T5 & T6 & T7).
        exists ns', m'. split; [exact Hen|]. split; [exact Mk|]. split; [exact Ai|]. split; [exact Ao|].
        split; [|split; [exact I|apply (C0_same ns ns' cid kl Ec (cx_c0 _ _ _ _ _ _ _ Hcx))]].
        split; [exact Inv'|]. split; [rewrite app_nil_r; exact Gr'|]. split; [intros k _; rewrite Ea; reflexivity|].
        split; [rewrite app_nil_r; exact T7|]. split; [rewrite T1, T2; split; [apply Nat.le_refl|split; [apply Nat.le_refl|apply CF_same; exact Ec]]|].
        exists []. split; [rewrite Ed; reflexivity|constructor]. }
    pose proof (frag_cond_ne _ _ _ HneF Hf) as [HfP HfF].
    rewrite nplaces_cond, (ntrans_cond_ne _ _ _ HneF), napis_cond in *. unfold in_t, in_p in *.
    rewrite ?nplaces_cond, ?(ntrans_cond_ne _ _ _ HneF) in *.
    cbn [xplace] in Hx2. cbn [entries] in Hin.
    rewrite (wired_cond_ne _ _ _ _ _ _ _ HneF) in Hw. destruct Hw as (W1 & W2 & W3 & W4 & W5 & W6 & W7 & W8 & W9 & W10 & W11 & W12 & WP & WF).
    cbn [start_stmt] in H. mstep as b g1 E1. mstep as r g2 E2.
    destruct (decide_m_spec _ _ _ _ _ E1) as (q' & Hdec & Hq1 & Hlog1 & Hsame).
    pose proof (xplace_range_b P HfP (cond_p p)) as XP. cbn [cond_p pp] in XP.
    pose proof (xplace_range_b F HfF (cond_f P p)) as XF. cbn [cond_f pp] in XF.
    assert (Hres : exists ns' m',
          Enters [CbCond e (pp p) (pp p + 1) ctx] ns ns' (is_none r) xcbs /\
          Marks ns' m' /\
          agrees_in (pp p) (pp p + (4 + nplaces_l P + nplaces_l F)) m'
                    (match r with None => [pp p + 3]
                             | Some (j, st0) => ml_block (if b then P else F) (if b then cond_p p else cond_f P p) j st0 end) /\
          agrees_out (pp p) (pp p + (4 + nplaces_l P + nplaces_l F)) m m' /\
          Inv ns' /\ GR g2 ns' (pend ++ ids_opt r) /\
          (forall k, ~ (pa p <= k < pa p + (napis_l P + napis_l F)) -> nth_error (ns_apis ns') k = nth_error (ns_apis ns) k) /\
          g_awaited g2 = g_awaited g ++ ids_opt r /\
          (g_sid g <= g_sid g2 /\ g_tid g <= g_tid g2 /\ CF ctx ns ns' (pa p) (pa p + (napis_l P + napis_l F))) /\
          (exists d, ns_place_dict ns' = d ++ ns_place_dict ns /\
                     Forall (fun kv => exists i, fst kv = ITest i /\ ns_sid ns <= i) d) /\
          (actb ns' (if b then P else F) (if b then cond_p p else cond_f P p) ctx r ie /\
           C0 ns' cid (rchb (if b then P else F) (if b then cond_p p else cond_f P p) r kl))).
    { destruct b.
      - apply (start_cond_branch f IHf e true P (cond_p p) (pt p) (pt p + 2) (pp p) (pp p + (4 + nplaces_l P + nplaces_l F))
                 (pt p) (pt p + (4 + ntrans_b P + ntrans_b F)) (pa p) (pa p + (napis_l P + napis_l F)) ctx cid ie kl rt xcbs t2 q' g g1 r g2 ns m pend
                 HfP HsP HcxP WP); try assumption; try (cbn [cond_p pp pt pa]; lia).
        + unfold in_tb. cbn [cond_p pt]. lia.
        + intros j Hj Hnj Hns Hnf. unfold in_tb in Hnj. cbn [cond_p pt] in Hnj.
          destruct (Nat.eq_dec j (pt p + 1)) as [->|N1]; [|destruct (Nat.eq_dec j (cond_sf P p)) as [->|N3]].
          * exists (pp p + 1). rewrite W4. split; [right; left; reflexivity|]. unfold in_pb. cbn [cond_p pp]. repeat split; lia.
          * exists (xplace_b F (cond_f P p)). rewrite W10. split; [left; reflexivity|]. unfold in_pb. cbn [cond_p pp]. repeat split; lia.
          * unfold cond_sf in N3.
            destruct (exit_blocked_block N0 F (cond_f P p) ctx [] HfF WF j ltac:(unfold in_tb; cbn [cond_f pt]; lia)) as (q & Q1 & Q2 & _).
            exists q. split; [exact Q1|]. unfold in_pb in *. cbn [cond_f cond_p pp] in *. repeat split; lia.
      - apply (start_cond_branch f IHf e false F (cond_f P p) (pt p + 1) (cond_sf P p) (pp p) (pp p + (4 + nplaces_l P + nplaces_l F))
                 (pt p) (pt p + (4 + ntrans_b P + ntrans_b F)) (pa p) (pa p + (napis_l P + napis_l F)) ctx cid ie kl rt xcbs t2 q' g g1 r g2 ns m pend
                 HfF HsF HcxF WF); try assumption; try (unfold cond_sf; cbn [cond_f pp pt pa]; lia).
        + unfold in_tb, cond_sf. cbn [cond_f pt]. lia.
        + intros j Hj Hnj Hns Hnf. unfold in_tb in Hnj. cbn [cond_f pt] in Hnj. unfold cond_sf in Hns.
          destruct (Nat.eq_dec j (pt p)) as [->|N1]; [|destruct (Nat.eq_dec j (pt p + 2)) as [->|N3]].
          * exists (pp p). rewrite W1. split; [right; left; reflexivity|]. unfold in_pb. cbn [cond_f pp]. repeat split; lia.
          * exists (xplace_b P (cond_p p)). rewrite W7. split; [left; reflexivity|]. unfold in_pb. cbn [cond_f pp]. repeat split; lia.
          * destruct (exit_blocked_block N0 P (cond_p p) ctx [] HfP WP j ltac:(unfold in_tb; cbn [cond_p pt]; lia)) as (q & Q1 & Q2 & _).
            exists q. split; [exact Q1|]. unfold in_pb in *. cbn [cond_f cond_p pp] in *. repeat split; lia. }
    destruct Hres as (ns' & m' & Hen & Mk & Ai & Ao & Inv' & Gr' & Ap' & Aw' & Sid' & Di' & Hab).
    cbn [startcbs].
    destruct r as [[j st0]|]; mstep; cbn [is_none is_done mlx svc_ids ids_opt actb xplace] in *.
    - exists ns', m'. split; [exact Hen|]. split; [exact Mk|]. split; [rewrite ml_cond; exact Ai|]. split; [exact Ao|].
      split; [|split; [rewrite act_cond; exact (proj1 Hab)|rewrite rch_cond; exact (proj2 Hab)]].
      split; [exact Inv'|]. split; [exact Gr'|]. split; [exact Ap'|]. split; [exact Aw'|]. split; [exact Sid'|exact Di'].
    - exists ns', m'. split; [exact Hen|]. split; [exact Mk|]. split; [exact Ai|]. split; [exact Ao|].
      split; [|split; [exact I|exact (proj2 Hab)]].
      split; [exact Inv'|]. split; [exact Gr'|]. split; [exact Ap'|]. split; [exact Aw'|]. split; [exact Sid'|exact Di'].
  Qed.

  (* ---- while loops: the test before iteration k.  The same statement serves the entry of the
          loop (callback of the entering transition) and the end of an iteration (callback of the
          iteration transition): the loop place holds the token, CbWhile is about to run ---- *)
  Lemma loop_test_S : forall f cid ie e B k,
      loop_test orc imm (S f) cid ie (XWhile e B) k =
      (b <- decide_m orc e cid ;;
       if b then
         r <- run_block orc imm f cid ie B 0 ;;
         match r with
         | None => loop_test orc imm f cid ie (XWhile e B) (S k)
         | Some (i, st) => ret (RLoop k i st)
         end
       else ret RDone).
  Proof. reflexivity. Qed.

  Definition LoopOK (f : nat) : Prop :=
    forall e B p ctx cid ie kl rt xcbs t2 k g st g' ns m pend,
      loop_test orc imm f cid ie (XWhile e B) k g = Ok (st, g') ->
      frag (XWhile e B) = true -> sok NC rt (XWhile e B) = true -> CX ns ctx cid ie kl rt p -> wired N0 (XWhile e B) p ctx xcbs -> no_parloop xcbs = true ->
      pp p + nplaces (XWhile e B) <= nP -> pt p + ntrans (XWhile e B) <= nT ->
      t2 < nT -> ~ in_t (XWhile e B) p t2 -> In (xplace (XWhile e B) p) (preN N0 t2) ->
      Inv ns -> GR g ns pend -> ctx_is ns ctx cid -> ctx < pa p ->
      Marks ns m -> (forall q, in_p (XWhile e B) p q -> cnt m q = cnt (entries (XWhile e B) p) q) ->
      Hout (pp p) (pp p + nplaces (XWhile e B)) (pt p) (pt p + ntrans (XWhile e B)) t2 m ->
      exists ns' m', Enters (startcbs (XWhile e B) p ctx) ns ns' (is_done st) xcbs /\
                     Marks ns' m' /\ agrees_in (pp p) (pp p + nplaces (XWhile e B)) m' (mlx st (XWhile e B) p) /\
                     agrees_out (pp p) (pp p + nplaces (XWhile e B)) m m' /\
                     StartRes ctx ns ns' g g' pend (svc_ids st) p (napis (XWhile e B)) /\
                     (act N0 ns' st (XWhile e B) p ctx ie /\ C0 ns' cid (rch st (XWhile e B) p kl)).

  Lemma loop_case : forall f, (forall f0, f0 < f -> StartOK f0) -> LoopOK f.
  Proof.
    induction f as [|f IHf]; intros HS e B p ctx cid ie kl rt xcbs t2 k g st g' ns m pend
                                    H Hf Hsok Hcx Hw Hnp HP HT Ht2 Hnt2 Hx2 Hinv Hgr Hctx Hlt Hm Hin HO; [discriminate H|].
    pose proof Hsok as HsB. cbn [sok] in HsB.
    pose proof (frag_while _ _ Hf) as HfB. pose proof Hw as Hwall. pose proof HO as HOall. pose proof Hx2 as Hx2all.
    rewrite nplaces_while, ntrans_while, napis_while in *. unfold in_t, in_p in *. rewrite ?nplaces_while, ?ntrans_while in *.
    cbn [xplace] in Hx2. cbn [entries] in Hin. cbn [startcbs].
    cbn [wired] in Hw. destruct Hw as (W1 & W2 & W3 & W4 & W5 & W6 & W7 & W8 & W9 & WB).
    rewrite loop_test_S in H. mstep as b g1 E1.
    destruct (decide_m_spec _ _ _ _ _ E1) as (q' & Hdec & Hq1 & Hlog1 & Hsame).
    pose proof (xplace_range_b B HfB (loop_p p)) as XB. cbn [loop_p pp] in XB.
    set (CW := CbWhile e (pp p + 1) (pp p + 2) ctx) in *.
    pose proof Hctx as (ac & Hac & Huc & Htk & Hcl).
    destruct (cond_pre_ok e cid q' g g1 ns pend ac Hinv Hgr Huc Hq1 Hlog1 Hsame) as [Inv1 Gr1].
    set (s1 := cond_pre e (ident_nat (a_uuid ac)) q' ns) in *.
    destruct b.
    - (* the test passes: the body is entered *)
      mstep as r g2 E2.
      assert (Hopen : forall s',
                         EvalTo tasks env (placed (pp p + 1) s1) s' ->
                         RunCb tasks env CW ns s').
      { intros s' Hev. apply (RunCb_While tasks env e (pp p + 1) (pp p + 2) ctx ns ac true q' s' Hac).
        - rewrite Horc, (gr_q _ _ _ Hgr). exact Hdec.
        - rewrite (gr_aw _ _ _ Hgr). apply no_setplace_awaited.
        - apply (Marks_has_place ns m _ Hinv Hm). lia.
        - exact Hev. }
      assert (Hcx1 : CX s1 ctx cid ie kl rt (loop_p p)).
      { eapply CX_pos; [exact Hcx|exact (cx_c0 _ _ _ _ _ _ _ Hcx)|]. ple_tac. }
      assert (Hcf1 : CF ctx ns s1 (pa p) (pa p + napis_l B)) by (apply CF_same; reflexivity).
      destruct (start_branch f HS CW (pp p) (pp p + 1) (pp p) [CW] B (loop_p p) (pt p) (pt p + 2)
                             (pp p) (pp p + (4 + nplaces_l B)) (pt p) (pt p + (3 + ntrans_b B)) (pa p) (pa p + napis_l B)
                             ctx cid ie kl rt t2 s1 g g1 r g2 ns m pend
                             ltac:(lia) ltac:(lia) ltac:(lia) ltac:(lia) HfB HsB WB
                             ltac:(cbn [loop_p pp]; lia) ltac:(cbn [loop_p pp]; lia) ltac:(cbn [loop_p pt]; lia)
                             ltac:(cbn [loop_p pt]; lia) ltac:(cbn [loop_p pa]; lia) ltac:(cbn [loop_p pa]; lia)
                             ltac:(lia) ltac:(lia) ltac:(unfold in_tb; cbn [loop_p pt]; lia) W1 W2 W3 W7 W8 W9 eq_refl eq_refl)
        as (ns' & m' & Hen & Mk & Ai & Ao & Inv' & Gr' & Ap' & Aw' & Sid' & Di' & Hab & Hcb); try assumption; try reflexivity.
      { intros j Hj Hnj Hns Hnf. unfold in_tb in Hnj. cbn [loop_p pt] in Hnj.
        assert (j = pt p + 1) by lia. subst j.
        exists (pp p + 2). rewrite W4. split; [right; left; reflexivity|]. unfold in_pb. cbn [loop_p pp]. repeat split; lia. }
      destruct r as [[j st0]|]; cbn [ids_opt actb rchb] in *.
      + (* the body waits *)
        mstep. cbn [is_done mlx svc_ids Enters].
        exists ns', m'. split; [exact Hen|]. split; [exact Mk|]. split; [rewrite ml_loop; exact Ai|]. split; [exact Ao|].
        split; [|split; [rewrite act_loop; exact Hab|rewrite rch_loop; exact Hcb]].
        split; [exact Inv'|]. split; [exact Gr'|]. split; [exact Ap'|]. split; [exact Aw'|]. split; [exact Sid'|exact Di'].
      + (* the body completed at once: next test, one evaluation deeper *)
        rewrite app_nil_r in Gr', Aw'.
        assert (Hctx' : ctx_is ns' ctx cid).
        { apply (ctx_is_same ns ns' ctx cid Hctx); [apply Ap'; lia|].
          rewrite (gr_tid _ _ _ Hgr), (gr_tid _ _ _ Gr'). lia. }
        assert (Ao' : agrees_out (pp p) (pp p + (4 + nplaces_l B)) m m') by exact Ao.
        assert (Hcx' : CX ns' ctx cid ie kl rt p) by (eapply CX_pos; [exact Hcx|exact Hcb|apply ple_refl]).
        destruct (IHf ltac:(intros f0 Hf0; apply HS; lia) e B p ctx cid ie kl rt xcbs t2 (S k) g2 st g' ns' m' pend H Hf Hsok Hcx' Hwall Hnp)
          as (ns'' & m'' & Hen2 & Mk2 & Ai2 & Ao2 & Hres2 & Hact2);
          rewrite ?nplaces_while, ?ntrans_while, ?napis_while; unfold in_t, in_p; rewrite ?nplaces_while, ?ntrans_while;
          try assumption; try lia.
        { exact (Hout_out _ _ _ _ _ _ _ HO Ao'). }
        rewrite ?nplaces_while, ?napis_while in *. cbn [startcbs] in Hen2. fold CW in Hen2.
        destruct Hen as (kk & mm & Hkk).
        assert (Ao2' : agrees_out (pp p) (pp p + (4 + nplaces_l B)) m m'').
        { intros q Hq. rewrite (Ao2 q Hq). apply Ao'. exact Hq. }
        pose proof Hres2 as (Inv2 & _).
        assert (Hd2 : is_done st = false -> dead ns'').
        { intro D. apply (dis_dead ns'' m'' Inv2 Mk2). rewrite (mlx_nd _ _ _ D) in Ai2.
          apply (stmt_dis (ie := ie) (XWhile e B) p ctx xcbs t2 st ns'' m m'' Hf Hwall D Hx2all); rewrite ?nplaces_while, ?ntrans_while; try assumption. exact (proj1 Hact2). }
        pose proof (Enters_after (is_done st) [CW] [CW] ns ns' ns'' kk mm xcbs Hkk Hen2 Inv2 Hd2) as HenF.
        exists (if is_done st then ns'' else bumpn (mm + sumn kk) ns''), m''.
        split; [exact HenF|]. split; [destruct (is_done st); exact Mk2|]. split; [exact Ai2|]. split; [exact Ao2'|]. split; [|destruct (is_done st); exact Hact2].
        apply StartRes_if.
        assert (E0 : svc_ids st = [] ++ svc_ids st) by reflexivity. rewrite E0.
          eapply (StartRes_trans ctx ns ns' ns'' g g2 g' pend [] (svc_ids st) p (napis_l B) p (napis_l B) p (napis_l B));
            [exact Hgr| |rewrite app_nil_r; exact Hres2|lia|lia|lia|lia].
          split; [exact Inv'|]. split; [rewrite app_nil_r; exact Gr'|]. split; [exact Ap'|].
          split; [rewrite app_nil_r; exact Aw'|]. split; [exact Sid'|exact Di'].
    - (* the test fails: the loop is left *)
      mstep. cbn [is_done mlx svc_ids xplace].
      assert (Hopen : forall s', EvalTo tasks env (placed (pp p + 2) s1) s' -> RunCb tasks env CW ns s').
      { intros s' Hev. apply (RunCb_While tasks env e (pp p + 1) (pp p + 2) ctx ns ac false q' s' Hac).
        - rewrite Horc, (gr_q _ _ _ Hgr). exact Hdec.
        - rewrite (gr_aw _ _ _ Hgr). apply no_setplace_awaited.
        - apply (Marks_has_place ns m _ Hinv Hm). lia.
        - exact Hev. }
      destruct (loop_else CW s1 B p ctx cid xcbs t2 g1 ns m pend eq_refl HfB (loop_wired_while _ _ _ _ _ Hwall) Hnp HP HT Ht2 Hnt2 Hx2 Hinv Hctx Hm Hin HO
                          Inv1 Gr1 eq_refl eq_refl eq_refl eq_refl eq_refl Hopen) as (ns' & m' & Hen & Mk & Ai & Ao & Inv' & Gr' & Ea & Ed & Es & Ec).
      destruct Hsame as (T1 & T2 & T3 & T4 & T5 & T6 & T7).
      exists ns', m'. split; [exact Hen|]. split; [exact Mk|]. split; [exact Ai|]. split; [exact Ao|].
      split; [|split; [exact I|cbn [rch]; apply (C0_same ns ns' cid kl Ec (cx_c0 _ _ _ _ _ _ _ Hcx))]].
      split; [exact Inv'|]. split; [rewrite app_nil_r; exact Gr'|]. split; [intros k0 _; rewrite Ea; reflexivity|].
      split; [rewrite app_nil_r; exact T7|]. split; [rewrite T1, T2; split; [apply Nat.le_refl|split; [apply Nat.le_refl|apply CF_same; exact Ec]]|].
      exists []. split; [rewrite Ed; reflexivity|constructor].
  Qed.

  (* ---- counting loops: the test before iteration k ---- *)
  Lemma loop_test_S_count : forall f cid ie v lim B k,
      loop_test orc imm (S f) cid ie (XCount v lim B) k =
      (n <- read_limit orc lim cid ;;
       if (Z.of_nat k <? n)%Z then
         r <- run_block orc imm f cid ((v, k) :: ie) B 0 ;;
         match r with
         | None => loop_test orc imm f cid ie (XCount v lim B) (S k)
         | Some (i, st) => ret (RLoop k i st)
         end
       else ret RDone).
  Proof. reflexivity. Qed.

  (* the state after get_loop_limit *)
  Definition lim_pre (lim : limit) (cidn : nat) (s : NS) : NS :=
    match lim with
    | LimInt _ => s
    | LimPath v _ => (s <| ns_log := rev [EQuery v cidn] ++ ns_log s |>) <| ns_q := S (ns_q s) |>
    end.

  Lemma Qlt_bool_int : forall k (q : Q), Qden q = 1%positive ->
      Qlt_bool (inject_Z (Z.of_nat k)) q = (Z.of_nat k <? Qnum q)%Z.
  Proof.
    intros k [qn qd] H. cbn [Qden] in H. subst qd. unfold Qlt_bool, inject_Z. cbn [Qnum Qden].
    unfold Qle_bool. cbn [Qnum Qden]. rewrite !Z.mul_1_r. rewrite Z.ltb_antisym. reflexivity.
  Qed.

  Lemma limit_sim : forall lim ctx cid g n g1 ns pend ac,
      read_limit orc lim cid g = Ok (n, g1) -> GR g ns pend ->
      nth_error (ns_apis ns) ctx = Some ac -> a_uuid ac = ITest cid ->
      exists l, get_loop_limit env lim ctx ns = Ok (l, lim_pre lim cid ns) /\
                (forall k, Qlt_bool (inject_Z (Z.of_nat k)) l = (Z.of_nat k <? n)%Z) /\
                g_same g g1 /\ g_q g1 = ns_q (lim_pre lim cid ns) /\ g_log g1 = ns_log (lim_pre lim cid ns).
  Proof.
    intros lim ctx cid g n g1 ns pend ac H Hgr Hac Huc. destruct Hgr as [G1 G2 G3 G4 G5 G6 G7 G8 G9 G10].
    destruct lim as [n0|v pth]; cbn [read_limit get_loop_limit lim_pre] in *.
    - unfold ret in H. injection H as <- <-. exists (inject_Z (Z.of_nat n0)). split; [reflexivity|].
      split; [intro k; apply Qlt_bool_int; reflexivity|]. split; [repeat split; reflexivity|]. split; [symmetry; exact G10|symmetry; exact G5].
    - destruct (orc (g_q g) v) as [x|] eqn:Eo; [|discriminate H].
      destruct (resolve x pth) as [[q|bb|ss|fs]| | |] eqn:Er; try discriminate H.
      destruct (Pos.eqb (Qden q) 1) eqn:Ed; [|discriminate H]. apply Pos.eqb_eq in Ed.
      unfold bind, log_entry, log_entries, set_q, ret in H. injection H as <- <-.
      exists q. unfold nbind at 1. unfold get_api at 1. rewrite Hac.
      unfold nbind at 1. unfold nget at 1. unfold nbind at 1. unfold nlog at 1, nmod at 1.
      rewrite <- G10 in Eo. rewrite Horc, Eo. unfold nbind at 1. unfold nmod at 1. rewrite Er. unfold nret.
      rewrite Huc. cbn [ident_nat].
      split; [reflexivity|]. split; [intro k; apply Qlt_bool_int; exact Ed|].
      split; [repeat split; reflexivity|]. cbn [g_q g_log set ns_q ns_log]. rewrite G10, G5. split; reflexivity.
  Qed.

  (* Inv and GR only look at some components *)
  Lemma Inv_cnt : forall ns ns', Inv ns ->
      ns_trans ns' = ns_trans ns -> ns_cbs ns' = ns_cbs ns -> ns_test_ids ns' = ns_test_ids ns -> ns_ls ns' = ns_ls ns ->
      ns_start_place ns' = ns_start_place ns -> ns_final_place ns' = ns_final_place ns -> ns_places ns' = ns_places ns ->
      ns_apis ns' = ns_apis ns -> ns_place_dict ns' = ns_place_dict ns -> ns_sid ns' = ns_sid ns ->
      ns_obs ns' = ns_obs ns -> ns_awaited ns' = ns_awaited ns -> ns_pending ns' = ns_pending ns ->
      cnts_plain (ns_counters ns') -> NC = false -> UQ ns' -> Inv ns'.
  Proof.
    intros ns ns' [I1 I2 I3 I4 I5 I6 I7 I8 I9 I10 I11] E1 E2 E3 E4 E5 E6 E7 E8 E9 E10 E11 E12 E13 Hp Hnc Huq.
    constructor; rewrite ?E1, ?E2, ?E3, ?E4, ?E5, ?E6, ?E7, ?E8, ?E9, ?E10, ?E11, ?E12, ?E13; try assumption.
    split; [|exact Huq]. split; [exact Hp|]. intro Hc. congruence.
  Qed.
  Lemma dict_get_set_same : forall (V : Type) u (d : V) l, dict_get ident_eqb u (dict_set ident_eqb u d l) = Some d.
  Proof.
    intros V u d. induction l as [|[k v] r IH]; cbn [dict_set dict_get]; [rewrite ident_eqb_refl; reflexivity|].
    destruct (ident_eqb u k) eqn:E; cbn [dict_get]; [rewrite ident_eqb_refl; reflexivity|rewrite E; exact IH].
  Qed.
  Lemma counters_of_set : forall u d s, counters_of u (set_cnt u d s) = d.
  Proof. intros u d s. unfold counters_of, set_cnt. cbn [ns_counters set]. rewrite dict_get_set_same. reflexivity. Qed.

  Lemma RunCb_Count' : forall key lim pt pf ctx s c k d1 l s2 (b : bool) s3 s',
      nth_error (ns_apis s) ctx = Some c -> count_next key (counters_of (a_uuid c) s) = k ->
      dict_set lkey_eqb (KLoop key) (CInt k) (counters_of (a_uuid c) s) = d1 ->
      get_loop_limit env lim ctx (set_cnt (a_uuid c) d1 s) = Ok (l, s2) ->
      Qlt_bool (inject_Z (Z.of_nat k)) l = b ->
      s3 = (if b then s2 else set_cnt (a_uuid c) (dict_del lkey_eqb (KLoop key) (counters_of (a_uuid c) s2)) s2) ->
      existsb (event_eqb (EvSetPlace (if b then pt else pf))) (ns_awaited s3) = false ->
      has_place s3 (if b then pt else pf) = true ->
      EvalTo tasks env (placed (if b then pt else pf) s3) s' ->
      RunCb tasks env (CbCount key lim pt pf ctx) s s'.
  Proof.
    intros key lim pt pf ctx s c k d1 l s2 b s3 s' Hc Hk Hd Hl Hb Hs3 Ha Hh He. subst k d1 b s3.
    eapply RunCb_Count; eassumption.
  Qed.

  Definition kpre (k : nat) (kl : list (site * nat)) (p : pos) : list (site * nat) :=
    match k with 0 => kl | S k' => (pkey p, k') :: kl end.

  Definition CountOK (f : nat) : Prop :=
    forall v lim B p ctx cid ie kl rt xcbs t2 k g st g' ns m pend,
      loop_test orc imm f cid ie (XCount v lim B) k g = Ok (st, g') ->
      frag (XCount v lim B) = true -> sok NC rt (XCount v lim B) = true ->
      klb kl p -> ie_of tasks kl ie -> C0 ns cid (kpre k kl p) ->
      wired N0 (XCount v lim B) p ctx xcbs -> no_parloop xcbs = true ->
      pp p + nplaces (XCount v lim B) <= nP -> pt p + ntrans (XCount v lim B) <= nT ->
      t2 < nT -> ~ in_t (XCount v lim B) p t2 -> In (xplace (XCount v lim B) p) (preN N0 t2) ->
      Inv ns -> GR g ns pend -> ctx_is ns ctx cid -> ctx < pa p ->
      Marks ns m -> (forall q, in_p (XCount v lim B) p q -> cnt m q = cnt (entries (XCount v lim B) p) q) ->
      Hout (pp p) (pp p + nplaces (XCount v lim B)) (pt p) (pt p + ntrans (XCount v lim B)) t2 m ->
      exists ns' m', Enters (startcbs (XCount v lim B) p ctx) ns ns' (is_done st) xcbs /\
                     Marks ns' m' /\ agrees_in (pp p) (pp p + nplaces (XCount v lim B)) m' (mlx st (XCount v lim B) p) /\
                     agrees_out (pp p) (pp p + nplaces (XCount v lim B)) m m' /\
                     StartRes ctx ns ns' g g' pend (svc_ids st) p (napis (XCount v lim B)) /\
                     (act N0 ns' st (XCount v lim B) p ctx ie /\ C0 ns' cid (rch st (XCount v lim B) p kl)).

  Lemma count_case : forall f, (forall f0, f0 < f -> StartOK f0) -> CountOK f.
  Proof.
    induction f as [|f IHf]; intros HS v lim B p ctx cid ie kl rt xcbs t2 k g st g' ns m pend
                                    H Hf Hsok Hklb Hieo Hcnt Hw Hnp HP HT Ht2 Hnt2 Hx2 Hinv Hgr Hctx Hlt Hm Hin HO; [discriminate H|].
    pose proof Hsok as HsB. cbn [sok] in HsB. apply andb_prop in HsB. destruct HsB as [Hnc HsB].
    apply negb_true_iff in Hnc.
    pose proof (frag_count _ _ _ Hf) as HfB. pose proof Hw as Hwall. pose proof HO as HOall. pose proof Hx2 as Hx2all.
    rewrite nplaces_count, ntrans_count, napis_count in *. unfold in_t, in_p in *. rewrite ?nplaces_count, ?ntrans_count in *.
    cbn [xplace] in Hx2. cbn [entries] in Hin. cbn [startcbs].
    cbn [wired] in Hw. destruct Hw as (W1 & W2 & W3 & W4 & W5 & W6 & W7 & W8 & (W9 & WK) & WB).
    rewrite loop_test_S_count in H. mstep as n g1 E1.
    pose proof (xplace_range_b B HfB (loop_p p)) as XB. cbn [loop_p pp] in XB.
    set (key := pkey p) in *.
    set (CW := CbCount key lim (pp p + 1) (pp p + 2) ctx) in *.
    pose proof Hctx as (ac & Hac & Huc & Htk & Hcl).
    assert (Hu0 : a_uuid ac = ITest cid) by exact Huc.
    pose proof (proj2 (iv_cnt _ Hinv)) as Huq.
    assert (Hfresh : forall k0, ~ In (key, k0) (rev kl)).
    { apply in_rev_fresh. apply (klb_fresh kl p Hklb). }
    (* the count *)
    assert (Hcn : count_next key (counters_of (a_uuid ac) ns) = k).
    { rewrite Hu0. unfold count_next. unfold C0 in Hcnt. rewrite Hcnt. destruct k as [|k']; cbn [kpre].
      - rewrite (enc_get_none key (rev kl) Hfresh). reflexivity.
      - cbn [rev]. fold key. rewrite (enc_get_last key k' (rev kl) Hfresh). reflexivity. }
    assert (Hd1 : dict_set lkey_eqb (KLoop key) (CInt k) (counters_of (a_uuid ac) ns) = enc (rev ((key, k) :: kl))).
    { rewrite Hu0. unfold C0 in Hcnt. rewrite Hcnt. cbn [rev]. destruct k as [|k']; cbn [kpre].
      - apply (enc_set_new key 0 (rev kl) Hfresh).
      - cbn [rev]. fold key. apply (enc_set_last key k' (S k') (rev kl) Hfresh). }
    set (sA := set_cnt (a_uuid ac) (enc (rev ((key, k) :: kl))) ns).
    assert (GrA : GR g sA pend) by (destruct Hgr; constructor; assumption).
    destruct (limit_sim lim ctx cid g n g1 sA pend ac E1 GrA Hac Huc) as (l & Hlim & Hltb & Hsame & Hq1 & Hlog1).
    set (s2 := lim_pre lim cid sA) in *.
    assert (Fs2 : ns_trans s2 = ns_trans ns /\ ns_cbs s2 = ns_cbs ns /\ ns_test_ids s2 = ns_test_ids ns /\ ns_ls s2 = ns_ls ns /\
                  ns_start_place s2 = ns_start_place ns /\ ns_final_place s2 = ns_final_place ns /\ ns_places s2 = ns_places ns /\
                  ns_apis s2 = ns_apis ns /\ ns_place_dict s2 = ns_place_dict ns /\ ns_sid s2 = ns_sid ns /\
                  ns_counters s2 = dict_set ident_eqb (a_uuid ac) (enc (rev ((key, k) :: kl))) (ns_counters ns) /\
                  ns_tid s2 = ns_tid ns /\ ns_nss s2 = ns_nss ns /\ ns_running s2 = ns_running ns /\ ns_obs s2 = ns_obs ns /\
                  ns_awaited s2 = ns_awaited ns /\ ns_pending s2 = ns_pending ns).
    { unfold s2, lim_pre, sA, set_cnt. destruct lim; repeat split; reflexivity. }
    destruct Fs2 as (F1 & F2 & F3 & F4 & F5 & F6 & F7 & F8 & F9 & F10 & F11 & F12 & F13 & F14 & F15 & F16 & F17).
    assert (Inv2 : Inv s2).
    { apply (Inv_cnt ns s2 Hinv); try assumption.
      - rewrite F11. apply cnts_plain_set; [apply (proj1 (proj1 (iv_cnt _ Hinv)))|apply enc_plain].
      - eapply (UQ_cnt ns s2 cid _ Huq); [rewrite F11, Hu0; reflexivity|exact F8|exact F12|exact Hcl]. }
    assert (Gr2 : GR g1 s2 pend).
    { destruct Hgr as [G1 G2 G3 G4 G5 G6 G7 G8 G9 G10]. destruct Hsame as (T1 & T2 & T3 & T4 & T5 & T6 & T7).
      constructor; rewrite ?F12, ?F10, ?F13, ?F14, ?F4, ?F15, ?F16, ?F17; try congruence; try (symmetry; assumption). }
    assert (Hc2 : counters_of (ITest cid) s2 = enc (rev ((key, k) :: kl))).
    { unfold counters_of. rewrite F11, Hu0, dict_get_set_same. reflexivity. }
    destruct (Z.of_nat k <? n)%Z eqn:Eb.
    - (* the test passes: the body is entered *)
      mstep as r g2 E2.
      assert (Hopen : forall s', EvalTo tasks env (placed (pp p + 1) s2) s' -> RunCb tasks env CW ns s').
      { intros s' Hev.
        apply (RunCb_Count' key lim (pp p + 1) (pp p + 2) ctx ns ac k _ l s2 true s2 s' Hac Hcn Hd1 Hlim).
        - rewrite Hltb. exact Eb.
        - reflexivity.
        - rewrite F16, (gr_aw _ _ _ Hgr). apply no_setplace_awaited.
        - apply (Marks_has_place s2 m _ Inv2); [eapply Marks_places; [exact F7|exact Hm]|lia].
        - exact Hev. }
      assert (Hcx1 : CX s2 ctx cid ((v, k) :: ie) ((key, k) :: kl) rt (loop_p p)).
      { constructor; [exact Hc2| |apply klb_push; exact Hklb].
        split; [constructor; [split; [exact WK|reflexivity]|exact Hieo]|intro E; discriminate E]. }
      assert (Hcf1 : CF ctx ns s2 (pa p) (pa p + napis_l B)).
      { apply (CF_other ns s2 ctx cid _ _ Huq Hctx). intros u Hu. rewrite F11, Hu0, dict_get_set_ident.
        destruct (ident_eqb u (ITest cid)) eqn:E; [apply ident_eqb_eq in E; contradiction|reflexivity]. }
      destruct (start_branch f HS CW (pp p) (pp p + 1) (pp p) [CW] B (loop_p p) (pt p) (pt p + 2)
                             (pp p) (pp p + (4 + nplaces_l B)) (pt p) (pt p + (3 + ntrans_b B)) (pa p) (pa p + napis_l B)
                             ctx cid ((v, k) :: ie) ((key, k) :: kl) rt t2 s2 g g1 r g2 ns m pend
                             ltac:(lia) ltac:(lia) ltac:(lia) ltac:(lia) HfB HsB WB
                             ltac:(cbn [loop_p pp]; lia) ltac:(cbn [loop_p pp]; lia) ltac:(cbn [loop_p pt]; lia)
                             ltac:(cbn [loop_p pt]; lia) ltac:(cbn [loop_p pa]; lia) ltac:(cbn [loop_p pa]; lia)
                             ltac:(lia) ltac:(lia) ltac:(unfold in_tb; cbn [loop_p pt]; lia) W1 W2 W3 W7 W8 W9 eq_refl eq_refl)
        as (ns' & m' & Hen & Mk & Ai & Ao & Inv' & Gr' & Ap' & Aw' & Sid' & Di' & Hab & Hcb); try assumption.
      { intros j Hj Hnj Hns Hnf. unfold in_tb in Hnj. cbn [loop_p pt] in Hnj.
        assert (j = pt p + 1) by lia. subst j.
        exists (pp p + 2). rewrite W4. split; [right; left; reflexivity|]. unfold in_pb. cbn [loop_p pp]. repeat split; lia. }
      destruct r as [[j st0]|]; cbn [ids_opt actb rchb] in *.
      + (* the body waits *)
        mstep. cbn [is_done mlx svc_ids Enters].
        exists ns', m'. split; [exact Hen|]. split; [exact Mk|]. split; [rewrite ml_count; exact Ai|]. split; [exact Ao|].
        split; [|split; [rewrite act_count; exact Hab|rewrite rch_count; exact Hcb]].
        split; [exact Inv'|]. split; [exact Gr'|]. split; [exact Ap'|]. split; [exact Aw'|]. split; [exact Sid'|exact Di'].
      + (* the body completed at once: next test, one evaluation deeper *)
        rewrite app_nil_r in Gr', Aw'.
        assert (Hctx' : ctx_is ns' ctx cid).
        { apply (ctx_is_same ns ns' ctx cid Hctx); [apply Ap'; lia|].
          rewrite (gr_tid _ _ _ Hgr), (gr_tid _ _ _ Gr'). lia. }
        assert (Ao' : agrees_out (pp p) (pp p + (4 + nplaces_l B)) m m') by exact Ao.
        destruct (IHf ltac:(intros f0 Hf0; apply HS; lia) v lim B p ctx cid ie kl rt xcbs t2 (S k) g2 st g' ns' m' pend H Hf Hsok Hklb Hieo Hcb Hwall Hnp)
          as (ns'' & m'' & Hen2 & Mk2 & Ai2 & Ao2 & Hres2 & Hact2);
          rewrite ?nplaces_count, ?ntrans_count, ?napis_count; unfold in_t, in_p; rewrite ?nplaces_count, ?ntrans_count;
          try assumption; try lia.
        { exact (Hout_out _ _ _ _ _ _ _ HO Ao'). }
        rewrite ?nplaces_count, ?napis_count in *. cbn [startcbs] in Hen2. fold key in Hen2. fold CW in Hen2.
        destruct Hen as (kk & mm & Hkk).
        assert (Ao2' : agrees_out (pp p) (pp p + (4 + nplaces_l B)) m m'').
        { intros q Hq. rewrite (Ao2 q Hq). apply Ao'. exact Hq. }
        pose proof Hres2 as (Inv2' & _).
        assert (Hd2 : is_done st = false -> dead ns'').
        { intro D. apply (dis_dead ns'' m'' Inv2' Mk2). rewrite (mlx_nd _ _ _ D) in Ai2.
          apply (stmt_dis (ie := ie) (XCount v lim B) p ctx xcbs t2 st ns'' m m'' Hf Hwall D Hx2all); rewrite ?nplaces_count, ?ntrans_count; try assumption. exact (proj1 Hact2). }
        pose proof (Enters_after (is_done st) [CW] [CW] ns ns' ns'' kk mm xcbs Hkk Hen2 Inv2' Hd2) as HenF.
        exists (if is_done st then ns'' else bumpn (mm + sumn kk) ns''), m''.
        split; [exact HenF|]. split; [destruct (is_done st); exact Mk2|]. split; [exact Ai2|]. split; [exact Ao2'|]. split; [|destruct (is_done st); exact Hact2].
        apply StartRes_if.
        assert (E0 : svc_ids st = [] ++ svc_ids st) by reflexivity. rewrite E0.
          eapply (StartRes_trans ctx ns ns' ns'' g g2 g' pend [] (svc_ids st) p (napis_l B) p (napis_l B) p (napis_l B));
            [exact Hgr| |rewrite app_nil_r; exact Hres2|lia|lia|lia|lia].
          split; [exact Inv'|]. split; [rewrite app_nil_r; exact Gr'|]. split; [exact Ap'|].
          split; [rewrite app_nil_r; exact Aw'|]. split; [exact Sid'|exact Di'].
    - (* the limit is reached: the loop is left, its counter is forgotten *)
      mstep. cbn [is_done mlx svc_ids xplace].
      set (s3 := set_cnt (a_uuid ac) (dict_del lkey_eqb (KLoop key) (counters_of (a_uuid ac) s2)) s2).
      assert (Hc3 : counters_of (ITest cid) s3 = enc (rev kl)).
      { unfold s3. rewrite Hu0, counters_of_set, Hc2. cbn [rev]. apply (enc_del_last key k (rev kl) Hfresh). }
      assert (Inv3 : Inv s3).
      { apply (Inv_cnt s2 s3 Inv2); try reflexivity; [|exact Hnc|].
        - unfold s3, set_cnt. cbn [ns_counters set]. apply cnts_plain_set; [apply (proj1 (proj1 (iv_cnt _ Inv2)))|].
          rewrite Hu0, Hc2. cbn [rev]. rewrite (enc_del_last key k (rev kl) Hfresh). apply enc_plain.
        - eapply (UQ_cnt s2 s3 cid _ (proj2 (iv_cnt _ Inv2))); [unfold s3, set_cnt; cbn [ns_counters set]; rewrite Hu0; reflexivity|reflexivity|reflexivity|rewrite F12; exact Hcl]. }
      assert (Gr3 : GR g1 s3 pend) by (destruct Gr2; constructor; assumption).
      assert (Hopen : forall s', EvalTo tasks env (placed (pp p + 2) s3) s' -> RunCb tasks env CW ns s').
      { intros s' Hev.
        apply (RunCb_Count' key lim (pp p + 1) (pp p + 2) ctx ns ac k _ l s2 false s3 s' Hac Hcn Hd1 Hlim).
        - rewrite Hltb. exact Eb.
        - reflexivity.
        - change (ns_awaited s3) with (ns_awaited s2). rewrite F16, (gr_aw _ _ _ Hgr). apply no_setplace_awaited.
        - apply (Marks_has_place s3 m _ Inv3); [eapply Marks_places; [|exact Hm]; change (ns_places s3) with (ns_places s2); exact F7|lia].
        - exact Hev. }
      destruct (loop_else CW s3 B p ctx cid xcbs t2 g1 ns m pend eq_refl HfB (loop_wired_count _ _ _ _ _ _ Hwall) Hnp HP HT Ht2 Hnt2 Hx2 Hinv Hctx Hm Hin HO
                          Inv3 Gr3 F7 F8 F9 F10 F2 Hopen) as (ns' & m' & Hen & Mk & Ai & Ao & Inv' & Gr' & Ea & Ed & Es & Ec).
      destruct Hsame as (T1 & T2 & T3 & T4 & T5 & T6 & T7).
      exists ns', m'. split; [exact Hen|]. split; [exact Mk|]. split; [exact Ai|]. split; [exact Ao|].
      split; [|split; [exact I|cbn [rch]; unfold C0, counters_of; rewrite Ec; exact Hc3]].
      split; [exact Inv'|]. split; [rewrite app_nil_r; exact Gr'|]. split; [intros k0 _; rewrite Ea; reflexivity|].
      split; [rewrite app_nil_r; exact T7|]. split; [rewrite T1, T2; split; [apply Nat.le_refl|split; [apply Nat.le_refl|]]|].
      { apply (CF_other ns ns' ctx cid _ _ Huq Hctx). intros u Hu. rewrite Ec. unfold s3, set_cnt. cbn [ns_counters set].
        rewrite Hu0, dict_get_set_ident, F11, Hu0, dict_get_set_ident.
        destruct (ident_eqb u (ITest cid)) eqn:E; [apply ident_eqb_eq in E; contradiction|reflexivity]. }
      exists []. split; [rewrite Ed; reflexivity|constructor].
  Qed.

  Theorem start_ok : forall f, StartOK f.
  Proof.
    induction f as [f IH] using lt_wf_ind.
    intros s p ctx cid ie kl rt xcbs t2 g st g' ns m pend H Hf Hsok Hcx Hw Hnp HP HT Ht2 Hnt2 Hx2 Hinv Hgr Hctx Hlt Hm Hin HO.
    destruct f as [|f]; [discriminate H|].
    destruct s as [n at_ ins|t at_ ins bd|bs|e P F|e B|v lim B| ]; try discriminate Hf.
    - assert (Hne2 : t2 <> pt p) by (unfold in_t in Hnt2; cbn [ntrans] in Hnt2; lia).
      cbn [nplaces ntrans xplace] in *.
      eapply (start_svc_case f); try eassumption.
    - eapply (start_call_case f); eassumption.
    - eapply (start_par_case f); eassumption.
    - eapply (start_cond_case f); eassumption.
    - cbn [start_stmt] in H. eapply (loop_case f); try eassumption. intros f0 Hf0. apply IH. lia.
    - cbn [start_stmt] in H.
      eapply (count_case f); try eassumption; [intros f0 Hf0; apply IH; lia|exact (cx_rt _ _ _ _ _ _ _ Hcx)|exact (proj1 (cx_ie _ _ _ _ _ _ _ Hcx))|exact (cx_c0 _ _ _ _ _ _ _ Hcx)].
  Qed.

  Theorem start_block_ok : forall f, StartBK f.
  Proof.
    intros [|f]; [intros ? ? ? ? ? ? ? ? ? ? ? ? ? ? ? ? ? HH; discriminate HH|].
    apply start_block_case. intros f0 _. apply start_ok.
  Qed.


  Lemma found_in : forall f cid ie s st id g st' g',
      deliver orc imm f cid ie s st id g = Ok (Some st', g') -> In id (svc_ids st).
  Proof.
    intros f cid ie s st id g st' g' H. destruct (in_dec Nat.eq_dec id (svc_ids st)) as [Hi|Hn]; [exact Hi|].
    destruct (proj1 (deliver_absent orc imm f) _ _ _ _ _ _ _ _ H Hn) as [E _]. discriminate E.
  Qed.

  (* the two ways a delivery into a component ends *)
  Definition DoneForm (ctx cid : nat) (ns : NS) (m : list nat) (g g' : G) (pend0 : list nat) (plo phi alo ahi : nat)
             (xcbs : list cb) (x : nat) (kl : list (site * nat)) : Prop :=
    exists ns' m', Exits ns ns' xcbs /\ Marks ns' m' /\ agrees_in plo phi m' [x] /\ agrees_out plo phi m m' /\
                   (Post ctx ns ns' g g' pend0 alo ahi /\ C0 ns' cid kl).

  (* what the delivery lemmas assume about the loop counters: [kc] is the chain of the running
     counting loops of the task instance [cid], [kl] the part of it above the component *)
  Record CD (ns : NS) (ctx cid : nat) (ie : ienv) (kl : list (site * nat)) (rt : bool) (p : pos)
         (kc : list (site * nat)) : Prop := {
    cd_c0 : C0 ns cid kc;
    cd_ie : ie_of tasks kl ie /\ (s_il (psi p) = false -> ie = []);
    cd_rt : klb kl p
  }.
  Lemma CD_CX : forall ns ctx cid ie kl rt p, CD ns ctx cid ie kl rt p kl -> CX ns ctx cid ie kl rt p.
  Proof. intros ns ctx cid ie kl rt p [A B C]. constructor; assumption. Qed.
  Lemma CD_pos : forall ns ns' ctx cid ie kl rt p q kc kc',
      CD ns ctx cid ie kl rt p kc -> C0 ns' cid kc' -> ple p q ->
      CD ns' ctx cid ie kl rt q kc'.
  Proof.
    intros ns ns' ctx cid ie kl rt p q kc kc' [H1 [H2 H2'] H3] Hc [Hle Hil]. constructor; [exact Hc| |eapply klb_sub; eassumption].
    split; [exact H2|]. intro E. apply H2'. destruct (s_il (psi p)); [specialize (Hil eq_refl); congruence|reflexivity].
  Qed.

  Definition StayForm (ctx : nat) (ns : NS) (m : list nat) (g g' : G) (pend0 : list nat) (plo phi alo ahi : nat)
             (ml' : list nat) (ns' : NS) : Prop :=
    exists m', Steps ns ns' /\ Marks ns' m' /\ agrees_in plo phi m' ml' /\ agrees_out plo phi m m' /\
               Post ctx ns ns' g g' pend0 alo ahi.

  Definition DelS (f : nat) : Prop :=
    forall s p ctx cid ie kl rt xcbs t2 st id g st' g' ns m pend pend0 finp,
      deliver orc imm f cid ie s st id g = Ok (Some st', g') ->
      frag s = true -> sok NC rt s = true -> CD ns ctx cid ie kl rt p (rch st s p kl) ->
      wired N0 s p ctx xcbs -> no_parloop xcbs = true ->
      pp p + nplaces s <= nP -> pt p + ntrans s <= nT ->
      t2 < nT -> ~ in_t s p t2 -> In (xplace s p) (preN N0 t2) ->
      Inv ns -> GR g ns pend -> remove_first (Nat.eqb id) pend = Some pend0 ->
      act N0 ns st s p ctx ie -> is_done st = false -> ctx_is ns ctx cid -> ctx < pa p ->
      Marks ns m -> dict_get ident_eqb (ITest id) (ns_place_dict ns) = Some finp ->
      (forall q, in_p s p q -> cnt m q = cnt (ml st s p) q + (if Nat.eqb q finp then 1 else 0)) ->
      Hout (pp p) (pp p + nplaces s) (pt p) (pt p + ntrans s) t2 m ->
      if is_done st'
      then DoneForm ctx cid ns m g g' pend0 (pp p) (pp p + nplaces s) (pa p) (pa p + napis s) xcbs (xplace s p) kl
      else exists ns', StayForm ctx ns m g g' pend0 (pp p) (pp p + nplaces s) (pa p) (pa p + napis s) (ml st' s p) ns' /\
                       (act N0 ns' st' s p ctx ie /\ C0 ns' cid (rch st' s p kl)).

  Definition DelB (f : nat) : Prop :=
    forall l bp ctx cid ie kl rt xcbs t2 i sti id g r g' ns m pend pend0 finp,
      deliver_block orc imm f cid ie l i sti id g = Ok (Some r, g') ->
      frag_block l = true -> sok_block NC rt l = true -> CD ns ctx cid ie kl rt bp (rch_block l bp i sti kl) ->
      wired_block (wired N0) N0 ctx xcbs l bp -> no_parloop xcbs = true ->
      pp bp + nplaces_l l <= nP -> pt bp + ntrans_b l <= nT ->
      t2 < nT -> ~ in_tb l bp t2 -> In (xplace_b l bp) (preN N0 t2) ->
      Inv ns -> GR g ns pend -> remove_first (Nat.eqb id) pend = Some pend0 ->
      act_block N0 ns l bp ctx i sti ie -> ctx_is ns ctx cid -> ctx < pa bp ->
      Marks ns m -> dict_get ident_eqb (ITest id) (ns_place_dict ns) = Some finp ->
      (forall q, in_pb l bp q -> cnt m q = cnt (ml_block l bp i sti) q + (if Nat.eqb q finp then 1 else 0)) ->
      Hout (pp bp) (pp bp + nplaces_l l) (pt bp) (pt bp + ntrans_b l) t2 m ->
      match r with
      | None => DoneForm ctx cid ns m g g' pend0 (pp bp) (pp bp + nplaces_l l) (pa bp) (pa bp + napis_l l) xcbs (xplace_b l bp) kl
      | Some (j, st') =>
        exists ns', StayForm ctx ns m g g' pend0 (pp bp) (pp bp + nplaces_l l) (pa bp) (pa bp + napis_l l)
                             (ml_block l bp j st') ns' /\
                    (act_block N0 ns' l bp ctx j st' ie /\ C0 ns' cid (rch_block l bp j st' kl))
      end.

  (* after statement i of a block has exited, the connection fires and the block goes on from
     statement i+1 *)
  Lemma block_continue : forall f l bp ctx cid ie kl rt kc xcbs t2 i s1 s' g g1 r' g' ns m pend pend0,
      frag_block l = true -> sok_block NC rt l = true -> CD ns ctx cid ie kl rt bp kc ->
      wired_block (wired N0) N0 ctx xcbs l bp -> no_parloop xcbs = true ->
      nth_error l i = Some s1 -> nth_error l (S i) = Some s' ->
      pp bp + nplaces_l l <= nP -> pt bp + ntrans_b l <= nT ->
      t2 < nT -> ~ in_tb l bp t2 -> In (xplace_b l bp) (preN N0 t2) ->
      Inv ns -> GR g ns pend -> ctx_is ns ctx cid -> ctx < pa bp ->
      (forall q, in_pb l bp q -> ~ in_p s1 (spos l bp i) q -> cnt m q = 0) ->
      Hout (pp bp) (pp bp + nplaces_l l) (pt bp) (pt bp + ntrans_b l) t2 m ->
      Hout (pp (spos l bp i)) (pp (spos l bp i) + nplaces s1) (pt (spos l bp i)) (pt (spos l bp i) + ntrans s1)
           (pt (spos l bp i) - 1) m ->
      DoneForm ctx cid ns m g g1 pend0 (pp (spos l bp i)) (pp (spos l bp i) + nplaces s1)
               (pa (spos l bp i)) (pa (spos l bp i) + napis s1) [] (xplace s1 (spos l bp i)) kl ->
      run_block orc imm f cid ie l (S i) g1 = Ok (r', g') ->
      match r' with
      | None => DoneForm ctx cid ns m g g' pend0 (pp bp) (pp bp + nplaces_l l) (pa bp) (pa bp + napis_l l) xcbs (xplace_b l bp) kl
      | Some (j, st') =>
        exists ns'', StayForm ctx ns m g g' pend0 (pp bp) (pp bp + nplaces_l l) (pa bp) (pa bp + napis_l l)
                              (ml_block l bp j st') ns'' /\
                     (act_block N0 ns'' l bp ctx j st' ie /\ C0 ns'' cid (rch_block l bp j st' kl))
      end.
  Proof.
    intros f l bp ctx cid ie kl rt kc xcbs t2 i s1 s' g g1 r' g' ns m pend pend0
           Hfb Hsok Hcd Hw Hnp Hn Hn' HP HT Ht2 Hnt2 Hx2 Hinv Hgr Hctx Hlt Hz HO Houti Hdone Hrun.
    set (pi := spos l bp i) in *. set (pj := spos l bp (S i)).
    pose proof (frag_block_nth _ _ _ Hfb Hn) as Hf1. pose proof (frag_block_nth _ _ _ Hfb Hn') as Hf'.
    destruct (wired_block_nth _ _ _ _ _ _ _ _ Hw Hn) as [W1 Wc].
    assert (Elast : Nat.eqb (S i) (List.length l) = false).
    { apply Nat.eqb_neq. assert (S i < List.length l) by (apply nth_error_Some; congruence). lia. }
    rewrite Elast in W1. destruct (Wc s' Hn') as (C1 & C2 & C3). cbv zeta in C1, C2, C3. fold pi in C1, C2, C3, W1. fold pj in C2, C3.
    pose proof (spos_range l bp i s1 Hn) as Ri. pose proof (spos_range l bp (S i) s' Hn') as Rj.
    pose proof (spos_mono l bp i (S i) s1 s' ltac:(lia) Hn Hn') as Mij. fold pi in Ri, Mij. fold pj in Rj, Mij.
    destruct (spos_conn l bp i s1 s' Hn Hn') as (Cn1 & Cn2 & Cn3). fold pi in Cn1, Cn2, Cn3.
    destruct Hdone as (nsa & m' & [k Hk] & Mka & Aia & Aoa & ((Inva & Fra & new1 & Aw1 & Gra) & Hca)).
    (* the connection *)
    set (c := pt pi - 1) in *.
    assert (HcT : c < nT) by (unfold c; lia).
    destruct (trans_exists c HcT) as [trc Htrc].
    rewrite (nth_error_preN _ _ Htrc) in C1. rewrite (nth_error_postN _ _ Htrc) in C2.
    assert (Hdisc : forall j, j < nT -> j <> c -> dis m' j).
    { exact (exited_only_t2 s1 pi ctx [] c m m' Hf1 W1 Houti Aoa Aia). }
    assert (Henc : forall q, In q (tr_pre trc) -> In q m').
    { intros q Hq. rewrite C1 in Hq. destruct Hq as [<-|[]]. apply cnt_pos_in.
      rewrite (Aia _ (xplace_range s1 Hf1 pi)). cnt_cases. }
    set (nsf := fire_ns trc nsa).
    pose proof (fire_len nsa m' trc Mka) as Hlenf. fold nsf in Hlenf.
    pose proof (Inv_fire nsa trc Inva Hlenf) as Invf. pose proof (GR_fire _ _ _ trc Gra) as Grf. fold nsf in Invf, Grf.
    assert (Hctxa : ctx_is nsa ctx cid) by (eapply ctx_is_frame; [exact Hctx|exact Fra|lia]).
    assert (Hent : forall q, In q (entries s' pj) -> in_p s' pj q) by (intros q Hq; apply (entries_range s' Hf' pj q Hq)).
    set (m'' := entries s' pj ++ outside (pp bp) (pp bp + nplaces_l l) m').
    assert (Hcnt_in : forall q, in_pb l bp q -> cnt m' q = if Nat.eqb (xplace s1 pi) q then 1 else 0).
    { intros q Hq. destruct (Nat.lt_ge_cases q (pp pi)) as [A|A]; [|destruct (Nat.lt_ge_cases q (pp pi + nplaces s1)) as [B|B]].
      - rewrite (Aoa q ltac:(lia)), (Hz q Hq ltac:(unfold in_p; lia)).
        pose proof (xplace_range s1 Hf1 pi). cnt_cases.
      - rewrite (Aia q ltac:(lia)). cnt_cases.
      - rewrite (Aoa q ltac:(lia)), (Hz q Hq ltac:(unfold in_p; lia)).
        pose proof (xplace_range s1 Hf1 pi). cnt_cases. }
    destruct (Marks_fire nsa m' trc m'' Mka) as [Mkf _].
    { intros x Hx. rewrite C2 in Hx. apply Hent in Hx. unfold in_p in Hx.
      rewrite (iv_npl _ Inva). unfold nP in HP. lia. }
    { intro q. rewrite C1. destruct (Nat.eq_dec q (xplace s1 pi)) as [->|Hne].
      - rewrite (Aia _ (xplace_range s1 Hf1 pi)). cnt_cases.
      - cnt_cases. }
    { intro q. rewrite C1, C2. unfold m''. rewrite cnt_app, cnt_outside.
      destruct (inb (pp bp) (pp bp + nplaces_l l) q) eqn:E.
      - apply inb_spec in E. rewrite (Hcnt_in q E). cnt_cases.
      - apply not_true_iff_false in E. rewrite inb_spec in E.
        assert (cnt (entries s' pj) q = 0) by (apply not_in_cnt; intro Hq; apply Hent in Hq; unfold in_p in Hq; lia).
        pose proof (xplace_range s1 Hf1 pi). cnt_cases. }
    fold nsf in Mkf.
    assert (Hin'' : forall q, in_pb l bp q -> cnt m'' q = cnt (entries s' pj) q).
    { intros q Hq. unfold m''. rewrite cnt_app, cnt_outside. rewrite (proj2 (inb_spec _ _ q) Hq). lia. }
    assert (Hout'' : agrees_out (pp bp) (pp bp + nplaces_l l) m m'').
    { intros q Hq. unfold m''. rewrite cnt_app, cnt_outside.
      assert (cnt (entries s' pj) q = 0) by (apply not_in_cnt; intro Hi; apply Hent in Hi; unfold in_p in Hi; lia).
      destruct (inb (pp bp) (pp bp + nplaces_l l) q) eqn:E; [apply inb_spec in E; lia|].
      rewrite (Aoa q ltac:(lia)). lia. }
    assert (Hcxf : CX nsf ctx cid ie kl rt bp) by (apply CD_CX; eapply CD_pos; [exact Hcd|exact Hca|apply ple_refl]).
    destruct (start_block_ok f l bp ctx cid ie kl rt xcbs t2 (S i) s' g1 r' g' nsf m'' (pend0 ++ new1)
                             Hrun Hn' Hfb Hsok Hcxf Hw Hnp HP HT Ht2 Hnt2 Hx2 Invf Grf Hctxa Hlt Mkf Hin'' (Hout_out _ _ _ _ _ _ _ HO Hout''))
      as (ns2 & m2 & Hen2 & Mk2 & Ai2 & Ao2 & Hres2 & Hact2 & Hc2). fold pj in Hen2.
    pose proof Hres2 as (Inv2 & Gr2 & Ap2 & Aw2 & Sid2 & Di2).
    assert (Hgo : forall K, MS (ns, [] :: K) (nsf, startcbs s' pj ctx :: UnwE k K)).
    { intro K. eapply MS_trans; [apply Hk|].
      apply (MS_fire1 nsa m' c trc _ _ Inva Mka HcT Htrc Henc Hdisc C3 (no_parloop_startcbs _ _ _)). }
    assert (Ao2' : agrees_out (pp bp) (pp bp + nplaces_l l) m m2).
    { intros q Hq. rewrite (Ao2 q Hq). apply Hout''. exact Hq. }
    assert (Hpost2 : Post ctx ns ns2 g g' pend0 (pa bp) (pa bp + napis_l l)).
    { split; [exact Inv2|]. split.
      - eapply (Frame_trans ctx ns nsa ns2); [exact Fra| |lia|lia| |].
        + eapply (Frame_trans ctx nsa nsf ns2 (pa bp) (pa bp + napis_l l));
            [apply (Frame_fire ctx nsa trc (pa bp))|apply (Frame_of_StartRes _ _ _ _ _ _ _ _ _ Grf Hres2)|lia|lia|lia|lia].
        + lia.
        + lia.
      - exists (new1 ++ ids_opt r'). split; [rewrite Aw2, Aw1, app_assoc; reflexivity|].
        rewrite app_assoc. exact Gr2. }
    destruct r' as [[j st']|]; cbn [is_none Enters mlb actb ids_opt rchb] in *.
    - exists (bumpn (sumn k) ns2). split; [|split; [exact Hact2|exact Hc2]].
      exists m2. split; [|split; [exact Mk2|split; [exact Ai2|split; [exact Ao2'|apply Post_bumpn; exact Hpost2]]]].
      apply (Steps_after _ ns nsf ns2 k Hgo Hen2 Inv2). apply (dis_dead ns2 m2 Inv2 Mk2).
      apply (block_dis l bp ctx xcbs t2 j st' ns2 m m2 Hfb Hw Hx2 HO Ao2' Ai2 Hact2).
    - exists ns2, m2. split; [|split; [exact Mk2|split; [exact Ai2|split; [exact Ao2'|split; [exact Hpost2|exact Hc2]]]]].
      apply (Exits_after _ ns nsf ns2 k xcbs Hgo Hen2).
  Qed.

  Lemma deliver_block_S : forall f cid ie l i sti id,
      deliver_block orc imm (S f) cid ie l i sti id =
      match nth_error l i with
      | None => ret None
      | Some s1 =>
        r <- deliver orc imm f cid ie s1 sti id ;;
        match r with
        | None => ret None
        | Some st' =>
          if is_done st' then r' <- run_block orc imm f cid ie l (S i) ;; ret (Some r')
          else ret (Some (Some (i, st')))
        end
      end.
  Proof. reflexivity. Qed.

  Lemma DoneForm_widen : forall ctx cid ns m g g' pend0 plo phi alo ahi PLO PHI ALO AHI xcbs x kl,
      DoneForm ctx cid ns m g g' pend0 plo phi alo ahi xcbs x kl ->
      PLO <= plo -> phi <= PHI -> ALO <= alo -> ahi <= AHI ->
      (forall q, PLO <= q < PHI -> ~ (plo <= q < phi) -> cnt m q = 0) -> plo <= x < phi ->
      DoneForm ctx cid ns m g g' pend0 PLO PHI ALO AHI xcbs x kl.
  Proof.
    intros ctx cid ns m g g' pend0 plo phi alo ahi PLO PHI ALO AHI xcbs x kl (nsa & m' & Hex & Mka & Aia & Aoa & Hpost & Hc) H1 H2 H3 H4 Hz Hx.
    exists nsa, m'. split; [exact Hex|]. split; [exact Mka|].
    split; [|split; [eapply agrees_out_widen; [exact Aoa|lia|lia]|split; [eapply Post_widen; [exact Hpost|lia|lia]|exact Hc]]].
    eapply (agrees_in_widen plo phi); [exact Aia|exact Aoa|lia|lia|].
    intros q Hq Hnq. split; [apply Hz; assumption|]. cnt_cases.
  Qed.

  Lemma del_block_case : forall f, DelS f -> DelB (S f).
  Proof.
    intros f HS l bp ctx cid ie kl rt xcbs t2 i sti id g r g' ns m pend pend0 finp
           H Hfb Hsok Hcd Hw Hnp HP HT Ht2 Hnt2 Hx2 Hinv Hgr Hrem Hab Hctx Hlt Hm Hd Hin HO.
    destruct Hab as (Hnd & Hfresh & Ha). destruct (nth_error l i) as [s1|] eqn:En; [|contradiction].
    rewrite deliver_block_S, En in H. mstep as r1 g1 E1.
    destruct r1 as [st''|]; [|mstep; discriminate].
    set (pi := spos l bp i) in *.
    pose proof (frag_block_nth _ _ _ Hfb En) as Hf1.
    pose proof (spos_range l bp i s1 En) as Ri. fold pi in Ri.
    (* where the token was put *)
    destruct (act_dict_in N0 ns sti s1 pi ctx id Hf1 Ha (found_in _ _ _ _ _ _ _ _ _ E1)) as (fp & Hdf & Hfp).
    assert (fp = finp) by congruence. subst fp.
    assert (Hmlr : forall q, In q (ml sti s1 pi) -> in_p s1 pi q) by (intros q Hq; apply (ml_range N0 ns sti s1 pi ctx Hf1 Ha q Hq)).
    assert (Hmlb : ml_block l bp i sti = ml sti s1 pi) by (unfold ml_block; rewrite En; reflexivity).
    assert (Hz : forall q, in_pb l bp q -> ~ in_p s1 pi q -> cnt m q = 0).
    { intros q Hq Hnq. rewrite (Hin q Hq), Hmlb.
      assert (cnt (ml sti s1 pi) q = 0) by (apply not_in_cnt; intro Hi; apply Hnq; apply Hmlr; exact Hi).
      destruct (Nat.eqb_spec q finp); [subst; contradiction|lia]. }
    assert (Hin1 : forall q, in_p s1 pi q -> cnt m q = cnt (ml sti s1 pi) q + (if Nat.eqb q finp then 1 else 0)).
    { intros q Hq. rewrite <- Hmlb. apply Hin. unfold in_p, in_pb in *. lia. }
    destruct (wired_block_nth _ _ _ _ _ _ _ _ Hw En) as [W1 Wc]. fold pi in W1, Wc.
    destruct (block_stmt_ctx l bp ctx xcbs t2 i s1 m Hfb Hw En HT Ht2 Hnt2 Hx2 HO Hz) as (t2i & Et2 & T1 & T2 & T3 & Houti).
    fold pi in Et2, T1, T2, T3, Houti.
    assert (Hnpi : no_parloop (if Nat.eqb (S i) (List.length l) then xcbs else []) = true)
      by (destruct (Nat.eqb (S i) (List.length l)); [exact Hnp|reflexivity]).
    assert (Hcd1 : CD ns ctx cid ie kl rt pi (rch sti s1 pi kl)).
    { eapply CD_pos; [exact Hcd| |unfold pi; apply ple_spos].
      pose proof (cd_c0 _ _ _ _ _ _ _ _ Hcd) as Hc. unfold rch_block in Hc. rewrite En in Hc. exact Hc. }
    pose proof (HS s1 pi ctx cid ie kl rt _ t2i sti id g st'' g1 ns m pend pend0 finp E1 Hf1 (sok_block_nth _ _ _ _ _ Hsok En) Hcd1 W1 Hnpi ltac:(lia) ltac:(lia)
                   T1 T2 T3 Hinv Hgr Hrem Ha Hnd Hctx ltac:(lia) Hm Hd Hin1 Houti) as Hres.
    destruct (is_done st'') eqn:D.
    - (* statement i is complete *)
      mstep as r' g2 E2. unfold ret in H. injection H as Hr Hg. subst r g2.
      destruct (nth_error l (S i)) as [s'|] eqn:En'.
      + (* the connection fires and the block goes on *)
        assert (Elast : Nat.eqb (S i) (List.length l) = false).
        { apply Nat.eqb_neq. assert (S i < List.length l) by (apply nth_error_Some; congruence). lia. }
        rewrite Elast in Hres. subst t2i.
        exact (block_continue f l bp ctx cid ie kl rt _ xcbs t2 i s1 s' g g1 r' g' ns m pend pend0
                              Hfb Hsok Hcd Hw Hnp En En' HP HT Ht2 Hnt2 Hx2 Hinv Hgr Hctx Hlt Hz HO Houti Hres E2).
      + (* it was the last one: the block is complete *)
        assert (Elast : Nat.eqb (S i) (List.length l) = true).
        { apply Nat.eqb_eq. apply nth_error_None in En'. assert (i < List.length l) by (apply nth_error_Some; congruence). lia. }
        rewrite Elast in Hres.
        destruct f as [|f0]; [discriminate E2|]. rewrite run_block_S, En' in E2.
        unfold ret in E2. injection E2 as Hr Hg. subst r' g1.
        assert (Hi : i = List.length l - 1) by (apply Nat.eqb_eq in Elast; lia).
        assert (El : xplace_b l bp = xplace s1 pi).
        { destruct (xplace_b_nth l bp Hfb) as (sl & Hl & E). rewrite <- Hi in Hl, E. rewrite En in Hl. inversion Hl; subst sl. exact E. }
        rewrite El. eapply DoneForm_widen; [exact Hres|lia|lia|lia|lia| |apply (xplace_range s1 Hf1 pi)].
        intros q Hq Hnq. apply Hz; [exact Hq|exact Hnq].
    - (* still waiting inside statement i *)
      unfold ret in H. injection H as Hr Hg. subst r g1. destruct Hres as (ns' & (m' & St & Mk & Ai & Ao & Hpost) & Hact & Hc').
      exists ns'. split.
      + exists m'. split; [exact St|]. split; [exact Mk|].
        split; [|split; [eapply agrees_out_widen; [exact Ao|lia|lia]|eapply Post_widen; [exact Hpost|lia|lia]]].
        assert (Hmlb' : ml_block l bp i st'' = ml st'' s1 pi) by (unfold ml_block; rewrite En; reflexivity).
        rewrite Hmlb'.
        eapply (agrees_in_widen (pp pi) (pp pi + nplaces s1)); [exact Ai|exact Ao|lia|lia|].
        intros q Hq Hnq. split; [apply Hz; [exact Hq|unfold in_p; lia]|].
        apply not_in_cnt. intro Hi. destruct (ml_range N0 ns' st'' s1 pi ctx Hf1 Hact q Hi) as [Hr _]. unfold in_p in Hr. lia.
      + split; [|unfold rch_block; rewrite En; exact Hc'].
        split; [exact D|]. split; [reflexivity|rewrite En; exact Hact].
  Qed.

  Lemma del_call_case : forall f, DelB f ->
      forall t at_ ins bd p ctx cid ie kl rt xcbs t2 st id g st' g' ns m pend pend0 finp,
        deliver orc imm (S f) cid ie (XCall t at_ ins bd) st id g = Ok (Some st', g') ->
        frag (XCall t at_ ins bd) = true -> sok NC rt (XCall t at_ ins bd) = true ->
        CD ns ctx cid ie kl rt p (rch st (XCall t at_ ins bd) p kl) -> wired N0 (XCall t at_ ins bd) p ctx xcbs -> no_parloop xcbs = true ->
        pp p + nplaces (XCall t at_ ins bd) <= nP -> pt p + ntrans (XCall t at_ ins bd) <= nT ->
        t2 < nT -> ~ in_t (XCall t at_ ins bd) p t2 -> In (xplace (XCall t at_ ins bd) p) (preN N0 t2) ->
        Inv ns -> GR g ns pend -> remove_first (Nat.eqb id) pend = Some pend0 ->
        act N0 ns st (XCall t at_ ins bd) p ctx ie -> is_done st = false -> ctx_is ns ctx cid -> ctx < pa p ->
        Marks ns m -> dict_get ident_eqb (ITest id) (ns_place_dict ns) = Some finp ->
        (forall q, in_p (XCall t at_ ins bd) p q ->
                   cnt m q = cnt (ml st (XCall t at_ ins bd) p) q + (if Nat.eqb q finp then 1 else 0)) ->
        Hout (pp p) (pp p + nplaces (XCall t at_ ins bd)) (pt p) (pt p + ntrans (XCall t at_ ins bd)) t2 m ->
        if is_done st'
        then DoneForm ctx cid ns m g g' pend0 (pp p) (pp p + nplaces (XCall t at_ ins bd)) (pa p) (pa p + napis (XCall t at_ ins bd))
                      xcbs (xplace (XCall t at_ ins bd) p) kl
        else exists ns', StayForm ctx ns m g g' pend0 (pp p) (pp p + nplaces (XCall t at_ ins bd)) (pa p)
                                  (pa p + napis (XCall t at_ ins bd)) (ml st' (XCall t at_ ins bd) p) ns' /\
                         (act N0 ns' st' (XCall t at_ ins bd) p ctx ie /\ C0 ns' cid (rch st' (XCall t at_ ins bd) p kl)).
  Proof.
    intros f HB t at_ ins bd p ctx cid ie kl rt xcbs t2 st id g st' g' ns m pend pend0 finp
           H Hf Hsok Hcd Hw Hnp HP HT Ht2 Hnt2 Hx2 Hinv Hgr Hrem Hact Hnd Hctx Hlt Hm Hd Hin HO.
    pose proof (frag_call _ _ _ _ Hf) as [Hname Hfb].
    cbn [sok] in Hsok. apply andb_prop in Hsok. destruct Hsok as [Hidx Hsokb].
    destruct st as [|id0|cid' i sti|sts|b i sti|k i sti|sts]; cbn [act] in Hact; try contradiction; try discriminate Hnd.
    destruct Hact as (((il & Hapi) & Hcb0) & Hndi & Hfresh & Ha).
    cbn [wired] in Hw. destruct Hw as [Hapi0 Hwb].
    rewrite nplaces_call, ntrans_call, napis_call in *. cbn [xplace] in *.
    set (bp := body_pos t p) in *.
    assert (Hab : act_block N0 ns bd bp (pa p) i sti []) by (split; [exact Hndi|split; [exact Hfresh|exact Ha]]).
    assert (Hctx' : ctx_is ns (pa p) cid').
    { eexists; split; [exact Hapi|]. split; [reflexivity|]. split; [reflexivity|].
      destruct (proj2 (iv_cnt _ Hinv)) as (_ & U2 & _). destruct (U2 _ _ cid' Hapi eq_refl eq_refl) as [Hl|[Hz _]]; [exact Hl|lia]. }
    pose proof (cd_c0 _ _ _ _ _ _ _ _ Hcd) as Hcc. rewrite rch_call in Hcc.
    cbn [deliver] in H. mstep as r g1 E1.
    destruct r as [r|]; [|mstep; discriminate].
    assert (Hnp' : no_parloop (CbTF (pa p) :: xcbs) = true) by exact Hnp.
    assert (Hcdb : CD ns (pa p) cid' [] [] rt bp (rch_block bd bp i sti [])).
    { constructor; [exact Hcb0|split; [constructor|reflexivity]|intros key k []]. }
    pose proof (HB bd bp (pa p) cid' [] [] rt (CbTF (pa p) :: xcbs) t2 i sti id g r g1 ns m pend pend0 finp E1 Hfb Hsokb Hcdb Hwb Hnp'
                   HP HT Ht2 Hnt2 Hx2 Hinv Hgr Hrem Hab Hctx' ltac:(cbn [bp body_pos pa]; lia) Hm Hd Hin HO) as Hres.
    destruct r as [[j st'']|].
    - (* still inside the body *)
      unfold ret in H. injection H as Hs Hg. subst st' g1. cbn [is_done].
      destruct Hres as (ns' & (m' & St & Mk & Ai & Ao & Hpost) & Hab' & Hc').
      exists ns'. split.
      + exists m'. split; [exact St|]. split; [exact Mk|]. split; [rewrite ml_call; exact Ai|]. split; [exact Ao|].
        eapply Post_ctx; [exact Hpost|cbn [bp body_pos pa]; lia|cbn [bp body_pos pa]; lia|lia].
      + destruct Hab' as (D' & Fr' & A'). destruct Hpost as (_ & Fr & _).
        split; [|rewrite rch_call; apply (C0_frame (pa p) ns ns' ctx cid kl _ _ Hctx Fr); [cbn [bp body_pos pa]; lia|lia|exact Hcc]].
        cbn [act].
        split; [split; [exists il; rewrite (fr_apis _ _ _ _ _ Fr) by (cbn [bp body_pos pa]; lia); exact Hapi|exact Hc']|].
        split; [exact D'|]. split; [exact Fr'|exact A'].
    - (* the body is complete: task finished *)
      unfold bind at 1 in H. unfold emit at 1 in H.
      destruct Hres as (nsa & m' & Hex & Mka & Aia & Aoa & ((Inva & Fra & new & Aw & Gra) & Hca)).
      rewrite emit_gen_eq in H.
      unfold ret in H. injection H as Hs Hg. subst st'. cbn [is_done].
      set (a1 := reid (ITest cid') (subst_params ie ins) (call_api il t at_ ins ctx (pa p))) in *.
      assert (Hapia : nth_error (ns_apis nsa) (pa p) = Some a1).
      { rewrite (fr_apis _ _ _ _ _ Fra) by (cbn [bp body_pos pa]; lia). exact Hapi. }
      assert (Hctxa : ctx_is nsa ctx cid) by (eapply ctx_is_frame; [exact Hctx|exact Fra|cbn [bp body_pos pa]; lia]).
      assert (Hcca : C0 nsa cid kl).
      { apply (C0_frame (pa p) ns nsa ctx cid kl _ _ Hctx Fra); [cbn [bp body_pos pa]; lia|lia|exact Hcc]. }
      destruct (sim_fin TF (pa p) a1 (Some cid) false g1 g' nsa (pend0 ++ new) (pend0 ++ new) (or_intror eq_refl) Inva Gra Hapia)
        as (Hcbs & Invb & Grb & Plb & Apb & Dib).
      { cbn [octx_is a1 reid with_params with_uuid call_api a_ctx]. split; [exact Hctxa|lia]. }
      { reflexivity. }
      { rewrite <- Hg. unfold g_step. cbn [a1 reid with_params with_uuid call_api a_name a_site a_uuid a_params ident_nat].
        repeat split; reflexivity. }
      exists (notified TF a1 false nsa), m'. split.
      { eapply Exits_cb; [exact Hex| |exact Hcbs|reflexivity].
        pose proof (RunCb_TF (pa p) nsa a1 (proj1 (iv_ls _ Inva)) Hapia) as Hr.
        cbn [a1 reid with_params with_uuid call_api a_name] in Hr. rewrite Hname in Hr. exact Hr. }
      split; [eapply Marks_places; [exact Plb|exact Mka]|]. split; [exact Aia|]. split; [exact Aoa|].
      split; [|apply (C0_same nsa _ cid kl (nf_counters _ _ _ _) Hcca)].
      split; [exact Invb|]. split.
      + eapply (Frame_trans ctx ns nsa _ (pa p) (pa p + S (napis_l bd)) (pa p) (pa p + S (napis_l bd)) (pa p) (pa p));
          [apply (Frame_ctx (pa p) ctx _ _ _ _ _ _ Fra); cbn [bp body_pos pa]; lia| |lia|lia|lia|lia].
        constructor; [intros k _; rewrite Apb; reflexivity| |].
        { rewrite nf_sid, nf_tid. split; [apply Nat.le_refl|split; [apply Nat.le_refl|apply CF_same; apply nf_counters]]. }
        exists []. split; [rewrite Dib; reflexivity|constructor].
      + exists new. split; [rewrite <- Hg; exact Aw|exact Grb].
  Qed.

  (* ---- delivery into a Parallel: the branch that awaits the identifier ---- *)
  Lemma deliver_list_loc : forall fl cid ie bs sts id g sts' g',
      deliver_list orc imm fl cid (map (fun b => (ie, b)) bs) sts id g = Ok (Some sts', g') ->
      exists k b st st' f0, f0 < fl /\ nth_error bs k = Some b /\ nth_error sts k = Some st /\
                            deliver orc imm f0 cid ie b st id g = Ok (Some st', g') /\
                            sts' = update_nth k st' sts.
  Proof.
    induction fl as [|f IH]; intros cid ie bs sts id g sts' g' H; [discriminate H|].
    cbn [deliver_list] in H. destruct bs as [|b br]; cbn [map] in H; [mstep; discriminate|].
    destruct sts as [|st sr]; [mstep; discriminate|].
    mstep as r g1 E1. destruct r as [st'|].
    - unfold ret in H. injection H as Hs Hg. subst sts' g1.
      exists 0, b, st, st', f. split; [lia|]. repeat split; try reflexivity. exact E1.
    - assert (g1 = g).
      { pose proof (proj1 (deliver_eff orc imm f) _ _ _ _ _ _ _ _ E1) as D. exact D. }
      subst g1. mstep as r2 g2 E2. destruct r2 as [sr'|]; [|mstep; discriminate].
      unfold ret in H. injection H as Hs Hg. subst sts' g2.
      destruct (IH cid ie br sr id g sr' g' E2) as (k & b' & st0 & st' & f0 & Hf0 & Hb & Hs & Hd & Hu).
      exists (S k), b', st0, st', f0. split; [lia|]. split; [exact Hb|]. split; [exact Hs|]. split; [exact Hd|].
      subst sr'. reflexivity.
  Qed.

  (* the marking of the whole Parallel after one branch has moved *)
  Lemma list_finish : forall ns ns' sts bs q0 ctx k st st' b m m' finp {ie},
      frag_brs bs = true -> act_list N0 ns sts bs q0 ctx ie ->
      act_list N0 ns' (update_nth k st' sts) bs q0 ctx ie ->
      nth_error sts k = Some st -> nth_error bs k = Some b ->
      in_p b (bpos bs q0 k) finp ->
      (forall q, pp q0 <= q < pp q0 + nplaces_l bs ->
                 cnt m q = cnt (ml_list sts bs q0) q + (if Nat.eqb q finp then 1 else 0)) ->
      agrees_in (pp (bpos bs q0 k)) (pp (bpos bs q0 k) + nplaces b) m' (mlx st' b (bpos bs q0 k)) ->
      agrees_out (pp (bpos bs q0 k)) (pp (bpos bs q0 k) + nplaces b) m m' ->
      agrees_in (pp q0) (pp q0 + nplaces_l bs) m' (ml_list (update_nth k st' sts) bs q0).
  Proof.
    intros ns ns' sts bs q0 ctx k st st' b m m' finp ie Hf Ha Ha' Hs Hb Hfin Hin Ai Ao q Hq.
    destruct (list_cover_p bs q0 q Hq) as (k' & b' & Hb' & Hq').
    assert (Hlen := act_list_length _ _ _ _ _ _ Ha).
    destruct (Nat.eq_dec k' k) as [->|Hne].
    - rewrite Hb in Hb'. inversion Hb'; subst b'.
      rewrite (cnt_ml_list_at N0 ns' _ bs q0 ctx k st' b q Hf Ha' (nth_error_update_nth_eq _ _ _ _ _ Hs) Hb Hq').
      apply Ai. exact Hq'.
    - destruct (nth_error sts k') as [st0|] eqn:Hs0.
      2:{ apply nth_error_None in Hs0. assert (k' < List.length bs) by (apply nth_error_Some; congruence). lia. }
      assert (Hdis : ~ (pp (bpos bs q0 k) <= q < pp (bpos bs q0 k) + nplaces b) /\ q <> finp).
      { unfold in_p in *. destruct (Nat.lt_ge_cases k' k) as [Hlt|Hge].
        - pose proof (bpos_mono bs q0 k' k b' b Hlt Hb' Hb). lia.
        - pose proof (bpos_mono bs q0 k k' b b' ltac:(lia) Hb Hb'). lia. }
      destruct Hdis as [D1 D2].
      rewrite (Ao q D1), (Hin q Hq).
      rewrite (cnt_ml_list_at N0 ns sts bs q0 ctx k' st0 b' q Hf Ha Hs0 Hb' Hq').
      assert (Hs0' : nth_error (update_nth k st' sts) k' = Some st0) by (rewrite nth_error_update_nth_neq by congruence; exact Hs0).
      rewrite (cnt_ml_list_at N0 ns' _ bs q0 ctx k' st0 b' q Hf Ha' Hs0' Hb' Hq').
      destruct (Nat.eqb_spec q finp); [congruence|lia].
  Qed.

  Lemma all_done_update_false : forall sts k st', k < List.length sts -> is_done st' = false -> all_done (update_nth k st' sts) = false.
  Proof.
    induction sts as [|s1 sr IH]; intros k st' Hk D; [cbn in Hk; lia|].
    destruct k as [|k]; cbn [update_nth all_done].
    - rewrite D. reflexivity.
    - rewrite (IH k st' ltac:(cbn in Hk; lia) D). apply andb_false_r.
  Qed.

  Lemma all_done_false_nth : forall sts, all_done sts = false -> exists k st, nth_error sts k = Some st /\ is_done st = false.
  Proof.
    induction sts as [|s1 sr IH]; intro D; [discriminate D|]. cbn [all_done] in D.
    destruct (is_done s1) eqn:D1.
    - destruct (IH D) as (k & st & Hk & Hd). exists (S k), st. split; assumption.
    - exists 0, s1. split; [reflexivity|exact D1].
  Qed.

  (* delivery into the branches of a Parallel.  When the last branch completes, the machine
     stands (possibly some evaluations deeper) where the sync can fire *)
  Lemma psi_bpos : forall bs q k, s_pre (psi (bpos bs q k)) = s_pre (psi q).
  Proof.
    induction bs as [|b0 br IHb]; intros q k; [destruct k; reflexivity|].
    destruct k as [|k]; [reflexivity|]. cbn [bpos]. rewrite IHb. reflexivity.
  Qed.
  Lemma psi_bpos_il : forall bs q k, s_il (psi (bpos bs q k)) = s_il (psi q).
  Proof.
    induction bs as [|b0 br IHb]; intros q k; [destruct k; reflexivity|].
    destruct k as [|k]; [reflexivity|]. cbn [bpos]. rewrite IHb. reflexivity.
  Qed.

  Definition DelL (fl : nat) : Prop :=
    forall bs q0 ctx cid ie kl rt sync sts id g sts' g' ns m pend pend0 finp,
      deliver_list orc imm fl cid (map (fun b => (ie, b)) bs) sts id g = Ok (Some sts', g') ->
      frag_brs bs = true -> forallb (sok NC rt) bs = true -> CD ns ctx cid ie kl rt q0 kl -> wired_list (wired N0) ctx bs q0 ->
      pp q0 + nplaces_l bs <= nP -> pt q0 + ntrans_l bs <= nT ->
      sync < nT -> ~ (pt q0 <= sync < pt q0 + ntrans_l bs) ->
      (forall k b, nth_error bs k = Some b -> In (xplace b (bpos bs q0 k)) (preN N0 sync)) ->
      Inv ns -> GR g ns pend -> remove_first (Nat.eqb id) pend = Some pend0 ->
      act_list N0 ns sts bs q0 ctx ie -> ctx_is ns ctx cid -> ctx < pa q0 ->
      Marks ns m -> dict_get ident_eqb (ITest id) (ns_place_dict ns) = Some finp ->
      (forall q, pp q0 <= q < pp q0 + nplaces_l bs ->
                 cnt m q = cnt (ml_list sts bs q0) q + (if Nat.eqb q finp then 1 else 0)) ->
      Hout (pp q0) (pp q0 + nplaces_l bs) (pt q0) (pt q0 + ntrans_l bs) sync m ->
      exists ns' m' (k : list nat),
        (forall K, MS (ns, [] :: K) (ns', [] :: UnwE (if all_done sts' then k else []) K)) /\
        Marks ns' m' /\ agrees_in (pp q0) (pp q0 + nplaces_l bs) m' (ml_list sts' bs q0) /\
        agrees_out (pp q0) (pp q0 + nplaces_l bs) m m' /\
        Post ctx ns ns' g g' pend0 (pa q0) (pa q0 + napis_l bs) /\
        (act_list N0 ns' sts' bs q0 ctx ie /\ C0 ns' cid kl).

  Lemma del_list_case : forall fl, (forall f0, f0 < fl -> DelS f0) -> DelL fl.
  Proof.
    intros fl HS bs q0 ctx cid ie kl rt sync sts id g sts' g' ns m pend pend0 finp
           H Hf Hsok Hcd Hw HP HT Hsy Hnsy Hxs Hinv Hgr Hrem Hal Hctx Hlt Hm Hd Hin HO.
    destruct (deliver_list_loc _ _ _ _ _ _ _ _ _ H) as (k & b & st & st' & f0 & Hf0 & Hb & Hs & Hdel & ->).
    set (pk := bpos bs q0 k) in *.
    destruct (frag_brs_nth _ _ _ Hf Hb) as [Hfb Hcallb].
    assert (Hsokk : sok NC rt b = true) by (rewrite forallb_forall in Hsok; apply Hsok; eapply nth_error_In; exact Hb).
    pose proof (wired_list_nth _ _ _ _ _ _ Hw Hb) as Wk. fold pk in Wk.
    pose proof (act_list_nth _ _ _ _ _ _ _ _ _ Hal Hs Hb) as Ak. fold pk in Ak.
    pose proof (found_in _ _ _ _ _ _ _ _ _ Hdel) as Hid. pose proof (in_ids_nd _ _ Hid) as Hnd.
    pose proof (bpos_range bs q0 k b Hb) as Rk. fold pk in Rk.
    assert (Hlen := act_list_length _ _ _ _ _ _ Hal).
    destruct (act_dict_in N0 ns st b pk ctx id Hfb Ak Hid) as (fp & Hdf & Hfp).
    assert (fp = finp) by congruence. subst fp.
    assert (Hink : forall q, in_p b pk q -> cnt m q = cnt (ml st b pk) q + (if Nat.eqb q finp then 1 else 0)).
    { intros q Hq. rewrite (Hin q ltac:(unfold in_p in Hq; lia)).
      rewrite (cnt_ml_list_at N0 ns sts bs q0 ctx k st b q Hf Hal Hs Hb Hq), (mlx_nd _ _ _ Hnd). reflexivity. }
    (* the other branches *)
    assert (Hother : forall k' b' st0 q, k' <> k -> nth_error bs k' = Some b' -> nth_error sts k' = Some st0 ->
                                        in_p b' (bpos bs q0 k') q ->
                                        ~ (pp pk <= q < pp pk + nplaces b) /\ cnt m q = cnt (mlx st0 b' (bpos bs q0 k')) q).
    { intros k' b' st0 q Hkk Hb' Hs0 Q2.
      pose proof (bpos_range bs q0 k' b' Hb') as Rk'.
      assert (Hdisj : ~ (pp pk <= q < pp pk + nplaces b)).
      { unfold in_p in Q2. destruct (Nat.lt_ge_cases k' k) as [Hlt'|Hge'].
        - pose proof (bpos_mono bs q0 k' k b' b Hlt' Hb' Hb) as M0. fold pk in M0. lia.
        - pose proof (bpos_mono bs q0 k k' b b' ltac:(lia) Hb Hb') as M0. fold pk in M0. lia. }
      split; [exact Hdisj|]. rewrite (Hin q ltac:(unfold in_p in Q2; lia)).
      rewrite (cnt_ml_list_at N0 ns sts bs q0 ctx k' st0 b' q Hf Hal Hs0 Hb' Q2).
      unfold in_p in Hfp. destruct (Nat.eqb_spec q finp); [subst; lia|lia]. }
    assert (Houtk : Hout (pp pk) (pp pk + nplaces b) (pt pk) (pt pk + ntrans b) sync m).
    { intros j Hj Hnj Hne.
      destruct (Nat.lt_ge_cases j (pt q0)) as [A|A]; [|destruct (Nat.lt_ge_cases j (pt q0 + ntrans_l bs)) as [B|B]].
      - destruct (HO j Hj ltac:(lia) Hne) as (q & Q1 & Q2 & Q3). exists q. split; [exact Q1|]. split; [lia|exact Q3].
      - destruct (list_cover bs q0 j ltac:(lia)) as (k' & b' & Hb' & Hj').
        assert (Hkk : k' <> k) by (intros ->; rewrite Hb in Hb'; inversion Hb'; subst; unfold in_t in Hj'; fold pk in Hj'; lia).
        destruct (frag_brs_nth _ _ _ Hf Hb') as [Hfb' _].
        pose proof (wired_list_nth _ _ _ _ _ _ Hw Hb') as Wk'.
        destruct (nth_error sts k') as [st0|] eqn:Hs0.
        2:{ apply nth_error_None in Hs0. assert (k' < List.length bs) by (apply nth_error_Some; congruence). lia. }
        pose proof (act_list_nth _ _ _ _ _ _ _ _ _ Hal Hs0 Hb') as Ak'.
        destruct (stmt_blocked ns st0 b' _ ctx [] Hfb' Wk' Ak' j Hj') as (q & Q1 & Q2 & Q3).
        destruct (Hother k' b' st0 q Hkk Hb' Hs0 Q2) as [D1 D2].
        exists q. split; [exact Q1|]. split; [exact D1|]. apply not_in_cnt. rewrite D2. apply not_in_cnt. exact Q3.
      - destruct (HO j Hj ltac:(lia) Hne) as (q & Q1 & Q2 & Q3). exists q. split; [exact Q1|]. split; [lia|exact Q3]. }
    assert (Hcdk : CD ns ctx cid ie kl rt pk (rch st b pk kl)).
    { rewrite (rch_is_call st b pk kl Hcallb). eapply CD_pos; [exact Hcd|exact (cd_c0 _ _ _ _ _ _ _ _ Hcd)|].
      unfold pk. split; [rewrite psi_bpos; apply Nat.le_refl|rewrite psi_bpos_il; auto]. }
    pose proof (HS f0 Hf0 b pk ctx cid ie kl rt [] sync st id g st' g' ns m pend pend0 finp Hdel Hfb Hsokk Hcdk Wk eq_refl
                   ltac:(lia) ltac:(lia) Hsy ltac:(unfold in_t; lia) (Hxs k b Hb) Hinv Hgr Hrem Ak Hnd Hctx ltac:(lia)
                   Hm Hd Hink Houtk) as Hres.
    assert (Hk_lt : k < List.length sts) by (apply nth_error_Some; congruence).
    (* in all cases: a state ns', a marking m' that is [mlx st'] inside the branch *)
    assert (Hcommon : exists ns' m' (kk : list nat), (forall K, MS (ns, [] :: K) (ns', [] :: UnwE (if all_done (update_nth k st' sts) then kk else []) K)) /\
                                     Marks ns' m' /\
                                     agrees_in (pp pk) (pp pk + nplaces b) m' (mlx st' b pk) /\
                                     agrees_out (pp pk) (pp pk + nplaces b) m m' /\
                                     Post ctx ns ns' g g' pend0 (pa pk) (pa pk + napis b) /\
                                     (act N0 ns' st' b pk ctx ie /\ C0 ns' cid kl)).
    { destruct (is_done st') eqn:D.
      - destruct Hres as (nsa & m' & Hex & Mka & Aia & Aoa & Hpost & Hca).
        apply is_done_RDone in D. subst st'. cbn [mlx].
        destruct (all_done (update_nth k RDone sts)) eqn:AD.
        + destruct Hex as [kk Hkk]. exists nsa, m', kk. split; [exact Hkk|]. split; [exact Mka|].
          split; [exact Aia|]. split; [exact Aoa|]. split; [exact Hpost|split; [exact I|exact Hca]].
        + (* some other branch is not complete: the sync cannot fire, the evaluations return *)
          pose proof Hpost as (Inva & _).
          assert (Hdd : dead nsa); [|destruct (Exits_steps ns nsa Hex Inva Hdd) as [jj Hst]; exists (bumpn jj nsa), m', [];
            split; [exact Hst|split; [exact Mka|split; [exact Aia|split; [exact Aoa|split; [apply Post_bumpn; exact Hpost|split; [exact I|exact Hca]]]]]]].
          apply (dis_dead nsa m' Inva Mka). intros j Hj.
          destruct (Nat.eq_dec j sync) as [->|Hne]; [|exact (exited_only_t2 b pk ctx [] sync m m' Hfb Wk Houtk Aoa Aia j Hj Hne)].
          destruct (all_done_false_nth _ AD) as (k' & st0 & Hs0' & Hd0).
          assert (Hkk : k' <> k).
          { intros ->. rewrite (nth_error_update_nth_eq _ _ _ _ _ Hs) in Hs0'. inversion Hs0'; subst st0. discriminate Hd0. }
          rewrite nth_error_update_nth_neq in Hs0' by congruence.
          destruct (nth_error bs k') as [b'|] eqn:Hb'.
          2:{ apply nth_error_None in Hb'. assert (k' < List.length sts) by (apply nth_error_Some; congruence). lia. }
          destruct (frag_brs_nth _ _ _ Hf Hb') as [Hfb' _].
          pose proof (act_list_nth _ _ _ _ _ _ _ _ _ Hal Hs0' Hb') as Ak'.
          pose proof (xplace_range b' Hfb' (bpos bs q0 k')) as X.
          destruct (Hother k' b' st0 _ Hkk Hb' Hs0' X) as [D1 D2].
          exists (xplace b' (bpos bs q0 k')). split; [apply (Hxs k' b' Hb')|].
          apply not_in_cnt. rewrite (Aoa _ D1), D2, (mlx_nd _ _ _ Hd0). apply not_in_cnt. intro Hi.
          destruct (ml_range N0 ns st0 b' _ ctx Hfb' Ak' _ Hi) as [_ Hne]. congruence.
      - destruct Hres as (ns' & (m' & St & Mk & Ai & Ao & Hpost) & Hact & Hc').
        rewrite (rch_is_call st' b pk kl Hcallb) in Hc'.
        rewrite (all_done_update_false sts k st' Hk_lt D).
        exists ns', m', []. split; [exact St|]. split; [exact Mk|]. rewrite (mlx_nd _ _ _ D).
        split; [exact Ai|]. split; [exact Ao|]. split; [exact Hpost|split; [exact Hact|exact Hc']]. }
    destruct Hcommon as (ns' & m' & kk & St & Mk & Ai & Ao & Hpost & Hact & Hcc).
    pose proof Hpost as (Inv' & Fr' & _).
    assert (Hal' : act_list N0 ns' (update_nth k st' sts) bs q0 ctx ie).
    { apply (act_list_update N0 ns ns' sts bs q0 ctx k st' b Hf Hal Hb Hact);
        [apply (fr_apis _ _ _ _ _ Fr')|apply (fr_sid _ _ _ _ _ Fr')|apply (fr_dict _ _ _ _ _ Fr')|].
      intros a ac Ha Hq Hka Hta. destruct (fr_sid _ _ _ _ _ Fr') as (_ & _ & C). apply (C a ac Ha ltac:(lia) Hka Hta). }
    exists ns', m', kk. split; [exact St|]. split; [exact Mk|].
    split; [eapply (list_finish ns ns' sts bs q0 ctx k st st' b m m' finp); eassumption|].
    split; [eapply agrees_out_widen; [exact Ao|lia|lia]|]. split; [eapply Post_widen; [exact Hpost|lia|lia]|split; [exact Hal'|exact Hcc]].
  Qed.

  Lemma del_par_case : forall f, DelL f ->
      forall bs p ctx cid ie kl rt xcbs t2 st id g st' g' ns m pend pend0 finp,
        deliver orc imm (S f) cid ie (XParallel bs) st id g = Ok (Some st', g') ->
        frag (XParallel bs) = true -> sok NC rt (XParallel bs) = true ->
        CD ns ctx cid ie kl rt p (rch st (XParallel bs) p kl) -> wired N0 (XParallel bs) p ctx xcbs -> no_parloop xcbs = true ->
        pp p + nplaces (XParallel bs) <= nP -> pt p + ntrans (XParallel bs) <= nT ->
        t2 < nT -> ~ in_t (XParallel bs) p t2 -> In (xplace (XParallel bs) p) (preN N0 t2) ->
        Inv ns -> GR g ns pend -> remove_first (Nat.eqb id) pend = Some pend0 ->
        act N0 ns st (XParallel bs) p ctx ie -> is_done st = false -> ctx_is ns ctx cid -> ctx < pa p ->
        Marks ns m -> dict_get ident_eqb (ITest id) (ns_place_dict ns) = Some finp ->
        (forall q, in_p (XParallel bs) p q ->
                   cnt m q = cnt (ml st (XParallel bs) p) q + (if Nat.eqb q finp then 1 else 0)) ->
        Hout (pp p) (pp p + nplaces (XParallel bs)) (pt p) (pt p + ntrans (XParallel bs)) t2 m ->
        if is_done st'
        then DoneForm ctx cid ns m g g' pend0 (pp p) (pp p + nplaces (XParallel bs)) (pa p) (pa p + napis (XParallel bs))
                      xcbs (xplace (XParallel bs) p) kl
        else exists ns', StayForm ctx ns m g g' pend0 (pp p) (pp p + nplaces (XParallel bs)) (pa p)
                                  (pa p + napis (XParallel bs)) (ml st' (XParallel bs) p) ns' /\
                         (act N0 ns' st' (XParallel bs) p ctx ie /\ C0 ns' cid (rch st' (XParallel bs) p kl)).
  Proof.
    intros f HL bs p ctx cid ie kl rt xcbs t2 st id g st' g' ns m pend pend0 finp
           H Hf Hsok Hcd Hw Hnp HP HT Ht2 Hnt2 Hx2 Hinv Hgr Hrem Hact Hnd Hctx Hlt Hm Hd Hin HO.
    pose proof (frag_par _ Hf) as [Hne Hfb]. pose proof Hw as Hwall.
    destruct st as [|id0|cid' i sti|sts|b i sti|k i sti|sts]; cbn [act] in Hact; try contradiction;
      try discriminate Hnd; try (destruct Hact; contradiction).
    apply act_par in Hact. destruct Hact as [Had Hal].
    cbn [wired] in Hw. destruct Hw as (Hpre & Hpost & Hcbs & Hwl).
    rewrite nplaces_par, ntrans_par, napis_par in *. cbn [xplace] in *. unfold in_t, in_p in *.
    rewrite ?nplaces_par, ?ntrans_par in *.
    set (q0 := par_pos p) in *.
    assert (Hq0 : pp q0 = S (pp p) /\ pt q0 = S (pt p) /\ pa q0 = pa p) by (repeat split; reflexivity).
    destruct Hq0 as (Qp & Qt & Qa).
    cbn [deliver] in H. mstep as r g1 E1. destruct r as [sts'|]; [|mstep; discriminate].
    (* where the token is *)
    assert (Hid : In id (ids_list sts)).
    { destruct (in_dec Nat.eq_dec id (ids_list sts)) as [Hi|Hn]; [exact Hi|].
      destruct (proj2 (proj2 (deliver_absent orc imm f)) _ _ _ _ _ _ _ E1 Hn) as [E _]. discriminate E. }
    destruct (act_dict_in N0 ns (RPar sts) (XParallel bs) p ctx id Hf (proj2 (act_par N0 ns sts bs p ctx ie) (conj Had Hal)) Hid)
      as (fp & Hdf & Hfp).
    assert (fp = finp) by congruence. subst fp.
    rewrite ml_par in Hin. fold q0 in Hin.
    assert (Hinl : forall q, pp q0 <= q < pp q0 + nplaces_l bs ->
                             cnt m q = cnt (ml_list sts bs q0) q + (if Nat.eqb q finp then 1 else 0)).
    { intros q Hq. apply Hin. lia. }
    assert (Hfin_list : pp q0 <= finp < pp q0 + nplaces_l bs).
    { destruct (in_ids_list _ _ Hid) as (k & st0 & Hs0 & Hi0).
      assert (Hlen := act_list_length _ _ _ _ _ _ Hal).
      destruct (nth_error bs k) as [b0|] eqn:Hb0.
      2:{ apply nth_error_None in Hb0. assert (k < List.length sts) by (apply nth_error_Some; congruence). lia. }
      destruct (act_dict_in N0 ns st0 b0 _ ctx id (proj1 (frag_brs_nth _ _ _ Hfb Hb0))
                            (act_list_nth _ _ _ _ _ _ _ _ _ Hal Hs0 Hb0) Hi0) as (fp & Hdf' & Hfp').
      assert (fp = finp) by congruence. subst fp.
      pose proof (bpos_range bs q0 k b0 Hb0) as R. unfold in_p in Hfp'. lia. }
    assert (Hpfin : cnt m (pp p) = 0).
    { rewrite (Hin (pp p) ltac:(lia)).
      assert (cnt (ml_list sts bs q0) (pp p) = 0).
      { apply not_in_cnt. intro Hi. pose proof (ml_list_range N0 ns sts bs q0 ctx _ Hfb Hal Hi). lia. }
      destruct (Nat.eqb_spec (pp p) finp); lia. }
    assert (Houtl : Hout (pp q0) (pp q0 + nplaces_l bs) (pt q0) (pt q0 + ntrans_l bs) (pt p) m).
    { intros j Hj Hnj Hnes. destruct (Nat.eq_dec j t2) as [->|Hn2].
      - exists (pp p). split; [exact Hx2|]. split; [lia|]. apply not_in_cnt. exact Hpfin.
      - destruct (HO j Hj ltac:(lia) Hn2) as (q & Q1 & Q2 & Q3). exists q. split; [exact Q1|]. split; [lia|exact Q3]. }
    assert (Hxs : forall k b, nth_error bs k = Some b -> In (xplace b (bpos bs q0 k)) (preN N0 (pt p))).
    { intros k b Hb. rewrite Hpre. apply in_cat_of. exists k, b. split; [exact Hb|left; reflexivity]. }
    assert (Hcd0 : CD ns ctx cid ie kl rt q0 kl).
    { eapply CD_pos; [exact Hcd|pose proof (cd_c0 _ _ _ _ _ _ _ _ Hcd) as Hc; rewrite rch_par in Hc; exact Hc|].
      unfold q0. ple_tac. }
    cbn [sok] in Hsok.
    destruct (HL bs q0 ctx cid ie kl rt (pt p) sts id g sts' g1 ns m pend pend0 finp E1 Hfb Hsok Hcd0 Hwl ltac:(lia) ltac:(lia)
                 ltac:(lia) ltac:(lia) Hxs Hinv Hgr Hrem Hal Hctx ltac:(lia) Hm Hd Hinl Houtl)
      as (ns' & m' & kk & Hms & Mk & Ai & Ao & Hpostl & Hal' & Hcl).
    assert (Hpfin' : cnt m' (pp p) = 0) by (rewrite (Ao (pp p) ltac:(lia)); exact Hpfin).
    pose proof Hpostl as (Inv' & Fr' & new & Aw & Gr').
    destruct (all_done sts') eqn:D.
    - (* all branches are complete: the sync fires *)
      unfold ret in H. injection H as Hs Hg. subst st' g1. cbn [is_done].
      destruct (par_exit bs p ctx xcbs sts' ns' m m' Hfb Hwall Hnp ltac:(lia) ltac:(lia) Hal' D Houtl Hpfin Inv' Mk Ai Ao)
        as (tr & Hf1 & Mkf & Invf & Aif & Aof). cbv zeta in Hf1, Mkf, Invf, Aif, Aof.
      eexists. eexists. split; [exists kk; intro K; eapply MS_trans; [apply Hms|apply Hf1]|].
      split; [exact Mkf|]. split; [exact Aif|]. split; [exact Aof|].
      split; [|exact Hcl].
      split; [exact Invf|]. split.
      + destruct Fr' as [A1 S1 D1]. constructor; [intros k Hk; apply A1; lia|exact S1|exact D1].
      + exists new. split; [exact Aw|apply GR_fire; exact Gr'].
    - (* some branch is still running *)
      unfold ret in H. injection H as Hs Hg. subst st' g1. cbn [is_done].
      exists ns'. split.
      + exists m'. split; [exact Hms|]. split; [exact Mk|]. rewrite ml_par. fold q0.
        split; [|split; [eapply agrees_out_widen; [exact Ao|lia|lia]|eapply Post_widen; [exact Hpostl|lia|lia]]].
        intros q Hq. destruct (Nat.eq_dec q (pp p)) as [->|Hnq].
        * rewrite Hpfin'. symmetry. apply not_in_cnt. intro Hi.
          pose proof (ml_list_range N0 ns' sts' bs q0 ctx _ Hfb Hal' Hi). lia.
        * apply Ai. lia.
      + split; [apply act_par; split; [exact D|exact Hal']|rewrite rch_par; exact Hcl].
  Qed.

  (* ---- delivery into a Condition: the chosen branch is a block; when it is complete the
          second transition of that branch puts the token on the 'finished' place ---- *)
  Lemma del_branch : forall f, DelB f ->
      forall B cb sb x PL PH TL TH AL AH ctx cid ie kl rt xcbs t2 i sti id g r g' ns m pend pend0 finp,
        frag_block B = true -> sok_block NC rt B = true -> CD ns ctx cid ie kl rt cb (rch_block B cb i sti kl) -> wired_block (wired N0) N0 ctx [] B cb ->
        PL + 4 <= pp cb -> pp cb + nplaces_l B <= PH -> TL + 3 <= pt cb -> pt cb + ntrans_b B <= TH ->
        AL <= pa cb -> pa cb + napis_l B <= AH ->
        TL + 2 <= sb < TH -> ~ in_tb B cb sb ->
        preN N0 sb = [xplace_b B cb] -> postN N0 sb = [x] -> cbsN N0 sb = xcbs -> no_parloop xcbs = true ->
        PL <= x < PL + 4 ->
        (forall j, TL <= j < TH -> ~ in_tb B cb j -> j <> sb ->
                   exists q, In q (preN N0 j) /\ PL <= q < PH /\ ~ in_pb B cb q) ->
        PH <= nP -> TH <= nT -> t2 < nT -> ~ (TL <= t2 < TH) -> In (PL + 3) (preN N0 t2) ->
        Inv ns -> GR g ns pend -> remove_first (Nat.eqb id) pend = Some pend0 ->
        act_block N0 ns B cb ctx i sti ie -> In id (svc_ids sti) -> ctx_is ns ctx cid -> ctx < AL ->
        Marks ns m -> dict_get ident_eqb (ITest id) (ns_place_dict ns) = Some finp ->
        (forall q, PL <= q < PH -> cnt m q = cnt (ml_block B cb i sti) q + (if Nat.eqb q finp then 1 else 0)) ->
        Hout PL PH TL TH t2 m ->
        deliver_block orc imm f cid ie B i sti id g = Ok (Some r, g') ->
        match r with
        | None => DoneForm ctx cid ns m g g' pend0 PL PH AL AH xcbs x kl
        | Some (j, st') =>
          exists ns', StayForm ctx ns m g g' pend0 PL PH AL AH (ml_block B cb j st') ns' /\
                      (act_block N0 ns' B cb ctx j st' ie /\ C0 ns' cid (rch_block B cb j st' kl))
        end.
  Proof.
    intros f HB B cb sb x PL PH TL TH AL AH ctx cid ie kl rt xcbs t2 i sti id g r g' ns m pend pend0 finp
           HfB HsB Hcd WB R1 R2 R3 R4 R5 R6 Hsb Hnsb Psb Qsb Csb Hnp Hxr Hoth HP HT Ht2 Hnt2 Hx2
           Hinv Hgr Hrem Hab Hid Hctx Hlt Hm Hd Hin HO H.
    assert (Hmlr : forall q, In q (ml_block B cb i sti) -> in_pb B cb q)
      by (intros q Hq; apply (ml_range_block N0 ns B cb ctx i sti HfB Hab q Hq)).
    assert (Hfin : in_pb B cb finp).
    { pose proof Hab as (_ & _ & Ha). destruct (nth_error B i) as [s1|] eqn:En; [|contradiction].
      destruct (act_dict_in N0 ns sti s1 _ ctx id (frag_block_nth _ _ _ HfB En) Ha Hid) as (fp & Hdf & Hfp).
      assert (fp = finp) by congruence. subst fp. pose proof (spos_range B cb i s1 En). unfold in_p, in_pb in *. lia. }
    assert (Hz : forall q, PL <= q < PH -> ~ in_pb B cb q -> cnt m q = 0).
    { intros q Hq Hnq. rewrite (Hin q Hq).
      assert (cnt (ml_block B cb i sti) q = 0) by (apply not_in_cnt; intro Hi; apply Hnq, Hmlr, Hi).
      destruct (Nat.eqb_spec q finp); [subst; contradiction|lia]. }
    assert (HoutB : Hout (pp cb) (pp cb + nplaces_l B) (pt cb) (pt cb + ntrans_b B) sb m).
    { intros j Hj Hnj Hne.
      destruct (Nat.lt_ge_cases j TL) as [A|A]; [|destruct (Nat.lt_ge_cases j TH) as [B0|B0]].
      - destruct (Nat.eq_dec j t2) as [->|Hn2].
        + exists (PL + 3). split; [exact Hx2|]. split; [lia|]. apply not_in_cnt. apply Hz; [lia|unfold in_pb; lia].
        + destruct (HO j Hj ltac:(lia) Hn2) as (q & Q1 & Q2 & Q3). exists q. split; [exact Q1|]. split; [lia|exact Q3].
      - destruct (Hoth j ltac:(lia) ltac:(unfold in_tb; lia) Hne) as (q & Q1 & Q2 & Q3).
        exists q. split; [exact Q1|]. split; [unfold in_pb in Q3; exact Q3|]. apply not_in_cnt. apply Hz; assumption.
      - destruct (Nat.eq_dec j t2) as [->|Hn2].
        + exists (PL + 3). split; [exact Hx2|]. split; [lia|]. apply not_in_cnt. apply Hz; [lia|unfold in_pb; lia].
        + destruct (HO j Hj ltac:(lia) Hn2) as (q & Q1 & Q2 & Q3). exists q. split; [exact Q1|]. split; [lia|exact Q3]. }
    assert (Hinb : forall q, in_pb B cb q -> cnt m q = cnt (ml_block B cb i sti) q + (if Nat.eqb q finp then 1 else 0)).
    { intros q Hq. apply Hin. unfold in_pb in Hq. lia. }
    pose proof (HB B cb ctx cid ie kl rt [] sb i sti id g r g' ns m pend pend0 finp H HfB HsB Hcd WB eq_refl ltac:(lia) ltac:(lia) ltac:(lia) Hnsb
                   ltac:(rewrite Psb; left; reflexivity) Hinv Hgr Hrem Hab Hctx ltac:(lia) Hm Hd Hinb HoutB) as Hres.
    destruct r as [[j st'']|].
    - destruct Hres as (ns' & (m' & St & Mk & Ai & Ao & Hpost) & Hab' & Hc').
      exists ns'. split; [|split; [exact Hab'|exact Hc']].
      exists m'. split; [exact St|]. split; [exact Mk|].
      split; [|split; [eapply agrees_out_widen; [exact Ao|lia|lia]|eapply Post_widen; [exact Hpost|lia|lia]]].
      eapply (agrees_in_widen (pp cb) (pp cb + nplaces_l B)); [exact Ai|exact Ao|lia|lia|].
      intros q Hq Hnq. split; [apply Hz; [exact Hq|exact Hnq]|].
      apply not_in_cnt. intro Hi. apply (ml_range_block N0 ns' B cb ctx j st'' HfB Hab' q) in Hi. apply Hnq. apply Hi.
    - destruct Hres as (nsa & m' & [k Hk] & Mka & Aia & Aoa & ((Inva & Fra & new & Aw & Gra) & Hca)).
      destruct (block_exit B cb sb x PL PH xcbs ctx nsa m m' HfB WB R1 R2 HP ltac:(lia) Hxr Psb Qsb Csb Hnp HoutB Hz Inva Mka Aia Aoa)
        as (trs & Hms & Mk5 & Inv5 & Ai5 & Ao5). cbv zeta in Hms, Mk5, Inv5, Ai5, Ao5.
      eexists. eexists. split; [exists k; intro K; eapply MS_trans; [apply Hk|apply Hms]|].
      split; [exact Mk5|]. split; [exact Ai5|]. split; [exact Ao5|].
      split; [|exact Hca].
      split; [exact Inv5|]. split.
      + destruct Fra as [A1 (S1 & S2 & C1) D1]. constructor; [intros k0 Hk0; apply A1; lia| |exact D1].
        split; [exact S1|]. split; [exact S2|]. intros k0 ac0 Hk0. apply C1. lia.
      + exists new. split; [exact Aw|apply GR_fire; exact Gra].
  Qed.

  Lemma del_cond_branch : forall f, DelB f ->
      forall B cb sb PL PH TL TH AL AH ctx cid ie kl rt xcbs t2 i sti id g r g' ns m pend pend0 finp,
        frag_block B = true -> sok_block NC rt B = true -> CD ns ctx cid ie kl rt cb (rch_block B cb i sti kl) -> wired_block (wired N0) N0 ctx [] B cb ->
        PL + 4 <= pp cb -> pp cb + nplaces_l B <= PH -> TL + 3 <= pt cb -> pt cb + ntrans_b B <= TH ->
        AL <= pa cb -> pa cb + napis_l B <= AH ->
        TL + 2 <= sb < TH -> ~ in_tb B cb sb ->
        preN N0 sb = [xplace_b B cb] -> postN N0 sb = [PL + 3] -> cbsN N0 sb = xcbs -> no_parloop xcbs = true ->
        (forall j, TL <= j < TH -> ~ in_tb B cb j -> j <> sb ->
                   exists q, In q (preN N0 j) /\ PL <= q < PH /\ ~ in_pb B cb q) ->
        PH <= nP -> TH <= nT -> t2 < nT -> ~ (TL <= t2 < TH) -> In (PL + 3) (preN N0 t2) ->
        Inv ns -> GR g ns pend -> remove_first (Nat.eqb id) pend = Some pend0 ->
        act_block N0 ns B cb ctx i sti ie -> In id (svc_ids sti) -> ctx_is ns ctx cid -> ctx < AL ->
        Marks ns m -> dict_get ident_eqb (ITest id) (ns_place_dict ns) = Some finp ->
        (forall q, PL <= q < PH -> cnt m q = cnt (ml_block B cb i sti) q + (if Nat.eqb q finp then 1 else 0)) ->
        Hout PL PH TL TH t2 m ->
        deliver_block orc imm f cid ie B i sti id g = Ok (Some r, g') ->
        match r with
        | None => DoneForm ctx cid ns m g g' pend0 PL PH AL AH xcbs (PL + 3) kl
        | Some (j, st') =>
          exists ns', StayForm ctx ns m g g' pend0 PL PH AL AH (ml_block B cb j st') ns' /\
                      (act_block N0 ns' B cb ctx j st' ie /\ C0 ns' cid (rch_block B cb j st' kl))
        end.
  Proof.
    intros f HB B cb sb PL PH TL TH AL AH ctx cid ie kl rt xcbs t2 i sti id g r g' ns m pend pend0 finp
           HfB HsB Hcd WB R1 R2 R3 R4 R5 R6 Hsb Hnsb Psb Qsb Csb Hnp.
    apply (del_branch f HB B cb sb (PL + 3) PL PH TL TH AL AH ctx cid ie kl rt xcbs t2 i sti id g r g' ns m pend pend0 finp
                      HfB HsB Hcd WB R1 R2 R3 R4 R5 R6 Hsb Hnsb Psb Qsb Csb Hnp). lia.
  Qed.

  Lemma del_cond_case : forall f, DelB f ->
      forall e P F p ctx cid ie kl rt xcbs t2 st id g st' g' ns m pend pend0 finp,
        deliver orc imm (S f) cid ie (XCond e P F) st id g = Ok (Some st', g') ->
        frag (XCond e P F) = true -> sok NC rt (XCond e P F) = true ->
        CD ns ctx cid ie kl rt p (rch st (XCond e P F) p kl) -> wired N0 (XCond e P F) p ctx xcbs -> no_parloop xcbs = true ->
        pp p + nplaces (XCond e P F) <= nP -> pt p + ntrans (XCond e P F) <= nT ->
        t2 < nT -> ~ in_t (XCond e P F) p t2 -> In (xplace (XCond e P F) p) (preN N0 t2) ->
        Inv ns -> GR g ns pend -> remove_first (Nat.eqb id) pend = Some pend0 ->
        act N0 ns st (XCond e P F) p ctx ie -> is_done st = false -> ctx_is ns ctx cid -> ctx < pa p ->
        Marks ns m -> dict_get ident_eqb (ITest id) (ns_place_dict ns) = Some finp ->
        (forall q, in_p (XCond e P F) p q ->
                   cnt m q = cnt (ml st (XCond e P F) p) q + (if Nat.eqb q finp then 1 else 0)) ->
        Hout (pp p) (pp p + nplaces (XCond e P F)) (pt p) (pt p + ntrans (XCond e P F)) t2 m ->
        if is_done st'
        then DoneForm ctx cid ns m g g' pend0 (pp p) (pp p + nplaces (XCond e P F)) (pa p) (pa p + napis (XCond e P F))
                      xcbs (xplace (XCond e P F) p) kl
        else exists ns', StayForm ctx ns m g g' pend0 (pp p) (pp p + nplaces (XCond e P F)) (pa p)
                                  (pa p + napis (XCond e P F)) (ml st' (XCond e P F) p) ns' /\
                         (act N0 ns' st' (XCond e P F) p ctx ie /\ C0 ns' cid (rch st' (XCond e P F) p kl)).
  Proof.
    intros f HB e P F p ctx cid ie kl rt xcbs t2 st id g st' g' ns m pend pend0 finp
           H Hf Hsok Hcd Hw Hnp HP HT Ht2 Hnt2 Hx2 Hinv Hgr Hrem Hact Hnd Hctx Hlt Hm Hd Hin HO.
    destruct st as [|id0|cid' i sti|sts|b i sti|k i sti|sts]; cbn [act] in Hact; try contradiction; try discriminate Hnd.
    pose proof (found_in _ _ _ _ _ _ _ _ _ H) as Hid. cbn [svc_ids] in Hid.
    change (act_block N0 ns (if b then P else F) (if b then cond_p p else cond_f P p) ctx i sti ie) in Hact. rewrite ml_cond in Hin.
    cbn [sok] in Hsok. apply andb_prop in Hsok. destruct Hsok as [HsP HsF].
    rewrite rch_cond in Hcd.
    assert (HcdP : b = true -> CD ns ctx cid ie kl rt (cond_p p) (rch_block P (cond_p p) i sti kl)).
    { intros ->. eapply CD_pos; [exact Hcd|exact (cd_c0 _ _ _ _ _ _ _ _ Hcd)|]. ple_tac. }
    assert (HcdF : b = false -> CD ns ctx cid ie kl rt (cond_f P p) (rch_block F (cond_f P p) i sti kl)).
    { intros ->. eapply CD_pos; [exact Hcd|exact (cd_c0 _ _ _ _ _ _ _ _ Hcd)|]. ple_tac. }
    destruct (list_nil_dec F) as [->|HneF].
    { (* no Failed block: the Passed block is active *)
      destruct b; [|destruct Hact as (_ & _ & Hact); destruct i; contradiction].
      pose proof (frag_cond0 _ _ Hf) as HfP.
      rewrite nplaces_cond, ntrans_cond0, napis_cond in *. unfold in_t, in_p in *. rewrite ?nplaces_cond, ?ntrans_cond0 in *.
      change (nplaces_l (@nil xstmt)) with 0 in *. change (napis_l (@nil xstmt)) with 0 in *. rewrite ?Nat.add_0_r in *.
      cbn [xplace] in *.
      cbn [wired] in Hw. destruct Hw as (W1 & W2 & W3 & W4 & W5 & W6 & W7 & W8 & W9 & WP).
      pose proof (xplace_range_b P HfP (cond_p p)) as XP. cbn [cond_p pp] in XP.
      cbn [deliver] in H. mstep as r g1 E1. destruct r as [r|]; [|mstep; discriminate].
      pose proof (del_cond_branch f HB P (cond_p p) (pt p + 2)
                 (pp p) (pp p + (4 + nplaces_l P)) (pt p) (pt p + (3 + ntrans_b P))
                 (pa p) (pa p + napis_l P) ctx cid ie kl rt xcbs t2 i sti id g r g1 ns m pend pend0 finp HfP HsP (HcdP eq_refl) WP
                 ltac:(cbn [cond_p pp]; lia) ltac:(cbn [cond_p pp]; lia) ltac:(cbn [cond_p pt]; lia)
                 ltac:(cbn [cond_p pt]; lia) ltac:(cbn [cond_p pa]; lia) ltac:(cbn [cond_p pa]; lia)
                 ltac:(lia) ltac:(unfold in_tb; cbn [cond_p pt]; lia) W7 W8 W9 Hnp) as Hres.
      assert (Hoth : forall j, pt p <= j < pt p + (3 + ntrans_b P) -> ~ in_tb P (cond_p p) j -> j <> pt p + 2 ->
                               exists q, In q (preN N0 j) /\ pp p <= q < pp p + (4 + nplaces_l P) /\ ~ in_pb P (cond_p p) q).
      { intros j Hj Hnj Hns. unfold in_tb in Hnj. cbn [cond_p pt] in Hnj.
        destruct (Nat.eq_dec j (pt p)) as [->|N0']; [|assert (j = pt p + 1) by lia; subst j].
        - exists (pp p). rewrite W1. split; [right; left; reflexivity|]. unfold in_pb. cbn [cond_p pp]. split; lia.
        - exists (pp p + 1). rewrite W4. split; [right; left; reflexivity|]. unfold in_pb. cbn [cond_p pp]. split; lia. }
      specialize (Hres Hoth HP HT Ht2 Hnt2 Hx2 Hinv Hgr Hrem Hact Hid Hctx Hlt Hm Hd Hin HO E1).
      destruct r as [[j st'']|].
      - unfold ret in H. injection H as Hs Hg. subst st' g1. cbn [is_done].
        destruct Hres as (ns' & Hstay & Hab' & Hc'). exists ns'. split; [rewrite ml_cond; exact Hstay|split; [rewrite act_cond; exact Hab'|rewrite rch_cond; exact Hc']].
      - unfold ret in H. injection H as Hs Hg. subst st' g1. cbn [is_done]. exact Hres. }
    pose proof (frag_cond_ne _ _ _ HneF Hf) as [HfP HfF].
    rewrite nplaces_cond, (ntrans_cond_ne _ _ _ HneF), napis_cond in *. unfold in_t, in_p in *.
    rewrite ?nplaces_cond, ?(ntrans_cond_ne _ _ _ HneF) in *.
    cbn [xplace] in *.
    rewrite (wired_cond_ne _ _ _ _ _ _ _ HneF) in Hw. destruct Hw as (W1 & W2 & W3 & W4 & W5 & W6 & W7 & W8 & W9 & W10 & W11 & W12 & WP & WF).
    pose proof (xplace_range_b P HfP (cond_p p)) as XP. cbn [cond_p pp] in XP.
    pose proof (xplace_range_b F HfF (cond_f P p)) as XF. cbn [cond_f pp] in XF.
    cbn [deliver] in H. mstep as r g1 E1. destruct r as [r|]; [|mstep; discriminate].
    assert (Hres : match r with
        | None => DoneForm ctx cid ns m g g1 pend0 (pp p) (pp p + (4 + nplaces_l P + nplaces_l F)) (pa p) (pa p + (napis_l P + napis_l F))
                           xcbs (pp p + 3) kl
        | Some (j, st') =>
          exists ns', StayForm ctx ns m g g1 pend0 (pp p) (pp p + (4 + nplaces_l P + nplaces_l F)) (pa p) (pa p + (napis_l P + napis_l F))
                               (ml_block (if b then P else F) (if b then cond_p p else cond_f P p) j st') ns' /\
                      (act_block N0 ns' (if b then P else F) (if b then cond_p p else cond_f P p) ctx j st' ie /\
                       C0 ns' cid (rch_block (if b then P else F) (if b then cond_p p else cond_f P p) j st' kl))
        end).
    { destruct b.
      - apply (del_cond_branch f HB P (cond_p p) (pt p + 2)
                 (pp p) (pp p + (4 + nplaces_l P + nplaces_l F)) (pt p) (pt p + (4 + ntrans_b P + ntrans_b F))
                 (pa p) (pa p + (napis_l P + napis_l F)) ctx cid ie kl rt xcbs t2 i sti id g r g1 ns m pend pend0 finp HfP HsP (HcdP eq_refl) WP);
          try assumption; try (cbn [cond_p pp pt pa]; lia).
        + unfold in_tb. cbn [cond_p pt]. lia.
        + intros j Hj Hnj Hns. unfold in_tb in Hnj. cbn [cond_p pt] in Hnj.
          destruct (Nat.eq_dec j (pt p)) as [->|N0'];
            [|destruct (Nat.eq_dec j (pt p + 1)) as [->|N1]; [|destruct (Nat.eq_dec j (cond_sf P p)) as [->|N3]]].
          * exists (pp p). rewrite W1. split; [right; left; reflexivity|]. unfold in_pb. cbn [cond_p pp]. split; lia.
          * exists (pp p + 1). rewrite W4. split; [right; left; reflexivity|]. unfold in_pb. cbn [cond_p pp]. split; lia.
          * exists (xplace_b F (cond_f P p)). rewrite W10. split; [left; reflexivity|]. unfold in_pb. cbn [cond_p pp]. split; lia.
          * unfold cond_sf in N3.
            destruct (exit_blocked_block N0 F (cond_f P p) ctx [] HfF WF j ltac:(unfold in_tb; cbn [cond_f pt]; lia)) as (q & Q1 & Q2 & _).
            exists q. split; [exact Q1|]. unfold in_pb in *. cbn [cond_f cond_p pp] in *. split; lia.
      - apply (del_cond_branch f HB F (cond_f P p) (cond_sf P p)
                 (pp p) (pp p + (4 + nplaces_l P + nplaces_l F)) (pt p) (pt p + (4 + ntrans_b P + ntrans_b F))
                 (pa p) (pa p + (napis_l P + napis_l F)) ctx cid ie kl rt xcbs t2 i sti id g r g1 ns m pend pend0 finp HfF HsF (HcdF eq_refl) WF);
          try assumption; try (unfold cond_sf; cbn [cond_f pp pt pa]; lia).
        + unfold in_tb, cond_sf. cbn [cond_f pt]. lia.
        + intros j Hj Hnj Hns. unfold in_tb in Hnj. cbn [cond_f pt] in Hnj. unfold cond_sf in Hns.
          destruct (Nat.eq_dec j (pt p)) as [->|N0'];
            [|destruct (Nat.eq_dec j (pt p + 1)) as [->|N1]; [|destruct (Nat.eq_dec j (pt p + 2)) as [->|N3]]].
          * exists (pp p). rewrite W1. split; [right; left; reflexivity|]. unfold in_pb. cbn [cond_f pp]. split; lia.
          * exists (pp p + 1). rewrite W4. split; [right; left; reflexivity|]. unfold in_pb. cbn [cond_f pp]. split; lia.
          * exists (xplace_b P (cond_p p)). rewrite W7. split; [left; reflexivity|]. unfold in_pb. cbn [cond_f pp]. split; lia.
          * destruct (exit_blocked_block N0 P (cond_p p) ctx [] HfP WP j ltac:(unfold in_tb; cbn [cond_p pt]; lia)) as (q & Q1 & Q2 & _).
            exists q. split; [exact Q1|]. unfold in_pb in *. cbn [cond_f cond_p pp] in *. split; lia. }
    destruct r as [[j st'']|].
    - unfold ret in H. injection H as Hs Hg. subst st' g1. cbn [is_done].
      destruct Hres as (ns' & Hstay & Hab' & Hc'). exists ns'. split; [rewrite ml_cond; exact Hstay|split; [rewrite act_cond; exact Hab'|rewrite rch_cond; exact Hc']].
    - unfold ret in H. injection H as Hs Hg. subst st' g1. cbn [is_done]. exact Hres.
  Qed.

  Theorem loop_ok : forall f, LoopOK f.
  Proof. intro f. apply loop_case. intros f0 _. apply start_ok. Qed.
  Theorem count_ok : forall f, CountOK f.
  Proof. intro f. apply count_case. intros f0 _. apply start_ok. Qed.


  (* ---- delivery into a while loop: into the body; when the body is complete the iteration
          transition fires and the test runs again ---- *)
  Lemma del_while_case : forall f, DelB f ->
      forall e B p ctx cid ie kl rt xcbs t2 st id g st' g' ns m pend pend0 finp,
        deliver orc imm (S f) cid ie (XWhile e B) st id g = Ok (Some st', g') ->
        frag (XWhile e B) = true -> sok NC rt (XWhile e B) = true ->
        CD ns ctx cid ie kl rt p (rch st (XWhile e B) p kl) -> wired N0 (XWhile e B) p ctx xcbs -> no_parloop xcbs = true ->
        pp p + nplaces (XWhile e B) <= nP -> pt p + ntrans (XWhile e B) <= nT ->
        t2 < nT -> ~ in_t (XWhile e B) p t2 -> In (xplace (XWhile e B) p) (preN N0 t2) ->
        Inv ns -> GR g ns pend -> remove_first (Nat.eqb id) pend = Some pend0 ->
        act N0 ns st (XWhile e B) p ctx ie -> is_done st = false -> ctx_is ns ctx cid -> ctx < pa p ->
        Marks ns m -> dict_get ident_eqb (ITest id) (ns_place_dict ns) = Some finp ->
        (forall q, in_p (XWhile e B) p q ->
                   cnt m q = cnt (ml st (XWhile e B) p) q + (if Nat.eqb q finp then 1 else 0)) ->
        Hout (pp p) (pp p + nplaces (XWhile e B)) (pt p) (pt p + ntrans (XWhile e B)) t2 m ->
        if is_done st'
        then DoneForm ctx cid ns m g g' pend0 (pp p) (pp p + nplaces (XWhile e B)) (pa p) (pa p + napis (XWhile e B))
                      xcbs (xplace (XWhile e B) p) kl
        else exists ns', StayForm ctx ns m g g' pend0 (pp p) (pp p + nplaces (XWhile e B)) (pa p)
                                  (pa p + napis (XWhile e B)) (ml st' (XWhile e B) p) ns' /\
                         (act N0 ns' st' (XWhile e B) p ctx ie /\ C0 ns' cid (rch st' (XWhile e B) p kl)).
  Proof.
    intros f HB e B p ctx cid ie kl rt xcbs t2 st id g st' g' ns m pend pend0 finp
           H Hf Hsok Hcd Hw Hnp HP HT Ht2 Hnt2 Hx2 Hinv Hgr Hrem Hact Hnd Hctx Hlt Hm Hd Hin HO.
    destruct st as [|id0|cid' i sti|sts|b i sti|k i sti|sts]; cbn [act] in Hact; try contradiction; try discriminate Hnd.
    pose proof (found_in _ _ _ _ _ _ _ _ _ H) as Hid. cbn [svc_ids] in Hid.
    change (act_block N0 ns B (loop_p p) ctx i sti ie) in Hact. rewrite ml_loop in Hin.
    pose proof Hsok as HsB. cbn [sok] in HsB. rewrite rch_loop in Hcd.
    assert (HcdB : CD ns ctx cid ie kl rt (loop_p p) (rch_block B (loop_p p) i sti kl)).
    { eapply CD_pos; [exact Hcd|exact (cd_c0 _ _ _ _ _ _ _ _ Hcd)|]. ple_tac. }
    pose proof (frag_while _ _ Hf) as HfB. pose proof Hw as Hwall. pose proof HO as HOall. pose proof Hx2 as Hx2all.
    pose proof HP as HPall. pose proof HT as HTall. pose proof Hnt2 as Hnt2all.
    rewrite nplaces_while, ntrans_while, napis_while in *. unfold in_t, in_p in *. rewrite ?nplaces_while, ?ntrans_while in *.
    cbn [xplace] in Hx2 |- *.
    cbn [wired] in Hw. destruct Hw as (W1 & W2 & W3 & W4 & W5 & W6 & W7 & W8 & W9 & WB).
    pose proof (xplace_range_b B HfB (loop_p p)) as XB. cbn [loop_p pp] in XB.
    set (CW := CbWhile e (pp p + 1) (pp p + 2) ctx) in *.
    cbn [deliver] in H. mstep as r g1 E1. destruct r as [r|]; [|mstep; discriminate].
    pose proof (del_branch f HB B (loop_p p) (pt p + 2) (pp p)
                 (pp p) (pp p + (4 + nplaces_l B)) (pt p) (pt p + (3 + ntrans_b B))
                 (pa p) (pa p + napis_l B) ctx cid ie kl rt [CW] t2 i sti id g r g1 ns m pend pend0 finp HfB HsB HcdB WB
                 ltac:(cbn [loop_p pp]; lia) ltac:(cbn [loop_p pp]; lia) ltac:(cbn [loop_p pt]; lia)
                 ltac:(cbn [loop_p pt]; lia) ltac:(cbn [loop_p pa]; lia) ltac:(cbn [loop_p pa]; lia)
                 ltac:(lia) ltac:(unfold in_tb; cbn [loop_p pt]; lia) W7 W8 W9 eq_refl ltac:(lia)) as Hres.
    assert (Hoth : forall j, pt p <= j < pt p + (3 + ntrans_b B) -> ~ in_tb B (loop_p p) j -> j <> pt p + 2 ->
                             exists q, In q (preN N0 j) /\ pp p <= q < pp p + (4 + nplaces_l B) /\ ~ in_pb B (loop_p p) q).
    { intros j Hj Hnj Hns. unfold in_tb in Hnj. cbn [loop_p pt] in Hnj.
      destruct (Nat.eq_dec j (pt p)) as [->|N0']; [|assert (j = pt p + 1) by lia; subst j].
      - exists (pp p). rewrite W1. split; [left; reflexivity|]. unfold in_pb. cbn [loop_p pp]. split; lia.
      - exists (pp p). rewrite W4. split; [left; reflexivity|]. unfold in_pb. cbn [loop_p pp]. split; lia. }
    specialize (Hres Hoth HP HT Ht2 Hnt2 Hx2 Hinv Hgr Hrem Hact Hid Hctx Hlt Hm Hd Hin HO E1).
    destruct r as [[j st'']|].
    - (* still inside the body *)
      unfold ret in H. injection H as Hs Hg. subst st' g1. cbn [is_done].
      destruct Hres as (ns' & Hstay & Hab' & Hc'). exists ns'. split; [rewrite ml_loop; exact Hstay|split; [rewrite act_loop; exact Hab'|rewrite rch_loop; exact Hc']].
    - (* the body is complete: the iteration transition has fired, the test runs again *)
      mstep as st2 g2 E2. unfold ret in H. injection H as Hs Hg. subst st' g2.
      destruct Hres as (ns5 & m5 & [kk Hkk] & Mk5 & Ai5 & Ao5 & ((Inv5 & Fr5 & new & Aw5 & Gr5) & Hc5)).
      assert (Hctx5 : ctx_is ns5 ctx cid) by (eapply ctx_is_frame; [exact Hctx|exact Fr5|lia]).
      assert (Hcx5 : CX ns5 ctx cid ie kl rt p) by (apply CD_CX; eapply CD_pos; [exact Hcd|exact Hc5|apply ple_refl]).
      destruct (loop_ok f e B p ctx cid ie kl rt xcbs t2 (S k) g1 st2 g' ns5 m5 (pend0 ++ new) E2 Hf Hsok Hcx5 Hwall Hnp HPall HTall Ht2 Hnt2all Hx2all
                        Inv5 Gr5 Hctx5 Hlt Mk5)
        as (ns6 & m6 & Hen & Mk6 & Ai6 & Ao6 & Hres6 & Hact6 & Hc6).
      { unfold in_p. rewrite nplaces_while. intros q Hq. cbn [entries]. exact (Ai5 q Hq). }
      { rewrite nplaces_while, ntrans_while. exact (Hout_out _ _ _ _ _ _ _ HO Ao5). }
      rewrite ?nplaces_while, ?napis_while in *. cbn [startcbs] in Hen. fold CW in Hen.
      pose proof Hres6 as (Inv6 & Gr6 & Ap6 & Aw6 & Sid6 & Di6).
      assert (Ao6' : agrees_out (pp p) (pp p + (4 + nplaces_l B)) m m6).
      { intros q Hq. rewrite (Ao6 q Hq). apply Ao5. exact Hq. }
      assert (Hpost6 : Post ctx ns ns6 g g' pend0 (pa p) (pa p + napis_l B)).
      { split; [exact Inv6|]. split.
        - eapply (Frame_trans ctx ns ns5 ns6); [exact Fr5|apply (Frame_of_StartRes _ _ _ _ _ _ _ _ _ Gr5 Hres6)|lia|lia|lia|lia].
        - exists (new ++ svc_ids st2). split; [rewrite Aw6, Aw5, app_assoc; reflexivity|].
          rewrite app_assoc. exact Gr6. }
      destruct (is_done st2) eqn:D; cbn [Enters] in Hen.
      + pose proof (is_done_RDone _ D) as ->. cbn [mlx xplace] in Ai6.
        exists ns6, m6. split; [|split; [exact Mk6|split; [exact Ai6|split; [exact Ao6'|split; [exact Hpost6|exact Hc6]]]]].
        apply (Exits_after [CW] ns ns5 ns6 kk xcbs Hkk Hen).
      + rewrite (mlx_nd _ _ _ D) in Ai6. exists (bumpn (sumn kk) ns6). split; [|split; [exact Hact6|exact Hc6]].
        exists m6. split; [|split; [exact Mk6|split; [exact Ai6|split; [exact Ao6'|apply Post_bumpn; exact Hpost6]]]].
        apply (Steps_after [CW] ns ns5 ns6 kk Hkk Hen Inv6). apply (dis_dead ns6 m6 Inv6 Mk6).
        apply (stmt_dis (ie := ie) (XWhile e B) p ctx xcbs t2 st2 ns6 m m6 Hf Hwall D Hx2all); rewrite ?nplaces_while, ?ntrans_while; assumption.
  Qed.

  Lemma del_count_case : forall f, DelB f ->
      forall v lim B p ctx cid ie kl rt xcbs t2 st id g st' g' ns m pend pend0 finp,
        deliver orc imm (S f) cid ie (XCount v lim B) st id g = Ok (Some st', g') ->
        frag (XCount v lim B) = true -> sok NC rt (XCount v lim B) = true ->
        CD ns ctx cid ie kl rt p (rch st (XCount v lim B) p kl) -> wired N0 (XCount v lim B) p ctx xcbs -> no_parloop xcbs = true ->
        pp p + nplaces (XCount v lim B) <= nP -> pt p + ntrans (XCount v lim B) <= nT ->
        t2 < nT -> ~ in_t (XCount v lim B) p t2 -> In (xplace (XCount v lim B) p) (preN N0 t2) ->
        Inv ns -> GR g ns pend -> remove_first (Nat.eqb id) pend = Some pend0 ->
        act N0 ns st (XCount v lim B) p ctx ie -> is_done st = false -> ctx_is ns ctx cid -> ctx < pa p ->
        Marks ns m -> dict_get ident_eqb (ITest id) (ns_place_dict ns) = Some finp ->
        (forall q, in_p (XCount v lim B) p q ->
                   cnt m q = cnt (ml st (XCount v lim B) p) q + (if Nat.eqb q finp then 1 else 0)) ->
        Hout (pp p) (pp p + nplaces (XCount v lim B)) (pt p) (pt p + ntrans (XCount v lim B)) t2 m ->
        if is_done st'
        then DoneForm ctx cid ns m g g' pend0 (pp p) (pp p + nplaces (XCount v lim B)) (pa p) (pa p + napis (XCount v lim B))
                      xcbs (xplace (XCount v lim B) p) kl
        else exists ns', StayForm ctx ns m g g' pend0 (pp p) (pp p + nplaces (XCount v lim B)) (pa p)
                                  (pa p + napis (XCount v lim B)) (ml st' (XCount v lim B) p) ns' /\
                         (act N0 ns' st' (XCount v lim B) p ctx ie /\ C0 ns' cid (rch st' (XCount v lim B) p kl)).
  Proof.
    intros f HB v lim B p ctx cid ie kl rt xcbs t2 st id g st' g' ns m pend pend0 finp
           H Hf Hsok Hcd Hw Hnp HP HT Ht2 Hnt2 Hx2 Hinv Hgr Hrem Hact Hnd Hctx Hlt Hm Hd Hin HO.
    destruct st as [|id0|cid' i sti|sts|b i sti|k i sti|sts]; cbn [act] in Hact; try contradiction; try discriminate Hnd.
    pose proof (found_in _ _ _ _ _ _ _ _ _ H) as Hid. cbn [svc_ids] in Hid.
    change (act_block N0 ns B (loop_p p) ctx i sti ((v, k) :: ie)) in Hact. rewrite ml_count in Hin.
    pose proof Hsok as HsB. cbn [sok] in HsB. apply andb_prop in HsB. destruct HsB as [Hnc HsB].
    apply negb_true_iff in Hnc.
    pose proof (cd_rt _ _ _ _ _ _ _ _ Hcd) as Hklb.
    rewrite rch_count in Hcd.
    assert (HcdB : CD ns ctx cid ((v, k) :: ie) ((pkey p, k) :: kl) rt (loop_p p) (rch_block B (loop_p p) i sti ((pkey p, k) :: kl))).
    { pose proof Hw as Hw0. cbn [wired] in Hw0. destruct Hw0 as (_ & _ & _ & _ & _ & _ & _ & _ & (_ & WK0) & _).
      destruct (cd_ie _ _ _ _ _ _ _ _ Hcd) as [Hieo _].
      constructor; [exact (cd_c0 _ _ _ _ _ _ _ _ Hcd)| |apply klb_push; exact Hklb].
      split; [constructor; [split; [exact WK0|reflexivity]|exact Hieo]|intro E; discriminate E]. }
    pose proof (frag_count _ _ _ Hf) as HfB. pose proof Hw as Hwall. pose proof HO as HOall. pose proof Hx2 as Hx2all.
    pose proof HP as HPall. pose proof HT as HTall. pose proof Hnt2 as Hnt2all.
    rewrite nplaces_count, ntrans_count, napis_count in *. unfold in_t, in_p in *. rewrite ?nplaces_count, ?ntrans_count in *.
    cbn [xplace] in Hx2 |- *.
    cbn [wired] in Hw. destruct Hw as (W1 & W2 & W3 & W4 & W5 & W6 & W7 & W8 & (W9 & WK) & WB).
    pose proof (xplace_range_b B HfB (loop_p p)) as XB. cbn [loop_p pp] in XB.
    set (CW := CbCount (pkey p) lim (pp p + 1) (pp p + 2) ctx) in *.
    cbn [deliver] in H. mstep as r g1 E1. destruct r as [r|]; [|mstep; discriminate].
    pose proof (del_branch f HB B (loop_p p) (pt p + 2) (pp p)
                 (pp p) (pp p + (4 + nplaces_l B)) (pt p) (pt p + (3 + ntrans_b B))
                 (pa p) (pa p + napis_l B) ctx cid ((v, k) :: ie) ((pkey p, k) :: kl) rt [CW] t2 i sti id g r g1 ns m pend pend0 finp HfB HsB HcdB WB
                 ltac:(cbn [loop_p pp]; lia) ltac:(cbn [loop_p pp]; lia) ltac:(cbn [loop_p pt]; lia)
                 ltac:(cbn [loop_p pt]; lia) ltac:(cbn [loop_p pa]; lia) ltac:(cbn [loop_p pa]; lia)
                 ltac:(lia) ltac:(unfold in_tb; cbn [loop_p pt]; lia) W7 W8 W9 eq_refl ltac:(lia)) as Hres.
    assert (Hoth : forall j, pt p <= j < pt p + (3 + ntrans_b B) -> ~ in_tb B (loop_p p) j -> j <> pt p + 2 ->
                             exists q, In q (preN N0 j) /\ pp p <= q < pp p + (4 + nplaces_l B) /\ ~ in_pb B (loop_p p) q).
    { intros j Hj Hnj Hns. unfold in_tb in Hnj. cbn [loop_p pt] in Hnj.
      destruct (Nat.eq_dec j (pt p)) as [->|N0']; [|assert (j = pt p + 1) by lia; subst j].
      - exists (pp p). rewrite W1. split; [left; reflexivity|]. unfold in_pb. cbn [loop_p pp]. split; lia.
      - exists (pp p). rewrite W4. split; [left; reflexivity|]. unfold in_pb. cbn [loop_p pp]. split; lia. }
    specialize (Hres Hoth HP HT Ht2 Hnt2 Hx2 Hinv Hgr Hrem Hact Hid Hctx Hlt Hm Hd Hin HO E1).
    destruct r as [[j st'']|].
    - (* still inside the body *)
      unfold ret in H. injection H as Hs Hg. subst st' g1. cbn [is_done].
      destruct Hres as (ns' & Hstay & Hab' & Hc'). exists ns'. split; [rewrite ml_count; exact Hstay|split; [rewrite act_count; exact Hab'|rewrite rch_count; exact Hc']].
    - (* the body is complete: the iteration transition has fired, the test runs again *)
      mstep as st2 g2 E2. unfold ret in H. injection H as Hs Hg. subst st' g2.
      destruct Hres as (ns5 & m5 & [kk Hkk] & Mk5 & Ai5 & Ao5 & ((Inv5 & Fr5 & new & Aw5 & Gr5) & Hc5)).
      assert (Hctx5 : ctx_is ns5 ctx cid) by (eapply ctx_is_frame; [exact Hctx|exact Fr5|lia]).
      destruct (count_ok f v lim B p ctx cid ie kl rt xcbs t2 (S k) g1 st2 g' ns5 m5 (pend0 ++ new) E2 Hf Hsok Hklb (proj1 (cd_ie _ _ _ _ _ _ _ _ Hcd)) Hc5 Hwall Hnp HPall HTall Ht2 Hnt2all Hx2all
                        Inv5 Gr5 Hctx5 Hlt Mk5)
        as (ns6 & m6 & Hen & Mk6 & Ai6 & Ao6 & Hres6 & Hact6 & Hc6).
      { unfold in_p. rewrite nplaces_count. intros q Hq. cbn [entries]. exact (Ai5 q Hq). }
      { rewrite nplaces_count, ntrans_count. exact (Hout_out _ _ _ _ _ _ _ HO Ao5). }
      rewrite ?nplaces_count, ?napis_count in *. cbn [startcbs] in Hen. fold CW in Hen.
      pose proof Hres6 as (Inv6 & Gr6 & Ap6 & Aw6 & Sid6 & Di6).
      assert (Ao6' : agrees_out (pp p) (pp p + (4 + nplaces_l B)) m m6).
      { intros q Hq. rewrite (Ao6 q Hq). apply Ao5. exact Hq. }
      assert (Hpost6 : Post ctx ns ns6 g g' pend0 (pa p) (pa p + napis_l B)).
      { split; [exact Inv6|]. split.
        - eapply (Frame_trans ctx ns ns5 ns6); [exact Fr5|apply (Frame_of_StartRes _ _ _ _ _ _ _ _ _ Gr5 Hres6)|lia|lia|lia|lia].
        - exists (new ++ svc_ids st2). split; [rewrite Aw6, Aw5, app_assoc; reflexivity|].
          rewrite app_assoc. exact Gr6. }
      destruct (is_done st2) eqn:D; cbn [Enters] in Hen.
      + pose proof (is_done_RDone _ D) as ->. cbn [mlx xplace] in Ai6.
        exists ns6, m6. split; [|split; [exact Mk6|split; [exact Ai6|split; [exact Ao6'|split; [exact Hpost6|exact Hc6]]]]].
        apply (Exits_after [CW] ns ns5 ns6 kk xcbs Hkk Hen).
      + rewrite (mlx_nd _ _ _ D) in Ai6. exists (bumpn (sumn kk) ns6). split; [|split; [exact Hact6|exact Hc6]].
        exists m6. split; [|split; [exact Mk6|split; [exact Ai6|split; [exact Ao6'|apply Post_bumpn; exact Hpost6]]]].
        apply (Steps_after [CW] ns ns5 ns6 kk Hkk Hen Inv6). apply (dis_dead ns6 m6 Inv6 Mk6).
        apply (stmt_dis (ie := ie) (XCount v lim B) p ctx xcbs t2 st2 ns6 m m6 Hf Hwall D Hx2all); rewrite ?nplaces_count, ?ntrans_count; assumption.
  Qed.

  Theorem del_ok : forall f, DelS f.
  Proof.
    induction f as [f IH] using lt_wf_ind.
    intros s p ctx cid ie kl rt xcbs t2 st id g st' g' ns m pend pend0 finp
           H Hf Hsok Hcd Hw Hnp HP HT Ht2 Hnt2 Hx2 Hinv Hgr Hrem Hact Hnd Hctx Hlt Hm Hd Hin HO.
    destruct f as [|f]; [discriminate H|].
    assert (HB : DelB f).
    { destruct f as [|f']; [intros ? ? ? ? ? ? ? ? ? ? ? ? ? ? ? ? ? ? ? ? HH; discriminate HH|].
      apply del_block_case. apply IH. lia. }
    destruct s as [n at_ ins|t at_ ins bd|bs|e P F|e B|v lim B| ]; try discriminate Hf.
    - (* service *)
      destruct st as [|id0|cid' i sti|sts|b i sti|k i sti|sts]; cbn [act] in Hact; try contradiction; try discriminate Hnd.
      unfold in_t, in_p in *. cbn [nplaces ntrans napis xplace ml] in *.
      pose proof Hw as Hwall. cbn [wired] in Hw. destruct Hw as (_ & _ & Hcbs & _).
      cbn [sok] in Hsok.
      destruct (del_svc_case f ie n at_ ins p ctx cid xcbs t2 id0 id g st' g' ns m pend pend0 finp H Hwall HP ltac:(lia)
                             Ht2 ltac:(lia) Hx2 Hinv Hgr Hrem Hact Hctx Hlt Hm Hd Hin HO)
        as (-> & _ & tr & ns' & m' & Htr & Hen & Hdis & Hrl & Mk' & Ai & Ao & Hpost & Hcn).
      cbn [is_done]. exists ns', m'.
      split; [|split; [exact Mk'|split; [exact Ai|split; [exact Ao|split; [exact Hpost|]]]]].
      2:{ pose proof (cd_c0 _ _ _ _ _ _ _ _ Hcd) as Hc. rewrite rch_await in Hc. apply (C0_same ns ns' cid kl Hcn Hc). }
      exists []. intro K. eapply MS_trans; [apply (MS_fire1 ns m (pt p) tr _ K Hinv Hm ltac:(lia) Htr Hen Hdis Hcbs Hnp)|].
      change (CbSF (pa p) :: xcbs) with ([CbSF (pa p)] ++ xcbs). apply MS_list. exact Hrl.
    - (* task call *)
      eapply (del_call_case f HB); eassumption.
    - (* parallel *)
      assert (HL : DelL f) by (apply del_list_case; intros f0 Hf0; apply IH; lia).
      eapply (del_par_case f HL); eassumption.
    - (* condition *)
      eapply (del_cond_case f HB); eassumption.
    - (* while loop *)
      eapply (del_while_case f HB); eassumption.
    - (* counting loop *)
      eapply (del_count_case f HB); eassumption.
  Qed.

  Theorem del_block_ok : forall f, DelB f.
  Proof.
    intros [|f]; [intros ? ? ? ? ? ? ? ? ? ? ? ? ? ? ? ? ? ? ? ? HH; discriminate HH|].
    apply del_block_case. apply del_ok.
  Qed.

  (* =========================================================================== *)
  (* the whole order                                                              *)
  (* =========================================================================== *)
  Lemma nT_eq : nT = 2 + ntrans_b body. Proof. unfold nT. apply (no_ntrans _ _ HN0). Qed.
  Lemma nP_eq : nP = 2 + nplaces_l body.
  Proof. unfold nP. rewrite (no_places _ _ HN0), repeat_length. reflexivity. Qed.

  Lemma root_in_tb : forall j, 2 <= j < nT -> in_tb body p0 j.
  Proof. intros j Hj. rewrite nT_eq in Hj. unfold in_tb. cbn [p0 pt]. lia. Qed.

  (* between two API calls nothing is enabled *)
  Lemma root_quiet : forall ns i st,
      act_block N0 ns body p0 0 i st [] -> forall j, j < nT -> dis (ml_block body p0 i st) j.
  Proof.
    intros ns i st Hab j Hj.
    destruct (no_c1 _ _ HN0) as (P1 & _). destruct (no_c2 _ _ HN0) as (P2 & _).
    assert (Hr : forall q, In q (ml_block body p0 i st) -> in_pb body p0 q /\ q <> xplace_b body p0).
    { intros q Hq. destruct (ml_range_block N0 ns body p0 0 i st Hfrag Hab q Hq) as (A & B & _). split; assumption. }
    destruct j as [|[|j]].
    - exists 0. rewrite P1. split; [left; reflexivity|]. intro Hi. apply Hr in Hi. destruct Hi as [Hi _].
      unfold in_pb in Hi. cbn [p0 pp] in Hi. lia.
    - exists (xplace_b body p0). rewrite P2. split; [left; reflexivity|]. intro Hi. apply Hr in Hi. destruct Hi as [_ Hi]. congruence.
    - destruct (stable_blocked_block N0 ns N0 body p0 0 0 [] i st Hfrag (no_body _ _ HN0) Hab (S (S j)) (root_in_tb (S (S j)) ltac:(lia)))
        as (q & Q1 & _ & Q3).
      exists q. split; assumption.
  Qed.

  (* the relation between the two models between API calls *)
  Definition g_fresh (g : G) : Prop :=
    g_tid g = 0 /\ g_sid g = 0 /\ g_ss g = 0 /\ g_awaited g = [] /\ g_running g = false /\
    True /\ True.

  Variable Hsok0 : sok_block NC true body = true.

  Definition Rel (sc : sched) (ns : NS) : Prop :=
    Inv ns /\ ns_log ns = g_log (sc_g sc) /\
    match sc_root sc with
    | None =>
      g_fresh (sc_g sc) /\ ns_awaited ns = [EvStart] /\ Marks ns [] /\
      (forall k, nth_error (ns_apis ns) k = nth_error (ns_apis N0) k) /\
      ns_tid ns = 0 /\ ns_sid ns = 0 /\ ns_nss ns = 0 /\ ns_running ns = false /\ ns_pending ns = [] /\
      ns_ls ns = g_ls (sc_g sc) /\ ns_obs ns = g_obs (sc_g sc) /\ ns_q ns = g_q (sc_g sc) /\ ns_counters ns = []
    | Some (RCall cid i st) =>
      cid = 0 /\ GR (sc_g sc) ns (g_awaited (sc_g sc)) /\ act_block N0 ns body p0 0 i st [] /\
      Marks ns (ml_block body p0 i st) /\ nth_error (ns_apis ns) 0 = Some root_api /\
      (C0 ns cid (rch_block body p0 i st []) /\ 0 < ns_tid ns)
    | Some RDone => GR (sc_g sc) ns (g_awaited (sc_g sc)) /\ Marks ns [1]
    | Some _ => False
    end.

  (* in the idle / exited block nothing but c1 / c2 can fire *)
  Lemma root_block_dis : forall m j, 2 <= j < nT ->
      (forall q, In q m -> in_pb body p0 q -> q = xplace_b body p0) -> dis m j.
  Proof.
    intros m j Hj Hm.
    destruct (exit_blocked_block N0 body p0 0 [] Hfrag (no_body _ _ HN0) j (root_in_tb j Hj)) as (q & Q1 & Q2 & Q3).
    exists q. split; [exact Q1|]. intro Hi. apply Q3. apply Hm; assumption.
  Qed.

  (* around the root block: only c1 is outside it (apart from c2), and it reads place 0 *)
  Lemma root_Hout : forall m, ~ In 0 m ->
      Hout (pp p0) (pp p0 + nplaces_l body) (pt p0) (pt p0 + ntrans_b body) 1 m.
  Proof.
    intros m H0 j Hj Hnj Hne. rewrite nT_eq in Hj. cbn [p0 pp pt] in *.
    assert (j = 0) by lia. subst j. destruct (no_c1 _ _ HN0) as (P1 & _).
    exists 0. rewrite P1. split; [left; reflexivity|]. split; [lia|exact H0].
  Qed.

  (* the body is complete: c2 fires, the production task finishes *)
  Lemma root_exit : forall nsa m' g3 st g' pendX,
      Inv nsa -> Marks nsa m' -> (forall q, cnt m' q = if Nat.eqb q (xplace_b body p0) then 1 else 0) ->
      GR g3 nsa pendX -> nth_error (ns_apis nsa) 0 = Some root_api ->
      (finish_root ;;; ret RDone) g3 = Ok (st, g') ->
      st = RDone /\ g_awaited g' = g_awaited g3 /\
      exists ns5, Steps nsa ns5 /\ Inv ns5 /\ GR g' ns5 pendX /\ Marks ns5 [1] /\ dead ns5.
  Proof.
    intros nsa m' g3 st g' pendX Inva Mka Hm'q Gra Hapi0 E.
    unfold bind at 1 in E. unfold finish_root at 1 in E. unfold bind at 1 in E.
    rewrite emit_gen_eq in E.
    unfold set_running at 1 in E. unfold ret in E. injection E as Hs Hg. subst st.
    split; [reflexivity|]. split; [rewrite <- Hg; reflexivity|].
    destruct (no_c2 _ _ HN0) as (Q1 & Q2 & Q3).
    assert (H1T : 1 < nT) by (rewrite nT_eq; lia).
    destruct (trans_exists 1 H1T) as [tr2 Htr2].
    rewrite (nth_error_preN _ _ Htr2) in Q1. rewrite (nth_error_postN _ _ Htr2) in Q2.
    pose proof (xplace_range_b body Hfrag p0) as X. cbn [p0 pp] in X.
    set (nsf := fire_ns tr2 nsa).
    pose proof (fire_len nsa m' tr2 Mka) as Hlenf. fold nsf in Hlenf.
    pose proof (Inv_fire nsa tr2 Inva Hlenf) as Invf. pose proof (GR_fire _ _ _ tr2 Gra) as Grf. fold nsf in Invf, Grf.
    destruct (Marks_fire nsa m' tr2 [1] Mka) as [Mkf _].
    { intros x Hx. rewrite Q2 in Hx. destruct Hx as [<-|[]]. rewrite (iv_npl _ Inva). fold nP. rewrite nP_eq. lia. }
    { intro q. rewrite Q1, Hm'q. cnt_cases. }
    { intro q. rewrite Q1, Q2, Hm'q. cnt_cases. }
    fold nsf in Mkf.
    assert (Hapia : nth_error (ns_apis nsf) 0 = Some root_api) by exact Hapi0.
    destruct (sim_fin TF 0 root_api None true g3 g' nsf pendX pendX (or_intror eq_refl) Invf Grf Hapia I eq_refl)
      as (Hcbs5 & Inv5 & Gr5 & Pl5 & Ap5 & Di5).
    { rewrite <- Hg. unfold g_step. cbn [root_api a_name a_site a_uuid a_params ident_nat]. repeat split; reflexivity. }
    set (ns5 := notified TF root_api true nsf) in *.
    assert (Mk5 : Marks ns5 [1]) by (eapply Marks_places; [exact Pl5|exact Mkf]).
    exists ns5. split; [|split; [exact Inv5|split; [exact Gr5|split; [exact Mk5|]]]].
    - eapply (step_only nsa m' 1 tr2 _ ns5 Inva Mka H1T Htr2).
      + intros q Hq. rewrite Q1 in Hq. destruct Hq as [<-|[]]. apply cnt_pos_in. rewrite Hm'q, Nat.eqb_refl. lia.
      + intros j0 Hj0 Hne0. destruct j0 as [|[|j0]]; [|congruence|].
        * destruct (no_c1 _ _ HN0) as (P1 & _). exists 0. rewrite P1. split; [left; reflexivity|].
          apply not_in_cnt. rewrite Hm'q. destruct (Nat.eqb_spec 0 (xplace_b body p0)); lia.
        * apply root_block_dis; [lia|]. intros q Hq _. apply cnt_pos_in in Hq. rewrite Hm'q in Hq.
          destruct (Nat.eqb_spec q (xplace_b body p0)); [assumption|lia].
      + exact Q3.
      + reflexivity.
      + eapply rl_cons; [|exact Hcbs5|reflexivity|apply rl_nil].
        apply (RunCb_TF 0 nsf root_api (proj1 (iv_ls _ Invf)) Hapia).
    - intros j0 Hj0. eapply dis_disabled; [exact Inv5|exact Mk5|].
      destruct j0 as [|[|j0]].
      + destruct (no_c1 _ _ HN0) as (P1 & _). exists 0. rewrite P1. split; [left; reflexivity|]. intros [E0|[]]. discriminate E0.
      + exists (xplace_b body p0). rewrite (nth_error_preN _ _ Htr2), Q1. split; [left; reflexivity|]. intros [E0|[]]. lia.
      + apply root_block_dis; [lia|]. intros q [<-|[]] Hq. unfold in_pb in Hq. cbn [p0 pp] in Hq. lia.
  Qed.

  (* the marking of the whole net from the marking of the body *)
  Lemma root_marking : forall m0 m2 ml',
      (forall q, In q m0 -> in_pb body p0 q) -> (forall q, In q ml' -> in_pb body p0 q) ->
      agrees_in (pp p0) (pp p0 + nplaces_l body) m2 ml' -> agrees_out (pp p0) (pp p0 + nplaces_l body) m0 m2 ->
      forall q, cnt m2 q = cnt ml' q.
  Proof.
    intros m0 m2 ml' H0 H1 Ai Ao q.
    destruct (inb (pp p0) (pp p0 + nplaces_l body) q) eqn:Eq.
    - apply inb_spec in Eq. apply Ai. exact Eq.
    - apply not_true_iff_false in Eq. rewrite inb_spec in Eq. rewrite (Ao q Eq).
      assert (Z1 : cnt m0 q = 0) by (apply not_in_cnt; intro Hi; apply H0 in Hi; apply Eq; exact Hi).
      assert (Z2 : cnt ml' q = 0) by (apply not_in_cnt; intro Hi; apply H1 in Hi; apply Eq; exact Hi).
      lia.
  Qed.

  Lemma Exits_then : forall a b c, Exits a b [] -> Steps b c -> Exits a c [].
  Proof. intros a b c [k H] H2. exists k. intro K. eapply MS_trans; [apply H|apply H2]. Qed.

  Lemma rel_start : forall fu sc ns b sc',
      Rel sc ns -> sc_root sc = None ->
      api_call orc imm fu body sc AStart = Ok (b, sc') ->
      exists ns', (exists f0, forall f, f0 <= f -> net_api_call tasks env f ns AStart = Ok (b, ns')) /\ Rel sc' ns'.
  Proof.
    intros fu sc ns b sc' (Hinv & Hlog & Hrel) Hroot H. rewrite Hroot in Hrel.
    destruct Hrel as ((F1 & F2 & F3 & F4 & F5 & _ & _) & Haw & Hmk & Hapis & Htid & Hsid & Hnss & Hrun & Hpend & Hls & Hobs & Hqq & Hcn0).
    unfold api_call in H. rewrite Hroot in H.
    set (gc := clear_log (sc_g sc)) in *.
    match type of H with match ?X with _ => _ end = _ => destruct X as [[st g']| | |] eqn:E; try discriminate H end.
    injection H as Hb Hsc. subst b sc'.
    unfold bind at 1 in E. unfold set_running at 1 in E.
    unfold bind at 1 in E. unfold fresh_t at 1 in E.
    unfold bind at 1 in E. unfold emit at 1 in E.
    rewrite emit_gen_eq in E.
    set (g1 := gc <| g_running := true |>) in *.
    set (g3 := (g1 <| g_tid := S (g_tid g1) |>) <| g_log := _ |>) in E.
    assert (Htid1 : g_tid g1 = 0) by exact F1. rewrite Htid1 in E.
    mstep as r g4 E4.
    (* the net side *)
    set (nsc := ns <| ns_log := [] |>).
    set (s1 := (nsc <| ns_running := true |>) <| ns_awaited := [] |>).
    assert (Inv1 : Inv s1).
    { apply (Inv_eq ns s1 Hinv); try reflexivity; [intros e []|intros e He; exact He]. }
    assert (Gr1 : GR g1 s1 []).
    { constructor; try assumption; try reflexivity; cbn; try congruence. rewrite F4. reflexivity. }
    assert (Hlen0 : 0 < List.length (ns_places s1)).
    { change (ns_places s1) with (ns_places ns). rewrite (iv_npl _ Hinv). fold nP. rewrite nP_eq. lia. }
    assert (Mk1 : Marks (placed 0 s1) [0]) by (apply Marks_placed; [exact Hmk|exact Hlen0]).
    set (s2 := placed 0 s1) in *.
    assert (Inv2 : Inv s2).
    { destruct Inv1 as [I1 I2 I3 I4 I5 I6 I7 I8 I9 I10 I11]. constructor; try assumption.
      unfold s2, placed. cbn [ns_places set]. rewrite upd_length. exact I8. }
    assert (Gr2 : GR g1 s2 []) by (destruct Gr1; constructor; assumption).
    (* c1 *)
    destruct (no_c1 _ _ HN0) as (P1 & P2 & P3). destruct (no_c2 _ _ HN0) as (Q1 & _).
    assert (H0T : 0 < nT) by (rewrite nT_eq; lia).
    destruct (trans_exists 0 H0T) as [tr1 Htr1].
    rewrite (nth_error_preN _ _ Htr1) in P1. rewrite (nth_error_postN _ _ Htr1) in P2.
    set (nsf := fire_ns tr1 s2).
    pose proof (fire_len s2 [0] tr1 Mk1) as Hlenf. fold nsf in Hlenf.
    pose proof (Inv_fire s2 tr1 Inv2 Hlenf) as Invf. pose proof (GR_fire _ _ _ tr1 Gr2) as Grf. fold nsf in Invf, Grf.
    assert (Hapi0 : nth_error (ns_apis nsf) 0 = Some root_api).
    { change (ns_apis nsf) with (ns_apis ns). rewrite Hapis. apply (no_root _ _ HN0). }
    destruct (sim_TS 0 root_api [] None g1 g3 nsf [] Invf Grf Hapi0 eq_refl (fun _ => eq_refl) ltac:(intro Ex; discriminate Ex) I (or_introl eq_refl))
      as (Hrun1 & Hcbs1 & Inv3 & Gr3 & Pl3 & Ap3 & Di3 & Cn3).
    { unfold g3, g_step. rewrite Htid1. cbn [root_api a_name a_site a_params]. repeat split; reflexivity. }
    set (ns3 := notified TS (reid (ITest (ns_tid nsf)) [] root_api) false (ts_pre_l 0 [] nsf)) in *.
    assert (Hn0' : exists s0, nth_error body 0 = Some s0) by (destruct body; [discriminate Hfrag|eexists; reflexivity]).
    destruct Hn0' as [s0 Hn0].
    assert (Hctx3 : ctx_is ns3 0 0).
    { eexists. split; [rewrite Ap3; apply nth_error_upd_eq; exact Hapi0|]. cbn [with_uuid a_uuid]. rewrite Htid1.
      split; [reflexivity|]. split; [reflexivity|]. rewrite (gr_tid _ _ _ Gr3). unfold g3. cbn [g_tid set]. lia. }
    pose proof (frag_block_nth _ _ _ Hfrag Hn0) as Hfs0.
    rewrite (entries_b_nth0 _ _ _ Hn0) in P2. rewrite (startcbs_b_nth0 _ _ _ _ Hn0) in P3.
    assert (Hent : forall q, In q (entries s0 (spos body p0 0)) -> in_pb body p0 q).
    { intros q Hq. destruct (entries_range s0 Hfs0 _ q Hq) as [Hr _]. unfold in_p in Hr. unfold in_pb.
      pose proof (spos_range body p0 0 s0 Hn0) as R. lia. }
    (* the marking after c1 *)
    set (m3 := entries s0 (spos body p0 0)).
    destruct (Marks_fire s2 [0] tr1 m3 Mk1) as [Mkf _].
    { intros x Hx. rewrite P2 in Hx. apply Hent in Hx. unfold in_pb in Hx. cbn [p0 pp] in Hx.
      rewrite (iv_npl _ Inv2). fold nP. rewrite nP_eq. lia. }
    { intro q. rewrite P1. lia. }
    { intro q. rewrite P1, P2. unfold m3. lia. }
    fold nsf in Mkf.
    assert (Mk3 : Marks ns3 m3) by (eapply Marks_places; [exact Pl3|exact Mkf]).
    assert (H03 : ~ In 0 m3) by (intro Hi; apply Hent in Hi; unfold in_pb in Hi; cbn [p0 pp] in Hi; lia).
    assert (H1T : 1 < nT) by (rewrite nT_eq; lia).
    assert (Hcx3 : CX ns3 0 0 [] [] true p0).
    { constructor; [|split; [constructor|reflexivity]|intros key k []].
      unfold C0, counters_of. rewrite Cn3. change (ns_counters nsf) with (ns_counters ns). rewrite Hcn0. reflexivity. }
    destruct (start_block_ok fu body p0 0 0 [] [] true [] 1 0 s0 g3 r g4 ns3 m3 [] E4 Hn0 Hfrag Hsok0 Hcx3 (no_body _ _ HN0) eq_refl
                             ltac:(rewrite nP_eq; cbn [p0 pp]; lia) ltac:(rewrite nT_eq; cbn [p0 pt]; lia) H1T
                             ltac:(unfold in_tb; cbn [p0 pt]; lia) ltac:(rewrite Q1; left; reflexivity)
                             Inv3 Gr3 Hctx3 ltac:(cbn [p0 pa]; lia) Mk3 ltac:(intros q _; reflexivity) (root_Hout m3 H03))
      as (ns4 & m4 & Hen4 & Mk4 & Ai4 & Ao4 & Hres4 & Hact4 & Hc4).
    pose proof Hres4 as (Inv4 & Gr4 & Ap4 & Aw4 & Sid4 & Di4).
    assert (Hapi4 : nth_error (ns_apis ns4) 0 = Some root_api).
    { rewrite Ap4 by (cbn [p0 pa]; lia). rewrite Ap3. rewrite (nth_error_upd_eq _ _ _ _ _ Hapi0). rewrite Htid1. reflexivity. }
    assert (Haw3 : g_awaited g3 = []) by exact F4.
    (* c1 is the only transition that can fire in s2 *)
    assert (Hc1 : forall K, MS (s2, [] :: K) (nsf, (CbTS 0 :: startcbs s0 (spos body p0 0) 0) :: K)).
    { intro K. apply (MS_fire1 s2 [0] 0 tr1 _ K Inv2 Mk1 H0T Htr1).
      - intros q Hq. rewrite P1 in Hq. exact Hq.
      - intros j Hj Hne. destruct j as [|[|j]]; [congruence| |].
        + exists (xplace_b body p0). rewrite Q1. split; [left; reflexivity|].
          pose proof (xplace_range_b body Hfrag p0) as X. cbn [p0 pp] in X. intros [E0|[]]. lia.
        + apply root_block_dis; [lia|]. intros q [<-|[]] Hq'. unfold in_pb in Hq'. cbn [p0 pp] in Hq'. lia.
      - exact P3.
      - unfold no_parloop. cbn [forallb is_parloop_cb negb andb]. apply no_parloop_startcbs. }
    assert (Hfire : forall ns5, EvalTo tasks env s2 ns5 ->
                exists f0, forall f, f0 <= f -> net_api_call tasks env f ns AStart = Ok (true, ns5)).
    { intros ns5 Hev.
      destruct (fire_event_to tasks env EvStart (nsc <| ns_running := true |>) [] 0 ns5) as [f0 Hf0].
      + change (ns_awaited (nsc <| ns_running := true |>)) with (ns_awaited ns). rewrite Haw. reflexivity.
      + change (ns_awaited (nsc <| ns_running := true |>)) with (ns_awaited ns). rewrite Haw. reflexivity.
      + change (ns_start_place (nsc <| ns_running := true |>)) with (ns_start_place ns). rewrite (iv_start _ Hinv). reflexivity.
      + unfold has_place. change (ns_places (nsc <| ns_running := true |>)) with (ns_places ns).
        destruct (proj1 Hmk 0) as [k0 Hk0]; [change (ns_places s1) with (ns_places ns) in Hlen0; exact Hlen0|]. rewrite Hk0. reflexivity.
      + exact Hev.
      + exists f0. intros f Hf. unfold net_api_call. fold nsc.
        change (ns_awaited nsc) with (ns_awaited ns). rewrite Haw. cbn [existsb event_eqb orb].
        rewrite (Hf0 f Hf). reflexivity. }
    destruct r as [[j st0]|]; cbn [is_none Enters mlb actb ids_opt rchb] in *.
    - (* the order waits *)
      mstep.
      assert (Mk4' : Marks ns4 (ml_block body p0 j st0)).
      { apply (Marks_ext ns4 m4 _ Mk4). apply (root_marking m3 m4 _ Hent); [|exact Ai4|exact Ao4].
        intros q Hq. apply (ml_range_block N0 ns4 body p0 0 j st0 Hfrag Hact4 q Hq). }
      assert (St : Steps s2 ns4).
      { intro K. eapply MS_trans; [apply Hc1|]. eapply MS_trans; [apply MS_cb; [exact Hrun1|exact Hcbs1|reflexivity]|].
        specialize (Hen4 [] K). rewrite app_nil_r in Hen4. exact Hen4. }
      exists ns4. split.
      + apply Hfire. apply (Steps_eval _ _ St Inv2 Inv4). intros j0 Hj0.
        eapply dis_disabled; [exact Inv4|exact Mk4'|]. apply (root_quiet ns4 j st0 Hact4 j0 Hj0).
      + split; [exact Inv4|]. split; [apply (gr_log _ _ _ Gr4)|]. cbn [sc_root sc_g].
        split; [reflexivity|]. split; [rewrite Aw4, Haw3; exact Gr4|]. split; [exact Hact4|].
        split; [exact Mk4'|split; [exact Hapi4|split; [exact Hc4|]]].
        rewrite (gr_tid _ _ _ Gr4). destruct Sid4 as (_ & St4 & _). unfold g3 in St4. cbn [g_tid set] in St4. lia.
    - (* the whole order completes at once *)
      assert (Hm4q : forall q, cnt m4 q = if Nat.eqb q (xplace_b body p0) then 1 else 0).
      { intro q. rewrite (root_marking m3 m4 [xplace_b body p0] Hent); [cnt_cases|intros q0 [<-|[]]; apply (xplace_range_b body Hfrag p0)|exact Ai4|exact Ao4]. }
      rewrite app_nil_r in Gr4.
      destruct (root_exit ns4 m4 g4 st g' [] Inv4 Mk4 Hm4q Gr4 Hapi4 E) as (-> & Eaw & ns5 & St5 & Inv5 & Gr5 & Mk5 & Hd5).
      destruct Hen4 as (ms & mm & Hk).
      assert (St : Steps s2 (bumpn (mm + sumn ms) ns5)).
      { intro K. eapply MS_trans; [apply Hc1|]. eapply MS_trans; [apply MS_cb; [exact Hrun1|exact Hcbs1|reflexivity]|].
        eapply MS_trans; [specialize (Hk [] K); rewrite app_nil_r in Hk; exact Hk|].
        eapply MS_trans; [apply St5|]. eapply MS_trans; [apply MS_unwind; [exact Inv5|exact Hd5]|].
        eapply MS_trans; [apply MS_marks|]. rewrite Mach.bumpn_add. apply MS_refl. }
      exists (bumpn (mm + sumn ms) ns5). split.
      + apply Hfire. apply (Steps_eval _ _ St Inv2 (Inv_bumpn _ _ Inv5) Hd5).
      + split; [apply Inv_bumpn; exact Inv5|]. split; [apply (gr_log _ _ _ Gr5)|]. cbn [sc_root sc_g].
        split; [|exact Mk5]. rewrite Eaw, Aw4, Haw3. apply GR_bumpn. exact Gr5.
  Qed.


  Lemma remove_first_EvF : forall id aw,
      remove_first (event_eqb (EvFinish (ITest id))) (map EvF aw) = option_map (map EvF) (remove_first (Nat.eqb id) aw).
  Proof.
    induction aw as [|x r IH]; [reflexivity|]. cbn [map remove_first EvF event_eqb ident_eqb].
    destruct (Nat.eqb id x); [reflexivity|]. rewrite IH. destruct (remove_first (Nat.eqb id) r); reflexivity.
  Qed.

  Lemma mem_remove_first : forall id aw, mem id aw = true -> exists aw', remove_first (Nat.eqb id) aw = Some aw'.
  Proof.
    induction aw as [|x r IH]; intro H; [discriminate H|]. cbn [mem remove_first] in *.
    destruct (Nat.eqb id x); [eexists; reflexivity|]. cbn [orb] in H. destruct (IH H) as [aw' E]. rewrite E. eexists; reflexivity.
  Qed.

  Lemma act_block_same : forall a b l bp ctx i st {ie},
      frag_block l = true -> ns_apis b = ns_apis a -> ns_place_dict b = ns_place_dict a -> ns_sid b = ns_sid a ->
      ns_counters b = ns_counters a ->
      act_block N0 a l bp ctx i st ie -> act_block N0 b l bp ctx i st ie.
  Proof.
    intros a b l bp ctx i st ie Hf Ea Ed Es Ec (H1 & H2 & H3). split; [exact H1|]. split.
    - reflexivity.
    - destruct (nth_error l i) as [s'|] eqn:En; [|contradiction].
      apply (act_mono N0 a b st s' _ ctx (frag_block_nth _ _ _ Hf En) H3).
      + intros k _. rewrite Ea. reflexivity.
      + rewrite Es. apply Nat.le_refl.
      + exists []. split; [rewrite Ed; reflexivity|constructor].
      + intros k ac _ _ _. unfold counters_of. rewrite Ec. reflexivity.
  Qed.

  Lemma rel_finish : forall fu sc ns id b sc',
      Rel sc ns -> mem id (g_awaited (sc_g sc)) = true ->
      api_call orc imm fu body sc (AFinish id) = Ok (b, sc') ->
      exists ns', (exists f0, forall f, f0 <= f -> net_api_call tasks env f ns (AFinish id) = Ok (b, ns')) /\ Rel sc' ns'.
  Proof.
    intros fu sc ns id b sc' (Hinv & Hlog & Hrel) Hmem H.
    unfold api_call in H. change (g_awaited (clear_log (sc_g sc))) with (g_awaited (sc_g sc)) in H. rewrite Hmem in H.
    destruct (sc_root sc) as [[|id0|cid i sti|sts|bb i sti|k i sti|sts]|] eqn:Hroot; try discriminate H; try contradiction.
    destruct Hrel as (-> & Hgr & Hab & Hmk & Hapi0 & Hc00).
    set (gc := clear_log (sc_g sc)) in *.
    match type of H with match ?X with _ => _ end = _ => destruct X as [[st g']| | |] eqn:E; try discriminate H end.
    injection H as Hb Hsc. subst b sc'.
    destruct (mem_remove_first _ _ Hmem) as [aw' Hrem].
    unfold bind at 1 in E. unfold unawait at 1 in E.
    change (g_awaited gc) with (g_awaited (sc_g sc)) in E. rewrite Hrem in E. unfold set_awaited at 1 in E.
    set (g2 := gc <| g_awaited := aw' |>) in *.
    mstep as r g3 E3. destruct r as [r|]; [|discriminate E].
    (* the token *)
    assert (Hid : In id (svc_ids sti)).
    { destruct (in_dec Nat.eq_dec id (svc_ids sti)) as [Hi|Hn]; [exact Hi|].
      destruct (proj1 (proj2 (deliver_absent orc imm fu)) _ _ _ _ _ _ _ _ _ E3 Hn) as [E0 _]. discriminate E0. }
    pose proof Hab as (Hnd & Hfresh & Ha). destruct (nth_error body i) as [s1|] eqn:En; [|contradiction].
    pose proof (frag_block_nth _ _ _ Hfrag En) as Hf1.
    destruct (act_dict_in N0 ns sti s1 _ 0 id Hf1 Ha Hid) as (finp & Hdf & Hfp).
    pose proof (spos_range body p0 i s1 En) as Ri. cbn [p0 pp pt pa] in Ri. unfold in_p in Hfp.
    (* the net side *)
    set (nsc := ns <| ns_log := [] |>).
    set (s1' := nsc <| ns_awaited := map EvF aw' |>).
    assert (Inv1 : Inv s1').
    { apply (Inv_eq ns s1' Hinv); try reflexivity; [|intros e He; exact He].
      intros e He. change (ns_awaited s1') with (map EvF aw') in He. rewrite (gr_aw _ _ _ Hgr).
      apply in_map_iff in He. destruct He as (x & <- & Hx). apply in_map. apply (remove_first_sub _ _ _ _ _ Hrem Hx). }
    assert (Gr1 : GR g2 s1' (g_awaited (sc_g sc))).
    { destruct Hgr as [G1 G2 G3 G4 G5 G6 G7 G8 G9 G10]. constructor; try assumption; reflexivity. }
    assert (Hlenp : finp < List.length (ns_places s1')).
    { change (ns_places s1') with (ns_places ns). rewrite (iv_npl _ Hinv). fold nP. rewrite nP_eq. lia. }
    assert (Mk1 : Marks (placed finp s1') (finp :: ml_block body p0 i sti)) by (apply Marks_placed; [exact Hmk|exact Hlenp]).
    set (s2 := placed finp s1') in *.
    assert (Inv2 : Inv s2).
    { destruct Inv1 as [I1 I2 I3 I4 I5 I6 I7 I8 I9 I10 I11]. constructor; try assumption.
      unfold s2, placed. cbn [ns_places set]. rewrite upd_length. exact I8. }
    assert (Gr2 : GR g2 s2 (g_awaited (sc_g sc))) by (destruct Gr1; constructor; assumption).
    assert (Hab2 : act_block N0 s2 body p0 0 i sti []) by (apply (act_block_same ns s2); try assumption; reflexivity).
    assert (Hctx2 : ctx_is s2 0 0) by (exists root_api; split; [exact Hapi0|split; [reflexivity|split; [reflexivity|exact (proj2 Hc00)]]]).
    assert (Hmlr : forall q, In q (finp :: ml_block body p0 i sti) -> in_pb body p0 q).
    { intros q [<-|Hq]; [unfold in_pb; cbn [p0 pp]; lia|]. apply (ml_range_block N0 ns body p0 0 i sti Hfrag Hab q Hq). }
    assert (H0m : ~ In 0 (finp :: ml_block body p0 i sti)).
    { intros Hi. apply Hmlr in Hi. unfold in_pb in Hi. cbn [p0 pp] in Hi. lia. }
    destruct (no_c2 _ _ HN0) as (Q1 & Q2 & Q3).
    assert (H1T : 1 < nT) by (rewrite nT_eq; lia).
    assert (Hcd2 : CD s2 0 0 [] [] true p0 (rch_block body p0 i sti [])).
    { constructor; [exact (proj1 Hc00)|split; [constructor|reflexivity]|intros key k []]. }
    pose proof (del_block_ok fu body p0 0 0 [] [] true [] 1 i sti id g2 r g3 s2 (finp :: ml_block body p0 i sti)
                   (g_awaited (sc_g sc)) aw' finp E3 Hfrag Hsok0 Hcd2 (no_body _ _ HN0) eq_refl
                   ltac:(rewrite nP_eq; cbn [p0 pp]; lia) ltac:(rewrite nT_eq; cbn [p0 pt]; lia)
                   H1T ltac:(unfold in_tb; cbn [p0 pt]; lia) ltac:(rewrite Q1; left; reflexivity)
                   Inv2 Gr2 Hrem Hab2 Hctx2 ltac:(cbn [p0 pa]; lia) Mk1 Hdf) as Hres.
    specialize (Hres ltac:(intros q _; rewrite cnt_cons, (Nat.eqb_sym finp q); lia) (root_Hout _ H0m)).
    assert (Hfire : forall ns4, EvalTo tasks env s2 ns4 ->
                exists f0, forall f, f0 <= f -> net_api_call tasks env f ns (AFinish id) = Ok (true, ns4)).
    { intros ns4 Hev.
      destruct (fire_event_to tasks env (EvFinish (ITest id)) nsc (map EvF aw') finp ns4) as [f0 Hf0].
      - change (ns_awaited nsc) with (ns_awaited ns). rewrite (gr_aw _ _ _ Hgr), existsb_EvF. exact Hmem.
      - change (ns_awaited nsc) with (ns_awaited ns). rewrite (gr_aw _ _ _ Hgr), remove_first_EvF, Hrem. reflexivity.
      - exact Hdf.
      - unfold has_place. change (ns_places nsc) with (ns_places ns).
        destruct (proj1 Hmk finp Hlenp) as [k0 Hk0]. rewrite Hk0. reflexivity.
      - exact Hev.
      - exists f0. intros f Hf. unfold net_api_call. fold nsc. apply Hf0. exact Hf. }
    destruct r as [[j st']|].
    - (* the order goes on *)
      mstep. destruct Hres as (ns' & (m' & St & Mk' & Ai & Ao & (Inv' & Fr' & new & Aw' & Gr')) & Hab' & Hc').
      assert (Mk'' : Marks ns' (ml_block body p0 j st')).
      { eapply Marks_ext; [exact Mk'|]. apply (root_marking _ m' _ Hmlr); [|exact Ai|exact Ao].
        intros q Hq. apply (ml_range_block N0 ns' body p0 0 j st' Hfrag Hab' q Hq). }
      exists ns'. split.
      + apply Hfire. apply (Steps_eval _ _ St Inv2 Inv'). intros j0 Hj0.
        eapply dis_disabled; [exact Inv'|exact Mk''|]. apply (root_quiet ns' j st' Hab' j0 Hj0).
      + split; [exact Inv'|]. split; [apply (gr_log _ _ _ Gr')|]. cbn [sc_root sc_g].
        split; [reflexivity|]. split; [rewrite Aw'; exact Gr'|]. split; [exact Hab'|]. split; [exact Mk''|].
        split; [rewrite (fr_apis _ _ _ _ _ Fr') by (cbn [p0 pa]; lia); exact Hapi0|split; [exact Hc'|]].
        pose proof (fr_sid _ _ _ _ _ Fr') as (_ & Ht & _). pose proof (proj2 Hc00) as Hp0. change (ns_tid s2) with (ns_tid ns) in Ht. lia.
    - (* the last statement is complete: the production task finishes *)
      destruct Hres as (nsa & m' & Hex & Mka & Aia & Aoa & ((Inva & Fra & new & Awa & Gra) & Hca)).
      assert (Hm'q : forall q, cnt m' q = if Nat.eqb q (xplace_b body p0) then 1 else 0).
      { intro q. rewrite (root_marking _ m' [xplace_b body p0] Hmlr); [cnt_cases|intros q0 [<-|[]]; apply (xplace_range_b body Hfrag p0)|exact Aia|exact Aoa]. }
      assert (Hapia : nth_error (ns_apis nsa) 0 = Some root_api).
      { rewrite (fr_apis _ _ _ _ _ Fra) by (cbn [p0 pa]; lia). exact Hapi0. }
      destruct (root_exit nsa m' g3 st g' (aw' ++ new) Inva Mka Hm'q Gra Hapia E) as (-> & Eaw & ns5 & St5 & Inv5 & Gr5 & Mk5 & Hd5).
      destruct (Exits_steps s2 ns5 (Exits_then _ _ _ Hex St5) Inv5 Hd5) as [jj St].
      exists (bumpn jj ns5). split.
      + apply Hfire. apply (Steps_eval _ _ St Inv2 (Inv_bumpn _ _ Inv5) Hd5).
      + split; [apply Inv_bumpn; exact Inv5|]. split; [apply (gr_log _ _ _ Gr5)|]. cbn [sc_root sc_g].
        split; [|exact Mk5]. rewrite Eaw, Awa. apply GR_bumpn. exact Gr5.
  Qed.

  (* ---- discarding the log of the previous call ---- *)
  Definition cleared_sc (sc : sched) : sched := {| sc_g := clear_log (sc_g sc); sc_root := sc_root sc |}.

  Lemma Rel_clear : forall sc ns, Rel sc ns -> Rel (cleared_sc sc) (ns <| ns_log := [] |>).
  Proof.
    intros sc ns (Hinv & Hlog & Hrel). split; [|split; [reflexivity|]].
    - destruct Hinv as [I1 I2 I3 I4 I5 I6 I7 I8 I9 I10 I11]. constructor; assumption.
    - cbn [cleared_sc sc_root sc_g]. destruct (sc_root sc) as [[|id0|cid i sti|sts|bb i sti|k i sti|sts]|]; try contradiction.
      + destruct Hrel as (Hgr & Hmk). split; [|exact Hmk].
        destruct Hgr as [G1 G2 G3 G4 G5 G6 G7 G8 G9 G10]. constructor; try assumption; reflexivity.
      + destruct Hrel as (-> & Hgr & Hab & Hmk & Hapi & Hcc). split; [reflexivity|]. split; [|split; [|split; [assumption|split; assumption]]].
        * destruct Hgr as [G1 G2 G3 G4 G5 G6 G7 G8 G9 G10]. constructor; try assumption; reflexivity.
        * apply (act_block_same ns); try assumption; reflexivity.
      + exact Hrel.
  Qed.

  (* ---- what a caller observes ---- *)
  Definition pval (o : option nat) : nat := match o with Some k => k | None => 0 end.

  Lemma list_sum_cons : forall x l, list_sum (x :: l) = x + list_sum l.
  Proof. reflexivity. Qed.

  Lemma fold_total : forall ps a, fold_left (fun acc p => acc + match p with Some k => k | None => 0 end) ps a
                                  = a + list_sum (map pval ps).
  Proof.
    induction ps as [|x r IH]; intro a; cbn [fold_left map]; [cbn; lia|].
    rewrite IH, list_sum_cons. destruct x; unfold pval; lia.
  Qed.

  Lemma total_zero : forall ps, (forall q, tok ps q = 0) -> list_sum (map pval ps) = 0.
  Proof.
    induction ps as [|x r IH]; intro H; [reflexivity|]. cbn [map]. rewrite list_sum_cons.
    pose proof (H 0) as H0. unfold tok in H0. cbn [nth_error] in H0.
    rewrite IH; [destruct x as [k|]; unfold pval; lia|]. intro q. apply (H (S q)).
  Qed.

  Lemma total_one : forall ps j, j < List.length ps -> (forall q, tok ps q = if Nat.eqb q j then 1 else 0) ->
                                 list_sum (map pval ps) = 1.
  Proof.
    induction ps as [|x r IH]; intros j Hj H; [cbn in Hj; lia|]. cbn [map]. rewrite list_sum_cons.
    pose proof (H 0) as H0. unfold tok in H0. cbn [nth_error] in H0. destruct j as [|j].
    - rewrite total_zero; [destruct x as [k|]; unfold pval; cbn [Nat.eqb] in H0; lia|].
      intro q. apply (H (S q)).
    - rewrite (IH j); [destruct x as [k|]; unfold pval; cbn [Nat.eqb] in H0; lia|cbn in Hj; lia|].
      intro q. apply (H (S q)).
  Qed.

  Lemma flat_map_EvF : forall aw,
      flat_map (fun e => match e with EvFinish i => [ident_nat i] | _ => [] end) (map EvF aw) = aw.
  Proof. induction aw as [|x r IH]; [reflexivity|]. cbn. rewrite IH. reflexivity. Qed.

  Lemma obs_eq : forall sc ns b, Rel sc ns -> net_observe b ns = observe b sc.
  Proof.
    intros sc ns b (Hinv & Hlog & Hrel). unfold net_observe, observe, net_final. rewrite Hlog, (iv_final _ Hinv).
    destruct (sc_root sc) as [[|id0|cid i sti|sts|bb i sti|k i sti|sts]|]; try contradiction.
    - (* finished *)
      destruct Hrel as (Hgr & Hmk). rewrite (gr_run _ _ _ Hgr), (gr_aw _ _ _ Hgr), flat_map_EvF.
      assert (E1 : tokens ns 1 = 1) by (rewrite (proj2 Hmk); cnt_cases).
      rewrite E1, fold_total. cbn [Nat.eqb andb Nat.add].
      assert (Hl : 1 < List.length (ns_places ns)) by (rewrite (iv_npl _ Hinv); fold nP; rewrite nP_eq; lia).
      rewrite (total_one (ns_places ns) 1 Hl); [reflexivity|].
      intro q. rewrite <- tokens_tok, (proj2 Hmk). cnt_cases.
    - (* running *)
      destruct Hrel as (-> & Hgr & Hab & Hmk & Hapi & _). rewrite (gr_run _ _ _ Hgr), (gr_aw _ _ _ Hgr), flat_map_EvF.
      assert (E1 : tokens ns 1 = 0).
      { rewrite (proj2 Hmk). apply not_in_cnt. intro Hi.
        destruct (ml_range_block N0 ns body p0 0 i sti Hfrag Hab 1 Hi) as (Hr & _). unfold in_pb in Hr. cbn [p0 pp] in Hr. lia. }
      rewrite E1. reflexivity.
    - (* not started *)
      destruct Hrel as ((F1 & F2 & F3 & F4 & F5 & F6 & F7) & Haw & Hmk & _ & _ & _ & _ & Hrun & _).
      rewrite Haw, Hrun, F4, F5. assert (E1 : tokens ns 1 = 0) by (rewrite (proj2 Hmk); reflexivity).
      rewrite E1. reflexivity.
  Qed.

  (* ---- the state after Scheduler(...) ---- *)
  Lemma Rel_init : Rel sched0 N0.
  Proof.
    destruct (no_sched _ _ HN0) as (S1 & S2 & S3 & S4 & S5 & S6 & S7 & S8 & S9 & S10 & S11 & S12 & S13).
    split; [|split; [exact S9|]].
    - constructor; try assumption; try reflexivity.
      + rewrite S7, S8, S2, S13. split; [apply ls_ok_default|]. split; [intros _; split; reflexivity|].
        split; [intros i [Hi|[]]; discriminate Hi|intros i []].
      + split; [rewrite S4; split; [constructor|reflexivity]|].
        assert (Z : forall k a i, nth_error (ns_apis N0) k = Some a -> a_uuid a = ITest i -> k = 0 /\ i = 0).
        { intros k a i Hk Hu. destruct (NetOf_uuids body N0 Hfrag HN0 k a Hk) as [->|E]; [|congruence].
          rewrite (no_root _ _ HN0) in Hk. inversion Hk; subst a. cbn [root_api a_uuid] in Hu. inversion Hu. split; reflexivity. }
        split; [intros u d Hd; rewrite S4 in Hd; discriminate Hd|]. split.
        * intros k a i Hk _ Hu. right. apply (Z k a i Hk Hu).
        * intros k1 k2 a1 a2 i H1 H2 _ _ U1 U2. destruct (Z _ _ _ H1 U1) as [-> _]. destruct (Z _ _ _ H2 U2) as [-> _]. reflexivity.
      + apply (no_start _ _ HN0).
      + apply (no_final _ _ HN0).
      + exists []. split; [reflexivity|constructor].
      + intros k a0 Hk. exists (a_uuid a0), (a_params a0). split; [rewrite Hk; destruct a0; reflexivity|].
        split; [reflexivity|].
        intros _ k' Hk'. split; [rewrite Hk'; reflexivity|]. intros i Hi. congruence.
    - cbn [sched0 sc_root sc_g]. split; [repeat split; reflexivity|]. split; [exact S2|]. split.
      + split.
        * intros q Hq. rewrite (no_places _ _ HN0) in *. rewrite repeat_length in Hq. exists 0.
          rewrite nth_error_repeat by exact Hq. reflexivity.
        * intro q. rewrite tokens_tok, (no_places _ _ HN0). unfold tok.
          destruct (nth_error (repeat (Some 0) (2 + nplaces_l body)) q) as [o|] eqn:E; [|reflexivity].
          apply nth_error_In in E. apply repeat_spec in E. subst o. reflexivity.
      + repeat split; try assumption. 
  Qed.

  (* ---- every API call of the fragment ---- *)
  (* when the engine may complete services at once, no further function is registered for
     service-started notifications and no observer is attached *)
  Definition ok_call (c : apicall) : bool :=
    match c with
    | ARegister SS _ | AAttach _ => negb IM
    | _ => true
    end.

  Lemma junk_not_awaited : forall l, existsb (event_eqb EvJunk) l = false.
  Proof. induction l as [|e l IH]; [reflexivity|]. cbn. destruct e; cbn; exact IH. Qed.
  Lemma start_not_in_EvF : forall aw, existsb (event_eqb EvStart) (map EvF aw) = false.
  Proof. induction aw as [|x r IH]; [reflexivity|]. cbn. exact IH. Qed.

  Lemma Rel_awaited : forall sc ns, Rel sc ns ->
      (sc_root sc = None /\ ns_awaited ns = [EvStart] /\ g_awaited (sc_g sc) = []) \/
      (sc_root sc <> None /\ ns_awaited ns = map EvF (g_awaited (sc_g sc))).
  Proof.
    intros sc ns (Hinv & Hlog & Hrel).
    destruct (sc_root sc) as [[|id0|cid i sti|sts|bb i sti|k i sti|sts]|]; try contradiction.
    - right. split; [discriminate|]. apply (gr_aw _ _ _ (proj1 Hrel)).
    - right. split; [discriminate|]. destruct Hrel as (_ & Hgr & _). apply (gr_aw _ _ _ Hgr).
    - left. destruct Hrel as ((_ & _ & _ & F4 & _) & Haw & _). repeat split; assumption.
  Qed.

  (* ---- registration of functions, observers ---- *)
  Lemma Rel_ls_obs : forall sc ns, Rel sc ns -> ns_ls ns = g_ls (sc_g sc) /\ ns_obs ns = g_obs (sc_g sc).
  Proof.
    intros sc ns (Hinv & Hlog & Hrel).
    destruct (sc_root sc) as [[|id0|cid i sti|sts|bb i sti|k i sti|sts]|]; try contradiction.
    - destruct Hrel as (Hgr & _). split; [apply (gr_ls _ _ _ Hgr)|apply (gr_obs _ _ _ Hgr)].
    - destruct Hrel as (_ & Hgr & _). split; [apply (gr_ls _ _ _ Hgr)|apply (gr_obs _ _ _ Hgr)].
    - destruct Hrel as (_ & _ & _ & _ & _ & _ & _ & _ & _ & H1 & H2 & _). split; assumption.
  Qed.

  Lemma Rel_set_ls : forall sc ns ls', Rel sc ns -> ls_ok ls' -> (IM = true -> listeners_of SS ls' = [0]) ->
      Rel {| sc_g := sc_g sc <| g_ls := ls' |>; sc_root := sc_root sc |} (ns <| ns_ls := ls' |>).
  Proof.
    intros sc ns ls' (Hinv & Hlog & Hrel) Hok Hnew. split; [|split; [exact Hlog|]].
    - destruct Hinv as [I1 I2 I3 I4 I5 I6 I7 I8 I9 I10 I11]. constructor; try assumption.
      destruct I4 as (A4 & B4 & C4 & D4). split; [exact Hok|]. split; [|split; assumption].
      intro Hi. split; [apply Hnew; exact Hi|apply (B4 Hi)].
    - cbn [sc_root sc_g]. destruct (sc_root sc) as [[|id0|cid i sti|sts|bb i sti|k i sti|sts]|]; try contradiction.
      + destruct Hrel as (Hgr & Hmk). split; [|exact Hmk].
        destruct Hgr as [G1 G2 G3 G4 G5 G6 G7 G8 G9 G10]. constructor; try assumption; reflexivity.
      + destruct Hrel as (-> & Hgr & Hab & Hmk & Hapi). split; [reflexivity|]. split; [|split; [|split; assumption]].
        * destruct Hgr as [G1 G2 G3 G4 G5 G6 G7 G8 G9 G10]. constructor; try assumption; reflexivity.
        * apply (act_block_same ns); try assumption; reflexivity.
      + destruct Hrel as (F & Haw & Hmk & Hap & H1 & H2 & H3 & H4 & H5 & H6 & H7 & H8 & H9).
        split; [exact F|]. split; [exact Haw|]. split; [exact Hmk|]. split; [exact Hap|].
        repeat split; try assumption; reflexivity.
  Qed.

  Lemma Rel_set_obs : forall sc ns obs', Rel sc ns -> (IM = true -> obs' = []) ->
      Rel {| sc_g := sc_g sc <| g_obs := obs' |>; sc_root := sc_root sc |} (ns <| ns_obs := obs' |>).
  Proof.
    intros sc ns obs' (Hinv & Hlog & Hrel) Hnew. split; [|split; [exact Hlog|]].
    - destruct Hinv as [I1 I2 I3 I4 I5 I6 I7 I8 I9 I10 I11]. constructor; try assumption.
      destruct I4 as (A4 & B4 & C4 & D4). split; [exact A4|]. split; [|split; assumption].
      intro Hi. split; [apply (B4 Hi)|apply Hnew; exact Hi].
    - cbn [sc_root sc_g]. destruct (sc_root sc) as [[|id0|cid i sti|sts|bb i sti|k i sti|sts]|]; try contradiction.
      + destruct Hrel as (Hgr & Hmk). split; [|exact Hmk].
        destruct Hgr as [G1 G2 G3 G4 G5 G6 G7 G8 G9 G10]. constructor; try assumption; reflexivity.
      + destruct Hrel as (-> & Hgr & Hab & Hmk & Hapi). split; [reflexivity|]. split; [|split; [|split; assumption]].
        * destruct Hgr as [G1 G2 G3 G4 G5 G6 G7 G8 G9 G10]. constructor; try assumption; reflexivity.
        * apply (act_block_same ns); try assumption; reflexivity.
      + destruct Hrel as (F & Haw & Hmk & Hap & H1 & H2 & H3 & H4 & H5 & H6 & H7 & H8 & H9).
        split; [exact F|]. split; [exact Haw|]. split; [exact Hmk|]. split; [exact Hap|].
        repeat split; try assumption; reflexivity.
  Qed.

  Lemma listeners_app : forall k ls k' l,
      listeners_of k (ls ++ [(k', l)]) = listeners_of k ls ++ (if nkind_eqb k' k then [l] else []).
  Proof.
    intros k ls k' l. unfold listeners_of. rewrite filter_app, map_app. cbn [filter fst].
    destruct (nkind_eqb k' k); reflexivity.
  Qed.

  Lemma in_listeners_registered : forall k l ls,
      In l (listeners_of k ls) -> existsb (fun p => nkind_eqb (fst p) k && Nat.eqb (snd p) l) ls = true.
  Proof.
    intros k l. induction ls as [|[k0 l0] r IH]; intro H; [contradiction|].
    unfold listeners_of in H. cbn [filter fst] in H. cbn [existsb fst snd].
    destruct (nkind_eqb k0 k) eqn:E.
    - cbn [map snd] in H. destruct H as [<-|H]; [rewrite Nat.eqb_refl; reflexivity|].
      rewrite (IH H). apply orb_true_r.
    - rewrite (IH H). apply orb_true_r.
  Qed.

  Lemma nkind_eqb_eq : forall a b, nkind_eqb a b = true -> a = b.
  Proof. intros [] []; intro H; try discriminate H; reflexivity. Qed.

  Lemma ls_ok_register : forall ls k l, ls_ok ls ->
      existsb (fun p => nkind_eqb (fst p) k && Nat.eqb (snd p) l) ls = false -> ls_ok (ls ++ [(k, l)]).
  Proof.
    intros ls k l Hok Hex k0. destruct (Hok k0) as (rest & HL & Hn0). rewrite listeners_app, HL.
    destruct (nkind_eqb k k0) eqn:E.
    - apply nkind_eqb_eq in E. subst k0. exists (rest ++ [l]). split; [reflexivity|].
      intro Hi. apply in_app_or in Hi. destruct Hi as [Hi|[->|[]]]; [exact (Hn0 Hi)|].
      assert (In 0 (listeners_of k ls)) by (rewrite HL; left; reflexivity).
      rewrite (in_listeners_registered _ _ _ H) in Hex. discriminate Hex.
    - exists rest. rewrite app_nil_r. split; [reflexivity|exact Hn0].
  Qed.

  Lemma api_sim : forall fu sc ns c b sc',
      ok_call c = true -> Rel sc ns ->
      api_call orc imm fu body sc c = Ok (b, sc') ->
      exists ns', (exists f0, forall f, f0 <= f -> net_api_call tasks env f ns c = Ok (b, ns')) /\ Rel sc' ns'.
  Proof.
    intros fu sc ns c b sc' Hok Hrel H.
    destruct c as [|id| |k l|o|o].
    - (* start *)
      destruct (sc_root sc) as [r0|] eqn:Hroot; [|eapply rel_start; eassumption].
      unfold api_call in H. rewrite Hroot in H. injection H as Hb Hsc. subst b sc'.
      exists (ns <| ns_log := [] |>). split.
      + exists 0. intros f _. unfold net_api_call.
        destruct (Rel_awaited sc ns Hrel) as [(E & _)|(_ & Haw)]; [congruence|].
        change (ns_awaited (ns <| ns_log := [] |>)) with (ns_awaited ns). rewrite Haw, start_not_in_EvF. reflexivity.
      + pose proof (Rel_clear sc ns Hrel) as Hc. unfold cleared_sc in Hc. rewrite Hroot in Hc. exact Hc.
    - (* completion *)
      destruct (mem id (g_awaited (sc_g sc))) eqn:Hmem; [eapply rel_finish; eassumption|].
      unfold api_call in H. change (g_awaited (clear_log (sc_g sc))) with (g_awaited (sc_g sc)) in H. rewrite Hmem in H.
      injection H as Hb Hsc. subst b sc'.
      exists (ns <| ns_log := [] |>). split; [|apply (Rel_clear sc ns Hrel)].
      exists 1. intros f Hf. destruct f as [|f]; [lia|]. unfold net_api_call. apply fire_event_reject.
      change (ns_awaited (ns <| ns_log := [] |>)) with (ns_awaited ns).
      destruct (Rel_awaited sc ns Hrel) as [(_ & Haw & _)|(_ & Haw)]; rewrite Haw; [reflexivity|].
      rewrite existsb_EvF. exact Hmem.
    - (* junk *)
      unfold api_call in H. injection H as Hb Hsc. subst b sc'.
      exists (ns <| ns_log := [] |>). split; [|apply (Rel_clear sc ns Hrel)].
      exists 1. intros f Hf. destruct f as [|f]; [lia|]. unfold net_api_call. apply fire_event_reject.
      apply junk_not_awaited.
    - (* register a function *)
      pose proof (Rel_clear sc ns Hrel) as Hc. destruct (Rel_ls_obs _ _ Hc) as [Els _]. cbn [cleared_sc sc_g] in Els.
      unfold api_call in H. unfold net_api_call.
      change (g_ls (clear_log (sc_g sc))) with (g_ls (sc_g sc)) in *.
      change (ns_ls (ns <| ns_log := [] |>)) with (ns_ls ns) in *. rewrite Els.
      destruct (existsb (fun p => nkind_eqb (fst p) k && Nat.eqb (snd p) l) (g_ls (sc_g sc))) eqn:Ex;
        injection H as Hb Hsc; subst b sc'.
      + exists (ns <| ns_log := [] |>). split; [exists 0; intros; reflexivity|exact Hc].
      + eexists. split; [exists 0; intros; reflexivity|].
        rewrite <- Els.
        pose proof Hc as (Hi & _). pose proof (iv_ls _ Hi) as (Hl & Hlo & _). change (ns_ls (ns <| ns_log := [] |>)) with (ns_ls ns) in Hl, Hlo.
        apply (Rel_set_ls (cleared_sc sc) (ns <| ns_log := [] |>) _ Hc).
        * rewrite Els. apply ls_ok_register; [|exact Ex]. rewrite Els in Hl. exact Hl.
        * intro Him. rewrite listeners_app. destruct (Hlo Him) as [HL _]. rewrite HL.
          destruct k; try reflexivity. cbn [ok_call] in Hok. rewrite Him in Hok. discriminate Hok.
    - (* attach an observer *)
      pose proof (Rel_clear sc ns Hrel) as Hc. destruct (Rel_ls_obs _ _ Hc) as [_ Eobs]. cbn [cleared_sc sc_g] in Eobs.
      unfold api_call in H. injection H as Hb Hsc. subst b sc'.
      eexists. split; [exists 0; intros; reflexivity|].
      change (g_obs (clear_log (sc_g sc))) with (g_obs (sc_g sc)) in *.
      change (ns_obs (ns <| ns_log := [] |>)) with (ns_obs ns) in *. rewrite Eobs.
      apply (Rel_set_obs (cleared_sc sc) (ns <| ns_log := [] |>) _ Hc).
      intro Him. cbn [ok_call] in Hok. rewrite Him in Hok. discriminate Hok.
    - (* detach an observer *)
      pose proof (Rel_clear sc ns Hrel) as Hc. destruct (Rel_ls_obs _ _ Hc) as [_ Eobs]. cbn [cleared_sc sc_g] in Eobs.
      unfold api_call in H. unfold net_api_call.
      change (g_obs (clear_log (sc_g sc))) with (g_obs (sc_g sc)) in *.
      change (ns_obs (ns <| ns_log := [] |>)) with (ns_obs ns) in *. rewrite Eobs.
      destruct (remove_first (Nat.eqb o) (g_obs (sc_g sc))) as [l'|] eqn:Erm; [|discriminate H].
      injection H as Hb Hsc. subst b sc'.
      eexists. split; [exists 0; intros; reflexivity|].
      apply (Rel_set_obs (cleared_sc sc) (ns <| ns_log := [] |>) _ Hc).
      intro Him. exfalso. pose proof Hc as (Hi & _). destruct (iv_ls _ Hi) as (_ & Hlo & _). destruct (Hlo Him) as [_ Ho].
      change (ns_obs (ns <| ns_log := [] |>)) with (ns_obs ns) in Ho. rewrite Eobs in Ho. rewrite Ho in Erm. discriminate Erm.
  Qed.

  Theorem script_sim : forall fu script sc ns tr,
      forallb ok_call script = true -> Rel sc ns ->
      run_script orc imm fu body sc script = Ok tr ->
      exists f0, forall f, f0 <= f -> net_run_script tasks env f ns script = Ok tr.
  Proof.
    intros fu. induction script as [|c r IH]; intros sc ns tr Hok Hrel H.
    - cbn [run_script] in H. injection H as <-. exists 0. intros f _. reflexivity.
    - cbn [forallb] in Hok. apply andb_prop in Hok. destruct Hok as [Hc Hr].
      cbn [run_script] in H. destruct (api_call orc imm fu body sc c) as [[b sc']| | |] eqn:E; try discriminate H.
      cbn [rbind] in H. destruct (run_script orc imm fu body sc' r) as [t| | |] eqn:E2; try discriminate H.
      cbn [rbind] in H. injection H as <-.
      destruct (api_sim fu sc ns c b sc' Hc Hrel E) as (ns' & (f1 & H1) & Hrel').
      destruct (IH sc' ns' t Hr Hrel' E2) as (f2 & H2).
      exists (Nat.max f1 f2). intros f Hf. cbn [net_run_script]. rewrite (H1 f) by lia. cbn [rbind].
      rewrite (H2 f) by lia. cbn [rbind]. rewrite (obs_eq sc' ns' b Hrel'). reflexivity.
  Qed.
End Sim.
