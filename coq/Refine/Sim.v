(* Refine/Sim.v — the simulation: on the net that the generator builds for a program of the
   fragment, starting a component and delivering a completion make the net fire exactly the
   transitions, and run exactly the callbacks, that correspond to the reference semantics'
   start_* / deliver_* functions, with the same notifications in the same order.  Proof file. *)
From PFDL Require Import NetModel RefBase RefProgress.
From PFDL.Refine Require Import Eval Layout GenSpec Abs.
From Coq Require Import Lia.

Lemma subst_params_nil : forall ps, subst_params [] ps = ps.
Proof.
  unfold subst_params. induction ps as [|p ps IH]; [reflexivity|]. cbn [map]. rewrite IH. f_equal.
  destruct p as [v|v l|sn j]; try reflexivity. cbn [subst_param]. f_equal.
  induction l as [|e l IHl]; [reflexivity|]. cbn [map]. rewrite IHl. f_equal. destruct e; reflexivity.
Qed.

Section Sim.
  Variable tasks : list task.
  Variable env : envcfg.
  Variable Henv : env_quiet env.
  Variable orc : oracle.
  Variable imm : nat -> bool.
  Variable Himm : forall k, imm k = false.
  Variable body : list xstmt.
  Variable N0 : NS.
  Variable HN0 : NetOf body N0.
  Variable Hfrag : frag_block body = true.

  (* ---- what never changes at run time ---- *)
  Record Inv (ns : NS) : Prop := {
    iv_trans : ns_trans ns = ns_trans N0;
    iv_cbs : ns_cbs ns = ns_cbs N0;
    iv_ti : ns_test_ids ns = true;
    iv_ls : ns_ls ns = default_listeners;
    iv_obs : ns_obs ns = [];
    iv_start : ns_start_place ns = 0;
    iv_final : ns_final_place ns = 1;
    iv_npl : List.length (ns_places ns) = List.length (ns_places N0);
    iv_napi : List.length (ns_apis ns) = List.length (ns_apis N0);
    iv_dict : exists d, ns_place_dict ns = d ++ ns_place_dict N0 /\
                        Forall (fun kv => exists i, fst kv = ITest i /\ i < ns_sid ns) d
  }.

  (* ---- scheduler bookkeeping of the two models; [pend] = the engine's pending services ---- *)
  Record GR (g : G) (ns : NS) (pend : list nat) : Prop := {
    gr_tid : ns_tid ns = g_tid g;
    gr_sid : ns_sid ns = g_sid g;
    gr_ss : ns_nss ns = g_ss g;
    gr_run : ns_running ns = g_running g;
    gr_log : ns_log ns = g_log g;
    gr_ls : g_ls g = default_listeners;
    gr_obs : g_obs g = [];
    gr_aw : ns_awaited ns = map EvF (g_awaited g);
    gr_pend : ns_pending ns = map ITest pend
  }.

  (* ---- a list of callbacks run one after the other (none of them touches the tables) ---- *)
  Inductive RunList : list cb -> NS -> NS -> Prop :=
  | rl_nil : forall s, RunList [] s s
  | rl_cons : forall c l s s1 s', RunCb tasks env c s s1 -> ns_cbs s1 = ns_cbs s ->
                                  RunList l s1 s' -> RunList (c :: l) s s'.

  Lemma RunList_app : forall l1 l2 s s1 s', RunList l1 s s1 -> RunList l2 s1 s' -> RunList (l1 ++ l2) s s'.
  Proof.
    induction l1 as [|c l1 IH]; intros l2 s s1 s' H1 H2; inversion H1; subst; cbn [app]; [exact H2|].
    econstructor; [eassumption|assumption|]. eapply IH; eassumption.
  Qed.

  Lemma RunList_cbs : forall l s s', RunList l s s' -> ns_cbs s' = ns_cbs s.
  Proof. induction 1; [reflexivity|congruence]. Qed.

  Lemma RunList_RunFrom : forall t l pre s s',
      RunList l s s' -> nth t (ns_cbs s) [] = pre ++ l ->
      RunFrom tasks env t (pre ++ l) (List.length pre) s s'.
  Proof.
    intros t. induction l as [|c l IH]; intros pre s s' H Hn; inversion H; subst.
    - apply rf_end; [exact Hn|]. apply nth_error_None. rewrite app_nil_r. lia.
    - eapply rf_cb; [exact Hn| |eassumption|].
      + rewrite nth_error_app2, Nat.sub_diag by lia. reflexivity.
      + replace (pre ++ c :: l) with ((pre ++ [c]) ++ l) by (rewrite <- app_assoc; reflexivity).
        replace (S (List.length pre)) with (List.length (pre ++ [c])) by (rewrite app_length; cbn; lia).
        apply IH; [assumption|]. rewrite <- app_assoc. cbn [app]. congruence.
  Qed.

  (* ---- the four callbacks as [RunCb] facts ---- *)
  Lemma RunCb_TS : forall ai s a,
      ns_ls s = default_listeners -> ns_obs s = [] -> ns_test_ids s = true ->
      nth_error (ns_apis s) ai = Some a -> a_in_loop a = false ->
      RunCb tasks env (CbTS ai) s (notified TS (with_uuid (ITest (ns_tid s)) a) false (ts_pre ai s)).
  Proof.
    intros. exists 4. intros f Hf. do 4 (destruct f as [|f]; [lia|]). apply run_cb_TS; assumption.
  Qed.
  Lemma RunCb_SS : forall ai s a p,
      ns_ls s = default_listeners -> ns_obs s = [] -> ns_test_ids s = true ->
      nth_error (ns_apis s) ai = Some a -> a_in_loop a = false ->
      dict_get ident_eqb (a_uuid a) (ns_place_dict s) = Some p ->
      RunCb tasks env (CbSS ai) s (notified SS (with_uuid (ITest (ns_sid s)) a) false (ss_pre ai p s)).
  Proof.
    intros. exists 4. intros f Hf. do 4 (destruct f as [|f]; [lia|]). apply run_cb_SS; assumption.
  Qed.
  Lemma RunCb_SF : forall ai s a,
      ns_ls s = default_listeners -> ns_obs s = [] -> nth_error (ns_apis s) ai = Some a ->
      RunCb tasks env (CbSF ai) s (notified SF a false s).
  Proof.
    intros. exists 4. intros f Hf. do 4 (destruct f as [|f]; [lia|]). apply run_cb_SF; assumption.
  Qed.
  Lemma RunCb_TF : forall ai s a,
      ns_ls s = default_listeners -> ns_obs s = [] -> nth_error (ns_apis s) ai = Some a ->
      RunCb tasks env (CbTF ai) s (notified TF a (Nat.eqb (a_name a) production_task) s).
  Proof.
    intros. exists 4. intros f Hf. do 4 (destruct f as [|f]; [lia|]). apply run_cb_TF; assumption.
  Qed.

  (* ---- one notification on the reference side, default listeners, no observers ---- *)
  Lemma emit_gen_eq : forall n fin g,
      g_ls g = default_listeners -> g_obs g = [] ->
      emit_gen n fin g = Ok (tt, g <| g_log := ENotif 0 n (g_running g) :: g_log g |>).
  Proof.
    intros n fin g Hl Ho. unfold emit_gen, log_entries. rewrite Hl, Ho, listeners_default. reflexivity.
  Qed.

  Definition ctx_is (ns : NS) (ctx cid : nat) : Prop :=
    exists ac, nth_error (ns_apis ns) ctx = Some ac /\ a_uuid ac = ITest cid.

  (* ---- starting a service ---- *)
  Lemma sim_SS : forall f n at_ ins ctx cid a fin g st g' ns pend,
      start_stmt orc imm (S f) cid [] (XService n at_ ins) g = Ok (st, g') ->
      Inv ns -> GR g ns pend ->
      nth_error (ns_apis ns) a = Some (svc_api n at_ ins ctx a) ->
      dict_get ident_eqb (IUuid a) (ns_place_dict ns) = Some fin ->
      ctx_is ns ctx cid -> ctx <> a ->
      let ns' := notified SS (with_uuid (ITest (ns_sid ns)) (svc_api n at_ ins ctx a)) false (ss_pre a fin ns) in
      st = RAwait (g_sid g) /\ g_awaited g' = g_awaited g ++ [g_sid g] /\ g_sid g' = S (g_sid g) /\
      RunCb tasks env (CbSS a) ns ns' /\ ns_cbs ns' = ns_cbs ns /\ Inv ns' /\ GR g' ns' (pend ++ [g_sid g]) /\
      ns_places ns' = ns_places ns /\
      ns_apis ns' = upd a (with_uuid (ITest (g_sid g))) (ns_apis ns) /\
      ns_place_dict ns' = (ITest (g_sid g), fin) :: ns_place_dict ns.
  Proof.
    intros f n at_ ins ctx cid a fin g st g' ns pend H Hinv Hgr Ha Hd (ac & Hac & Huc) Hne ns'.
    destruct Hinv as [I1 I2 I3 I4 I5 I6 I7 I8 I9 (d & Id & Ik)].
    destruct Hgr as [G1 G2 G3 G4 G5 G6 G7 G8 G9].
    cbn [start_stmt] in H. unfold bind, fresh_s, await, set_awaited, emit, tick_ss in H.
    rewrite emit_gen_eq in H by assumption. cbn [g_ss set] in H. rewrite Himm in H. unfold ret in H.
    inversion H; subst st g'; clear H.
    split; [reflexivity|]. split; [reflexivity|]. split; [reflexivity|].
    split; [apply RunCb_SS; try assumption; reflexivity|].
    unfold ns'. split; [rewrite nf_cbs; reflexivity|].
    split; [|split; [|split; [|split]]].
    - constructor; rewrite ?nf_trans, ?nf_cbs, ?nf_test_ids, ?nf_ls, ?nf_obs, ?nf_start_place, ?nf_final_place,
                   ?nf_places, ?nf_apis, ?nf_place_dict, ?nf_sid; try assumption.
      + change (ns_apis (ss_pre a fin ns)) with (upd a (with_uuid (ITest (ns_sid ns))) (ns_apis ns)).
        rewrite upd_length. exact I9.
      + change (ns_place_dict (ss_pre a fin ns)) with ((ITest (ns_sid ns), fin) :: ns_place_dict ns).
        change (ns_sid (ss_pre a fin ns)) with (S (ns_sid ns)).
        exists ((ITest (ns_sid ns), fin) :: d). split; [rewrite Id; reflexivity|].
        constructor; [exists (ns_sid ns); split; [reflexivity|lia]|].
        eapply Forall_impl; [|exact Ik]. intros kv (i & E & Hi). exists i. split; [exact E|lia].
    - constructor; rewrite ?nf_tid, ?nf_sid, ?nf_nss, ?nf_running, ?nf_log, ?nf_awaited, ?nf_pending; cbn [g_tid g_sid g_ss g_running g_log g_ls g_obs g_awaited set]; try assumption.
      + change (ns_sid (ss_pre a fin ns)) with (S (ns_sid ns)). congruence.
      + change (ns_nss (ss_pre a fin ns)) with (ns_nss ns). congruence.
      + change (ns_log (ss_pre a fin ns)) with (ns_log ns).
        change (ns_running (ss_pre a fin ns)) with (ns_running ns). rewrite G4, G5. f_equal. f_equal.
        unfold notif_of, mk. cbn [a_name a_site a_uuid a_ctx a_params with_uuid svc_api ident_nat].
        rewrite subst_params_nil, G2. f_equal.
        unfold ctx_uuid_nat.
        change (ns_apis (ss_pre a fin ns)) with (upd a (with_uuid (ITest (ns_sid ns))) (ns_apis ns)).
        rewrite nth_error_upd_neq by congruence. rewrite Hac, Huc. reflexivity.
      + change (ns_awaited (ss_pre a fin ns)) with (ns_awaited ns ++ [EvFinish (ITest (ns_sid ns))]).
        rewrite G8, map_app, G2. reflexivity.
      + unfold pend_after. cbn [a_uuid with_uuid].
        change (ns_pending (ss_pre a fin ns)) with (ns_pending ns). rewrite G9, map_app, G2. reflexivity.
    - rewrite nf_places. reflexivity.
    - rewrite nf_apis, <- G2. reflexivity.
    - rewrite nf_place_dict, <- G2. reflexivity.
  Qed.

  (* the context identifier a notification reports *)
  Definition octx_is (ns : NS) (a : nat) (oc : option nat) (ocid : option nat) : Prop :=
    match oc, ocid with
    | None, None => True
    | Some c, Some cid => ctx_is ns c cid /\ c <> a
    | _, _ => False
    end.

  Lemma octx_uuid : forall ns ns' a oc ocid,
      octx_is ns a oc ocid ->
      (forall j, j <> a -> nth_error (ns_apis ns') j = nth_error (ns_apis ns) j) ->
      ctx_uuid_nat ns' oc = ocid.
  Proof.
    intros ns ns' a [c|] [cid|] H Hsame; cbn [octx_is] in H; try contradiction; [|reflexivity].
    destruct H as [(ac & Hac & Hu) Hne]. unfold ctx_uuid_nat. rewrite Hsame by exact Hne. rewrite Hac, Hu. reflexivity.
  Qed.

  (* the reference bookkeeping after one more log entry; [tid'] / [run'] the new values *)
  Definition g_step (g g1 : G) (e : entry) (tid' : nat) (run' : bool) : Prop :=
    g_tid g1 = tid' /\ g_sid g1 = g_sid g /\ g_ss g1 = g_ss g /\ g_running g1 = run' /\
    g_log g1 = e :: g_log g /\ g_ls g1 = g_ls g /\ g_obs g1 = g_obs g /\ g_awaited g1 = g_awaited g.

  (* ---- task started ---- *)
  Lemma sim_TS : forall a a0 ocid g g1 ns pend,
      Inv ns -> GR g ns pend ->
      nth_error (ns_apis ns) a = Some a0 -> a_in_loop a0 = false ->
      octx_is ns a (a_ctx a0) ocid ->
      g_step g g1 (ENotif 0 (mk TS (a_name a0) (a_site a0) (g_tid g) ocid (a_params a0)) (g_running g))
             (S (g_tid g)) (g_running g) ->
      let ns' := notified TS (with_uuid (ITest (ns_tid ns)) a0) false (ts_pre a ns) in
      RunCb tasks env (CbTS a) ns ns' /\ ns_cbs ns' = ns_cbs ns /\ Inv ns' /\ GR g1 ns' pend /\
      ns_places ns' = ns_places ns /\
      ns_apis ns' = upd a (with_uuid (ITest (g_tid g))) (ns_apis ns) /\
      ns_place_dict ns' = ns_place_dict ns.
  Proof.
    intros a a0 ocid g g1 ns pend Hinv Hgr Ha Hl Hc (S1 & S2 & S3 & S4 & S5 & S6 & S7 & S8) ns'.
    destruct Hinv as [I1 I2 I3 I4 I5 I6 I7 I8 I9 (d & Id & Ik)].
    destruct Hgr as [G1 G2 G3 G4 G5 G6 G7 G8 G9].
    split; [apply RunCb_TS; assumption|].
    unfold ns'. split; [rewrite nf_cbs; reflexivity|].
    split; [|split; [|split; [|split]]].
    - constructor; rewrite ?nf_trans, ?nf_cbs, ?nf_test_ids, ?nf_ls, ?nf_obs, ?nf_start_place, ?nf_final_place,
                   ?nf_places, ?nf_apis, ?nf_place_dict, ?nf_sid; try assumption.
      + change (ns_apis (ts_pre a ns)) with (upd a (with_uuid (ITest (ns_tid ns))) (ns_apis ns)).
        rewrite upd_length. exact I9.
      + exists d. split; [exact Id|exact Ik].
    - constructor; rewrite ?nf_tid, ?nf_sid, ?nf_nss, ?nf_running, ?nf_log, ?nf_awaited, ?nf_pending; try congruence.
      + change (ns_tid (ts_pre a ns)) with (S (ns_tid ns)). congruence.
      + change (ns_sid (ts_pre a ns)) with (ns_sid ns). congruence.
      + change (ns_nss (ts_pre a ns)) with (ns_nss ns). congruence.
      + change (ns_running (ts_pre a ns)) with (ns_running ns). congruence.
      + change (ns_log (ts_pre a ns)) with (ns_log ns).
        change (ns_running (ts_pre a ns)) with (ns_running ns). rewrite S5, G4, G5. f_equal. f_equal.
        unfold notif_of, mk. destruct a0 as [x1 x2 x3 x4 x5 x6 x7 x8 x9]; cbn [a_name a_site a_uuid a_ctx a_params with_uuid ident_nat] in *.
        rewrite G1. f_equal.
        eapply octx_uuid; [exact Hc|]. intros j Hj.
        change (ns_apis (ts_pre a ns)) with (upd a (with_uuid (ITest (ns_tid ns))) (ns_apis ns)).
        apply nth_error_upd_neq. congruence.
      + change (ns_awaited (ts_pre a ns)) with (ns_awaited ns). congruence.
      + unfold pend_after. change (ns_pending (ts_pre a ns)) with (ns_pending ns). exact G9.
    - rewrite nf_places. reflexivity.
    - rewrite nf_apis, <- G1. reflexivity.
    - rewrite nf_place_dict. reflexivity.
  Qed.

  Lemma remove_first_ITest : forall id pend,
      remove_first (ident_eqb (ITest id)) (map ITest pend)
      = option_map (map ITest) (remove_first (Nat.eqb id) pend).
  Proof.
    intros id. induction pend as [|x r IH]; [reflexivity|]. cbn [map remove_first ident_eqb].
    destruct (Nat.eqb id x); [reflexivity|]. rewrite IH. destruct (remove_first (Nat.eqb id) r); reflexivity.
  Qed.

  (* ---- a notification that changes no identifier: service finished / task finished ---- *)
  Lemma sim_fin : forall k a a1 ocid (fin : bool) g g1 ns pend pend',
      (k = SF \/ k = TF) ->
      Inv ns -> GR g ns pend ->
      nth_error (ns_apis ns) a = Some a1 ->
      octx_is ns a (a_ctx a1) ocid ->
      (match k with
       | SF => exists id, a_uuid a1 = ITest id /\ remove_first (Nat.eqb id) pend = Some pend'
       | _ => pend' = pend
       end) ->
      g_step g g1 (ENotif 0 (mk k (a_name a1) (a_site a1) (ident_nat (a_uuid a1)) ocid (a_params a1)) (g_running g))
             (g_tid g) (if fin then false else g_running g) ->
      let ns' := notified k a1 fin ns in
      ns_cbs ns' = ns_cbs ns /\ Inv ns' /\ GR g1 ns' pend' /\
      ns_places ns' = ns_places ns /\ ns_apis ns' = ns_apis ns /\ ns_place_dict ns' = ns_place_dict ns.
  Proof.
    intros k a a1 ocid fin g g1 ns pend pend' Hk Hinv Hgr Ha Hc Hp (S1 & S2 & S3 & S4 & S5 & S6 & S7 & S8) ns'.
    destruct Hinv as [I1 I2 I3 I4 I5 I6 I7 I8 I9 (d & Id & Ik)].
    destruct Hgr as [G1 G2 G3 G4 G5 G6 G7 G8 G9].
    unfold ns'. split; [rewrite nf_cbs; reflexivity|].
    split; [|split; [|split; [|split]]].
    - constructor; rewrite ?nf_trans, ?nf_cbs, ?nf_test_ids, ?nf_ls, ?nf_obs, ?nf_start_place, ?nf_final_place,
                   ?nf_places, ?nf_apis, ?nf_place_dict, ?nf_sid; try assumption.
      exists d. split; [exact Id|exact Ik].
    - constructor; rewrite ?nf_tid, ?nf_sid, ?nf_nss, ?nf_running, ?nf_log, ?nf_awaited, ?nf_pending.
      + congruence.
      + congruence.
      + destruct Hk as [-> | ->]; congruence.
      + destruct fin; congruence.
      + rewrite S5, G4, G5. f_equal. f_equal. unfold notif_of, mk. f_equal.
        eapply octx_uuid; [exact Hc|]. intros j Hj. reflexivity.
      + congruence.
      + congruence.
      + congruence.
      + unfold pend_after. destruct Hk as [-> | ->].
        * destruct Hp as (id & Hu & Hr). rewrite Hu, G9, remove_first_ITest, Hr. reflexivity.
        * subst pend'. exact G9.
    - rewrite nf_places. reflexivity.
    - rewrite nf_apis. reflexivity.
    - rewrite nf_place_dict. reflexivity.
  Qed.

  (* ---- starting a component ---- *)
  Definition fresh_in (ns : NS) (p : pos) (da : nat) : Prop :=
    forall k, pa p <= k < pa p + da -> nth_error (ns_apis ns) k = nth_error (ns_apis N0) k.

  Lemma dict_IUuid : forall ns k, Inv ns ->
      dict_get ident_eqb (IUuid k) (ns_place_dict ns) = dict_get ident_eqb (IUuid k) (ns_place_dict N0).
  Proof.
    intros ns k [_ _ _ _ _ _ _ _ _ (d & Hd & Hk)]. rewrite Hd. clear Hd.
    induction d as [|[u q] d IH]; [reflexivity|]. inversion Hk as [|? ? (i & E & _) Hr]; subst.
    cbn [app dict_get]. cbn [fst] in E. subst u. cbn [ident_eqb]. apply IH. exact Hr.
  Qed.

  Definition StartRes (ns ns' : NS) (g g' : G) (pend ids : list nat) (p : pos) (da : nat) : Prop :=
    Inv ns' /\ GR g' ns' (pend ++ ids) /\ ns_places ns' = ns_places ns /\
    (forall k, ~ (pa p <= k < pa p + da) -> nth_error (ns_apis ns') k = nth_error (ns_apis ns) k) /\
    g_awaited g' = g_awaited g ++ ids /\ g_sid g <= g_sid g' /\
    (exists d, ns_place_dict ns' = d ++ ns_place_dict ns /\
               Forall (fun kv => exists i, fst kv = ITest i /\ ns_sid ns <= i) d).

  Lemma StartRes_trans : forall ns ns1 ns2 g g1 g2 pend ids1 ids2 p da p1 da1 p2 da2,
      GR g ns pend ->
      StartRes ns ns1 g g1 pend ids1 p1 da1 -> StartRes ns1 ns2 g1 g2 (pend ++ ids1) ids2 p2 da2 ->
      pa p <= pa p1 -> pa p1 + da1 <= pa p + da -> pa p <= pa p2 -> pa p2 + da2 <= pa p + da ->
      StartRes ns ns2 g g2 pend (ids1 ++ ids2) p da.
  Proof.
    intros ns ns1 ns2 g g1 g2 pend ids1 ids2 p da p1 da1 p2 da2 Hgr
           (I1 & G1 & P1 & A1 & W1 & S1 & (d1 & D1 & K1)) (I2 & G2 & P2 & A2 & W2 & S2 & (d2 & D2 & K2)) R1 R2 R3 R4.
    split; [exact I2|]. split; [rewrite app_assoc; exact G2|]. split; [congruence|].
    split; [intros k Hk; rewrite A2 by lia; apply A1; lia|].
    split; [rewrite W2, W1, app_assoc; reflexivity|]. split; [lia|].
    exists (d2 ++ d1). split; [rewrite D2, D1, app_assoc; reflexivity|].
    apply Forall_app. split; [|exact K1].
    eapply Forall_impl; [|exact K2]. intros kv (i & E & Hi). exists i. split; [exact E|].
    pose proof (gr_sid _ _ _ G1). pose proof (gr_sid _ _ _ Hgr). lia.
  Qed.

  Lemma StartRes_widen : forall ns ns' g g' pend ids p da p1 da1,
      StartRes ns ns' g g' pend ids p1 da1 -> pa p <= pa p1 -> pa p1 + da1 <= pa p + da ->
      StartRes ns ns' g g' pend ids p da.
  Proof.
    intros ns ns' g g' pend ids p da p1 da1 (I1 & G1 & P1 & A1 & W1 & S1 & D1) R1 R2.
    split; [exact I1|]. split; [exact G1|]. split; [exact P1|]. split; [intros k Hk; apply A1; lia|].
    split; [exact W1|]. split; [exact S1|exact D1].
  Qed.

  Definition StartOK (f : nat) : Prop :=
    forall s p ctx cid xcbs g st g' ns pend,
      start_stmt orc imm f cid [] s g = Ok (st, g') ->
      frag s = true -> wired N0 s p ctx xcbs ->
      Inv ns -> GR g ns pend -> fresh_in ns p (napis s) -> ctx_is ns ctx cid -> ctx < pa p ->
      exists ns', RunList (startcbs s p) ns ns' /\ StartRes ns ns' g g' pend (svc_ids st) p (napis s) /\
                  act N0 ns' st s p ctx /\ is_done st = false /\ ml st s p = entries s p.

  Lemma start_svc_case : forall f n at_ ins p ctx cid xcbs g st g' ns pend,
      start_stmt orc imm (S f) cid [] (XService n at_ ins) g = Ok (st, g') ->
      wired N0 (XService n at_ ins) p ctx xcbs ->
      Inv ns -> GR g ns pend -> fresh_in ns p 1 -> ctx_is ns ctx cid -> ctx < pa p ->
      exists ns', RunList (startcbs (XService n at_ ins) p) ns ns' /\
                  StartRes ns ns' g g' pend (svc_ids st) p 1 /\
                  act N0 ns' st (XService n at_ ins) p ctx /\ is_done st = false /\
                  ml st (XService n at_ ins) p = entries (XService n at_ ins) p.
  Proof.
    intros f n at_ ins p ctx cid xcbs g st g' ns pend H Hw Hinv Hgr Hfr Hctx Hlt.
    cbn [wired] in Hw. destruct Hw as (_ & _ & _ & Hapi & Hdict).
    assert (Ha : nth_error (ns_apis ns) (pa p) = Some (svc_api n at_ ins ctx (pa p))).
    { rewrite Hfr by lia. exact Hapi. }
    assert (Hd : dict_get ident_eqb (IUuid (pa p)) (ns_place_dict ns) = Some (pp p + 1)).
    { rewrite dict_IUuid by exact Hinv. exact Hdict. }
    destruct (sim_SS f n at_ ins ctx cid (pa p) (pp p + 1) g st g' ns pend H Hinv Hgr Ha Hd Hctx ltac:(lia))
      as (-> & Haw & Hsid & Hrun & Hcbs & Hinv' & Hgr' & Hpl & Hap & Hdi).
    eexists. split; [econstructor; [exact Hrun|exact Hcbs|constructor]|].
    cbn [svc_ids]. split; [|split; [|split; [reflexivity|reflexivity]]].
    - split; [exact Hinv'|]. split; [exact Hgr'|]. split; [exact Hpl|].
      split; [intros k Hk; rewrite Hap; apply nth_error_upd_neq; lia|].
      split; [exact Haw|]. split; [lia|].
      exists [(ITest (g_sid g), pp p + 1)]. split; [rewrite Hdi; reflexivity|].
      constructor; [|constructor]. exists (g_sid g). split; [reflexivity|]. rewrite (gr_sid _ _ _ Hgr). lia.
    - cbn [act]. split; [rewrite Hap; apply nth_error_upd_eq; exact Ha|].
      split; [rewrite Hdi; cbn [dict_get ident_eqb]; rewrite Nat.eqb_refl; reflexivity|].
      rewrite (gr_sid _ _ _ Hgr'), Hsid. lia.
  Qed.

  (* entering statement i of a block (the first one, or the one after a completed statement) *)
  Lemma start_block_case : forall f, StartOK f ->
      forall l bp ctx cid xcbs i s g r g' ns pend,
        run_block orc imm (S f) cid [] l i g = Ok (r, g') -> nth_error l i = Some s ->
        frag_block l = true -> wired_block (wired N0) N0 ctx xcbs l bp ->
        Inv ns -> GR g ns pend -> fresh_in ns (spos l bp i) (napis s) -> ctx_is ns ctx cid -> ctx < pa bp ->
        exists st ns', r = Some (i, st) /\ RunList (startcbs s (spos l bp i)) ns ns' /\
                       StartRes ns ns' g g' pend (svc_ids st) (spos l bp i) (napis s) /\
                       act N0 ns' st s (spos l bp i) ctx /\ is_done st = false /\
                       ml st s (spos l bp i) = entries s (spos l bp i).
  Proof.
    intros f HS l bp ctx cid xcbs i s g r g' ns pend H Hn Hf Hw Hinv Hgr Hfr Hctx Hlt.
    cbn [run_block] in H. rewrite Hn in H. mstep as st g1 E1.
    destruct (wired_block_nth _ _ _ _ _ _ _ _ Hw Hn) as [Ws _].
    pose proof (spos_range l bp i s Hn) as R.
    destruct (HS s _ ctx cid _ g st g1 ns pend E1 (frag_block_nth _ _ _ Hf Hn) Ws Hinv Hgr Hfr Hctx ltac:(lia))
      as (ns' & Hrun & Hres & Hact & Hnd & Hml).
    rewrite Hnd in H. mstep. exists st, ns'.
    split; [reflexivity|]. split; [exact Hrun|]. split; [exact Hres|]. split; [exact Hact|]. split; [exact Hnd|exact Hml].
  Qed.

  Lemma ids_list_snoc : forall st sts, ids_list (st :: sts) = svc_ids st ++ ids_list sts.
  Proof. reflexivity. Qed.

  (* forking the branches of a Parallel *)
  Lemma start_list_case : forall fl, (forall f0, f0 < fl -> StartOK f0) ->
      forall bs q ctx cid g sts g' ns pend,
        start_list orc imm fl cid (map (fun b => ([], b)) bs) g = Ok (sts, g') ->
        frag_brs bs = true -> wired_list (wired N0) ctx bs q ->
        Inv ns -> GR g ns pend -> fresh_in ns q (napis_l bs) -> ctx_is ns ctx cid -> ctx < pa q ->
        exists ns', RunList (cat_of startcbs bs q) ns ns' /\
                    StartRes ns ns' g g' pend (ids_list sts) q (napis_l bs) /\
                    act_list N0 ns' sts bs q ctx /\ Forall (fun st => is_done st = false) sts /\
                    ml_list sts bs q = cat_of entries bs q.
  Proof.
    intros fl HS bs. revert fl HS.
    induction bs as [|b r IH]; intros fl HS q ctx cid g sts g' ns pend H Hf Hw Hinv Hgr Hfr Hctx Hlt;
      (destruct fl as [|f]; [discriminate H|]).
    - cbn [map start_list] in H. mstep. exists ns. split; [constructor|].
      split; [|split; [exact I|split; [constructor|reflexivity]]].
      unfold ids_list. cbn [flat_map]. split; [exact Hinv|]. split; [rewrite app_nil_r; exact Hgr|].
      split; [reflexivity|]. split; [reflexivity|]. split; [rewrite app_nil_r; reflexivity|]. split; [lia|].
      exists []. split; [reflexivity|constructor].
    - cbn [map start_list] in H. mstep as st g1 E1. mstep as sts1 g2 E2. mstep.
      apply frag_brs_cons in Hf. destruct Hf as (_ & Hfb & Hfr').
      cbn [wired_list] in Hw. destruct Hw as [Wb Wr]. rewrite napis_l_cons in Hfr.
      destruct (HS f ltac:(lia) b q ctx cid [] g st g1 ns pend E1 Hfb Wb Hinv Hgr ltac:(intros k Hk; apply Hfr; lia) Hctx Hlt)
        as (ns1 & Hrun1 & Hres1 & Hact1 & Hnd1 & Hml1).
      pose proof Hres1 as (Hinv1 & Hgr1 & Hpl1 & Hap1 & Haw1 & Hsid1 & Hd1).
      assert (Hfr1 : fresh_in ns1 (adv b q) (napis_l r)).
      { intros k Hk. cbn [adv pa] in Hk. rewrite Hap1 by lia. apply Hfr. lia. }
      assert (Hctx1 : ctx_is ns1 ctx cid).
      { destruct Hctx as (ac & Hac & Hu). exists ac. split; [rewrite Hap1 by lia; exact Hac|exact Hu]. }
      destruct (IH f ltac:(intros f0 Hf0; apply HS; lia) (adv b q) ctx cid g1 sts1 g2 ns1 (pend ++ svc_ids st) E2 Hfr' Wr Hinv1 Hgr1 Hfr1 Hctx1
                   ltac:(cbn [adv pa]; lia))
        as (ns2 & Hrun2 & Hres2 & Hact2 & Hnd2 & Hml2).
      pose proof Hres2 as (Hinv2 & Hgr2 & Hpl2 & Hap2 & Haw2 & Hsid2 & Hd2).
      exists ns2. split; [cbn [cat_of]; eapply RunList_app; eassumption|].
      split; [|split; [|split; [constructor; assumption|]]].
      + rewrite ids_list_snoc.
        eapply (StartRes_trans ns ns1 ns2 g g1 g2 pend _ _ q (napis b + napis_l r) q (napis b) (adv b q) (napis_l r));
          try eassumption; cbn [adv pa]; lia.
      + cbn [act_list]. split; [|exact Hact2].
        apply (act_mono N0 ns1 ns2 st b q ctx Hfb Hact1).
        * intros k Hk. apply Hap2. cbn [adv pa]. lia.
        * rewrite (gr_sid _ _ _ Hgr1), (gr_sid _ _ _ Hgr2). exact Hsid2.
        * exact Hd2.
      + cbn [ml_list cat_of]. rewrite Hml2. f_equal. destruct st; try discriminate Hnd1; exact Hml1.
  Qed.

  Lemma all_done_false : forall sts, sts <> [] -> Forall (fun st => is_done st = false) sts -> all_done sts = false.
  Proof.
    intros [|st sr] Hne HF; [congruence|]. inversion HF as [|? ? H1 _]; subst. cbn [all_done]. rewrite H1. reflexivity.
  Qed.

  Lemma start_list_length : forall fl cid l g sts g',
      start_list orc imm fl cid l g = Ok (sts, g') -> List.length sts = List.length l.
  Proof.
    induction fl as [|f IH]; intros cid l g sts g' H; [discriminate H|]. cbn [start_list] in H.
    destruct l as [|[ie b] r]; [mstep; reflexivity|].
    mstep as st g1 E1. mstep as sts1 g2 E2. mstep. cbn [List.length]. f_equal. eapply IH. exact E2.
  Qed.

  Theorem start_ok : forall f, StartOK f.
  Proof.
    induction f as [f IHf] using lt_wf_ind.
    intros s p ctx cid xcbs g st g' ns pend H Hf Hw Hinv Hgr Hfr Hctx Hlt.
    destruct f as [|f]; [discriminate H|].
    destruct s as [n at_ ins|t at_ ins bd|bs| | | | ]; try discriminate Hf.
    - (* service *)
      eapply start_svc_case; eassumption.
    - (* task call *)
      pose proof (frag_call _ _ _ _ Hf) as [Hname Hfb].
      cbn [start_stmt] in H. unfold bind at 1 in H. unfold fresh_t at 1 in H.
      unfold bind at 1 in H. unfold emit at 1 in H.
      rewrite emit_gen_eq in H by first [apply (gr_ls _ _ _ Hgr)|apply (gr_obs _ _ _ Hgr)].
      set (g1 := (g <| g_tid := S (g_tid g) |>) <| g_log := _ |>) in H.
      mstep as r g2 E2.
      cbn [wired] in Hw. destruct Hw as [Hapi Hwb].
      assert (Ha : nth_error (ns_apis ns) (pa p) = Some (call_api t at_ ins ctx (pa p))).
      { rewrite Hfr by (rewrite napis_call; lia). exact Hapi. }
      destruct (sim_TS (pa p) (call_api t at_ ins ctx (pa p)) (Some cid) g g1 ns pend Hinv Hgr Ha eq_refl)
        as (Hrun & Hcbs & Hinv1 & Hgr1 & Hpl1 & Hap1 & Hd1).
      { cbn [octx_is call_api a_ctx]. split; [exact Hctx|lia]. }
      { unfold g1, g_step. cbn [call_api a_name a_site a_params]. rewrite subst_params_nil.
        repeat split; reflexivity. }
      set (ns1 := notified TS (with_uuid (ITest (ns_tid ns)) (call_api t at_ ins ctx (pa p))) false (ts_pre (pa p) ns)) in *.
      assert (Hn0' : exists s0, nth_error bd 0 = Some s0) by (destruct bd; [discriminate Hfb|eexists; reflexivity]).
      destruct Hn0' as [s0 Hn0].
      pose proof (spos_range bd (body_pos p) 0 s0 Hn0) as R0. cbn [body_pos pa] in R0.
      assert (Hfr1 : fresh_in ns1 (spos bd (body_pos p) 0) (napis s0)).
      { intros k Hk. rewrite Hap1, nth_error_upd_neq by lia. apply Hfr. rewrite napis_call. lia. }
      assert (Hctx1 : ctx_is ns1 (pa p) (g_tid g)).
      { eexists. split; [rewrite Hap1; apply nth_error_upd_eq; exact Ha|reflexivity]. }
      destruct f as [|f']; [discriminate E2|].
      destruct (start_block_case f' (IHf f' ltac:(lia)) bd (body_pos p) (pa p) (g_tid g) _ 0 s0 g1 r g2 ns1 pend
                                 E2 Hn0 Hfb Hwb Hinv1 Hgr1 Hfr1 Hctx1 ltac:(cbn [body_pos pa]; lia))
        as (st0 & ns2 & -> & Hrun2 & Hres2 & Hact2 & Hnd2 & Hml2).
      mstep. pose proof Hres2 as (Hinv2 & Hgr2 & Hpl2 & Hap2 & Haw2 & Hsid2 & Hd2).
      exists ns2. split; [|split; [|split; [|split; [reflexivity|]]]].
      + rewrite startcbs_call, (startcbs_b_nth0 _ _ _ Hn0).
        econstructor; [exact Hrun|exact Hcbs|exact Hrun2].
      + cbn [svc_ids]. rewrite napis_call.
        split; [exact Hinv2|]. split; [exact Hgr2|]. split; [congruence|].
        split; [intros k Hk; rewrite Hap2 by lia; rewrite Hap1; apply nth_error_upd_neq; lia|].
        split; [rewrite Haw2; reflexivity|]. split; [exact Hsid2|].
        destruct Hd2 as (d & Hd & Hk). exists d. split; [rewrite Hd, Hd1; reflexivity|].
        eapply Forall_impl; [|exact Hk]. intros kv (i & E & Hi). exists i. split; [exact E|].
        change (ns_sid ns1) with (ns_sid (ts_pre (pa p) ns)) in Hi. exact Hi.
      + cbn [act]. split; [|split; [exact Hnd2|split; [|rewrite Hn0; exact Hact2]]].
        * rewrite Hap2 by lia. rewrite Hap1. apply nth_error_upd_eq. exact Ha.
        * intros k s1 a1 Hk Hn1 Ha1.
          pose proof (spos_range bd (body_pos p) k s1 Hn1) as Rk. cbn [body_pos pa] in Rk.
          pose proof (spos_mono bd (body_pos p) 0 k s0 s1 Hk Hn0 Hn1) as Mk.
          rewrite Hap2 by lia. rewrite Hap1, nth_error_upd_neq by lia. apply Hfr. rewrite napis_call. lia.
      + rewrite ml_call, entries_call, (entries_b_nth0 _ _ _ Hn0). unfold ml_block. rewrite Hn0. exact Hml2.
    - (* parallel *)
      pose proof (frag_par _ Hf) as [Hne Hfb].
      cbn [start_stmt] in H. mstep as sts g1 E1.
      cbn [wired] in Hw. destruct Hw as (_ & _ & _ & Hwl).
      destruct (start_list_case f ltac:(intros f0 Hf0; apply IHf; lia) bs (par_pos p) ctx cid g sts g1 ns pend E1 Hfb Hwl Hinv Hgr
                                ltac:(intros k Hk; apply Hfr; rewrite napis_par; exact Hk) Hctx ltac:(cbn [par_pos pa]; lia))
        as (ns' & Hrun & Hres & Hact & Hnd & Hml).
      assert (Hlen : List.length sts = List.length bs).
      { rewrite (start_list_length _ _ _ _ _ _ E1), map_length. reflexivity. }
      assert (Had : all_done sts = false).
      { apply all_done_false; [|exact Hnd]. destruct sts; [destruct bs; [congruence|discriminate Hlen]|discriminate]. }
      rewrite Had in H. mstep. exists ns'. split; [exact Hrun|]. split; [|split; [|split; [reflexivity|]]].
      + cbn [svc_ids]. rewrite napis_par. exact Hres.
      + apply act_par. split; assumption.
      + rewrite ml_par. exact Hml.
  Qed.

  (* =========================================================================== *)
  (* steps of one evaluation                                                      *)
  (* =========================================================================== *)
  Definition nT : nat := List.length (ns_trans N0).
  Definition nP : nat := List.length (ns_places N0).

  (* transition j cannot fire under marking m: it reads an unmarked place *)
  Definition dis (m : list nat) (j : nat) : Prop := exists q, In q (preN N0 j) /\ ~ In q m.

  Lemma nth_error_preN : forall j tr, nth_error (ns_trans N0) j = Some tr -> preN N0 j = tr_pre tr.
  Proof. intros j tr H. unfold preN. rewrite (nth_error_nth _ _ _ H). reflexivity. Qed.
  Lemma nth_error_postN : forall j tr, nth_error (ns_trans N0) j = Some tr -> postN N0 j = tr_post tr.
  Proof. intros j tr H. unfold postN. rewrite (nth_error_nth _ _ _ H). reflexivity. Qed.

  Lemma dis_disabled : forall ns m j, Inv ns -> Marks ns m -> dis m j -> disabled ns j.
  Proof.
    intros ns m j Hinv Hm (q & Hqi & Hn). unfold disabled. rewrite (iv_trans _ Hinv).
    destruct (nth_error (ns_trans N0) j) as [tr|] eqn:E; [|exact I].
    rewrite (nth_error_preN _ _ E) in Hqi.
    destruct (enabled ns tr) eqn:En; [|reflexivity]. exfalso. apply Hn.
    apply (proj1 (enabled_iff ns m tr Hm) En). exact Hqi.
  Qed.

  Inductive Steps : NS -> NS -> Prop :=
  | steps_refl : forall ns, Steps ns ns
  | steps_step : forall ns t tr ns1 ns2,
      t < nT -> nth_error (ns_trans ns) t = Some tr -> enabled ns tr = true ->
      (forall j, j < t -> disabled ns j) -> no_parloop (cbsN ns t) = true ->
      RunFrom tasks env t (cbsN ns t) 0 (fire_ns tr ns) ns1 ->
      Steps ns1 ns2 -> Steps ns ns2.

  Lemma Steps_trans : forall a b c, Steps a b -> Steps b c -> Steps a c.
  Proof. induction 1; intros HH; [exact HH|]. econstructor; try eassumption. apply IHSteps. exact HH. Qed.

  Lemma Steps_ScanTo : forall a b c, Steps a b -> ScanTo tasks env nT b c -> ScanTo tasks env nT a c.
  Proof.
    induction 1; intros HH; [exact HH|].
    eapply ScanTo_step; try eassumption; [reflexivity|]. apply IHSteps. exact HH.
  Qed.

  Lemma Marks_places : forall ns ns' m, ns_places ns' = ns_places ns -> Marks ns m -> Marks ns' m.
  Proof. intros ns ns' m E [A B]. split; [rewrite E; exact A|]. intro q. unfold tokens. rewrite E. apply B. Qed.

  Lemma Inv_fire : forall ns tr, Inv ns -> List.length (ns_places (fire_ns tr ns)) = List.length (ns_places ns) ->
                                 Inv (fire_ns tr ns).
  Proof.
    intros ns tr [I1 I2 I3 I4 I5 I6 I7 I8 I9 I10] Hl. constructor; try assumption. congruence.
  Qed.

  Lemma GR_fire : forall g ns pend tr, GR g ns pend -> GR g (fire_ns tr ns) pend.
  Proof. intros g ns pend tr [G1 G2 G3 G4 G5 G6 G7 G8 G9]. constructor; assumption. Qed.

  (* one step: [e] is the only enabled transition; it fires and its callbacks [l] run *)
  Lemma step_only : forall ns m e tr l ns1,
      Inv ns -> Marks ns m -> e < nT -> nth_error (ns_trans N0) e = Some tr ->
      (forall q, In q (tr_pre tr) -> In q m) ->
      (forall j, j < nT -> j <> e -> dis m j) ->
      cbsN N0 e = l -> no_parloop l = true ->
      RunList l (fire_ns tr ns) ns1 -> Steps ns ns1.
  Proof.
    intros ns m e tr l ns1 Hinv Hm He Htr Hen Hdis Hl Hnp Hrun.
    assert (Hc : cbsN ns e = l) by (unfold cbsN; rewrite (iv_cbs _ Hinv); exact Hl).
    eapply steps_step with (t := e) (tr := tr); [exact He| | | | | |apply steps_refl].
    - rewrite (iv_trans _ Hinv). exact Htr.
    - apply (proj2 (enabled_iff ns m tr Hm)). exact Hen.
    - intros j Hj. eapply dis_disabled; [exact Hinv|exact Hm|]. apply Hdis; lia.
    - rewrite Hc. exact Hnp.
    - rewrite Hc. apply (RunList_RunFrom e l [] (fire_ns tr ns) ns1 Hrun). exact Hc.
  Qed.

  (* =========================================================================== *)
  (* delivering a completion                                                      *)
  (* =========================================================================== *)
  Record Frame (ns ns' : NS) (lo hi : nat) : Prop := {
    fr_apis : forall k, ~ (lo <= k < hi) -> nth_error (ns_apis ns') k = nth_error (ns_apis ns) k;
    fr_sid : ns_sid ns <= ns_sid ns';
    fr_dict : exists d, ns_place_dict ns' = d ++ ns_place_dict ns /\
                        Forall (fun kv => exists i, fst kv = ITest i /\ ns_sid ns <= i) d
  }.

  Lemma Frame_refl : forall ns lo hi, Frame ns ns lo hi.
  Proof. intros. constructor; [reflexivity|lia|exists []; split; [reflexivity|constructor]]. Qed.

  Lemma Frame_trans : forall a b c lo hi lo1 hi1 lo2 hi2,
      Frame a b lo1 hi1 -> Frame b c lo2 hi2 -> lo <= lo1 -> hi1 <= hi -> lo <= lo2 -> hi2 <= hi ->
      Frame a c lo hi.
  Proof.
    intros a b c lo hi lo1 hi1 lo2 hi2 [A1 S1 (d1 & D1 & K1)] [A2 S2 (d2 & D2 & K2)] H1 H2 H3 H4.
    constructor; [intros k Hk; rewrite A2 by lia; apply A1; lia|lia|].
    exists (d2 ++ d1). split; [rewrite D2, D1, app_assoc; reflexivity|].
    apply Forall_app. split; [|exact K1].
    eapply Forall_impl; [|exact K2]. intros kv (i & E & Hi). exists i. split; [exact E|lia].
  Qed.

  (* what holds after the net has processed (part of) a delivery *)
  Definition Post (ns ns' : NS) (g g' : G) (pend0 : list nat) (lo hi : nat) : Prop :=
    Inv ns' /\ Frame ns ns' lo hi /\
    exists new, g_awaited g' = g_awaited g ++ new /\ GR g' ns' (pend0 ++ new).

  Definition agrees_in (lo hi : nat) (m m0 : list nat) : Prop := forall q, lo <= q < hi -> cnt m q = cnt m0 q.
  Definition agrees_out (lo hi : nat) (m m' : list nat) : Prop := forall q, ~ (lo <= q < hi) -> cnt m' q = cnt m q.

  (* outside the component (and apart from the transition that follows it) every transition
     is blocked by an unmarked place that does not belong to the component *)
  Definition Hout (plo phi tlo thi t2 : nat) (m : list nat) : Prop :=
    forall j, j < nT -> ~ (tlo <= j < thi) -> j <> t2 ->
              exists q, In q (preN N0 j) /\ ~ (plo <= q < phi) /\ ~ In q m.

  Lemma Hout_out : forall plo phi tlo thi t2 m m',
      Hout plo phi tlo thi t2 m -> agrees_out plo phi m m' -> Hout plo phi tlo thi t2 m'.
  Proof.
    intros plo phi tlo thi t2 m m' H Ho j H1 H2 H3. destruct (H j H1 H2 H3) as (q & Q1 & Q2 & Q3).
    exists q. split; [exact Q1|]. split; [exact Q2|]. apply not_in_cnt. rewrite (Ho q Q2). apply not_in_cnt. exact Q3.
  Qed.

  Lemma trans_exists : forall j, j < nT -> exists tr, nth_error (ns_trans N0) j = Some tr.
  Proof.
    intros j Hj. destruct (nth_error (ns_trans N0) j) eqn:E; [eauto|]. apply nth_error_None in E. unfold nT in Hj. lia.
  Qed.

  Ltac cnt_cases :=
    rewrite ?cnt_cons, ?cnt_nil, ?cnt_app, ?cnt_outside;
    repeat match goal with
           | |- context [Nat.eqb ?a ?b] => destruct (Nat.eqb_spec a b); try lia
           | |- context [inb ?a ?b ?c] => let E := fresh "E" in destruct (inb a b c) eqn:E;
                                          [apply inb_spec in E|apply not_true_iff_false in E; rewrite inb_spec in E]; try lia
           end; try lia.

  Lemma del_svc_case : forall f n at_ ins p ctx cid xcbs t2 id' id g st' g' ns m pend pend0 finp,
      deliver orc imm (S f) cid [] (XService n at_ ins) (RAwait id') id g = Ok (Some st', g') ->
      wired N0 (XService n at_ ins) p ctx xcbs -> pp p + 3 <= nP -> pt p < nT ->
      t2 < nT -> t2 <> pt p -> In (pp p + 2) (preN N0 t2) ->
      Inv ns -> GR g ns pend -> remove_first (Nat.eqb id) pend = Some pend0 ->
      act N0 ns (RAwait id') (XService n at_ ins) p ctx -> ctx_is ns ctx cid -> ctx < pa p ->
      Marks ns m -> dict_get ident_eqb (ITest id) (ns_place_dict ns) = Some finp ->
      (forall q, pp p <= q < pp p + 3 -> cnt m q = cnt [pp p] q + (if Nat.eqb q finp then 1 else 0)) ->
      Hout (pp p) (pp p + 3) (pt p) (pt p + 1) t2 m ->
      st' = RDone /\ pp p <= finp < pp p + 3 /\
      exists tr ns' m',
        nth_error (ns_trans N0) (pt p) = Some tr /\ (forall q, In q (tr_pre tr) -> In q m) /\
        (forall j, j < nT -> j <> pt p -> dis m j) /\
        RunList [CbSF (pa p)] (fire_ns tr ns) ns' /\
        Marks ns' m' /\ agrees_in (pp p) (pp p + 3) m' [pp p + 2] /\ agrees_out (pp p) (pp p + 3) m m' /\
        Post ns ns' g g' pend0 (pa p) (pa p + 1).
  Proof.
    intros f n at_ ins p ctx cid xcbs t2 id' id g st' g' ns m pend pend0 finp
           H Hw HP HT Ht2 Hne2 Hx2 Hinv Hgr Hrem Hact Hctx Hlt Hm Hd Hin Hout.
    cbn [deliver] in H. destruct (Nat.eqb_spec id id') as [<-|Hneq]; [|discriminate H].
    unfold bind in H. unfold emit in H.
    rewrite emit_gen_eq in H by first [apply (gr_ls _ _ _ Hgr)|apply (gr_obs _ _ _ Hgr)].
    unfold ret in H. injection H as E1 E2. subst st'.
    cbn [act] in Hact. destruct Hact as (Hapi & Hdict & Hidlt).
    assert (Hfin : finp = pp p + 1) by congruence. subst finp.
    split; [reflexivity|]. split; [lia|].
    cbn [wired] in Hw. destruct Hw as (Hpre & Hpost & _).
    destruct (trans_exists (pt p) HT) as [tr Htr].
    rewrite (nth_error_preN _ _ Htr) in Hpre. rewrite (nth_error_postN _ _ Htr) in Hpost.
    set (m' := (pp p + 2) :: outside (pp p) (pp p + 3) m).
    assert (Hen : forall q, In q (tr_pre tr) -> In q m).
    { intros q Hq. rewrite Hpre in Hq. apply cnt_pos_in.
      destruct Hq as [<-|[<-|[]]]; rewrite Hin by lia; cnt_cases. }
    destruct (Marks_fire ns m tr m' Hm) as [Hm' Hlen'].
    { intros x Hx. rewrite Hpost in Hx. destruct Hx as [<-|[]]. rewrite (iv_npl _ Hinv). unfold nP in HP. lia. }
    { intro q. rewrite Hpre. destruct (Nat.eq_dec q (pp p)) as [->|N1]; [rewrite Hin by lia; cnt_cases|].
      destruct (Nat.eq_dec q (pp p + 1)) as [->|N2]; [rewrite Hin by lia; cnt_cases|]. cnt_cases. }
    { intro q. rewrite Hpre, Hpost. unfold m'.
      destruct (inb (pp p) (pp p + 3) q) eqn:E.
      - apply inb_spec in E. rewrite (Hin q E). cnt_cases.
      - apply not_true_iff_false in E. rewrite inb_spec in E. cnt_cases. }
    set (nsf := fire_ns tr ns) in *.
    pose proof (Inv_fire ns tr Hinv Hlen') as Hinvf. pose proof (GR_fire g ns pend tr Hgr) as Hgrf.
    set (a1 := with_uuid (ITest id) (svc_api n at_ ins ctx (pa p))).
    assert (Hapif : nth_error (ns_apis nsf) (pa p) = Some a1) by exact Hapi.
    exists tr, (notified SF a1 false nsf), m'.
    split; [exact Htr|]. split; [exact Hen|]. split.
    { intros j Hj Hne. destruct (Nat.eq_dec j t2) as [->|Hn2].
      - exists (pp p + 2). split; [exact Hx2|]. apply not_in_cnt. rewrite Hin by lia. cnt_cases.
      - destruct (Hout j Hj ltac:(lia) Hn2) as (q & Q1 & _ & Q3). exists q. split; assumption. }
    destruct (sim_fin SF (pa p) a1 (Some cid) false g g' nsf pend pend0 (or_introl eq_refl) Hinvf Hgrf Hapif)
      as (Hcbs & Hinv' & Hgr' & Hpl & Hap & Hdi).
    { cbn [octx_is a1 with_uuid svc_api a_ctx]. split; [exact Hctx|lia]. }
    { exists id. split; [reflexivity|exact Hrem]. }
    { rewrite <- E2. unfold g_step. cbn [a1 with_uuid svc_api a_name a_site a_uuid a_params ident_nat].
      rewrite subst_params_nil. repeat split; reflexivity. }
    split.
    { econstructor; [apply RunCb_SF; [apply (iv_ls _ Hinvf)|apply (iv_obs _ Hinvf)|exact Hapif]|exact Hcbs|constructor]. }
    split; [eapply Marks_places; [exact Hpl|exact Hm']|].
    split; [intros q Hq; unfold m'; cnt_cases|].
    split; [intros q Hq; unfold m'; cnt_cases|].
    split; [exact Hinv'|]. split.
    - constructor; [intros k _; rewrite Hap; reflexivity|rewrite nf_sid; apply Nat.le_refl|].
      exists []. split; [rewrite Hdi; reflexivity|constructor].
    - exists []. split; [rewrite <- E2, app_nil_r; reflexivity|rewrite app_nil_r; exact Hgr'].
  Qed.

  (* once a component has exited (only its exit place is marked inside it), nothing but the
     transition that follows it can be enabled *)
  Lemma exited_only_t2 : forall s p ctx xcbs t2 m m',
      frag s = true -> wired N0 s p ctx xcbs ->
      Hout (pp p) (pp p + nplaces s) (pt p) (pt p + ntrans s) t2 m ->
      agrees_out (pp p) (pp p + nplaces s) m m' ->
      agrees_in (pp p) (pp p + nplaces s) m' [xplace s p] ->
      forall j, j < nT -> j <> t2 -> dis m' j.
  Proof.
    intros s p ctx xcbs t2 m m' Hf Hw Hout Ho Hi j Hj Hne.
    destruct (Nat.lt_ge_cases j (pt p)) as [Hlo|Hlo]; [|destruct (Nat.lt_ge_cases j (pt p + ntrans s)) as [Hhi|Hhi]].
    - destruct (Hout j Hj ltac:(lia) Hne) as (q & Q1 & Q2 & Q3). exists q. split; [exact Q1|].
      apply not_in_cnt. rewrite (Ho q Q2). apply not_in_cnt. exact Q3.
    - destruct (exit_blocked N0 s p ctx xcbs Hf Hw j ltac:(unfold in_t; lia)) as (q & Q1 & Q2 & Q3).
      exists q. split; [exact Q1|]. apply not_in_cnt. rewrite (Hi q Q2). cnt_cases.
    - destruct (Hout j Hj ltac:(lia) Hne) as (q & Q1 & Q2 & Q3). exists q. split; [exact Q1|].
      apply not_in_cnt. rewrite (Ho q Q2). apply not_in_cnt. exact Q3.
  Qed.

  (* structure of a block: a transition of the block outside statement i, other than the
     connection that follows statement i, reads a place of the block outside statement i *)
  Lemma block_blocked : forall l bp ctx xcbs i s1,
      frag_block l = true -> wired_block (wired N0) N0 ctx xcbs l bp -> nth_error l i = Some s1 ->
      forall j, in_tb l bp j -> ~ in_t s1 (spos l bp i) j ->
                (nth_error l (S i) <> None -> j <> pt (spos l bp i) - 1) ->
                exists q, In q (preN N0 j) /\ in_pb l bp q /\ ~ in_p s1 (spos l bp i) q.
  Proof.
    intros l bp ctx xcbs i s1 Hfb Hw Hn j Hj Hnot Hconn.
    assert (Hdisj : forall k x q, nth_error l k = Some x -> k <> i -> in_p x (spos l bp k) q ->
                                  in_pb l bp q /\ ~ in_p s1 (spos l bp i) q).
    { intros k x q Hk Hki Hq. pose proof (spos_range l bp k x Hk) as R. unfold in_p, in_pb in *. split; [lia|].
      destruct (Nat.lt_ge_cases k i) as [Hlt|Hge].
      - pose proof (spos_mono l bp k i x s1 Hlt Hk Hn). lia.
      - pose proof (spos_mono l bp i k s1 x ltac:(lia) Hn Hk). lia. }
    destruct (block_cover l bp j Hfb Hj) as [(k & x & Hk & Hin)|(k & x & x' & Hk & Hk' & Hjc)].
    - destruct (Nat.eq_dec k i) as [->|Hki]; [rewrite Hn in Hk; inversion Hk; subst; contradiction|].
      destruct (wired_block_nth _ _ _ _ _ _ _ _ Hw Hk) as [Wx _].
      destruct (exit_blocked N0 x _ _ _ (frag_block_nth _ _ _ Hfb Hk) Wx j Hin) as (q & Q1 & Q2 & _).
      exists q. split; [exact Q1|]. eapply Hdisj; eassumption.
    - destruct (Nat.eq_dec k i) as [->|Hki].
      + exfalso. apply Hconn; [rewrite Hk'; discriminate|exact Hjc].
      + destruct (wired_block_nth _ _ _ _ _ _ _ _ Hw Hk) as [_ Wc]. destruct (Wc x' Hk') as (C1 & _). cbv zeta in C1.
        subst j. exists (xplace x (spos l bp k)). rewrite C1. split; [left; reflexivity|].
        eapply Hdisj; [exact Hk|exact Hki|]. apply (xplace_range x (frag_block_nth _ _ _ Hfb Hk)).
  Qed.

  (* the surroundings of statement i of a block, seen from that statement *)
  Lemma Hout_stmt_of_block : forall l bp ctx xcbs i s1 t2 t2i m,
      frag_block l = true -> wired_block (wired N0) N0 ctx xcbs l bp -> nth_error l i = Some s1 ->
      Hout (pp bp) (pp bp + nplaces_l l) (pt bp) (pt bp + ntrans_b l) t2 m ->
      In (xplace_b l bp) (preN N0 t2) -> ~ in_tb l bp t2 ->
      (forall q, in_pb l bp q -> ~ in_p s1 (spos l bp i) q -> cnt m q = 0) ->
      (nth_error l (S i) = None -> t2i = t2) ->
      (nth_error l (S i) <> None -> t2i = pt (spos l bp i) - 1) ->
      Hout (pp (spos l bp i)) (pp (spos l bp i) + nplaces s1) (pt (spos l bp i)) (pt (spos l bp i) + ntrans s1) t2i m.
  Proof.
    intros l bp ctx xcbs i s1 t2 t2i m Hfb Hw Hn Hout Hx2 Ht2 Hz Hlast Hnl j Hj Hnot Hne.
    pose proof (spos_range l bp i s1 Hn) as R.
    destruct (Nat.lt_ge_cases j (pt bp)) as [Hlo|Hlo]; [|destruct (Nat.lt_ge_cases j (pt bp + ntrans_b l)) as [Hhi|Hhi]].
    3: destruct (Nat.eq_dec j t2) as [->|Hn2].
    1: destruct (Nat.eq_dec j t2) as [->|Hn2].
    - (* j = t2 below the block: then statement i is not the last one *)
      destruct (nth_error l (S i)) as [s'|] eqn:En'; [|exfalso; apply Hne; symmetry; apply Hlast; reflexivity].
      destruct (xplace_b_nth l bp Hfb) as (sl & Hl & El).
      assert (Hil : i < List.length l - 1).
      { assert (S i < List.length l) by (apply nth_error_Some; congruence). lia. }
      pose proof (spos_mono l bp i _ s1 sl Hil Hn Hl) as M.
      pose proof (spos_range l bp _ sl Hl) as Rl.
      pose proof (xplace_range sl (frag_block_nth _ _ _ Hfb Hl) (spos l bp (List.length l - 1))) as X.
      exists (xplace_b l bp). split; [exact Hx2|]. rewrite El. split; [lia|].
      apply not_in_cnt. apply Hz; unfold in_pb, in_p; lia.
    - destruct (Hout j Hj ltac:(lia) Hn2) as (q & Q1 & Q2 & Q3). exists q. split; [exact Q1|]. split; [lia|exact Q3].
    - destruct (block_blocked l bp ctx xcbs i s1 Hfb Hw Hn j ltac:(unfold in_tb; lia) ltac:(unfold in_t; lia))
        as (q & Q1 & Q2 & Q3).
      { intros Hnn Hjc. apply Hne. rewrite (Hnl Hnn). exact Hjc. }
      exists q. split; [exact Q1|]. split; [exact Q3|]. apply not_in_cnt. apply Hz; assumption.
    - destruct (nth_error l (S i)) as [s'|] eqn:En'; [|exfalso; apply Hne; symmetry; apply Hlast; reflexivity].
      destruct (xplace_b_nth l bp Hfb) as (sl & Hl & El).
      assert (Hil : i < List.length l - 1).
      { assert (S i < List.length l) by (apply nth_error_Some; congruence). lia. }
      pose proof (spos_mono l bp i _ s1 sl Hil Hn Hl) as M.
      pose proof (spos_range l bp _ sl Hl) as Rl.
      pose proof (xplace_range sl (frag_block_nth _ _ _ Hfb Hl) (spos l bp (List.length l - 1))) as X.
      exists (xplace_b l bp). split; [exact Hx2|]. rewrite El. split; [lia|].
      apply not_in_cnt. apply Hz; unfold in_pb, in_p; lia.
    - destruct (Hout j Hj ltac:(lia) Hn2) as (q & Q1 & Q2 & Q3). exists q. split; [exact Q1|]. split; [lia|exact Q3].
  Qed.

  Lemma found_in : forall f cid s st id g st' g',
      deliver orc imm f cid [] s st id g = Ok (Some st', g') -> In id (svc_ids st).
  Proof.
    intros f cid s st id g st' g' H. destruct (in_dec Nat.eq_dec id (svc_ids st)) as [Hi|Hn]; [exact Hi|].
    destruct (proj1 (deliver_absent orc imm f) _ _ _ _ _ _ _ _ H Hn) as [E _]. discriminate E.
  Qed.

  Lemma spos_conn : forall l bp i s s', nth_error l i = Some s -> nth_error l (S i) = Some s' ->
      pt bp <= pt (spos l bp i) - 1 /\ 1 <= pt (spos l bp i) /\ pt (spos l bp i) - 1 < pt (spos l bp i).
  Proof.
    induction l as [|x r IH]; intros bp i s s' H H'; [destruct i; discriminate H|].
    destruct r as [|x' r]; [destruct i as [|i]; [discriminate H'|destruct i; discriminate H]|].
    destruct i as [|i].
    - cbn [spos first_pos conn_skip pt]. lia.
    - rewrite spos_cons2. cbn [nth_error] in H, H'.
      destruct (IH (adv x (conn_skip bp)) i s s' H H') as (A & B & C). cbn [adv conn_skip pt] in A. lia.
  Qed.

  Lemma Post_widen : forall ns ns' g g' pend0 lo hi LO HI,
      Post ns ns' g g' pend0 lo hi -> LO <= lo -> hi <= HI -> Post ns ns' g g' pend0 LO HI.
  Proof.
    intros ns ns' g g' pend0 lo hi LO HI (I & F & N) H1 H2. split; [exact I|]. split; [|exact N].
    destruct F as [A S D]. constructor; [intros k Hk; apply A; lia|exact S|exact D].
  Qed.

  Lemma agrees_in_widen : forall lo hi LO HI m m' ml',
      agrees_in lo hi m' ml' -> agrees_out lo hi m m' -> LO <= lo -> hi <= HI ->
      (forall q, LO <= q < HI -> ~ (lo <= q < hi) -> cnt m q = 0 /\ cnt ml' q = 0) ->
      agrees_in LO HI m' ml'.
  Proof.
    intros lo hi LO HI m m' ml' Hi Ho H1 H2 Hz q Hq.
    destruct (Nat.lt_ge_cases q lo) as [A|A]; [|destruct (Nat.lt_ge_cases q hi) as [B|B]].
    - rewrite (Ho q ltac:(lia)). destruct (Hz q Hq ltac:(lia)) as [Z1 Z2]. lia.
    - apply Hi. lia.
    - rewrite (Ho q ltac:(lia)). destruct (Hz q Hq ltac:(lia)) as [Z1 Z2]. lia.
  Qed.

  Lemma agrees_out_widen : forall lo hi LO HI m m',
      agrees_out lo hi m m' -> LO <= lo -> hi <= HI -> agrees_out LO HI m m'.
  Proof. intros lo hi LO HI m m' H H1 H2 q Hq. apply H. lia. Qed.

  (* the two ways a delivery into a component ends *)
  Definition DoneForm (ns : NS) (m : list nat) (g g' : G) (pend0 : list nat) (plo phi alo ahi : nat)
             (e : nat) (ownl : list cb) (x : nat) : Prop :=
    exists ns1 m1 tr ns' m',
      Steps ns ns1 /\ Inv ns1 /\ Marks ns1 m1 /\ agrees_out plo phi m m1 /\
      nth_error (ns_trans N0) e = Some tr /\ (forall q, In q (tr_pre tr) -> In q m1) /\
      (forall j, j < nT -> j <> e -> dis m1 j) /\
      RunList ownl (fire_ns tr ns1) ns' /\
      Marks ns' m' /\ agrees_in plo phi m' [x] /\ agrees_out plo phi m m' /\
      Post ns ns' g g' pend0 alo ahi.

  Definition StayForm (ns : NS) (m : list nat) (g g' : G) (pend0 : list nat) (plo phi alo ahi : nat)
             (ml' : list nat) (ns' : NS) : Prop :=
    exists m', Steps ns ns' /\ Marks ns' m' /\ agrees_in plo phi m' ml' /\ agrees_out plo phi m m' /\
               Post ns ns' g g' pend0 alo ahi.

  Definition DelS (f : nat) : Prop :=
    forall s p ctx cid xcbs t2 st id g st' g' ns m pend pend0 finp,
      deliver orc imm f cid [] s st id g = Ok (Some st', g') ->
      frag s = true -> wired N0 s p ctx xcbs -> no_parloop xcbs = true ->
      pp p + nplaces s <= nP -> pt p + ntrans s <= nT ->
      t2 < nT -> ~ in_t s p t2 -> In (xplace s p) (preN N0 t2) ->
      Inv ns -> GR g ns pend -> remove_first (Nat.eqb id) pend = Some pend0 ->
      act N0 ns st s p ctx -> is_done st = false -> ctx_is ns ctx cid -> ctx < pa p ->
      Marks ns m -> dict_get ident_eqb (ITest id) (ns_place_dict ns) = Some finp ->
      (forall q, in_p s p q -> cnt m q = cnt (ml st s p) q + (if Nat.eqb q finp then 1 else 0)) ->
      Hout (pp p) (pp p + nplaces s) (pt p) (pt p + ntrans s) t2 m ->
      if is_done st'
      then DoneForm ns m g g' pend0 (pp p) (pp p + nplaces s) (pa p) (pa p + napis s) (exit_t s p) (own s p) (xplace s p)
      else exists ns', StayForm ns m g g' pend0 (pp p) (pp p + nplaces s) (pa p) (pa p + napis s) (ml st' s p) ns' /\
                       act N0 ns' st' s p ctx.

  Definition DelB (f : nat) : Prop :=
    forall l bp ctx cid xcbs t2 i sti id g r g' ns m pend pend0 finp,
      deliver_block orc imm f cid [] l i sti id g = Ok (Some r, g') ->
      frag_block l = true -> wired_block (wired N0) N0 ctx xcbs l bp -> no_parloop xcbs = true ->
      pp bp + nplaces_l l <= nP -> pt bp + ntrans_b l <= nT ->
      t2 < nT -> ~ in_tb l bp t2 -> In (xplace_b l bp) (preN N0 t2) ->
      Inv ns -> GR g ns pend -> remove_first (Nat.eqb id) pend = Some pend0 ->
      act_block N0 ns l bp ctx i sti -> ctx_is ns ctx cid -> ctx < pa bp ->
      Marks ns m -> dict_get ident_eqb (ITest id) (ns_place_dict ns) = Some finp ->
      (forall q, in_pb l bp q -> cnt m q = cnt (ml_block l bp i sti) q + (if Nat.eqb q finp then 1 else 0)) ->
      Hout (pp bp) (pp bp + nplaces_l l) (pt bp) (pt bp + ntrans_b l) t2 m ->
      match r with
      | None => DoneForm ns m g g' pend0 (pp bp) (pp bp + nplaces_l l) (pa bp) (pa bp + napis_l l)
                         (exit_b l bp) (own_b l bp) (xplace_b l bp)
      | Some (j, st') =>
        exists ns', StayForm ns m g g' pend0 (pp bp) (pp bp + nplaces_l l) (pa bp) (pa bp + napis_l l)
                             (ml_block l bp j st') ns' /\
                    act_block N0 ns' l bp ctx j st'
      end.

  Lemma Frame_fire : forall a tr lo, Frame a (fire_ns tr a) lo lo.
  Proof. intros. constructor; [reflexivity|apply Nat.le_refl|exists []; split; [reflexivity|constructor]]. Qed.

  Lemma Frame_of_StartRes : forall a b g g' pend ids p da,
      GR g a pend -> StartRes a b g g' pend ids p da -> Frame a b (pa p) (pa p + da).
  Proof.
    intros a b g g' pend ids p da Hg (I & G & P & A & W & S & D). constructor; [exact A| |exact D].
    rewrite (gr_sid _ _ _ Hg), (gr_sid _ _ _ G). exact S.
  Qed.

  Lemma ctx_is_frame : forall a b ctx cid lo hi, ctx_is a ctx cid -> Frame a b lo hi -> ctx < lo -> ctx_is b ctx cid.
  Proof.
    intros a b ctx cid lo hi (ac & H1 & H2) F Hlt. exists ac. split; [|exact H2].
    rewrite (fr_apis _ _ _ _ F) by lia. exact H1.
  Qed.

  (* after statement i of a block has exited, the connection fires and statement i+1 starts *)
  Lemma block_continue : forall f l bp ctx cid xcbs i s1 s' g g1 r' g' ns m pend pend0,
      frag_block l = true -> wired_block (wired N0) N0 ctx xcbs l bp ->
      nth_error l i = Some s1 -> nth_error l (S i) = Some s' ->
      pp bp + nplaces_l l <= nP -> pt bp + ntrans_b l <= nT ->
      Inv ns -> GR g ns pend -> ctx_is ns ctx cid -> ctx < pa bp ->
      (forall k s0 a, i < k -> nth_error l k = Some s0 ->
                      pa (spos l bp k) <= a < pa (spos l bp k) + napis s0 ->
                      nth_error (ns_apis ns) a = nth_error (ns_apis N0) a) ->
      (forall q, in_pb l bp q -> ~ in_p s1 (spos l bp i) q -> cnt m q = 0) ->
      Hout (pp (spos l bp i)) (pp (spos l bp i) + nplaces s1) (pt (spos l bp i)) (pt (spos l bp i) + ntrans s1)
           (pt (spos l bp i) - 1) m ->
      DoneForm ns m g g1 pend0 (pp (spos l bp i)) (pp (spos l bp i) + nplaces s1)
               (pa (spos l bp i)) (pa (spos l bp i) + napis s1)
               (exit_t s1 (spos l bp i)) (own s1 (spos l bp i)) (xplace s1 (spos l bp i)) ->
      run_block orc imm f cid [] l (S i) g1 = Ok (r', g') ->
      exists st' ns'', r' = Some (S i, st') /\
        StayForm ns m g g' pend0 (pp bp) (pp bp + nplaces_l l) (pa bp) (pa bp + napis_l l)
                 (ml_block l bp (S i) st') ns'' /\
        act_block N0 ns'' l bp ctx (S i) st'.
  Proof.
    intros f l bp ctx cid xcbs i s1 s' g g1 r' g' ns m pend pend0
           Hfb Hw Hn Hn' HP HT Hinv Hgr Hctx Hlt Hfresh Hz Houti Hdone Hrun.
    set (pi := spos l bp i) in *. set (pj := spos l bp (S i)).
    pose proof (frag_block_nth _ _ _ Hfb Hn) as Hf1. pose proof (frag_block_nth _ _ _ Hfb Hn') as Hf'.
    destruct (wired_block_nth _ _ _ _ _ _ _ _ Hw Hn) as [W1 Wc].
    assert (Elast : Nat.eqb (S i) (List.length l) = false).
    { apply Nat.eqb_neq. assert (S i < List.length l) by (apply nth_error_Some; congruence). lia. }
    rewrite Elast in W1. destruct (Wc s' Hn') as (C1 & C2 & C3). cbv zeta in C1, C2, C3. fold pi in C1, C2, C3, W1. fold pj in C2, C3.
    destruct (wired_block_nth _ _ _ _ _ _ _ _ Hw Hn') as [W' _]. fold pj in W'.
    pose proof (spos_range l bp i s1 Hn) as Ri. pose proof (spos_range l bp (S i) s' Hn') as Rj.
    pose proof (spos_mono l bp i (S i) s1 s' ltac:(lia) Hn Hn') as Mij. fold pi in Ri, Mij. fold pj in Rj, Mij.
    destruct (spos_conn l bp i s1 s' Hn Hn') as (Cn1 & Cn2 & Cn3). fold pi in Cn1, Cn2, Cn3.
    destruct Hdone as (ns1 & m1 & tr & nsa & m' & St1 & Inv1 & Mk1 & Ao1 & Htr & Hen & Hdis & Hrl & Mka & Aia & Aoa & (Inva & Fra & new1 & Aw1 & Gra)).
    destruct (exit_facts N0 s1 Hf1 pi ctx [] W1) as [Ecb Epost]. rewrite app_nil_r in Ecb.
    assert (HeT : exit_t s1 pi < nT) by (pose proof (exit_range s1 Hf1 pi); lia).
    pose proof (step_only ns1 m1 _ tr _ nsa Inv1 Mk1 HeT Htr Hen Hdis Ecb (no_parloop_own _ _) Hrl) as St2.
    (* the connection *)
    set (c := pt pi - 1) in *.
    assert (HcT : c < nT) by (unfold c; lia).
    destruct (trans_exists c HcT) as [trc Htrc].
    rewrite (nth_error_preN _ _ Htrc) in C1. rewrite (nth_error_postN _ _ Htrc) in C2.
    assert (Hdisc : forall j, j < nT -> j <> c -> dis m' j).
    { exact (exited_only_t2 s1 pi ctx [] c m m' Hf1 W1 Houti Aoa Aia). }
    assert (Henc : forall q, In q (tr_pre trc) -> In q m').
    { intros q Hq. rewrite C1 in Hq. destruct Hq as [<-|[]]. apply cnt_pos_in.
      rewrite (Aia _ (xplace_range s1 Hf1 pi)). cnt_cases. }
    set (nsf := fire_ns trc nsa).
    (* the next statement starts *)
    destruct f as [|f0]; [discriminate Hrun|].
    assert (Hlenf : List.length (ns_places nsf) = List.length (ns_places nsa)).
    { unfold nsf. rewrite places_fire_ns.
      destruct (all_some_fold Nat.pred (tr_pre trc) (ns_places nsa) (proj1 Mka)) as [A1 L1].
      destruct (all_some_fold S (tr_post trc) _ A1) as [A2 L2]. congruence. }
    pose proof (Inv_fire nsa trc Inva Hlenf) as Invf. pose proof (GR_fire _ _ _ trc Gra) as Grf. fold nsf in Invf, Grf.
    assert (Hctxa : ctx_is nsa ctx cid) by (eapply ctx_is_frame; [exact Hctx|exact Fra|lia]).
    assert (Hfrf : fresh_in nsf pj (napis s')).
    { intros k Hk. change (ns_apis nsf) with (ns_apis nsa). rewrite (fr_apis _ _ _ _ Fra) by lia.
      apply (Hfresh (S i) s' k ltac:(lia) Hn' Hk). }
    destruct (start_block_case f0 (start_ok f0) l bp ctx cid xcbs (S i) s' g1 r' g' nsf (pend0 ++ new1)
                               Hrun Hn' Hfb Hw Invf Grf Hfrf Hctxa Hlt)
      as (st' & ns2 & -> & Hrl2 & Hres2 & Hact2 & Hnd2 & Hml2). fold pj in Hrl2, Hres2, Hact2, Hml2.
    pose proof Hres2 as (Inv2 & Gr2 & Pl2 & Ap2 & Aw2 & Sid2 & Di2).
    pose proof (ml_range N0 ns2 st' s' pj ctx Hf' Hact2) as Hmlr. rewrite Hml2 in Hmlr.
    set (m'' := entries s' pj ++ outside (pp bp) (pp bp + nplaces_l l) m').
    assert (Hcnt_in : forall q, in_pb l bp q -> cnt m' q = if Nat.eqb (xplace s1 pi) q then 1 else 0).
    { intros q Hq. destruct (Nat.lt_ge_cases q (pp pi)) as [A|A]; [|destruct (Nat.lt_ge_cases q (pp pi + nplaces s1)) as [B|B]].
      - rewrite (Aoa q ltac:(lia)), (Hz q Hq ltac:(unfold in_p; lia)).
        pose proof (xplace_range s1 Hf1 pi). cnt_cases.
      - rewrite (Aia q ltac:(lia)). cnt_cases.
      - rewrite (Aoa q ltac:(lia)), (Hz q Hq ltac:(unfold in_p; lia)).
        pose proof (xplace_range s1 Hf1 pi). cnt_cases. }
    destruct (Marks_fire nsa m' trc m'' Mka) as [Mkf _].
    { intros x Hx. rewrite C2 in Hx. destruct (Hmlr x Hx) as [Hr _]. unfold in_p in Hr.
      rewrite (iv_npl _ Inva). unfold nP in HP. lia. }
    { intro q. rewrite C1. destruct (Nat.eq_dec q (xplace s1 pi)) as [->|Hne].
      - rewrite (Aia _ (xplace_range s1 Hf1 pi)). cnt_cases.
      - cnt_cases. }
    { intro q. rewrite C1, C2. unfold m''. rewrite cnt_app, cnt_outside.
      destruct (inb (pp bp) (pp bp + nplaces_l l) q) eqn:E.
      - apply inb_spec in E. rewrite (Hcnt_in q E). cnt_cases.
      - apply not_true_iff_false in E. rewrite inb_spec in E.
        assert (cnt (entries s' pj) q = 0).
        { apply not_in_cnt. intro Hq. destruct (Hmlr q Hq) as [Hr _]. unfold in_p in Hr. lia. }
        pose proof (xplace_range s1 Hf1 pi). cnt_cases. }
    fold nsf in Mkf.
    pose proof (step_only nsa m' c trc _ ns2 Inva Mka HcT Htrc Henc Hdisc C3 (no_parloop_startcbs _ _) Hrl2) as St3.
    exists st', ns2. split; [reflexivity|]. split.
    - exists m''. split; [eapply Steps_trans; [exact St1|eapply Steps_trans; [exact St2|exact St3]]|].
      split; [eapply Marks_places; [exact Pl2|exact Mkf]|].
      split; [|split].
      + intros q Hq. unfold m'', ml_block. rewrite Hn'. fold pj. rewrite Hml2. cnt_cases.
      + intros q Hq. unfold m''. rewrite cnt_app, cnt_outside.
        assert (cnt (entries s' pj) q = 0).
        { apply not_in_cnt. intro Hq'. destruct (Hmlr q Hq') as [Hr _]. unfold in_p in Hr. lia. }
        destruct (inb (pp bp) (pp bp + nplaces_l l) q) eqn:E; [apply inb_spec in E; lia|].
        rewrite (Aoa q ltac:(lia)). lia.
      + split; [exact Inv2|]. split.
        * eapply (Frame_trans ns nsa ns2); [exact Fra| |lia|lia| |].
          -- eapply (Frame_trans nsa nsf ns2 (pa pj) (pa pj + napis s'));
               [apply (Frame_fire nsa trc (pa pj))|apply (Frame_of_StartRes _ _ _ _ _ _ _ _ Grf Hres2)|lia|lia|lia|lia].
          -- lia.
          -- lia.
        * exists (new1 ++ svc_ids st'). split; [rewrite Aw2, Aw1, app_assoc; reflexivity|].
          rewrite app_assoc. exact Gr2.
    - split; [exact Hnd2|]. split.
      + intros k s0 a Hk Hnk Ha.
        pose proof (spos_mono l bp (S i) k s' s0 Hk Hn' Hnk) as Mk'. fold pj in Mk'.
        rewrite Ap2 by lia. change (ns_apis nsf) with (ns_apis nsa). rewrite (fr_apis _ _ _ _ Fra) by lia.
        apply (Hfresh k s0 a ltac:(lia) Hnk Ha).
      + rewrite Hn'. exact Hact2.
  Qed.
End Sim.
