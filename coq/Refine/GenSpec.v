(* Refine/GenSpec.v — the generator of NetModel.v, characterised: (A) on a program whose
   unfolding lies in the fragment it performs exactly the structural walk [pg_stmt] over the
   unfolded tree; (B) that walk creates the places, transitions, arcs, callbacks, API records
   and place_dict entries that Layout.v computes, and nothing else.  Proof file. *)
From PFDL Require Import NetModel.
From PFDL.Refine Require Import Eval Layout.
From Coq Require Import Lia.
Local Open Scope net_scope.

(* ---- the walk over the unfolded tree (same primitive operations, same order) ---- *)
Definition pg_block_go (pg : nat -> xstmt -> nat -> nat -> NetModel.N (list nat)) (ctx : nat) (n last : nat)
  : nat -> list xstmt -> nat -> list nat -> NetModel.N (list nat) :=
  fix go (i : nat) (l : list xstmt) (prev : nat) (acc : list nat) : NetModel.N (list nat) :=
    match l with
    | [] => nret acc
    | s :: r =>
      cur <~ (if Nat.ltb 1 n
              then (if Nat.ltb i (n - 1) then create_transition else nret last)
              else nret last) ;;
      ex <~ pg ctx s prev cur ;;
      go (S i) r cur ex
    end.

Definition pg_calls (pg : nat -> xstmt -> nat -> nat -> NetModel.N (list nat)) (ctx t1 sync : nat)
  : list xstmt -> NetModel.N unit :=
  fix calls (l : list xstmt) : NetModel.N unit :=
    match l with
    | [] => nret tt
    | b :: r => pg ctx b t1 sync ;;~ calls r
    end.

Fixpoint pg_stmt (ctx : nat) (s : xstmt) (t1 t2 : nat) {struct s} : NetModel.N (list nat) :=
  match s with
  | XService n at_ ins => generate_service n ins at_ ctx t1 t2 false
  | XCall t at_ ins body =>
    u <~ fresh_uuid ;;
    a <~ new_api {| a_is_task := true; a_name := t; a_site := at_; a_uuid := u; a_ctx := Some ctx;
                    a_in_loop := false; a_params := ins; a_src := ins; a_has_call := true |} ;;
    add_callback t1 (CbTS a) ;;~
    ex <~ pg_block_go pg_stmt a (List.length body) t2 0 body t1 [] ;;
    nfor ex (fun e => add_callback e (CbTF a)) ;;~
    nret ex
  | XParallel bs =>
    sync <~ create_transition ;;
    pfin <~ create_place ;;
    pg_calls pg_stmt ctx t1 sync bs ;;~
    add_output pfin sync ;;~
    add_input pfin t2 ;;~
    nret [sync]
  | _ => nfail Unsupported
  end.

Definition pg_block (ctx : nat) (body : list xstmt) (first last : nat) : NetModel.N (list nat) :=
  pg_block_go pg_stmt ctx (List.length body) last 0 body first [].

(* ---- the primitive operations as state transformers ---- *)
Definition op_place (s : NS) : NS := s <| ns_places := ns_places s ++ [Some 0] |>.
Definition op_trans (s : NS) : NS :=
  s <| ns_trans := ns_trans s ++ [tr0] |> <| ns_cbs := ns_cbs s ++ [[]] |>.
Definition op_in (p t : nat) (s : NS) : NS :=
  s <| ns_trans := upd t (fun x => {| tr_pre := tr_pre x ++ [p]; tr_post := tr_post x |}) (ns_trans s) |>.
Definition op_out (p t : nat) (s : NS) : NS :=
  s <| ns_trans := upd t (fun x => {| tr_pre := tr_pre x; tr_post := tr_post x ++ [p] |}) (ns_trans s) |>.
Definition op_cb (t : nat) (c : cb) (s : NS) : NS :=
  s <| ns_cbs := upd t (fun l => l ++ [c]) (ns_cbs s) |>.
Definition op_api (a : api) (s : NS) : NS :=
  s <| ns_fresh := S (ns_fresh s) |> <| ns_apis := ns_apis s ++ [a] |>.
Definition op_dict (u : ident) (p : nat) (s : NS) : NS :=
  s <| ns_place_dict := (u, p) :: ns_place_dict s |>.

Lemma create_place_eq : forall s, create_place s = Ok (List.length (ns_places s), op_place s).
Proof. reflexivity. Qed.
Lemma create_transition_eq : forall s, create_transition s = Ok (List.length (ns_trans s), op_trans s).
Proof. reflexivity. Qed.
Lemma add_input_eq : forall p t s, add_input p t s = Ok (tt, op_in p t s).
Proof. reflexivity. Qed.
Lemma add_output_eq : forall p t s, add_output p t s = Ok (tt, op_out p t s).
Proof. reflexivity. Qed.
Lemma add_callback_eq : forall t c s, add_callback t c s = Ok (tt, op_cb t c s).
Proof. reflexivity. Qed.

(* the part of the state the generator never touches *)
Definition rest_of (s : NS) :=
  (ns_start_place s, ns_final_place s, ns_test_ids s, ns_awaited s, ns_running s, ns_counters s,
   (ns_tid s, ns_sid s, ns_ls s, ns_obs s, ns_log s, ns_q s, ns_nss s, ns_nnot s, ns_pending s)).

(* ---- nth through upd / app ---- *)
Lemma nth_upd : forall A (f : A -> A) (l : list A) i j d,
    nth j (upd i f l) d = if Nat.eqb j i && Nat.ltb i (List.length l) then f (nth j l d) else nth j l d.
Proof.
  intros A f l. induction l as [|x l IH]; intros [|i] [|j] d; cbn [upd nth List.length]; try reflexivity.
  - rewrite andb_false_r. reflexivity.
  - rewrite IH. cbn [Nat.eqb]. replace (Nat.ltb (S i) (S (List.length l))) with (Nat.ltb i (List.length l)); [reflexivity|].
    destruct (Nat.ltb_spec i (List.length l)), (Nat.ltb_spec (S i) (S (List.length l))); try reflexivity; lia.
Qed.

Lemma nth_snoc_default : forall A (l : list A) j d, nth j (l ++ [d]) d = nth j l d.
Proof.
  intros A l. induction l as [|x l IH]; intros [|j] d; cbn; auto. destruct j; reflexivity.
Qed.

(* ---- what each operation does to what one can read off a net ---- *)
Section Ops.
  Variables (p t : nat) (c : cb) (a : api) (u : ident) (s : NS).

  Lemma pre_op_place j : preN (op_place s) j = preN s j. Proof. reflexivity. Qed.
  Lemma post_op_place j : postN (op_place s) j = postN s j. Proof. reflexivity. Qed.
  Lemma cbs_op_place j : cbsN (op_place s) j = cbsN s j. Proof. reflexivity. Qed.
  Lemma pre_op_trans j : preN (op_trans s) j = preN s j.
  Proof. unfold preN, op_trans. cbn [ns_trans set]. change (ns_trans (s <| ns_trans := ns_trans s ++ [tr0] |> <| ns_cbs := ns_cbs s ++ [[]] |>)) with (ns_trans s ++ [tr0]). rewrite nth_snoc_default. reflexivity. Qed.
  Lemma post_op_trans j : postN (op_trans s) j = postN s j.
  Proof. unfold postN, op_trans. change (ns_trans (s <| ns_trans := ns_trans s ++ [tr0] |> <| ns_cbs := ns_cbs s ++ [[]] |>)) with (ns_trans s ++ [tr0]). rewrite nth_snoc_default. reflexivity. Qed.
  Lemma cbs_op_trans j : cbsN (op_trans s) j = cbsN s j.
  Proof. unfold cbsN, op_trans. change (ns_cbs (s <| ns_trans := ns_trans s ++ [tr0] |> <| ns_cbs := ns_cbs s ++ [[]] |>)) with (ns_cbs s ++ [[]]). apply nth_snoc_default. Qed.
  Lemma pre_op_in j : preN (op_in p t s) j =
                      preN s j ++ (if Nat.eqb j t && Nat.ltb t (List.length (ns_trans s)) then [p] else []).
  Proof.
    unfold preN, op_in. change (ns_trans (s <| ns_trans := ?l |>)) with l. cbn [ns_trans set].
    match goal with |- context [nth j (upd t ?f ?l) tr0] => rewrite (nth_upd _ f l t j tr0) end.
    destruct (Nat.eqb j t && Nat.ltb t (List.length (ns_trans s))); [reflexivity|rewrite app_nil_r; reflexivity].
  Qed.
  Lemma post_op_in j : postN (op_in p t s) j = postN s j.
  Proof.
    unfold postN, op_in. cbn [ns_trans set].
    match goal with |- context [nth j (upd t ?f ?l) tr0] => rewrite (nth_upd _ f l t j tr0) end.
    destruct (Nat.eqb j t && Nat.ltb t (List.length (ns_trans s))); reflexivity.
  Qed.
  Lemma cbs_op_in j : cbsN (op_in p t s) j = cbsN s j. Proof. reflexivity. Qed.
  Lemma pre_op_out j : preN (op_out p t s) j = preN s j.
  Proof.
    unfold preN, op_out. cbn [ns_trans set].
    match goal with |- context [nth j (upd t ?f ?l) tr0] => rewrite (nth_upd _ f l t j tr0) end.
    destruct (Nat.eqb j t && Nat.ltb t (List.length (ns_trans s))); reflexivity.
  Qed.
  Lemma post_op_out j : postN (op_out p t s) j =
                        postN s j ++ (if Nat.eqb j t && Nat.ltb t (List.length (ns_trans s)) then [p] else []).
  Proof.
    unfold postN, op_out. cbn [ns_trans set].
    match goal with |- context [nth j (upd t ?f ?l) tr0] => rewrite (nth_upd _ f l t j tr0) end.
    destruct (Nat.eqb j t && Nat.ltb t (List.length (ns_trans s))); [reflexivity|rewrite app_nil_r; reflexivity].
  Qed.
  Lemma cbs_op_out j : cbsN (op_out p t s) j = cbsN s j. Proof. reflexivity. Qed.
  Lemma pre_op_cb j : preN (op_cb t c s) j = preN s j. Proof. reflexivity. Qed.
  Lemma post_op_cb j : postN (op_cb t c s) j = postN s j. Proof. reflexivity. Qed.
  Lemma cbs_op_cb j : cbsN (op_cb t c s) j =
                      cbsN s j ++ (if Nat.eqb j t && Nat.ltb t (List.length (ns_cbs s)) then [c] else []).
  Proof.
    unfold cbsN, op_cb. cbn [ns_cbs set].
    match goal with |- context [nth j (upd t ?f ?l) []] => rewrite (nth_upd _ f l t j []) end.
    destruct (Nat.eqb j t && Nat.ltb t (List.length (ns_cbs s))); [reflexivity|rewrite app_nil_r; reflexivity].
  Qed.
  Lemma pre_op_api j : preN (op_api a s) j = preN s j. Proof. reflexivity. Qed.
  Lemma post_op_api j : postN (op_api a s) j = postN s j. Proof. reflexivity. Qed.
  Lemma cbs_op_api j : cbsN (op_api a s) j = cbsN s j. Proof. reflexivity. Qed.
  Lemma pre_op_dict j : preN (op_dict u p s) j = preN s j. Proof. reflexivity. Qed.
  Lemma post_op_dict j : postN (op_dict u p s) j = postN s j. Proof. reflexivity. Qed.
  Lemma cbs_op_dict j : cbsN (op_dict u p s) j = cbsN s j. Proof. reflexivity. Qed.

  Lemma ntr_op_place : List.length (ns_trans (op_place s)) = List.length (ns_trans s). Proof. reflexivity. Qed.
  Lemma ntr_op_trans : List.length (ns_trans (op_trans s)) = S (List.length (ns_trans s)).
  Proof. unfold op_trans. change (ns_trans (s <| ns_trans := ns_trans s ++ [tr0] |> <| ns_cbs := ns_cbs s ++ [[]] |>)) with (ns_trans s ++ [tr0]). rewrite app_length. cbn. lia. Qed.
  Lemma ntr_op_in : List.length (ns_trans (op_in p t s)) = List.length (ns_trans s).
  Proof. unfold op_in. cbn [ns_trans set]. apply upd_length. Qed.
  Lemma ntr_op_out : List.length (ns_trans (op_out p t s)) = List.length (ns_trans s).
  Proof. unfold op_out. cbn [ns_trans set]. apply upd_length. Qed.
  Lemma ntr_op_cb : List.length (ns_trans (op_cb t c s)) = List.length (ns_trans s). Proof. reflexivity. Qed.
  Lemma ntr_op_api : List.length (ns_trans (op_api a s)) = List.length (ns_trans s). Proof. reflexivity. Qed.
  Lemma ntr_op_dict : List.length (ns_trans (op_dict u p s)) = List.length (ns_trans s). Proof. reflexivity. Qed.

  Lemma ncb_op_place : List.length (ns_cbs (op_place s)) = List.length (ns_cbs s). Proof. reflexivity. Qed.
  Lemma ncb_op_trans : List.length (ns_cbs (op_trans s)) = S (List.length (ns_cbs s)).
  Proof. unfold op_trans. cbn [ns_cbs set]. rewrite app_length. cbn. lia. Qed.
  Lemma ncb_op_in : List.length (ns_cbs (op_in p t s)) = List.length (ns_cbs s). Proof. reflexivity. Qed.
  Lemma ncb_op_out : List.length (ns_cbs (op_out p t s)) = List.length (ns_cbs s). Proof. reflexivity. Qed.
  Lemma ncb_op_cb : List.length (ns_cbs (op_cb t c s)) = List.length (ns_cbs s).
  Proof. unfold op_cb. cbn [ns_cbs set]. apply upd_length. Qed.
  Lemma ncb_op_api : List.length (ns_cbs (op_api a s)) = List.length (ns_cbs s). Proof. reflexivity. Qed.
  Lemma ncb_op_dict : List.length (ns_cbs (op_dict u p s)) = List.length (ns_cbs s). Proof. reflexivity. Qed.
End Ops.

Section Ops2.
  Variables (p t : nat) (c : cb) (a : api) (u : ident) (s : NS).
  Lemma pl_op_place : ns_places (op_place s) = ns_places s ++ [Some 0]. Proof. reflexivity. Qed.
  Lemma ap_op_place : ns_apis (op_place s) = ns_apis s. Proof. reflexivity. Qed.
  Lemma di_op_place : ns_place_dict (op_place s) = ns_place_dict s. Proof. reflexivity. Qed.
  Lemma fr_op_place : ns_fresh (op_place s) = ns_fresh s. Proof. reflexivity. Qed.
  Lemma re_op_place : rest_of (op_place s) = rest_of s. Proof. reflexivity. Qed.
  Lemma pl_op_trans : ns_places (op_trans s) = ns_places s. Proof. reflexivity. Qed.
  Lemma ap_op_trans : ns_apis (op_trans s) = ns_apis s. Proof. reflexivity. Qed.
  Lemma di_op_trans : ns_place_dict (op_trans s) = ns_place_dict s. Proof. reflexivity. Qed.
  Lemma fr_op_trans : ns_fresh (op_trans s) = ns_fresh s. Proof. reflexivity. Qed.
  Lemma re_op_trans : rest_of (op_trans s) = rest_of s. Proof. reflexivity. Qed.
  Lemma pl_op_in : ns_places (op_in p t s) = ns_places s. Proof. reflexivity. Qed.
  Lemma ap_op_in : ns_apis (op_in p t s) = ns_apis s. Proof. reflexivity. Qed.
  Lemma di_op_in : ns_place_dict (op_in p t s) = ns_place_dict s. Proof. reflexivity. Qed.
  Lemma fr_op_in : ns_fresh (op_in p t s) = ns_fresh s. Proof. reflexivity. Qed.
  Lemma re_op_in : rest_of (op_in p t s) = rest_of s. Proof. reflexivity. Qed.
  Lemma pl_op_out : ns_places (op_out p t s) = ns_places s. Proof. reflexivity. Qed.
  Lemma ap_op_out : ns_apis (op_out p t s) = ns_apis s. Proof. reflexivity. Qed.
  Lemma di_op_out : ns_place_dict (op_out p t s) = ns_place_dict s. Proof. reflexivity. Qed.
  Lemma fr_op_out : ns_fresh (op_out p t s) = ns_fresh s. Proof. reflexivity. Qed.
  Lemma re_op_out : rest_of (op_out p t s) = rest_of s. Proof. reflexivity. Qed.
  Lemma pl_op_cb : ns_places (op_cb t c s) = ns_places s. Proof. reflexivity. Qed.
  Lemma ap_op_cb : ns_apis (op_cb t c s) = ns_apis s. Proof. reflexivity. Qed.
  Lemma di_op_cb : ns_place_dict (op_cb t c s) = ns_place_dict s. Proof. reflexivity. Qed.
  Lemma fr_op_cb : ns_fresh (op_cb t c s) = ns_fresh s. Proof. reflexivity. Qed.
  Lemma re_op_cb : rest_of (op_cb t c s) = rest_of s. Proof. reflexivity. Qed.
  Lemma pl_op_api : ns_places (op_api a s) = ns_places s. Proof. reflexivity. Qed.
  Lemma ap_op_api : ns_apis (op_api a s) = ns_apis s ++ [a]. Proof. reflexivity. Qed.
  Lemma di_op_api : ns_place_dict (op_api a s) = ns_place_dict s. Proof. reflexivity. Qed.
  Lemma fr_op_api : ns_fresh (op_api a s) = S (ns_fresh s). Proof. reflexivity. Qed.
  Lemma re_op_api : rest_of (op_api a s) = rest_of s. Proof. reflexivity. Qed.
  Lemma pl_op_dict : ns_places (op_dict u p s) = ns_places s. Proof. reflexivity. Qed.
  Lemma ap_op_dict : ns_apis (op_dict u p s) = ns_apis s. Proof. reflexivity. Qed.
  Lemma di_op_dict : ns_place_dict (op_dict u p s) = (u, p) :: ns_place_dict s. Proof. reflexivity. Qed.
  Lemma fr_op_dict : ns_fresh (op_dict u p s) = ns_fresh s. Proof. reflexivity. Qed.
  Lemma re_op_dict : rest_of (op_dict u p s) = rest_of s. Proof. reflexivity. Qed.
End Ops2.

#[export] Hint Rewrite pre_op_place post_op_place cbs_op_place ntr_op_place ncb_op_place pl_op_place ap_op_place di_op_place fr_op_place re_op_place pre_op_trans post_op_trans cbs_op_trans ntr_op_trans ncb_op_trans pl_op_trans ap_op_trans di_op_trans fr_op_trans re_op_trans pre_op_in post_op_in cbs_op_in ntr_op_in ncb_op_in pl_op_in ap_op_in di_op_in fr_op_in re_op_in pre_op_out post_op_out cbs_op_out ntr_op_out ncb_op_out pl_op_out ap_op_out di_op_out fr_op_out re_op_out pre_op_cb post_op_cb cbs_op_cb ntr_op_cb ncb_op_cb pl_op_cb ap_op_cb di_op_cb fr_op_cb re_op_cb pre_op_api post_op_api cbs_op_api ntr_op_api ncb_op_api pl_op_api ap_op_api di_op_api fr_op_api re_op_api pre_op_dict post_op_dict cbs_op_dict ntr_op_dict ncb_op_dict pl_op_dict ap_op_dict di_op_dict fr_op_dict re_op_dict : netops.

(* ---- generate_service as a composition of the operations ---- *)
Definition svc_ops (n : name) (ins : list param) (at_ : site) (ctx t1 t2 : nat) (s : NS) : NS :=
  let a := List.length (ns_apis s) in
  let s1 := op_api (svc_api n at_ ins ctx (ns_fresh s)) s in
  let started := List.length (ns_places s1) in
  let s2 := op_place s1 in
  let finished := List.length (ns_places s2) in
  let s3 := op_place s2 in
  let s4 := op_dict (IUuid (ns_fresh s)) finished s3 in
  let done := List.length (ns_places s4) in
  let s5 := op_place s4 in
  let dt := List.length (ns_trans s5) in
  let s6 := op_trans s5 in
  op_in done t2 (op_out started t1 (op_out done dt (op_in finished dt (op_in started dt
    (op_cb dt (CbSF a) (op_cb t1 (CbSS a) s6)))))).

Lemma generate_service_eq : forall n ins at_ ctx t1 t2 s,
    generate_service n ins at_ ctx t1 t2 false s
    = Ok ([List.length (ns_trans s)], svc_ops n ins at_ ctx t1 t2 s).
Proof. reflexivity. Qed.

Lemma pg_call_eq : forall ctx t at_ ins body t1 t2 s,
    pg_stmt ctx (XCall t at_ ins body) t1 t2 s =
    match pg_block (List.length (ns_apis s)) body t1 t2
                   (op_cb t1 (CbTS (List.length (ns_apis s))) (op_api (call_api t at_ ins ctx (ns_fresh s)) s)) with
    | Ok (ex, s2) =>
      match nfor ex (fun e => add_callback e (CbTF (List.length (ns_apis s)))) s2 with
      | Ok (_, s3) => Ok (ex, s3)
      | Fuel => Fuel | Exn k => Exn k | Unsupported => Unsupported
      end
    | Fuel => Fuel | Exn k => Exn k | Unsupported => Unsupported
    end.
Proof.
  intros. cbn [pg_stmt]. unfold nbind at 1. unfold fresh_uuid at 1. unfold nbind at 1. unfold new_api at 1.
  unfold nbind at 1. unfold add_callback at 1, nmod at 1. unfold nbind at 1. unfold pg_block.
  match goal with |- match ?X with _ => _ end = match ?Y with _ => _ end => change X with Y; destruct Y as [[ex s2]| | |] end;
    try reflexivity.
  unfold nbind, nret. destruct (nfor ex _ s2) as [[[] s3]| | |]; reflexivity.
Qed.

Lemma pg_par_eq : forall ctx bs t1 t2 s,
    pg_stmt ctx (XParallel bs) t1 t2 s =
    match pg_calls pg_stmt ctx t1 (List.length (ns_trans s)) bs (op_place (op_trans s)) with
    | Ok (_, s2) => Ok ([List.length (ns_trans s)],
                        op_in (List.length (ns_places s)) t2 (op_out (List.length (ns_places s)) (List.length (ns_trans s)) s2))
    | Fuel => Fuel | Exn k => Exn k | Unsupported => Unsupported
    end.
Proof.
  intros. cbn [pg_stmt]. unfold nbind at 1. rewrite create_transition_eq. unfold nbind at 1.
  unfold create_place at 1. unfold nbind at 1.
  match goal with |- match ?X with _ => _ end = match ?Y with _ => _ end => change X with Y; destruct Y as [[[] s2]| | |] end;
    reflexivity.
Qed.
