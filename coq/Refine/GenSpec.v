(* Refine/GenSpec.v — the generator of NetModel.v, characterised: (A) on a program whose
   unfolding lies in the fragment it performs exactly the structural walk [pg_stmt] over the
   unfolded tree; (B) that walk creates the places, transitions, arcs, callbacks, API records
   and place_dict entries that Layout.v computes, and nothing else.  Proof file. *)
From PFDL Require Import NetModel.
From PFDL.Refine Require Import Eval Layout.
From Coq Require Import Lia.
Local Open Scope net_scope.

(* ---- the walk over the unfolded tree (same primitive operations, same order) ---- *)
Definition pg_block_go (pg : nat -> xstmt -> nat -> nat -> NetModel.N (list nat)) (ctx : nat) (n last : nat)
  : nat -> list xstmt -> nat -> list nat -> NetModel.N (list nat) :=
  fix go (i : nat) (l : list xstmt) (prev : nat) (acc : list nat) : NetModel.N (list nat) :=
    match l with
    | [] => nret acc
    | s :: r =>
      cur <~ (if Nat.ltb 1 n
              then (if Nat.ltb i (n - 1) then create_transition else nret last)
              else nret last) ;;
      ex <~ pg ctx s prev cur ;;
      go (S i) r cur ex
    end.

Definition pg_calls (pg : nat -> xstmt -> nat -> nat -> NetModel.N (list nat)) (ctx t1 sync : nat)
  : list xstmt -> NetModel.N unit :=
  fix calls (l : list xstmt) : NetModel.N unit :=
    match l with
    | [] => nret tt
    | b :: r => pg ctx b t1 sync ;;~ calls r
    end.

Fixpoint pg_stmt (ctx : nat) (s : xstmt) (t1 t2 : nat) {struct s} : NetModel.N (list nat) :=
  match s with
  | XService n at_ ins => generate_service n ins at_ ctx t1 t2 false
  | XCall t at_ ins body =>
    u <~ fresh_uuid ;;
    a <~ new_api {| a_is_task := true; a_name := t; a_site := at_; a_uuid := u; a_ctx := Some ctx;
                    a_in_loop := false; a_params := ins; a_src := ins; a_has_call := true |} ;;
    add_callback t1 (CbTS a) ;;~
    ex <~ pg_block_go pg_stmt a (List.length body) t2 0 body t1 [] ;;
    nfor ex (fun e => add_callback e (CbTF a)) ;;~
    nret ex
  | XParallel bs =>
    sync <~ create_transition ;;
    pfin <~ create_place ;;
    pg_calls pg_stmt ctx t1 sync bs ;;~
    add_output pfin sync ;;~
    add_input pfin t2 ;;~
    nret [sync]
  | _ => nfail Unsupported
  end.

Definition pg_block (ctx : nat) (body : list xstmt) (first last : nat) : NetModel.N (list nat) :=
  pg_block_go pg_stmt ctx (List.length body) last 0 body first [].

(* ---- the primitive operations as state transformers ---- *)
Definition op_place (s : NS) : NS := s <| ns_places := ns_places s ++ [Some 0] |>.
Definition op_trans (s : NS) : NS :=
  s <| ns_trans := ns_trans s ++ [tr0] |> <| ns_cbs := ns_cbs s ++ [[]] |>.
Definition op_in (p t : nat) (s : NS) : NS :=
  s <| ns_trans := upd t (fun x => {| tr_pre := tr_pre x ++ [p]; tr_post := tr_post x |}) (ns_trans s) |>.
Definition op_out (p t : nat) (s : NS) : NS :=
  s <| ns_trans := upd t (fun x => {| tr_pre := tr_pre x; tr_post := tr_post x ++ [p] |}) (ns_trans s) |>.
Definition op_cb (t : nat) (c : cb) (s : NS) : NS :=
  s <| ns_cbs := upd t (fun l => l ++ [c]) (ns_cbs s) |>.
Definition op_api (a : api) (s : NS) : NS :=
  s <| ns_fresh := S (ns_fresh s) |> <| ns_apis := ns_apis s ++ [a] |>.
Definition op_dict (u : ident) (p : nat) (s : NS) : NS :=
  s <| ns_place_dict := (u, p) :: ns_place_dict s |>.

Lemma create_place_eq : forall s, create_place s = Ok (List.length (ns_places s), op_place s).
Proof. reflexivity. Qed.
Lemma create_transition_eq : forall s, create_transition s = Ok (List.length (ns_trans s), op_trans s).
Proof. reflexivity. Qed.
Lemma add_input_eq : forall p t s, add_input p t s = Ok (tt, op_in p t s).
Proof. reflexivity. Qed.
Lemma add_output_eq : forall p t s, add_output p t s = Ok (tt, op_out p t s).
Proof. reflexivity. Qed.
Lemma add_callback_eq : forall t c s, add_callback t c s = Ok (tt, op_cb t c s).
Proof. reflexivity. Qed.

(* the part of the state the generator never touches *)
Definition rest_of (s : NS) :=
  (ns_start_place s, ns_final_place s, ns_test_ids s, ns_awaited s, ns_running s, ns_counters s,
   (ns_tid s, ns_sid s, ns_ls s, ns_obs s, ns_log s, ns_q s, ns_nss s, ns_nnot s, ns_pending s)).

(* ---- nth through upd / app ---- *)
Lemma nth_upd : forall A (f : A -> A) (l : list A) i j d,
    nth j (upd i f l) d = if Nat.eqb j i && Nat.ltb i (List.length l) then f (nth j l d) else nth j l d.
Proof.
  intros A f l. induction l as [|x l IH]; intros [|i] [|j] d; cbn [upd nth List.length]; try reflexivity.
  - rewrite andb_false_r. reflexivity.
  - rewrite IH. cbn [Nat.eqb]. replace (Nat.ltb (S i) (S (List.length l))) with (Nat.ltb i (List.length l)); [reflexivity|].
    destruct (Nat.ltb_spec i (List.length l)), (Nat.ltb_spec (S i) (S (List.length l))); try reflexivity; lia.
Qed.

Lemma nth_snoc_default : forall A (l : list A) j d, nth j (l ++ [d]) d = nth j l d.
Proof.
  intros A l. induction l as [|x l IH]; intros [|j] d; cbn; auto. destruct j; reflexivity.
Qed.

(* ---- what each operation does to what one can read off a net ---- *)
Section Ops.
  Variables (p t : nat) (c : cb) (a : api) (u : ident) (s : NS).

  Lemma pre_op_place j : preN (op_place s) j = preN s j. Proof. reflexivity. Qed.
  Lemma post_op_place j : postN (op_place s) j = postN s j. Proof. reflexivity. Qed.
  Lemma cbs_op_place j : cbsN (op_place s) j = cbsN s j. Proof. reflexivity. Qed.
  Lemma pre_op_trans j : preN (op_trans s) j = preN s j.
  Proof. unfold preN, op_trans. cbn [ns_trans set]. change (ns_trans (s <| ns_trans := ns_trans s ++ [tr0] |> <| ns_cbs := ns_cbs s ++ [[]] |>)) with (ns_trans s ++ [tr0]). rewrite nth_snoc_default. reflexivity. Qed.
  Lemma post_op_trans j : postN (op_trans s) j = postN s j.
  Proof. unfold postN, op_trans. change (ns_trans (s <| ns_trans := ns_trans s ++ [tr0] |> <| ns_cbs := ns_cbs s ++ [[]] |>)) with (ns_trans s ++ [tr0]). rewrite nth_snoc_default. reflexivity. Qed.
  Lemma cbs_op_trans j : cbsN (op_trans s) j = cbsN s j.
  Proof. unfold cbsN, op_trans. change (ns_cbs (s <| ns_trans := ns_trans s ++ [tr0] |> <| ns_cbs := ns_cbs s ++ [[]] |>)) with (ns_cbs s ++ [[]]). apply nth_snoc_default. Qed.
  Lemma pre_op_in j : preN (op_in p t s) j =
                      preN s j ++ (if Nat.eqb j t && Nat.ltb t (List.length (ns_trans s)) then [p] else []).
  Proof.
    unfold preN, op_in. change (ns_trans (s <| ns_trans := ?l |>)) with l. cbn [ns_trans set].
    match goal with |- context [nth j (upd t ?f ?l) tr0] => rewrite (nth_upd _ f l t j tr0) end.
    destruct (Nat.eqb j t && Nat.ltb t (List.length (ns_trans s))); [reflexivity|rewrite app_nil_r; reflexivity].
  Qed.
  Lemma post_op_in j : postN (op_in p t s) j = postN s j.
  Proof.
    unfold postN, op_in. cbn [ns_trans set].
    match goal with |- context [nth j (upd t ?f ?l) tr0] => rewrite (nth_upd _ f l t j tr0) end.
    destruct (Nat.eqb j t && Nat.ltb t (List.length (ns_trans s))); reflexivity.
  Qed.
  Lemma cbs_op_in j : cbsN (op_in p t s) j = cbsN s j. Proof. reflexivity. Qed.
  Lemma pre_op_out j : preN (op_out p t s) j = preN s j.
  Proof.
    unfold preN, op_out. cbn [ns_trans set].
    match goal with |- context [nth j (upd t ?f ?l) tr0] => rewrite (nth_upd _ f l t j tr0) end.
    destruct (Nat.eqb j t && Nat.ltb t (List.length (ns_trans s))); reflexivity.
  Qed.
  Lemma post_op_out j : postN (op_out p t s) j =
                        postN s j ++ (if Nat.eqb j t && Nat.ltb t (List.length (ns_trans s)) then [p] else []).
  Proof.
    unfold postN, op_out. cbn [ns_trans set].
    match goal with |- context [nth j (upd t ?f ?l) tr0] => rewrite (nth_upd _ f l t j tr0) end.
    destruct (Nat.eqb j t && Nat.ltb t (List.length (ns_trans s))); [reflexivity|rewrite app_nil_r; reflexivity].
  Qed.
  Lemma cbs_op_out j : cbsN (op_out p t s) j = cbsN s j. Proof. reflexivity. Qed.
  Lemma pre_op_cb j : preN (op_cb t c s) j = preN s j. Proof. reflexivity. Qed.
  Lemma post_op_cb j : postN (op_cb t c s) j = postN s j. Proof. reflexivity. Qed.
  Lemma cbs_op_cb j : cbsN (op_cb t c s) j =
                      cbsN s j ++ (if Nat.eqb j t && Nat.ltb t (List.length (ns_cbs s)) then [c] else []).
  Proof.
    unfold cbsN, op_cb. cbn [ns_cbs set].
    match goal with |- context [nth j (upd t ?f ?l) []] => rewrite (nth_upd _ f l t j []) end.
    destruct (Nat.eqb j t && Nat.ltb t (List.length (ns_cbs s))); [reflexivity|rewrite app_nil_r; reflexivity].
  Qed.
  Lemma pre_op_api j : preN (op_api a s) j = preN s j. Proof. reflexivity. Qed.
  Lemma post_op_api j : postN (op_api a s) j = postN s j. Proof. reflexivity. Qed.
  Lemma cbs_op_api j : cbsN (op_api a s) j = cbsN s j. Proof. reflexivity. Qed.
  Lemma pre_op_dict j : preN (op_dict u p s) j = preN s j. Proof. reflexivity. Qed.
  Lemma post_op_dict j : postN (op_dict u p s) j = postN s j. Proof. reflexivity. Qed.
  Lemma cbs_op_dict j : cbsN (op_dict u p s) j = cbsN s j. Proof. reflexivity. Qed.

  Lemma ntr_op_place : List.length (ns_trans (op_place s)) = List.length (ns_trans s). Proof. reflexivity. Qed.
  Lemma ntr_op_trans : List.length (ns_trans (op_trans s)) = S (List.length (ns_trans s)).
  Proof. unfold op_trans. change (ns_trans (s <| ns_trans := ns_trans s ++ [tr0] |> <| ns_cbs := ns_cbs s ++ [[]] |>)) with (ns_trans s ++ [tr0]). rewrite app_length. cbn. lia. Qed.
  Lemma ntr_op_in : List.length (ns_trans (op_in p t s)) = List.length (ns_trans s).
  Proof. unfold op_in. cbn [ns_trans set]. apply upd_length. Qed.
  Lemma ntr_op_out : List.length (ns_trans (op_out p t s)) = List.length (ns_trans s).
  Proof. unfold op_out. cbn [ns_trans set]. apply upd_length. Qed.
  Lemma ntr_op_cb : List.length (ns_trans (op_cb t c s)) = List.length (ns_trans s). Proof. reflexivity. Qed.
  Lemma ntr_op_api : List.length (ns_trans (op_api a s)) = List.length (ns_trans s). Proof. reflexivity. Qed.
  Lemma ntr_op_dict : List.length (ns_trans (op_dict u p s)) = List.length (ns_trans s). Proof. reflexivity. Qed.

  Lemma ncb_op_place : List.length (ns_cbs (op_place s)) = List.length (ns_cbs s). Proof. reflexivity. Qed.
  Lemma ncb_op_trans : List.length (ns_cbs (op_trans s)) = S (List.length (ns_cbs s)).
  Proof. unfold op_trans. cbn [ns_cbs set]. rewrite app_length. cbn. lia. Qed.
  Lemma ncb_op_in : List.length (ns_cbs (op_in p t s)) = List.length (ns_cbs s). Proof. reflexivity. Qed.
  Lemma ncb_op_out : List.length (ns_cbs (op_out p t s)) = List.length (ns_cbs s). Proof. reflexivity. Qed.
  Lemma ncb_op_cb : List.length (ns_cbs (op_cb t c s)) = List.length (ns_cbs s).
  Proof. unfold op_cb. cbn [ns_cbs set]. apply upd_length. Qed.
  Lemma ncb_op_api : List.length (ns_cbs (op_api a s)) = List.length (ns_cbs s). Proof. reflexivity. Qed.
  Lemma ncb_op_dict : List.length (ns_cbs (op_dict u p s)) = List.length (ns_cbs s). Proof. reflexivity. Qed.
End Ops.

Section Ops2.
  Variables (p t : nat) (c : cb) (a : api) (u : ident) (s : NS).
  Lemma pl_op_place : ns_places (op_place s) = ns_places s ++ [Some 0]. Proof. reflexivity. Qed.
  Lemma ap_op_place : ns_apis (op_place s) = ns_apis s. Proof. reflexivity. Qed.
  Lemma di_op_place : ns_place_dict (op_place s) = ns_place_dict s. Proof. reflexivity. Qed.
  Lemma fr_op_place : ns_fresh (op_place s) = ns_fresh s. Proof. reflexivity. Qed.
  Lemma re_op_place : rest_of (op_place s) = rest_of s. Proof. reflexivity. Qed.
  Lemma pl_op_trans : ns_places (op_trans s) = ns_places s. Proof. reflexivity. Qed.
  Lemma ap_op_trans : ns_apis (op_trans s) = ns_apis s. Proof. reflexivity. Qed.
  Lemma di_op_trans : ns_place_dict (op_trans s) = ns_place_dict s. Proof. reflexivity. Qed.
  Lemma fr_op_trans : ns_fresh (op_trans s) = ns_fresh s. Proof. reflexivity. Qed.
  Lemma re_op_trans : rest_of (op_trans s) = rest_of s. Proof. reflexivity. Qed.
  Lemma pl_op_in : ns_places (op_in p t s) = ns_places s. Proof. reflexivity. Qed.
  Lemma ap_op_in : ns_apis (op_in p t s) = ns_apis s. Proof. reflexivity. Qed.
  Lemma di_op_in : ns_place_dict (op_in p t s) = ns_place_dict s. Proof. reflexivity. Qed.
  Lemma fr_op_in : ns_fresh (op_in p t s) = ns_fresh s. Proof. reflexivity. Qed.
  Lemma re_op_in : rest_of (op_in p t s) = rest_of s. Proof. reflexivity. Qed.
  Lemma pl_op_out : ns_places (op_out p t s) = ns_places s. Proof. reflexivity. Qed.
  Lemma ap_op_out : ns_apis (op_out p t s) = ns_apis s. Proof. reflexivity. Qed.
  Lemma di_op_out : ns_place_dict (op_out p t s) = ns_place_dict s. Proof. reflexivity. Qed.
  Lemma fr_op_out : ns_fresh (op_out p t s) = ns_fresh s. Proof. reflexivity. Qed.
  Lemma re_op_out : rest_of (op_out p t s) = rest_of s. Proof. reflexivity. Qed.
  Lemma pl_op_cb : ns_places (op_cb t c s) = ns_places s. Proof. reflexivity. Qed.
  Lemma ap_op_cb : ns_apis (op_cb t c s) = ns_apis s. Proof. reflexivity. Qed.
  Lemma di_op_cb : ns_place_dict (op_cb t c s) = ns_place_dict s. Proof. reflexivity. Qed.
  Lemma fr_op_cb : ns_fresh (op_cb t c s) = ns_fresh s. Proof. reflexivity. Qed.
  Lemma re_op_cb : rest_of (op_cb t c s) = rest_of s. Proof. reflexivity. Qed.
  Lemma pl_op_api : ns_places (op_api a s) = ns_places s. Proof. reflexivity. Qed.
  Lemma ap_op_api : ns_apis (op_api a s) = ns_apis s ++ [a]. Proof. reflexivity. Qed.
  Lemma di_op_api : ns_place_dict (op_api a s) = ns_place_dict s. Proof. reflexivity. Qed.
  Lemma fr_op_api : ns_fresh (op_api a s) = S (ns_fresh s). Proof. reflexivity. Qed.
  Lemma re_op_api : rest_of (op_api a s) = rest_of s. Proof. reflexivity. Qed.
  Lemma pl_op_dict : ns_places (op_dict u p s) = ns_places s. Proof. reflexivity. Qed.
  Lemma ap_op_dict : ns_apis (op_dict u p s) = ns_apis s. Proof. reflexivity. Qed.
  Lemma di_op_dict : ns_place_dict (op_dict u p s) = (u, p) :: ns_place_dict s. Proof. reflexivity. Qed.
  Lemma fr_op_dict : ns_fresh (op_dict u p s) = ns_fresh s. Proof. reflexivity. Qed.
  Lemma re_op_dict : rest_of (op_dict u p s) = rest_of s. Proof. reflexivity. Qed.
End Ops2.

#[export] Hint Rewrite pre_op_place post_op_place cbs_op_place ntr_op_place ncb_op_place pl_op_place ap_op_place di_op_place fr_op_place re_op_place pre_op_trans post_op_trans cbs_op_trans ntr_op_trans ncb_op_trans pl_op_trans ap_op_trans di_op_trans fr_op_trans re_op_trans pre_op_in post_op_in cbs_op_in ntr_op_in ncb_op_in pl_op_in ap_op_in di_op_in fr_op_in re_op_in pre_op_out post_op_out cbs_op_out ntr_op_out ncb_op_out pl_op_out ap_op_out di_op_out fr_op_out re_op_out pre_op_cb post_op_cb cbs_op_cb ntr_op_cb ncb_op_cb pl_op_cb ap_op_cb di_op_cb fr_op_cb re_op_cb pre_op_api post_op_api cbs_op_api ntr_op_api ncb_op_api pl_op_api ap_op_api di_op_api fr_op_api re_op_api pre_op_dict post_op_dict cbs_op_dict ntr_op_dict ncb_op_dict pl_op_dict ap_op_dict di_op_dict fr_op_dict re_op_dict : netops.


(* ---- stepping through monadic generator code ---- *)
Lemma nbind_ok : forall A B (m : NetModel.N A) (k : A -> NetModel.N B) s a s',
    m s = Ok (a, s') -> nbind m k s = k a s'.
Proof. intros A B m k s a s' H. unfold nbind. rewrite H. reflexivity. Qed.

Definition op_fresh (s : NS) : NS := s <| ns_fresh := S (ns_fresh s) |>.
Lemma nbind_fresh : forall B (k : ident -> NetModel.N B) s,
    nbind fresh_uuid k s = k (IUuid (ns_fresh s)) (op_fresh s).
Proof. reflexivity. Qed.
Lemma nbind_new_api : forall B a (k : nat -> NetModel.N B) s,
    nbind (new_api a) k (op_fresh s) = k (List.length (ns_apis s)) (op_api a s).
Proof. reflexivity. Qed.

Lemma dict_mod_eq : forall u p s,
    nmod (fun s => s <| ns_place_dict := (u, p) :: ns_place_dict s |>) s = Ok (tt, op_dict u p s).
Proof. reflexivity. Qed.

Global Opaque op_place op_trans op_in op_out op_cb op_api op_dict op_fresh.

Ltac gstep :=
  first [ rewrite (nbind_ok _ _ _ _ _ _ _ (create_place_eq _))
        | rewrite (nbind_ok _ _ _ _ _ _ _ (create_transition_eq _))
        | rewrite (nbind_ok _ _ _ _ _ _ _ (add_input_eq _ _ _))
        | rewrite (nbind_ok _ _ _ _ _ _ _ (add_output_eq _ _ _))
        | rewrite (nbind_ok _ _ _ _ _ _ _ (add_callback_eq _ _ _))
        | rewrite (nbind_ok _ _ _ _ _ _ _ (dict_mod_eq _ _ _)) ].

Definition pos_of (s : NS) : pos :=
  mkpos (List.length (ns_places s)) (List.length (ns_trans s)) (List.length (ns_apis s)).

Lemma generate_service_eq : forall n ins at_ ctx t1 t2 s,
    let p := pos_of s in
    generate_service n ins at_ ctx t1 t2 false s
    = Ok ([pt p],
          op_in (pp p + 2) t2 (op_out (pp p) t1 (op_out (pp p + 2) (pt p) (op_in (pp p + 1) (pt p) (op_in (pp p) (pt p)
            (op_cb (pt p) (CbSF (pa p)) (op_cb t1 (CbSS (pa p))
              (op_trans (op_place (op_dict (IUuid (ns_fresh s)) (pp p + 1) (op_place (op_place
                 (op_api (svc_api n at_ ins ctx (ns_fresh s)) s))))))))))))).
Proof.
  intros. unfold generate_service.
  rewrite nbind_fresh, nbind_new_api.
  repeat gstep. autorewrite with netops.
  rewrite !app_length. cbn [List.length]. unfold nret, p, pos_of. cbn [pp pt pa].
  repeat (f_equal; try lia).
Qed.

(* ---- what generating one component does to the rest of the net ---- *)
Definition okns (s : NS) : Prop :=
  List.length (ns_cbs s) = List.length (ns_trans s) /\ ns_fresh s = List.length (ns_apis s).

Record GenF (ns ns' : NS) (fpre fpost : nat -> list nat) (fcbs : nat -> list cb) : Prop := {
  gn_places : ns_places ns' = ns_places ns ++ repeat (Some 0) (List.length (ns_places ns') - List.length (ns_places ns));
  gn_ntr : List.length (ns_trans ns) <= List.length (ns_trans ns');
  gn_napi : List.length (ns_apis ns) <= List.length (ns_apis ns');
  gn_apis : forall j, j < List.length (ns_apis ns) -> nth_error (ns_apis ns') j = nth_error (ns_apis ns) j;
  gn_pre : forall j, j < List.length (ns_trans ns) -> preN ns' j = preN ns j ++ fpre j;
  gn_post : forall j, j < List.length (ns_trans ns) -> postN ns' j = postN ns j ++ fpost j;
  gn_cbs : forall j, j < List.length (ns_trans ns) -> cbsN ns' j = cbsN ns j ++ fcbs j;
  gn_dict : exists d, ns_place_dict ns' = d ++ ns_place_dict ns /\
                      Forall (fun kv => exists k, fst kv = IUuid k /\ List.length (ns_apis ns) <= k) d;
  gn_rest : rest_of ns' = rest_of ns
}.

(* entering transition t1 gains the entry arcs and the start callbacks, the transition after
   the component (t2) gains the exit place as input; nothing else changes *)
Definition Gen (ns ns' : NS) (t1 t2 : nat) (ents : list nat) (scbs : list cb) (xp : list nat) : Prop :=
  GenF ns ns' (fun j => if Nat.eqb j t2 then xp else []) (fun j => if Nat.eqb j t1 then ents else [])
       (fun j => if Nat.eqb j t1 then scbs else []).

Lemma preN_beyond : forall s j, List.length (ns_trans s) <= j -> preN s j = [].
Proof. intros s j H. unfold preN. rewrite nth_overflow by exact H. reflexivity. Qed.
Lemma postN_beyond : forall s j, List.length (ns_trans s) <= j -> postN s j = [].
Proof. intros s j H. unfold postN. rewrite nth_overflow by exact H. reflexivity. Qed.
Lemma cbsN_beyond : forall s j, List.length (ns_cbs s) <= j -> cbsN s j = [].
Proof. intros s j H. unfold cbsN. rewrite nth_overflow by exact H. reflexivity. Qed.

Ltac eqb_cases :=
  repeat match goal with
         | |- context [Nat.eqb ?a ?b] => destruct (Nat.eqb_spec a b); try lia
         | |- context [Nat.ltb ?a ?b] => destruct (Nat.ltb_spec a b); try lia
         end.

Lemma gen_service : forall n ins at_ ctx t1 t2 s,
    okns s -> t1 < List.length (ns_trans s) -> t2 < List.length (ns_trans s) ->
    let p := pos_of s in
    exists s', generate_service n ins at_ ctx t1 t2 false s = Ok ([exit_t (XService n at_ ins) p], s') /\
               Gen s s' t1 t2 [pp p] [CbSS (pa p)] [pp p + 2] /\
               pos_of s' = adv (XService n at_ ins) p /\ okns s' /\
               wired s' (XService n at_ ins) p ctx [].
Proof.
  intros n ins at_ ctx t1 t2 s [Hcb Hfr] H1 H2 p. rewrite generate_service_eq. fold p.
  eexists. split; [reflexivity|].
  assert (Hp : pt p = List.length (ns_trans s)) by reflexivity.
  assert (Hpp : pp p = List.length (ns_places s)) by reflexivity.
  assert (Hpa : pa p = List.length (ns_apis s)) by reflexivity.
  split; [|split; [|split; [|]]].
  - unfold Gen. constructor; try intros j Hj; autorewrite with netops.
    + rewrite !app_length. cbn [List.length]. rewrite <- !app_assoc. cbn [app].
      replace (List.length (ns_places s) + 1 + 1 + 1 - List.length (ns_places s)) with 3 by lia. reflexivity.
    + lia.
    + rewrite app_length. lia.
    + rewrite nth_error_app1 by exact Hj. reflexivity.
    + rewrite ?Hcb, ?Hp. eqb_cases; cbn [andb]; rewrite ?app_nil_r; reflexivity.
    + rewrite ?Hcb, ?Hp. eqb_cases; cbn [andb]; rewrite ?app_nil_r; reflexivity.
    + rewrite ?Hcb, ?Hp. eqb_cases; cbn [andb]; rewrite ?app_nil_r; reflexivity.
    + exists [(IUuid (ns_fresh s), pp p + 1)]. split; [reflexivity|]. constructor; [|constructor].
      exists (ns_fresh s). split; [reflexivity|lia].
    + reflexivity.
  - unfold pos_of, adv. autorewrite with netops. rewrite !app_length. cbn [List.length nplaces ntrans napis pp pt pa].
    f_equal; lia.
  - split; autorewrite with netops; [lia|]. rewrite app_length. cbn. lia.
  - cbn [wired]. autorewrite with netops. rewrite Hcb, Hp.
    rewrite (preN_beyond s), (postN_beyond s), (cbsN_beyond s) by lia.
    repeat split.
    + eqb_cases; cbn [andb app]; reflexivity.
    + eqb_cases; cbn [andb app]; reflexivity.
    + eqb_cases; cbn [andb app]; reflexivity.
    + rewrite Hpa, nth_error_app2, Nat.sub_diag by lia. rewrite <- Hfr. reflexivity.
    + rewrite Hpa, <- Hfr. cbn [dict_get ident_eqb]. rewrite Nat.eqb_refl. reflexivity.
Qed.

(* ---- algebra of frames ---- *)
Definition fnil {A} : nat -> list A := fun _ => [].

Lemma GenF_trans : forall ns ns1 ns2 f1 g1 h1 f2 g2 h2,
    GenF ns ns1 f1 g1 h1 -> GenF ns1 ns2 f2 g2 h2 ->
    GenF ns ns2 (fun j => f1 j ++ f2 j) (fun j => g1 j ++ g2 j) (fun j => h1 j ++ h2 j).
Proof.
  intros ns ns1 ns2 f1 g1 h1 f2 g2 h2 A B.
  destruct A as [Ap Ant Ana Aap Apre Apost Acbs (d1 & Ad & Ak) Ar].
  destruct B as [Bp Bnt Bna Bap Bpre Bpost Bcbs (d2 & Bd & Bk) Br].
  constructor.
  - assert (L1 : List.length (ns_places ns1) = List.length (ns_places ns) + (List.length (ns_places ns1) - List.length (ns_places ns))).
    { rewrite Ap at 1. rewrite app_length, repeat_length. reflexivity. }
    assert (L2 : List.length (ns_places ns2) = List.length (ns_places ns1) + (List.length (ns_places ns2) - List.length (ns_places ns1))).
    { rewrite Bp at 1. rewrite app_length, repeat_length. reflexivity. }
    rewrite Bp, Ap at 1. rewrite <- app_assoc, <- repeat_app. f_equal. f_equal. lia.
  - lia.
  - lia.
  - intros j Hj. rewrite Bap by lia. apply Aap. exact Hj.
  - intros j Hj. rewrite Bpre by lia. rewrite Apre by exact Hj. rewrite app_assoc. reflexivity.
  - intros j Hj. rewrite Bpost by lia. rewrite Apost by exact Hj. rewrite app_assoc. reflexivity.
  - intros j Hj. rewrite Bcbs by lia. rewrite Acbs by exact Hj. rewrite app_assoc. reflexivity.
  - exists (d2 ++ d1). split; [rewrite Bd, Ad, app_assoc; reflexivity|].
    apply Forall_app. split; [|exact Ak].
    eapply Forall_impl; [|exact Bk]. intros kv (k & E & Hk). exists k. split; [exact E|lia].
  - congruence.
Qed.

Lemma GenF_ext : forall ns ns' f g h f' g' h',
    GenF ns ns' f g h ->
    (forall j, j < List.length (ns_trans ns) -> f j = f' j /\ g j = g' j /\ h j = h' j) ->
    GenF ns ns' f' g' h'.
Proof.
  intros ns ns' f g h f' g' h' [Ap Ant Ana Aap Apre Apost Acbs Ad Ar] E.
  constructor; try assumption.
  - intros j Hj. rewrite Apre by exact Hj. f_equal. apply E. exact Hj.
  - intros j Hj. rewrite Apost by exact Hj. f_equal. apply E. exact Hj.
  - intros j Hj. rewrite Acbs by exact Hj. f_equal. apply E. exact Hj.
Qed.

Lemma places_self : forall s : NS, ns_places s = ns_places s ++ repeat (Some 0) (List.length (ns_places s) - List.length (ns_places s)).
Proof. intro s. rewrite Nat.sub_diag. cbn. rewrite app_nil_r. reflexivity. Qed.

Lemma dict_self : forall s : NS, exists d, ns_place_dict s = d ++ ns_place_dict s /\
                      Forall (fun kv => exists k, fst kv = IUuid k /\ List.length (ns_apis s) <= k) d.
Proof. intro s. exists []. split; [reflexivity|constructor]. Qed.

Lemma GenF_op_trans : forall s, GenF s (op_trans s) fnil fnil fnil.
Proof.
  intro s. constructor; try intros j Hj; autorewrite with netops; unfold fnil; rewrite ?app_nil_r; try reflexivity; try lia.
  - apply places_self.
  - apply dict_self.
Qed.

Lemma GenF_op_place : forall s, GenF s (op_place s) fnil fnil fnil.
Proof.
  intro s. constructor; try intros j Hj; autorewrite with netops; unfold fnil; rewrite ?app_nil_r; try reflexivity; try lia.
  - rewrite app_length. cbn [List.length]. replace (List.length (ns_places s) + 1 - List.length (ns_places s)) with 1 by lia. reflexivity.
  - apply dict_self.
Qed.

Lemma GenF_op_in : forall p t s,
    GenF s (op_in p t s) (fun j => if Nat.eqb j t then [p] else []) fnil fnil.
Proof.
  intros p t s. constructor; try intros j Hj; autorewrite with netops; unfold fnil; rewrite ?app_nil_r; try reflexivity; try lia.
  - apply places_self.
  - eqb_cases; reflexivity.
  - apply dict_self.
Qed.

Lemma GenF_op_out : forall p t s,
    GenF s (op_out p t s) fnil (fun j => if Nat.eqb j t then [p] else []) fnil.
Proof.
  intros p t s. constructor; try intros j Hj; autorewrite with netops; unfold fnil; rewrite ?app_nil_r; try reflexivity; try lia.
  - apply places_self.
  - eqb_cases; reflexivity.
  - apply dict_self.
Qed.

Lemma GenF_op_cb : forall t c s, List.length (ns_cbs s) = List.length (ns_trans s) ->
    GenF s (op_cb t c s) fnil fnil (fun j => if Nat.eqb j t then [c] else []).
Proof.
  intros t c s Hl. constructor; try intros j Hj; autorewrite with netops; unfold fnil; rewrite ?app_nil_r; try reflexivity; try lia.
  - apply places_self.
  - rewrite Hl. eqb_cases; reflexivity.
  - apply dict_self.
Qed.

Lemma GenF_op_api : forall a s, GenF s (op_api a s) fnil fnil fnil.
Proof.
  intros a s. constructor; try intros j Hj; autorewrite with netops; unfold fnil; rewrite ?app_nil_r; try reflexivity; try lia.
  - apply places_self.
  - rewrite app_length. lia.
  - rewrite nth_error_app1 by exact Hj. reflexivity.
  - apply dict_self.
Qed.

Lemma GenF_refl : forall s, GenF s s fnil fnil fnil.
Proof.
  intro s. constructor; try intros j Hj; unfold fnil; rewrite ?app_nil_r; try reflexivity; try lia.
  - apply places_self.
  - apply dict_self.
Qed.

Lemma wired_ext : forall N N' s, frag s = true -> forall p ctx xcbs,
    agree N N' p (ntrans s) (napis s) (exit_t s p) [] ->
    wired N s p ctx xcbs -> wired N' s p ctx xcbs.
Proof.
  intros N N' s Hf p ctx xcbs Hag Hw.
  pose proof (wired_agree N N' (exit_t s p) [] s Hf p ctx xcbs Hag (or_intror eq_refl) Hw) as H.
  rewrite Nat.eqb_refl, app_nil_r in H. exact H.
Qed.

Lemma GenF_agree : forall ns1 ns2 f g h p dt da e,
    GenF ns1 ns2 f g h ->
    (forall j, pt p <= j < pt p + dt -> f j = [] /\ g j = [] /\ h j = []) ->
    pt p + dt <= List.length (ns_trans ns1) -> pa p + da <= List.length (ns_apis ns1) ->
    agree ns1 ns2 p dt da e [].
Proof.
  intros ns1 ns2 f g h p dt da e [Ap Ant Ana Aap Apre Apost Acbs (d & Ad & Ak) Ar] Hz Ht Ha.
  split; [|split].
  - intros j Hj. destruct (Hz j Hj) as (E1 & E2 & E3).
    rewrite Apre, Apost, Acbs by lia. rewrite E1, E2, E3, !app_nil_r.
    destruct (Nat.eqb e j); rewrite ?app_nil_r; auto.
  - intros j Hj. apply Aap. lia.
  - exists d. split; [exact Ad|]. eapply Forall_impl; [|exact Ak].
    intros kv (k & E & Hk). exists k. split; [exact E|lia].
Qed.

(* ---- the statement proved by induction over the unfolded tree ---- *)
Definition GenOK (s : xstmt) : Prop :=
  frag s = true -> forall ctx t1 t2 ns,
    okns ns -> t1 < List.length (ns_trans ns) -> t2 < List.length (ns_trans ns) ->
    let p := pos_of ns in
    exists ns', pg_stmt ctx s t1 t2 ns = Ok ([exit_t s p], ns') /\
                Gen ns ns' t1 t2 (entries s p) (startcbs s p) [xplace s p] /\
                pos_of ns' = adv s p /\ okns ns' /\ wired ns' s p ctx [].

Definition adv_l (l : list xstmt) (q : pos) : pos :=
  mkpos (pp q + nplaces_l l) (pt q + ntrans_l l) (pa q + napis_l l).
Definition adv_b (l : list xstmt) (q : pos) : pos :=
  mkpos (pp q + nplaces_l l) (pt q + ntrans_b l) (pa q + napis_l l).

Lemma pos_eta : forall p, mkpos (pp p) (pt p) (pa p) = p.
Proof. intros []; reflexivity. Qed.

Lemma gen_calls : forall l, Forall GenOK l -> frag_brs l = true ->
    forall ctx t1 sync ns,
      okns ns -> t1 < List.length (ns_trans ns) -> sync < List.length (ns_trans ns) ->
      let q := pos_of ns in
      exists ns', pg_calls pg_stmt ctx t1 sync l ns = Ok (tt, ns') /\
                  Gen ns ns' t1 sync (cat_of entries l q) (cat_of startcbs l q) (cat_of (fun b q => [xplace b q]) l q) /\
                  pos_of ns' = adv_l l q /\ okns ns' /\ wired_list (wired ns') ctx l q.
Proof.
  induction l as [|b r IH]; intros HF Hf ctx t1 sync ns Hok H1 H2 q.
  - exists ns. split; [reflexivity|]. split; [|split; [|split; [exact Hok|exact I]]].
    + unfold Gen. eapply GenF_ext; [apply GenF_refl|]. intros j _. cbn [cat_of]. unfold fnil.
      destruct (Nat.eqb j sync), (Nat.eqb j t1); auto.
    + unfold adv_l, nplaces_l, ntrans_l, napis_l. cbn [map list_sum fold_right]. rewrite !Nat.add_0_r. symmetry. apply pos_eta.
  - inversion HF as [|? ? Hb Hr]; subst. apply frag_brs_cons in Hf. destruct Hf as (_ & Hfb & Hfr).
    destruct (Hb Hfb ctx t1 sync ns Hok H1 H2) as (ns1 & E1 & G1 & P1 & Ok1 & W1). fold q in E1, G1, P1, W1.
    assert (L1 : List.length (ns_trans ns) <= List.length (ns_trans ns1)) by (apply (gn_ntr _ _ _ _ _ G1)).
    destruct (IH Hr Hfr ctx t1 sync ns1 Ok1 ltac:(lia) ltac:(lia)) as (ns2 & E2 & G2 & P2 & Ok2 & W2).
    rewrite ?P1 in G2, P2, W2.
    exists ns2. split; [|split; [|split; [|split; [exact Ok2|]]]].
    + cbn [pg_calls]. unfold nbind. rewrite E1. exact E2.
    + unfold Gen in *. eapply GenF_ext; [eapply GenF_trans; [exact G1|exact G2]|].
      intros j Hj. cbn beta. cbn [cat_of]. destruct (Nat.eqb j sync), (Nat.eqb j t1); auto.
    + rewrite P2. unfold adv_l, adv. cbn [pp pt pa]. rewrite nplaces_l_cons, ntrans_l_cons, napis_l_cons. f_equal; lia.
    + cbn [wired_list]. split; [|exact W2].
      apply (wired_ext ns1 ns2 b Hfb q ctx []); [|exact W1].
      eapply GenF_agree; [exact G2| | |].
      * intros j Hj. unfold q, pos_of in Hj. cbn [pt] in Hj.
        assert (Es : Nat.eqb j sync = false) by (apply Nat.eqb_neq; lia).
        assert (Et : Nat.eqb j t1 = false) by (apply Nat.eqb_neq; lia).
        cbn beta. rewrite Es, Et. auto.
      * pose proof (f_equal pt P1) as Ept. unfold pos_of, adv in Ept. cbn [pt] in Ept. lia.
      * pose proof (f_equal pa P1) as Epa. unfold pos_of, adv in Epa. cbn [pa] in Epa. lia.
Qed.

Lemma okns_op_trans : forall s, okns s -> okns (op_trans s).
Proof. intros s [H1 H2]. split; autorewrite with netops; [lia|exact H2]. Qed.
Lemma pos_op_trans : forall s, pos_of (op_trans s) = conn_skip (pos_of s).
Proof. intro s. unfold pos_of, conn_skip. autorewrite with netops. reflexivity. Qed.

Lemma gen_block_go : forall l, Forall GenOK l -> frag_block l = true ->
    forall n i prev acc ctx last ns,
      i + List.length l = n -> okns ns ->
      prev < List.length (ns_trans ns) -> last < List.length (ns_trans ns) ->
      let p := pos_of ns in
      exists ns', pg_block_go pg_stmt ctx n last i l prev acc ns = Ok ([exit_b l p], ns') /\
                  Gen ns ns' prev last (entries_b l p) (startcbs_b l p) [xplace_b l p] /\
                  pos_of ns' = adv_b l p /\ okns ns' /\ wired_block (wired ns') ns' ctx [] l p.
Proof.
  induction l as [|s r IH]; intros HF Hf n i prev acc ctx last ns Hn Hok H1 H2 p; [discriminate|].
  inversion HF as [|? ? Hs Hr]; subst. apply frag_block_cons in Hf. destruct Hf as [Hfs Hfr].
  destruct r as [|s' r].
  - (* last statement: wired to [last] *)
    cbn [pg_block_go List.length].
    assert (Ecur : (if Nat.ltb 1 (i + 1) then if Nat.ltb i (i + 1 - 1) then create_transition else nret last else nret last)
                   = nret last).
    { replace (i + 1 - 1) with i by lia. rewrite Nat.ltb_irrefl. destruct (Nat.ltb 1 (i + 1)); reflexivity. }
    rewrite Ecur. unfold nbind at 1. unfold nret at 1.
    destruct (Hs Hfs ctx prev last ns Hok H1 H2) as (ns1 & E1 & G1 & P1 & Ok1 & W1). fold p in E1, G1, P1, W1.
    exists ns1. split; [|split; [|split; [|split; [exact Ok1|]]]].
    + unfold nbind. rewrite E1. reflexivity.
    + exact G1.
    + rewrite P1. unfold adv, adv_b. rewrite nplaces_l_one, napis_l_one, ntrans_b_one. reflexivity.
    + exact W1.
  - destruct Hfr as [Hfr|Hfr]; [discriminate|].
    cbn [pg_block_go]. cbn [List.length] in *.
    assert (Ecur : (if Nat.ltb 1 (i + S (S (List.length r)))
                    then if Nat.ltb i (i + S (S (List.length r)) - 1) then create_transition else nret last
                    else nret last) = create_transition).
    { rewrite (proj2 (Nat.ltb_lt 1 _)) by lia. rewrite (proj2 (Nat.ltb_lt i _)) by lia. reflexivity. }
    rewrite Ecur. rewrite (nbind_ok _ _ _ _ _ _ _ (create_transition_eq _)).
    set (cur := List.length (ns_trans ns)).
    assert (Hc0 : cur = List.length (ns_trans ns)) by reflexivity.
    pose proof (okns_op_trans ns Hok) as Ok0.
    assert (L0 : List.length (ns_trans (op_trans ns)) = S cur) by (autorewrite with netops; reflexivity).
    destruct (Hs Hfs ctx prev cur (op_trans ns) Ok0 ltac:(lia) ltac:(lia)) as (ns1 & E1 & G1 & P1 & Ok1 & W1).
    rewrite pos_op_trans in E1, G1, P1, W1. fold p in E1, G1, P1, W1.
    set (ps := conn_skip p) in *.
    assert (L1 : S cur <= List.length (ns_trans ns1)) by (rewrite <- L0; apply (gn_ntr _ _ _ _ _ G1)).
    destruct (IH Hr Hfr (i + S (S (List.length r))) (S i) cur [exit_t s ps] ctx last ns1 ltac:(cbn [List.length]; lia) Ok1 ltac:(lia) ltac:(lia))
      as (ns2 & E2 & G2 & P2 & Ok2 & W2).
    rewrite ?P1 in E2, G2, P2, W2. set (pr := adv s ps) in *.
    exists ns2. split; [|split; [|split; [|split; [exact Ok2|]]]].
    + unfold nbind at 1. rewrite E1. unfold exit_b. rewrite last_of_cons. exact E2.
    + unfold Gen in *.
      eapply GenF_ext; [eapply GenF_trans; [apply GenF_op_trans|eapply GenF_trans; [exact G1|exact G2]]|].
      intros j Hj. fold cur in Hj. cbn beta. unfold fnil.
      assert (Ec : Nat.eqb j cur = false) by (apply Nat.eqb_neq; lia). rewrite Ec. cbn [app].
      unfold xplace_b. rewrite last_of_cons. fold ps. fold pr. rewrite !app_nil_r.
      unfold entries_b, startcbs_b. cbn [first_pos]. fold ps. auto.
    + rewrite P2. unfold adv_b, pr, adv, ps, conn_skip, p, pos_of. cbn [pp pt pa].
      rewrite !nplaces_l_cons, !napis_l_cons, ntrans_b_cons. f_equal; lia.
    + cbn [wired_block]. cbv zeta. fold ps. fold pr.
      assert (Hcur : pt p = cur) by reflexivity. rewrite Hcur.
      assert (Ecl : Nat.eqb cur last = false) by (apply Nat.eqb_neq; unfold cur; lia).
      assert (Ecp : Nat.eqb cur prev = false) by (apply Nat.eqb_neq; unfold cur; lia).
      unfold Gen in G1, G2.
      rewrite (gn_pre _ _ _ _ _ G2 cur), (gn_post _ _ _ _ _ G2 cur), (gn_cbs _ _ _ _ _ G2 cur) by lia.
      rewrite (gn_pre _ _ _ _ _ G1 cur), (gn_post _ _ _ _ _ G1 cur), (gn_cbs _ _ _ _ _ G1 cur) by lia.
      autorewrite with netops.
      rewrite (preN_beyond ns), (postN_beyond ns), (cbsN_beyond ns) by (destruct Hok; unfold cur; lia).
      rewrite Nat.eqb_refl, Ecl, Ecp. cbn [app]. rewrite ?app_nil_r.
      split; [reflexivity|]. split; [reflexivity|]. split; [reflexivity|]. split; [|exact W2].
      apply (wired_ext ns1 ns2 s Hfs ps ctx []); [|exact W1].
      eapply GenF_agree; [exact G2| | |].
      * intros j Hj. unfold ps, conn_skip, p, pos_of in Hj. cbn [pt] in Hj. fold cur in Hj.
        assert (Es : Nat.eqb j last = false) by (apply Nat.eqb_neq; clear - H2 Hc0 Hj; lia).
        assert (Et : Nat.eqb j cur = false) by (apply Nat.eqb_neq; lia).
        cbn beta. rewrite Es, Et. auto.
      * pose proof (f_equal pt P1) as Ept. unfold pr, pos_of, adv in Ept. cbn [pt] in Ept. lia.
      * pose proof (f_equal pa P1) as Epa. unfold pr, pos_of, adv in Epa. cbn [pa] in Epa. lia.
Qed.

(* ---- list versions of [wired_agree] ---- *)
Lemma wired_block_agree : forall N N' e extra l, frag_block l = true -> forall p ctx xcbs,
    agree N N' p (ntrans_b l) (napis_l l) e extra ->
    ((e < pt p \/ pt p + ntrans_b l <= e) \/ e = exit_b l p) ->
    wired_block (wired N) N ctx xcbs l p ->
    wired_block (wired N') N' ctx (xcbs ++ if Nat.eqb e (exit_b l p) then extra else []) l p.
Proof.
  intros N N' e extra l Hf. apply wired_agree_block; [|exact Hf].
  apply Forall_forall. intros s _ Hs. apply wired_agree. exact Hs.
Qed.

Lemma wired_list_ext : forall N N' e l, frag_brs l = true -> forall q ctx,
    agree N N' q (ntrans_l l) (napis_l l) e [] ->
    (e < pt q \/ pt q + ntrans_l l <= e) ->
    wired_list (wired N) ctx l q -> wired_list (wired N') ctx l q.
Proof.
  intros N N' e l Hf. apply (wired_agree_list N N' e []); [|exact Hf].
  apply Forall_forall. intros s _ Hs. apply wired_agree. exact Hs.
Qed.

Lemma agree_op_cb : forall N e c p dt da,
    e < List.length (ns_cbs N) -> agree N (op_cb e c N) p dt da e [c].
Proof.
  intros N e c p dt da He. split; [|split].
  - intros j Hj. autorewrite with netops. split; [reflexivity|]. split; [reflexivity|].
    rewrite (Nat.eqb_sym e j). destruct (Nat.eqb_spec j e); cbn [andb]; [|reflexivity].
    rewrite (proj2 (Nat.ltb_lt e _)) by exact He. reflexivity.
  - intros j Hj. reflexivity.
  - exists []. split; [reflexivity|constructor].
Qed.

Lemma nfor_one_cb : forall e c s, nfor [e] (fun e => add_callback e c) s = Ok (tt, op_cb e c s).
Proof.
  intros. cbn [nfor]. rewrite (nbind_ok _ _ _ _ _ _ _ (add_callback_eq _ _ _)). reflexivity.
Qed.

Lemma gen_call : forall t at_ ins body, Forall GenOK body -> GenOK (XCall t at_ ins body).
Proof.
  intros t at_ ins body HF Hf ctx t1 t2 ns Hok H1 H2 p.
  apply frag_call in Hf. destruct Hf as [_ Hfb].
  destruct Hok as [Hcb Hfr].
  cbn [pg_stmt]. rewrite nbind_fresh, nbind_new_api.
  rewrite (nbind_ok _ _ _ _ _ _ _ (add_callback_eq _ _ _)).
  set (a := List.length (ns_apis ns)).
  set (A := {| a_is_task := true; a_name := t; a_site := at_; a_uuid := IUuid (ns_fresh ns); a_ctx := Some ctx;
               a_in_loop := false; a_params := ins; a_src := ins; a_has_call := true |}).
  set (ns1 := op_cb t1 (CbTS a) (op_api A ns)).
  assert (Ok1 : okns ns1).
  { unfold ns1. split; autorewrite with netops; [exact Hcb|]. rewrite app_length. cbn [List.length]. lia. }
  assert (P1 : pos_of ns1 = body_pos p).
  { unfold ns1, pos_of, body_pos, p, pos_of. autorewrite with netops. rewrite app_length. cbn [List.length pp pt pa]. f_equal. lia. }
  assert (Lt1 : List.length (ns_trans ns1) = List.length (ns_trans ns)) by (unfold ns1; autorewrite with netops; reflexivity).
  destruct (gen_block_go body HF Hfb (List.length body) 0 t1 [] a t2 ns1 eq_refl Ok1 ltac:(lia) ltac:(lia))
    as (ns2 & E2 & G2 & P2 & Ok2 & W2).
  rewrite P1 in E2, G2, P2, W2. set (bp := body_pos p) in *.
  pose proof (exit_range_b body Hfb bp) as Hex.
  assert (Lt2 : List.length (ns_trans ns2) = pt bp + ntrans_b body).
  { pose proof (f_equal pt P2) as E. unfold pos_of, adv_b in E. cbn [pt] in E. exact E. }
  assert (Hbp : pt bp = List.length (ns_trans ns)) by reflexivity.
  unfold nbind at 1. rewrite E2. unfold nbind at 1. rewrite nfor_one_cb. unfold nret.
  set (e := exit_b body bp) in *.
  exists (op_cb e (CbTF a) ns2). split; [reflexivity|]. split; [|split; [|split]].
  - unfold Gen in *.
    eapply GenF_ext;
      [eapply GenF_trans; [apply (GenF_op_api A ns)|
       eapply GenF_trans; [apply (GenF_op_cb t1 (CbTS a) (op_api A ns)); autorewrite with netops; exact Hcb|
       eapply GenF_trans; [exact G2|apply (GenF_op_cb e (CbTF a) ns2); apply Ok2]]]|].
    intros j Hj. cbn beta. unfold fnil. cbn [app]. rewrite !app_nil_r.
    assert (Ee : Nat.eqb j e = false) by (apply Nat.eqb_neq; lia). rewrite Ee, app_nil_r.
    split; [reflexivity|]. split; [reflexivity|].
    destruct (Nat.eqb j t1); reflexivity.
  - unfold pos_of in *. autorewrite with netops. rewrite P2. unfold adv_b, adv, bp, body_pos.
    cbn [pp pt pa]. rewrite nplaces_call, ntrans_call, napis_call. f_equal. lia.
  - destruct Ok2 as [Hcb2 Hfr2]. split; autorewrite with netops; assumption.
  - cbn [wired]. split.
    + autorewrite with netops.
      rewrite (gn_apis _ _ _ _ _ G2) by (unfold ns1; autorewrite with netops; rewrite app_length; cbn [List.length]; unfold p, pos_of; cbn [pa]; lia).
      unfold ns1. autorewrite with netops. unfold p, pos_of. cbn [pa].
      rewrite nth_error_app2, Nat.sub_diag by lia. unfold A. rewrite Hfr. reflexivity.
    + pose proof (wired_block_agree ns2 (op_cb e (CbTF a) ns2) e [CbTF a] body Hfb bp a []) as Hx.
      rewrite Nat.eqb_refl in Hx. cbn [app] in Hx.
      apply Hx; [|right; reflexivity|exact W2].
      apply agree_op_cb. destruct Ok2 as [Hcb2 _]. rewrite Hcb2. lia.
Qed.

Lemma gen_par : forall bs, Forall GenOK bs -> GenOK (XParallel bs).
Proof.
  intros bs HF Hf ctx t1 t2 ns Hok H1 H2 p.
  apply frag_par in Hf. destruct Hf as [_ Hfb].
  cbn [pg_stmt]. rewrite (nbind_ok _ _ _ _ _ _ _ (create_transition_eq _)).
  rewrite (nbind_ok _ _ _ _ _ _ _ (create_place_eq _)).
  set (sync := List.length (ns_trans ns)).
  assert (Hs0 : sync = List.length (ns_trans ns)) by reflexivity.
  replace (List.length (ns_places (op_trans ns))) with (List.length (ns_places ns)) by (autorewrite with netops; reflexivity).
  set (pfin := List.length (ns_places ns)).
  set (ns1 := op_place (op_trans ns)).
  assert (Ok1 : okns ns1).
  { destruct Hok as [Hcb Hfr]. unfold ns1. split; autorewrite with netops; [lia|exact Hfr]. }
  assert (P1 : pos_of ns1 = par_pos p).
  { unfold ns1, pos_of, par_pos, p, pos_of. autorewrite with netops. rewrite app_length. cbn [List.length pp pt pa]. f_equal. lia. }
  assert (Lt1 : List.length (ns_trans ns1) = S sync) by (unfold ns1; autorewrite with netops; reflexivity).
  destruct (gen_calls bs HF Hfb ctx t1 sync ns1 Ok1 ltac:(lia) ltac:(lia)) as (ns2 & E2 & G2 & P2 & Ok2 & W2).
  rewrite P1 in G2, P2, W2. set (q := par_pos p) in *.
  assert (Lt2 : List.length (ns_trans ns2) = pt q + ntrans_l bs).
  { pose proof (f_equal pt P2) as E. unfold pos_of, adv_l in E. cbn [pt] in E. exact E. }
  assert (Hq : pt q = S sync) by reflexivity.
  unfold nbind at 1. rewrite E2.
  rewrite (nbind_ok _ _ _ _ _ _ _ (add_output_eq _ _ _)).
  rewrite (nbind_ok _ _ _ _ _ _ _ (add_input_eq _ _ _)). unfold nret.
  set (ns3 := op_in pfin t2 (op_out pfin sync ns2)).
  assert (G23 : GenF ns2 ns3 (fun j => [] ++ (if Nat.eqb j t2 then [pfin] else []))
                     (fun j => (if Nat.eqb j sync then [pfin] else []) ++ []) (fun j => [] ++ [])).
  { unfold ns3. eapply GenF_trans; [apply GenF_op_out|apply GenF_op_in]. }
  assert (G13 : GenF ns1 ns3
                     (fun j => (if Nat.eqb j sync then cat_of (fun b q => [xplace b q]) bs q else []) ++ ([] ++ (if Nat.eqb j t2 then [pfin] else [])))
                     (fun j => (if Nat.eqb j t1 then cat_of entries bs q else []) ++ ((if Nat.eqb j sync then [pfin] else []) ++ []))
                     (fun j => (if Nat.eqb j t1 then cat_of startcbs bs q else []) ++ ([] ++ []))).
  { eapply GenF_trans; [exact G2|exact G23]. }
  exists ns3. split; [reflexivity|]. split; [|split; [|split]].
  - unfold Gen.
    eapply GenF_ext;
      [eapply GenF_trans; [apply (GenF_op_trans ns)|eapply GenF_trans; [apply (GenF_op_place (op_trans ns))|exact G13]]|].
    intros j Hj. cbn beta. unfold fnil. cbn [app]. rewrite !app_nil_r.
    assert (Ee : Nat.eqb j sync = false) by (apply Nat.eqb_neq; lia). rewrite Ee. cbn [app].
    rewrite ?app_nil_r. split; [reflexivity|]. split; reflexivity.
  - unfold ns3, pos_of in *. autorewrite with netops. rewrite P2. unfold adv_l, adv, q, par_pos.
    cbn [pp pt pa]. rewrite nplaces_par, ntrans_par, napis_par. f_equal; lia.
  - destruct Ok2 as [Hcb2 Hfr2]. unfold ns3. split; autorewrite with netops; assumption.
  - cbn [wired]. fold q. assert (Hp : pt p = sync) by reflexivity. rewrite Hp.
    rewrite (gn_pre _ _ _ _ _ G13 sync), (gn_post _ _ _ _ _ G13 sync), (gn_cbs _ _ _ _ _ G13 sync) by lia.
    unfold ns1. autorewrite with netops.
    rewrite (preN_beyond ns), (postN_beyond ns), (cbsN_beyond ns) by (destruct Hok; lia).
    rewrite Nat.eqb_refl.
    assert (E1 : Nat.eqb sync t1 = false) by (apply Nat.eqb_neq; lia).
    assert (E2' : Nat.eqb sync t2 = false) by (apply Nat.eqb_neq; lia).
    rewrite E1, E2'. cbn [app]. rewrite !app_nil_r.
    split; [reflexivity|]. split; [reflexivity|]. split; [reflexivity|].
    apply (wired_list_ext ns2 ns3 0 bs Hfb q ctx); [|left; lia|exact W2].
    eapply GenF_agree; [exact G23| | |].
    + intros j Hj.
      assert (Es : Nat.eqb j sync = false) by (apply Nat.eqb_neq; lia).
      assert (Et : Nat.eqb j t2 = false) by (apply Nat.eqb_neq; lia).
      cbn beta. rewrite Es, Et. auto.
    + lia.
    + pose proof (f_equal pa P2) as Epa. unfold pos_of, adv_l in Epa. cbn [pa] in Epa. lia.
Qed.

Theorem gen_ok : forall s, GenOK s.
Proof.
  induction s as [n a i|t a i body IH|bs IH|e p f IHp IHf|e b IH|v l b IH|v l c IH] using xstmt_ind';
    try (intro Hf; discriminate Hf).
  - intros Hf ctx t1 t2 ns Hok H1 H2 p. cbn [pg_stmt]. apply gen_service; assumption.
  - apply gen_call. exact IH.
  - apply gen_par. exact IH.
Qed.

Theorem gen_block : forall body, frag_block body = true ->
    forall ctx first last ns,
      okns ns -> first < List.length (ns_trans ns) -> last < List.length (ns_trans ns) ->
      let p := pos_of ns in
      exists ns', pg_block ctx body first last ns = Ok ([exit_b body p], ns') /\
                  Gen ns ns' first last (entries_b body p) (startcbs_b body p) [xplace_b body p] /\
                  pos_of ns' = adv_b body p /\ okns ns' /\ wired_block (wired ns') ns' ctx [] body p.
Proof.
  intros body Hf ctx first last ns Hok H1 H2 p. unfold pg_block.
  apply gen_block_go; try assumption; [|reflexivity].
  apply Forall_forall. intros s _. apply gen_ok.
Qed.

(* =========================================================================== *)
(* (A) the generator on a program = the walk over its unfolding                 *)
(* =========================================================================== *)

(* named copies of the local fixpoints of generate_statements / generate_stmt / unfold_stmt *)
Section Copies.
  Variable tasks : list task.
  Section GS.
    Variables (f' ctx : nat) (tn : name) (pre : list nat) (n first last : nat) (in_loop : bool).
    Fixpoint gs_go (i : nat) (l : list stmt) (prev : nat) (acc : list nat) : NetModel.N (list nat) :=
      match l with
      | [] => nret acc
      | s :: r =>
        cur <~ (if Nat.ltb 1 n
                then (if Nat.ltb i (n - 1) then create_transition else nret last)
                else nret last) ;;
        let prev' := if Nat.ltb 1 n then prev else first in
        ex <~ generate_stmt tasks f' ctx tn (pre ++ [i]) s prev' cur in_loop ;;
        gs_go (S i) r cur ex
      end.
  End GS.
  Section GC.
    Variables (f' ctx : nat) (tn : name) (path : list nat) (t1 sync : nat) (in_loop : bool).
    Fixpoint gp_calls (i : nat) (l : list call) : NetModel.N unit :=
      match l with
      | [] => nret tt
      | c :: r => generate_task_call tasks f' c (site_of tn (path ++ [i])) ctx t1 sync in_loop ;;~ gp_calls (S i) r
      end.
  End GC.
  Section UB.
    Variables (f : nat) (tn : name).
    Fixpoint ucall_blk (i : nat) (ss : list stmt) : res (list xstmt) :=
      match ss with
      | [] => Ok []
      | s1 :: r =>
        rbind (unfold_stmt tasks f tn [i] s1) (fun x =>
        rbind (ucall_blk (S i) r) (fun xs => Ok (x :: xs)))
      end.
  End UB.
  Definition udo_call (f : nat) (tn : name) (pth : list nat) (c : call) : res xstmt :=
    match find_task (c_name c) tasks with
    | None => Exn KeyError
    | Some t =>
      rbind (ucall_blk f (t_name t) 0 (t_body t))
            (fun body => Ok (XCall (c_name c) {| st_task := tn; st_path := pth |} (c_ins c) body))
    end.
  Section UC.
    Variables (f : nat) (tn : name) (path : list nat).
    Fixpoint ucalls (i : nat) (l : list call) : res (list xstmt) :=
      match l with
      | [] => Ok []
      | c :: r =>
        rbind (udo_call f tn (path ++ [i]) c) (fun x =>
        rbind (ucalls (S i) r) (fun xs => Ok (x :: xs)))
      end.
  End UC.

  Lemma generate_statements_S : forall f' ctx tn pre ss first last in_loop,
      generate_statements tasks (S f') ctx tn pre ss first last in_loop
      = gs_go f' ctx tn pre (List.length ss) first last in_loop 0 ss first [].
  Proof. reflexivity. Qed.

  Lemma generate_stmt_S_service : forall f' ctx tn path n ins o t1 t2 il,
      generate_stmt tasks (S f') ctx tn path (SService n ins o) t1 t2 il
      = generate_service n ins (site_of tn path) ctx t1 t2 il.
  Proof. reflexivity. Qed.
  Lemma generate_stmt_S_call : forall f' ctx tn path c t1 t2 il,
      generate_stmt tasks (S f') ctx tn path (SCall c) t1 t2 il
      = generate_task_call tasks f' c (site_of tn path) ctx t1 t2 il.
  Proof. reflexivity. Qed.
  Lemma generate_stmt_S_par : forall f' ctx tn path cs t1 t2 il,
      generate_stmt tasks (S f') ctx tn path (SParallel cs) t1 t2 il
      = (sync <~ create_transition ;;
         pfin <~ create_place ;;
         gp_calls f' ctx tn path t1 sync il 0 cs ;;~
         add_output pfin sync ;;~
         add_input pfin t2 ;;~
         nret [sync])%net.
  Proof. reflexivity. Qed.
  Lemma generate_task_call_S : forall f' c at_ ctx t1 t2 il,
      generate_task_call tasks (S f') c at_ ctx t1 t2 il
      = match find_task (c_name c) tasks with
        | None => nfail (Exn KeyError)
        | Some t =>
          (u <~ fresh_uuid ;;
           a <~ new_api {| a_is_task := true; a_name := c_name c; a_site := at_; a_uuid := u; a_ctx := Some ctx;
                           a_in_loop := il; a_params := c_ins c; a_src := c_ins c; a_has_call := true |} ;;
           add_callback t1 (CbTS a) ;;~
           ex <~ generate_statements tasks f' a (t_name t) [] (t_body t) t1 t2 il ;;
           nfor ex (fun e => add_callback e (CbTF a)) ;;~
           nret ex)%net
        end.
  Proof. reflexivity. Qed.

  Lemma unfold_stmt_S_service : forall f' tn path n ins o,
      unfold_stmt tasks (S f') tn path (SService n ins o) = Ok (XService n {| st_task := tn; st_path := path |} ins).
  Proof. reflexivity. Qed.
  Lemma unfold_stmt_S_call : forall f' tn path c,
      unfold_stmt tasks (S f') tn path (SCall c) = udo_call f' tn path c.
  Proof. reflexivity. Qed.
  Lemma unfold_stmt_S_par : forall f' tn path cs,
      unfold_stmt tasks (S f') tn path (SParallel cs)
      = rbind (ucalls f' tn path 0 cs) (fun bs => Ok (XParallel bs)).
  Proof. reflexivity. Qed.
  Lemma unfold_program_eq : forall f,
      unfold_program tasks f =
      match find_task production_task tasks with
      | None => Exn KeyError
      | Some t => ucall_blk f production_task 0 (t_body t)
      end.
  Proof. reflexivity. Qed.
End Copies.

Lemma rbind_ok_inv : forall A B (r : res A) (f : A -> res B) y,
    rbind r f = Ok y -> exists a, r = Ok a /\ f a = Ok y.
Proof. intros A B [a| | |] f y H; try discriminate H. exists a. split; [reflexivity|exact H]. Qed.

(* only Service / Call / Parallel unfold into the fragment *)
Lemma unfold_frag_shape : forall tasks f' tn path s x,
    unfold_stmt tasks (S f') tn path s = Ok x -> frag x = true ->
    (exists n ins o, s = SService n ins o) \/ (exists c, s = SCall c) \/ (exists cs, s = SParallel cs).
Proof.
  intros tasks f' tn path s x H Hf. destruct s as [n ins o|c|cs|e body|par v lim body|e p fl].
  - left. eauto.
  - right. left. eauto.
  - right. right. eauto.
  - exfalso. cbn [unfold_stmt] in H. apply rbind_ok_inv in H. destruct H as (b & _ & H). inversion H; subst. discriminate Hf.
  - exfalso. cbn [unfold_stmt] in H. destruct par.
    + destruct body as [|[ | | | | | ] [|]]; try discriminate H.
      apply rbind_ok_inv in H. destruct H as (b & _ & H). inversion H; subst. discriminate Hf.
    + apply rbind_ok_inv in H. destruct H as (b & _ & H). inversion H; subst. discriminate Hf.
  - exfalso. cbn [unfold_stmt] in H. apply rbind_ok_inv in H. destruct H as (b & _ & H).
    apply rbind_ok_inv in H. destruct H as (b2 & _ & H). inversion H; subst. discriminate Hf.
Qed.

(* generator fuel that suffices for a component *)
Fixpoint need (s : xstmt) : nat :=
  match s with
  | XService _ _ _ => 1
  | XCall _ _ _ body => 3 + list_max (map need body)
  | XParallel bs => 1 + list_max (map need bs)
  | _ => 0
  end.
Definition need_l (l : list xstmt) : nat := list_max (map need l).

Lemma need_l_cons : forall x l, need_l (x :: l) = Nat.max (need x) (need_l l).
Proof. reflexivity. Qed.

Lemma nbind_ext : forall A B (m : NetModel.N A) (k k' : A -> NetModel.N B) s,
    (forall a s1, k a s1 = k' a s1) -> nbind m k s = nbind m k' s.
Proof. intros A B m k k' s H. unfold nbind. destruct (m s) as [[a s1]| | |]; auto. Qed.

Section WalkEq.
  Variable tasks : list task.

  Definition P_stmt (fu : nat) : Prop :=
    forall tn path s x, unfold_stmt tasks fu tn path s = Ok x -> frag x = true ->
      forall g ctx t1 t2 ns, need x <= g ->
        generate_stmt tasks g ctx tn path s t1 t2 false ns = pg_stmt ctx x t1 t2 ns.
  Definition P_call (fu : nat) : Prop :=
    forall tn pth c x, udo_call tasks fu tn pth c = Ok x -> frag x = true ->
      forall g ctx t1 t2 ns, need x <= S g ->
        generate_task_call tasks g c (site_of tn pth) ctx t1 t2 false ns = pg_stmt ctx x t1 t2 ns.

  Lemma ucall_blk_length : forall fu tn ss i xs,
      ucall_blk tasks fu tn i ss = Ok xs -> List.length xs = List.length ss.
  Proof.
    intros fu tn. induction ss as [|s r IH]; intros i xs H; cbn [ucall_blk] in H.
    - inversion H. reflexivity.
    - apply rbind_ok_inv in H. destruct H as (x & _ & H). apply rbind_ok_inv in H. destruct H as (xs' & H1 & H).
      inversion H; subst. cbn [List.length]. f_equal. eapply IH. exact H1.
  Qed.

  Lemma A_blk : forall fu, P_stmt fu ->
      forall g a tn n first last ss i xs,
        ucall_blk tasks fu tn i ss = Ok xs -> forallb frag xs = true -> need_l xs <= g ->
        i + List.length ss = n ->
        forall prev acc ns, (i = 0 -> prev = first) ->
          gs_go tasks g a tn [] n first last false i ss prev acc ns
          = pg_block_go pg_stmt a n last i xs prev acc ns.
  Proof.
    intros fu HP g a tn n first last. induction ss as [|s r IH]; intros i xs H Hf Hn Hlen prev acc ns Hprev;
      cbn [ucall_blk] in H.
    - inversion H; subst. reflexivity.
    - apply rbind_ok_inv in H. destruct H as (x & Hx & H). apply rbind_ok_inv in H. destruct H as (xs' & Hxs & H).
      inversion H; subst xs. clear H. cbn [forallb] in Hf. apply andb_prop in Hf. destruct Hf as [Hfx Hfxs].
      rewrite need_l_cons in Hn. cbn [gs_go pg_block_go]. apply nbind_ext. intros cur s1.
      assert (Epr : (if Nat.ltb 1 n then prev else first) = prev).
      { destruct (Nat.ltb_spec 1 n); [reflexivity|]. cbn [List.length] in Hlen. symmetry. apply Hprev. lia. }
      cbv zeta. rewrite Epr. cbn [app].
      unfold nbind. rewrite (HP tn [i] s x Hx Hfx g a prev cur s1) by lia.
      destruct (pg_stmt a x prev cur s1) as [[ex s2]| | |]; try reflexivity.
      apply IH; try assumption; try lia. cbn [List.length] in Hlen. lia.
  Qed.

  Lemma A_call : forall fu, P_stmt fu -> P_call fu.
  Proof.
    intros fu HP tn pth c x H Hf g ctx t1 t2 ns Hg. unfold udo_call in H.
    destruct (find_task (c_name c) tasks) as [t|] eqn:Ft; [|discriminate H].
    apply rbind_ok_inv in H. destruct H as (body & Hb & H). inversion H; subst x. clear H.
    pose proof (frag_call _ _ _ _ Hf) as [_ Hfb].
    assert (Hfa : forallb frag body = true) by (destruct body; [discriminate Hfb|exact Hfb]).
    cbn [need] in Hg. fold (need_l body) in Hg.
    destruct g as [|[|g2]]; try lia.
    rewrite generate_task_call_S, Ft. cbn [pg_stmt].
    apply nbind_ext. intros u s1. apply nbind_ext. intros a s2. apply nbind_ext. intros _ s3.
    rewrite generate_statements_S. rewrite <- (ucall_blk_length _ _ _ _ _ Hb).
    assert (Hl : 0 + List.length (t_body t) = List.length body).
    { rewrite (ucall_blk_length _ _ _ _ _ Hb). reflexivity. }
    unfold nbind.
    rewrite (A_blk fu HP g2 a (t_name t) (List.length body) t1 t2 (t_body t) 0 body Hb Hfa ltac:(lia) Hl t1 [] s3 (fun _ => eq_refl)).
    reflexivity.
  Qed.

  Lemma A_calls : forall fu, P_call fu ->
      forall g ctx tn path t1 sync cs i xs,
        ucalls tasks fu tn path i cs = Ok xs -> frag_brs xs = true -> need_l xs <= S g ->
        forall ns, gp_calls tasks g ctx tn path t1 sync false i cs ns = pg_calls pg_stmt ctx t1 sync xs ns.
  Proof.
    intros fu HP g ctx tn path t1 sync. induction cs as [|c r IH]; intros i xs H Hf Hn ns; cbn [ucalls] in H.
    - inversion H; subst. reflexivity.
    - apply rbind_ok_inv in H. destruct H as (x & Hx & H). apply rbind_ok_inv in H. destruct H as (xs' & Hxs & H).
      inversion H; subst xs. clear H. apply frag_brs_cons in Hf. destruct Hf as (_ & Hfx & Hfxs).
      rewrite need_l_cons in Hn. cbn [gp_calls pg_calls]. unfold nbind.
      rewrite (HP tn (path ++ [i]) c x Hx Hfx g ctx t1 sync ns) by lia.
      destruct (pg_stmt ctx x t1 sync ns) as [[ex s2]| | |]; try reflexivity.
      apply IH; try assumption. lia.
  Qed.

  Theorem A_stmt : forall fu, P_stmt fu.
  Proof.
    induction fu as [|fu IH]; [intros tn path s x H; discriminate H|].
    pose proof (A_call fu IH) as HC.
    intros tn path s x H Hf g ctx t1 t2 ns Hg.
    destruct (unfold_frag_shape _ _ _ _ _ _ H Hf) as [(n & ins & o & ->)|[(c & ->)|(cs & ->)]].
    - rewrite unfold_stmt_S_service in H. inversion H; subst x. cbn [need] in Hg.
      destruct g as [|g']; [lia|]. rewrite generate_stmt_S_service. reflexivity.
    - rewrite unfold_stmt_S_call in H.
      assert (1 <= need x) by (destruct x; try discriminate Hf; cbn [need]; lia).
      destruct g as [|g']; [lia|]. rewrite generate_stmt_S_call. apply (HC tn path c x H Hf). lia.
    - rewrite unfold_stmt_S_par in H. apply rbind_ok_inv in H. destruct H as (bs & Hbs & H). inversion H; subst x. clear H.
      cbn [need] in Hg. fold (need_l bs) in Hg. destruct g as [|g']; [lia|].
      rewrite generate_stmt_S_par. cbn [pg_stmt].
      apply nbind_ext. intros sync s1. apply nbind_ext. intros pfin s2.
      unfold nbind. rewrite (A_calls fu HC g' ctx tn path t1 sync cs 0 bs Hbs (proj2 (frag_par _ Hf)) ltac:(lia)).
      reflexivity.
  Qed.
End WalkEq.

(* =========================================================================== *)
(* the whole net                                                                *)
(* =========================================================================== *)
Definition p0 : pos := mkpos 2 2 1.
Definition root_api : api :=
  {| a_is_task := true; a_name := production_task; a_site := root_site; a_uuid := ITest 0; a_ctx := None;
     a_in_loop := false; a_params := []; a_src := []; a_has_call := false |}.

(* the net generate_petri_net builds for a production task whose unfolding is [body]:
   place 0 = started, place 1 = finished, transition 0 enters the body and announces the
   production task, transition 1 leaves it; the body occupies the counters from (2, 2, 1) *)
Record NetOf (body : list xstmt) (N : NS) : Prop := {
  no_places : ns_places N = repeat (Some 0) (2 + nplaces_l body);
  no_ntrans : List.length (ns_trans N) = 2 + ntrans_b body;
  no_ncbs : List.length (ns_cbs N) = 2 + ntrans_b body;
  no_napis : List.length (ns_apis N) = 1 + napis_l body;
  no_c1 : preN N 0 = [0] /\ postN N 0 = entries_b body p0 /\ cbsN N 0 = CbTS 0 :: startcbs_b body p0;
  no_c2 : preN N 1 = [xplace_b body p0] /\ postN N 1 = [1] /\ cbsN N 1 = [CbTF 0];
  no_root : nth_error (ns_apis N) 0 = Some root_api;
  no_body : wired_block (wired N) N 0 [] body p0;
  no_dict : Forall (fun kv => exists k, fst kv = IUuid k) (ns_place_dict N);
  no_start : ns_start_place N = 0;
  no_final : ns_final_place N = 1;
  no_sched : ns_test_ids N = true /\ ns_awaited N = [EvStart] /\ ns_running N = false /\ ns_counters N = [] /\
             ns_tid N = 0 /\ ns_sid N = 0 /\ ns_ls N = default_listeners /\ ns_obs N = [] /\ ns_log N = [] /\
             ns_q N = 0 /\ ns_nss N = 0 /\ ns_nnot N = 0 /\ ns_pending N = []
}.

Definition op_sf (a b : nat) (s : NS) : NS := s <| ns_start_place := a |> <| ns_final_place := b |>.

Lemma test_ids_op_fresh : forall s, ns_test_ids (op_fresh s) = ns_test_ids s.
Proof. Transparent op_fresh. reflexivity. Qed.
Global Opaque op_fresh.

Lemma op_api_fresh : forall a s, op_api a s = op_api a s. Proof. reflexivity. Qed.

(* the operations before the body is generated *)
Definition ns_pre : NS :=
  op_trans (op_place (op_in 0 0 (op_cb 0 (CbTS 0) (op_trans (op_place (op_api root_api (ns0 true))))))).

Lemma generate_petri_net_eq : forall tasks g t,
    find_task production_task tasks = Some t ->
    generate_petri_net tasks g (ns0 true) =
    match generate_statements tasks g 0 production_task [] (t_body t) 0 1 false ns_pre with
    | Ok (_, s2) => Ok (tt, op_sf 0 1 (op_cb 1 (CbTF 0) (op_out 1 1 s2)))
    | Fuel => Fuel | Exn k => Exn k | Unsupported => Unsupported
    end.
Proof.
  intros tasks g t Ft. unfold generate_petri_net. rewrite Ft.
  rewrite nbind_fresh. unfold nbind at 1. unfold nget at 1. rewrite test_ids_op_fresh.
  change (ns_test_ids (ns0 true)) with true. cbv iota.
  rewrite nbind_new_api.
  rewrite (nbind_ok _ _ _ _ _ _ _ (create_place_eq _)).
  rewrite (nbind_ok _ _ _ _ _ _ _ (create_transition_eq _)).
  rewrite (nbind_ok _ _ _ _ _ _ _ (add_callback_eq _ _ _)).
  rewrite (nbind_ok _ _ _ _ _ _ _ (add_input_eq _ _ _)).
  rewrite (nbind_ok _ _ _ _ _ _ _ (create_place_eq _)).
  rewrite (nbind_ok _ _ _ _ _ _ _ (create_transition_eq _)).
  autorewrite with netops. cbn [ns_apis ns_places ns_trans ns0 List.length app].
  unfold nbind at 1. fold root_api. fold ns_pre.
  destruct (generate_statements tasks g 0 production_task [] (t_body t) 0 1 false ns_pre) as [[ex s2]| | |]; reflexivity.
Qed.

Lemma ns_pre_facts :
  pos_of ns_pre = p0 /\ okns ns_pre /\
  preN ns_pre 0 = [0] /\ postN ns_pre 0 = [] /\ cbsN ns_pre 0 = [CbTS 0] /\
  preN ns_pre 1 = [] /\ postN ns_pre 1 = [] /\ cbsN ns_pre 1 = [] /\
  nth_error (ns_apis ns_pre) 0 = Some root_api /\ ns_place_dict ns_pre = [] /\
  rest_of ns_pre = rest_of (ns0 true) /\ List.length (ns_trans ns_pre) = 2.
Proof.
  unfold ns_pre, pos_of, okns. autorewrite with netops.
  cbn [ns0 ns_places ns_trans ns_cbs ns_apis ns_fresh ns_place_dict app List.length].
  assert (P : forall j, preN (ns0 true) j = []) by (intros [|j]; reflexivity).
  assert (Q : forall j, postN (ns0 true) j = []) by (intros [|j]; reflexivity).
  assert (C : forall j, cbsN (ns0 true) j = []) by (intros [|j]; reflexivity).
  rewrite !P, !Q, !C. cbn. repeat split; reflexivity.
Qed.

Lemma agree_op_sf : forall a b N p dt da e, agree N (op_sf a b N) p dt da e [].
Proof.
  intros. split; [|split].
  - intros j _. split; [reflexivity|]. split; [reflexivity|].
    change (cbsN (op_sf a b N) j) with (cbsN N j). destruct (Nat.eqb e j); rewrite app_nil_r; reflexivity.
  - intros j _. reflexivity.
  - exists []. split; [reflexivity|constructor].
Qed.

Lemma repeat_snoc2 : forall n, [Some 0; Some 0] ++ repeat (Some 0) n = repeat (@Some nat 0) (2 + n).
Proof. reflexivity. Qed.

Lemma rest_of_inj : forall s s', rest_of s = rest_of s' ->
    ns_start_place s = ns_start_place s' /\ ns_final_place s = ns_final_place s' /\
    ns_test_ids s = ns_test_ids s' /\ ns_awaited s = ns_awaited s' /\ ns_running s = ns_running s' /\
    ns_counters s = ns_counters s' /\ ns_tid s = ns_tid s' /\ ns_sid s = ns_sid s' /\ ns_ls s = ns_ls s' /\
    ns_obs s = ns_obs s' /\ ns_log s = ns_log s' /\ ns_q s = ns_q s' /\ ns_nss s = ns_nss s' /\
    ns_nnot s = ns_nnot s' /\ ns_pending s = ns_pending s'.
Proof.
  intros s s' H. unfold rest_of in H.
  injection H as H1 H2 H3 H4 H5 H6 H7 H8 H9 H10 H11 H12 H13 H14 H15. repeat split; assumption.
Qed.

Theorem net_init_spec : forall tasks fu body,
    unfold_program tasks fu = Ok body -> frag_block body = true -> need_l body < 200 ->
    exists N, net_init tasks true = Ok N /\ NetOf body N.
Proof.
  intros tasks fu body Hu Hf Hneed. rewrite unfold_program_eq in Hu.
  destruct (find_task production_task tasks) as [t|] eqn:Ft; [|discriminate Hu].
  destruct ns_pre_facts as (Ppre & Okpre & A1 & A2 & A3 & B1 & B2 & B3 & Hroot & Hdict & Hrest & Hlen).
  assert (Hfa : forallb frag body = true) by (destruct body; [discriminate Hf|exact Hf]).
  assert (Hl : 0 + List.length (t_body t) = List.length body).
  { rewrite (ucall_blk_length _ _ _ _ _ _ Hu). reflexivity. }
  destruct (gen_block body Hf 0 0 1 ns_pre Okpre ltac:(lia) ltac:(lia)) as (ns2 & E2 & G2 & P2 & Ok2 & W2).
  rewrite Ppre in E2, G2, P2, W2.
  unfold net_init. rewrite (generate_petri_net_eq tasks 200 t Ft).
  change 200 with (S 199) at 1. rewrite generate_statements_S.
  rewrite <- (ucall_blk_length _ _ _ _ _ _ Hu).
  rewrite (A_blk tasks fu (A_stmt tasks fu) 199 0 production_task (List.length body) 0 1 (t_body t) 0 body Hu Hfa
                 ltac:(lia) Hl 0 [] ns_pre (fun _ => eq_refl)).
  fold (pg_block 0 body 0 1). rewrite E2.
  set (N := op_sf 0 1 (op_cb 1 (CbTF 0) (op_out 1 1 ns2))).
  exists N. split; [reflexivity|].
  unfold Gen in G2.
  assert (L2 : List.length (ns_trans ns2) = 2 + ntrans_b body).
  { pose proof (f_equal pt P2) as E. unfold pos_of, adv_b, p0 in E. cbn [pt] in E. exact E. }
  assert (L2c : List.length (ns_cbs ns2) = 2 + ntrans_b body) by (destruct Ok2 as [Hc _]; rewrite Hc; exact L2).
  assert (G23 : GenF ns2 (op_cb 1 (CbTF 0) (op_out 1 1 ns2))
                     (fun j => [] ++ []) (fun j => (if Nat.eqb j 1 then [1] else []) ++ [])
                     (fun j => [] ++ (if Nat.eqb j 1 then [CbTF 0] else []))).
  { eapply GenF_trans; [apply GenF_op_out|apply GenF_op_cb]. autorewrite with netops. destruct Ok2 as [Hc _]. exact Hc. }
  assert (G13 := GenF_trans _ _ _ _ _ _ _ _ _ G2 G23).
  constructor.
  - change (ns_places N) with (ns_places (op_cb 1 (CbTF 0) (op_out 1 1 ns2))). autorewrite with netops.
    rewrite (gn_places _ _ _ _ _ G2).
    pose proof (f_equal pp Ppre) as Epp. unfold pos_of, p0 in Epp. cbn [pp] in Epp.
    pose proof (f_equal pp P2) as Epp2. unfold pos_of, adv_b, p0 in Epp2. cbn [pp] in Epp2.
    rewrite Epp, Epp2.
    assert (Hp : ns_places ns_pre = [Some 0; Some 0]).
    { unfold ns_pre. autorewrite with netops. reflexivity. }
    rewrite Hp. replace (2 + nplaces_l body - 2) with (nplaces_l body) by lia. reflexivity.
  - change (ns_trans N) with (ns_trans (op_cb 1 (CbTF 0) (op_out 1 1 ns2))). autorewrite with netops. exact L2.
  - change (ns_cbs N) with (ns_cbs (op_cb 1 (CbTF 0) (op_out 1 1 ns2))). autorewrite with netops. exact L2c.
  - change (ns_apis N) with (ns_apis (op_cb 1 (CbTF 0) (op_out 1 1 ns2))). autorewrite with netops.
    pose proof (f_equal pa P2) as E. unfold pos_of, adv_b, p0 in E. cbn [pa] in E. exact E.
  - change (preN N 0) with (preN (op_cb 1 (CbTF 0) (op_out 1 1 ns2)) 0).
    change (postN N 0) with (postN (op_cb 1 (CbTF 0) (op_out 1 1 ns2)) 0).
    change (cbsN N 0) with (cbsN (op_cb 1 (CbTF 0) (op_out 1 1 ns2)) 0).
    rewrite (gn_pre _ _ _ _ _ G13 0), (gn_post _ _ _ _ _ G13 0), (gn_cbs _ _ _ _ _ G13 0) by lia.
    rewrite A1, A2, A3. cbn [Nat.eqb app]. rewrite !app_nil_r. auto.
  - change (preN N 1) with (preN (op_cb 1 (CbTF 0) (op_out 1 1 ns2)) 1).
    change (postN N 1) with (postN (op_cb 1 (CbTF 0) (op_out 1 1 ns2)) 1).
    change (cbsN N 1) with (cbsN (op_cb 1 (CbTF 0) (op_out 1 1 ns2)) 1).
    rewrite (gn_pre _ _ _ _ _ G13 1), (gn_post _ _ _ _ _ G13 1), (gn_cbs _ _ _ _ _ G13 1) by lia.
    rewrite B1, B2, B3. cbn [Nat.eqb app]. rewrite ?app_nil_r. auto.
  - change (ns_apis N) with (ns_apis (op_cb 1 (CbTF 0) (op_out 1 1 ns2))). autorewrite with netops.
    rewrite (gn_apis _ _ _ _ _ G2).
    + exact Hroot.
    + pose proof (f_equal pa Ppre) as E. unfold pos_of, p0 in E. cbn [pa] in E. lia.
  - pose proof (exit_range_b body Hf p0) as Hex. cbn [p0 pt] in Hex.
    pose proof (wired_block_agree (op_cb 1 (CbTF 0) (op_out 1 1 ns2)) N 0 [] body Hf p0 0 []) as HxN.
    rewrite app_nil_l in HxN. replace (if Nat.eqb 0 (exit_b body p0) then [] else []) with (@nil cb) in HxN
      by (destruct (Nat.eqb 0 (exit_b body p0)); reflexivity).
    apply HxN; [apply agree_op_sf|left; left; cbn [p0 pt]; lia|].
    pose proof (wired_block_agree ns2 (op_cb 1 (CbTF 0) (op_out 1 1 ns2)) 0 [] body Hf p0 0 []) as Hx.
    rewrite app_nil_l in Hx. replace (if Nat.eqb 0 (exit_b body p0) then [] else []) with (@nil cb) in Hx
      by (destruct (Nat.eqb 0 (exit_b body p0)); reflexivity).
    apply Hx; [|left; left; cbn [p0 pt]; lia|exact W2].
    eapply GenF_agree; [exact G23| | |].
    + intros j Hj. cbn [p0 pt] in Hj. assert (E1 : Nat.eqb j 1 = false) by (apply Nat.eqb_neq; lia).
      cbn beta. rewrite E1. auto.
    + cbn [p0 pt]. lia.
    + pose proof (f_equal pa P2) as E. unfold pos_of, adv_b, p0 in E. cbn [pa] in E. cbn [p0 pa]. lia.
  - change (ns_place_dict N) with (ns_place_dict (op_cb 1 (CbTF 0) (op_out 1 1 ns2))). autorewrite with netops.
    destruct (gn_dict _ _ _ _ _ G2) as (d & Hd & Hk). rewrite Hd, Hdict, app_nil_r.
    eapply Forall_impl; [|exact Hk]. intros kv (k & E & _). exists k. exact E.
  - reflexivity.
  - reflexivity.
  - assert (R : rest_of (op_cb 1 (CbTF 0) (op_out 1 1 ns2)) = rest_of (ns0 true)).
    { autorewrite with netops. rewrite (gn_rest _ _ _ _ _ G2). exact Hrest. }
    apply rest_of_inj in R.
    destruct R as (_ & _ & R3 & R4 & R5 & R6 & R7 & R8 & R9 & R10 & R11 & R12 & R13 & R14 & R15).
    repeat match goal with |- context [?f N] => change (f N) with (f (op_cb 1 (CbTF 0) (op_out 1 1 ns2))) end.
    rewrite R3, R4, R5, R6, R7, R8, R9, R10, R11, R12, R13, R14, R15. repeat split; reflexivity.
Qed.
