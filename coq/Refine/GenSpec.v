(* Refine/GenSpec.v — the generator of NetModel.v, characterised: (A) on a program whose
   unfolding lies in the fragment it performs exactly the structural walk [pg_stmt] over the
   unfolded tree; (B) that walk creates the places, transitions, arcs, callbacks, API records
   and place_dict entries that Layout.v computes, and nothing else.  Proof file. *)
From PFDL Require Import NetModel.
From PFDL.Refine Require Import Eval Layout.
From Coq Require Import Lia.
Local Open Scope net_scope.

(* ---- the walk over the unfolded tree (same primitive operations, same order) ---- *)
Definition pg_block_go (pg : nat -> xstmt -> nat -> nat -> NetModel.N (list nat)) (ctx : nat) (n last : nat)
  : nat -> list xstmt -> nat -> list nat -> NetModel.N (list nat) :=
  fix go (i : nat) (l : list xstmt) (prev : nat) (acc : list nat) : NetModel.N (list nat) :=
    match l with
    | [] => nret acc
    | s :: r =>
      cur <~ (if Nat.ltb 1 n
              then (if Nat.ltb i (n - 1) then create_transition else nret last)
              else nret last) ;;
      ex <~ pg ctx s prev cur ;;
      go (S i) r cur ex
    end.

Definition pg_calls (pg : nat -> xstmt -> nat -> nat -> NetModel.N (list nat)) (ctx t1 sync : nat)
  : list xstmt -> NetModel.N unit :=
  fix calls (l : list xstmt) : NetModel.N unit :=
    match l with
    | [] => nret tt
    | b :: r => pg ctx b t1 sync ;;~ calls r
    end.

Fixpoint pg_stmt (ctx : nat) (s : xstmt) (t1 t2 : nat) {struct s} : NetModel.N (list nat) :=
  match s with
  | XService n at_ ins => generate_service n ins at_ ctx t1 t2 false
  | XCall t at_ ins body =>
    u <~ fresh_uuid ;;
    a <~ new_api {| a_is_task := true; a_name := t; a_site := at_; a_uuid := u; a_ctx := Some ctx;
                    a_in_loop := false; a_params := ins; a_src := ins; a_has_call := true |} ;;
    add_callback t1 (CbTS a) ;;~
    ex <~ pg_block_go pg_stmt a (List.length body) t2 0 body t1 [] ;;
    nfor ex (fun e => add_callback e (CbTF a)) ;;~
    nret ex
  | XParallel bs =>
    sync <~ create_transition ;;
    pfin <~ create_place ;;
    pg_calls pg_stmt ctx t1 sync bs ;;~
    add_output pfin sync ;;~
    add_input pfin t2 ;;~
    nret [sync]
  | _ => nfail Unsupported
  end.

Definition pg_block (ctx : nat) (body : list xstmt) (first last : nat) : NetModel.N (list nat) :=
  pg_block_go pg_stmt ctx (List.length body) last 0 body first [].

(* ---- the primitive operations as state transformers ---- *)
Definition op_place (s : NS) : NS := s <| ns_places := ns_places s ++ [Some 0] |>.
Definition op_trans (s : NS) : NS :=
  s <| ns_trans := ns_trans s ++ [tr0] |> <| ns_cbs := ns_cbs s ++ [[]] |>.
Definition op_in (p t : nat) (s : NS) : NS :=
  s <| ns_trans := upd t (fun x => {| tr_pre := tr_pre x ++ [p]; tr_post := tr_post x |}) (ns_trans s) |>.
Definition op_out (p t : nat) (s : NS) : NS :=
  s <| ns_trans := upd t (fun x => {| tr_pre := tr_pre x; tr_post := tr_post x ++ [p] |}) (ns_trans s) |>.
Definition op_cb (t : nat) (c : cb) (s : NS) : NS :=
  s <| ns_cbs := upd t (fun l => l ++ [c]) (ns_cbs s) |>.
Definition op_api (a : api) (s : NS) : NS :=
  s <| ns_fresh := S (ns_fresh s) |> <| ns_apis := ns_apis s ++ [a] |>.
Definition op_dict (u : ident) (p : nat) (s : NS) : NS :=
  s <| ns_place_dict := (u, p) :: ns_place_dict s |>.

Lemma create_place_eq : forall s, create_place s = Ok (List.length (ns_places s), op_place s).
Proof. reflexivity. Qed.
Lemma create_transition_eq : forall s, create_transition s = Ok (List.length (ns_trans s), op_trans s).
Proof. reflexivity. Qed.
Lemma add_input_eq : forall p t s, add_input p t s = Ok (tt, op_in p t s).
Proof. reflexivity. Qed.
Lemma add_output_eq : forall p t s, add_output p t s = Ok (tt, op_out p t s).
Proof. reflexivity. Qed.
Lemma add_callback_eq : forall t c s, add_callback t c s = Ok (tt, op_cb t c s).
Proof. reflexivity. Qed.

(* the part of the state the generator never touches *)
Definition rest_of (s : NS) :=
  (ns_start_place s, ns_final_place s, ns_test_ids s, ns_awaited s, ns_running s, ns_counters s,
   (ns_tid s, ns_sid s, ns_ls s, ns_obs s, ns_log s, ns_q s, ns_nss s, ns_nnot s, ns_pending s)).

(* ---- nth through upd / app ---- *)
Lemma nth_upd : forall A (f : A -> A) (l : list A) i j d,
    nth j (upd i f l) d = if Nat.eqb j i && Nat.ltb i (List.length l) then f (nth j l d) else nth j l d.
Proof.
  intros A f l. induction l as [|x l IH]; intros [|i] [|j] d; cbn [upd nth List.length]; try reflexivity.
  - rewrite andb_false_r. reflexivity.
  - rewrite IH. cbn [Nat.eqb]. replace (Nat.ltb (S i) (S (List.length l))) with (Nat.ltb i (List.length l)); [reflexivity|].
    destruct (Nat.ltb_spec i (List.length l)), (Nat.ltb_spec (S i) (S (List.length l))); try reflexivity; lia.
Qed.

Lemma nth_snoc_default : forall A (l : list A) j d, nth j (l ++ [d]) d = nth j l d.
Proof.
  intros A l. induction l as [|x l IH]; intros [|j] d; cbn; auto. destruct j; reflexivity.
Qed.

(* ---- what each operation does to what one can read off a net ---- *)
Section Ops.
  Variables (p t : nat) (c : cb) (a : api) (u : ident) (s : NS).

  Lemma pre_op_place j : preN (op_place s) j = preN s j. Proof. reflexivity. Qed.
  Lemma post_op_place j : postN (op_place s) j = postN s j. Proof. reflexivity. Qed.
  Lemma cbs_op_place j : cbsN (op_place s) j = cbsN s j. Proof. reflexivity. Qed.
  Lemma pre_op_trans j : preN (op_trans s) j = preN s j.
  Proof. unfold preN, op_trans. cbn [ns_trans set]. change (ns_trans (s <| ns_trans := ns_trans s ++ [tr0] |> <| ns_cbs := ns_cbs s ++ [[]] |>)) with (ns_trans s ++ [tr0]). rewrite nth_snoc_default. reflexivity. Qed.
  Lemma post_op_trans j : postN (op_trans s) j = postN s j.
  Proof. unfold postN, op_trans. change (ns_trans (s <| ns_trans := ns_trans s ++ [tr0] |> <| ns_cbs := ns_cbs s ++ [[]] |>)) with (ns_trans s ++ [tr0]). rewrite nth_snoc_default. reflexivity. Qed.
  Lemma cbs_op_trans j : cbsN (op_trans s) j = cbsN s j.
  Proof. unfold cbsN, op_trans. change (ns_cbs (s <| ns_trans := ns_trans s ++ [tr0] |> <| ns_cbs := ns_cbs s ++ [[]] |>)) with (ns_cbs s ++ [[]]). apply nth_snoc_default. Qed.
  Lemma pre_op_in j : preN (op_in p t s) j =
                      preN s j ++ (if Nat.eqb j t && Nat.ltb t (List.length (ns_trans s)) then [p] else []).
  Proof.
    unfold preN, op_in. change (ns_trans (s <| ns_trans := ?l |>)) with l. cbn [ns_trans set].
    match goal with |- context [nth j (upd t ?f ?l) tr0] => rewrite (nth_upd _ f l t j tr0) end.
    destruct (Nat.eqb j t && Nat.ltb t (List.length (ns_trans s))); [reflexivity|rewrite app_nil_r; reflexivity].
  Qed.
  Lemma post_op_in j : postN (op_in p t s) j = postN s j.
  Proof.
    unfold postN, op_in. cbn [ns_trans set].
    match goal with |- context [nth j (upd t ?f ?l) tr0] => rewrite (nth_upd _ f l t j tr0) end.
    destruct (Nat.eqb j t && Nat.ltb t (List.length (ns_trans s))); reflexivity.
  Qed.
  Lemma cbs_op_in j : cbsN (op_in p t s) j = cbsN s j. Proof. reflexivity. Qed.
  Lemma pre_op_out j : preN (op_out p t s) j = preN s j.
  Proof.
    unfold preN, op_out. cbn [ns_trans set].
    match goal with |- context [nth j (upd t ?f ?l) tr0] => rewrite (nth_upd _ f l t j tr0) end.
    destruct (Nat.eqb j t && Nat.ltb t (List.length (ns_trans s))); reflexivity.
  Qed.
  Lemma post_op_out j : postN (op_out p t s) j =
                        postN s j ++ (if Nat.eqb j t && Nat.ltb t (List.length (ns_trans s)) then [p] else []).
  Proof.
    unfold postN, op_out. cbn [ns_trans set].
    match goal with |- context [nth j (upd t ?f ?l) tr0] => rewrite (nth_upd _ f l t j tr0) end.
    destruct (Nat.eqb j t && Nat.ltb t (List.length (ns_trans s))); [reflexivity|rewrite app_nil_r; reflexivity].
  Qed.
  Lemma cbs_op_out j : cbsN (op_out p t s) j = cbsN s j. Proof. reflexivity. Qed.
  Lemma pre_op_cb j : preN (op_cb t c s) j = preN s j. Proof. reflexivity. Qed.
  Lemma post_op_cb j : postN (op_cb t c s) j = postN s j. Proof. reflexivity. Qed.
  Lemma cbs_op_cb j : cbsN (op_cb t c s) j =
                      cbsN s j ++ (if Nat.eqb j t && Nat.ltb t (List.length (ns_cbs s)) then [c] else []).
  Proof.
    unfold cbsN, op_cb. cbn [ns_cbs set].
    match goal with |- context [nth j (upd t ?f ?l) []] => rewrite (nth_upd _ f l t j []) end.
    destruct (Nat.eqb j t && Nat.ltb t (List.length (ns_cbs s))); [reflexivity|rewrite app_nil_r; reflexivity].
  Qed.
  Lemma pre_op_api j : preN (op_api a s) j = preN s j. Proof. reflexivity. Qed.
  Lemma post_op_api j : postN (op_api a s) j = postN s j. Proof. reflexivity. Qed.
  Lemma cbs_op_api j : cbsN (op_api a s) j = cbsN s j. Proof. reflexivity. Qed.
  Lemma pre_op_dict j : preN (op_dict u p s) j = preN s j. Proof. reflexivity. Qed.
  Lemma post_op_dict j : postN (op_dict u p s) j = postN s j. Proof. reflexivity. Qed.
  Lemma cbs_op_dict j : cbsN (op_dict u p s) j = cbsN s j. Proof. reflexivity. Qed.

  Lemma ntr_op_place : List.length (ns_trans (op_place s)) = List.length (ns_trans s). Proof. reflexivity. Qed.
  Lemma ntr_op_trans : List.length (ns_trans (op_trans s)) = S (List.length (ns_trans s)).
  Proof. unfold op_trans. change (ns_trans (s <| ns_trans := ns_trans s ++ [tr0] |> <| ns_cbs := ns_cbs s ++ [[]] |>)) with (ns_trans s ++ [tr0]). rewrite app_length. cbn. lia. Qed.
  Lemma ntr_op_in : List.length (ns_trans (op_in p t s)) = List.length (ns_trans s).
  Proof. unfold op_in. cbn [ns_trans set]. apply upd_length. Qed.
  Lemma ntr_op_out : List.length (ns_trans (op_out p t s)) = List.length (ns_trans s).
  Proof. unfold op_out. cbn [ns_trans set]. apply upd_length. Qed.
  Lemma ntr_op_cb : List.length (ns_trans (op_cb t c s)) = List.length (ns_trans s). Proof. reflexivity. Qed.
  Lemma ntr_op_api : List.length (ns_trans (op_api a s)) = List.length (ns_trans s). Proof. reflexivity. Qed.
  Lemma ntr_op_dict : List.length (ns_trans (op_dict u p s)) = List.length (ns_trans s). Proof. reflexivity. Qed.

  Lemma ncb_op_place : List.length (ns_cbs (op_place s)) = List.length (ns_cbs s). Proof. reflexivity. Qed.
  Lemma ncb_op_trans : List.length (ns_cbs (op_trans s)) = S (List.length (ns_cbs s)).
  Proof. unfold op_trans. cbn [ns_cbs set]. rewrite app_length. cbn. lia. Qed.
  Lemma ncb_op_in : List.length (ns_cbs (op_in p t s)) = List.length (ns_cbs s). Proof. reflexivity. Qed.
  Lemma ncb_op_out : List.length (ns_cbs (op_out p t s)) = List.length (ns_cbs s). Proof. reflexivity. Qed.
  Lemma ncb_op_cb : List.length (ns_cbs (op_cb t c s)) = List.length (ns_cbs s).
  Proof. unfold op_cb. cbn [ns_cbs set]. apply upd_length. Qed.
  Lemma ncb_op_api : List.length (ns_cbs (op_api a s)) = List.length (ns_cbs s). Proof. reflexivity. Qed.
  Lemma ncb_op_dict : List.length (ns_cbs (op_dict u p s)) = List.length (ns_cbs s). Proof. reflexivity. Qed.
End Ops.
