(* Refine/GenSpec.v — the generator of NetModel.v, characterised: (A) on a program whose
   unfolding lies in the fragment it performs exactly the structural walk [pg_stmt] over the
   unfolded tree; (B) that walk creates the places, transitions, arcs, callbacks, API records
   and place_dict entries that Layout.v computes, and nothing else.  Proof file. *)
From PFDL Require Import NetModel.
From PFDL.Refine Require Import Eval Layout.
From Coq Require Import Lia.
Local Open Scope net_scope.

(* ---- the walk over the unfolded tree (same primitive operations, same order) ---- *)
Definition pg_block_go (il : bool) (pg : sinfo -> nat -> xstmt -> nat -> nat -> NetModel.N (list nat)) (tn : name) (pre : list nat)
           (ctx : nat) (n last : nat)
  : nat -> list xstmt -> nat -> list nat -> NetModel.N (list nat) :=
  fix go (i : nat) (l : list xstmt) (prev : nat) (acc : list nat) : NetModel.N (list nat) :=
    match l with
    | [] => nret acc
    | s :: r =>
      cur <~ (if Nat.ltb 1 n
              then (if Nat.ltb i (n - 1) then create_transition else nret last)
              else nret last) ;;
      ex <~ pg (mksi tn pre i il) ctx s prev cur ;;
      go (S i) r cur ex
    end.

Definition pg_calls (il : bool) (pg : sinfo -> nat -> xstmt -> nat -> nat -> NetModel.N (list nat)) (tn : name) (pre : list nat)
           (ctx t1 sync : nat)
  : nat -> list xstmt -> NetModel.N unit :=
  fix calls (i : nat) (l : list xstmt) : NetModel.N unit :=
    match l with
    | [] => nret tt
    | b :: r => pg (mksi tn pre i il) ctx b t1 sync ;;~ calls (S i) r
    end.

Fixpoint pg_stmt (il : bool) (k : sinfo) (ctx : nat) (s : xstmt) (t1 t2 : nat) {struct s} : NetModel.N (list nat) :=
  match s with
  | XService n at_ ins => generate_service n ins at_ ctx t1 t2 il
  | XCall t at_ ins body =>
    u <~ fresh_uuid ;;
    a <~ new_api {| a_is_task := true; a_name := t; a_site := at_; a_uuid := u; a_ctx := Some ctx;
                    a_in_loop := il; a_params := ins; a_src := ins; a_has_call := true |} ;;
    add_callback t1 (CbTS a) ;;~
    ex <~ pg_block_go il (pg_stmt il) t [] a (List.length body) t2 0 body t1 [] ;;
    nfor ex (fun e => add_callback e (CbTF a)) ;;~
    nret ex
  | XParallel bs =>
    sync <~ create_transition ;;
    pfin <~ create_place ;;
    pg_calls il (pg_stmt il) (s_tn k) (s_path k) ctx t1 sync 0 bs ;;~
    add_output pfin sync ;;~
    add_input pfin t2 ;;~
    nret [sync]
  | XCond e P F =>
    passed <~ create_place ;;
    failed <~ create_place ;;
    expr_p <~ create_place ;;
    fp <~ create_transition ;;
    ff <~ create_transition ;;
    add_input expr_p fp ;;~
    add_input expr_p ff ;;~
    add_input passed fp ;;~
    add_input failed ff ;;~
    cfin <~ create_place ;;
    sp <~ create_transition ;;
    add_output cfin sp ;;~
    pg_block_go il (pg_stmt il) (s_tn k) (s_path k ++ [0]) ctx (List.length P) sp 0 P fp [] ;;~
    add_output expr_p t1 ;;~
    add_input cfin t2 ;;~
    add_callback t1 (CbCond e passed failed ctx) ;;~
    match F with
    | [] => add_output cfin ff ;;~ nret [sp; ff]
    | _ :: _ =>
      sf <~ create_transition ;;
      pg_block_go il (pg_stmt il) (s_tn k) (s_path k ++ [1]) ctx (List.length F) sf 0 F ff [] ;;~
      add_output cfin sf ;;~
      nret [sp; sf]
    end
  | XWhile e B =>
    loop_p <~ create_place ;;
    then_p <~ create_place ;;
    else_p <~ create_place ;;
    cp <~ create_transition ;;
    cf <~ create_transition ;;
    it <~ create_transition ;;
    add_input loop_p cp ;;~
    add_input then_p cp ;;~
    add_input loop_p cf ;;~
    add_input else_p cf ;;~
    add_output loop_p it ;;~
    ldone <~ create_place ;;
    pg_block_go true (pg_stmt true) (s_tn k) (s_path k) ctx (List.length B) it 0 B cp [] ;;~
    add_output loop_p t1 ;;~
    add_input ldone t2 ;;~
    add_callback t1 (CbWhile e then_p else_p ctx) ;;~
    add_callback it (CbWhile e then_p else_p ctx) ;;~
    add_output ldone cf ;;~
    nret [cf]
  | XCount v lim B =>
    loop_p <~ create_place ;;
    then_p <~ create_place ;;
    else_p <~ create_place ;;
    cp <~ create_transition ;;
    cf <~ create_transition ;;
    it <~ create_transition ;;
    add_input loop_p cp ;;~
    add_input then_p cp ;;~
    add_input loop_p cf ;;~
    add_input else_p cf ;;~
    add_output loop_p it ;;~
    ldone <~ create_place ;;
    pg_block_go true (pg_stmt true) (s_tn k) (s_path k) ctx (List.length B) it 0 B cp [] ;;~
    add_output ldone cf ;;~
    add_output loop_p t1 ;;~
    add_input ldone t2 ;;~
    add_callback t1 (CbCount {| st_task := s_tn k; st_path := s_path k |} lim then_p else_p ctx) ;;~
    add_callback it (CbCount {| st_task := s_tn k; st_path := s_path k |} lim then_p else_p ctx) ;;~
    nret [cf]
  | _ => nfail Unsupported
  end.

Definition pg_block (il : bool) (tn : name) (pre : list nat) (ctx : nat) (body : list xstmt) (first last : nat)
  : NetModel.N (list nat) :=
  pg_block_go il (pg_stmt il) tn pre ctx (List.length body) last 0 body first [].

(* ---- the primitive operations as state transformers ---- *)
Definition op_place (s : NS) : NS := s <| ns_places := ns_places s ++ [Some 0] |>.
Definition op_trans (s : NS) : NS :=
  s <| ns_trans := ns_trans s ++ [tr0] |> <| ns_cbs := ns_cbs s ++ [[]] |>.
Definition op_in (p t : nat) (s : NS) : NS :=
  s <| ns_trans := upd t (fun x => {| tr_pre := tr_pre x ++ [p]; tr_post := tr_post x |}) (ns_trans s) |>.
Definition op_out (p t : nat) (s : NS) : NS :=
  s <| ns_trans := upd t (fun x => {| tr_pre := tr_pre x; tr_post := tr_post x ++ [p] |}) (ns_trans s) |>.
Definition op_cb (t : nat) (c : cb) (s : NS) : NS :=
  s <| ns_cbs := upd t (fun l => l ++ [c]) (ns_cbs s) |>.
Definition op_api (a : api) (s : NS) : NS :=
  s <| ns_fresh := S (ns_fresh s) |> <| ns_apis := ns_apis s ++ [a] |>.
Definition op_dict (u : ident) (p : nat) (s : NS) : NS :=
  s <| ns_place_dict := (u, p) :: ns_place_dict s |>.

Lemma create_place_eq : forall s, create_place s = Ok (List.length (ns_places s), op_place s).
Proof. reflexivity. Qed.
Lemma create_transition_eq : forall s, create_transition s = Ok (List.length (ns_trans s), op_trans s).
Proof. reflexivity. Qed.
Lemma add_input_eq : forall p t s, add_input p t s = Ok (tt, op_in p t s).
Proof. reflexivity. Qed.
Lemma add_output_eq : forall p t s, add_output p t s = Ok (tt, op_out p t s).
Proof. reflexivity. Qed.
Lemma add_callback_eq : forall t c s, add_callback t c s = Ok (tt, op_cb t c s).
Proof. reflexivity. Qed.

(* the part of the state the generator never touches *)
Definition rest_of (s : NS) :=
  (ns_start_place s, ns_final_place s, ns_test_ids s, ns_awaited s, ns_running s, ns_counters s,
   (ns_tid s, ns_sid s, ns_ls s, ns_obs s, ns_log s, ns_q s, ns_nss s, ns_nnot s, ns_pending s)).

(* ---- nth through upd / app ---- *)
Lemma nth_upd : forall A (f : A -> A) (l : list A) i j d,
    nth j (upd i f l) d = if Nat.eqb j i && Nat.ltb i (List.length l) then f (nth j l d) else nth j l d.
Proof.
  intros A f l. induction l as [|x l IH]; intros [|i] [|j] d; cbn [upd nth List.length]; try reflexivity.
  - rewrite andb_false_r. reflexivity.
  - rewrite IH. cbn [Nat.eqb]. replace (Nat.ltb (S i) (S (List.length l))) with (Nat.ltb i (List.length l)); [reflexivity|].
    destruct (Nat.ltb_spec i (List.length l)), (Nat.ltb_spec (S i) (S (List.length l))); try reflexivity; lia.
Qed.

Lemma nth_snoc_default : forall A (l : list A) j d, nth j (l ++ [d]) d = nth j l d.
Proof.
  intros A l. induction l as [|x l IH]; intros [|j] d; cbn; auto. destruct j; reflexivity.
Qed.

(* ---- what each operation does to what one can read off a net ---- *)
Section Ops.
  Variables (p t : nat) (c : cb) (a : api) (u : ident) (s : NS).

  Lemma pre_op_place j : preN (op_place s) j = preN s j. Proof. reflexivity. Qed.
  Lemma post_op_place j : postN (op_place s) j = postN s j. Proof. reflexivity. Qed.
  Lemma cbs_op_place j : cbsN (op_place s) j = cbsN s j. Proof. reflexivity. Qed.
  Lemma pre_op_trans j : preN (op_trans s) j = preN s j.
  Proof. unfold preN, op_trans. cbn [ns_trans set]. change (ns_trans (s <| ns_trans := ns_trans s ++ [tr0] |> <| ns_cbs := ns_cbs s ++ [[]] |>)) with (ns_trans s ++ [tr0]). rewrite nth_snoc_default. reflexivity. Qed.
  Lemma post_op_trans j : postN (op_trans s) j = postN s j.
  Proof. unfold postN, op_trans. change (ns_trans (s <| ns_trans := ns_trans s ++ [tr0] |> <| ns_cbs := ns_cbs s ++ [[]] |>)) with (ns_trans s ++ [tr0]). rewrite nth_snoc_default. reflexivity. Qed.
  Lemma cbs_op_trans j : cbsN (op_trans s) j = cbsN s j.
  Proof. unfold cbsN, op_trans. change (ns_cbs (s <| ns_trans := ns_trans s ++ [tr0] |> <| ns_cbs := ns_cbs s ++ [[]] |>)) with (ns_cbs s ++ [[]]). apply nth_snoc_default. Qed.
  Lemma pre_op_in j : preN (op_in p t s) j =
                      preN s j ++ (if Nat.eqb j t && Nat.ltb t (List.length (ns_trans s)) then [p] else []).
  Proof.
    unfold preN, op_in. change (ns_trans (s <| ns_trans := ?l |>)) with l. cbn [ns_trans set].
    match goal with |- context [nth j (upd t ?f ?l) tr0] => rewrite (nth_upd _ f l t j tr0) end.
    destruct (Nat.eqb j t && Nat.ltb t (List.length (ns_trans s))); [reflexivity|rewrite app_nil_r; reflexivity].
  Qed.
  Lemma post_op_in j : postN (op_in p t s) j = postN s j.
  Proof.
    unfold postN, op_in. cbn [ns_trans set].
    match goal with |- context [nth j (upd t ?f ?l) tr0] => rewrite (nth_upd _ f l t j tr0) end.
    destruct (Nat.eqb j t && Nat.ltb t (List.length (ns_trans s))); reflexivity.
  Qed.
  Lemma cbs_op_in j : cbsN (op_in p t s) j = cbsN s j. Proof. reflexivity. Qed.
  Lemma pre_op_out j : preN (op_out p t s) j = preN s j.
  Proof.
    unfold preN, op_out. cbn [ns_trans set].
    match goal with |- context [nth j (upd t ?f ?l) tr0] => rewrite (nth_upd _ f l t j tr0) end.
    destruct (Nat.eqb j t && Nat.ltb t (List.length (ns_trans s))); reflexivity.
  Qed.
  Lemma post_op_out j : postN (op_out p t s) j =
                        postN s j ++ (if Nat.eqb j t && Nat.ltb t (List.length (ns_trans s)) then [p] else []).
  Proof.
    unfold postN, op_out. cbn [ns_trans set].
    match goal with |- context [nth j (upd t ?f ?l) tr0] => rewrite (nth_upd _ f l t j tr0) end.
    destruct (Nat.eqb j t && Nat.ltb t (List.length (ns_trans s))); [reflexivity|rewrite app_nil_r; reflexivity].
  Qed.
  Lemma cbs_op_out j : cbsN (op_out p t s) j = cbsN s j. Proof. reflexivity. Qed.
  Lemma pre_op_cb j : preN (op_cb t c s) j = preN s j. Proof. reflexivity. Qed.
  Lemma post_op_cb j : postN (op_cb t c s) j = postN s j. Proof. reflexivity. Qed.
  Lemma cbs_op_cb j : cbsN (op_cb t c s) j =
                      cbsN s j ++ (if Nat.eqb j t && Nat.ltb t (List.length (ns_cbs s)) then [c] else []).
  Proof.
    unfold cbsN, op_cb. cbn [ns_cbs set].
    match goal with |- context [nth j (upd t ?f ?l) []] => rewrite (nth_upd _ f l t j []) end.
    destruct (Nat.eqb j t && Nat.ltb t (List.length (ns_cbs s))); [reflexivity|rewrite app_nil_r; reflexivity].
  Qed.
  Lemma pre_op_api j : preN (op_api a s) j = preN s j. Proof. reflexivity. Qed.
  Lemma post_op_api j : postN (op_api a s) j = postN s j. Proof. reflexivity. Qed.
  Lemma cbs_op_api j : cbsN (op_api a s) j = cbsN s j. Proof. reflexivity. Qed.
  Lemma pre_op_dict j : preN (op_dict u p s) j = preN s j. Proof. reflexivity. Qed.
  Lemma post_op_dict j : postN (op_dict u p s) j = postN s j. Proof. reflexivity. Qed.
  Lemma cbs_op_dict j : cbsN (op_dict u p s) j = cbsN s j. Proof. reflexivity. Qed.

  Lemma ntr_op_place : List.length (ns_trans (op_place s)) = List.length (ns_trans s). Proof. reflexivity. Qed.
  Lemma ntr_op_trans : List.length (ns_trans (op_trans s)) = S (List.length (ns_trans s)).
  Proof. unfold op_trans. change (ns_trans (s <| ns_trans := ns_trans s ++ [tr0] |> <| ns_cbs := ns_cbs s ++ [[]] |>)) with (ns_trans s ++ [tr0]). rewrite app_length. cbn. lia. Qed.
  Lemma ntr_op_in : List.length (ns_trans (op_in p t s)) = List.length (ns_trans s).
  Proof. unfold op_in. cbn [ns_trans set]. apply upd_length. Qed.
  Lemma ntr_op_out : List.length (ns_trans (op_out p t s)) = List.length (ns_trans s).
  Proof. unfold op_out. cbn [ns_trans set]. apply upd_length. Qed.
  Lemma ntr_op_cb : List.length (ns_trans (op_cb t c s)) = List.length (ns_trans s). Proof. reflexivity. Qed.
  Lemma ntr_op_api : List.length (ns_trans (op_api a s)) = List.length (ns_trans s). Proof. reflexivity. Qed.
  Lemma ntr_op_dict : List.length (ns_trans (op_dict u p s)) = List.length (ns_trans s). Proof. reflexivity. Qed.

  Lemma ncb_op_place : List.length (ns_cbs (op_place s)) = List.length (ns_cbs s). Proof. reflexivity. Qed.
  Lemma ncb_op_trans : List.length (ns_cbs (op_trans s)) = S (List.length (ns_cbs s)).
  Proof. unfold op_trans. cbn [ns_cbs set]. rewrite app_length. cbn. lia. Qed.
  Lemma ncb_op_in : List.length (ns_cbs (op_in p t s)) = List.length (ns_cbs s). Proof. reflexivity. Qed.
  Lemma ncb_op_out : List.length (ns_cbs (op_out p t s)) = List.length (ns_cbs s). Proof. reflexivity. Qed.
  Lemma ncb_op_cb : List.length (ns_cbs (op_cb t c s)) = List.length (ns_cbs s).
  Proof. unfold op_cb. cbn [ns_cbs set]. apply upd_length. Qed.
  Lemma ncb_op_api : List.length (ns_cbs (op_api a s)) = List.length (ns_cbs s). Proof. reflexivity. Qed.
  Lemma ncb_op_dict : List.length (ns_cbs (op_dict u p s)) = List.length (ns_cbs s). Proof. reflexivity. Qed.
End Ops.

Section Ops2.
  Variables (p t : nat) (c : cb) (a : api) (u : ident) (s : NS).
  Lemma pl_op_place : ns_places (op_place s) = ns_places s ++ [Some 0]. Proof. reflexivity. Qed.
  Lemma ap_op_place : ns_apis (op_place s) = ns_apis s. Proof. reflexivity. Qed.
  Lemma di_op_place : ns_place_dict (op_place s) = ns_place_dict s. Proof. reflexivity. Qed.
  Lemma fr_op_place : ns_fresh (op_place s) = ns_fresh s. Proof. reflexivity. Qed.
  Lemma re_op_place : rest_of (op_place s) = rest_of s. Proof. reflexivity. Qed.
  Lemma pl_op_trans : ns_places (op_trans s) = ns_places s. Proof. reflexivity. Qed.
  Lemma ap_op_trans : ns_apis (op_trans s) = ns_apis s. Proof. reflexivity. Qed.
  Lemma di_op_trans : ns_place_dict (op_trans s) = ns_place_dict s. Proof. reflexivity. Qed.
  Lemma fr_op_trans : ns_fresh (op_trans s) = ns_fresh s. Proof. reflexivity. Qed.
  Lemma re_op_trans : rest_of (op_trans s) = rest_of s. Proof. reflexivity. Qed.
  Lemma pl_op_in : ns_places (op_in p t s) = ns_places s. Proof. reflexivity. Qed.
  Lemma ap_op_in : ns_apis (op_in p t s) = ns_apis s. Proof. reflexivity. Qed.
  Lemma di_op_in : ns_place_dict (op_in p t s) = ns_place_dict s. Proof. reflexivity. Qed.
  Lemma fr_op_in : ns_fresh (op_in p t s) = ns_fresh s. Proof. reflexivity. Qed.
  Lemma re_op_in : rest_of (op_in p t s) = rest_of s. Proof. reflexivity. Qed.
  Lemma pl_op_out : ns_places (op_out p t s) = ns_places s. Proof. reflexivity. Qed.
  Lemma ap_op_out : ns_apis (op_out p t s) = ns_apis s. Proof. reflexivity. Qed.
  Lemma di_op_out : ns_place_dict (op_out p t s) = ns_place_dict s. Proof. reflexivity. Qed.
  Lemma fr_op_out : ns_fresh (op_out p t s) = ns_fresh s. Proof. reflexivity. Qed.
  Lemma re_op_out : rest_of (op_out p t s) = rest_of s. Proof. reflexivity. Qed.
  Lemma pl_op_cb : ns_places (op_cb t c s) = ns_places s. Proof. reflexivity. Qed.
  Lemma ap_op_cb : ns_apis (op_cb t c s) = ns_apis s. Proof. reflexivity. Qed.
  Lemma di_op_cb : ns_place_dict (op_cb t c s) = ns_place_dict s. Proof. reflexivity. Qed.
  Lemma fr_op_cb : ns_fresh (op_cb t c s) = ns_fresh s. Proof. reflexivity. Qed.
  Lemma re_op_cb : rest_of (op_cb t c s) = rest_of s. Proof. reflexivity. Qed.
  Lemma pl_op_api : ns_places (op_api a s) = ns_places s. Proof. reflexivity. Qed.
  Lemma ap_op_api : ns_apis (op_api a s) = ns_apis s ++ [a]. Proof. reflexivity. Qed.
  Lemma di_op_api : ns_place_dict (op_api a s) = ns_place_dict s. Proof. reflexivity. Qed.
  Lemma fr_op_api : ns_fresh (op_api a s) = S (ns_fresh s). Proof. reflexivity. Qed.
  Lemma re_op_api : rest_of (op_api a s) = rest_of s. Proof. reflexivity. Qed.
  Lemma pl_op_dict : ns_places (op_dict u p s) = ns_places s. Proof. reflexivity. Qed.
  Lemma ap_op_dict : ns_apis (op_dict u p s) = ns_apis s. Proof. reflexivity. Qed.
  Lemma di_op_dict : ns_place_dict (op_dict u p s) = (u, p) :: ns_place_dict s. Proof. reflexivity. Qed.
  Lemma fr_op_dict : ns_fresh (op_dict u p s) = ns_fresh s. Proof. reflexivity. Qed.
  Lemma re_op_dict : rest_of (op_dict u p s) = rest_of s. Proof. reflexivity. Qed.
End Ops2.

#[export] Hint Rewrite pre_op_place post_op_place cbs_op_place ntr_op_place ncb_op_place pl_op_place ap_op_place di_op_place fr_op_place re_op_place pre_op_trans post_op_trans cbs_op_trans ntr_op_trans ncb_op_trans pl_op_trans ap_op_trans di_op_trans fr_op_trans re_op_trans pre_op_in post_op_in cbs_op_in ntr_op_in ncb_op_in pl_op_in ap_op_in di_op_in fr_op_in re_op_in pre_op_out post_op_out cbs_op_out ntr_op_out ncb_op_out pl_op_out ap_op_out di_op_out fr_op_out re_op_out pre_op_cb post_op_cb cbs_op_cb ntr_op_cb ncb_op_cb pl_op_cb ap_op_cb di_op_cb fr_op_cb re_op_cb pre_op_api post_op_api cbs_op_api ntr_op_api ncb_op_api pl_op_api ap_op_api di_op_api fr_op_api re_op_api pre_op_dict post_op_dict cbs_op_dict ntr_op_dict ncb_op_dict pl_op_dict ap_op_dict di_op_dict fr_op_dict re_op_dict : netops.


(* ---- stepping through monadic generator code ---- *)
Lemma nbind_ok : forall A B (m : NetModel.N A) (k : A -> NetModel.N B) s a s',
    m s = Ok (a, s') -> nbind m k s = k a s'.
Proof. intros A B m k s a s' H. unfold nbind. rewrite H. reflexivity. Qed.

Definition op_fresh (s : NS) : NS := s <| ns_fresh := S (ns_fresh s) |>.
Lemma nbind_fresh : forall B (k : ident -> NetModel.N B) s,
    nbind fresh_uuid k s = k (IUuid (ns_fresh s)) (op_fresh s).
Proof. reflexivity. Qed.
Lemma nbind_new_api : forall B a (k : nat -> NetModel.N B) s,
    nbind (new_api a) k (op_fresh s) = k (List.length (ns_apis s)) (op_api a s).
Proof. reflexivity. Qed.

Lemma dict_mod_eq : forall u p s,
    nmod (fun s => s <| ns_place_dict := (u, p) :: ns_place_dict s |>) s = Ok (tt, op_dict u p s).
Proof. reflexivity. Qed.

Global Opaque op_place op_trans op_in op_out op_cb op_api op_dict op_fresh.

Ltac gstep :=
  first [ rewrite (nbind_ok _ _ _ _ _ _ _ (create_place_eq _))
        | rewrite (nbind_ok _ _ _ _ _ _ _ (create_transition_eq _))
        | rewrite (nbind_ok _ _ _ _ _ _ _ (add_input_eq _ _ _))
        | rewrite (nbind_ok _ _ _ _ _ _ _ (add_output_eq _ _ _))
        | rewrite (nbind_ok _ _ _ _ _ _ _ (add_callback_eq _ _ _))
        | rewrite (nbind_ok _ _ _ _ _ _ _ (dict_mod_eq _ _ _)) ].

Definition pos_of (k : sinfo) (s : NS) : pos :=
  mkpos (List.length (ns_places s)) (List.length (ns_trans s)) (List.length (ns_apis s)) k.
Definition si_add (n : nat) (k : sinfo) : sinfo := mksi (s_tn k) (s_pre k) (s_idx k + n) (s_il k).
Lemma pos_ext : forall p q, pp p = pp q -> pt p = pt q -> pa p = pa q -> psi p = psi q -> p = q.
Proof. intros [] [] H1 H2 H3 H4. cbn in *. subst. reflexivity. Qed.
Lemma si_ext : forall a b, s_tn a = s_tn b -> s_pre a = s_pre b -> s_idx a = s_idx b -> s_il a = s_il b -> a = b.
Proof. intros [] [] H1 H2 H3 H4. cbn in *. subst. reflexivity. Qed.

Lemma generate_service_eq : forall il k n ins at_ ctx t1 t2 s,
    let p := pos_of k s in
    generate_service n ins at_ ctx t1 t2 il s
    = Ok ([pt p],
          op_in (pp p + 2) t2 (op_out (pp p) t1 (op_out (pp p + 2) (pt p) (op_in (pp p + 1) (pt p) (op_in (pp p) (pt p)
            (op_cb (pt p) (CbSF (pa p)) (op_cb t1 (CbSS (pa p))
              (op_trans (op_place (op_dict (IUuid (ns_fresh s)) (pp p + 1) (op_place (op_place
                 (op_api (svc_api il n at_ ins ctx (ns_fresh s)) s))))))))))))).
Proof.
  intros. unfold generate_service.
  rewrite nbind_fresh, nbind_new_api.
  repeat gstep. autorewrite with netops.
  rewrite !app_length. cbn [List.length]. unfold nret, p, pos_of. cbn [pp pt pa].
  repeat (f_equal; try lia).
Qed.

(* ---- what generating one component does to the rest of the net ---- *)
Definition okns (s : NS) : Prop :=
  List.length (ns_cbs s) = List.length (ns_trans s) /\ ns_fresh s = List.length (ns_apis s).

Record GenF (ns ns' : NS) (fpre fpost : nat -> list nat) (fcbs : nat -> list cb) : Prop := {
  gn_places : ns_places ns' = ns_places ns ++ repeat (Some 0) (List.length (ns_places ns') - List.length (ns_places ns));
  gn_ntr : List.length (ns_trans ns) <= List.length (ns_trans ns');
  gn_napi : List.length (ns_apis ns) <= List.length (ns_apis ns');
  gn_apis : forall j, j < List.length (ns_apis ns) -> nth_error (ns_apis ns') j = nth_error (ns_apis ns) j;
  gn_pre : forall j, j < List.length (ns_trans ns) -> preN ns' j = preN ns j ++ fpre j;
  gn_post : forall j, j < List.length (ns_trans ns) -> postN ns' j = postN ns j ++ fpost j;
  gn_cbs : forall j, j < List.length (ns_trans ns) -> cbsN ns' j = cbsN ns j ++ fcbs j;
  gn_dict : exists d, ns_place_dict ns' = d ++ ns_place_dict ns /\
                      Forall (fun kv => exists k, fst kv = IUuid k /\ List.length (ns_apis ns) <= k) d;
  gn_rest : rest_of ns' = rest_of ns
}.

(* entering transition t1 gains the entry arcs and the start callbacks, the transition after
   the component (t2) gains the exit place as input; nothing else changes *)
Definition Gen (ns ns' : NS) (t1 t2 : nat) (ents : list nat) (scbs : list cb) (xp : list nat) : Prop :=
  GenF ns ns' (fun j => if Nat.eqb j t2 then xp else []) (fun j => if Nat.eqb j t1 then ents else [])
       (fun j => if Nat.eqb j t1 then scbs else []).

Lemma preN_beyond : forall s j, List.length (ns_trans s) <= j -> preN s j = [].
Proof. intros s j H. unfold preN. rewrite nth_overflow by exact H. reflexivity. Qed.
Lemma postN_beyond : forall s j, List.length (ns_trans s) <= j -> postN s j = [].
Proof. intros s j H. unfold postN. rewrite nth_overflow by exact H. reflexivity. Qed.
Lemma cbsN_beyond : forall s j, List.length (ns_cbs s) <= j -> cbsN s j = [].
Proof. intros s j H. unfold cbsN. rewrite nth_overflow by exact H. reflexivity. Qed.

Ltac eqb_cases :=
  repeat match goal with
         | |- context [Nat.eqb ?a ?b] => destruct (Nat.eqb_spec a b); try lia
         | |- context [Nat.ltb ?a ?b] => destruct (Nat.ltb_spec a b); try lia
         end.

Section WithLV.
Context `{LV : LoopVars}.

Lemma gen_service : forall il k n ins at_ ctx t1 t2 s, s_il k = il ->
    okns s -> t1 < List.length (ns_trans s) -> t2 < List.length (ns_trans s) ->
    let p := pos_of k s in
    exists s', generate_service n ins at_ ctx t1 t2 il s = Ok (exits (XService n at_ ins) p, s') /\
               Gen s s' t1 t2 [pp p] [CbSS (pa p)] [pp p + 2] /\
               pos_of (si_next k) s' = adv (XService n at_ ins) p /\ okns s' /\
               wired s' (XService n at_ ins) p ctx [].
Proof.
  intros il k n ins at_ ctx t1 t2 s Hil [Hcb Hfr] H1 H2 p. rewrite (generate_service_eq il k). fold p.
  eexists. split; [reflexivity|].
  assert (Hp : pt p = List.length (ns_trans s)) by reflexivity.
  assert (Hpp : pp p = List.length (ns_places s)) by reflexivity.
  assert (Hpa : pa p = List.length (ns_apis s)) by reflexivity.
  split; [|split; [|split; [|]]].
  - unfold Gen. constructor; try intros j Hj; autorewrite with netops.
    + rewrite !app_length. cbn [List.length]. rewrite <- !app_assoc. cbn [app].
      replace (List.length (ns_places s) + 1 + 1 + 1 - List.length (ns_places s)) with 3 by lia. reflexivity.
    + lia.
    + rewrite app_length. lia.
    + rewrite nth_error_app1 by exact Hj. reflexivity.
    + rewrite ?Hcb, ?Hp. eqb_cases; cbn [andb]; rewrite ?app_nil_r; reflexivity.
    + rewrite ?Hcb, ?Hp. eqb_cases; cbn [andb]; rewrite ?app_nil_r; reflexivity.
    + rewrite ?Hcb, ?Hp. eqb_cases; cbn [andb]; rewrite ?app_nil_r; reflexivity.
    + exists [(IUuid (ns_fresh s), pp p + 1)]. split; [reflexivity|]. constructor; [|constructor].
      exists (ns_fresh s). split; [reflexivity|lia].
    + reflexivity.
  - unfold pos_of, adv. autorewrite with netops. rewrite !app_length. cbn [List.length nplaces ntrans napis pp pt pa].
    f_equal; lia.
  - split; autorewrite with netops; [lia|]. rewrite app_length. cbn. lia.
  - cbn [wired]. autorewrite with netops. rewrite Hcb, Hp.
    rewrite (preN_beyond s), (postN_beyond s), (cbsN_beyond s) by lia.
    split; [|split; [|split; [|split]]].
    + eqb_cases; cbn [andb app]; reflexivity.
    + eqb_cases; cbn [andb app]; reflexivity.
    + eqb_cases; cbn [andb app]; reflexivity.
    + change (psi p) with k. rewrite Hil. rewrite Hpa, nth_error_app2, Nat.sub_diag by lia. rewrite <- Hfr. reflexivity.
    + rewrite Hpa, <- Hfr. cbn [dict_get ident_eqb]. rewrite Nat.eqb_refl. reflexivity.
Qed.

(* ---- algebra of frames ---- *)
Definition fnil {A} : nat -> list A := fun _ => [].

Lemma GenF_trans : forall ns ns1 ns2 f1 g1 h1 f2 g2 h2,
    GenF ns ns1 f1 g1 h1 -> GenF ns1 ns2 f2 g2 h2 ->
    GenF ns ns2 (fun j => f1 j ++ f2 j) (fun j => g1 j ++ g2 j) (fun j => h1 j ++ h2 j).
Proof.
  intros ns ns1 ns2 f1 g1 h1 f2 g2 h2 A B.
  destruct A as [Ap Ant Ana Aap Apre Apost Acbs (d1 & Ad & Ak) Ar].
  destruct B as [Bp Bnt Bna Bap Bpre Bpost Bcbs (d2 & Bd & Bk) Br].
  constructor.
  - assert (L1 : List.length (ns_places ns1) = List.length (ns_places ns) + (List.length (ns_places ns1) - List.length (ns_places ns))).
    { rewrite Ap at 1. rewrite app_length, repeat_length. reflexivity. }
    assert (L2 : List.length (ns_places ns2) = List.length (ns_places ns1) + (List.length (ns_places ns2) - List.length (ns_places ns1))).
    { rewrite Bp at 1. rewrite app_length, repeat_length. reflexivity. }
    rewrite Bp, Ap at 1. rewrite <- app_assoc, <- repeat_app. f_equal. f_equal. lia.
  - lia.
  - lia.
  - intros j Hj. rewrite Bap by lia. apply Aap. exact Hj.
  - intros j Hj. rewrite Bpre by lia. rewrite Apre by exact Hj. rewrite app_assoc. reflexivity.
  - intros j Hj. rewrite Bpost by lia. rewrite Apost by exact Hj. rewrite app_assoc. reflexivity.
  - intros j Hj. rewrite Bcbs by lia. rewrite Acbs by exact Hj. rewrite app_assoc. reflexivity.
  - exists (d2 ++ d1). split; [rewrite Bd, Ad, app_assoc; reflexivity|].
    apply Forall_app. split; [|exact Ak].
    eapply Forall_impl; [|exact Bk]. intros kv (k & E & Hk). exists k. split; [exact E|lia].
  - congruence.
Qed.

Lemma GenF_ext : forall ns ns' f g h f' g' h',
    GenF ns ns' f g h ->
    (forall j, j < List.length (ns_trans ns) -> f j = f' j /\ g j = g' j /\ h j = h' j) ->
    GenF ns ns' f' g' h'.
Proof.
  intros ns ns' f g h f' g' h' [Ap Ant Ana Aap Apre Apost Acbs Ad Ar] E.
  constructor; try assumption.
  - intros j Hj. rewrite Apre by exact Hj. f_equal. apply E. exact Hj.
  - intros j Hj. rewrite Apost by exact Hj. f_equal. apply E. exact Hj.
  - intros j Hj. rewrite Acbs by exact Hj. f_equal. apply E. exact Hj.
Qed.

Lemma places_self : forall s : NS, ns_places s = ns_places s ++ repeat (Some 0) (List.length (ns_places s) - List.length (ns_places s)).
Proof. intro s. rewrite Nat.sub_diag. cbn. rewrite app_nil_r. reflexivity. Qed.

Lemma dict_self : forall s : NS, exists d, ns_place_dict s = d ++ ns_place_dict s /\
                      Forall (fun kv => exists k, fst kv = IUuid k /\ List.length (ns_apis s) <= k) d.
Proof. intro s. exists []. split; [reflexivity|constructor]. Qed.

Lemma GenF_op_trans : forall s, GenF s (op_trans s) fnil fnil fnil.
Proof.
  intro s. constructor; try intros j Hj; autorewrite with netops; unfold fnil; rewrite ?app_nil_r; try reflexivity; try lia.
  - apply places_self.
  - apply dict_self.
Qed.

Lemma GenF_op_place : forall s, GenF s (op_place s) fnil fnil fnil.
Proof.
  intro s. constructor; try intros j Hj; autorewrite with netops; unfold fnil; rewrite ?app_nil_r; try reflexivity; try lia.
  - rewrite app_length. cbn [List.length]. replace (List.length (ns_places s) + 1 - List.length (ns_places s)) with 1 by lia. reflexivity.
  - apply dict_self.
Qed.

Lemma GenF_op_in : forall p t s,
    GenF s (op_in p t s) (fun j => if Nat.eqb j t then [p] else []) fnil fnil.
Proof.
  intros p t s. constructor; try intros j Hj; autorewrite with netops; unfold fnil; rewrite ?app_nil_r; try reflexivity; try lia.
  - apply places_self.
  - eqb_cases; reflexivity.
  - apply dict_self.
Qed.

Lemma GenF_op_out : forall p t s,
    GenF s (op_out p t s) fnil (fun j => if Nat.eqb j t then [p] else []) fnil.
Proof.
  intros p t s. constructor; try intros j Hj; autorewrite with netops; unfold fnil; rewrite ?app_nil_r; try reflexivity; try lia.
  - apply places_self.
  - eqb_cases; reflexivity.
  - apply dict_self.
Qed.

Lemma GenF_op_cb : forall t c s, List.length (ns_cbs s) = List.length (ns_trans s) ->
    GenF s (op_cb t c s) fnil fnil (fun j => if Nat.eqb j t then [c] else []).
Proof.
  intros t c s Hl. constructor; try intros j Hj; autorewrite with netops; unfold fnil; rewrite ?app_nil_r; try reflexivity; try lia.
  - apply places_self.
  - rewrite Hl. eqb_cases; reflexivity.
  - apply dict_self.
Qed.

Lemma GenF_op_api : forall a s, GenF s (op_api a s) fnil fnil fnil.
Proof.
  intros a s. constructor; try intros j Hj; autorewrite with netops; unfold fnil; rewrite ?app_nil_r; try reflexivity; try lia.
  - apply places_self.
  - rewrite app_length. lia.
  - rewrite nth_error_app1 by exact Hj. reflexivity.
  - apply dict_self.
Qed.

Lemma GenF_refl : forall s, GenF s s fnil fnil fnil.
Proof.
  intro s. constructor; try intros j Hj; unfold fnil; rewrite ?app_nil_r; try reflexivity; try lia.
  - apply places_self.
  - apply dict_self.
Qed.

Lemma outside_nil : forall lo hi, outside_t [] lo hi.
Proof. intros lo hi e []. Qed.

Lemma wired_ext : forall N N' s, frag s = true -> forall p ctx xcbs,
    agree N N' p (ntrans s) (napis s) [] [] ->
    wired N s p ctx xcbs -> wired N' s p ctx xcbs.
Proof.
  intros N N' s Hf p ctx xcbs Hag Hw.
  apply (proj1 (wired_agree N N' [] [] s Hf p ctx xcbs Hag) (outside_nil _ _) Hw).
Qed.

Lemma GenF_agree : forall ns1 ns2 f g h p dt da es,
    GenF ns1 ns2 f g h ->
    (forall j, pt p <= j < pt p + dt -> f j = [] /\ g j = [] /\ h j = []) ->
    pt p + dt <= List.length (ns_trans ns1) -> pa p + da <= List.length (ns_apis ns1) ->
    agree ns1 ns2 p dt da es [].
Proof.
  intros ns1 ns2 f g h p dt da es [Ap Ant Ana Aap Apre Apost Acbs (d & Ad & Ak) Ar] Hz Ht Ha.
  split; [|split].
  - intros j Hj. destruct (Hz j Hj) as (E1 & E2 & E3).
    rewrite Apre, Apost, Acbs by lia. rewrite E1, E2, E3, !app_nil_r.
    destruct (hits es j); rewrite ?app_nil_r; auto.
  - intros j Hj. apply Aap. lia.
  - exists d. split; [exact Ad|]. eapply Forall_impl; [|exact Ak].
    intros kv (k & E & Hk). exists k. split; [exact E|lia].
Qed.

(* ---- the statement proved by induction over the unfolded tree ---- *)
Definition GenOK (s : xstmt) : Prop :=
  frag s = true -> forall k ctx t1 t2 ns,
    keys_ok s (s_tn k) (s_pre k) (s_idx k) ->
    okns ns -> t1 < List.length (ns_trans ns) -> t2 < List.length (ns_trans ns) ->
    let p := pos_of k ns in
    exists ns', pg_stmt (s_il k) k ctx s t1 t2 ns = Ok (exits s p, ns') /\
                Gen ns ns' t1 t2 (entries s p) (startcbs s p ctx) [xplace s p] /\
                pos_of (si_next k) ns' = adv s p /\ okns ns' /\ wired ns' s p ctx [].

Definition adv_l (l : list xstmt) (q : pos) : pos :=
  mkpos (pp q + nplaces_l l) (pt q + ntrans_l l) (pa q + napis_l l) (si_add (List.length l) (psi q)).
Definition adv_b (l : list xstmt) (q : pos) : pos :=
  mkpos (pp q + nplaces_l l) (pt q + ntrans_b l) (pa q + napis_l l) (si_add (List.length l) (psi q)).

Lemma startcbs_call_eq : forall t a i bd p ctx, startcbs (XCall t a i bd) p ctx = CbTS (pa p) :: startcbs_b bd (body_pos t p) (pa p).
Proof. reflexivity. Qed.

Lemma pos_eta : forall p, mkpos (pp p) (pt p) (pa p) (psi p) = p.
Proof. intros []; reflexivity. Qed.
Definition resite (k : sinfo) (p : pos) : pos := mkpos (pp p) (pt p) (pa p) k.
Lemma pos_of_resite : forall k k' s q, pos_of k s = q -> pos_of k' s = resite k' q.
Proof. intros k k' s q <-. reflexivity. Qed.
Lemma pos_of_same : forall k s s', ns_places s = ns_places s' -> List.length (ns_trans s) = List.length (ns_trans s') ->
    ns_apis s = ns_apis s' -> pos_of k s = pos_of k s'.
Proof. intros k s s' A B C. unfold pos_of. rewrite A, B, C. reflexivity. Qed.
Lemma si_add_0 : forall k, si_add 0 k = k.
Proof. intros [a b c]. unfold si_add. cbn. rewrite Nat.add_0_r. reflexivity. Qed.
Lemma si_add_S : forall n k, si_add n (si_next k) = si_add (S n) k.
Proof. intros n [a b c]. unfold si_add, si_next. cbn. f_equal. lia. Qed.

Lemma gen_calls : forall l, Forall GenOK l -> frag_brs l = true ->
    forall il tn pre i ctx t1 sync ns,
      keys_block tn pre l i ->
      okns ns -> t1 < List.length (ns_trans ns) -> sync < List.length (ns_trans ns) ->
      let q := pos_of (mksi tn pre i il) ns in
      exists ns', pg_calls il (pg_stmt il) tn pre ctx t1 sync i l ns = Ok (tt, ns') /\
                  Gen ns ns' t1 sync (cat_of entries l q) (cat_of (fun b q => startcbs b q ctx) l q) (cat_of (fun b q => [xplace b q]) l q) /\
                  pos_of (mksi tn pre (i + List.length l) il) ns' = adv_l l q /\ okns ns' /\ wired_list (wired ns') ctx l q.
Proof.
  induction l as [|b r IH]; intros HF Hf il tn pre i ctx t1 sync ns Hkeys Hok H1 H2 q.
  - exists ns. split; [reflexivity|]. split; [|split; [|split; [exact Hok|exact I]]].
    + unfold Gen. eapply GenF_ext; [apply GenF_refl|]. intros j _. cbn [cat_of]. unfold fnil.
      destruct (Nat.eqb j sync), (Nat.eqb j t1); auto.
    + unfold adv_l, nplaces_l, ntrans_l, napis_l, q, pos_of, si_add. cbn [map list_sum fold_right List.length pp pt pa psi s_tn s_pre s_idx]. rewrite !Nat.add_0_r. reflexivity.
  - inversion HF as [|? ? Hb Hr]; subst. apply frag_brs_cons in Hf. destruct Hf as (_ & Hfb & Hfr).
    cbn [keys_block] in Hkeys. destruct Hkeys as [Hkb Hkr].
    destruct (Hb Hfb (mksi tn pre i il) ctx t1 sync ns Hkb Hok H1 H2) as (ns1 & E1 & G1 & P1 & Ok1 & W1). fold q in E1, G1, P1, W1.
    cbn [s_il] in E1.
    change (si_next (mksi tn pre i il)) with (mksi tn pre (S i) il) in P1.
    assert (L1 : List.length (ns_trans ns) <= List.length (ns_trans ns1)) by (apply (gn_ntr _ _ _ _ _ G1)).
    destruct (IH Hr Hfr il tn pre (S i) ctx t1 sync ns1 Hkr Ok1 ltac:(lia) ltac:(lia)) as (ns2 & E2 & G2 & P2 & Ok2 & W2).
    rewrite ?P1 in G2, P2, W2.
    exists ns2. split; [|split; [|split; [|split; [exact Ok2|]]]].
    + cbn [pg_calls]. unfold nbind. rewrite E1. exact E2.
    + unfold Gen in *. eapply GenF_ext; [eapply GenF_trans; [exact G1|exact G2]|].
      intros j Hj. cbn beta. cbn [cat_of]. destruct (Nat.eqb j sync), (Nat.eqb j t1); auto.
    + cbn [List.length]. replace (i + S (List.length r)) with (S i + List.length r) by lia. rewrite P2.
      unfold adv_l, adv, q, pos_of, si_add, si_next. cbn [pp pt pa psi s_tn s_pre s_idx List.length]. rewrite nplaces_l_cons, ntrans_l_cons, napis_l_cons.
      f_equal; try lia. f_equal. lia.
    + cbn [wired_list]. split; [|exact W2].
      apply (wired_ext ns1 ns2 b Hfb q ctx []); [|exact W1].
      eapply GenF_agree; [exact G2| | |].
      * intros j Hj. unfold q, pos_of in Hj. cbn [pt] in Hj.
        assert (Es : Nat.eqb j sync = false) by (apply Nat.eqb_neq; lia).
        assert (Et : Nat.eqb j t1 = false) by (apply Nat.eqb_neq; lia).
        cbn beta. rewrite Es, Et. auto.
      * pose proof (f_equal pt P1) as Ept. unfold pos_of, adv in Ept. cbn [pt] in Ept. lia.
      * pose proof (f_equal pa P1) as Epa. unfold pos_of, adv in Epa. cbn [pa] in Epa. lia.
Qed.

Lemma okns_op_trans : forall s, okns s -> okns (op_trans s).
Proof. intros s [H1 H2]. split; autorewrite with netops; [lia|exact H2]. Qed.
Lemma pos_op_trans : forall k s, pos_of k (op_trans s) = conn_skip (pos_of k s).
Proof. intros k s. unfold pos_of, conn_skip. autorewrite with netops. reflexivity. Qed.

Lemma gen_block_go : forall l, Forall GenOK l -> frag_block l = true ->
    forall il tn pre n i prev acc ctx last ns,
      keys_block tn pre l i ->
      i + List.length l = n -> okns ns ->
      prev < List.length (ns_trans ns) -> last < List.length (ns_trans ns) ->
      let p := pos_of (mksi tn pre i il) ns in
      exists ns', pg_block_go il (pg_stmt il) tn pre ctx n last i l prev acc ns = Ok (exits_b l p, ns') /\
                  Gen ns ns' prev last (entries_b l p) (startcbs_b l p ctx) [xplace_b l p] /\
                  pos_of (mksi tn pre (i + List.length l) il) ns' = adv_b l p /\ okns ns' /\ wired_block (wired ns') ns' ctx [] l p.
Proof.
  induction l as [|s r IH]; intros HF Hf il tn pre n i prev acc ctx last ns Hkeys Hn Hok H1 H2 p; [discriminate|].
  cbn [keys_block] in Hkeys. destruct Hkeys as [Hks Hkr].
  inversion HF as [|? ? Hs Hr]; subst. apply frag_block_cons in Hf. destruct Hf as [Hfs Hfr].
  destruct r as [|s' r].
  - (* last statement: wired to [last] *)
    cbn [pg_block_go List.length].
    assert (Ecur : (if Nat.ltb 1 (i + 1) then if Nat.ltb i (i + 1 - 1) then create_transition else nret last else nret last)
                   = nret last).
    { replace (i + 1 - 1) with i by lia. rewrite Nat.ltb_irrefl. destruct (Nat.ltb 1 (i + 1)); reflexivity. }
    rewrite Ecur. unfold nbind at 1. unfold nret at 1.
    destruct (Hs Hfs (mksi tn pre i il) ctx prev last ns Hks Hok H1 H2) as (ns1 & E1 & G1 & P1 & Ok1 & W1). fold p in E1, G1, P1, W1.
    cbn [s_il] in E1.
    change (si_next (mksi tn pre i il)) with (mksi tn pre (S i) il) in P1.
    exists ns1. split; [|split; [|split; [|split; [exact Ok1|]]]].
    + unfold nbind. rewrite E1. reflexivity.
    + exact G1.
    + replace (i + 1) with (S i) by lia. rewrite P1. unfold adv, adv_b, p, pos_of, si_add, si_next. cbn [pp pt pa psi s_tn s_pre s_idx List.length].
      rewrite nplaces_l_one, napis_l_one, ntrans_b_one. f_equal. f_equal. lia.
    + exact W1.
  - destruct Hfr as [Hfr|Hfr]; [discriminate|].
    cbn [pg_block_go]. cbn [List.length] in *.
    assert (Ecur : (if Nat.ltb 1 (i + S (S (List.length r)))
                    then if Nat.ltb i (i + S (S (List.length r)) - 1) then create_transition else nret last
                    else nret last) = create_transition).
    { rewrite (proj2 (Nat.ltb_lt 1 _)) by lia. rewrite (proj2 (Nat.ltb_lt i _)) by lia. reflexivity. }
    rewrite Ecur. rewrite (nbind_ok _ _ _ _ _ _ _ (create_transition_eq _)).
    set (cur := List.length (ns_trans ns)).
    assert (Hc0 : cur = List.length (ns_trans ns)) by reflexivity.
    pose proof (okns_op_trans ns Hok) as Ok0.
    assert (L0 : List.length (ns_trans (op_trans ns)) = S cur) by (autorewrite with netops; reflexivity).
    destruct (Hs Hfs (mksi tn pre i il) ctx prev cur (op_trans ns) Hks Ok0 ltac:(lia) ltac:(lia)) as (ns1 & E1 & G1 & P1 & Ok1 & W1).
    cbn [s_il] in E1.
    change (si_next (mksi tn pre i il)) with (mksi tn pre (S i) il) in P1.
    rewrite pos_op_trans in E1, G1, P1, W1. fold p in E1, G1, P1, W1.
    set (ps := conn_skip p) in *.
    assert (L1 : S cur <= List.length (ns_trans ns1)) by (rewrite <- L0; apply (gn_ntr _ _ _ _ _ G1)).
    destruct (IH Hr Hfr il tn pre (i + S (S (List.length r))) (S i) cur (exits s ps) ctx last ns1 Hkr ltac:(cbn [List.length]; lia) Ok1 ltac:(lia) ltac:(lia))
      as (ns2 & E2 & G2 & P2 & Ok2 & W2).
    rewrite ?P1 in E2, G2, P2, W2. set (pr := adv s ps) in *.
    exists ns2. split; [|split; [|split; [|split; [exact Ok2|]]]].
    + unfold nbind at 1. rewrite E1. unfold exits_b. rewrite last_of_cons. exact E2.
    + unfold Gen in *.
      eapply GenF_ext; [eapply GenF_trans; [apply GenF_op_trans|eapply GenF_trans; [exact G1|exact G2]]|].
      intros j Hj. fold cur in Hj. cbn beta. unfold fnil.
      assert (Ec : Nat.eqb j cur = false) by (apply Nat.eqb_neq; lia). rewrite Ec. cbn [app].
      unfold xplace_b. rewrite last_of_cons. fold ps. fold pr. rewrite !app_nil_r.
      unfold entries_b, startcbs_b. cbn [first_pos]. fold ps. auto.
    + replace (i + S (S (List.length r))) with (S i + S (List.length r)) by lia. rewrite P2.
      unfold adv_b, pr, adv, ps, conn_skip, p, pos_of, si_add, si_next. cbn [pp pt pa psi s_tn s_pre s_idx List.length].
      rewrite !nplaces_l_cons, !napis_l_cons, ntrans_b_cons. f_equal; try lia. f_equal. lia.
    + cbn [wired_block]. cbv zeta. fold ps. fold pr.
      assert (Hcur : pt p = cur) by reflexivity. rewrite Hcur.
      assert (Ecl : Nat.eqb cur last = false) by (apply Nat.eqb_neq; unfold cur; lia).
      assert (Ecp : Nat.eqb cur prev = false) by (apply Nat.eqb_neq; unfold cur; lia).
      unfold Gen in G1, G2.
      rewrite (gn_pre _ _ _ _ _ G2 cur), (gn_post _ _ _ _ _ G2 cur), (gn_cbs _ _ _ _ _ G2 cur) by lia.
      rewrite (gn_pre _ _ _ _ _ G1 cur), (gn_post _ _ _ _ _ G1 cur), (gn_cbs _ _ _ _ _ G1 cur) by lia.
      autorewrite with netops.
      rewrite (preN_beyond ns), (postN_beyond ns), (cbsN_beyond ns) by (destruct Hok; unfold cur; lia).
      rewrite Nat.eqb_refl, Ecl, Ecp. cbn [app]. rewrite ?app_nil_r.
      split; [reflexivity|]. split; [reflexivity|]. split; [reflexivity|]. split; [|exact W2].
      apply (wired_ext ns1 ns2 s Hfs ps ctx []); [|exact W1].
      eapply GenF_agree; [exact G2| | |].
      * intros j Hj. unfold ps, conn_skip, p, pos_of in Hj. cbn [pt] in Hj. fold cur in Hj.
        assert (Es : Nat.eqb j last = false) by (apply Nat.eqb_neq; clear - H2 Hc0 Hj; lia).
        assert (Et : Nat.eqb j cur = false) by (apply Nat.eqb_neq; lia).
        cbn beta. rewrite Es, Et. auto.
      * pose proof (f_equal pt P1) as Ept. unfold pr, pos_of, adv in Ept. cbn [pt] in Ept. lia.
      * pose proof (f_equal pa P1) as Epa. unfold pr, pos_of, adv in Epa. cbn [pa] in Epa. lia.
Qed.

(* ---- list versions of [wired_agree] ---- *)
Lemma WA_all : forall N N' es extra l, Forall (fun s => frag s = true -> WA N N' es extra s) l.
Proof. intros. apply Forall_forall. intros s _ Hs. apply wired_agree. exact Hs. Qed.

Lemma wired_block_ext : forall N N' l, frag_block l = true -> forall p ctx xcbs,
    agree N N' p (ntrans_b l) (napis_l l) [] [] ->
    wired_block (wired N) N ctx xcbs l p -> wired_block (wired N') N' ctx xcbs l p.
Proof.
  intros N N' l Hf p ctx xcbs Hag Hw.
  apply (proj1 (wired_agree_block N N' [] [] l (WA_all _ _ _ _ _) Hf p ctx xcbs Hag) (outside_nil _ _) Hw).
Qed.

Lemma wired_block_exits : forall N N' extra l, frag_block l = true -> forall p ctx xcbs,
    agree N N' p (ntrans_b l) (napis_l l) (exits_b l p) extra ->
    wired_block (wired N) N ctx xcbs l p -> wired_block (wired N') N' ctx (xcbs ++ extra) l p.
Proof.
  intros N N' extra l Hf p ctx xcbs Hag Hw.
  apply (proj2 (wired_agree_block N N' _ extra l (WA_all _ _ _ _ _) Hf p ctx xcbs Hag) eq_refl Hw).
Qed.

Lemma wired_list_ext : forall N N' l, frag_brs l = true -> forall q ctx,
    agree N N' q (ntrans_l l) (napis_l l) [] [] ->
    wired_list (wired N) ctx l q -> wired_list (wired N') ctx l q.
Proof.
  intros N N' l Hf q ctx Hag Hw.
  apply (wired_agree_list N N' [] [] l (WA_all _ _ _ _ _) Hf q ctx Hag (outside_nil _ _) Hw).
Qed.

(* registering one callback on every exit transition *)
Definition op_cbs (es : list nat) (c : cb) (s : NS) : NS := fold_left (fun s e => op_cb e c s) es s.

Lemma nfor_cbs : forall es c s, nfor es (fun e => add_callback e c) s = Ok (tt, op_cbs es c s).
Proof.
  induction es as [|e r IH]; intros c s; [reflexivity|].
  cbn [nfor]. rewrite (nbind_ok _ _ _ _ _ _ _ (add_callback_eq _ _ _)). apply IH.
Qed.

Lemma op_cbs_facts : forall es c s, NoDup es -> (forall e, In e es -> e < List.length (ns_cbs s)) ->
    (forall j, preN (op_cbs es c s) j = preN s j /\ postN (op_cbs es c s) j = postN s j /\
               cbsN (op_cbs es c s) j = cbsN s j ++ (if hits es j then [c] else [])) /\
    ns_apis (op_cbs es c s) = ns_apis s /\ ns_place_dict (op_cbs es c s) = ns_place_dict s /\
    ns_places (op_cbs es c s) = ns_places s /\ List.length (ns_trans (op_cbs es c s)) = List.length (ns_trans s) /\
    List.length (ns_cbs (op_cbs es c s)) = List.length (ns_cbs s) /\ ns_fresh (op_cbs es c s) = ns_fresh s /\
    rest_of (op_cbs es c s) = rest_of s.
Proof.
  induction es as [|e r IH]; intros c s Hnd Hlt.
  - cbn [op_cbs fold_left]. split; [intro j; rewrite app_nil_r; auto|]. repeat split; reflexivity.
  - inversion Hnd as [|? ? Hnin Hnd']; subst. cbn [op_cbs fold_left]. fold (op_cbs r c (op_cb e c s)).
    destruct (IH c (op_cb e c s) Hnd') as (Hj & A & D & P & T & C & F & R).
    { intros e' He'. autorewrite with netops. apply Hlt. right. exact He'. }
    split.
    + intro j. destruct (Hj j) as (J1 & J2 & J3). rewrite J1, J2, J3. autorewrite with netops.
      split; [reflexivity|]. split; [reflexivity|].
      unfold hits. cbn [existsb].
      rewrite (proj2 (Nat.ltb_lt e _)) by (apply Hlt; left; reflexivity).
      destruct (Nat.eqb_spec j e) as [->|Hne]; cbn [andb orb].
      * fold (hits r e). rewrite hits_false by (intros e' He' ->; contradiction). rewrite app_nil_r. reflexivity.
      * rewrite app_nil_r. reflexivity.
    + rewrite A, D, P, T, C, F, R. autorewrite with netops. repeat split; reflexivity.
Qed.

Lemma exits_nodup_block : forall l,
    Forall (fun s => frag s = true -> forall p, NoDup (exits s p)) l ->
    frag_block l = true -> forall p, NoDup (exits_b l p).
Proof.
  induction l as [|s r IH]; intros HF Hf p; [discriminate|].
  inversion HF as [|? ? Hs Hr]; subst. apply frag_block_cons in Hf. destruct Hf as [Hfs Hfr].
  unfold exits_b. destruct r as [|s' r]; [rewrite last_of_one; apply Hs; exact Hfs|].
  destruct Hfr as [Hfr|Hfr]; [discriminate|]. rewrite last_of_cons. apply IH; assumption.
Qed.

Lemma exits_nodup : forall s, frag s = true -> forall p, NoDup (exits s p).
Proof.
  induction s as [n a i|t a i body IH|bs IH|e P F IHp IHf|e b IH|v l b IH|v l c IH] using xstmt_ind';
    intros H p0; try discriminate H; cbn [exits].
  - constructor; [intros []|constructor].
  - apply frag_call in H. destruct H as [_ H]. apply (exits_nodup_block body IH H).
  - constructor; [intros []|constructor].
  - destruct F; (constructor; [intros [E|[]]; fold (ntrans_b P) in E; lia|constructor; [intros []|constructor]]).
  - constructor; [intros []|constructor].
  - constructor; [intros []|constructor].
Qed.

Lemma exits_nodup_b : forall l, frag_block l = true -> forall p, NoDup (exits_b l p).
Proof.
  intros l H. apply exits_nodup_block; [|exact H]. apply Forall_forall. intros s _ Hs. apply exits_nodup. exact Hs.
Qed.

Lemma GenF_op_cbs : forall es c s, NoDup es -> (forall e, In e es -> e < List.length (ns_cbs s)) ->
    GenF s (op_cbs es c s) fnil fnil (fun j => if hits es j then [c] else []).
Proof.
  intros es c s Hnd Hlt. destruct (op_cbs_facts es c s Hnd Hlt) as (Hj & A & D & P & T & C & F & R).
  constructor.
  - rewrite P. apply places_self.
  - rewrite T. apply Nat.le_refl.
  - rewrite A. apply Nat.le_refl.
  - intros j _. rewrite A. reflexivity.
  - intros j _. rewrite (proj1 (Hj j)). unfold fnil. rewrite app_nil_r. reflexivity.
  - intros j _. rewrite (proj1 (proj2 (Hj j))). unfold fnil. rewrite app_nil_r. reflexivity.
  - intros j _. apply (proj2 (proj2 (Hj j))).
  - exists []. split; [rewrite D; reflexivity|constructor].
  - exact R.
Qed.

Lemma agree_op_cbs : forall N es c p dt da, NoDup es -> (forall e, In e es -> e < List.length (ns_cbs N)) ->
    agree N (op_cbs es c N) p dt da es [c].
Proof.
  intros N es c p dt da Hnd Hlt. destruct (op_cbs_facts es c N Hnd Hlt) as (Hj & A & D & _).
  split; [|split].
  - intros j _. apply Hj.
  - intros j _. rewrite A. reflexivity.
  - exists []. split; [rewrite D; reflexivity|constructor].
Qed.

Lemma gen_call : forall t at_ ins body, Forall GenOK body -> GenOK (XCall t at_ ins body).
Proof.
  intros t at_ ins body HF Hf k ctx t1 t2 ns Hkeys Hok H1 H2 p. set (il := s_il k).
  apply frag_call in Hf. destruct Hf as [_ Hfb].
  destruct Hok as [Hcb Hfr].
  cbn [pg_stmt]. rewrite nbind_fresh, nbind_new_api.
  rewrite (nbind_ok _ _ _ _ _ _ _ (add_callback_eq _ _ _)).
  set (a := List.length (ns_apis ns)).
  set (A := {| a_is_task := true; a_name := t; a_site := at_; a_uuid := IUuid (ns_fresh ns); a_ctx := Some ctx;
               a_in_loop := il; a_params := ins; a_src := ins; a_has_call := true |}).
  set (ns1 := op_cb t1 (CbTS a) (op_api A ns)).
  assert (Ok1 : okns ns1).
  { unfold ns1. split; autorewrite with netops; [exact Hcb|]. rewrite app_length. cbn [List.length]. lia. }
  assert (P1 : pos_of (si_task t il) ns1 = body_pos t p).
  { unfold ns1, pos_of, body_pos, p, pos_of. autorewrite with netops. rewrite app_length. cbn [List.length pp pt pa]. f_equal. lia. }
  assert (Lt1 : List.length (ns_trans ns1) = List.length (ns_trans ns)) by (unfold ns1; autorewrite with netops; reflexivity).
  rewrite keys_ok_call in Hkeys.
  destruct (gen_block_go body HF Hfb il t [] (List.length body) 0 t1 [] a t2 ns1 Hkeys eq_refl Ok1 ltac:(lia) ltac:(lia))
    as (ns2 & E2 & G2 & P2 & Ok2 & W2).
  change (mksi t [] 0 il) with (si_task t il) in E2, G2, P2, W2.
  rewrite P1 in E2, G2, P2, W2. set (bp := body_pos t p) in *.
  pose proof (exits_range_b body Hfb bp) as [_ Hex].
  assert (Lt2 : List.length (ns_trans ns2) = pt bp + ntrans_b body).
  { pose proof (f_equal pt P2) as E. unfold pos_of, adv_b in E. cbn [pt] in E. exact E. }
  assert (Hbp : pt bp = List.length (ns_trans ns)) by reflexivity.
  unfold nbind at 1. rewrite E2. unfold nbind at 1. rewrite nfor_cbs. unfold nret.
  set (es := exits_b body bp) in *.
  assert (Hnd : NoDup es) by (apply exits_nodup_b; exact Hfb).
  assert (Hlt : forall e, In e es -> e < List.length (ns_cbs ns2)).
  { intros e He. destruct Ok2 as [Hc2 _]. rewrite Hc2, Lt2. apply Hex. exact He. }
  exists (op_cbs es (CbTF a) ns2). split; [reflexivity|]. split; [|split; [|split]].
  - unfold Gen in *.
    eapply GenF_ext;
      [eapply GenF_trans; [apply (GenF_op_api A ns)|
       eapply GenF_trans; [apply (GenF_op_cb t1 (CbTS a) (op_api A ns)); autorewrite with netops; exact Hcb|
       eapply GenF_trans; [exact G2|apply (GenF_op_cbs es (CbTF a) ns2 Hnd Hlt)]]]|].
    intros j Hj. cbn beta. unfold fnil. cbn [app]. rewrite !app_nil_r.
    assert (Ee : hits es j = false) by (apply hits_false; intros e He ->; specialize (Hex _ He); lia).
    rewrite Ee, app_nil_r.
    split; [reflexivity|]. split; [reflexivity|].
    rewrite startcbs_call_eq. destruct (Nat.eqb j t1); reflexivity.
  - destruct (op_cbs_facts es (CbTF a) ns2 Hnd Hlt) as (_ & A' & _ & P' & T' & _).
    rewrite (pos_of_same _ _ ns2 P' T' A'), (pos_of_resite _ (si_next k) _ _ P2).
    unfold resite, adv_b, adv, bp, body_pos, p, pos_of.
    cbn [pp pt pa psi]. rewrite nplaces_call, ntrans_call, napis_call. f_equal. lia.
  - destruct (op_cbs_facts es (CbTF a) ns2 Hnd Hlt) as (_ & A' & _ & _ & T' & C' & F' & _).
    destruct Ok2 as [Hcb2 Hfr2]. split; [rewrite C', T'; exact Hcb2|rewrite F', A'; exact Hfr2].
  - cbn [wired]. split.
    + change (s_il (psi p)) with il. destruct (op_cbs_facts es (CbTF a) ns2 Hnd Hlt) as (_ & A' & _). rewrite A'.
      rewrite (gn_apis _ _ _ _ _ G2) by (unfold ns1; autorewrite with netops; rewrite app_length; cbn [List.length]; unfold p, pos_of; cbn [pa]; lia).
      unfold ns1. autorewrite with netops. unfold p, pos_of. cbn [pa].
      rewrite nth_error_app2, Nat.sub_diag by lia. unfold A. rewrite Hfr. reflexivity.
    + change (CbTF (pa p) :: []) with ([] ++ [CbTF a]).
      apply (wired_block_exits ns2 (op_cbs es (CbTF a) ns2) [CbTF a] body Hfb bp a []); [|exact W2].
      apply agree_op_cbs; assumption.
Qed.

Lemma gen_par : forall bs, Forall GenOK bs -> GenOK (XParallel bs).
Proof.
  intros bs HF Hf k ctx t1 t2 ns Hkeys Hok H1 H2 p. set (il := s_il k).
  apply frag_par in Hf. destruct Hf as [_ Hfb].
  cbn [pg_stmt]. rewrite (nbind_ok _ _ _ _ _ _ _ (create_transition_eq _)).
  rewrite (nbind_ok _ _ _ _ _ _ _ (create_place_eq _)).
  set (sync := List.length (ns_trans ns)).
  assert (Hs0 : sync = List.length (ns_trans ns)) by reflexivity.
  replace (List.length (ns_places (op_trans ns))) with (List.length (ns_places ns)) by (autorewrite with netops; reflexivity).
  set (pfin := List.length (ns_places ns)).
  set (ns1 := op_place (op_trans ns)).
  assert (Ok1 : okns ns1).
  { destruct Hok as [Hcb Hfr]. unfold ns1. split; autorewrite with netops; [lia|exact Hfr]. }
  assert (P1 : pos_of (si_sub k) ns1 = par_pos p).
  { unfold ns1, pos_of, par_pos, p, pos_of. autorewrite with netops. rewrite app_length. cbn [List.length pp pt pa psi]. f_equal. lia. }
  assert (Lt1 : List.length (ns_trans ns1) = S sync) by (unfold ns1; autorewrite with netops; reflexivity).
  rewrite keys_ok_par in Hkeys. change (s_pre k ++ [s_idx k]) with (s_path k) in Hkeys.
  destruct (gen_calls bs HF Hfb il (s_tn k) (s_path k) 0 ctx t1 sync ns1 Hkeys Ok1 ltac:(lia) ltac:(lia)) as (ns2 & E2 & G2 & P2 & Ok2 & W2).
  change (mksi (s_tn k) (s_path k) 0 il) with (si_sub k) in E2, G2, P2, W2.
  rewrite P1 in G2, P2, W2. set (q := par_pos p) in *.
  assert (Lt2 : List.length (ns_trans ns2) = pt q + ntrans_l bs).
  { pose proof (f_equal pt P2) as E. unfold pos_of, adv_l in E. cbn [pt] in E. exact E. }
  assert (Hq : pt q = S sync) by reflexivity.
  unfold nbind at 1. rewrite E2.
  rewrite (nbind_ok _ _ _ _ _ _ _ (add_output_eq _ _ _)).
  rewrite (nbind_ok _ _ _ _ _ _ _ (add_input_eq _ _ _)). unfold nret.
  set (ns3 := op_in pfin t2 (op_out pfin sync ns2)).
  assert (G23 : GenF ns2 ns3 (fun j => [] ++ (if Nat.eqb j t2 then [pfin] else []))
                     (fun j => (if Nat.eqb j sync then [pfin] else []) ++ []) (fun j => [] ++ [])).
  { unfold ns3. eapply GenF_trans; [apply GenF_op_out|apply GenF_op_in]. }
  assert (G13 : GenF ns1 ns3
                     (fun j => (if Nat.eqb j sync then cat_of (fun b q => [xplace b q]) bs q else []) ++ ([] ++ (if Nat.eqb j t2 then [pfin] else [])))
                     (fun j => (if Nat.eqb j t1 then cat_of entries bs q else []) ++ ((if Nat.eqb j sync then [pfin] else []) ++ []))
                     (fun j => (if Nat.eqb j t1 then cat_of (fun b q => startcbs b q ctx) bs q else []) ++ ([] ++ []))).
  { eapply GenF_trans; [exact G2|exact G23]. }
  exists ns3. split; [reflexivity|]. split; [|split; [|split]].
  - unfold Gen.
    eapply GenF_ext;
      [eapply GenF_trans; [apply (GenF_op_trans ns)|eapply GenF_trans; [apply (GenF_op_place (op_trans ns))|exact G13]]|].
    intros j Hj. cbn beta. unfold fnil. cbn [app]. rewrite !app_nil_r.
    assert (Ee : Nat.eqb j sync = false) by (apply Nat.eqb_neq; lia). rewrite Ee. cbn [app].
    rewrite ?app_nil_r. split; [reflexivity|]. split; reflexivity.
  - rewrite (pos_of_same _ ns3 ns2) by (unfold ns3; autorewrite with netops; reflexivity).
    rewrite (pos_of_resite _ (si_next k) _ _ P2). unfold resite, adv_l, adv, q, par_pos, p, pos_of.
    cbn [pp pt pa psi]. rewrite nplaces_par, ntrans_par, napis_par. f_equal; lia.
  - destruct Ok2 as [Hcb2 Hfr2]. unfold ns3. split; autorewrite with netops; assumption.
  - cbn [wired]. fold q. assert (Hp : pt p = sync) by reflexivity. rewrite Hp.
    rewrite (gn_pre _ _ _ _ _ G13 sync), (gn_post _ _ _ _ _ G13 sync), (gn_cbs _ _ _ _ _ G13 sync) by lia.
    unfold ns1. autorewrite with netops.
    rewrite (preN_beyond ns), (postN_beyond ns), (cbsN_beyond ns) by (destruct Hok; lia).
    rewrite Nat.eqb_refl.
    assert (E1 : Nat.eqb sync t1 = false) by (apply Nat.eqb_neq; lia).
    assert (E2' : Nat.eqb sync t2 = false) by (apply Nat.eqb_neq; lia).
    rewrite E1, E2'. cbn [app]. rewrite !app_nil_r.
    split; [reflexivity|]. split; [reflexivity|]. split; [reflexivity|].
    apply (wired_list_ext ns2 ns3 bs Hfb q ctx); [|exact W2].
    eapply GenF_agree; [exact G23| | |].
    + intros j Hj.
      assert (Es : Nat.eqb j sync = false) by (apply Nat.eqb_neq; lia).
      assert (Et : Nat.eqb j t2 = false) by (apply Nat.eqb_neq; lia).
      cbn beta. rewrite Es, Et. auto.
    + lia.
    + pose proof (f_equal pa P2) as Epa. unfold pos_of, adv_l in Epa. cbn [pa] in Epa. lia.
Qed.

Lemma gen_cond0 : forall e P, Forall GenOK P -> GenOK (XCond e P []).
Proof.
  intros e P HFP Hf k ctx t1 t2 ns Hkeys Hok H1 H2 p. set (il := s_il k).
  apply frag_cond0 in Hf. rename Hf into HfP.
  pose proof Hok as [Hcb Hfr].
  cbn [pg_stmt].
  do 3 rewrite (nbind_ok _ _ _ _ _ _ _ (create_place_eq _)).
  do 2 rewrite (nbind_ok _ _ _ _ _ _ _ (create_transition_eq _)).
  do 4 rewrite (nbind_ok _ _ _ _ _ _ _ (add_input_eq _ _ _)).
  rewrite (nbind_ok _ _ _ _ _ _ _ (create_place_eq _)).
  rewrite (nbind_ok _ _ _ _ _ _ _ (create_transition_eq _)).
  rewrite (nbind_ok _ _ _ _ _ _ _ (add_output_eq _ _ _)).
  autorewrite with netops. rewrite !app_length. cbn [List.length].
  set (pp0 := List.length (ns_places ns)). set (pt0 := List.length (ns_trans ns)). set (pa0 := List.length (ns_apis ns)).
  replace (pp0 + 1) with (S pp0) by lia. replace (S pp0 + 1) with (S (S pp0)) by lia.
  replace (S (S pp0) + 1) with (S (S (S pp0))) by lia.
  set (nsA := op_out _ _ _).
  assert (PA : pos_of (si_sub2 0 k) nsA = cond_p p).
  { unfold nsA, pos_of, cond_p, p, pos_of. autorewrite with netops. rewrite !app_length. cbn [List.length pp pt pa psi].
    fold pp0 pt0 pa0. f_equal; lia. }
  assert (OkA : okns nsA).
  { unfold nsA. split; autorewrite with netops; [lia|exact Hfr]. }
  assert (LtA : List.length (ns_trans nsA) = pt0 + 3) by (pose proof (f_equal pt PA) as E; cbn [pos_of cond_p pt] in E; fold pt0 in E; exact E).
  rewrite keys_ok_cond in Hkeys. change (s_pre k ++ [s_idx k]) with (s_path k) in Hkeys.
  destruct (gen_block_go P HFP HfP il (s_tn k) (s_path k ++ [0]) (List.length P) 0 pt0 [] ctx (S (S pt0)) nsA (proj1 Hkeys) eq_refl OkA ltac:(lia) ltac:(lia))
    as (nsB & EB & GB & PB & OkB & WB).
  change (mksi (s_tn k) (s_path k ++ [0]) 0 il) with (si_sub2 0 k) in EB, GB, PB, WB.
  rewrite PA in EB, GB, PB, WB. set (cp := cond_p p) in *.
  unfold nbind at 1. rewrite EB.
  rewrite (nbind_ok _ _ _ _ _ _ _ (add_output_eq _ _ _)).
  rewrite (nbind_ok _ _ _ _ _ _ _ (add_input_eq _ _ _)).
  rewrite (nbind_ok _ _ _ _ _ _ _ (add_callback_eq _ _ _)).
  set (nsC := op_cb t1 _ _).
  rewrite (nbind_ok _ _ _ _ _ _ _ (add_output_eq _ _ _)). unfold nret.
  assert (LtB : List.length (ns_trans nsB) = pt0 + 3 + ntrans_b P).
  { pose proof (f_equal pt PB) as E. unfold pos_of, adv_b, cp, cond_p in E. cbn [pt] in E. fold pt0 in E. exact E. }
  assert (LtC : List.length (ns_trans nsC) = pt0 + 3 + ntrans_b P) by (unfold nsC; autorewrite with netops; exact LtB).
  replace (pt0 + 1) with (S pt0) by lia.
  set (nsF := op_out (S (S (S pp0))) (S pt0) nsC).
  unfold Gen in GB.
  assert (Rpre : forall j, j < pt0 + 3 ->
             preN nsF j = preN nsA j ++ (if Nat.eqb j (S (S pt0)) then [xplace_b P cp] else [])
                                     ++ (if Nat.eqb j t2 then [S (S (S pp0))] else [])).
  { intros j Hj. unfold nsF, nsC. autorewrite with netops. rewrite (gn_pre _ _ _ _ _ GB j) by lia.
    rewrite LtB. rewrite <- ?app_assoc. destruct (Nat.eqb_spec j t2); cbn [andb]; [rewrite (proj2 (Nat.ltb_lt t2 _)) by lia|]; reflexivity. }
  assert (Rpost : forall j, j < pt0 + 3 ->
             postN nsF j = postN nsA j ++ (if Nat.eqb j pt0 then entries_b P cp else [])
                                       ++ (if Nat.eqb j t1 then [S (S pp0)] else [])
                                       ++ (if Nat.eqb j (S pt0) then [S (S (S pp0))] else [])).
  { intros j Hj. unfold nsF. autorewrite with netops. rewrite LtC.
    unfold nsC. autorewrite with netops. rewrite (gn_post _ _ _ _ _ GB j) by lia.
    rewrite LtB. rewrite <- !app_assoc. f_equal. f_equal.
    destruct (Nat.eqb_spec j t1); destruct (Nat.eqb_spec j (S pt0)); cbn [andb]; rewrite ?(proj2 (Nat.ltb_lt _ _)) by lia; reflexivity. }
  assert (Rcbs : forall j, j < pt0 + 3 ->
             cbsN nsF j = cbsN nsA j ++ (if Nat.eqb j pt0 then startcbs_b P cp ctx else [])
                                     ++ (if Nat.eqb j t1 then [CbCond e pp0 (S pp0) ctx] else [])).
  { intros j Hj. unfold nsF, nsC. autorewrite with netops. rewrite (gn_cbs _ _ _ _ _ GB j) by lia.
    destruct OkB as [B1 _]. rewrite B1, LtB. rewrite <- !app_assoc. f_equal. f_equal.
    destruct (Nat.eqb_spec j t1); cbn [andb]; [rewrite (proj2 (Nat.ltb_lt t1 _)) by lia|]; reflexivity. }
  exists nsF. split.
  { f_equal. f_equal. cbn [exits]. unfold p, pos_of. cbn [pt]. fold pt0. repeat (f_equal; try lia). }
  split; [|split; [|split]].
  - (* the frame *)
    assert (Hx : xplace (XCond e P []) p = S (S (S pp0))) by (cbn [xplace]; unfold p, pos_of; cbn [pp]; fold pp0; lia).
    assert (Hen : entries (XCond e P []) p = [S (S pp0)]) by (cbn [entries]; unfold p, pos_of; cbn [pp]; fold pp0; f_equal; lia).
    assert (Hsc : startcbs (XCond e P []) p ctx = [CbCond e pp0 (S pp0) ctx]).
    { cbn [startcbs]. unfold p, pos_of. cbn [pp]. fold pp0. replace (pp0 + 1) with (S pp0) by lia. reflexivity. }
    rewrite Hx, Hen, Hsc.
    unfold Gen. constructor.
    + assert (LpA : List.length (ns_places nsA) = pp0 + 4).
      { pose proof (f_equal pp PA) as E4. unfold pos_of, cond_p, p, pos_of in E4. cbn [pp] in E4. fold pp0 in E4. exact E4. }
      assert (LpB : List.length (ns_places nsB) = pp0 + 4 + nplaces_l P).
      { pose proof (f_equal pp PB) as E2. unfold pos_of, adv_b, cp, cond_p, p, pos_of in E2. cbn [pp] in E2. fold pp0 in E2. exact E2. }
      assert (QA : ns_places nsA = ns_places ns ++ repeat (Some 0) 4).
      { unfold nsA. autorewrite with netops. rewrite <- !app_assoc. reflexivity. }
      assert (QB : ns_places nsB = ns_places nsA ++ repeat (Some 0) (nplaces_l P)).
      { rewrite (gn_places _ _ _ _ _ GB) at 1. rewrite LpB, LpA. f_equal. f_equal. lia. }
      assert (QF : ns_places nsF = ns_places nsB) by (unfold nsF, nsC; autorewrite with netops; reflexivity).
      rewrite QF, LpB. fold pp0. rewrite QB, QA. rewrite <- !app_assoc, <- !repeat_app. f_equal. f_equal. lia.
    + unfold nsF, nsC. autorewrite with netops. fold pt0. lia.
    + pose proof (gn_napi _ _ _ _ _ GB) as A2.
      unfold nsF, nsC. autorewrite with netops.
      unfold nsA in A2. autorewrite with netops in A2. lia.
    + intros j Hj. unfold nsF, nsC. autorewrite with netops.
      rewrite (gn_apis _ _ _ _ _ GB) by (unfold nsA; autorewrite with netops; exact Hj).
      unfold nsA. autorewrite with netops. reflexivity.
    + intros j Hj. fold pt0 in Hj. rewrite (Rpre j) by lia.
      assert (E1 : Nat.eqb j (S (S pt0)) = false) by (apply Nat.eqb_neq; lia). rewrite E1. cbn [app].
      unfold nsA. autorewrite with netops. fold pt0.
      assert (E2 : Nat.eqb j pt0 = false) by (apply Nat.eqb_neq; lia).
      assert (E3 : Nat.eqb j (S pt0) = false) by (apply Nat.eqb_neq; lia).
      rewrite E2, E3. cbn [andb]. rewrite !app_nil_r. reflexivity.
    + intros j Hj. fold pt0 in Hj. rewrite (Rpost j) by lia.
      assert (E1 : Nat.eqb j (S (S pt0)) = false) by (apply Nat.eqb_neq; lia).
      assert (E2 : Nat.eqb j pt0 = false) by (apply Nat.eqb_neq; lia).
      assert (E3 : Nat.eqb j (S pt0) = false) by (apply Nat.eqb_neq; lia).
      rewrite E2, E3. cbn [app]. rewrite app_nil_r.
      unfold nsA. autorewrite with netops. fold pt0. rewrite E1. cbn [andb]. rewrite app_nil_r. reflexivity.
    + intros j Hj. fold pt0 in Hj. rewrite (Rcbs j) by lia.
      assert (E2 : Nat.eqb j pt0 = false) by (apply Nat.eqb_neq; lia).
      rewrite E2. cbn [app].
      unfold nsA. autorewrite with netops. reflexivity.
    + destruct (gn_dict _ _ _ _ _ GB) as (d1 & D1 & K1).
      exists d1. unfold nsF, nsC. autorewrite with netops.
      rewrite D1. unfold nsA at 1. autorewrite with netops. split; [reflexivity|].
      eapply Forall_impl; [|exact K1]. intros kv (k9 & E0 & Hk). exists k9. split; [exact E0|].
      unfold nsA in Hk. autorewrite with netops in Hk. exact Hk.
    + unfold nsF, nsC. autorewrite with netops.
      rewrite (gn_rest _ _ _ _ _ GB). unfold nsA. autorewrite with netops. reflexivity.
  - rewrite (pos_of_same _ nsF nsB) by (unfold nsF, nsC; autorewrite with netops; reflexivity).
    rewrite (pos_of_resite _ (si_next k) _ _ PB). unfold resite, adv_b, adv, cp, cond_p, p, pos_of. cbn [pp pt pa psi].
    rewrite nplaces_cond, ntrans_cond0, napis_cond. change (nplaces_l (@nil xstmt)) with 0. change (napis_l (@nil xstmt)) with 0.
    f_equal; lia.
  - destruct OkB as [E1 E2]. unfold nsF, nsC. split; autorewrite with netops; assumption.
  - (* the wiring *)
    assert (Hp : pt p = pt0 /\ pp p = pp0) by (split; reflexivity). destruct Hp as [Hpt Hpp].
    cbn [wired]. rewrite Hpt, Hpp. fold cp.
    replace (pt0 + 1) with (S pt0) by lia. replace (pt0 + 2) with (S (S pt0)) by lia.
    replace (pp0 + 1) with (S pp0) by lia. replace (pp0 + 2) with (S (S pp0)) by lia. replace (pp0 + 3) with (S (S (S pp0))) by lia.
    assert (Et1a : Nat.eqb pt0 t1 = false) by (apply Nat.eqb_neq; unfold pt0; lia).
    assert (Et1b : Nat.eqb (S pt0) t1 = false) by (apply Nat.eqb_neq; unfold pt0; lia).
    assert (Et1c : Nat.eqb (S (S pt0)) t1 = false) by (apply Nat.eqb_neq; unfold pt0; lia).
    assert (Et2a : Nat.eqb pt0 t2 = false) by (apply Nat.eqb_neq; unfold pt0; lia).
    assert (Et2b : Nat.eqb (S pt0) t2 = false) by (apply Nat.eqb_neq; unfold pt0; lia).
    assert (Et2c : Nat.eqb (S (S pt0)) t2 = false) by (apply Nat.eqb_neq; unfold pt0; lia).
    rewrite (Rpre pt0), (Rpost pt0), (Rcbs pt0), (Rpre (S pt0)), (Rpost (S pt0)), (Rcbs (S pt0)),
            (Rpre (S (S pt0))), (Rpost (S (S pt0))), (Rcbs (S (S pt0))) by lia.
    unfold nsA. autorewrite with netops. fold pt0.
    rewrite (preN_beyond ns), (postN_beyond ns), (cbsN_beyond ns) by (unfold pt0 in *; lia).
    rewrite (preN_beyond ns (S pt0)), (postN_beyond ns (S pt0)), (cbsN_beyond ns (S pt0)) by (unfold pt0 in *; lia).
    rewrite (preN_beyond ns (S (S pt0))), (postN_beyond ns (S (S pt0))), (cbsN_beyond ns (S (S pt0))) by (unfold pt0 in *; lia).
    rewrite ?Nat.eqb_refl, ?Et1a, ?Et1b, ?Et1c, ?Et2a, ?Et2b, ?Et2c.
    replace (Nat.eqb pt0 (S pt0)) with false by (symmetry; apply Nat.eqb_neq; lia).
    replace (Nat.eqb pt0 (S (S pt0))) with false by (symmetry; apply Nat.eqb_neq; lia).
    replace (Nat.eqb (S pt0) pt0) with false by (symmetry; apply Nat.eqb_neq; lia).
    replace (Nat.eqb (S pt0) (S (S pt0))) with false by (symmetry; apply Nat.eqb_neq; lia).
    replace (Nat.eqb (S (S pt0)) pt0) with false by (symmetry; apply Nat.eqb_neq; lia).
    replace (Nat.eqb (S (S pt0)) (S pt0)) with false by (symmetry; apply Nat.eqb_neq; lia).
    cbn [andb app].
    rewrite ?(proj2 (Nat.ltb_lt _ _)) by lia. cbn [app]. rewrite ?app_nil_r.
    repeat (split; [reflexivity|]).
    (* the Passed block survives what follows *)
    apply (wired_block_ext nsB nsF P HfP cp ctx []); [|exact WB].
    assert (G : GenF nsB nsF (fun j => if Nat.eqb j t2 then [S (S (S pp0))] else [])
                     (fun j => (if Nat.eqb j t1 then [S (S pp0)] else []) ++ (if Nat.eqb j (S pt0) then [S (S (S pp0))] else []))
                     (fun j => if Nat.eqb j t1 then [CbCond e pp0 (S pp0) ctx] else [])).
    { eapply GenF_ext;
        [eapply GenF_trans; [apply (GenF_op_out (S (S pp0)) t1 nsB)|
         eapply GenF_trans; [apply (GenF_op_in (S (S (S pp0))) t2)|
         eapply GenF_trans; [apply (GenF_op_cb t1 (CbCond e pp0 (S pp0) ctx)); autorewrite with netops; apply OkB|
         apply (GenF_op_out (S (S (S pp0))) (S pt0) nsC)]]]|].
      intros j Hj. cbn beta. unfold fnil. cbn [app]. rewrite ?app_nil_r. repeat split; reflexivity. }
    eapply GenF_agree; [exact G| | |].
    + intros j Hj. unfold cp, cond_p in Hj. cbn [pt] in Hj. rewrite Hpt in Hj.
      assert (Q1 : Nat.eqb j t1 = false) by (apply Nat.eqb_neq; unfold pt0 in *; lia).
      assert (Q2 : Nat.eqb j t2 = false) by (apply Nat.eqb_neq; unfold pt0 in *; lia).
      assert (Q4 : Nat.eqb j (S pt0) = false) by (apply Nat.eqb_neq; lia).
      cbn beta. rewrite Q1, Q2, Q4. auto.
    + unfold cp, cond_p. cbn [pt]. rewrite Hpt. lia.
    + pose proof (f_equal pa PB) as E0. unfold pos_of, adv_b in E0. cbn [pa] in E0. lia.
Qed.

Lemma gen_cond : forall e P F, Forall GenOK P -> Forall GenOK F -> GenOK (XCond e P F).
Proof.
  intros e P F HFP HFF. destruct F as [|f0 fr]; [apply gen_cond0; exact HFP|].
  intros Hf k ctx t1 t2 ns Hkeys Hok H1 H2 p. set (il := s_il k).
  apply frag_cond in Hf. destruct Hf as [HfP HfF].
  pose proof Hok as [Hcb Hfr].
  cbn [pg_stmt].
  do 3 rewrite (nbind_ok _ _ _ _ _ _ _ (create_place_eq _)).
  do 2 rewrite (nbind_ok _ _ _ _ _ _ _ (create_transition_eq _)).
  do 4 rewrite (nbind_ok _ _ _ _ _ _ _ (add_input_eq _ _ _)).
  rewrite (nbind_ok _ _ _ _ _ _ _ (create_place_eq _)).
  rewrite (nbind_ok _ _ _ _ _ _ _ (create_transition_eq _)).
  rewrite (nbind_ok _ _ _ _ _ _ _ (add_output_eq _ _ _)).
  autorewrite with netops. rewrite !app_length. cbn [List.length].
  set (pp0 := List.length (ns_places ns)). set (pt0 := List.length (ns_trans ns)). set (pa0 := List.length (ns_apis ns)).
  replace (pp0 + 1) with (S pp0) by lia. replace (S pp0 + 1) with (S (S pp0)) by lia.
  replace (S (S pp0) + 1) with (S (S (S pp0))) by lia.
  set (nsA := op_out _ _ _).
  assert (PA : pos_of (si_sub2 0 k) nsA = cond_p p).
  { unfold nsA, pos_of, cond_p, p, pos_of. autorewrite with netops. rewrite !app_length. cbn [List.length pp pt pa psi].
    fold pp0 pt0 pa0. f_equal; lia. }
  assert (OkA : okns nsA).
  { unfold nsA. split; autorewrite with netops; [lia|exact Hfr]. }
  assert (LtA : List.length (ns_trans nsA) = pt0 + 3) by (pose proof (f_equal pt PA) as E; cbn [pos_of cond_p pt] in E; fold pt0 in E; exact E).
  rewrite keys_ok_cond in Hkeys. change (s_pre k ++ [s_idx k]) with (s_path k) in Hkeys.
  destruct (gen_block_go P HFP HfP il (s_tn k) (s_path k ++ [0]) (List.length P) 0 pt0 [] ctx (S (S pt0)) nsA (proj1 Hkeys) eq_refl OkA ltac:(lia) ltac:(lia))
    as (nsB & EB & GB & PB & OkB & WB).
  change (mksi (s_tn k) (s_path k ++ [0]) 0 il) with (si_sub2 0 k) in EB, GB, PB, WB.
  rewrite PA in EB, GB, PB, WB. set (cp := cond_p p) in *.
  unfold nbind at 1. rewrite EB.
  rewrite (nbind_ok _ _ _ _ _ _ _ (add_output_eq _ _ _)).
  rewrite (nbind_ok _ _ _ _ _ _ _ (add_input_eq _ _ _)).
  rewrite (nbind_ok _ _ _ _ _ _ _ (add_callback_eq _ _ _)).
  set (nsC := op_cb t1 _ _).
  rewrite (nbind_ok _ _ _ _ _ _ _ (create_transition_eq _)).
  assert (LtB : List.length (ns_trans nsB) = pt0 + 3 + ntrans_b P).
  { pose proof (f_equal pt PB) as E. unfold pos_of, adv_b, cp, cond_p in E. cbn [pt] in E. fold pt0 in E. exact E. }
  assert (LtC : List.length (ns_trans nsC) = pt0 + 3 + ntrans_b P) by (unfold nsC; autorewrite with netops; exact LtB).
  rewrite LtC. set (sf := pt0 + 3 + ntrans_b P).
  set (nsD := op_trans nsC).
  assert (PD : pos_of (si_sub2 1 k) nsD = cond_f P p).
  { unfold nsD, nsC, pos_of. autorewrite with netops.
    pose proof (f_equal pp PB) as E1. pose proof (f_equal pa PB) as E3. unfold pos_of, adv_b, cp, cond_p in E1, E3. cbn [pp pa] in E1, E3.
    rewrite E1, E3, LtB. unfold cond_f, p, pos_of. cbn [pp pt pa psi]. fold pp0 pt0 pa0. f_equal; lia. }
  assert (OkD : okns nsD).
  { destruct OkB as [B1 B2]. unfold nsD, nsC. split; autorewrite with netops; [lia|exact B2]. }
  assert (LtD : List.length (ns_trans nsD) = S sf) by (unfold nsD; autorewrite with netops; rewrite LtC; reflexivity).
  destruct (gen_block_go (f0 :: fr) HFF HfF il (s_tn k) (s_path k ++ [1]) (List.length (f0 :: fr)) 0 (S pt0) [] ctx sf nsD (proj2 Hkeys) eq_refl OkD ltac:(lia) ltac:(lia))
    as (nsE & EE & GE & PE & OkE & WE).
  change (mksi (s_tn k) (s_path k ++ [1]) 0 il) with (si_sub2 1 k) in EE, GE, PE, WE.
  rewrite PD in EE, GE, PE, WE. set (cf := cond_f P p) in *.
  change (S (List.length fr)) with (List.length (f0 :: fr)).
  unfold nbind at 1. rewrite EE.
  rewrite (nbind_ok _ _ _ _ _ _ _ (add_output_eq _ _ _)). unfold nret.
  set (nsF := op_out (S (S (S pp0))) sf nsE).
  assert (LtE : List.length (ns_trans nsE) = S sf + ntrans_b (f0 :: fr)).
  { pose proof (f_equal pt PE) as E. unfold pos_of, adv_b, cf, cond_f, p, pos_of in E. cbn [pt] in E. fold pt0 in E. unfold sf. lia. }
  (* reading any transition of the final net through the whole history *)
  unfold Gen in GB, GE.
  assert (Rpre : forall j, j < pt0 + 3 ->
             preN nsF j = preN nsA j ++ (if Nat.eqb j (S (S pt0)) then [xplace_b P cp] else [])
                                     ++ (if Nat.eqb j t2 then [S (S (S pp0))] else [])).
  { intros j Hj. unfold nsF. autorewrite with netops.
    rewrite (gn_pre _ _ _ _ _ GE j) by lia.
    assert (Esf : Nat.eqb j sf = false) by (apply Nat.eqb_neq; unfold sf; lia). rewrite Esf, app_nil_r.
    unfold nsD, nsC. autorewrite with netops. rewrite (gn_pre _ _ _ _ _ GB j) by lia.
    rewrite LtB. rewrite <- ?app_assoc. destruct (Nat.eqb_spec j t2); cbn [andb]; [rewrite (proj2 (Nat.ltb_lt t2 _)) by lia|]; reflexivity. }
  assert (Rpost : forall j, j < pt0 + 3 ->
             postN nsF j = postN nsA j ++ (if Nat.eqb j pt0 then entries_b P cp else [])
                                       ++ (if Nat.eqb j t1 then [S (S pp0)] else [])
                                       ++ (if Nat.eqb j (S pt0) then entries_b (f0 :: fr) cf else [])).
  { intros j Hj. unfold nsF. autorewrite with netops.
    assert (Esf : Nat.eqb j sf = false) by (apply Nat.eqb_neq; unfold sf; lia). rewrite Esf. cbn [andb]. rewrite app_nil_r.
    rewrite (gn_post _ _ _ _ _ GE j) by lia.
    unfold nsD, nsC. autorewrite with netops. rewrite (gn_post _ _ _ _ _ GB j) by lia.
    rewrite LtB. rewrite <- !app_assoc. f_equal. f_equal.
    destruct (Nat.eqb_spec j t1); cbn [andb]; [rewrite (proj2 (Nat.ltb_lt t1 _)) by lia|]; reflexivity. }
  assert (Rcbs : forall j, j < pt0 + 3 ->
             cbsN nsF j = cbsN nsA j ++ (if Nat.eqb j pt0 then startcbs_b P cp ctx else [])
                                     ++ (if Nat.eqb j t1 then [CbCond e pp0 (S pp0) ctx] else [])
                                     ++ (if Nat.eqb j (S pt0) then startcbs_b (f0 :: fr) cf ctx else [])).
  { intros j Hj. unfold nsF. autorewrite with netops.
    rewrite (gn_cbs _ _ _ _ _ GE j) by lia.
    unfold nsD, nsC. autorewrite with netops. rewrite (gn_cbs _ _ _ _ _ GB j) by lia.
    destruct OkB as [B1 _]. rewrite B1, LtB. rewrite <- !app_assoc. f_equal. f_equal.
    destruct (Nat.eqb_spec j t1); cbn [andb]; [rewrite (proj2 (Nat.ltb_lt t1 _)) by lia|]; reflexivity. }
  exists nsF. split.
  { f_equal. f_equal. cbn [exits]. fold (ntrans_b P). unfold sf, p, pos_of. cbn [pt]. fold pt0.
    repeat (f_equal; try lia). }
  split; [|split; [|split]].
  - (* the frame *)
    assert (Hx : xplace (XCond e P (f0 :: fr)) p = S (S (S pp0))) by (cbn [xplace]; unfold p, pos_of; cbn [pp]; fold pp0; lia).
    assert (Hen : entries (XCond e P (f0 :: fr)) p = [S (S pp0)]) by (cbn [entries]; unfold p, pos_of; cbn [pp]; fold pp0; f_equal; lia).
    assert (Hsc : startcbs (XCond e P (f0 :: fr)) p ctx = [CbCond e pp0 (S pp0) ctx]).
    { cbn [startcbs]. unfold p, pos_of. cbn [pp]. fold pp0. replace (pp0 + 1) with (S pp0) by lia. reflexivity. }
    rewrite Hx, Hen, Hsc.
    unfold Gen. constructor.
    + assert (LpA : List.length (ns_places nsA) = pp0 + 4).
      { pose proof (f_equal pp PA) as E4. unfold pos_of, cond_p, p, pos_of in E4. cbn [pp] in E4. fold pp0 in E4. exact E4. }
      assert (LpB : List.length (ns_places nsB) = pp0 + 4 + nplaces_l P).
      { pose proof (f_equal pp PB) as E2. unfold pos_of, adv_b, cp, cond_p, p, pos_of in E2. cbn [pp] in E2. fold pp0 in E2. exact E2. }
      assert (LpD : List.length (ns_places nsD) = pp0 + 4 + nplaces_l P).
      { unfold nsD, nsC. autorewrite with netops. exact LpB. }
      assert (LpE : List.length (ns_places nsE) = pp0 + 4 + nplaces_l P + nplaces_l (f0 :: fr)).
      { pose proof (f_equal pp PE) as E1. unfold pos_of, adv_b, cf, cond_f, p, pos_of in E1. cbn [pp] in E1. fold pp0 in E1. exact E1. }
      assert (QA : ns_places nsA = ns_places ns ++ repeat (Some 0) 4).
      { unfold nsA. autorewrite with netops. rewrite <- !app_assoc. reflexivity. }
      assert (QB : ns_places nsB = ns_places nsA ++ repeat (Some 0) (nplaces_l P)).
      { rewrite (gn_places _ _ _ _ _ GB) at 1. rewrite LpB, LpA. f_equal. f_equal. lia. }
      assert (QD : ns_places nsD = ns_places nsB) by (unfold nsD, nsC; autorewrite with netops; reflexivity).
      assert (QE : ns_places nsE = ns_places nsD ++ repeat (Some 0) (nplaces_l (f0 :: fr))).
      { rewrite (gn_places _ _ _ _ _ GE) at 1. rewrite LpE, LpD. f_equal. f_equal. lia. }
      assert (QF : ns_places nsF = ns_places nsE) by (unfold nsF; autorewrite with netops; reflexivity).
      rewrite QF, LpE. fold pp0. rewrite QE, QD, QB, QA. rewrite <- !app_assoc, <- !repeat_app. f_equal. f_equal. lia.
    + unfold nsF. autorewrite with netops. fold pt0. lia.
    + pose proof (gn_napi _ _ _ _ _ GE) as A1. pose proof (gn_napi _ _ _ _ _ GB) as A2.
      unfold nsF. autorewrite with netops. unfold nsD, nsC in A1. autorewrite with netops in A1.
      unfold nsA in A2. autorewrite with netops in A2. lia.
    + intros j Hj. unfold nsF. autorewrite with netops.
      pose proof (gn_napi _ _ _ _ _ GB) as A2. unfold nsA in A2. autorewrite with netops in A2.
      rewrite (gn_apis _ _ _ _ _ GE) by (unfold nsD, nsC; autorewrite with netops; lia).
      unfold nsD, nsC. autorewrite with netops.
      rewrite (gn_apis _ _ _ _ _ GB) by (unfold nsA; autorewrite with netops; exact Hj).
      unfold nsA. autorewrite with netops. reflexivity.
    + intros j Hj. fold pt0 in Hj. rewrite (Rpre j) by lia.
      assert (E1 : Nat.eqb j (S (S pt0)) = false) by (apply Nat.eqb_neq; lia). rewrite E1. cbn [app].
      unfold nsA. autorewrite with netops. fold pt0.
      assert (E2 : Nat.eqb j pt0 = false) by (apply Nat.eqb_neq; lia).
      assert (E3 : Nat.eqb j (S pt0) = false) by (apply Nat.eqb_neq; lia).
      rewrite E2, E3. cbn [andb]. rewrite !app_nil_r. reflexivity.
    + intros j Hj. fold pt0 in Hj. rewrite (Rpost j) by lia.
      assert (E1 : Nat.eqb j (S (S pt0)) = false) by (apply Nat.eqb_neq; lia).
      assert (E2 : Nat.eqb j pt0 = false) by (apply Nat.eqb_neq; lia).
      assert (E3 : Nat.eqb j (S pt0) = false) by (apply Nat.eqb_neq; lia).
      rewrite E2, E3. cbn [app]. rewrite app_nil_r.
      unfold nsA. autorewrite with netops. fold pt0. rewrite E1. cbn [andb]. rewrite app_nil_r. reflexivity.
    + intros j Hj. fold pt0 in Hj. rewrite (Rcbs j) by lia.
      assert (E2 : Nat.eqb j pt0 = false) by (apply Nat.eqb_neq; lia).
      assert (E3 : Nat.eqb j (S pt0) = false) by (apply Nat.eqb_neq; lia).
      rewrite E2, E3. cbn [app]. rewrite app_nil_r.
      unfold nsA. autorewrite with netops. reflexivity.
    + destruct (gn_dict _ _ _ _ _ GB) as (d1 & D1 & K1). destruct (gn_dict _ _ _ _ _ GE) as (d2 & D2 & K2).
      exists (d2 ++ d1). unfold nsF. autorewrite with netops. rewrite D2. unfold nsD, nsC. autorewrite with netops.
      rewrite D1. unfold nsA at 1. autorewrite with netops. split; [rewrite app_assoc; reflexivity|].
      apply Forall_app. split.
      * eapply Forall_impl; [|exact K2]. intros kv (k9 & E0 & Hk). exists k9. split; [exact E0|].
        pose proof (gn_napi _ _ _ _ _ GB) as A2. unfold nsA in A2. autorewrite with netops in A2.
        unfold nsD, nsC in Hk. autorewrite with netops in Hk. lia.
      * eapply Forall_impl; [|exact K1]. intros kv (k9 & E0 & Hk). exists k9. split; [exact E0|].
        unfold nsA in Hk. autorewrite with netops in Hk. exact Hk.
    + unfold nsF. autorewrite with netops. rewrite (gn_rest _ _ _ _ _ GE). unfold nsD, nsC. autorewrite with netops.
      rewrite (gn_rest _ _ _ _ _ GB). unfold nsA. autorewrite with netops. reflexivity.
  - rewrite (pos_of_same _ nsF nsE) by (unfold nsF; autorewrite with netops; reflexivity).
    rewrite (pos_of_resite _ (si_next k) _ _ PE). unfold resite, adv_b, adv, cf, cond_f, p, pos_of. cbn [pp pt pa psi].
    rewrite nplaces_cond, ntrans_cond, napis_cond. f_equal; lia.
  - destruct OkE as [E1 E2]. unfold nsF. split; autorewrite with netops; assumption.
  - (* the wiring *)
    assert (Hp : pt p = pt0 /\ pp p = pp0) by (split; reflexivity). destruct Hp as [Hpt Hpp].
    cbn [wired]. rewrite Hpt, Hpp. unfold cond_sf. rewrite Hpt. fold sf. fold cp. fold cf.
    replace (pt0 + 1) with (S pt0) by lia. replace (pt0 + 2) with (S (S pt0)) by lia.
    replace (pp0 + 1) with (S pp0) by lia. replace (pp0 + 2) with (S (S pp0)) by lia. replace (pp0 + 3) with (S (S (S pp0))) by lia.
    assert (Et1a : Nat.eqb pt0 t1 = false) by (apply Nat.eqb_neq; unfold pt0; lia).
    assert (Et1b : Nat.eqb (S pt0) t1 = false) by (apply Nat.eqb_neq; unfold pt0; lia).
    assert (Et1c : Nat.eqb (S (S pt0)) t1 = false) by (apply Nat.eqb_neq; unfold pt0; lia).
    assert (Et2a : Nat.eqb pt0 t2 = false) by (apply Nat.eqb_neq; unfold pt0; lia).
    assert (Et2b : Nat.eqb (S pt0) t2 = false) by (apply Nat.eqb_neq; unfold pt0; lia).
    assert (Et2c : Nat.eqb (S (S pt0)) t2 = false) by (apply Nat.eqb_neq; unfold pt0; lia).
    rewrite (Rpre pt0), (Rpost pt0), (Rcbs pt0), (Rpre (S pt0)), (Rpost (S pt0)), (Rcbs (S pt0)),
            (Rpre (S (S pt0))), (Rpost (S (S pt0))), (Rcbs (S (S pt0))) by lia.
    unfold nsA. autorewrite with netops. fold pt0.
    rewrite (preN_beyond ns), (postN_beyond ns), (cbsN_beyond ns) by (unfold pt0 in *; lia).
    rewrite (preN_beyond ns (S pt0)), (postN_beyond ns (S pt0)), (cbsN_beyond ns (S pt0)) by (unfold pt0 in *; lia).
    rewrite (preN_beyond ns (S (S pt0))), (postN_beyond ns (S (S pt0))), (cbsN_beyond ns (S (S pt0))) by (unfold pt0 in *; lia).
    rewrite ?Nat.eqb_refl, ?Et1a, ?Et1b, ?Et1c, ?Et2a, ?Et2b, ?Et2c.
    replace (Nat.eqb pt0 (S pt0)) with false by (symmetry; apply Nat.eqb_neq; lia).
    replace (Nat.eqb pt0 (S (S pt0))) with false by (symmetry; apply Nat.eqb_neq; lia).
    replace (Nat.eqb (S pt0) pt0) with false by (symmetry; apply Nat.eqb_neq; lia).
    replace (Nat.eqb (S pt0) (S (S pt0))) with false by (symmetry; apply Nat.eqb_neq; lia).
    replace (Nat.eqb (S (S pt0)) pt0) with false by (symmetry; apply Nat.eqb_neq; lia).
    replace (Nat.eqb (S (S pt0)) (S pt0)) with false by (symmetry; apply Nat.eqb_neq; lia).
    cbn [andb app].
    rewrite ?(proj2 (Nat.ltb_lt _ _)) by lia. cbn [app]. rewrite ?app_nil_r.
    repeat (split; [reflexivity|]).
    (* sf *)
    assert (Rsf : preN nsF sf = [xplace_b (f0 :: fr) cf] /\ postN nsF sf = [S (S (S pp0))] /\ cbsN nsF sf = []).
    { unfold nsF. autorewrite with netops. rewrite (gn_pre _ _ _ _ _ GE sf), (gn_post _ _ _ _ _ GE sf), (gn_cbs _ _ _ _ _ GE sf) by lia.
      unfold nsD. autorewrite with netops.
      rewrite (preN_beyond nsC), (postN_beyond nsC), (cbsN_beyond nsC) by (destruct OkB as [B1 _]; unfold nsC; autorewrite with netops; lia).
      rewrite Nat.eqb_refl. assert (E9 : Nat.eqb sf (S pt0) = false) by (apply Nat.eqb_neq; unfold sf; lia). rewrite E9.
      cbn [andb app]. rewrite (proj2 (Nat.ltb_lt sf _)) by lia. repeat split; reflexivity. }
    destruct Rsf as (R1 & R2 & R3). rewrite R1, R2, R3.
    repeat (split; [reflexivity|]).
    split.
    + (* the Passed block survives what follows *)
      apply (wired_block_ext nsB nsF P HfP cp ctx []); [|exact WB].
      assert (G : GenF nsB nsF (fun j => (if Nat.eqb j t2 then [S (S (S pp0))] else []) ++ (if Nat.eqb j sf then [xplace_b (f0 :: fr) cf] else []))
                       (fun j => (if Nat.eqb j t1 then [S (S pp0)] else []) ++ (if Nat.eqb j (S pt0) then entries_b (f0 :: fr) cf else []) ++ (if Nat.eqb j sf then [S (S (S pp0))] else []))
                       (fun j => (if Nat.eqb j t1 then [CbCond e pp0 (S pp0) ctx] else []) ++ (if Nat.eqb j (S pt0) then startcbs_b (f0 :: fr) cf ctx else []))).
      { eapply GenF_ext;
          [eapply GenF_trans; [apply (GenF_op_out (S (S pp0)) t1 nsB)|
           eapply GenF_trans; [apply (GenF_op_in (S (S (S pp0))) t2)|
           eapply GenF_trans; [apply (GenF_op_cb t1 (CbCond e pp0 (S pp0) ctx)); autorewrite with netops; apply OkB|
           eapply GenF_trans; [apply (GenF_op_trans nsC)|
           eapply GenF_trans; [exact GE|apply (GenF_op_out (S (S (S pp0))) sf nsE)]]]]]|].
        intros j Hj. cbn beta. unfold fnil. cbn [app]. rewrite !app_nil_r. repeat split; reflexivity. }
      eapply GenF_agree; [exact G| | |].
      * intros j Hj. unfold cp, cond_p in Hj. cbn [pt] in Hj. rewrite Hpt in Hj.
        assert (Q1 : Nat.eqb j t1 = false) by (apply Nat.eqb_neq; unfold pt0 in *; lia).
        assert (Q2 : Nat.eqb j t2 = false) by (apply Nat.eqb_neq; unfold pt0 in *; lia).
        assert (Q3 : Nat.eqb j sf = false) by (apply Nat.eqb_neq; unfold sf; lia).
        assert (Q4 : Nat.eqb j (S pt0) = false) by (apply Nat.eqb_neq; lia).
        cbn beta. rewrite Q1, Q2, Q3, Q4. auto.
      * unfold cp, cond_p. cbn [pt]. rewrite Hpt. lia.
      * pose proof (f_equal pa PB) as E0. unfold pos_of, adv_b in E0. cbn [pa] in E0. lia.
    + apply (wired_block_ext nsE nsF (f0 :: fr) HfF cf ctx []); [|exact WE].
      eapply GenF_agree; [apply (GenF_op_out (S (S (S pp0))) sf nsE)| | |].
      * intros j Hj. unfold cf, cond_f in Hj. cbn [pt] in Hj. rewrite Hpt in Hj.
        assert (Q3 : Nat.eqb j sf = false) by (apply Nat.eqb_neq; unfold sf; lia).
        cbn beta. rewrite Q3. unfold fnil. auto.
      * unfold cf, cond_f. cbn [pt]. rewrite Hpt. unfold sf in LtE. lia.
      * pose proof (f_equal pa PE) as E0. unfold pos_of, adv_b in E0. cbn [pa] in E0. lia.
Qed.

Lemma gen_while : forall e B, Forall GenOK B -> GenOK (XWhile e B).
Proof.
  intros e B HFB Hf k ctx t1 t2 ns Hkeys Hok H1 H2 p. set (il := s_il k).
  apply frag_while in Hf. rename Hf into HfB.
  pose proof Hok as [Hcb Hfr].
  cbn [pg_stmt].
  do 3 rewrite (nbind_ok _ _ _ _ _ _ _ (create_place_eq _)).
  do 3 rewrite (nbind_ok _ _ _ _ _ _ _ (create_transition_eq _)).
  do 4 rewrite (nbind_ok _ _ _ _ _ _ _ (add_input_eq _ _ _)).
  rewrite (nbind_ok _ _ _ _ _ _ _ (add_output_eq _ _ _)).
  rewrite (nbind_ok _ _ _ _ _ _ _ (create_place_eq _)).
  autorewrite with netops. rewrite !app_length. cbn [List.length].
  set (pp0 := List.length (ns_places ns)). set (pt0 := List.length (ns_trans ns)). set (pa0 := List.length (ns_apis ns)).
  replace (pp0 + 1) with (S pp0) by lia. replace (S pp0 + 1) with (S (S pp0)) by lia.
  replace (S (S pp0) + 1) with (S (S (S pp0))) by lia.
  replace (pt0 + 1) with (S pt0) by lia. replace (S pt0 + 1) with (S (S pt0)) by lia.
  set (nsA := op_place _).
  assert (PA : pos_of (si_loop k) nsA = loop_p p).
  { unfold nsA, pos_of, loop_p, p, pos_of. autorewrite with netops. rewrite !app_length. cbn [List.length pp pt pa psi].
    fold pp0 pt0 pa0. f_equal; lia. }
  assert (OkA : okns nsA).
  { unfold nsA. split; autorewrite with netops; [lia|exact Hfr]. }
  assert (LtA : List.length (ns_trans nsA) = pt0 + 3) by (pose proof (f_equal pt PA) as E; cbn [pos_of loop_p pt] in E; fold pt0 in E; exact E).
  rewrite keys_ok_while in Hkeys. change (s_pre k ++ [s_idx k]) with (s_path k) in Hkeys.
  destruct (gen_block_go B HFB HfB true (s_tn k) (s_path k) (List.length B) 0 pt0 [] ctx (S (S pt0)) nsA Hkeys eq_refl OkA ltac:(lia) ltac:(lia))
    as (nsB & EB & GB & PB & OkB & WB).
  change (mksi (s_tn k) (s_path k) 0 true) with (si_loop k) in EB, GB, PB, WB.
  rewrite PA in EB, GB, PB, WB. set (cp := loop_p p) in *.
  unfold nbind at 1. rewrite EB.
  rewrite (nbind_ok _ _ _ _ _ _ _ (add_output_eq _ _ _)).
  rewrite (nbind_ok _ _ _ _ _ _ _ (add_input_eq _ _ _)).
  rewrite (nbind_ok _ _ _ _ _ _ _ (add_callback_eq _ _ _)).
  rewrite (nbind_ok _ _ _ _ _ _ _ (add_callback_eq _ _ _)).
  rewrite (nbind_ok _ _ _ _ _ _ _ (add_output_eq _ _ _)). unfold nret.
  set (CW := CbWhile e (S pp0) (S (S pp0)) ctx).
  set (nsC := op_cb (S (S pt0)) CW (op_cb t1 CW (op_in (S (S (S pp0))) t2 (op_out pp0 t1 nsB)))).
  set (nsF := op_out (S (S (S pp0))) (S pt0) nsC).
  assert (LtB : List.length (ns_trans nsB) = pt0 + 3 + ntrans_b B).
  { pose proof (f_equal pt PB) as E. unfold pos_of, adv_b, cp, loop_p in E. cbn [pt] in E. fold pt0 in E. exact E. }
  assert (LtC : List.length (ns_trans nsC) = pt0 + 3 + ntrans_b B) by (unfold nsC; autorewrite with netops; exact LtB).
  unfold Gen in GB.
  assert (Rpre : forall j, j < pt0 + 3 ->
             preN nsF j = preN nsA j ++ (if Nat.eqb j (S (S pt0)) then [xplace_b B cp] else [])
                                     ++ (if Nat.eqb j t2 then [S (S (S pp0))] else [])).
  { intros j Hj. unfold nsF, nsC. autorewrite with netops. rewrite (gn_pre _ _ _ _ _ GB j) by lia.
    rewrite LtB. rewrite <- ?app_assoc. destruct (Nat.eqb_spec j t2); cbn [andb]; [rewrite (proj2 (Nat.ltb_lt t2 _)) by lia|]; reflexivity. }
  assert (Rpost : forall j, j < pt0 + 3 ->
             postN nsF j = postN nsA j ++ (if Nat.eqb j pt0 then entries_b B cp else [])
                                       ++ (if Nat.eqb j t1 then [pp0] else [])
                                       ++ (if Nat.eqb j (S pt0) then [S (S (S pp0))] else [])).
  { intros j Hj. unfold nsF. autorewrite with netops. rewrite LtC.
    unfold nsC. autorewrite with netops. rewrite (gn_post _ _ _ _ _ GB j) by lia.
    rewrite LtB. rewrite <- !app_assoc. f_equal. f_equal.
    destruct (Nat.eqb_spec j t1); destruct (Nat.eqb_spec j (S pt0)); cbn [andb]; rewrite ?(proj2 (Nat.ltb_lt _ _)) by lia; reflexivity. }
  assert (Rcbs : forall j, j < pt0 + 3 ->
             cbsN nsF j = cbsN nsA j ++ (if Nat.eqb j pt0 then startcbs_b B cp ctx else [])
                                     ++ (if Nat.eqb j t1 then [CW] else [])
                                     ++ (if Nat.eqb j (S (S pt0)) then [CW] else [])).
  { intros j Hj. unfold nsF, nsC. autorewrite with netops. rewrite (gn_cbs _ _ _ _ _ GB j) by lia.
    destruct OkB as [B1 _]. rewrite B1, LtB. rewrite <- !app_assoc. f_equal. f_equal.
    destruct (Nat.eqb_spec j t1); destruct (Nat.eqb_spec j (S (S pt0))); cbn [andb]; rewrite ?(proj2 (Nat.ltb_lt _ _)) by lia; reflexivity. }
  exists nsF. split.
  { f_equal. f_equal. cbn [exits]. unfold p, pos_of. cbn [pt]. fold pt0. repeat (f_equal; try lia). }
  split; [|split; [|split]].
  - (* the frame *)
    assert (Hx : xplace (XWhile e B) p = S (S (S pp0))) by (cbn [xplace]; unfold p, pos_of; cbn [pp]; fold pp0; lia).
    assert (Hen : entries (XWhile e B) p = [pp0]) by reflexivity.
    assert (Hsc : startcbs (XWhile e B) p ctx = [CW]).
    { cbn [startcbs]. unfold p, pos_of, CW. cbn [pp]. fold pp0. replace (pp0 + 1) with (S pp0) by lia.
      replace (pp0 + 2) with (S (S pp0)) by lia. reflexivity. }
    rewrite Hx, Hen, Hsc.
    unfold Gen. constructor.
    + assert (LpA : List.length (ns_places nsA) = pp0 + 4).
      { pose proof (f_equal pp PA) as E4. unfold pos_of, loop_p, p, pos_of in E4. cbn [pp] in E4. fold pp0 in E4. exact E4. }
      assert (LpB : List.length (ns_places nsB) = pp0 + 4 + nplaces_l B).
      { pose proof (f_equal pp PB) as E2. unfold pos_of, adv_b, cp, loop_p, p, pos_of in E2. cbn [pp] in E2. fold pp0 in E2. exact E2. }
      assert (QA : ns_places nsA = ns_places ns ++ repeat (Some 0) 4).
      { unfold nsA. autorewrite with netops. rewrite <- !app_assoc. reflexivity. }
      assert (QB : ns_places nsB = ns_places nsA ++ repeat (Some 0) (nplaces_l B)).
      { rewrite (gn_places _ _ _ _ _ GB) at 1. rewrite LpB, LpA. f_equal. f_equal. lia. }
      assert (QF : ns_places nsF = ns_places nsB) by (unfold nsF, nsC; autorewrite with netops; reflexivity).
      rewrite QF, LpB. fold pp0. rewrite QB, QA. rewrite <- !app_assoc, <- !repeat_app. f_equal. f_equal. lia.
    + unfold nsF, nsC. autorewrite with netops. fold pt0. lia.
    + pose proof (gn_napi _ _ _ _ _ GB) as A2.
      unfold nsF, nsC. autorewrite with netops.
      unfold nsA in A2. autorewrite with netops in A2. lia.
    + intros j Hj. unfold nsF, nsC. autorewrite with netops.
      rewrite (gn_apis _ _ _ _ _ GB) by (unfold nsA; autorewrite with netops; exact Hj).
      unfold nsA. autorewrite with netops. reflexivity.
    + intros j Hj. fold pt0 in Hj. rewrite (Rpre j) by lia.
      assert (E1 : Nat.eqb j (S (S pt0)) = false) by (apply Nat.eqb_neq; lia). rewrite E1. cbn [app].
      unfold nsA. autorewrite with netops. fold pt0.
      assert (E2 : Nat.eqb j pt0 = false) by (apply Nat.eqb_neq; lia).
      assert (E3 : Nat.eqb j (S pt0) = false) by (apply Nat.eqb_neq; lia).
      rewrite ?E2, ?E3. cbn [andb]. rewrite ?app_nil_r. reflexivity.
    + intros j Hj. fold pt0 in Hj. rewrite (Rpost j) by lia.
      assert (E1 : Nat.eqb j (S (S pt0)) = false) by (apply Nat.eqb_neq; lia).
      assert (E2 : Nat.eqb j pt0 = false) by (apply Nat.eqb_neq; lia).
      assert (E3 : Nat.eqb j (S pt0) = false) by (apply Nat.eqb_neq; lia).
      rewrite E2, E3. cbn [app]. rewrite app_nil_r.
      unfold nsA. autorewrite with netops. fold pt0. rewrite ?E1. cbn [andb]. rewrite ?app_nil_r. reflexivity.
    + intros j Hj. fold pt0 in Hj. rewrite (Rcbs j) by lia.
      assert (E1 : Nat.eqb j (S (S pt0)) = false) by (apply Nat.eqb_neq; lia).
      assert (E2 : Nat.eqb j pt0 = false) by (apply Nat.eqb_neq; lia).
      rewrite E1, E2. cbn [app]. rewrite app_nil_r.
      unfold nsA. autorewrite with netops. reflexivity.
    + destruct (gn_dict _ _ _ _ _ GB) as (d1 & D1 & K1).
      exists d1. unfold nsF, nsC. autorewrite with netops.
      rewrite D1. unfold nsA at 1. autorewrite with netops. split; [reflexivity|].
      eapply Forall_impl; [|exact K1]. intros kv (k9 & E0 & Hk). exists k9. split; [exact E0|].
      unfold nsA in Hk. autorewrite with netops in Hk. exact Hk.
    + unfold nsF, nsC. autorewrite with netops.
      rewrite (gn_rest _ _ _ _ _ GB). unfold nsA. autorewrite with netops. reflexivity.
  - rewrite (pos_of_same _ nsF nsB) by (unfold nsF, nsC; autorewrite with netops; reflexivity).
    rewrite (pos_of_resite _ (si_next k) _ _ PB). unfold resite, adv_b, adv, cp, loop_p, p, pos_of. cbn [pp pt pa psi].
    rewrite nplaces_while, ntrans_while, napis_while. f_equal; lia.
  - destruct OkB as [E1 E2]. unfold nsF, nsC. split; autorewrite with netops; assumption.
  - (* the wiring *)
    assert (Hp : pt p = pt0 /\ pp p = pp0) by (split; reflexivity). destruct Hp as [Hpt Hpp].
    cbn [wired]. rewrite Hpt, Hpp. fold cp.
    replace (pt0 + 1) with (S pt0) by lia. replace (pt0 + 2) with (S (S pt0)) by lia.
    replace (pp0 + 1) with (S pp0) by lia. replace (pp0 + 2) with (S (S pp0)) by lia. replace (pp0 + 3) with (S (S (S pp0))) by lia.
    fold CW.
    assert (Et1a : Nat.eqb pt0 t1 = false) by (apply Nat.eqb_neq; unfold pt0; lia).
    assert (Et1b : Nat.eqb (S pt0) t1 = false) by (apply Nat.eqb_neq; unfold pt0; lia).
    assert (Et1c : Nat.eqb (S (S pt0)) t1 = false) by (apply Nat.eqb_neq; unfold pt0; lia).
    assert (Et2a : Nat.eqb pt0 t2 = false) by (apply Nat.eqb_neq; unfold pt0; lia).
    assert (Et2b : Nat.eqb (S pt0) t2 = false) by (apply Nat.eqb_neq; unfold pt0; lia).
    assert (Et2c : Nat.eqb (S (S pt0)) t2 = false) by (apply Nat.eqb_neq; unfold pt0; lia).
    rewrite (Rpre pt0), (Rpost pt0), (Rcbs pt0), (Rpre (S pt0)), (Rpost (S pt0)), (Rcbs (S pt0)),
            (Rpre (S (S pt0))), (Rpost (S (S pt0))), (Rcbs (S (S pt0))) by lia.
    unfold nsA. autorewrite with netops. fold pt0.
    rewrite (preN_beyond ns), (postN_beyond ns), (cbsN_beyond ns) by (unfold pt0 in *; lia).
    rewrite (preN_beyond ns (S pt0)), (postN_beyond ns (S pt0)), (cbsN_beyond ns (S pt0)) by (unfold pt0 in *; lia).
    rewrite (preN_beyond ns (S (S pt0))), (postN_beyond ns (S (S pt0))), (cbsN_beyond ns (S (S pt0))) by (unfold pt0 in *; lia).
    rewrite ?Nat.eqb_refl, ?Et1a, ?Et1b, ?Et1c, ?Et2a, ?Et2b, ?Et2c.
    replace (Nat.eqb pt0 (S pt0)) with false by (symmetry; apply Nat.eqb_neq; lia).
    replace (Nat.eqb pt0 (S (S pt0))) with false by (symmetry; apply Nat.eqb_neq; lia).
    replace (Nat.eqb (S pt0) pt0) with false by (symmetry; apply Nat.eqb_neq; lia).
    replace (Nat.eqb (S pt0) (S (S pt0))) with false by (symmetry; apply Nat.eqb_neq; lia).
    replace (Nat.eqb (S (S pt0)) pt0) with false by (symmetry; apply Nat.eqb_neq; lia).
    replace (Nat.eqb (S (S pt0)) (S pt0)) with false by (symmetry; apply Nat.eqb_neq; lia).
    cbn [andb app].
    rewrite ?(proj2 (Nat.ltb_lt _ _)) by lia. cbn [app]. rewrite ?app_nil_r.
    repeat (split; [reflexivity|]).
    (* the body survives what follows *)
    apply (wired_block_ext nsB nsF B HfB cp ctx []); [|exact WB].
    assert (G : GenF nsB nsF (fun j => if Nat.eqb j t2 then [S (S (S pp0))] else [])
                     (fun j => (if Nat.eqb j t1 then [pp0] else []) ++ (if Nat.eqb j (S pt0) then [S (S (S pp0))] else []))
                     (fun j => (if Nat.eqb j t1 then [CW] else []) ++ (if Nat.eqb j (S (S pt0)) then [CW] else []))).
    { eapply GenF_ext;
        [eapply GenF_trans; [apply (GenF_op_out pp0 t1 nsB)|
         eapply GenF_trans; [apply (GenF_op_in (S (S (S pp0))) t2)|
         eapply GenF_trans; [apply (GenF_op_cb t1 CW); autorewrite with netops; apply OkB|
         eapply GenF_trans; [apply (GenF_op_cb (S (S pt0)) CW); autorewrite with netops; apply OkB|
         apply (GenF_op_out (S (S (S pp0))) (S pt0) nsC)]]]]|].
      intros j Hj. cbn beta. unfold fnil. cbn [app]. rewrite ?app_nil_r. repeat split; reflexivity. }
    eapply GenF_agree; [exact G| | |].
    + intros j Hj. unfold cp, loop_p in Hj. cbn [pt] in Hj. rewrite Hpt in Hj.
      assert (Q1 : Nat.eqb j t1 = false) by (apply Nat.eqb_neq; unfold pt0 in *; lia).
      assert (Q2 : Nat.eqb j t2 = false) by (apply Nat.eqb_neq; unfold pt0 in *; lia).
      assert (Q4 : Nat.eqb j (S pt0) = false) by (apply Nat.eqb_neq; lia).
      assert (Q5 : Nat.eqb j (S (S pt0)) = false) by (apply Nat.eqb_neq; lia).
      cbn beta. rewrite Q1, Q2, Q4, Q5. auto.
    + unfold cp, loop_p. cbn [pt]. rewrite Hpt. lia.
    + pose proof (f_equal pa PB) as E0. unfold pos_of, adv_b in E0. cbn [pa] in E0. lia.
Qed.

Lemma gen_count : forall v lim B, Forall GenOK B -> GenOK (XCount v lim B).
Proof.
  intros v lim B HFB Hf k ctx t1 t2 ns Hkeys Hok H1 H2 p. set (il := s_il k).
  apply frag_count in Hf. rename Hf into HfB.
  pose proof Hok as [Hcb Hfr].
  cbn [pg_stmt].
  do 3 rewrite (nbind_ok _ _ _ _ _ _ _ (create_place_eq _)).
  do 3 rewrite (nbind_ok _ _ _ _ _ _ _ (create_transition_eq _)).
  do 4 rewrite (nbind_ok _ _ _ _ _ _ _ (add_input_eq _ _ _)).
  rewrite (nbind_ok _ _ _ _ _ _ _ (add_output_eq _ _ _)).
  rewrite (nbind_ok _ _ _ _ _ _ _ (create_place_eq _)).
  autorewrite with netops. rewrite !app_length. cbn [List.length].
  set (pp0 := List.length (ns_places ns)). set (pt0 := List.length (ns_trans ns)). set (pa0 := List.length (ns_apis ns)).
  replace (pp0 + 1) with (S pp0) by lia. replace (S pp0 + 1) with (S (S pp0)) by lia.
  replace (S (S pp0) + 1) with (S (S (S pp0))) by lia.
  replace (pt0 + 1) with (S pt0) by lia. replace (S pt0 + 1) with (S (S pt0)) by lia.
  set (nsA := op_place _).
  assert (PA : pos_of (si_loop k) nsA = loop_p p).
  { unfold nsA, pos_of, loop_p, p, pos_of. autorewrite with netops. rewrite !app_length. cbn [List.length pp pt pa psi].
    fold pp0 pt0 pa0. f_equal; lia. }
  assert (OkA : okns nsA).
  { unfold nsA. split; autorewrite with netops; [lia|exact Hfr]. }
  assert (LtA : List.length (ns_trans nsA) = pt0 + 3) by (pose proof (f_equal pt PA) as E; cbn [pos_of loop_p pt] in E; fold pt0 in E; exact E).
  rewrite keys_ok_count in Hkeys. change (s_pre k ++ [s_idx k]) with (s_path k) in Hkeys.
  destruct (gen_block_go B HFB HfB true (s_tn k) (s_path k) (List.length B) 0 pt0 [] ctx (S (S pt0)) nsA (proj2 Hkeys) eq_refl OkA ltac:(lia) ltac:(lia))
    as (nsB & EB & GB & PB & OkB & WB).
  change (mksi (s_tn k) (s_path k) 0 true) with (si_loop k) in EB, GB, PB, WB.
  rewrite PA in EB, GB, PB, WB. set (cp := loop_p p) in *.
  unfold nbind at 1. rewrite EB.
  rewrite (nbind_ok _ _ _ _ _ _ _ (add_output_eq _ _ _)).
  rewrite (nbind_ok _ _ _ _ _ _ _ (add_output_eq _ _ _)).
  rewrite (nbind_ok _ _ _ _ _ _ _ (add_input_eq _ _ _)).
  rewrite (nbind_ok _ _ _ _ _ _ _ (add_callback_eq _ _ _)).
  rewrite (nbind_ok _ _ _ _ _ _ _ (add_callback_eq _ _ _)). unfold nret.
  set (CW := CbCount {| st_task := s_tn k; st_path := s_path k |} lim (S pp0) (S (S pp0)) ctx).
  set (nsC := op_out (S (S (S pp0))) (S pt0) nsB).
  set (nsF := op_cb (S (S pt0)) CW (op_cb t1 CW (op_in (S (S (S pp0))) t2 (op_out pp0 t1 nsC)))).
  assert (LtB : List.length (ns_trans nsB) = pt0 + 3 + ntrans_b B).
  { pose proof (f_equal pt PB) as E. unfold pos_of, adv_b, cp, loop_p in E. cbn [pt] in E. fold pt0 in E. exact E. }
  assert (LtC : List.length (ns_trans nsC) = pt0 + 3 + ntrans_b B) by (unfold nsC; autorewrite with netops; exact LtB).
  unfold Gen in GB.
  assert (Rpre : forall j, j < pt0 + 3 ->
             preN nsF j = preN nsA j ++ (if Nat.eqb j (S (S pt0)) then [xplace_b B cp] else [])
                                     ++ (if Nat.eqb j t2 then [S (S (S pp0))] else [])).
  { intros j Hj. unfold nsF, nsC. autorewrite with netops. rewrite (gn_pre _ _ _ _ _ GB j) by lia.
    rewrite LtB. rewrite <- ?app_assoc. destruct (Nat.eqb_spec j t2); cbn [andb]; [rewrite (proj2 (Nat.ltb_lt t2 _)) by lia|]; reflexivity. }
  assert (Rpost : forall j, j < pt0 + 3 ->
             postN nsF j = postN nsA j ++ (if Nat.eqb j pt0 then entries_b B cp else [])
                                       ++ (if Nat.eqb j t1 then [pp0] else [])
                                       ++ (if Nat.eqb j (S pt0) then [S (S (S pp0))] else [])).
  { intros j Hj. unfold nsF. autorewrite with netops. rewrite LtC.
    unfold nsC. autorewrite with netops. rewrite (gn_post _ _ _ _ _ GB j) by lia.
    rewrite LtB. rewrite <- !app_assoc. f_equal. f_equal.
    destruct (Nat.eqb_spec j t1); destruct (Nat.eqb_spec j (S pt0)); cbn [andb]; rewrite ?(proj2 (Nat.ltb_lt _ _)) by lia; try reflexivity. lia. }
  assert (Rcbs : forall j, j < pt0 + 3 ->
             cbsN nsF j = cbsN nsA j ++ (if Nat.eqb j pt0 then startcbs_b B cp ctx else [])
                                     ++ (if Nat.eqb j t1 then [CW] else [])
                                     ++ (if Nat.eqb j (S (S pt0)) then [CW] else [])).
  { intros j Hj. unfold nsF, nsC. autorewrite with netops. rewrite (gn_cbs _ _ _ _ _ GB j) by lia.
    destruct OkB as [B1 _]. rewrite B1, LtB. rewrite <- !app_assoc. f_equal. f_equal.
    destruct (Nat.eqb_spec j t1); destruct (Nat.eqb_spec j (S (S pt0))); cbn [andb]; rewrite ?(proj2 (Nat.ltb_lt _ _)) by lia; reflexivity. }
  exists nsF. split.
  { f_equal. f_equal. cbn [exits]. unfold p, pos_of. cbn [pt]. fold pt0. repeat (f_equal; try lia). }
  split; [|split; [|split]].
  - (* the frame *)
    assert (Hx : xplace (XCount v lim B) p = S (S (S pp0))) by (cbn [xplace]; unfold p, pos_of; cbn [pp]; fold pp0; lia).
    assert (Hen : entries (XCount v lim B) p = [pp0]) by reflexivity.
    assert (Hsc : startcbs (XCount v lim B) p ctx = [CW]).
    { cbn [startcbs]. unfold pkey, p, pos_of, CW. cbn [pp psi]. fold pp0. replace (pp0 + 1) with (S pp0) by lia.
      replace (pp0 + 2) with (S (S pp0)) by lia. reflexivity. }
    rewrite Hx, Hen, Hsc.
    unfold Gen. constructor.
    + assert (LpA : List.length (ns_places nsA) = pp0 + 4).
      { pose proof (f_equal pp PA) as E4. unfold pos_of, loop_p, p, pos_of in E4. cbn [pp] in E4. fold pp0 in E4. exact E4. }
      assert (LpB : List.length (ns_places nsB) = pp0 + 4 + nplaces_l B).
      { pose proof (f_equal pp PB) as E2. unfold pos_of, adv_b, cp, loop_p, p, pos_of in E2. cbn [pp] in E2. fold pp0 in E2. exact E2. }
      assert (QA : ns_places nsA = ns_places ns ++ repeat (Some 0) 4).
      { unfold nsA. autorewrite with netops. rewrite <- !app_assoc. reflexivity. }
      assert (QB : ns_places nsB = ns_places nsA ++ repeat (Some 0) (nplaces_l B)).
      { rewrite (gn_places _ _ _ _ _ GB) at 1. rewrite LpB, LpA. f_equal. f_equal. lia. }
      assert (QF : ns_places nsF = ns_places nsB) by (unfold nsF, nsC; autorewrite with netops; reflexivity).
      rewrite QF, LpB. fold pp0. rewrite QB, QA. rewrite <- !app_assoc, <- !repeat_app. f_equal. f_equal. lia.
    + unfold nsF, nsC. autorewrite with netops. fold pt0. lia.
    + pose proof (gn_napi _ _ _ _ _ GB) as A2.
      unfold nsF, nsC. autorewrite with netops.
      unfold nsA in A2. autorewrite with netops in A2. lia.
    + intros j Hj. unfold nsF, nsC. autorewrite with netops.
      rewrite (gn_apis _ _ _ _ _ GB) by (unfold nsA; autorewrite with netops; exact Hj).
      unfold nsA. autorewrite with netops. reflexivity.
    + intros j Hj. fold pt0 in Hj. rewrite (Rpre j) by lia.
      assert (E1 : Nat.eqb j (S (S pt0)) = false) by (apply Nat.eqb_neq; lia). rewrite E1. cbn [app].
      unfold nsA. autorewrite with netops. fold pt0.
      assert (E2 : Nat.eqb j pt0 = false) by (apply Nat.eqb_neq; lia).
      assert (E3 : Nat.eqb j (S pt0) = false) by (apply Nat.eqb_neq; lia).
      rewrite ?E2, ?E3. cbn [andb]. rewrite ?app_nil_r. reflexivity.
    + intros j Hj. fold pt0 in Hj. rewrite (Rpost j) by lia.
      assert (E1 : Nat.eqb j (S (S pt0)) = false) by (apply Nat.eqb_neq; lia).
      assert (E2 : Nat.eqb j pt0 = false) by (apply Nat.eqb_neq; lia).
      assert (E3 : Nat.eqb j (S pt0) = false) by (apply Nat.eqb_neq; lia).
      rewrite E2, E3. cbn [app]. rewrite app_nil_r.
      unfold nsA. autorewrite with netops. fold pt0. rewrite ?E1. cbn [andb]. rewrite ?app_nil_r. reflexivity.
    + intros j Hj. fold pt0 in Hj. rewrite (Rcbs j) by lia.
      assert (E1 : Nat.eqb j (S (S pt0)) = false) by (apply Nat.eqb_neq; lia).
      assert (E2 : Nat.eqb j pt0 = false) by (apply Nat.eqb_neq; lia).
      rewrite E1, E2. cbn [app]. rewrite app_nil_r.
      unfold nsA. autorewrite with netops. reflexivity.
    + destruct (gn_dict _ _ _ _ _ GB) as (d1 & D1 & K1).
      exists d1. unfold nsF, nsC. autorewrite with netops.
      rewrite D1. unfold nsA at 1. autorewrite with netops. split; [reflexivity|].
      eapply Forall_impl; [|exact K1]. intros kv (k9 & E0 & Hk). exists k9. split; [exact E0|].
      unfold nsA in Hk. autorewrite with netops in Hk. exact Hk.
    + unfold nsF, nsC. autorewrite with netops.
      rewrite (gn_rest _ _ _ _ _ GB). unfold nsA. autorewrite with netops. reflexivity.
  - rewrite (pos_of_same _ nsF nsB) by (unfold nsF, nsC; autorewrite with netops; reflexivity).
    rewrite (pos_of_resite _ (si_next k) _ _ PB). unfold resite, adv_b, adv, cp, loop_p, p, pos_of. cbn [pp pt pa psi].
    rewrite nplaces_count, ntrans_count, napis_count. f_equal; lia.
  - destruct OkB as [E1 E2]. unfold nsF, nsC. split; autorewrite with netops; assumption.
  - (* the wiring *)
    assert (Hp : pt p = pt0 /\ pp p = pp0) by (split; reflexivity). destruct Hp as [Hpt Hpp].
    cbn [wired]. rewrite Hpt, Hpp. fold cp.
    replace (pt0 + 1) with (S pt0) by lia. replace (pt0 + 2) with (S (S pt0)) by lia.
    replace (pp0 + 1) with (S pp0) by lia. replace (pp0 + 2) with (S (S pp0)) by lia. replace (pp0 + 3) with (S (S (S pp0))) by lia.
    replace (pkey p) with {| st_task := s_tn k; st_path := s_path k |} by reflexivity. fold CW.
    assert (Et1a : Nat.eqb pt0 t1 = false) by (apply Nat.eqb_neq; unfold pt0; lia).
    assert (Et1b : Nat.eqb (S pt0) t1 = false) by (apply Nat.eqb_neq; unfold pt0; lia).
    assert (Et1c : Nat.eqb (S (S pt0)) t1 = false) by (apply Nat.eqb_neq; unfold pt0; lia).
    assert (Et2a : Nat.eqb pt0 t2 = false) by (apply Nat.eqb_neq; unfold pt0; lia).
    assert (Et2b : Nat.eqb (S pt0) t2 = false) by (apply Nat.eqb_neq; unfold pt0; lia).
    assert (Et2c : Nat.eqb (S (S pt0)) t2 = false) by (apply Nat.eqb_neq; unfold pt0; lia).
    rewrite (Rpre pt0), (Rpost pt0), (Rcbs pt0), (Rpre (S pt0)), (Rpost (S pt0)), (Rcbs (S pt0)),
            (Rpre (S (S pt0))), (Rpost (S (S pt0))), (Rcbs (S (S pt0))) by lia.
    unfold nsA. autorewrite with netops. fold pt0.
    rewrite (preN_beyond ns), (postN_beyond ns), (cbsN_beyond ns) by (unfold pt0 in *; lia).
    rewrite (preN_beyond ns (S pt0)), (postN_beyond ns (S pt0)), (cbsN_beyond ns (S pt0)) by (unfold pt0 in *; lia).
    rewrite (preN_beyond ns (S (S pt0))), (postN_beyond ns (S (S pt0))), (cbsN_beyond ns (S (S pt0))) by (unfold pt0 in *; lia).
    rewrite ?Nat.eqb_refl, ?Et1a, ?Et1b, ?Et1c, ?Et2a, ?Et2b, ?Et2c.
    replace (Nat.eqb pt0 (S pt0)) with false by (symmetry; apply Nat.eqb_neq; lia).
    replace (Nat.eqb pt0 (S (S pt0))) with false by (symmetry; apply Nat.eqb_neq; lia).
    replace (Nat.eqb (S pt0) pt0) with false by (symmetry; apply Nat.eqb_neq; lia).
    replace (Nat.eqb (S pt0) (S (S pt0))) with false by (symmetry; apply Nat.eqb_neq; lia).
    replace (Nat.eqb (S (S pt0)) pt0) with false by (symmetry; apply Nat.eqb_neq; lia).
    replace (Nat.eqb (S (S pt0)) (S pt0)) with false by (symmetry; apply Nat.eqb_neq; lia).
    cbn [andb app].
    rewrite ?(proj2 (Nat.ltb_lt _ _)) by lia. cbn [app]. rewrite ?app_nil_r.
    repeat (split; [reflexivity|]).
    split; [split; [reflexivity|exact (proj1 Hkeys)]|].
    (* the body survives what follows *)
    apply (wired_block_ext nsB nsF B HfB cp ctx []); [|exact WB].
    assert (G : GenF nsB nsF (fun j => if Nat.eqb j t2 then [S (S (S pp0))] else [])
                     (fun j => (if Nat.eqb j (S pt0) then [S (S (S pp0))] else []) ++ (if Nat.eqb j t1 then [pp0] else []))
                     (fun j => (if Nat.eqb j t1 then [CW] else []) ++ (if Nat.eqb j (S (S pt0)) then [CW] else []))).
    { eapply GenF_ext;
        [eapply GenF_trans; [apply (GenF_op_out (S (S (S pp0))) (S pt0) nsB)|
         eapply GenF_trans; [apply (GenF_op_out pp0 t1 nsC)|
         eapply GenF_trans; [apply (GenF_op_in (S (S (S pp0))) t2)|
         eapply GenF_trans; [apply (GenF_op_cb t1 CW); unfold nsC; autorewrite with netops; apply OkB|
         apply (GenF_op_cb (S (S pt0)) CW); unfold nsC; autorewrite with netops; apply OkB]]]]|].
      intros j Hj. cbn beta. unfold fnil. cbn [app]. rewrite ?app_nil_r. repeat split; reflexivity. }
    eapply GenF_agree; [exact G| | |].
    + intros j Hj. unfold cp, loop_p in Hj. cbn [pt] in Hj. rewrite Hpt in Hj.
      assert (Q1 : Nat.eqb j t1 = false) by (apply Nat.eqb_neq; unfold pt0 in *; lia).
      assert (Q2 : Nat.eqb j t2 = false) by (apply Nat.eqb_neq; unfold pt0 in *; lia).
      assert (Q4 : Nat.eqb j (S pt0) = false) by (apply Nat.eqb_neq; lia).
      assert (Q5 : Nat.eqb j (S (S pt0)) = false) by (apply Nat.eqb_neq; lia).
      cbn beta. rewrite Q1, Q2, Q4, Q5. auto.
    + unfold cp, loop_p. cbn [pt]. rewrite Hpt. lia.
    + pose proof (f_equal pa PB) as E0. unfold pos_of, adv_b in E0. cbn [pa] in E0. lia.
Qed.

Theorem gen_ok : forall s, GenOK s.
Proof.
  induction s as [n a i|t a i body IH|bs IH|e p f IHp IHf|e b IH|v l b IH|v l c IH] using xstmt_ind';
    try (intro Hf; discriminate Hf).
  - intros Hf k ctx t1 t2 ns Hkeys Hok H1 H2 p. cbn [pg_stmt]. apply gen_service; [reflexivity|assumption..].
  - apply gen_call. exact IH.
  - apply gen_par. exact IH.
  - apply gen_cond; assumption.
  - apply gen_while; assumption.
  - apply gen_count; assumption.
Qed.

Theorem gen_block : forall body, frag_block body = true ->
    forall il tn pre ctx first last ns,
      keys_block tn pre body 0 ->
      okns ns -> first < List.length (ns_trans ns) -> last < List.length (ns_trans ns) ->
      let p := pos_of (mksi tn pre 0 il) ns in
      exists ns', pg_block il tn pre ctx body first last ns = Ok (exits_b body p, ns') /\
                  Gen ns ns' first last (entries_b body p) (startcbs_b body p ctx) [xplace_b body p] /\
                  pos_of (mksi tn pre (List.length body) il) ns' = adv_b body p /\ okns ns' /\ wired_block (wired ns') ns' ctx [] body p.
Proof.
  intros body Hf il tn pre ctx first last ns Hkeys Hok H1 H2 p. unfold pg_block.
  apply (gen_block_go body) with (i := 0) (n := List.length body); try assumption; [|reflexivity].
  apply Forall_forall. intros s _. apply gen_ok.
Qed.

(* =========================================================================== *)
(* (A) the generator on a program = the walk over its unfolding                 *)
(* =========================================================================== *)

(* named copies of the local fixpoints of generate_statements / generate_stmt / unfold_stmt *)
Section Copies.
  Variable tasks : list task.
  Section GS.
    Variables (f' ctx : nat) (tn : name) (pre : list nat) (n first last : nat) (in_loop : bool).
    Fixpoint gs_go (i : nat) (l : list stmt) (prev : nat) (acc : list nat) : NetModel.N (list nat) :=
      match l with
      | [] => nret acc
      | s :: r =>
        cur <~ (if Nat.ltb 1 n
                then (if Nat.ltb i (n - 1) then create_transition else nret last)
                else nret last) ;;
        let prev' := if Nat.ltb 1 n then prev else first in
        ex <~ generate_stmt tasks f' ctx tn (pre ++ [i]) s prev' cur in_loop ;;
        gs_go (S i) r cur ex
      end.
  End GS.
  Section GC.
    Variables (f' ctx : nat) (tn : name) (path : list nat) (t1 sync : nat) (in_loop : bool).
    Fixpoint gp_calls (i : nat) (l : list call) : NetModel.N unit :=
      match l with
      | [] => nret tt
      | c :: r => generate_task_call tasks f' c (site_of tn (path ++ [i])) ctx t1 sync in_loop ;;~ gp_calls (S i) r
      end.
  End GC.
  Section UB.
    Variables (f : nat) (tn : name).
    Fixpoint ucall_blk (i : nat) (ss : list stmt) : res (list xstmt) :=
      match ss with
      | [] => Ok []
      | s1 :: r =>
        rbind (unfold_stmt tasks f tn [i] s1) (fun x =>
        rbind (ucall_blk (S i) r) (fun xs => Ok (x :: xs)))
      end.
  End UB.
  Section UBK.
    Variables (f : nat) (tn : name).
    Fixpoint ublock (pre : list nat) (i : nat) (ss : list stmt) : res (list xstmt) :=
      match ss with
      | [] => Ok []
      | s1 :: r =>
        rbind (unfold_stmt tasks f tn (pre ++ [i]) s1) (fun x =>
        rbind (ublock pre (S i) r) (fun xs => Ok (x :: xs)))
      end.
  End UBK.
  Definition udo_call (f : nat) (tn : name) (pth : list nat) (c : call) : res xstmt :=
    match find_task (c_name c) tasks with
    | None => Exn KeyError
    | Some t =>
      rbind (ucall_blk f (t_name t) 0 (t_body t))
            (fun body => Ok (XCall (c_name c) {| st_task := tn; st_path := pth |} (c_ins c) body))
    end.
  Section UC.
    Variables (f : nat) (tn : name) (path : list nat).
    Fixpoint ucalls (i : nat) (l : list call) : res (list xstmt) :=
      match l with
      | [] => Ok []
      | c :: r =>
        rbind (udo_call f tn (path ++ [i]) c) (fun x =>
        rbind (ucalls (S i) r) (fun xs => Ok (x :: xs)))
      end.
  End UC.

  Lemma generate_statements_S : forall f' ctx tn pre ss first last in_loop,
      generate_statements tasks (S f') ctx tn pre ss first last in_loop
      = gs_go f' ctx tn pre (List.length ss) first last in_loop 0 ss first [].
  Proof. reflexivity. Qed.

  Lemma generate_stmt_S_service : forall f' ctx tn path n ins o t1 t2 il,
      generate_stmt tasks (S f') ctx tn path (SService n ins o) t1 t2 il
      = generate_service n ins (site_of tn path) ctx t1 t2 il.
  Proof. reflexivity. Qed.
  Lemma generate_stmt_S_call : forall f' ctx tn path c t1 t2 il,
      generate_stmt tasks (S f') ctx tn path (SCall c) t1 t2 il
      = generate_task_call tasks f' c (site_of tn path) ctx t1 t2 il.
  Proof. reflexivity. Qed.
  Lemma generate_stmt_S_par : forall f' ctx tn path cs t1 t2 il,
      generate_stmt tasks (S f') ctx tn path (SParallel cs) t1 t2 il
      = (sync <~ create_transition ;;
         pfin <~ create_place ;;
         gp_calls f' ctx tn path t1 sync il 0 cs ;;~
         add_output pfin sync ;;~
         add_input pfin t2 ;;~
         nret [sync])%net.
  Proof. reflexivity. Qed.
  Lemma generate_task_call_S : forall f' c at_ ctx t1 t2 il,
      generate_task_call tasks (S f') c at_ ctx t1 t2 il
      = match find_task (c_name c) tasks with
        | None => nfail (Exn KeyError)
        | Some t =>
          (u <~ fresh_uuid ;;
           a <~ new_api {| a_is_task := true; a_name := c_name c; a_site := at_; a_uuid := u; a_ctx := Some ctx;
                           a_in_loop := il; a_params := c_ins c; a_src := c_ins c; a_has_call := true |} ;;
           add_callback t1 (CbTS a) ;;~
           ex <~ generate_statements tasks f' a (t_name t) [] (t_body t) t1 t2 il ;;
           nfor ex (fun e => add_callback e (CbTF a)) ;;~
           nret ex)%net
        end.
  Proof. reflexivity. Qed.

  Lemma unfold_stmt_S_service : forall f' tn path n ins o,
      unfold_stmt tasks (S f') tn path (SService n ins o) = Ok (XService n {| st_task := tn; st_path := path |} ins).
  Proof. reflexivity. Qed.
  Lemma unfold_stmt_S_call : forall f' tn path c,
      unfold_stmt tasks (S f') tn path (SCall c) = udo_call f' tn path c.
  Proof. reflexivity. Qed.
  Lemma unfold_stmt_S_par : forall f' tn path cs,
      unfold_stmt tasks (S f') tn path (SParallel cs)
      = rbind (ucalls f' tn path 0 cs) (fun bs => Ok (XParallel bs)).
  Proof. reflexivity. Qed.
  Lemma unfold_stmt_S_cond : forall f' tn path e p fl,
      unfold_stmt tasks (S f') tn path (SCond e p fl)
      = rbind (ublock f' tn (path ++ [0]) 0 p) (fun xp =>
        rbind (ublock f' tn (path ++ [1]) 0 fl) (fun xf => Ok (XCond e xp xf))).
  Proof. reflexivity. Qed.
  Lemma generate_stmt_S_cond : forall f' ctx tn path e p fl t1 t2 il,
      generate_stmt tasks (S f') ctx tn path (SCond e p fl) t1 t2 il
      = (passed <~ create_place ;;
         failed <~ create_place ;;
         expr_p <~ create_place ;;
         fp <~ create_transition ;;
         ff <~ create_transition ;;
         add_input expr_p fp ;;~
         add_input expr_p ff ;;~
         add_input passed fp ;;~
         add_input failed ff ;;~
         cfin <~ create_place ;;
         sp <~ create_transition ;;
         add_output cfin sp ;;~
         generate_statements tasks f' ctx tn (path ++ [0]) p fp sp il ;;~
         add_output expr_p t1 ;;~
         add_input cfin t2 ;;~
         add_callback t1 (CbCond e passed failed ctx) ;;~
         match fl with
         | [] => add_output cfin ff ;;~ nret [sp; ff]
         | _ :: _ =>
           sf <~ create_transition ;;
           generate_statements tasks f' ctx tn (path ++ [1]) fl ff sf il ;;~
           add_output cfin sf ;;~
           nret [sp; sf]
         end)%net.
  Proof. reflexivity. Qed.
  Lemma unfold_stmt_S_while : forall f' tn path e body,
      unfold_stmt tasks (S f') tn path (SWhile e body)
      = rbind (ublock f' tn path 0 body) (fun xb => Ok (XWhile e xb)).
  Proof. reflexivity. Qed.
  Lemma generate_stmt_S_while : forall f' ctx tn path e body t1 t2 il,
      generate_stmt tasks (S f') ctx tn path (SWhile e body) t1 t2 il
      = (loop_p <~ create_place ;;
         then_p <~ create_place ;;
         else_p <~ create_place ;;
         cp <~ create_transition ;;
         cf <~ create_transition ;;
         it <~ create_transition ;;
         add_input loop_p cp ;;~
         add_input then_p cp ;;~
         add_input loop_p cf ;;~
         add_input else_p cf ;;~
         add_output loop_p it ;;~
         ldone <~ create_place ;;
         generate_statements tasks f' ctx tn path body cp it true ;;~
         add_output loop_p t1 ;;~
         add_input ldone t2 ;;~
         add_callback t1 (CbWhile e then_p else_p ctx) ;;~
         add_callback it (CbWhile e then_p else_p ctx) ;;~
         add_output ldone cf ;;~
         nret [cf])%net.
  Proof. reflexivity. Qed.
  Lemma unfold_stmt_S_count : forall f' tn path v lim body,
      unfold_stmt tasks (S f') tn path (SCount false v lim body)
      = rbind (ublock f' tn path 0 body) (fun xb => Ok (XCount v lim xb)).
  Proof. reflexivity. Qed.
  Lemma generate_stmt_S_count : forall f' ctx tn path v lim body t1 t2 il,
      generate_stmt tasks (S f') ctx tn path (SCount false v lim body) t1 t2 il
      = (loop_p <~ create_place ;;
         then_p <~ create_place ;;
         else_p <~ create_place ;;
         cp <~ create_transition ;;
         cf <~ create_transition ;;
         it <~ create_transition ;;
         add_input loop_p cp ;;~
         add_input then_p cp ;;~
         add_input loop_p cf ;;~
         add_input else_p cf ;;~
         add_output loop_p it ;;~
         ldone <~ create_place ;;
         generate_statements tasks f' ctx tn path body cp it true ;;~
         add_output ldone cf ;;~
         add_output loop_p t1 ;;~
         add_input ldone t2 ;;~
         add_callback t1 (CbCount (site_of tn path) lim then_p else_p ctx) ;;~
         add_callback it (CbCount (site_of tn path) lim then_p else_p ctx) ;;~
         nret [cf])%net.
  Proof. reflexivity. Qed.
  Lemma unfold_program_eq : forall f,
      unfold_program tasks f =
      match find_task production_task tasks with
      | None => Exn KeyError
      | Some t => ucall_blk f production_task 0 (t_body t)
      end.
  Proof. reflexivity. Qed.
End Copies.

Lemma rbind_ok_inv : forall A B (r : res A) (f : A -> res B) y,
    rbind r f = Ok y -> exists a, r = Ok a /\ f a = Ok y.
Proof. intros A B [a| | |] f y H; try discriminate H. exists a. split; [reflexivity|exact H]. Qed.

(* only Service / Call / Parallel / Condition unfold into the fragment *)
Lemma unfold_frag_shape : forall tasks f' tn path s x,
    unfold_stmt tasks (S f') tn path s = Ok x -> frag x = true ->
    (exists n ins o, s = SService n ins o) \/ (exists c, s = SCall c) \/ (exists cs, s = SParallel cs) \/
    (exists e p fl, s = SCond e p fl) \/ (exists e body, s = SWhile e body) \/
    (exists v lim body, s = SCount false v lim body).
Proof.
  intros tasks f' tn path s x H Hf. destruct s as [n ins o|c|cs|e body|par v lim body|e p fl].
  - left. eauto.
  - right. left. eauto.
  - right. right. left. eauto.
  - right. right. right. right. left. eauto.
  - destruct par.
    + exfalso. cbn [unfold_stmt] in H.
      destruct body as [|[ | | | | | ] [|]]; try discriminate H.
      apply rbind_ok_inv in H. destruct H as (b & _ & H). inversion H; subst. discriminate Hf.
    + right. right. right. right. right. eauto.
  - right. right. right. left. eauto.
Qed.

(* generator fuel that suffices for a component *)
Fixpoint need (s : xstmt) : nat :=
  match s with
  | XService _ _ _ => 1
  | XCall _ _ _ body => 3 + list_max (map need body)
  | XParallel bs => 1 + list_max (map need bs)
  | XCond _ P F => 2 + Nat.max (list_max (map need P)) (list_max (map need F))
  | XWhile _ B => 2 + list_max (map need B)
  | XCount _ _ B => 2 + list_max (map need B)
  | _ => 0
  end.
Definition need_l (l : list xstmt) : nat := list_max (map need l).

Lemma need_l_cons : forall x l, need_l (x :: l) = Nat.max (need x) (need_l l).
Proof. reflexivity. Qed.

Lemma nbind_ext : forall A B (m : NetModel.N A) (k k' : A -> NetModel.N B) s,
    (forall a s1, k a s1 = k' a s1) -> nbind m k s = nbind m k' s.
Proof. intros A B m k k' s H. unfold nbind. destruct (m s) as [[a s1]| | |]; auto. Qed.

Lemma nbind_cong : forall A B (m m' : NetModel.N A) (k k' : A -> NetModel.N B) s,
    m s = m' s -> (forall a s1, k a s1 = k' a s1) -> nbind m k s = nbind m' k' s.
Proof. intros A B m m' k k' s Hm Hk. unfold nbind. rewrite Hm. destruct (m' s) as [[a s1]| | |]; auto. Qed.

Lemma find_task_name : forall n ts t, find_task n ts = Some t -> t_name t = n.
Proof.
  induction ts as [|t0 r IH]; intros t H; cbn [find_task] in H; [discriminate H|].
  destruct (Nat.eqb_spec n (t_name t0)) as [E|_]; [injection H as <-; symmetry; exact E|apply IH; exact H].
Qed.

Section WalkEq.
  Variable tasks : list task.

  Definition P_stmt (fu : nat) : Prop :=
    forall il tn pre i s x, unfold_stmt tasks fu tn (pre ++ [i]) s = Ok x -> frag x = true ->
      forall g ctx t1 t2 ns, need x <= g ->
        generate_stmt tasks g ctx tn (pre ++ [i]) s t1 t2 il ns = pg_stmt il (mksi tn pre i il) ctx x t1 t2 ns.
  Definition P_call (fu : nat) : Prop :=
    forall il tn pre i c x, udo_call tasks fu tn (pre ++ [i]) c = Ok x -> frag x = true ->
      forall g ctx t1 t2 ns, need x <= S g ->
        generate_task_call tasks g c (site_of tn (pre ++ [i])) ctx t1 t2 il ns = pg_stmt il (mksi tn pre i il) ctx x t1 t2 ns.

  Lemma ucall_blk_length : forall fu tn ss i xs,
      ucall_blk tasks fu tn i ss = Ok xs -> List.length xs = List.length ss.
  Proof.
    intros fu tn. induction ss as [|s r IH]; intros i xs H; cbn [ucall_blk] in H.
    - inversion H. reflexivity.
    - apply rbind_ok_inv in H. destruct H as (x & _ & H). apply rbind_ok_inv in H. destruct H as (xs' & H1 & H).
      inversion H; subst. cbn [List.length]. f_equal. eapply IH. exact H1.
  Qed.

  Lemma A_blk : forall fu, P_stmt fu ->
      forall il g a tn n first last ss i xs,
        ucall_blk tasks fu tn i ss = Ok xs -> forallb frag xs = true -> need_l xs <= g ->
        i + List.length ss = n ->
        forall prev acc ns, (i = 0 -> prev = first) ->
          gs_go tasks g a tn [] n first last il i ss prev acc ns
          = pg_block_go il (pg_stmt il) tn [] a n last i xs prev acc ns.
  Proof.
    intros fu HP il g a tn n first last. induction ss as [|s r IH]; intros i xs H Hf Hn Hlen prev acc ns Hprev;
      cbn [ucall_blk] in H.
    - inversion H; subst. reflexivity.
    - apply rbind_ok_inv in H. destruct H as (x & Hx & H). apply rbind_ok_inv in H. destruct H as (xs' & Hxs & H).
      inversion H; subst xs. clear H. cbn [forallb] in Hf. apply andb_prop in Hf. destruct Hf as [Hfx Hfxs].
      rewrite need_l_cons in Hn. cbn [gs_go pg_block_go]. apply nbind_ext. intros cur s1.
      assert (Epr : (if Nat.ltb 1 n then prev else first) = prev).
      { destruct (Nat.ltb_spec 1 n); [reflexivity|]. cbn [List.length] in Hlen. symmetry. apply Hprev. lia. }
      cbv zeta. rewrite Epr.
      unfold nbind. rewrite (HP il tn [] i s x Hx Hfx g a prev cur s1) by lia.
      destruct (pg_stmt il (mksi tn [] i il) a x prev cur s1) as [[ex s2]| | |]; try reflexivity.
      apply IH; try assumption; try lia. cbn [List.length] in Hlen. lia.
  Qed.

  Lemma ublock_length : forall fu tn pre ss i xs,
      ublock tasks fu tn pre i ss = Ok xs -> List.length xs = List.length ss.
  Proof.
    intros fu tn pre. induction ss as [|s r IH]; intros i xs H; cbn [ublock] in H.
    - inversion H. reflexivity.
    - apply rbind_ok_inv in H. destruct H as (x & _ & H). apply rbind_ok_inv in H. destruct H as (xs' & H1 & H).
      inversion H; subst. cbn [List.length]. f_equal. eapply IH. exact H1.
  Qed.

  Lemma A_ublk : forall fu, P_stmt fu ->
      forall il g a tn pre n first last ss i xs,
        ublock tasks fu tn pre i ss = Ok xs -> forallb frag xs = true -> need_l xs <= g ->
        i + List.length ss = n ->
        forall prev acc ns, (i = 0 -> prev = first) ->
          gs_go tasks g a tn pre n first last il i ss prev acc ns
          = pg_block_go il (pg_stmt il) tn pre a n last i xs prev acc ns.
  Proof.
    intros fu HP il g a tn pre n first last. induction ss as [|s r IH]; intros i xs H Hf Hn Hlen prev acc ns Hprev;
      cbn [ublock] in H.
    - inversion H; subst. reflexivity.
    - apply rbind_ok_inv in H. destruct H as (x & Hx & H). apply rbind_ok_inv in H. destruct H as (xs' & Hxs & H).
      inversion H; subst xs. clear H. cbn [forallb] in Hf. apply andb_prop in Hf. destruct Hf as [Hfx Hfxs].
      rewrite need_l_cons in Hn. cbn [gs_go pg_block_go]. apply nbind_ext. intros cur s1.
      assert (Epr : (if Nat.ltb 1 n then prev else first) = prev).
      { destruct (Nat.ltb_spec 1 n); [reflexivity|]. cbn [List.length] in Hlen. symmetry. apply Hprev. lia. }
      cbv zeta. rewrite Epr.
      unfold nbind. rewrite (HP il tn pre i s x Hx Hfx g a prev cur s1) by lia.
      destruct (pg_stmt il (mksi tn pre i il) a x prev cur s1) as [[ex s2]| | |]; try reflexivity.
      apply IH; try assumption; try lia. cbn [List.length] in Hlen. lia.
  Qed.

  Lemma A_call : forall fu, P_stmt fu -> P_call fu.
  Proof.
    intros fu HP il tn pre i c x H Hf g ctx t1 t2 ns Hg. unfold udo_call in H.
    destruct (find_task (c_name c) tasks) as [t|] eqn:Ft; [|discriminate H].
    pose proof (find_task_name _ _ _ Ft) as En.
    apply rbind_ok_inv in H. destruct H as (body & Hb & H). inversion H; subst x. clear H.
    pose proof (frag_call _ _ _ _ Hf) as [_ Hfb].
    assert (Hfa : forallb frag body = true) by (destruct body; [discriminate Hfb|exact Hfb]).
    cbn [need] in Hg. fold (need_l body) in Hg.
    destruct g as [|[|g2]]; try lia.
    rewrite generate_task_call_S, Ft. cbn [pg_stmt]. rewrite <- En.
    apply nbind_ext. intros u s1. apply nbind_ext. intros a s2. apply nbind_ext. intros _ s3.
    rewrite generate_statements_S. rewrite <- (ucall_blk_length _ _ _ _ _ Hb).
    assert (Hl : 0 + List.length (t_body t) = List.length body).
    { rewrite (ucall_blk_length _ _ _ _ _ Hb). reflexivity. }
    unfold nbind.
    rewrite (A_blk fu HP il g2 a (t_name t) (List.length body) t1 t2 (t_body t) 0 body Hb Hfa ltac:(lia) Hl t1 [] s3 (fun _ => eq_refl)).
    reflexivity.
  Qed.

  Lemma A_calls : forall fu, P_call fu ->
      forall il g ctx tn path t1 sync cs i xs,
        ucalls tasks fu tn path i cs = Ok xs -> frag_brs xs = true -> need_l xs <= S g ->
        forall ns, gp_calls tasks g ctx tn path t1 sync il i cs ns = pg_calls il (pg_stmt il) tn path ctx t1 sync i xs ns.
  Proof.
    intros fu HP il g ctx tn path t1 sync. induction cs as [|c r IH]; intros i xs H Hf Hn ns; cbn [ucalls] in H.
    - inversion H; subst. reflexivity.
    - apply rbind_ok_inv in H. destruct H as (x & Hx & H). apply rbind_ok_inv in H. destruct H as (xs' & Hxs & H).
      inversion H; subst xs. clear H. apply frag_brs_cons in Hf. destruct Hf as (_ & Hfx & Hfxs).
      rewrite need_l_cons in Hn. cbn [gp_calls pg_calls]. unfold nbind.
      rewrite (HP il tn path i c x Hx Hfx g ctx t1 sync ns) by lia.
      destruct (pg_stmt il (mksi tn path i il) ctx x t1 sync ns) as [[ex s2]| | |]; try reflexivity.
      apply IH; try assumption. lia.
  Qed.

  Theorem A_stmt : forall fu, P_stmt fu.
  Proof.
    induction fu as [|fu IH]; [intros il tn pre i s x H; discriminate H|].
    pose proof (A_call fu IH) as HC.
    intros il tn pre i s x H Hf g ctx t1 t2 ns Hg.
    change (s_path (mksi tn pre i il)) with (pre ++ [i]).
    set (path := pre ++ [i]) in *.
    assert (Ek1 : s_tn (mksi tn pre i il) = tn) by reflexivity.
    assert (Ek2 : s_path (mksi tn pre i il) = path) by reflexivity.
    destruct (unfold_frag_shape _ _ _ _ _ _ H Hf) as [(n & ins & o & ->)|[(c & ->)|[(cs & ->)|[(e & p & fl & ->)|[(e & wb & ->)|(cv & clim & wb & ->)]]]]].
    - rewrite unfold_stmt_S_service in H. inversion H; subst x. cbn [need] in Hg.
      destruct g as [|g']; [lia|]. rewrite generate_stmt_S_service. reflexivity.
    - rewrite unfold_stmt_S_call in H.
      assert (1 <= need x) by (destruct x; try discriminate Hf; cbn [need]; lia).
      destruct g as [|g']; [lia|]. rewrite generate_stmt_S_call. apply (HC il tn pre i c x H Hf). lia.
    - rewrite unfold_stmt_S_par in H. apply rbind_ok_inv in H. destruct H as (bs & Hbs & H). inversion H; subst x. clear H.
      cbn [need] in Hg. fold (need_l bs) in Hg. destruct g as [|g']; [lia|].
      rewrite generate_stmt_S_par. cbn [pg_stmt]. rewrite ?Ek1, ?Ek2.
      apply nbind_ext. intros sync s1. apply nbind_ext. intros pfin s2.
      unfold nbind. rewrite (A_calls fu HC il g' ctx tn path t1 sync cs 0 bs Hbs (proj2 (frag_par _ Hf)) ltac:(lia)).
      reflexivity.
    - rewrite unfold_stmt_S_cond in H. apply rbind_ok_inv in H. destruct H as (xp & Hp & H).
      apply rbind_ok_inv in H. destruct H as (xf & Hfl & H). inversion H; subst x. clear H.
      assert (Hf2 := Hf). cbn [frag] in Hf2. apply andb_prop in Hf2. destruct Hf2 as [HfP HfaF].
      assert (HfaP : forallb frag xp = true) by (destruct xp; [discriminate HfP|exact HfP]).
      cbn [need] in Hg. fold (need_l xp) in Hg. fold (need_l xf) in Hg.
      destruct g as [|[|g2]]; try lia.
      rewrite generate_stmt_S_cond. cbn [pg_stmt]. rewrite ?Ek1, ?Ek2.
      apply nbind_ext; intros passed s1. apply nbind_ext; intros failed s2. apply nbind_ext; intros expr_p s3.
      apply nbind_ext; intros fp s4. apply nbind_ext; intros ff s5.
      apply nbind_ext; intros _ s6. apply nbind_ext; intros _ s7. apply nbind_ext; intros _ s8. apply nbind_ext; intros _ s9.
      apply nbind_ext; intros cfin s10. apply nbind_ext; intros sp s11. apply nbind_ext; intros _ s12.
      rewrite generate_statements_S. rewrite <- (ublock_length _ _ _ _ _ _ Hp).
      assert (HlP : 0 + List.length p = List.length xp) by (rewrite (ublock_length _ _ _ _ _ _ Hp); reflexivity).
      apply nbind_cong.
      { apply (A_ublk fu IH il g2 ctx tn (path ++ [0]) (List.length xp) fp sp p 0 xp Hp HfaP ltac:(lia) HlP fp [] s12 (fun _ => eq_refl)). }
      intros _ s13.
      apply nbind_ext; intros _ s14. apply nbind_ext; intros _ s15. apply nbind_ext; intros _ s16.
      destruct fl as [|f0 fr].
      + cbn [ublock] in Hfl. inversion Hfl; subst xf. reflexivity.
      + destruct xf as [|xf0 xfr]; [pose proof (ublock_length _ _ _ _ _ _ Hfl) as HL; discriminate HL|].
        apply nbind_ext. intros sf s17.
        rewrite generate_statements_S. rewrite <- (ublock_length _ _ _ _ _ _ Hfl).
        assert (HlF : 0 + List.length (f0 :: fr) = List.length (xf0 :: xfr)) by (rewrite (ublock_length _ _ _ _ _ _ Hfl); reflexivity).
        apply nbind_cong; [|intros; reflexivity].
        apply (A_ublk fu IH il g2 ctx tn (path ++ [1]) (List.length (xf0 :: xfr)) ff sf (f0 :: fr) 0 (xf0 :: xfr) Hfl HfaF ltac:(lia) HlF ff [] s17 (fun _ => eq_refl)).
    - rewrite unfold_stmt_S_while in H. apply rbind_ok_inv in H. destruct H as (xb & Hb & H). inversion H; subst x. clear H.
      pose proof (frag_while _ _ Hf) as HfB.
      assert (HfaB : forallb frag xb = true) by (destruct xb; [discriminate HfB|exact HfB]).
      cbn [need] in Hg. fold (need_l xb) in Hg.
      destruct g as [|[|g2]]; try lia.
      rewrite generate_stmt_S_while. cbn [pg_stmt]. rewrite ?Ek1, ?Ek2.
      apply nbind_ext; intros loop_p s1. apply nbind_ext; intros then_p s2. apply nbind_ext; intros else_p s3.
      apply nbind_ext; intros cp s4. apply nbind_ext; intros cf s5. apply nbind_ext; intros it s6.
      apply nbind_ext; intros _ s7. apply nbind_ext; intros _ s8. apply nbind_ext; intros _ s9. apply nbind_ext; intros _ s10.
      apply nbind_ext; intros _ s11. apply nbind_ext; intros ldone s12.
      rewrite generate_statements_S. rewrite <- (ublock_length _ _ _ _ _ _ Hb).
      assert (HlB : 0 + List.length wb = List.length xb) by (rewrite (ublock_length _ _ _ _ _ _ Hb); reflexivity).
      apply nbind_cong; [|intros; reflexivity].
      apply (A_ublk fu IH true g2 ctx tn path (List.length xb) cp it wb 0 xb Hb HfaB ltac:(lia) HlB cp [] s12 (fun _ => eq_refl)).
    - rewrite unfold_stmt_S_count in H. apply rbind_ok_inv in H. destruct H as (xb & Hb & H). inversion H; subst x. clear H.
      pose proof (frag_count _ _ _ Hf) as HfB.
      assert (HfaB : forallb frag xb = true) by (destruct xb; [discriminate HfB|exact HfB]).
      cbn [need] in Hg. fold (need_l xb) in Hg.
      destruct g as [|[|g2]]; try lia.
      rewrite generate_stmt_S_count. cbn [pg_stmt]. rewrite ?Ek1, ?Ek2.
      apply nbind_ext; intros loop_p s1. apply nbind_ext; intros then_p s2. apply nbind_ext; intros else_p s3.
      apply nbind_ext; intros cp s4. apply nbind_ext; intros cf s5. apply nbind_ext; intros it s6.
      apply nbind_ext; intros _ s7. apply nbind_ext; intros _ s8. apply nbind_ext; intros _ s9. apply nbind_ext; intros _ s10.
      apply nbind_ext; intros _ s11. apply nbind_ext; intros ldone s12.
      rewrite generate_statements_S. rewrite <- (ublock_length _ _ _ _ _ _ Hb).
      assert (HlB : 0 + List.length wb = List.length xb) by (rewrite (ublock_length _ _ _ _ _ _ Hb); reflexivity).
      apply nbind_cong; [|intros; reflexivity].
      apply (A_ublk fu IH true g2 ctx tn path (List.length xb) cp it wb 0 xb Hb HfaB ltac:(lia) HlB cp [] s12 (fun _ => eq_refl)).
  Qed.
End WalkEq.

(* =========================================================================== *)
(* the whole net                                                                *)
(* =========================================================================== *)
Definition p0 : pos := mkpos 2 2 1 (si_task production_task false).
Definition root_api : api :=
  {| a_is_task := true; a_name := production_task; a_site := root_site; a_uuid := ITest 0; a_ctx := None;
     a_in_loop := false; a_params := []; a_src := []; a_has_call := false |}.

(* the net generate_petri_net builds for a production task whose unfolding is [body]:
   place 0 = started, place 1 = finished, transition 0 enters the body and announces the
   production task, transition 1 leaves it; the body occupies the counters from (2, 2, 1) *)
Record NetOf (body : list xstmt) (N : NS) : Prop := {
  no_places : ns_places N = repeat (Some 0) (2 + nplaces_l body);
  no_ntrans : List.length (ns_trans N) = 2 + ntrans_b body;
  no_ncbs : List.length (ns_cbs N) = 2 + ntrans_b body;
  no_napis : List.length (ns_apis N) = 1 + napis_l body;
  no_c1 : preN N 0 = [0] /\ postN N 0 = entries_b body p0 /\ cbsN N 0 = CbTS 0 :: startcbs_b body p0 0;
  no_c2 : preN N 1 = [xplace_b body p0] /\ postN N 1 = [1] /\ cbsN N 1 = [CbTF 0];
  no_root : nth_error (ns_apis N) 0 = Some root_api;
  no_body : wired_block (wired N) N 0 [] body p0;
  no_dict : Forall (fun kv => exists k, fst kv = IUuid k) (ns_place_dict N);
  no_start : ns_start_place N = 0;
  no_final : ns_final_place N = 1;
  no_sched : ns_test_ids N = true /\ ns_awaited N = [EvStart] /\ ns_running N = false /\ ns_counters N = [] /\
             ns_tid N = 0 /\ ns_sid N = 0 /\ ns_ls N = default_listeners /\ ns_obs N = [] /\ ns_log N = [] /\
             ns_q N = 0 /\ ns_nss N = 0 /\ ns_nnot N = 0 /\ ns_pending N = []
}.

Definition op_sf (a b : nat) (s : NS) : NS := s <| ns_start_place := a |> <| ns_final_place := b |>.

Lemma test_ids_op_fresh : forall s, ns_test_ids (op_fresh s) = ns_test_ids s.
Proof. Transparent op_fresh. reflexivity. Qed.
Global Opaque op_fresh.

Lemma op_api_fresh : forall a s, op_api a s = op_api a s. Proof. reflexivity. Qed.

(* the operations before the body is generated *)
Definition ns_pre : NS :=
  op_trans (op_place (op_in 0 0 (op_cb 0 (CbTS 0) (op_trans (op_place (op_api root_api (ns0 true))))))).

Lemma generate_petri_net_eq : forall tasks g t,
    find_task production_task tasks = Some t ->
    generate_petri_net tasks g (ns0 true) =
    match generate_statements tasks g 0 production_task [] (t_body t) 0 1 false ns_pre with
    | Ok (_, s2) => Ok (tt, op_sf 0 1 (op_cb 1 (CbTF 0) (op_out 1 1 s2)))
    | Fuel => Fuel | Exn k => Exn k | Unsupported => Unsupported
    end.
Proof.
  intros tasks g t Ft. unfold generate_petri_net. rewrite Ft.
  rewrite nbind_fresh. unfold nbind at 1. unfold nget at 1. rewrite test_ids_op_fresh.
  change (ns_test_ids (ns0 true)) with true. cbv iota.
  rewrite nbind_new_api.
  rewrite (nbind_ok _ _ _ _ _ _ _ (create_place_eq _)).
  rewrite (nbind_ok _ _ _ _ _ _ _ (create_transition_eq _)).
  rewrite (nbind_ok _ _ _ _ _ _ _ (add_callback_eq _ _ _)).
  rewrite (nbind_ok _ _ _ _ _ _ _ (add_input_eq _ _ _)).
  rewrite (nbind_ok _ _ _ _ _ _ _ (create_place_eq _)).
  rewrite (nbind_ok _ _ _ _ _ _ _ (create_transition_eq _)).
  autorewrite with netops. cbn [ns_apis ns_places ns_trans ns0 List.length app].
  unfold nbind at 1. fold root_api. fold ns_pre.
  destruct (generate_statements tasks g 0 production_task [] (t_body t) 0 1 false ns_pre) as [[ex s2]| | |]; reflexivity.
Qed.

Lemma ns_pre_facts :
  pos_of (si_task production_task false) ns_pre = p0 /\ okns ns_pre /\
  preN ns_pre 0 = [0] /\ postN ns_pre 0 = [] /\ cbsN ns_pre 0 = [CbTS 0] /\
  preN ns_pre 1 = [] /\ postN ns_pre 1 = [] /\ cbsN ns_pre 1 = [] /\
  nth_error (ns_apis ns_pre) 0 = Some root_api /\ ns_place_dict ns_pre = [] /\
  rest_of ns_pre = rest_of (ns0 true) /\ List.length (ns_trans ns_pre) = 2.
Proof.
  unfold ns_pre, pos_of, okns. autorewrite with netops.
  cbn [ns0 ns_places ns_trans ns_cbs ns_apis ns_fresh ns_place_dict app List.length].
  assert (P : forall j, preN (ns0 true) j = []) by (intros [|j]; reflexivity).
  assert (Q : forall j, postN (ns0 true) j = []) by (intros [|j]; reflexivity).
  assert (C : forall j, cbsN (ns0 true) j = []) by (intros [|j]; reflexivity).
  rewrite !P, !Q, !C. cbn. repeat split; reflexivity.
Qed.

Lemma agree_op_sf : forall a b N p dt da es, agree N (op_sf a b N) p dt da es [].
Proof.
  intros. split; [|split].
  - intros j _. split; [reflexivity|]. split; [reflexivity|].
    change (cbsN (op_sf a b N) j) with (cbsN N j). destruct (hits es j); rewrite app_nil_r; reflexivity.
  - intros j _. reflexivity.
  - exists []. split; [reflexivity|constructor].
Qed.

Lemma repeat_snoc2 : forall n, [Some 0; Some 0] ++ repeat (Some 0) n = repeat (@Some nat 0) (2 + n).
Proof. reflexivity. Qed.

Lemma rest_of_inj : forall s s', rest_of s = rest_of s' ->
    ns_start_place s = ns_start_place s' /\ ns_final_place s = ns_final_place s' /\
    ns_test_ids s = ns_test_ids s' /\ ns_awaited s = ns_awaited s' /\ ns_running s = ns_running s' /\
    ns_counters s = ns_counters s' /\ ns_tid s = ns_tid s' /\ ns_sid s = ns_sid s' /\ ns_ls s = ns_ls s' /\
    ns_obs s = ns_obs s' /\ ns_log s = ns_log s' /\ ns_q s = ns_q s' /\ ns_nss s = ns_nss s' /\
    ns_nnot s = ns_nnot s' /\ ns_pending s = ns_pending s'.
Proof.
  intros s s' H. unfold rest_of in H.
  injection H as H1 H2 H3 H4 H5 H6 H7 H8 H9 H10 H11 H12 H13 H14 H15. repeat split; assumption.
Qed.

Theorem net_init_spec : forall tasks fu body,
    unfold_program tasks fu = Ok body -> frag_block body = true -> need_l body < 200 ->
    keys_block production_task [] body 0 ->
    exists N, net_init tasks true = Ok N /\ NetOf body N.
Proof.
  intros tasks fu body Hu Hf Hneed Hkeys. rewrite unfold_program_eq in Hu.
  destruct (find_task production_task tasks) as [t|] eqn:Ft; [|discriminate Hu].
  destruct ns_pre_facts as (Ppre & Okpre & A1 & A2 & A3 & B1 & B2 & B3 & Hroot & Hdict & Hrest & Hlen).
  assert (Hfa : forallb frag body = true) by (destruct body; [discriminate Hf|exact Hf]).
  assert (Hl : 0 + List.length (t_body t) = List.length body).
  { rewrite (ucall_blk_length _ _ _ _ _ _ Hu). reflexivity. }
  destruct (gen_block body Hf false production_task [] 0 0 1 ns_pre Hkeys Okpre ltac:(lia) ltac:(lia)) as (ns2 & E2 & G2 & P2 & Ok2 & W2).
  change (mksi production_task [] 0 false) with (si_task production_task false) in E2, G2, P2, W2.
  rewrite Ppre in E2, G2, P2, W2.
  unfold net_init. rewrite (generate_petri_net_eq tasks 200 t Ft).
  change 200 with (S 199) at 1. rewrite generate_statements_S.
  rewrite <- (ucall_blk_length _ _ _ _ _ _ Hu).
  rewrite (A_blk tasks fu (A_stmt tasks fu) false 199 0 production_task (List.length body) 0 1 (t_body t) 0 body Hu Hfa
                 ltac:(lia) Hl 0 [] ns_pre (fun _ => eq_refl)).
  fold (pg_block false production_task [] 0 body 0 1). rewrite E2.
  set (N := op_sf 0 1 (op_cb 1 (CbTF 0) (op_out 1 1 ns2))).
  exists N. split; [reflexivity|].
  unfold Gen in G2.
  assert (L2 : List.length (ns_trans ns2) = 2 + ntrans_b body).
  { pose proof (f_equal pt P2) as E. unfold pos_of, adv_b, p0 in E. cbn [pt] in E. exact E. }
  assert (L2c : List.length (ns_cbs ns2) = 2 + ntrans_b body) by (destruct Ok2 as [Hc _]; rewrite Hc; exact L2).
  assert (G23 : GenF ns2 (op_cb 1 (CbTF 0) (op_out 1 1 ns2))
                     (fun j => [] ++ []) (fun j => (if Nat.eqb j 1 then [1] else []) ++ [])
                     (fun j => [] ++ (if Nat.eqb j 1 then [CbTF 0] else []))).
  { eapply GenF_trans; [apply GenF_op_out|apply GenF_op_cb]. autorewrite with netops. destruct Ok2 as [Hc _]. exact Hc. }
  assert (G13 := GenF_trans _ _ _ _ _ _ _ _ _ G2 G23).
  constructor.
  - change (ns_places N) with (ns_places (op_cb 1 (CbTF 0) (op_out 1 1 ns2))). autorewrite with netops.
    rewrite (gn_places _ _ _ _ _ G2).
    pose proof (f_equal pp Ppre) as Epp. unfold pos_of, p0 in Epp. cbn [pp] in Epp.
    pose proof (f_equal pp P2) as Epp2. unfold pos_of, adv_b, p0 in Epp2. cbn [pp] in Epp2.
    rewrite Epp, Epp2.
    assert (Hp : ns_places ns_pre = [Some 0; Some 0]).
    { unfold ns_pre. autorewrite with netops. reflexivity. }
    rewrite Hp. replace (2 + nplaces_l body - 2) with (nplaces_l body) by lia. reflexivity.
  - change (ns_trans N) with (ns_trans (op_cb 1 (CbTF 0) (op_out 1 1 ns2))). autorewrite with netops. exact L2.
  - change (ns_cbs N) with (ns_cbs (op_cb 1 (CbTF 0) (op_out 1 1 ns2))). autorewrite with netops. exact L2c.
  - change (ns_apis N) with (ns_apis (op_cb 1 (CbTF 0) (op_out 1 1 ns2))). autorewrite with netops.
    pose proof (f_equal pa P2) as E. unfold pos_of, adv_b, p0 in E. cbn [pa] in E. exact E.
  - change (preN N 0) with (preN (op_cb 1 (CbTF 0) (op_out 1 1 ns2)) 0).
    change (postN N 0) with (postN (op_cb 1 (CbTF 0) (op_out 1 1 ns2)) 0).
    change (cbsN N 0) with (cbsN (op_cb 1 (CbTF 0) (op_out 1 1 ns2)) 0).
    rewrite (gn_pre _ _ _ _ _ G13 0), (gn_post _ _ _ _ _ G13 0), (gn_cbs _ _ _ _ _ G13 0) by lia.
    rewrite A1, A2, A3. cbn [Nat.eqb app]. rewrite !app_nil_r. auto.
  - change (preN N 1) with (preN (op_cb 1 (CbTF 0) (op_out 1 1 ns2)) 1).
    change (postN N 1) with (postN (op_cb 1 (CbTF 0) (op_out 1 1 ns2)) 1).
    change (cbsN N 1) with (cbsN (op_cb 1 (CbTF 0) (op_out 1 1 ns2)) 1).
    rewrite (gn_pre _ _ _ _ _ G13 1), (gn_post _ _ _ _ _ G13 1), (gn_cbs _ _ _ _ _ G13 1) by lia.
    rewrite B1, B2, B3. cbn [Nat.eqb app]. rewrite ?app_nil_r. auto.
  - change (ns_apis N) with (ns_apis (op_cb 1 (CbTF 0) (op_out 1 1 ns2))). autorewrite with netops.
    rewrite (gn_apis _ _ _ _ _ G2).
    + exact Hroot.
    + pose proof (f_equal pa Ppre) as E. unfold pos_of, p0 in E. cbn [pa] in E. lia.
  - apply (wired_block_ext (op_cb 1 (CbTF 0) (op_out 1 1 ns2)) N body Hf p0 0 []); [apply agree_op_sf|].
    apply (wired_block_ext ns2 (op_cb 1 (CbTF 0) (op_out 1 1 ns2)) body Hf p0 0 []); [|exact W2].
    eapply GenF_agree; [exact G23| | |].
    + intros j Hj. cbn [p0 pt] in Hj. assert (E1 : Nat.eqb j 1 = false) by (apply Nat.eqb_neq; lia).
      cbn beta. rewrite E1. auto.
    + cbn [p0 pt]. lia.
    + pose proof (f_equal pa P2) as E. unfold pos_of, adv_b, p0 in E. cbn [pa] in E. cbn [p0 pa]. lia.
  - change (ns_place_dict N) with (ns_place_dict (op_cb 1 (CbTF 0) (op_out 1 1 ns2))). autorewrite with netops.
    destruct (gn_dict _ _ _ _ _ G2) as (d & Hd & Hk). rewrite Hd, Hdict, app_nil_r.
    eapply Forall_impl; [|exact Hk]. intros kv (k & E & _). exists k. exact E.
  - reflexivity.
  - reflexivity.
  - assert (R : rest_of (op_cb 1 (CbTF 0) (op_out 1 1 ns2)) = rest_of (ns0 true)).
    { autorewrite with netops. rewrite (gn_rest _ _ _ _ _ G2). exact Hrest. }
    apply rest_of_inj in R.
    destruct R as (_ & _ & R3 & R4 & R5 & R6 & R7 & R8 & R9 & R10 & R11 & R12 & R13 & R14 & R15).
    repeat match goal with |- context [?f N] => change (f N) with (f (op_cb 1 (CbTF 0) (op_out 1 1 ns2))) end.
    rewrite R3, R4, R5, R6, R7, R8, R9, R10, R11, R12, R13, R14, R15. repeat split; reflexivity.
Qed.

End WithLV.
