(* Refine/Transfer.v — what the refinement theorem transfers: on the fragment, every successful
   run of the FAITHFUL net model (any fuel) yields the trace of the reference semantics, hence
   every monitor that accepts all reference traces accepts the net model's trace.  Proof file. *)
From PFDL Require Import NetModel NetRun RunCase Monitors NetQuiescent RefC01 RefC07 RefC04 RefMonitors.
From PFDL.Refine Require Import Main.
From Coq Require Import Lia.

(* the net model's run is monotone in its fuel *)
Lemma run_net_f_fuel_mono : forall f f' c tr, f <= f' -> run_net_f f c = Ok tr -> run_net_f f' c = Ok tr.
Proof.
  intros f f' c tr Hle H. unfold run_net_f in *. destruct (rc_test_ids c); [|discriminate H].
  destruct (net_init (p_tasks (rc_prog c)) true) as [s| | |]; cbn [rbind] in *; try discriminate H.
  eapply net_run_script_fuel_mono; eassumption.
Qed.

(* with enough fuel the net model produces the reference trace ... *)
Theorem net_trace_is_ref_trace : forall c, in_fragment c = true -> forall tr, run_ref c = Ok tr ->
    exists f0, forall f, f0 <= f -> run_net_f f c = Ok tr.
Proof. exact net_refines_ref_fragment. Qed.

(* ... and whenever it produces a trace at all (with any fuel), it is that trace *)
Theorem net_trace_unique : forall c, in_fragment c = true -> forall tr, run_ref c = Ok tr ->
    forall f tr1, run_net_f f c = Ok tr1 -> tr1 = tr.
Proof.
  intros c Hin tr Href f tr1 H1. destruct (net_refines_ref_fragment c Hin tr Href) as [f0 H0].
  pose proof (run_net_f_fuel_mono f (Nat.max f f0) c tr1 (Nat.le_max_l _ _) H1) as E1.
  rewrite (H0 (Nat.max f f0) (Nat.le_max_r _ _)) in E1. congruence.
Qed.

Corollary run_net_is_ref_trace : forall c, in_fragment c = true -> forall tr, run_ref c = Ok tr ->
    forall tr1, run_net c = Ok tr1 -> tr1 = tr.
Proof. intros c Hin tr Href tr1 H. rewrite run_net_is_run_net_f in H. eapply net_trace_unique; eassumption. Qed.

(* every property of all reference traces is a property of the net model's traces on the fragment *)
Theorem net_transfer : forall (P : runcase -> list callrec -> Prop),
    (forall c tr, run_ref c = Ok tr -> P c tr) ->
    forall c, in_fragment c = true -> forall tr, run_ref c = Ok tr ->
    forall f tr1, run_net_f f c = Ok tr1 -> P c tr1.
Proof. intros P HP c Hin tr Href f tr1 H1. rewrite (net_trace_unique c Hin tr Href f tr1 H1). apply HP. exact Href. Qed.

Section Monitors.
  Variables (c : runcase) (tr tr1 : list callrec) (f : nat).
  Variable Hin : in_fragment c = true.
  Variable Href : run_ref c = Ok tr.
  Variable Hnet : run_net_f f c = Ok tr1.

  Theorem net_C01_fragment : holds_C01 tr1 = true.
  Proof. exact (net_transfer (fun _ t => holds_C01 t = true) C01_ref_programs c Hin tr Href f tr1 Hnet). Qed.
  Theorem net_C07_fragment : holds_C07 (rc_script c) tr1 = true.
  Proof. exact (net_transfer (fun c t => holds_C07 (rc_script c) t = true) C07_ref_programs c Hin tr Href f tr1 Hnet). Qed.
  Theorem net_C04ctx_fragment : mon_C04ctx c tr1 = true.
  Proof. exact (net_transfer (fun c t => mon_C04ctx c t = true) C04_context_monitors_programs c Hin tr Href f tr1 Hnet). Qed.
  Theorem net_C08_fragment : mon_C08 c tr1 = true.
  Proof. exact (net_transfer (fun c t => mon_C08 c t = true) C08_monitor_ref_programs c Hin tr Href f tr1 Hnet). Qed.
  Theorem net_C14_fragment : mon_C14 c tr1 = true.
  Proof. exact (net_transfer (fun c t => mon_C14 c t = true) C14_monitor_ref_programs c Hin tr Href f tr1 Hnet). Qed.
  Theorem net_C17_fragment : mon_C17 c tr1 = true.
  Proof. exact (net_transfer (fun c t => mon_C17 c t = true) C17_monitor_ref_programs c Hin tr Href f tr1 Hnet). Qed.
  Theorem net_C20_fragment : mon_C20 c tr1 = true.
  Proof. exact (net_transfer (fun c t => mon_C20 c t = true) C20_monitor_ref_programs c Hin tr Href f tr1 Hnet). Qed.
End Monitors.
