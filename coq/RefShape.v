(* RefShape.v — the shape of the log of every API call of the reference semantics:
   it is the concatenation, over an abstract sequence of notifications and oracle
   queries, of "every function registered for that kind, in registration order, with
   the same argument; then one LOG_EVENT entry per attached observer, in attachment
   order, naming the same entity and identifier".  This is the content of C20 and C17.
   Proof file. *)
From PFDL Require Import RefSem RunCase Monitors RefBase RefClosure.

Inductive aev :=
| ANot (n : notif) (flag : bool) (running : bool)
| AQ (v : name) (ctx : nat).

Definition render (ls : list (nkind * nat)) (obs : list nat) (a : aev) : list entry :=
  match a with
  | ANot n flag r =>
    map (fun l => ENotif l n r) (listeners_of (n_kind n) ls)
    ++ map (fun o => EObs o (n_kind n) (n_name n) (n_id n) flag) obs
  | AQ v c => [EQuery v c]
  end.

(* the order-finished flag is carried by the production task's finished notification only *)
Definition flag_ok (a : aev) : Prop :=
  match a with
  | ANot n flag _ => flag = is_kind TF n && is_prod n
  | AQ _ _ => True
  end.

Definition run_is (b : bool) (a : aev) : Prop :=
  match a with ANot _ _ r => r = b | AQ _ _ => True end.

Definition Shape (g g' : G) : Prop :=
  g_ls g' = g_ls g /\ g_obs g' = g_obs g /\ g_running g' = g_running g /\
  exists evs, g_log g' = rev (flat_map (render (g_ls g) (g_obs g)) evs) ++ g_log g
              /\ Forall flag_ok evs /\ Forall (run_is (g_running g)) evs.

Lemma Shape_refl : forall g, Shape g g.
Proof. intro g. repeat split. exists []. repeat split; constructor. Qed.

Lemma Shape_trans : forall a b c, Shape a b -> Shape b c -> Shape a c.
Proof.
  intros a b c (A1 & A2 & A3 & e1 & A4 & A5 & A6) (B1 & B2 & B3 & e2 & B4 & B5 & B6).
  repeat split; try congruence.
  exists (e1 ++ e2). split; [|split].
  - rewrite B4, A4, A1, A2, flat_map_app, rev_app_distr, app_assoc. reflexivity.
  - apply Forall_app. split; assumption.
  - apply Forall_app. split; [assumption|]. rewrite <- A3. exact B6.
Qed.

Lemma Shape_pure : forall g g',
    g_ls g' = g_ls g -> g_obs g' = g_obs g -> g_running g' = g_running g -> g_log g' = g_log g -> Shape g g'.
Proof. intros g g' H1 H2 H3 H4. repeat split; auto. exists []. rewrite H4. repeat split; constructor. Qed.

Lemma Shape_emit : forall n flag g u g',
    emit_gen n flag g = Ok (u, g') -> flag = is_kind TF n && is_prod n -> Shape g g'.
Proof.
  intros n flag g u g' H Hf. unfold emit_gen in H. apply log_entries_eff in H.
  destruct H as (H1 & H2 & H3 & _ & _ & _ & _ & _ & H9).
  repeat split; auto. exists [ANot n flag (g_running g)]. split; [|split].
  - rewrite H9. cbn [flat_map render]. rewrite app_nil_r. reflexivity.
  - constructor; [exact Hf|constructor].
  - constructor; [reflexivity|constructor].
Qed.

Lemma Shape_emit_ctx : forall k nm at_ id ctx ps g u g',
    emit (mk k nm at_ id (Some ctx) ps) g = Ok (u, g') -> Shape g g'.
Proof.
  intros. eapply Shape_emit; [eassumption|]. unfold is_prod. cbn. rewrite !andb_false_r. reflexivity.
Qed.

Lemma Shape_query : forall v c g u g', log_entry (EQuery v c) g = Ok (u, g') -> Shape g g'.
Proof.
  intros v c g u g' H. unfold log_entry in H. apply log_entries_eff in H.
  destruct H as (H1 & H2 & H3 & _ & _ & _ & _ & _ & H9).
  repeat split; auto. exists [AQ v c]. split; [|split].
  - rewrite H9. reflexivity.
  - constructor; [exact I|constructor].
  - constructor; [exact I|constructor].
Qed.

Section WithEnv.
  Variable orc : oracle.
  Variable imm : nat -> bool.

  Lemma Shape_queries : forall vs ctx g u g', log_queries vs ctx g = Ok (u, g') -> Shape g g'.
  Proof.
    induction vs as [|v vs IH]; intros ctx g u g' H; cbn [log_queries] in H.
    - mstep. apply Shape_refl.
    - mstep as u1 g1 E1. apply Shape_query in E1. eapply Shape_trans; [exact E1|]. eapply IH; eassumption.
  Qed.

  Lemma Shape_decide : forall e ctx g b g', decide_m orc e ctx g = Ok (b, g') -> Shape g g'.
  Proof.
    intros e ctx g b g' H. unfold decide_m in H.
    destruct (decide expected_ops orc e (g_q g)) as [[b0 k']| | |]; try discriminate.
    mstep as u1 g1 E1. apply Shape_queries in E1. mstep as u2 g2 E2. unfold set_q in E2. inv E2. mstep.
    eapply Shape_trans; [exact E1|]. apply Shape_pure; reflexivity.
  Qed.

  Lemma Shape_limit : forall l ctx g n g', read_limit orc l ctx g = Ok (n, g') -> Shape g g'.
  Proof.
    intros l ctx g n g' H. destruct l as [k|v p]; cbn [read_limit] in H.
    - mstep. apply Shape_refl.
    - destruct (orc (g_q g) v) as [x|]; [|discriminate].
      destruct (resolve x p) as [[q| | |]| | |]; try discriminate.
      destruct (Pos.eqb (Qden q) 1); [|discriminate].
      mstep as u1 g1 E1. apply Shape_query in E1. mstep as u2 g2 E2. unfold set_q in E2. inv E2. mstep.
      eapply Shape_trans; [exact E1|]. apply Shape_pure; reflexivity.
  Qed.

  Lemma Shape_service : forall n at_ ins ctx ie g st g',
      (id <- fresh_s ;;
       await id ;;;
       emit (mk SS n at_ id (Some ctx) (subst_params ie ins)) ;;;
       k <- tick_ss ;;
       if imm k
       then unawait id ;;; emit (mk SF n at_ id (Some ctx) (subst_params ie ins)) ;;; ret RDone
       else ret (RAwait id)) g = Ok (st, g') -> Shape g g'.
  Proof.
    intros n at_ ins ctx ie g st g' H.
    mstep as id g1 E1. unfold fresh_s in E1. inv E1.
    mstep as u2 g2 E2. unfold await, set_awaited in E2. inv E2.
    mstep as u3 g3 E3. apply Shape_emit_ctx in E3.
    mstep as k g4 E4. unfold tick_ss in E4. inv E4.
    assert (S03 : Shape g g3).
    { eapply Shape_trans; [|exact E3]. apply Shape_pure; reflexivity. }
    destruct (imm (g_ss g3)).
    - mstep as u5 g5 E5. unfold unawait in E5.
      match type of E5 with match ?X with _ => _ end = _ => destruct X as [l|] end; [|discriminate].
      unfold set_awaited in E5. inv E5.
      mstep as u6 g6 E6. apply Shape_emit_ctx in E6. mstep.
      eapply Shape_trans; [exact S03|]. eapply Shape_trans; [|exact E6]. apply Shape_pure; reflexivity.
    - mstep. eapply Shape_trans; [exact S03|]. apply Shape_pure; reflexivity.
  Qed.

  Lemma Shape_tstart : forall t at_ ctx ps g id g1 u g2,
      fresh_t g = Ok (id, g1) -> emit (mk TS t at_ id (Some ctx) ps) g1 = Ok (u, g2) -> Shape g g2.
  Proof.
    intros t at_ ctx ps g id g1 u g2 E1 E2. unfold fresh_t in E1. inv E1.
    apply Shape_emit_ctx in E2. eapply Shape_trans; [|exact E2]. apply Shape_pure; reflexivity.
  Qed.

  Definition start_shape := start_closed orc imm Shape Shape_refl Shape_trans Shape_decide Shape_limit
                                         Shape_service Shape_tstart
                                         (fun t at_ id ctx ps => @Shape_emit_ctx TF t at_ id ctx ps).
  Definition deliver_shape := deliver_closed orc imm Shape Shape_refl Shape_trans Shape_decide Shape_limit
                                         Shape_service Shape_tstart
                                         (fun t at_ id ctx ps => @Shape_emit_ctx TF t at_ id ctx ps)
                                         (fun n at_ id ctx ps => @Shape_emit_ctx SF n at_ id ctx ps).
End WithEnv.

(* ---- one API call ---- *)
Definition next_ls (ls : list (nkind * nat)) (c : apicall) : list (nkind * nat) :=
  match c with
  | ARegister k l =>
    if existsb (fun p => nkind_eqb (fst p) k && Nat.eqb (snd p) l) ls then ls else ls ++ [(k, l)]
  | _ => ls
  end.
Definition next_obs (obs : list nat) (c : apicall) : list nat :=
  match c with
  | AAttach o => obs ++ [o]
  | ADetach o => match remove_first (Nat.eqb o) obs with Some l => l | None => obs end
  | _ => obs
  end.
Definition is_admin (c : apicall) : bool :=
  match c with ARegister _ _ | AAttach _ | ADetach _ => true | _ => false end.

Definition call_shape (ls : list (nkind * nat)) (obs : list nat) (c : apicall) (r : callrec) : Prop :=
  (exists evs, cr_log r = flat_map (render ls obs) evs /\ Forall flag_ok evs)
  /\ (is_admin c = true -> cr_log r = [])
  /\ (forall k l, c = ARegister k l ->
                  cr_ret r = negb (existsb (fun p => nkind_eqb (fst p) k && Nat.eqb (snd p) l) ls)).

Fixpoint shape_run (ls : list (nkind * nat)) (obs : list nat) (cs : list apicall) (tr : list callrec) : Prop :=
  match cs, tr with
  | [], [] => True
  | c :: cs', r :: tr' => call_shape ls obs c r /\ shape_run (next_ls ls c) (next_obs obs c) cs' tr'
  | _, _ => False
  end.

Section Api.
  Variable orc : oracle.
  Variable imm : nat -> bool.
  Variable body : list xstmt.

  Lemma shape_log : forall g g',
      Shape g g' -> g_log g = [] ->
      exists evs, rev (g_log g') = flat_map (render (g_ls g) (g_obs g)) evs /\ Forall flag_ok evs.
  Proof.
    intros g g' (_ & _ & _ & evs & H & Hf & _) Hn. exists evs. rewrite H, Hn, app_nil_r, rev_involutive.
    split; [reflexivity|exact Hf].
  Qed.

  Lemma api_shape : forall f s c b s',
      api_call orc imm f body s c = Ok (b, s') ->
      call_shape (g_ls (sc_g s)) (g_obs (sc_g s)) c (observe b s')
      /\ g_ls (sc_g s') = next_ls (g_ls (sc_g s)) c /\ g_obs (sc_g s') = next_obs (g_obs (sc_g s)) c.
  Proof.
    intros f s c b s' H.
    assert (Q : forall c0 b0 ls' obs',
               (forall k l, c0 = ARegister k l ->
                            b0 = negb (existsb (fun p => nkind_eqb (fst p) k && Nat.eqb (snd p) l) (g_ls (sc_g s)))) ->
               call_shape (g_ls (sc_g s)) (g_obs (sc_g s)) c0
                          (observe b0 {| sc_g := clear_log (sc_g s) <| g_ls := ls' |> <| g_obs := obs' |>;
                                         sc_root := sc_root s |})).
    { intros c0 b0 ls' obs' Hr. split; [|split].
      - exists []. split; [reflexivity|constructor].
      - reflexivity.
      - exact Hr. }
    destruct c as [|id| |k l|o|o]; cbn [api_call] in H.
    - destruct (sc_root s) as [r0|] eqn:Hroot.
      + inv H. split; [|split; reflexivity].
        apply (Q AStart true (g_ls (sc_g s)) (g_obs (sc_g s))). intros; discriminate.
      + match type of H with match ?X with _ => _ end = _ => destruct X as [[st g']| | |] eqn:E end;
          try discriminate. inv H.
        mstep as u1 g1 E1. unfold set_running in E1. inv E1.
        set (g0 := clear_log (sc_g s) <| g_running := true |>) in *.
        mstep as id g2 E2. unfold fresh_t in E2. inv E2.
        mstep as u3 g3 E3. eapply Shape_emit in E3; [|reflexivity].
        mstep as r g4 E4. apply (proj1 (proj2 (start_shape orc imm f))) in E4.
        assert (S04 : Shape g0 g4).
        { eapply Shape_trans; [|exact E4]. eapply Shape_trans; [|exact E3]. apply Shape_pure; reflexivity. }
        destruct r as [[i sti]|].
        * mstep. destruct (shape_log _ _ S04 eq_refl) as (evs & L1 & L2).
          destruct S04 as (X1 & X2 & _).
          split; [|split; [exact X1|exact X2]].
          split; [|split; [discriminate|intros; discriminate]].
          exists evs. split; [exact L1|exact L2].
        * mstep as u5 g5 E5. unfold finish_root in E5. mstep as u6 g6 E6.
          eapply Shape_emit in E6; [|reflexivity]. unfold set_running in E5. inv E5. mstep.
          assert (S06 : Shape g0 g6) by (eapply Shape_trans; eassumption).
          destruct (shape_log _ _ S06 eq_refl) as (evs & L1 & L2).
          destruct S06 as (X1 & X2 & _).
          split; [|split; [exact X1|exact X2]].
          split; [|split; [discriminate|intros; discriminate]].
          exists evs. split; [exact L1|exact L2].
    - change (g_awaited (clear_log (sc_g s))) with (g_awaited (sc_g s)) in H.
      destruct (mem id (g_awaited (sc_g s))).
      + destruct (sc_root s) as [[|id'|cid i sti|sts|bb i sti|k i sti|sts]|] eqn:Hroot; try discriminate.
        match type of H with match ?X with _ => _ end = _ => destruct X as [[st g']| | |] eqn:E end;
          try discriminate. inv H.
        mstep as u1 g1 E1. unfold unawait in E1.
        match type of E1 with match ?X with _ => _ end = _ => destruct X as [aw1|] end; [|discriminate].
        unfold set_awaited in E1. inv E1.
        set (g0 := clear_log (sc_g s)) in *.
        mstep as r g2 E2. apply (proj1 (proj2 (deliver_shape orc imm f))) in E2.
        assert (S02 : Shape g0 g2).
        { eapply Shape_trans; [|exact E2]. apply Shape_pure; reflexivity. }
        destruct r as [[[j st']|]|]; [| |discriminate].
        * mstep. destruct (shape_log _ _ S02 eq_refl) as (evs & L1 & L2).
          destruct S02 as (X1 & X2 & _).
          split; [|split; [exact X1|exact X2]].
          split; [|split; [discriminate|intros; discriminate]].
          exists evs. split; [exact L1|exact L2].
        * mstep as u5 g5 E5. unfold finish_root in E5. mstep as u6 g6 E6.
          eapply Shape_emit in E6; [|reflexivity]. unfold set_running in E5. inv E5. mstep.
          assert (S06 : Shape g0 g6) by (eapply Shape_trans; eassumption).
          destruct (shape_log _ _ S06 eq_refl) as (evs & L1 & L2).
          destruct S06 as (X1 & X2 & _).
          split; [|split; [exact X1|exact X2]].
          split; [|split; [discriminate|intros; discriminate]].
          exists evs. split; [exact L1|exact L2].
      + inv H. split; [|split; reflexivity].
        apply (Q (AFinish id) false (g_ls (sc_g s)) (g_obs (sc_g s))). intros; discriminate.
    - inv H. split; [|split; reflexivity].
      apply (Q AJunk false (g_ls (sc_g s)) (g_obs (sc_g s))). intros; discriminate.
    - change (g_ls (clear_log (sc_g s))) with (g_ls (sc_g s)) in H.
      cbn [next_ls].
      destruct (existsb (fun p => nkind_eqb (fst p) k && Nat.eqb (snd p) l) (g_ls (sc_g s))) eqn:Ex; inv H.
      + split; [|split; reflexivity].
        apply (Q (ARegister k l) false (g_ls (sc_g s)) (g_obs (sc_g s))).
        intros k0 l0 Heq. inv Heq. rewrite Ex. reflexivity.
      + split; [|split; reflexivity].
        apply (Q (ARegister k l) true (g_ls (sc_g s) ++ [(k, l)]) (g_obs (sc_g s))).
        intros k0 l0 Heq. inv Heq. rewrite Ex. reflexivity.
    - inv H. split; [|split; reflexivity].
      apply (Q (AAttach o) true (g_ls (sc_g s)) (g_obs (sc_g s) ++ [o])). intros; discriminate.
    - change (g_obs (clear_log (sc_g s))) with (g_obs (sc_g s)) in H. cbn [next_obs].
      destruct (remove_first (Nat.eqb o) (g_obs (sc_g s))) as [l|]; [|discriminate]. inv H.
      split; [|split; reflexivity].
      apply (Q (ADetach o) true (g_ls (sc_g s)) l). intros; discriminate.
  Qed.

  Theorem shape_run_ref : forall f cs s tr,
      run_script orc imm f body s cs = Ok tr ->
      shape_run (g_ls (sc_g s)) (g_obs (sc_g s)) cs tr.
  Proof.
    intros f cs. induction cs as [|c cs IH]; intros s tr H; cbn [run_script] in H.
    - inv H. exact I.
    - destruct (api_call orc imm f body s c) as [[b s']| | |] eqn:E; try discriminate.
      cbn [rbind] in H.
      destruct (run_script orc imm f body s' cs) as [t| | |] eqn:E2; try discriminate.
      cbn [rbind] in H. inv H.
      destruct (api_shape _ _ _ _ _ E) as (S1 & S2 & S3).
      cbn [shape_run]. split; [exact S1|]. rewrite <- S2, <- S3. apply IH. exact E2.
  Qed.
End Api.
