(* TextPipelineProofs.v — proofs about the text pipeline (TextPipeline.v), on top of
   TextPipelineFuel.v (the parser never runs out of fuel):
   1. inversion of the parser's results;
   2. every call parameter the parser builds has the shape Guards.from_grammar asks for — a plain
      name, a path ".field" ("[i]")? ... , or a literal that is a JSON object — by induction
      along the fuelled rules: [gprogram_shape];
   3. the generic statement-level rules of TextPipeline.v instantiated with top_expr / json_norm
      ARE the rules of Front/Parser.v: [gparse_program_agrees] (by conversion);
   4. hence [parser_output_from_grammar] : front_end_chars intern cs = FOk p -> from_grammar p;
   5. composition with the validator: [validate_text_verdict], [text_valid_iff], ... *)
From PFDL Require Import Base Syntax.
From PFDL.Front Require Import CharLexer FrontEnd CharLexerProofs.
From PFDL.Check Require Import CheckModel Guards CheckProofsC16 CheckProofsNoExn.
From PFDL Require Import TextPipeline TextPipelineFuel.
From Coq Require Import Lia Ascii.

Lemma fbind_ok_inv : forall A B (m : fres A) (k : A -> fres B) v,
  fbind m k = FOk v -> exists a, m = FOk a /\ k a = FOk v.
Proof. intros A B [a| | | |] k v H; simpl in H; try discriminate. exists a. split; [reflexivity|exact H]. Qed.

(* one step of the inversion of [H : e = FOk v] *)
Ltac inv_step H :=
  match type of H with
  | FOk _ = FOk _ => inversion H; subst; clear H
  | FSyntax = FOk _ => discriminate H
  | FFuel = FOk _ => discriminate H
  | FVisitor = FOk _ => discriminate H
  | FUnsupported = FOk _ => discriminate H
  | (if ?b then _ else _) = FOk _ => destruct b eqn:?
  | (match ?x with _ => _ end) = FOk _ => is_var x; destruct x
  | fbind _ _ = FOk _ =>
    let a := fresh "a" in let Hm := fresh "Hm" in
    apply fbind_ok_inv in H; destruct H as [a [Hm H]]; simpl in H
  | _ => progress simpl in H
  end.
Ltac inv_all H := repeat (inv_step H).

(* ------------------------------------------------------------------------------------ *)
(* 2. the shape of the parameters                                                        *)
(* ------------------------------------------------------------------------------------ *)
Definition path_shape (p : list pelem) : Prop :=
  match p with [] => True | PF _ :: _ => True | _ => False end.

Lemma path_tail_shape : forall f ts p r,
  parse_path_tail f ts = FOk (p, r) -> path_shape p /\ no_double_index p = true.
Proof.
  induction f; intros ts p r H; [discriminate|]. simpl in H.
  destruct ts as [|[t| | | |] ts]; try (inv_all H; split; [exact I|reflexivity]).
  destruct t; try (inv_all H; split; [exact I|reflexivity]).
  destruct ts as [|[t| | | |] ts]; try discriminate.
  destruct t; try discriminate.
  destruct (starts_array ts).
  - apply fbind_ok_inv in H. destruct H as [[l r1] [Hl H]]. simpl in H.
    apply fbind_ok_inv in H. destruct H as [[q r2] [Hq H]]. simpl in H.
    inversion H; subst; clear H. destruct (IHf _ _ _ Hq) as [Hs Hn].
    split; [exact I|].
    destruct q as [|[] q]; try destruct Hs; destruct l; simpl in *; try reflexivity; exact Hn.
  - apply fbind_ok_inv in H. destruct H as [[q r2] [Hq H]]. simpl in H.
    inversion H; subst; clear H. destruct (IHf _ _ _ Hq) as [Hs Hn].
    split; [exact I|].
    destruct q as [|[] q]; try destruct Hs; simpl in *; try reflexivity; exact Hn.
Qed.

Lemma path_tail_nonempty : forall f ts p r,
  parse_path_tail f ts = FOk (p, r) -> starts_dot ts = true -> exists a q, p = PF a :: q.
Proof.
  intros [|f] ts p r H Hd; [discriminate|]. simpl in H.
  destruct ts as [|[t| | | |] ts]; try discriminate Hd.
  destruct t; try discriminate Hd.
  destruct ts as [|[t| | | |] ts]; try discriminate.
  destruct t; try discriminate.
  destruct (starts_array ts); inv_all H; eauto.
Qed.

Lemma path_tail_grammar : forall f ts p r,
  parse_path_tail f ts = FOk (p, r) -> starts_dot ts = true -> grammar_path p = true.
Proof.
  intros f ts p r H Hd. destruct (path_tail_nonempty _ _ _ _ H Hd) as [a [q ->]].
  destruct (path_tail_shape _ _ _ _ H) as [_ Hn]. exact Hn.
Qed.

Lemma json_object_obj : forall f ts j r,
  parse_json_object f ts = FOk (j, r) -> exists fs, j = JObj fs.
Proof.
  intros [|f] ts j r H; [discriminate|]. simpl in H. inv_all H; eauto.
Qed.

Section GenericShape.
  Variable top : expr -> fres expr.
  Variable norm : json -> json.
  Variable T : level_table.
  Variable nl : nat.
  Hypothesis norm_obj : forall fs, exists fs', norm (JObj fs) = JObj fs'.

  Notation fp := param_from_grammar.
  Notation gparam := (gparse_param norm).
  Notation gparams := (gparse_params norm).
  Notation gcall_body := (gparse_call_body norm).
  Notation gcall_rest := (gparse_call_rest norm).
  Notation gtask_calls := (gparse_task_calls norm).
  Notation gstmt := (gparse_stmt top norm T nl).
  Notation gcounting := (gparse_counting top norm T nl).
  Notation gblock := (gparse_block top norm T nl).
  Notation gstmts := (gparse_stmts top norm T nl).
  Notation gtask := (gparse_task top norm T nl).
  Notation gprogram := (gparse_program top norm T nl).

  Lemma gparam_shape : forall f ts p r, gparam f ts = FOk (p, r) -> fp p = true.
  Proof.
    intros f ts p r H. unfold gparse_param in H.
    destruct ts as [|[t| | | |] ts]; try discriminate. destruct t; try discriminate.
    - destruct (starts_dot ts) eqn:Hd.
      + apply fbind_ok_inv in H. destruct H as [[q r1] [Hq H]]. simpl in H.
        inv_all H. simpl. eapply path_tail_grammar; eauto.
      + inv_all H. reflexivity.
    - assert (Hj : forall f' ts' j r1, parse_json_object f' ts' = FOk (j, r1) -> fp (PLit n (norm j)) = true).
      { intros f' ts' j r1 Hj. destruct (json_object_obj _ _ _ _ Hj) as [fs ->].
        destruct (norm_obj fs) as [fs' ->]. reflexivity. }
      destruct ts as [|[t| | | |] ts].
      + apply fbind_ok_inv in H. destruct H as [[j r1] [Hm H]]. simpl in H. inv_all H. eauto.
      + apply fbind_ok_inv in H. destruct H as [[j r1] [Hm H]]. simpl in H. inv_all H. eauto.
      + apply fbind_ok_inv in H. destruct H as [[j r1] [Hm H]]. simpl in H. inv_all H. eauto.
      + apply fbind_ok_inv in H. destruct H as [[j r1] [Hm H]]. simpl in H. inv_all H. eauto.
      + apply fbind_ok_inv in H. destruct H as [[j r1] [Hm H]]. simpl in H. inv_all H. eauto.
      + apply fbind_ok_inv in H. destruct H as [[j r1] [Hm H]]. simpl in H. inv_all H. eauto.
  Qed.

  Lemma gparams_shape : forall f ts ps r, gparams f ts = FOk (ps, r) -> forallb fp ps = true.
  Proof.
    induction f; intros ts ps r H; [discriminate|]. simpl in H.
    apply fbind_ok_inv in H. destruct H as [[p r1] [Hp H]]. simpl in H.
    apply gparam_shape in Hp.
    destruct (starts_param r1).
    - apply fbind_ok_inv in H. destruct H as [[ps' r2] [Hps H]]. simpl in H.
      inv_all H. simpl. rewrite Hp. eapply IHf; eauto.
    - inv_all H. simpl. rewrite Hp. reflexivity.
  Qed.

  Lemma gcall_body_shape : forall f ts ins outs r,
    gcall_body f ts = FOk ((ins, outs), r) -> forallb fp ins = true.
  Proof.
    intros f ts ins outs r H. unfold gparse_call_body in H.
    apply fbind_ok_inv in H. destruct H as [[ins' r1] [Hi H]]. simpl in H.
    apply fbind_ok_inv in H. destruct H as [[outs' r2] [Ho H]]. simpl in H.
    inv_all H. clear Ho.
    destruct ts as [|[t| | | |] ts]; try (inv_all Hi; reflexivity).
    destruct t; try (inv_all Hi; reflexivity).
    apply fbind_ok_inv in Hi. destruct Hi as [r0 [_ Hi]].
    apply fbind_ok_inv in Hi. destruct Hi as [[ps r3] [Hps Hi]]. simpl in Hi.
    inv_all Hi. eapply gparams_shape; eauto.
  Qed.

  Lemma gcall_rest_shape : forall f ts ins outs r,
    gcall_rest f ts = FOk ((ins, outs), r) -> forallb fp ins = true.
  Proof.
    intros f ts ins outs r H. unfold gparse_call_rest in H.
    destruct ts as [|[t| | | |] ts]; try discriminate.
    - inv_all H. reflexivity.
    - apply fbind_ok_inv in H. destruct H as [[[i o] r1] [Hb H]]. simpl in H.
      inv_all H. eapply gcall_body_shape; eauto.
  Qed.

  Lemma gtask_calls_shape : forall f ts cs r,
    gtask_calls f ts = FOk (cs, r) -> forallb (fun c => forallb fp (c_ins c)) cs = true.
  Proof.
    induction f; intros ts cs r H; [discriminate|]. simpl in H.
    destruct ts as [|[t| | | |] ts]; try discriminate. destruct t; try discriminate.
    apply fbind_ok_inv in H. destruct H as [[[i o] r1] [Hc H]]. simpl in H.
    apply gcall_rest_shape in Hc.
    destruct (starts_lower r1).
    - apply fbind_ok_inv in H. destruct H as [[cs' r2] [Hcs H]]. simpl in H.
      inv_all H. simpl. rewrite Hc. eapply IHf; eauto.
    - inv_all H. simpl. rewrite Hc. reflexivity.
  Qed.

  Notation sp := (stmt_params_all fp).

  Ltac fin :=
    simpl; try rewrite Bool.andb_true_iff; try split;
    eauto using gcall_rest_shape, gtask_calls_shape.

  Lemma gstmt_shape_all : forall f,
    (forall ts s r, gstmt f ts = FOk (s, r) -> sp s = true) /\
    (forall par ts s r, gcounting f par ts = FOk (s, r) -> sp s = true) /\
    (forall ts ss r, gblock f ts = FOk (ss, r) -> forallb sp ss = true) /\
    (forall ts ss r, gstmts f ts = FOk (ss, r) -> forallb sp ss = true).
  Proof.
    induction f as [|f [IHs [IHc [IHb IHss]]]].
    - repeat split; intros; discriminate.
    - repeat apply conj.
      + intros ts s r H. rewrite gparse_stmt_S in H. inv_all H; fin.
      + intros par ts s r H. rewrite gparse_counting_S in H. inv_all H; fin.
      + intros ts ss r H. rewrite gparse_block_S in H. inv_all H; fin.
      + intros ts ss r H. rewrite gparse_stmts_S in H. inv_all H; fin.
  Qed.

  Lemma gstmts_shape : forall f ts ss r, gstmts f ts = FOk (ss, r) -> forallb sp ss = true.
  Proof. intros f. apply (gstmt_shape_all f). Qed.

  Lemma gtask_shape : forall f ts t r, gtask f ts = FOk (t, r) -> forallb sp (t_body t) = true.
  Proof.
    intros f ts t r H. unfold gparse_task in H. inv_all H. simpl. eapply gstmts_shape; eauto.
  Qed.

  Lemma gprogram_shape : forall f ts p, gprogram f ts = FOk p -> from_grammar p = true.
  Proof.
    induction f; intros ts p H; [discriminate|]. simpl in H.
    destruct ts as [|d ts]; [discriminate|].
    destruct d as [t| | | |]; try discriminate.
    - destruct t; try discriminate.
      + apply fbind_ok_inv in H. destruct H as [[s r] [_ H]]. simpl in H.
        apply fbind_ok_inv in H. destruct H as [p' [Hp H]]. inv_all H.
        apply IHf in Hp. exact Hp.
      + apply fbind_ok_inv in H. destruct H as [[t r] [Ht H]]. simpl in H.
        apply fbind_ok_inv in H. destruct H as [p' [Hp H]]. inv_all H.
        apply IHf in Hp. apply gtask_shape in Ht.
        unfold from_grammar in *. simpl. rewrite Ht. exact Hp.
    - eapply IHf; eauto.
    - destruct ts; [|discriminate]. inv_all H. reflexivity.
  Qed.
End GenericShape.

(* ------------------------------------------------------------------------------------ *)
(* 3. instantiated with top_expr / json_norm the generic rules are Front/Parser.v          *)
(* ------------------------------------------------------------------------------------ *)
(* the two definitions unfold to the same fixpoints *)
Theorem gparse_program_agrees : forall T nl,
  gparse_program top_expr json_norm T nl = parse_program T nl.
Proof. reflexivity. Qed.

Theorem gparse_stmt_agrees : forall T nl,
  gparse_stmt top_expr json_norm T nl = parse_stmt T nl.
Proof. reflexivity. Qed.

(* ------------------------------------------------------------------------------------ *)
(* 4. the parser discharges the hypothesis of the validator's theorems                   *)
(* ------------------------------------------------------------------------------------ *)
Lemma json_norm_obj : forall fs, exists fs', json_norm (JObj fs) = JObj fs'.
Proof. intros fs. simpl. eexists. reflexivity. Qed.

Lemma keep_json_obj : forall fs, exists fs', keep_json (JObj fs) = JObj fs'.
Proof. intros fs. exists fs. reflexivity. Qed.

(* every AST Front/Parser.v builds has the shape the grammar gives it — for every token list *)
Theorem parse_tokens_from_grammar : forall ts p,
  parse_tokens ts = FOk p -> from_grammar p = true.
Proof.
  intros ts p H. unfold parse_tokens in H. rewrite <- gparse_program_agrees in H.
  eapply gprogram_shape; [exact json_norm_obj | exact H].
Qed.

(* ... hence for every text, whatever the interning of names *)
Theorem parser_output_from_grammar : forall intern cs p,
  front_end_chars intern cs = FOk p -> from_grammar p = true.
Proof.
  intros intern cs p H. unfold front_end_chars in H. destruct (lex intern cs); [|discriminate].
  apply fbind_ok_inv in H. destruct H as [p0 [Hp H]].
  destruct (visitor_errors p0); [discriminate|]. inversion H; subst.
  eapply parse_tokens_from_grammar; exact Hp.
Qed.

(* the same for the front end on the line representation (Properties/C12.v) *)
Theorem front_end_from_grammar : forall t p,
  front_end t = FOk p -> from_grammar p = true.
Proof.
  intros t p H. unfold front_end in H.
  apply fbind_ok_inv in H. destruct H as [p0 [Hp H]].
  destruct (visitor_errors p0); [discriminate|]. inversion H; subst.
  eapply parse_tokens_from_grammar; exact Hp.
Qed.

Theorem parse_text_from_grammar : forall intern cs p,
  parse_text intern cs = FOk p -> from_grammar p = true.
Proof.
  intros intern cs p H. unfold parse_text in H. destruct (lex intern cs); [|discriminate].
  unfold parse_text_tokens in H. eapply gprogram_shape; [exact keep_json_obj | exact H].
Qed.

(* ------------------------------------------------------------------------------------ *)
(* 5. from the characters to the verdict                                                 *)
(* ------------------------------------------------------------------------------------ *)
(* the parser of the text pipeline parses or reports a syntax error *)
Theorem parse_text_cases : forall intern cs,
  parse_text intern cs = FSyntax \/ exists p, parse_text intern cs = FOk p.
Proof.
  intros intern cs. pose proof (parse_text_nf intern cs) as H.
  destruct (parse_text intern cs) as [p| | | |]; try destruct H; [right; eauto | left; reflexivity].
Qed.

(* validation of a text always returns, with the list of messages it printed *)
Theorem validate_text_verdict : forall intern cs,
  exists ms, validate_text intern cs = Ok ms.
Proof.
  intros intern cs. unfold validate_text.
  destruct (parse_text_cases intern cs) as [H|[p H]]; rewrite H.
  - eexists. reflexivity.
  - destruct (from_grammar_verdict p (parse_text_from_grammar _ _ _ H)) as [es Hes].
    unfold validate_ast. rewrite Hes. eexists. reflexivity.
Qed.

Theorem validate_text_no_exception : forall intern cs k, validate_text intern cs <> Exn k.
Proof. intros intern cs k. destruct (validate_text_verdict intern cs) as [ms H]. rewrite H. discriminate. Qed.

Theorem validate_text_no_fuel : forall intern cs, validate_text intern cs <> Fuel.
Proof. intros intern cs. destruct (validate_text_verdict intern cs) as [ms H]. rewrite H. discriminate. Qed.

Theorem validate_text_supported : forall intern cs, validate_text intern cs <> Unsupported.
Proof. intros intern cs. destruct (validate_text_verdict intern cs) as [ms H]. rewrite H. discriminate. Qed.

(* valid exactly when nothing was printed *)
Theorem text_valid_iff : forall intern cs ms,
  validate_text intern cs = Ok ms -> (text_valid intern cs = true <-> ms = []).
Proof.
  intros intern cs ms H. unfold text_valid. rewrite H.
  destruct ms; split; intro; try reflexivity; discriminate.
Qed.

Theorem text_valid_iff_no_message : forall intern cs,
  text_valid intern cs = true <-> validate_text intern cs = Ok [].
Proof.
  intros intern cs. unfold text_valid.
  destruct (validate_text intern cs) as [[|m ms]| | |]; split; intro H; try reflexivity; discriminate.
Qed.

(* a syntax error (token recognition error included) is at least one message, no Process *)
Theorem syntax_error_invalid : forall intern cs,
  parse_text intern cs = FSyntax ->
  validate_text intern cs = Ok [MSyntax] /\ text_valid intern cs = false /\ text_has_process intern cs = false.
Proof.
  intros intern cs H. unfold text_valid, text_has_process, validate_text. rewrite H. repeat split.
Qed.

Theorem lex_error_invalid : forall intern cs ts off,
  lex intern cs = LexError ts off -> validate_text intern cs = Ok [MSyntax].
Proof.
  intros intern cs ts off H. apply syntax_error_invalid. unfold parse_text. rewrite H. reflexivity.
Qed.

(* an illegal character outside comments and string literals makes the text invalid *)
Theorem illegal_character_invalid : forall intern pre c post,
  illegal c = true ->
  forallb (fun x => negb (Ascii.eqb x "#") && negb (Ascii.eqb x ch_quote))%bool pre = true ->
  validate_text intern (pre ++ c :: post) = Ok [MSyntax].
Proof.
  intros intern pre c post Hi Hp.
  destruct (CharLexerProofs.lex_rejects_illegal_plain intern pre c post Hi Hp) as [ts [off [H _]]].
  eapply lex_error_invalid; exact H.
Qed.

(* a text is valid exactly when it parses and the validator accepts the AST *)
Theorem text_valid_spec : forall intern cs,
  text_valid intern cs = true <-> exists p, parse_text intern cs = FOk p /\ accepted p = true.
Proof.
  intros intern cs. unfold text_valid, validate_text, accepted, validate_ast. split.
  - intros H. destruct (parse_text intern cs) as [p| | | |]; try discriminate.
    exists p. split; [reflexivity|].
    destruct (validate p) as [[|e es]| | |]; try discriminate; reflexivity.
  - intros [p [Hp Ha]]. rewrite Hp.
    destruct (validate p) as [[|e es]| | |]; try discriminate; reflexivity.
Qed.

(* the messages of a text that parses are the validator's messages for its AST *)
Theorem text_messages : forall intern cs p,
  parse_text intern cs = FOk p ->
  exists es, validate p = Ok es /\ validate_text intern cs = Ok (map MCheck es).
Proof.
  intros intern cs p H.
  destruct (from_grammar_verdict p (parse_text_from_grammar _ _ _ H)) as [es Hes].
  exists es. split; [exact Hes|]. unfold validate_text, validate_ast. rewrite H, Hes. reflexivity.
Qed.

(* ------------------------------------------------------------------------------------ *)
(* 6. examples (by evaluation)                                                           *)
(* ------------------------------------------------------------------------------------ *)
Lemma example_valid_text_valid :
  validate_text example_names example_valid_text = Ok [] /\ text_valid example_names example_valid_text = true.
Proof. vm_compute. split; reflexivity. Qed.

Lemma example_semantic_text_invalid :
  validate_text example_names example_semantic_text
  = Ok [MCheck (KMissingAttr, CLit 0 [0] 0); MCheck (KUnknownAttrInLit, CLit 0 [0] 0);
        MCheck (KCmpTypes, CStmt 0 [1])]
  /\ text_valid example_names example_semantic_text = false
  /\ text_has_process example_names example_semantic_text = true.
Proof. vm_compute. repeat split; reflexivity. Qed.

Lemma example_illegal_text_invalid :
  validate_text example_names example_illegal_text = Ok [MSyntax]
  /\ text_valid example_names example_illegal_text = false
  /\ text_has_process example_names example_illegal_text = false.
Proof. vm_compute. repeat split; reflexivity. Qed.

Lemma example_bytes_invalid :
  validate_text example_names example_bytes = Ok [MSyntax] /\ text_valid example_names example_bytes = false.
Proof. vm_compute. split; reflexivity. Qed.

Lemma example_truncated_invalid :
  validate_text example_names example_truncated = Ok [MSyntax].
Proof. vm_compute. reflexivity. Qed.

Lemma example_lone_string_valid :
  front_end_chars example_names example_lone_string = FUnsupported
  /\ validate_text example_names example_lone_string = Ok [].
Proof. vm_compute. split; reflexivity. Qed.

Lemma example_nested_array_reported :
  (exists p, front_end_chars example_names example_nested_array = FOk p /\ validate p = Ok [])
  /\ validate_text example_names example_nested_array = Ok [MCheck (KNestedArray, CLitJson 0 [0] 0)].
Proof. split; [eexists; split|]; vm_compute; reflexivity. Qed.

Lemma example_deep_not_valid :
  List.length (example_deep_not 300) = 357 /\ validate_text example_names (example_deep_not 300) = Ok [].
Proof. vm_compute. split; reflexivity. Qed.
