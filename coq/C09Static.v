(* C09Static.v — executable static conditions on a program that the run-time half of C09 is stated
   under, besides acceptance by the validator.  Definitions and small structural lemmas only.

   guards_typed p        (Check/CheckProofsC09.v, = negb (sh_bad_guard p), Typing rule R6):
                         every guard has type boolean.  NOT implied by acceptance: finding D12b.
   limits_typed p        (rule R7) every loop limit is an integer literal or a path of type number,
                         in the variable table of Typing.v (vars_of_task).
   paths_index_free p    no guard and no limit contains an array index (the scheduler cannot evaluate
                         them; the validator rejects them: D25) — C09IndexFree.v derives this from
                         acceptance for every task the unfolding can reach.
   no_string_order p     no < <= > >= between two strings (Expr.py_cmp: "lexicographic order of str:
                         not modelled" — the model answers Unsupported, the implementation compares).
   division_safe p       every divisor is a non-zero number literal (possibly parenthesised);
                         otherwise ZeroDivisionError is possible: C09_division_by_zero_refuted. *)
From PFDL Require Import Base Syntax.
From PFDL.Check Require Import CheckModel Typing Guards CheckProofsBase.

(* ---- a walker over the guards and limits of a statement, with the counting variables of the
   enclosing sequential loops (the traversal of Guards.stmt_exists, as a universal) ---- *)
Section Walk.
  Variable fe : list name -> expr -> bool.
  Variable fl : list name -> limit -> bool.
  Fixpoint stmt_forall (lv : list name) (s : stmt) {struct s} : bool :=
    match s with
    | SWhile e b => fe lv e && forallb (stmt_forall lv) b
    | SCount true _ lim _ => fl lv lim
    | SCount false i lim b => fl lv lim && forallb (stmt_forall (i :: lv)) b
    | SCond e p f => fe lv e && forallb (stmt_forall lv) p && forallb (stmt_forall lv) f
    | _ => true
    end.
End Walk.

Definition task_forall (fe : task -> list name -> expr -> bool) (fl : task -> list name -> limit -> bool)
           (t : task) : bool :=
  forallb (stmt_forall (fe t) (fl t) []) (t_body t).

Definition tasks_forall (fe : program -> task -> list name -> expr -> bool)
           (fl : program -> task -> list name -> limit -> bool) (p : program) : bool :=
  forallb (task_forall (fe p) (fl p)) (p_tasks p).

(* ---- the conditions on one expression ---- *)
Definition is_str_ty (o : option ety) : bool := match o with Some TyStr => true | _ => false end.

Fixpoint expr_no_str_order (P : program) (vars : list (name * vtype)) (lv : list name) (e : expr) : bool :=
  match e with
  | ENot e1 | EParen e1 => expr_no_str_order P vars lv e1
  | EBin o l r =>
    expr_no_str_order P vars lv l && expr_no_str_order P vars lv r
    && (if is_cmp o then negb (is_str_ty (expr_type P vars lv l)) else true)
  | _ => true
  end.

Fixpoint nonzero_literal (e : expr) : bool :=
  match e with
  | ENum q => negb (Qeq_bool q 0)
  | EParen e1 => nonzero_literal e1
  | _ => false
  end.

Fixpoint expr_div_safe (e : expr) : bool :=
  match e with
  | ENot e1 | EParen e1 => expr_div_safe e1
  | EBin o l r =>
    expr_div_safe l && expr_div_safe r && (match o with ODiv => nonzero_literal r | _ => true end)
  | _ => true
  end.

Fixpoint expr_div_free (e : expr) : bool :=
  match e with
  | ENot e1 | EParen e1 => expr_div_free e1
  | EBin o l r => expr_div_free l && expr_div_free r && (match o with ODiv => false | _ => true end)
  | _ => true
  end.

(* ---- the conditions on a program ---- *)
Definition limits_typed : program -> bool :=
  tasks_forall (fun _ _ _ _ => true) (fun p t lv l => limit_ok p (vars_of_task t) lv l).
Definition paths_index_free : program -> bool :=
  tasks_forall (fun _ _ _ e => expr_index_free e) (fun _ _ _ l => limit_index_free l).
Definition no_string_order : program -> bool :=
  tasks_forall (fun p t lv e => expr_no_str_order p (vars_of_task t) lv e) (fun _ _ _ _ => true).
Definition division_safe : program -> bool :=
  tasks_forall (fun _ _ _ e => expr_div_safe e) (fun _ _ _ _ => true).
Definition division_free : program -> bool :=
  tasks_forall (fun _ _ _ e => expr_div_free e) (fun _ _ _ _ => true).

(* guards_typed as a universal over the same walker *)
Definition guards_typed_all : program -> bool :=
  tasks_forall (fun p t lv e => guard_ok p (vars_of_task t) lv e) (fun _ _ _ _ => true).

(* ---- structural lemmas ---- *)
Lemma existsb_false_forall : forall A (f : A -> bool) l x, existsb f l = false -> In x l -> f x = false.
Proof.
  intros A f l x H Hin. destruct (f x) eqn:E; [|reflexivity].
  assert (existsb f l = true) by (apply existsb_exists; eauto). congruence.
Qed.

Lemma forallb_Forall_imp : forall (Q : stmt -> bool) (R : stmt -> bool) l,
    Forall (fun s => Q s = true -> R s = true) l -> forallb Q l = true -> forallb R l = true.
Proof.
  intros Q R l H. induction H as [|x l Hx Hl IH]; cbn [forallb]; [auto|].
  intro H. apply andb_true_iff in H. destruct H as [A B]. rewrite (Hx A), (IH B). reflexivity.
Qed.

Lemma stmt_forall_mono : forall (fe fe' : list name -> expr -> bool) (fl fl' : list name -> limit -> bool),
    (forall lv e, fe lv e = true -> fe' lv e = true) ->
    (forall lv l, fl lv l = true -> fl' lv l = true) ->
    forall s lv, stmt_forall fe fl lv s = true -> stmt_forall fe' fl' lv s = true.
Proof.
  intros fe fe' fl fl' He Hl s.
  induction s as [n ins outs|c|cs|e b IHb|par v l b IHb|e p f IHp IHf] using stmt_ind';
    intros lv H; cbn [stmt_forall] in *; auto.
  - apply andb_true_iff in H. destruct H as [H1 H2]. apply andb_true_iff. split; [auto|].
    eapply forallb_Forall_imp; [|exact H2]. eapply Forall_impl; [|exact IHb]. cbn beta. auto.
  - destruct par; [auto|].
    apply andb_true_iff in H. destruct H as [H1 H2]. apply andb_true_iff. split; [auto|].
    eapply forallb_Forall_imp; [|exact H2]. eapply Forall_impl; [|exact IHb]. cbn beta. auto.
  - apply andb_true_iff in H. destruct H as [H H3]. apply andb_true_iff in H. destruct H as [H1 H2].
    repeat (apply andb_true_iff; split); auto.
    + eapply forallb_Forall_imp; [|exact H2]. eapply Forall_impl; [|exact IHp]. cbn beta. auto.
    + eapply forallb_Forall_imp; [|exact H3]. eapply Forall_impl; [|exact IHf]. cbn beta. auto.
Qed.

Lemma forallb_Forall_and : forall (Q1 Q2 R : stmt -> bool) l,
    Forall (fun s => Q1 s = true -> Q2 s = true -> R s = true) l ->
    forallb Q1 l = true -> forallb Q2 l = true -> forallb R l = true.
Proof.
  intros Q1 Q2 R l H. induction H as [|x l Hx Hl IH]; cbn [forallb]; [auto|].
  intros H1 H2. apply andb_true_iff in H1. destruct H1 as [A1 B1].
  apply andb_true_iff in H2. destruct H2 as [A2 B2]. rewrite (Hx A1 A2), (IH B1 B2). reflexivity.
Qed.

Lemma stmt_forall_and : forall (fe1 fe2 : list name -> expr -> bool) (fl1 fl2 : list name -> limit -> bool) s lv,
    stmt_forall fe1 fl1 lv s = true -> stmt_forall fe2 fl2 lv s = true ->
    stmt_forall (fun lv e => fe1 lv e && fe2 lv e) (fun lv l => fl1 lv l && fl2 lv l) lv s = true.
Proof.
  intros fe1 fe2 fl1 fl2 s.
  induction s as [n ins outs|c|cs|e b IHb|par v l b IHb|e p f IHp IHf] using stmt_ind';
    intros lv H1 H2; cbn [stmt_forall] in *; auto.
  - apply andb_true_iff in H1. destruct H1 as [A1 B1]. apply andb_true_iff in H2. destruct H2 as [A2 B2].
    rewrite A1, A2. cbn [andb].
    eapply forallb_Forall_and; [|exact B1|exact B2]. eapply Forall_impl; [|exact IHb]. cbn beta. auto.
  - destruct par; [rewrite H1, H2; reflexivity|].
    apply andb_true_iff in H1. destruct H1 as [A1 B1]. apply andb_true_iff in H2. destruct H2 as [A2 B2].
    rewrite A1, A2. cbn [andb].
    eapply forallb_Forall_and; [|exact B1|exact B2]. eapply Forall_impl; [|exact IHb]. cbn beta. auto.
  - apply andb_true_iff in H1. destruct H1 as [H1 C1]. apply andb_true_iff in H1. destruct H1 as [A1 B1].
    apply andb_true_iff in H2. destruct H2 as [H2 C2]. apply andb_true_iff in H2. destruct H2 as [A2 B2].
    rewrite A1, A2. cbn [andb].
    apply andb_true_iff; split.
    + eapply forallb_Forall_and; [|exact B1|exact B2]. eapply Forall_impl; [|exact IHp]. cbn beta. auto.
    + eapply forallb_Forall_and; [|exact C1|exact C2]. eapply Forall_impl; [|exact IHf]. cbn beta. auto.
Qed.

Lemma existsb_false_forallb : forall (Q R : stmt -> bool) l,
    Forall (fun s => Q s = false -> R s = true) l -> existsb Q l = false -> forallb R l = true.
Proof.
  intros Q R l H. induction H as [|x l Hx Hl IH]; cbn [existsb forallb]; [auto|].
  intro H. apply orb_false_iff in H. destruct H as [A B]. rewrite (Hx A), (IH B). reflexivity.
Qed.

(* the existential walker of Guards.v and the universal one *)
Lemma stmt_exists_forall : forall (fb : list name -> expr -> bool) s lv,
    stmt_exists fb lv s = false ->
    stmt_forall (fun lv e => negb (fb lv e)) (fun _ _ => true) lv s = true.
Proof.
  intros fb s.
  induction s as [n ins outs|c|cs|e b IHb|par v l b IHb|e p f IHp IHf] using stmt_ind';
    intros lv Hx; cbn [stmt_exists stmt_forall] in *; auto.
  - apply orb_false_iff in Hx. destruct Hx as [A B]. rewrite A. cbn [negb andb].
    eapply existsb_false_forallb; [|exact B]. eapply Forall_impl; [|exact IHb]. cbn beta. auto.
  - destruct par; [reflexivity|]. cbn [andb].
    eapply existsb_false_forallb; [|exact Hx]. eapply Forall_impl; [|exact IHb]. cbn beta. auto.
  - apply orb_false_iff in Hx. destruct Hx as [Hx C]. apply orb_false_iff in Hx. destruct Hx as [A B].
    rewrite A. cbn [negb andb].
    apply andb_true_iff; split.
    + eapply existsb_false_forallb; [|exact B]. eapply Forall_impl; [|exact IHp]. cbn beta. auto.
    + eapply existsb_false_forallb; [|exact C]. eapply Forall_impl; [|exact IHf]. cbn beta. auto.
Qed.


Lemma guards_typed_all_of : forall p, sh_bad_guard p = false -> guards_typed_all p = true.
Proof.
  intros p H. unfold sh_bad_guard, tasks_exist in H. unfold guards_typed_all, tasks_forall, task_forall.
  apply forallb_forall. intros t Ht. apply forallb_forall. intros s Hs.
  pose proof (existsb_false_forall _ _ _ _ H Ht) as H1. cbn beta in H1.
  pose proof (existsb_false_forall _ _ _ _ H1 Hs) as H2.
  apply stmt_exists_forall in H2.
  eapply stmt_forall_mono; [| |exact H2]; cbn beta.
  - intros lv e. unfold guard_bad. rewrite negb_involutive. auto.
  - auto.
Qed.

(* pointwise: a condition on the program gives the condition on every statement of every task *)
Lemma tasks_forall_at : forall fe fl p t s,
    tasks_forall fe fl p = true -> In t (p_tasks p) -> In s (t_body t) ->
    stmt_forall (fe p t) (fl p t) [] s = true.
Proof.
  intros fe fl p t s H Ht Hs. unfold tasks_forall, task_forall in H.
  rewrite forallb_forall in H. specialize (H t Ht). rewrite forallb_forall in H. exact (H s Hs).
Qed.
