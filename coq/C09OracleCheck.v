(* C09OracleCheck.v — an executable check that a finite list of answers (RunCase.orc_of: the k-th
   query gets the k-th value, the last one repeats; the variable name is ignored) is a well-typed
   oracle for a program, and its soundness w.r.t. C09Expr.oracle_typed.  Proof file. *)
From PFDL Require Import Base Syntax Expr RefSem RunCase C09Static C09Expr.
From PFDL.Check Require Import CheckModel Typing Guards.

Section ValueInd.
  Variable Q : value -> Prop.
  Variable Hnum : forall q, Q (VNum q).
  Variable Hbool : forall b, Q (VBool b).
  Variable Hstr : forall s, Q (VStr s).
  Variable Hstruct : forall fs, Forall (fun kv => Q (snd kv)) fs -> Q (VStruct fs).
  Fixpoint value_ind' (v : value) : Q v :=
    match v with
    | VNum q => Hnum q
    | VBool b => Hbool b
    | VStr s => Hstr s
    | VStruct fs =>
      Hstruct fs ((fix go (l : list (name * value)) : Forall (fun kv => Q (snd kv)) l :=
                     match l with
                     | [] => Forall_nil _
                     | (k, x) :: r => Forall_cons (k, x) (value_ind' x) (go r)
                     end) fs)
    end.
End ValueInd.

Section Check.
  Variable P : program.

  (* every non-array attribute of the struct's definition is present, and every field that carries
     the name of an attribute has a value of the attribute's type (at any depth) *)
  Fixpoint vtyped_b (x : value) (t : vtype) {struct x} : bool :=
    match t with
    | TArray _ _ => true
    | TPlain TNumber => match x with VNum _ => true | _ => false end
    | TPlain TBoolean => match x with VBool _ => true | _ => false end
    | TPlain TString => match x with VStr _ => true | _ => false end
    | TPlain (TStructName s) =>
      match x with
      | VStruct fs =>
        match find_structdef s (p_structs P) with
        | None => false
        | Some sd =>
          forallb (fun aty => match snd aty with
                              | TArray _ _ => true
                              | TPlain _ => match assoc (fst aty) fs with Some _ => true | None => false end
                              end) (s_attrs sd)
          && (fix go (l : list (name * value)) : bool :=
                match l with
                | [] => true
                | (a, y) :: r =>
                  (match assoc a (s_attrs sd) with Some ty => vtyped_b y ty | None => true end) && go r
                end) fs
        end
      | _ => false
      end
    end.

  Lemma assoc_in : forall V (l : list (name * V)) k v, assoc k l = Some v -> In (k, v) l.
  Proof.
    induction l as [|[k' v'] r IH]; intros k v H; cbn [assoc] in H; [discriminate|].
    destruct (Nat.eqb k k') eqn:E.
    - apply Nat.eqb_eq in E. inversion H; subst. left; reflexivity.
    - right. apply IH. exact H.
  Qed.

  Lemma vtyped_b_sound : forall x t, vtyped_b x t = true -> vtyped P x t.
  Proof.
    intro x. induction x as [q|b|s|fs IH] using value_ind'; intros t H;
      destruct t as [[| | |sn]|pr len]; cbn [vtyped_b] in H; try discriminate; try constructor.
    destruct (find_structdef sn (p_structs P)) as [sd|] eqn:Hs; [|discriminate].
    apply andb_true_iff in H. destruct H as [Hpres Hgo].
    eapply vt_struct; [exact Hs|]. intros a pr Ha.
    rewrite forallb_forall in Hpres. specialize (Hpres (a, TPlain pr) (assoc_in _ _ _ _ Ha)). cbn [fst snd] in Hpres.
    destruct (assoc a fs) as [y|] eqn:Hy; [|discriminate].
    exists y. split; [reflexivity|].
    apply assoc_in in Hy.
    clear Hpres. induction fs as [|[a' y'] r IHr]; [destruct Hy|].
    apply andb_true_iff in Hgo. destruct Hgo as [H1 H2]. inversion IH as [|? ? Hq Hr]; subst.
    destruct Hy as [Hy|Hy].
    - inversion Hy; subst a' y'. rewrite Ha in H1. cbn [snd] in Hq. apply Hq. exact H1.
    - apply IHr; assumption.
  Qed.

  (* whatever a limit path resolves to in the value is a whole number *)
  Definition whole_at (x : value) (ves : name * list pelem) : bool :=
    match resolve x (snd ves) with
    | Ok (VNum q) => Pos.eqb (Qden q) 1
    | _ => true
    end.

  (* the check: the list is not empty; every value has every type that some task declares for some
     variable (the oracle is not told the variable's task, and orc_of not even the variable); limit
     paths resolve to whole numbers *)
  Definition declared_types : list vtype :=
    flat_map (fun t => map snd (vars_of_task t)) (p_tasks P).

  Definition oracle_typed_b (vals : list value) : bool :=
    negb (match vals with [] => true | _ => false end)
    && forallb (fun x => forallb (vtyped_b x) declared_types && forallb (whole_at x) (limit_paths P)) vals.

  Lemma orc_of_in : forall vals k v, vals <> [] -> exists x, orc_of vals k v = Some x /\ In x vals.
  Proof.
    intros vals k v Hne. unfold orc_of.
    destruct (nth_error vals (Nat.min k (List.length vals - 1))) as [x|] eqn:E.
    - exists x. split; [reflexivity|]. eapply nth_error_In. exact E.
    - exfalso. apply nth_error_None in E. destruct vals as [|y r]; [congruence|]. cbn [List.length] in E.
      pose proof (Nat.le_min_r k (S (List.length r) - 1)). lia.
  Qed.

  Theorem oracle_typed_b_sound : forall vals, oracle_typed_b vals = true -> oracle_typed P (orc_of vals).
  Proof.
    intros vals H. unfold oracle_typed_b in H. apply andb_true_iff in H. destruct H as [Hne Hall].
    assert (Hne' : vals <> []) by (destruct vals; [discriminate|congruence]).
    rewrite forallb_forall in Hall. split.
    - intros t v T k Ht Ha. destruct (orc_of_in vals k v Hne') as (x & Hx & Hin).
      exists x. split; [exact Hx|]. apply vtyped_b_sound.
      specialize (Hall x Hin). apply andb_true_iff in Hall. destruct Hall as [Hty _].
      rewrite forallb_forall in Hty. apply Hty. unfold declared_types.
      apply in_flat_map. exists t. split; [exact Ht|]. apply in_map_iff. exists (v, T).
      split; [reflexivity|]. eapply assoc_in. exact Ha.
    - intros v es k x q Hin Hx Hr.
      destruct (orc_of_in vals k v Hne') as (x' & Hx' & Hin'). rewrite Hx in Hx'. inversion Hx'; subst x'.
      specialize (Hall x Hin'). apply andb_true_iff in Hall. destruct Hall as [_ Hw].
      rewrite forallb_forall in Hw. specialize (Hw (v, es) Hin). unfold whole_at in Hw. cbn [snd] in Hw.
      rewrite Hr in Hw. apply Pos.eqb_eq. exact Hw.
  Qed.
End Check.
