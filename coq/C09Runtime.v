(* C09Runtime.v — the run-time half of C09 on the reference semantics: an accepted program whose
   guards are typed, driven with well-typed values, any immediate completions and any script of
   API calls, never raises and never leaves the model; the order completes exactly when nothing is
   outstanding.  Proof file; the property statements are restated in Properties/C09runtime.v.

   Chain of the argument
     validate p = Ok []                      (Check/CheckModel.v)
       -> sched_safe p                       (Check/CheckProofsC09.v)
       -> unfold_program … fu = Ok body      for fu >= unfold_bound p          (C09Unfold.v)
       -> guards / limits are index free     (C09IndexFree.v)
     + guards_typed, limits_typed, no_string_order [, division_safe]            (C09Static.v)
     + oracle_typed p orc                                                       (C09Expr.v)
       -> every guard / limit of every reachable task evaluates (ssafe)         (static_ssafe)
       -> every guard / limit of the unfolding evaluates (xsafe)                (unfold_xsafe)
       -> start / deliver / api_call / run_script: Ok or Fuel                   (C09Run.v)
       -> holds_C01 on the trace                                                (RefC01.v) *)
From PFDL Require Import Base Syntax Expr Unfold RefSem RunCase Monitors RefBase RefProgress RefC01 Examples.
From PFDL Require Import C09UnfoldBase C09Static C09Unfold C09IndexFree C09Expr C09Run.
From PFDL.Check Require Import CheckModel Typing Guards CheckProofsBase CheckProofsC09.
From Coq Require Import Lia.

(* ================================================================================== *)
(* 1. from the static conditions to "every guard / limit evaluates", at source level   *)
(* ================================================================================== *)
Section Static.
  Variable p : program.
  Variable orc : oracle.
  Variable zd : bool.
  Hypothesis Horc : oracle_typed p orc.

  Inductive ssafe : stmt -> Prop :=
  | ss_service : forall n ins outs, ssafe (SService n ins outs)
  | ss_call : forall c, ssafe (SCall c)
  | ss_par : forall cs, ssafe (SParallel cs)
  | ss_while : forall e b, guard_evals orc zd e -> Forall ssafe b -> ssafe (SWhile e b)
  | ss_count : forall par v lim b,
      lim_ok orc lim -> (par = false -> Forall ssafe b) -> ssafe (SCount par v lim b)
  | ss_cond : forall e pb fb, guard_evals orc zd e -> Forall ssafe pb -> Forall ssafe fb -> ssafe (SCond e pb fb).

  (* all conditions on one guard / one limit of task t *)
  Definition fe_all (t : task) (lv : list name) (e : expr) : bool :=
    guard_ok p (vars_of_task t) lv e && expr_index_free e
    && expr_no_str_order p (vars_of_task t) lv e && (zd || expr_div_safe e).
  Definition fl_all (t : task) (lv : list name) (l : limit) : bool :=
    limit_ok p (vars_of_task t) lv l && limit_index_free l.

  Lemma incl_flat_map_in : forall A B (f : A -> list B) l x, In x l -> incl (f x) (flat_map f l).
  Proof. intros A B f l x Hx y Hy. apply in_flat_map. exists x. auto. Qed.

  Lemma forallb_Forall_ssafe : forall (Q : stmt -> bool) (L : list (name * list pelem)) b,
      Forall (fun s => Q s = true -> incl (stmt_limit_paths s) L -> ssafe s) b ->
      forallb Q b = true -> incl (flat_map stmt_limit_paths b) L -> Forall ssafe b.
  Proof.
    intros Q L b H. induction H as [|x l Hx Hl IH]; intros HQ HI; constructor.
    - cbn [forallb] in HQ. apply andb_true_iff in HQ. apply Hx; [apply HQ|].
      intros y Hy. apply HI. cbn [flat_map]. apply in_or_app. left. exact Hy.
    - cbn [forallb] in HQ. apply andb_true_iff in HQ. apply IH; [apply HQ|].
      intros y Hy. apply HI. cbn [flat_map]. apply in_or_app. right. exact Hy.
  Qed.

  Lemma static_ssafe : forall t, In t (p_tasks p) -> forall s lv,
      stmt_forall (fe_all t) (fl_all t) lv s = true ->
      incl (stmt_limit_paths s) (limit_paths p) -> ssafe s.
  Proof.
    intros t Ht.
    assert (Hv : forall v T k, assoc v (vars_of_task t) = Some T -> exists x, orc k v = Some x /\ vtyped p x T).
    { intros v T k Ha. exact (proj1 Horc t v T k Ht Ha). }
    assert (HG : forall lv e, fe_all t lv e = true -> guard_evals orc zd e).
    { intros lv e H. unfold fe_all in H.
      apply andb_true_iff in H. destruct H as [H H4]. apply andb_true_iff in H. destruct H as [H H3].
      apply andb_true_iff in H. destruct H as [H1 H2].
      intro k. eapply (decide_sound p orc (vars_of_task t) Hv zd lv e); try assumption.
      intro Z. rewrite Z in H4. exact H4. }
    assert (HL : forall lv l, fl_all t lv l = true ->
                              (forall v es, l = LimPath v es -> In (v, es) (limit_paths p)) -> lim_ok orc l).
    { intros lv l H Hin. unfold fl_all in H. apply andb_true_iff in H. destruct H as [H1 H2].
      eapply (limit_sound p orc (vars_of_task t) Hv lv l); try assumption.
      intros v es -> k x q Hx Hr. eapply (proj2 Horc); [apply Hin; reflexivity|exact Hx|exact Hr]. }
    intro s.
    induction s as [n ins outs|c|cs|e b IHb|par v l b IHb|e pb fb IHp IHf] using stmt_ind';
      intros lv H HI; cbn [stmt_forall stmt_limit_paths] in *; try (constructor; fail).
    - apply andb_true_iff in H. destruct H as [H1 H2]. constructor; [eapply HG; exact H1|].
      eapply forallb_Forall_ssafe; [|exact H2|exact HI].
      eapply Forall_impl; [|exact IHb]. cbn beta. intros a Ha. apply Ha.
    - destruct par.
      + constructor; [|discriminate]. eapply HL; [exact H|].
        intros v0 es ->. apply HI. left. reflexivity.
      + apply andb_true_iff in H. destruct H as [H1 H2]. constructor.
        * eapply HL; [exact H1|]. intros v0 es ->. apply HI. left. reflexivity.
        * intros _. eapply forallb_Forall_ssafe; [|exact H2|].
          -- eapply Forall_impl; [|exact IHb]. cbn beta. intros a Ha. apply Ha.
          -- intros y Hy. apply HI. apply in_or_app. right. exact Hy.
    - apply andb_true_iff in H. destruct H as [H H3]. apply andb_true_iff in H. destruct H as [H1 H2].
      constructor; [eapply HG; exact H1| |].
      + eapply forallb_Forall_ssafe; [|exact H2|].
        * eapply Forall_impl; [|exact IHp]. cbn beta. intros a Ha. apply Ha.
        * intros y Hy. apply HI. apply in_or_app. left. exact Hy.
      + eapply forallb_Forall_ssafe; [|exact H3|].
        * eapply Forall_impl; [|exact IHf]. cbn beta. intros a Ha. apply Ha.
        * intros y Hy. apply HI. apply in_or_app. right. exact Hy.
  Qed.

  Lemma static_task_ssafe : forall t, In t (p_tasks p) ->
      forallb (stmt_forall (fe_all t) (fl_all t) []) (t_body t) = true -> Forall ssafe (t_body t).
  Proof.
    intros t Ht H. apply Forall_forall. intros s Hs. rewrite forallb_forall in H.
    eapply static_ssafe; [exact Ht|exact (H s Hs)|].
    intros y Hy. unfold limit_paths. apply in_flat_map. exists t. split; [exact Ht|].
    apply in_flat_map. exists s. auto.
  Qed.

  (* ================================================================================ *)
  (* 2. the unfolding keeps it                                                         *)
  (* ================================================================================ *)
  Lemma Forall2_Forall : forall A B (Pa : A -> Prop) (Qb : B -> Prop) (R : A -> B -> Prop) l l',
      (forall a b, Pa a -> R a b -> Qb b) -> Forall Pa l -> Forall2 R l l' -> Forall Qb l'.
  Proof.
    intros A B Pa Qb R l l' H HF H2. induction H2 as [|a b l l' Hab Hl IH]; constructor.
    - inversion HF; subst. eapply H; eassumption.
    - inversion HF; subst. apply IH. assumption.
  Qed.

  Lemma Forall2_all : forall A B (Qb : B -> Prop) (R : A -> B -> Prop) l l',
      (forall a b, R a b -> Qb b) -> Forall2 R l l' -> Forall Qb l'.
  Proof. intros A B Qb R l l' H H2. induction H2; constructor; eauto. Qed.

  Section Unfolding.
    Variable tasks : list task.
    Hypothesis Htasks : forall n t, find_task n tasks = Some t -> Forall ssafe (t_body t).

    Lemma unfold_xsafe : forall f tn path s x,
        ssafe s -> unfold_stmt tasks f tn path s = Ok x -> xsafe orc zd x.
    Proof.
      induction f as [|f IH]; intros tn path s x Hs H; [discriminate|].
      assert (CALL : forall tn pth c y, udo_call tasks f tn pth c = Ok y -> xsafe orc zd y).
      { intros tn0 pth c y Hy. apply udo_call_inv in Hy. destruct Hy as (t & body & Hf & Hb & ->).
        constructor. apply ucall_blk_inv in Hb.
        eapply Forall2_Forall; [|exact (Htasks _ _ Hf)|exact Hb].
        cbn beta. intros a b Ha (j & Hj). eapply IH; eassumption. }
      assert (BLOCK : forall pre i ss xs, Forall ssafe ss -> ublock tasks f tn pre i ss = Ok xs ->
                                          Forall (xsafe orc zd) xs).
      { intros pre i ss xs Hss Hx. apply ublock_inv in Hx.
        eapply Forall2_Forall; [|exact Hss|exact Hx].
        cbn beta. intros a b Ha (j & Hj). eapply IH; eassumption. }
      destruct s as [n ins outs|c|cs|e b|par v lim b|e pb fb].
      - rewrite unfold_stmt_S_service in H. inversion H; subst. constructor.
      - rewrite unfold_stmt_S_call in H. eapply CALL. exact H.
      - rewrite unfold_stmt_S_par in H. apply rbind_ok_inv in H. destruct H as (bs & Hb & H).
        inversion H; subst. constructor. apply ucalls_inv in Hb.
        eapply Forall2_all; [|exact Hb]. cbn beta. intros a b0 (j & Hj). eapply CALL. exact Hj.
      - inversion Hs; subst. rewrite unfold_stmt_S_while in H.
        apply rbind_ok_inv in H. destruct H as (xb & Hb & H). inversion H; subst.
        constructor; [assumption|]. eapply BLOCK; [|exact Hb]. assumption.
      - inversion Hs; subst. destruct par.
        + rewrite unfold_stmt_S_parloop in H.
          destruct b as [|[n0 i0 o0|c|cs0|e0 b0|p0 v0 l0 b0|e0 p0 f0] [|s2 r2]]; try discriminate.
          apply rbind_ok_inv in H. destruct H as (y & Hy & H). inversion H; subst.
          constructor; [assumption|]. eapply CALL. exact Hy.
        + rewrite unfold_stmt_S_count in H.
          apply rbind_ok_inv in H. destruct H as (xb & Hb & H). inversion H; subst.
          constructor; [assumption|]. eapply BLOCK; [|eassumption]. auto.
      - inversion Hs; subst. rewrite unfold_stmt_S_cond in H.
        apply rbind_ok_inv in H. destruct H as (xp & Hp & H).
        apply rbind_ok_inv in H. destruct H as (xf & Hf & H). inversion H; subst.
        apply xs_cond; [assumption| |].
        + eapply BLOCK; [|exact Hp]. assumption.
        + eapply BLOCK; [|exact Hf]. assumption.
    Qed.

    Lemma unfold_program_xsafe : forall fu body,
        unfold_program tasks fu = Ok body -> Forall (xsafe orc zd) body.
    Proof.
      intros fu body H. rewrite unfold_program_eq in H.
      destruct (find_task production_task tasks) as [t|] eqn:Ht; [|discriminate].
      apply ucall_blk_inv in H.
      eapply Forall2_Forall; [|exact (Htasks _ _ Ht)|exact H].
      cbn beta. intros a b Ha (j & Hj). eapply unfold_xsafe; eassumption.
    Qed.
  End Unfolding.
End Static.

(* ================================================================================== *)
(* 3. the static conditions, collected                                                 *)
(* ================================================================================== *)
Lemma stmt_forall_true : forall fe fl s lv,
    stmt_forall fe fl lv s = true -> stmt_forall (fun _ _ => true) (fun _ _ => true) lv s = true.
Proof. intros fe fl s lv H. eapply stmt_forall_mono; [| |exact H]; auto. Qed.

(* guards typed boolean (finding D12b: not implied by acceptance), limits typed number,
   no ordering of strings (outside the expression model) *)
Definition runtime_typed (p : program) : bool :=
  guards_typed p && limits_typed p && no_string_order p.

Lemma static_all : forall p zd,
    validate p = Ok [] -> runtime_typed p = true -> (zd = false -> division_safe p = true) ->
    forall n t, find_task n (p_tasks p) = Some t ->
                forallb (stmt_forall (fe_all p zd t) (fl_all p t) []) (t_body t) = true.
Proof.
  intros p zd Hacc Hrt Hdiv n t Hf.
  unfold runtime_typed in Hrt. apply andb_true_iff in Hrt. destruct Hrt as [Hrt Hns].
  apply andb_true_iff in Hrt. destruct Hrt as [Hgt Hlt].
  unfold guards_typed in Hgt. apply negb_true_iff in Hgt. apply guards_typed_all_of in Hgt.
  pose proof (accepted_paths_index_free p n t Hacc Hf) as Hif.
  destruct (C09Unfold.find_task_In _ _ _ Hf) as [Hin _].
  apply forallb_forall. intros s Hs.
  pose proof (tasks_forall_at _ _ p t s Hgt Hin Hs) as A1. cbn beta in A1.
  rewrite forallb_forall in Hif. pose proof (Hif s Hs) as A2.
  pose proof (tasks_forall_at _ _ p t s Hns Hin Hs) as A3. cbn beta in A3.
  pose proof (tasks_forall_at _ _ p t s Hlt Hin Hs) as A4. cbn beta in A4.
  assert (A5 : stmt_forall (fun _ e => zd || expr_div_safe e) (fun _ _ => true) [] s = true).
  { destruct zd.
    - eapply stmt_forall_mono; [| |exact (stmt_forall_true _ _ _ _ A1)]; auto.
    - pose proof (tasks_forall_at _ _ p t s (Hdiv eq_refl) Hin Hs) as A5. cbn beta in A5. exact A5. }
  pose proof (stmt_forall_and _ _ _ _ _ _ (stmt_forall_and _ _ _ _ _ _ (stmt_forall_and _ _ _ _ _ _
                (stmt_forall_and _ _ _ _ _ _ A1 A2) A3) A4) A5) as A.
  eapply stmt_forall_mono; [| |exact A]; cbn beta.
  - intros lv e H. unfold fe_all.
    repeat (apply andb_true_iff in H; destruct H as [H ?]).
    repeat (apply andb_true_iff; split); assumption.
  - intros lv l H. unfold fl_all.
    repeat (apply andb_true_iff in H; destruct H as [H ?]).
    repeat (apply andb_true_iff; split); assumption.
Qed.

(* every guard and limit of every task the unfolding can reach evaluates *)
Theorem accepted_tasks_ssafe : forall p orc zd,
    validate p = Ok [] -> runtime_typed p = true -> (zd = false -> division_safe p = true) ->
    oracle_typed p orc ->
    forall n t, find_task n (p_tasks p) = Some t -> Forall (ssafe orc zd) (t_body t).
Proof.
  intros p orc zd Hacc Hrt Hdiv Horc n t Hf.
  destruct (C09Unfold.find_task_In _ _ _ Hf) as [Hin _].
  eapply static_task_ssafe; [exact Horc|exact Hin|]. eapply static_all; eassumption.
Qed.

Theorem accepted_unfolding_xsafe : forall p orc zd,
    validate p = Ok [] -> runtime_typed p = true -> (zd = false -> division_safe p = true) ->
    oracle_typed p orc ->
    forall fu body, unfold_program (p_tasks p) fu = Ok body -> Forall (xsafe orc zd) body.
Proof.
  intros p orc zd Hacc Hrt Hdiv Horc fu body H.
  eapply unfold_program_xsafe; [|exact H].
  intros n t Hf. eapply accepted_tasks_ssafe; eassumption.
Qed.

(* ================================================================================== *)
(* 4. what xsafe says, guard by guard                                                  *)
(* ================================================================================== *)
Section XInd.
  Variable Q : xstmt -> Prop.
  Variable Hsvc : forall n a ins, Q (XService n a ins).
  Variable Hcall : forall t a ins body, Forall Q body -> Q (XCall t a ins body).
  Variable Hpar : forall bs, Forall Q bs -> Q (XParallel bs).
  Variable Hcond : forall e pb fb, Forall Q pb -> Forall Q fb -> Q (XCond e pb fb).
  Variable Hwhile : forall e b, Forall Q b -> Q (XWhile e b).
  Variable Hcount : forall v lim b, Forall Q b -> Q (XCount v lim b).
  Variable Hparloop : forall v lim c, Q c -> Q (XParLoop v lim c).
  Fixpoint xstmt_ind' (s : xstmt) : Q s :=
    let go := fix go (l : list xstmt) : Forall Q l :=
                match l with
                | [] => Forall_nil Q
                | x :: r => Forall_cons x (xstmt_ind' x) (go r)
                end in
    match s with
    | XService n a ins => Hsvc n a ins
    | XCall t a ins body => Hcall t a ins body (go body)
    | XParallel bs => Hpar bs (go bs)
    | XCond e pb fb => Hcond e pb fb (go pb) (go fb)
    | XWhile e b => Hwhile e b (go b)
    | XCount v lim b => Hcount v lim b (go b)
    | XParLoop v lim c => Hparloop v lim c (xstmt_ind' c)
    end.
End XInd.

(* all guards / all limits of an unfolded tree, at any depth (called tasks included) *)
Fixpoint xguards (s : xstmt) {struct s} : list expr :=
  match s with
  | XService _ _ _ => []
  | XCall _ _ _ body => flat_map xguards body
  | XParallel bs => flat_map xguards bs
  | XCond e pb fb => e :: flat_map xguards pb ++ flat_map xguards fb
  | XWhile e b => e :: flat_map xguards b
  | XCount _ _ b => flat_map xguards b
  | XParLoop _ _ c => xguards c
  end.

Fixpoint xlimits (s : xstmt) {struct s} : list limit :=
  match s with
  | XService _ _ _ => []
  | XCall _ _ _ body => flat_map xlimits body
  | XParallel bs => flat_map xlimits bs
  | XCond _ pb fb => flat_map xlimits pb ++ flat_map xlimits fb
  | XWhile _ b => flat_map xlimits b
  | XCount _ lim b => lim :: flat_map xlimits b
  | XParLoop _ lim c => lim :: xlimits c
  end.

Lemma Forall_flat_map_in : forall A B (Qa : A -> Prop) (f : A -> list B) (R : B -> Prop) l,
    Forall (fun a => Qa a -> forall b, In b (f a) -> R b) l -> Forall Qa l ->
    forall b, In b (flat_map f l) -> R b.
Proof.
  intros A B Qa f R l H HQ b Hb. apply in_flat_map in Hb. destruct Hb as (a & Ha & Hb).
  rewrite Forall_forall in H, HQ. eapply H; eauto.
Qed.

Lemma xsafe_guards : forall orc zd s, xsafe orc zd s -> forall e, In e (xguards s) -> guard_evals orc zd e.
Proof.
  intros orc zd s.
  induction s as [n a ins|t a ins body IH|bs IH|e0 pb fb IHp IHf|e0 b IH|v lim b IH|v lim c IH] using xstmt_ind';
    intros Hs e He; cbn [xguards] in He; inversion Hs; subst.
  - destruct He.
  - eapply Forall_flat_map_in; [exact IH| |exact He]. assumption.
  - eapply Forall_flat_map_in; [exact IH| |exact He]. assumption.
  - destruct He as [<-|He]; [assumption|]. apply in_app_or in He. destruct He as [He|He].
    + eapply Forall_flat_map_in; [exact IHp| |exact He]. assumption.
    + eapply Forall_flat_map_in; [exact IHf| |exact He]. assumption.
  - destruct He as [<-|He]; [assumption|].
    eapply Forall_flat_map_in; [exact IH| |exact He]. assumption.
  - eapply Forall_flat_map_in; [exact IH| |exact He]. assumption.
  - apply IH; assumption.
Qed.

Lemma xsafe_limits : forall orc zd s, xsafe orc zd s -> forall l, In l (xlimits s) -> lim_ok orc l.
Proof.
  intros orc zd s.
  induction s as [n a ins|t a ins body IH|bs IH|e0 pb fb IHp IHf|e0 b IH|v lim b IH|v lim c IH] using xstmt_ind';
    intros Hs l Hl; cbn [xlimits] in Hl; inversion Hs; subst.
  - destruct Hl.
  - eapply Forall_flat_map_in; [exact IH| |exact Hl]. assumption.
  - eapply Forall_flat_map_in; [exact IH| |exact Hl]. assumption.
  - apply in_app_or in Hl. destruct Hl as [Hl|Hl].
    + eapply Forall_flat_map_in; [exact IHp| |exact Hl]. assumption.
    + eapply Forall_flat_map_in; [exact IHf| |exact Hl]. assumption.
  - eapply Forall_flat_map_in; [exact IH| |exact Hl]. assumption.
  - destruct Hl as [<-|Hl]; [assumption|].
    eapply Forall_flat_map_in; [exact IH| |exact Hl]. assumption.
  - destruct Hl as [<-|Hl]; [assumption|]. apply IH; assumption.
Qed.

Lemma dec_ok_false : forall r, dec_ok false r -> exists b k', r = Ok (b, k').
Proof.
  intros [[b k']| |ex|] H; cbn in H; try contradiction.
  - eauto.
  - destruct ex; try contradiction; discriminate.
Qed.

Lemma dec_ok_true : forall r, dec_ok true r -> (exists b k', r = Ok (b, k')) \/ r = Exn ZeroDivisionError.
Proof.
  intros [[b k']| |ex|] H; cbn in H; try contradiction.
  - left. eauto.
  - destruct ex; try contradiction. right. reflexivity.
Qed.

(* the limit is read without failure and counts whole iterations *)
Lemma lim_ok_read : forall orc l ctx g, lim_ok orc l -> exists n g', read_limit orc l ctx g = Ok (n, g').
Proof.
  intros orc l ctx g H. destruct l as [n|v es]; cbn [read_limit].
  - eexists _, _. reflexivity.
  - destruct (H (g_q g)) as (x & q & Hx & Hr & Hq). rewrite Hx, Hr, Hq. eexists _, _. reflexivity.
Qed.

(* ================================================================================== *)
(* 5. results                                                                          *)
(* ================================================================================== *)
Lemma nofail_false : forall A (r : res A), nofail false r -> (forall k, r <> Exn k) /\ r <> Unsupported.
Proof.
  intros A [a| |ex|] H; cbn in H; try contradiction; split; try discriminate; intros; try discriminate.
  destruct ex; try contradiction; discriminate.
Qed.

Lemma nofail_true : forall A (r : res A),
    nofail true r -> (forall k, r = Exn k -> k = ZeroDivisionError) /\ r <> Unsupported.
Proof.
  intros A [a| |ex|] H; cbn in H; try contradiction; split; try discriminate; intros k E; try discriminate.
  inversion E; subst. destruct k; try contradiction; reflexivity.
Qed.

Theorem accepted_run_nofail : forall p orc imm zd fu body fuel script,
    validate p = Ok [] -> runtime_typed p = true -> (zd = false -> division_safe p = true) ->
    oracle_typed p orc ->
    unfold_program (p_tasks p) fu = Ok body ->
    detaches_attached [] script = true ->
    nofail zd (run_script orc imm fuel body sched0 script).
Proof.
  intros p orc imm zd fu body fuel script Hacc Hrt Hdiv Horc Hu Hd.
  apply run_script_nofail0; [|exact Hd]. eapply accepted_unfolding_xsafe; eassumption.
Qed.

Definition no_reactions (c : runcase) : bool :=
  negb (existsb (fun o => match o with Some _ => true | None => false end) (rc_react c)).

Theorem accepted_run_ref_nofail : forall c zd,
    validate (rc_prog c) = Ok [] -> runtime_typed (rc_prog c) = true ->
    (zd = false -> division_safe (rc_prog c) = true) ->
    oracle_typed (rc_prog c) (orc_of (rc_vals c)) ->
    unfold_bound (rc_prog c) <= 200 ->
    no_reactions c = true ->
    detaches_attached [] (rc_script c) = true ->
    nofail zd (run_ref c).
Proof.
  intros c zd Hacc Hrt Hdiv Horc Hb Hnr Hd. unfold run_ref.
  unfold no_reactions in Hnr. apply negb_true_iff in Hnr. rewrite Hnr.
  destruct (accepted_unfolds _ _ Hacc Hb) as (body & Hu). rewrite Hu. cbn [rbind].
  eapply accepted_run_nofail; eassumption.
Qed.

(* ---- the order completes exactly when nothing is outstanding (reading of holds_C01) ---- *)
Definition c01_inv (s : c01_state) : Prop :=
  (c01_finished s = true -> c01_out s = 0) /\ (c01_finished s = true -> c01_started s = true).

Lemma c01_step_meaning : forall s r s',
    c01_inv s -> c01_step s r = Some s' ->
    c01_inv s'
    /\ cr_final r = c01_finished s'
    /\ cr_running r = (c01_started s' && negb (c01_finished s'))
    /\ List.length (cr_awaited r) = c01_out s'
    /\ (c01_started s' = true -> c01_out s' = 0 -> c01_finished s' = true).
Proof.
  intros s r s' [Hinv1 Hinv2] H. unfold c01_step in H. cbv zeta in H.
  remember (ee_notifs (cr_log r)) as ns eqn:Hns.
  remember (has_prod TF ns) as fin eqn:Hfin.
  remember (has_prod TS ns) as st eqn:Hst.
  remember (c01_out s + count_kind SS ns - count_kind SF ns) as out eqn:Hout.
  match type of H with (if ?X then _ else _) = _ => destruct X eqn:E end; [|discriminate].
  inversion H; subst s'; clear H. cbn [c01_started c01_finished c01_out].
  apply andb_true_iff in E; destruct E as [E C12].
  apply andb_true_iff in E; destruct E as [E C11].
  apply andb_true_iff in E; destruct E as [E C10].
  apply andb_true_iff in E; destruct E as [E C9].
  apply andb_true_iff in E; destruct E as [E C8].
  apply andb_true_iff in E; destruct E as [E C7].
  apply andb_true_iff in E; destruct E as [E C6].
  apply andb_true_iff in E; destruct E as [E C5].
  apply andb_true_iff in E; destruct E as [E C4].
  apply andb_true_iff in E; destruct E as [E C3].
  apply andb_true_iff in E; destruct E as [C1 C2].
  apply Bool.eqb_prop in C5. apply Bool.eqb_prop in C7. apply Bool.eqb_prop in C8.
  apply Nat.eqb_eq in C9.
  split; [|split; [|split; [|split]]]; try assumption.
  - unfold c01_inv. cbn [c01_started c01_finished c01_out]. split; intro Hf.
    + destruct (c01_finished s) eqn:F.
      * cbn [negb orb] in C12. destruct ns as [|x ns']; [|discriminate].
        subst out. cbn. rewrite (Hinv1 eq_refl). reflexivity.
      * cbn [orb] in Hf. rewrite Hf in C5. symmetry in C5.
        apply andb_true_iff in C5. destruct C5 as [_ C5]. apply Nat.eqb_eq in C5. exact C5.
    + destruct (c01_finished s) eqn:F.
      * rewrite (Hinv2 eq_refl). reflexivity.
      * cbn [orb] in Hf. rewrite Hf in C3. cbn [negb orb] in C3. exact C3.
  - intros Hs Ho.
    destruct (c01_finished s) eqn:F; [reflexivity|]. cbn [orb].
    rewrite C5, Hs. cbn [negb andb]. apply Nat.eqb_eq. exact Ho.
Qed.

(* for every call record of a trace that satisfies the monitor: the order is final exactly when
   it has been started and no announced service is outstanding; while it runs, something is
   awaited *)
Theorem holds_C01_meaning : forall tr r,
    holds_C01 tr = true -> In r tr ->
    (cr_final r = true -> cr_awaited r = [] /\ cr_running r = false)
    /\ (cr_running r = true -> cr_awaited r <> [])
    /\ (cr_running r = true \/ cr_final r = true -> (cr_awaited r = [] <-> cr_final r = true)).
Proof.
  intros tr r H Hin. unfold holds_C01 in H.
  assert (G : forall s, c01_inv s -> c01_run s tr = true ->
              exists s', c01_inv s' /\ cr_final r = c01_finished s'
                         /\ cr_running r = (c01_started s' && negb (c01_finished s'))
                         /\ List.length (cr_awaited r) = c01_out s'
                         /\ (c01_started s' = true -> c01_out s' = 0 -> c01_finished s' = true)).
  { clear H. induction tr as [|r0 tr IH]; intros s Hs Hrun; [destruct Hin|].
    cbn [c01_run] in Hrun. destruct (c01_step s r0) as [s1|] eqn:E; [|discriminate].
    destruct (c01_step_meaning _ _ _ Hs E) as (I1 & I2 & I3 & I4 & I5).
    destruct Hin as [<-|Hin].
    - exists s1. auto.
    - eapply IH; eassumption. }
  assert (I0 : c01_inv {| c01_started := false; c01_finished := false; c01_out := 0 |}).
  { split; cbn; intro; discriminate. }
  destruct (G _ I0 H) as (s' & [I1a I1b] & I2 & I3 & I4 & I5).
  assert (L0 : forall l : list nat, List.length l = 0 <-> l = []).
  { intro l. destruct l; cbn; split; intro; try reflexivity; discriminate. }
  split; [|split].
  - intro Hf. rewrite I2 in Hf. split.
    + apply L0. rewrite I4. apply I1a. exact Hf.
    + rewrite I3, Hf. apply andb_false_r.
  - intros Hr He. rewrite I3 in Hr. apply andb_true_iff in Hr. destruct Hr as [Hst Hnf].
    apply L0 in He. rewrite I4 in He. rewrite (I5 Hst He) in Hnf. discriminate.
  - intros Hor. split.
    + intro He. apply L0 in He. rewrite I4 in He. rewrite I2. apply I5; [|exact He].
      destruct Hor as [Hr|Hf].
      * rewrite I3 in Hr. apply andb_true_iff in Hr. apply Hr.
      * rewrite I2 in Hf. apply I1b. exact Hf.
    + intro Hf. rewrite I2 in Hf. apply L0. rewrite I4. apply I1a. exact Hf.
Qed.

(* the run of an accepted program: whatever trace it produces satisfies the monitor *)
Theorem accepted_order_completes : forall p orc imm fu body fuel script tr,
    unfold_program (p_tasks p) fu = Ok body ->
    run_script orc imm fuel body sched0 script = Ok tr ->
    holds_C01 tr = true
    /\ forall r, In r tr ->
         (cr_final r = true -> cr_awaited r = [] /\ cr_running r = false)
         /\ (cr_running r = true -> cr_awaited r <> [])
         /\ (cr_running r = true \/ cr_final r = true -> (cr_awaited r = [] <-> cr_final r = true)).
Proof.
  intros p orc imm fu body fuel script tr _ H.
  pose proof (C01_ref _ _ _ _ _ _ H) as HC. split; [exact HC|].
  intros r Hr. exact (holds_C01_meaning _ _ HC Hr).
Qed.
