(* Monitors.v — executable predicates over observable traces (one record per API
   call).  They are applied both to the model's traces (theorems) and, by the
   correspondence check, to the implementation's traces.  Model support file. *)
From PFDL Require Export RunCase.

(* ---- the execution engine's view: what function 0 of each kind was told ---- *)
Definition ee_notifs (log : list entry) : list (notif * bool) :=
  flat_map (fun e => match e with ENotif 0 n r => [(n, r)] | _ => [] end) log.

Definition is_kind (k : nkind) (n : notif) : bool := nkind_eqb (n_kind n) k.
Definition is_prod (n : notif) : bool := Nat.eqb (n_name n) production_task &&
                                         match n_ctx n with None => true | Some _ => false end.

Definition count_kind (k : nkind) (l : list (notif * bool)) : nat :=
  List.length (filter (fun p => is_kind k (fst p)) l).

Definition has_prod (k : nkind) (l : list (notif * bool)) : bool :=
  existsb (fun p => is_kind k (fst p) && is_prod (fst p)) l.

(* ===================================================================== *)
(* C01 — the order completes exactly when all its services are done       *)
(* ===================================================================== *)
Record c01_state := {
  c01_started : bool;      (* an accepted start has been seen *)
  c01_finished : bool;     (* production task reported finished *)
  c01_out : nat            (* announced and not yet finished services *)
}.

Definition c01_step (s : c01_state) (r : callrec) : option c01_state :=
  let ns := ee_notifs (cr_log r) in
  let starts_here := has_prod TS ns in
  let fin_here := has_prod TF ns in
  let out := c01_out s + count_kind SS ns - count_kind SF ns in
  let started := c01_started s || starts_here in
  let finished := c01_finished s || fin_here in
  if
    (* at most one start, at most one finish, never a finish before a start *)
    negb (c01_started s && starts_here) && negb (c01_finished s && fin_here)
    && (negb fin_here || started)
    && (count_kind TF (filter (fun p => is_prod (fst p)) ns) <=? 1)
    (* finished in this call  <->  started, not finished before, nothing outstanding now *)
    && Bool.eqb fin_here (started && negb (c01_finished s) && Nat.eqb out 0)
    (* more finishes than announcements never happen *)
    && (count_kind SF ns <=? c01_out s + count_kind SS ns)
    (* what the scheduler reports after the call *)
    && Bool.eqb (cr_running r) (started && negb finished)
    && Bool.eqb (cr_final r) finished
    && Nat.eqb (List.length (cr_awaited r)) out
    (* inside every notification from the start on the scheduler reports itself running *)
    && forallb (fun p => snd p) ns
    (* nothing is notified before the start or after the end *)
    && (started || match ns with [] => true | _ => false end)
    && (negb (c01_finished s) || match ns with [] => true | _ => false end)
  then Some {| c01_started := started; c01_finished := finished; c01_out := out |}
  else None.

Fixpoint c01_run (s : c01_state) (tr : list callrec) : bool :=
  match tr with
  | [] => true
  | r :: t => match c01_step s r with Some s' => c01_run s' t | None => false end
  end.

Definition holds_C01 (tr : list callrec) : bool :=
  c01_run {| c01_started := false; c01_finished := false; c01_out := 0 |} tr.

(* ===================================================================== *)
(* C07 / C14 — lifecycle monitor: balanced, nested, attributed, unique     *)
(* ===================================================================== *)
Record open_inst := { oi_id : nat; oi_ctx : option nat; oi_name : name; oi_site : site }.

Record life := {
  lf_tasks : list open_inst;     (* started, not finished *)
  lf_svcs : list open_inst;
  lf_used_t : list nat;          (* every task identifier ever announced *)
  lf_used_s : list nat;
  lf_seen_any : bool
}.

Definition oi_of (n : notif) : open_inst :=
  {| oi_id := n_id n; oi_ctx := n_ctx n; oi_name := n_name n; oi_site := n_site n |}.
Definition oi_eqb (a b : open_inst) : bool :=
  Nat.eqb (oi_id a) (oi_id b) && option_eqb Nat.eqb (oi_ctx a) (oi_ctx b)
  && Nat.eqb (oi_name a) (oi_name b) && site_eqb (oi_site a) (oi_site b).
Definition ctx_open (c : option nat) (l : life) : bool :=
  match c with
  | None => false
  | Some id => existsb (fun o => Nat.eqb (oi_id o) id) (lf_tasks l)
  end.
Definition has_open_child (id : nat) (l : life) : bool :=
  existsb (fun o => option_eqb Nat.eqb (oi_ctx o) (Some id)) (lf_tasks l)
  || existsb (fun o => option_eqb Nat.eqb (oi_ctx o) (Some id)) (lf_svcs l).

Definition life_step (l : life) (n : notif) : option life :=
  match n_kind n with
  | TS =>
    let root_ok := if lf_seen_any l then ctx_open (n_ctx n) l
                   else is_prod n in           (* the production task is first *)
    if root_ok && negb (mem (n_id n) (lf_used_t l))
    then Some {| lf_tasks := oi_of n :: lf_tasks l; lf_svcs := lf_svcs l;
                 lf_used_t := n_id n :: lf_used_t l; lf_used_s := lf_used_s l; lf_seen_any := true |}
    else None
  | SS =>
    if ctx_open (n_ctx n) l && negb (mem (n_id n) (lf_used_s l))
    then Some {| lf_tasks := lf_tasks l; lf_svcs := oi_of n :: lf_svcs l;
                 lf_used_t := lf_used_t l; lf_used_s := n_id n :: lf_used_s l; lf_seen_any := true |}
    else None
  | SF =>
    match remove_first (oi_eqb (oi_of n)) (lf_svcs l) with
    | Some rest => Some {| lf_tasks := lf_tasks l; lf_svcs := rest; lf_used_t := lf_used_t l;
                           lf_used_s := lf_used_s l; lf_seen_any := true |}
    | None => None
    end
  | TF =>
    match remove_first (oi_eqb (oi_of n)) (lf_tasks l) with
    | Some rest =>
      let l' := {| lf_tasks := rest; lf_svcs := lf_svcs l; lf_used_t := lf_used_t l;
                   lf_used_s := lf_used_s l; lf_seen_any := true |} in
      if has_open_child (n_id n) l' then None else Some l'
    | None => None
    end
  end.

Fixpoint life_run (l : life) (ns : list notif) : option life :=
  match ns with
  | [] => Some l
  | n :: t => match life_step l n with Some l' => life_run l' t | None => None end
  end.

Definition life0 : life :=
  {| lf_tasks := []; lf_svcs := []; lf_used_t := []; lf_used_s := []; lf_seen_any := false |}.

(* service-finished is issued in the call that delivers the completion: the call is
   fire_event(finish id); or the completion was sent from inside the service-started
   notification of that very service (its SS entry immediately precedes the SF entry); or it
   was sent from inside another notification (between the EFireIn / EFireOut entries) *)
Fixpoint sf_in_place (c : apicall) (fires : list nat) (prev : option notif) (log : list entry) : bool :=
  match log with
  | [] => true
  | ENotif 0 n _ :: t =>
    (match n_kind n with
     | SF => (match c with AFinish id => Nat.eqb id (n_id n) | _ => false end)
             || mem (n_id n) fires
             || (match prev with
                 | Some p => is_kind SS p && Nat.eqb (n_id p) (n_id n)
                 | None => false
                 end)
     | _ => true
     end) && sf_in_place c fires (Some n) t
  | EFireIn i :: t => sf_in_place c (i :: fires) prev t
  | EFireOut i _ :: t =>
    sf_in_place c (match remove_first (Nat.eqb i) fires with Some l => l | None => fires end) prev t
  | _ :: t => sf_in_place c fires prev t
  end.

Fixpoint life_calls (l : life) (cs : list apicall) (tr : list callrec) : bool :=
  match cs, tr with
  | c :: cr, r :: t =>
    let ns := map fst (ee_notifs (cr_log r)) in
    sf_in_place c [] None (cr_log r) &&
    match life_run l ns with
    | Some l' =>
      (* when the order is complete nothing is left open *)
      (negb (cr_final r) || (match lf_tasks l', lf_svcs l' with [], [] => true | _, _ => false end))
      && life_calls l' cr t
    | None => false
    end
  | _, [] => true
  | [], _ :: _ => false
  end.

Definition holds_C07 (cs : list apicall) (tr : list callrec) : bool := life_calls life0 cs tr.

(* C14: the lifecycle monitor already demands fresh identifiers at every started
   notification and matching identifiers at finished notifications; additionally the
   accepted completion event carries the announced identifier *)
Fixpoint accepted_announced (open_ : list nat) (cs : list apicall) (tr : list callrec) : bool :=
  match cs, tr with
  | c :: cr, r :: t =>
    let ns := map fst (ee_notifs (cr_log r)) in
    let ann := map n_id (filter (is_kind SS) ns) in
    let fin := map n_id (filter (is_kind SF) ns) in
    (match c with
     | AFinish id => negb (cr_ret r) || mem id open_
     | _ => true
     end)
    && accepted_announced (filter (fun i => negb (mem i fin)) (open_ ++ ann)) cr t
  | _, _ => true
  end.

Definition holds_C14 (cs : list apicall) (tr : list callrec) : bool :=
  life_calls life0 cs tr && accepted_announced [] cs tr.

(* ===================================================================== *)
(* C08 — only awaited events are accepted, once; rejected ones change nothing *)
(* ===================================================================== *)
Fixpoint c08_run (started : bool) (prev : callrec) (cs : list apicall) (tr : list callrec) : bool :=
  match cs, tr with
  | c :: cr, r :: t =>
    let unchanged := (match cr_log r with [] => true | _ => false end)
                     && Bool.eqb (cr_running r) (cr_running prev)
                     && list_eqb Nat.eqb (cr_awaited r) (cr_awaited prev)
                     && Bool.eqb (cr_final r) (cr_final prev) in
    (match c with
     | AFinish id =>
       Bool.eqb (cr_ret r) (mem id (cr_awaited prev))
       && (cr_ret r || unchanged)
       && (negb (cr_ret r) || negb (mem id (cr_awaited r)))      (* accepted once *)
     | AJunk => negb (cr_ret r) && unchanged
     | AStart => cr_ret r && (negb started || unchanged)
     | _ => true
     end)
    && c08_run (started || match c with AStart => true | _ => false end) r cr t
  | _, _ => true
  end.

Definition callrec0 : callrec :=
  {| cr_ret := false; cr_log := []; cr_running := false; cr_awaited := []; cr_final := false |}.

(* acceptance against what was ANNOUNCED (not against what the scheduler says it awaits):
   a completion -- top-level or sent from inside a notification -- is accepted exactly when
   its service has been announced by a service-started notification, has not been reported
   finished, and no report of it is in progress *)
Record acc_state := {
  ac_open : list nat;        (* announced, not finished *)
  ac_flight : list nat;      (* a report of it has been accepted and its call has not returned,
                                or it was completed from inside its own notification *)
  ac_nss : nat;              (* service starts seen by function 0 *)
  ac_exp : list (nat * bool) (* expected results of the nested calls in progress *)
}.

Fixpoint acc_log (imm : nat -> bool) (a : acc_state) (log : list entry) : option acc_state :=
  match log with
  | [] => Some a
  | ENotif 0 n _ :: t =>
    match n_kind n with
    | SS => acc_log imm {| ac_open := ac_open a ++ [n_id n];
                           ac_flight := if imm (ac_nss a) then n_id n :: ac_flight a else ac_flight a;
                           ac_nss := S (ac_nss a); ac_exp := ac_exp a |} t
    | SF => match remove_first (Nat.eqb (n_id n)) (ac_open a) with
            | Some l => acc_log imm {| ac_open := l; ac_flight := ac_flight a; ac_nss := ac_nss a;
                                       ac_exp := ac_exp a |} t
            | None => None
            end
    | _ => acc_log imm a t
    end
  | EFireIn i :: t =>
    let e := mem i (ac_open a) && negb (mem i (ac_flight a)) in
    acc_log imm {| ac_open := ac_open a; ac_flight := if e then i :: ac_flight a else ac_flight a;
                   ac_nss := ac_nss a; ac_exp := (i, e) :: ac_exp a |} t
  | EFireOut i r :: t =>
    match ac_exp a with
    | (i', e) :: rest =>
      if Nat.eqb i i' && Bool.eqb r e
      then acc_log imm {| ac_open := ac_open a; ac_flight := ac_flight a; ac_nss := ac_nss a; ac_exp := rest |} t
      else None
    | [] => None
    end
  | _ :: t => acc_log imm a t
  end.

Fixpoint acc_run (imm : nat -> bool) (a : acc_state) (cs : list apicall) (tr : list callrec) : bool :=
  match cs, tr with
  | c :: cr, r :: t =>
    let top := match c with AFinish id => Some id | _ => None end in
    let e := match top with Some id => mem id (ac_open a) | None => false end in
    (match c with AFinish _ => Bool.eqb (cr_ret r) e | _ => true end)
    && match acc_log imm {| ac_open := ac_open a;
                            ac_flight := match top with Some id => if e then [id] else [] | None => [] end;
                            ac_nss := ac_nss a; ac_exp := [] |} (cr_log r) with
       | Some a' => (match ac_exp a' with [] => true | _ => false end) && acc_run imm a' cr t
       | None => false
       end
  | _, _ => true
  end.

Definition acc0 : acc_state := {| ac_open := []; ac_flight := []; ac_nss := 0; ac_exp := [] |}.

Definition holds_C08 (imm : nat -> bool) (cs : list apicall) (tr : list callrec) : bool :=
  c08_run false callrec0 cs tr && acc_run imm acc0 cs tr.

(* ===================================================================== *)
(* C20 — every registered function fires once per notification, in order   *)
(* ===================================================================== *)
(* group consecutive ENotif entries that carry the same notification *)
Definition same_notif (a b : notif) : bool := notif_eqb a b.

Fixpoint take_group (n : notif) (log : list entry) : list nat * list entry :=
  match log with
  | ENotif l m _ :: t =>
    if same_notif n m then let '(ls, rest) := take_group n t in (l :: ls, rest)
    else ([], log)
  | _ => ([], log)
  end.

(* each group must list exactly the functions registered for that kind, in order *)
Fixpoint c20_log (fuel : nat) (ls : list (nkind * nat)) (log : list entry) : bool :=
  match fuel with
  | O => true
  | S f =>
    match log with
    | [] => true
    | ENotif l n r :: t =>
      let '(grp, rest) := take_group n t in
      list_eqb Nat.eqb (l :: grp) (listeners_of (n_kind n) ls) && c20_log f ls rest
    | _ :: t => c20_log f ls t
    end
  end.

Fixpoint c20_run (ls : list (nkind * nat)) (cs : list apicall) (tr : list callrec) : bool :=
  match cs, tr with
  | c :: cr, r :: t =>
    match c with
    | ARegister k l =>
      let dup := existsb (fun p => nkind_eqb (fst p) k && Nat.eqb (snd p) l) ls in
      Bool.eqb (cr_ret r) (negb dup)
      && (match cr_log r with [] => true | _ => false end)
      && c20_run (if dup then ls else ls ++ [(k, l)]) cr t
    | _ => c20_log (S (List.length (cr_log r))) ls (cr_log r) && c20_run ls cr t
    end
  | _, _ => true
  end.

Definition holds_C20 (cs : list apicall) (tr : list callrec) : bool :=
  c20_run default_listeners cs tr.

(* ===================================================================== *)
(* C17 — observers mirror the notifications; order-finished flagged once   *)
(* ===================================================================== *)
(* For traces without re-entrant completions: after the functions of a notification
   have run, every attached observer receives one entry naming the same entity. *)
Fixpoint take_obs (log : list entry) : list (nat * nkind * name * nat * bool) * list entry :=
  match log with
  | EObs o k nm id f :: t => let '(os, rest) := take_obs t in ((o, k, nm, id, f) :: os, rest)
  | _ => ([], log)
  end.

Fixpoint obs_matches (n : notif) (flag : bool) (obs : list nat)
         (got : list (nat * nkind * name * nat * bool)) : bool :=
  match obs, got with
  | [], [] => true
  | o :: obs', (o', k, nm, id, f) :: got' =>
    Nat.eqb o o' && nkind_eqb k (n_kind n) && Nat.eqb nm (n_name n)
    && Nat.eqb id (n_id n) && Bool.eqb f flag && obs_matches n flag obs' got'
  | _, _ => false
  end.

(* walks the log: a notification group (functions of listener 0 .. k), then the observers *)
Fixpoint c17_log (fuel : nat) (obs : list nat) (log : list entry) : bool :=
  match fuel with
  | O => true
  | S f =>
    match log with
    | [] => true
    | ENotif l n r :: t =>
      let '(_, rest) := take_group n t in
      let '(got, rest') := take_obs rest in
      obs_matches n (is_kind TF n && is_prod n) obs got && c17_log f obs rest'
    | EObs _ _ _ _ _ :: _ => false          (* an observer entry without a notification *)
    | EQuery _ _ :: t | EFireIn _ :: t | EFireOut _ _ :: t => c17_log f obs t
    end
  end.

Fixpoint c17_run (obs : list nat) (cs : list apicall) (tr : list callrec) : bool :=
  match cs, tr with
  | c :: cr, r :: t =>
    match c with
    | AAttach o => c17_run (obs ++ [o]) cr t
    | ADetach o => match remove_first (Nat.eqb o) obs with
                   | Some l => c17_run l cr t
                   | None => false
                   end
    | _ => c17_log (S (List.length (cr_log r))) obs (cr_log r) && c17_run obs cr t
    end
  | _, _ => true
  end.

Definition holds_C17 (cs : list apicall) (tr : list callrec) : bool := c17_run [] cs tr.

(* ===================================================================== *)
(* projections: what part of a trace each property's correspondence compares *)
(* ===================================================================== *)
Record proj := {
  pj_ids : bool; pj_params : bool; pj_queries : bool; pj_running : bool;
  pj_all_listeners : bool; pj_obs : bool; pj_state : bool; pj_sites : bool;
  pj_unordered : bool;
  pj_fin_params : bool     (* compare the parameters carried by finished notifications too *)
}.

Definition site0 : site := {| st_task := 0; st_path := [] |}.

(* in test-id mode an identifier >= 900 is a uuid4 that leaked (an instance announced before it
   was given its test id - only in the shapes of the known parallel-loop defects); which
   uuid4 it is cannot be compared, so all of them are identified *)
Definition leak (i : nat) : nat := if Nat.leb 900 i then 900 else i.

Definition proj_notif (p : proj) (n : notif) : notif :=
  {| n_kind := n_kind n; n_name := n_name n;
     n_site := if pj_sites p then n_site n else site0;
     n_id := if pj_ids p then leak (n_id n) else 0;
     n_ctx := if pj_ids p then option_map leak (n_ctx n) else None;
     n_params := if pj_params p && (pj_fin_params p || is_kind TS n || is_kind SS n)
                 then n_params n else [] |}.

Definition proj_entry (p : proj) (e : entry) : list entry :=
  match e with
  | ENotif l n r =>
    if pj_all_listeners p || Nat.eqb l 0
    then [ENotif l (proj_notif p n) (if pj_running p then r else true)] else []
  | EObs o k nm id f => if pj_obs p then [EObs o k nm (if pj_ids p then leak id else 0) f] else []
  | EQuery v c => if pj_queries p then [EQuery v (if pj_ids p then leak c else 0)] else []
  | EFireIn i => if pj_ids p then [EFireIn (leak i)] else []
  | EFireOut i r => if pj_ids p then [EFireOut (leak i) r] else []
  end.

Definition proj_rec (p : proj) (r : callrec) : callrec :=
  {| cr_ret := cr_ret r;
     cr_log := flat_map (proj_entry p) (cr_log r);
     cr_running := if pj_state p then cr_running r else true;
     cr_awaited := if pj_state p then (if pj_ids p then map leak (cr_awaited r)
                                       else map (fun _ => 0) (cr_awaited r)) else [];
     cr_final := if pj_state p then cr_final r else true |}.

Definition count_entry (e : entry) (l : list entry) : nat :=
  List.length (filter (entry_eqb e) l).
Definition multiset_eqb (a b : list entry) : bool :=
  Nat.eqb (List.length a) (List.length b)
  && forallb (fun e => Nat.eqb (count_entry e a) (count_entry e b)) a.

Definition rec_agree (p : proj) (a b : callrec) : bool :=
  let a' := proj_rec p a in
  let b' := proj_rec p b in
  if pj_unordered p
  then Bool.eqb (cr_ret a') (cr_ret b') && multiset_eqb (cr_log a') (cr_log b')
       && Bool.eqb (cr_running a') (cr_running b')
       && list_eqb Nat.eqb (cr_awaited a') (cr_awaited b') && Bool.eqb (cr_final a') (cr_final b')
  else callrec_eqb a' b'.

Fixpoint first_disagree (p : proj) (a b : list callrec) (i : nat) : option nat :=
  match a, b with
  | [], [] => None
  | x :: ta, y :: tb => if rec_agree p x y then first_disagree p ta tb (S i) else Some i
  | _, _ => Some i
  end.

Definition P_full : proj :=
  {| pj_ids := true; pj_params := true; pj_queries := true; pj_running := true;
     pj_all_listeners := true; pj_obs := true; pj_state := true; pj_sites := true;
     pj_unordered := false; pj_fin_params := true |}.
(* C01: what the scheduler reports, and the shape of the notification sequence *)
Definition P_C01 : proj :=
  {| pj_ids := false; pj_params := false; pj_queries := false; pj_running := true;
     pj_all_listeners := false; pj_obs := false; pj_state := true; pj_sites := false;
     pj_unordered := false; pj_fin_params := true |}.
(* C02 / C05: the exact sequence of started / finished notifications per call *)
Definition P_seq : proj :=
  {| pj_ids := false; pj_params := false; pj_queries := false; pj_running := false;
     pj_all_listeners := false; pj_obs := false; pj_state := false; pj_sites := true;
     pj_unordered := false; pj_fin_params := true |}.
(* C03 / C06: which notifications fall into which call, regardless of their order *)
Definition P_set : proj :=
  {| pj_ids := false; pj_params := false; pj_queries := false; pj_running := false;
     pj_all_listeners := false; pj_obs := false; pj_state := false; pj_sites := true;
     pj_unordered := true; pj_fin_params := true |}.
(* C04: oracle queries (variable and context) and the statements started *)
Definition P_C04 : proj :=
  {| pj_ids := true; pj_params := false; pj_queries := true; pj_running := false;
     pj_all_listeners := false; pj_obs := false; pj_state := false; pj_sites := true;
     pj_unordered := false; pj_fin_params := true |}.
(* C07 / C14: identifiers and contexts *)
Definition P_ids : proj :=
  {| pj_ids := true; pj_params := false; pj_queries := false; pj_running := false;
     pj_all_listeners := false; pj_obs := false; pj_state := true; pj_sites := true;
     pj_unordered := false; pj_fin_params := true |}.
(* C15: delivered parameters *)
Definition P_C15 : proj :=
  {| pj_ids := false; pj_params := true; pj_queries := false; pj_running := false;
     pj_all_listeners := false; pj_obs := false; pj_state := false; pj_sites := true;
     pj_unordered := false; pj_fin_params := false |}.
(* C08: return values, reported state, notifications *)
Definition P_C08 : proj :=
  {| pj_ids := true; pj_params := false; pj_queries := false; pj_running := true;
     pj_all_listeners := false; pj_obs := false; pj_state := true; pj_sites := true;
     pj_unordered := false; pj_fin_params := true |}.
(* C17: observer entries next to the notifications *)
Definition P_C17 : proj :=
  {| pj_ids := true; pj_params := false; pj_queries := false; pj_running := false;
     pj_all_listeners := false; pj_obs := true; pj_state := false; pj_sites := false;
     pj_unordered := false; pj_fin_params := true |}.
(* C20: invocations of every registered function *)
Definition P_C20 : proj :=
  {| pj_ids := true; pj_params := true; pj_queries := false; pj_running := false;
     pj_all_listeners := true; pj_obs := false; pj_state := false; pj_sites := true;
     pj_unordered := false; pj_fin_params := true |}.

(* ---- the judgement the harness evaluates for one case ---- *)
Record verdict := {
  v_model : nat;                  (* 0 Ok, 2 fuel, 3 exception predicted, 4 outside the model *)
  v_disagree : option nat;        (* first call where model and implementation differ under the projection *)
  v_full_disagree : option nat;   (* same, full trace *)
  v_mon_impl : bool;              (* the property's monitor on the implementation's trace *)
  v_mon_model : bool              (* the property's monitor on the model's trace *)
}.

Definition judge_with (p : proj) (mon : runcase -> list callrec -> bool)
           (c : runcase) (impl : list callrec) : verdict :=
  match run_ref c with
  | Ok tr => {| v_model := 0; v_disagree := first_disagree p tr impl 0;
                v_full_disagree := first_disagree P_full tr impl 0;
                v_mon_impl := mon c impl; v_mon_model := mon c tr |}
  | Fuel => {| v_model := 2; v_disagree := None; v_full_disagree := None;
               v_mon_impl := mon c impl; v_mon_model := true |}
  | Exn _ => {| v_model := 3; v_disagree := None; v_full_disagree := None;
                v_mon_impl := mon c impl; v_mon_model := true |}
  | Unsupported => {| v_model := 4; v_disagree := None; v_full_disagree := None;
                      v_mon_impl := mon c impl; v_mon_model := true |}
  end.

(* ---- C04: guards are evaluated in the context of the enclosing task instance ---- *)
(* (theorems: RefC04.v) *)
(* the open task instances: pushed at a task-started notification, popped at the matching
   task-finished notification (a finished notification for an instance that is not open is
   rejected); every oracle query must name an open instance *)
Definition c04_notif (open : list nat) (n : notif) : option (list nat) :=
  match n_kind n with
  | TS => Some (n_id n :: open)
  | TF => remove_first (Nat.eqb (n_id n)) open
  | _ => Some open
  end.

Definition c04_entry (open : list nat) (e : entry) : option (list nat) :=
  match e with
  | ENotif 0 n _ => c04_notif open n
  | EQuery _ ctx => if mem ctx open then Some open else None
  | _ => Some open
  end.

Fixpoint c04_log (open : list nat) (log : list entry) : option (list nat) :=
  match log with
  | [] => Some open
  | e :: t => match c04_entry open e with Some o => c04_log o t | None => None end
  end.

Fixpoint c04_run (open : list nat) (tr : list callrec) : bool :=
  match tr with
  | [] => true
  | r :: t => match c04_log open (cr_log r) with Some o => c04_run o t | None => false end
  end.

Definition holds_C04q (tr : list callrec) : bool := c04_run [] tr.


(* After a query in context c the next thing function 0 or the oracle sees in the same call
   is: another query in context c (the next variable of the guard, or the next guard of the
   same block), a task-started / service-started notification whose enclosing instance is c
   (the first statement of the selected branch or loop body, or the statement after the
   Condition / loop), or the task-finished notification of c itself (its block is complete).
   Never a notification of a statement of another instance: the guard belongs to the block
   that is executing inside c.  A query renamed to the parent instance, which is open as
   well, is rejected by this monitor. *)
Definition n_ok (c : nat) (n : notif) : bool :=
  match n_kind n with
  | TS | SS => option_eqb Nat.eqb (n_ctx n) (Some c)
  | TF => Nat.eqb (n_id n) c
  | SF => false
  end.

Definition nstep_notif (p : option nat) (n : notif) : option (option nat) :=
  match p with
  | None => Some None
  | Some c => if n_ok c n then Some None else None
  end.

Definition nstep_entry (p : option nat) (e : entry) : option (option nat) :=
  match e with
  | ENotif 0 n _ => nstep_notif p n
  | EQuery _ c =>
    match p with
    | None => Some (Some c)
    | Some c' => if Nat.eqb c' c then Some (Some c) else None
    end
  | _ => Some p
  end.

Fixpoint nwalk (p : option nat) (log : list entry) : option (option nat) :=
  match log with
  | [] => Some p
  | e :: t => match nstep_entry p e with Some p' => nwalk p' t | None => None end
  end.

Definition holds_C04n (tr : list callrec) : bool :=
  forallb (fun r => match nwalk None (cr_log r) with Some _ => true | None => false end) tr.



Definition mon_true (_ : runcase) (_ : list callrec) : bool := true.
Definition mon_C01 (_ : runcase) (tr : list callrec) : bool := holds_C01 tr.
Definition mon_C07 (c : runcase) (tr : list callrec) : bool := holds_C07 (rc_script c) tr.
Definition mon_C08 (c : runcase) (tr : list callrec) : bool := holds_C08 (imm_of (rc_imm c)) (rc_script c) tr.
Definition mon_C14 (c : runcase) (tr : list callrec) : bool := holds_C14 (rc_script c) tr.
Definition mon_C17 (c : runcase) (tr : list callrec) : bool := holds_C17 (rc_script c) tr.
Definition mon_C20 (c : runcase) (tr : list callrec) : bool := holds_C20 (rc_script c) tr.
Definition mon_C04q (_ : runcase) (tr : list callrec) : bool := holds_C04q tr.
Definition mon_C04n (_ : runcase) (tr : list callrec) : bool := holds_C04n tr.
(* both monitors, for the harness *)
Definition mon_C04ctx (c : runcase) (tr : list callrec) : bool := holds_C04q tr && holds_C04n tr.
