(* NetQuiescent.v — "run to quiescence" on the FAITHFUL model (NetModel.v), i.e. no lost
   wake-up on the mechanism side.

   Headline (section 6): whenever PetriNetLogic.evaluate_petri_net returns, NO transition of the
   net is enabled -- for every net state, every environment behaviour (re-entrant fire_event from
   inside notifications) and also when the net grew during the call (parallel loops generate
   transitions that the running scan, which works on a snapshot, never looks at).  Hence: an
   accepted fire_event / start leaves nothing enabled, a rejected one leaves the net untouched,
   and from the constructor on, in every state in which control is with the caller, the net
   cannot move without a further event ([scheduler_always_quiescent]).

   Sections:
   1. the bodies of the 3 generator functions and of the 10 functions of the scheduler's mutual
      block, restated with the recursive calls as parameters ([scan_with], [run_cb_body], ...),
      and the unfolding equations (all by [reflexivity]; if NetModel.v changes, the equation of
      the changed function stops compiling and its [*_body] has to be updated -- nothing else);
   2. a frame rule: a preorder on states that every primitive update respects is respected by
      every function of the generator and of the block ([frame_generate], [frame_block]);
      first instance [le_ns]: the net only grows;
   3. the scan for an ARBITRARY callback runner: a scan ends either with every transition below
      its snapshot disabled or in the parallel-loop exit ([scan_with_exits]);
   4. evaluate: the snapshot statement ([evaluate_quiescent]: everything below some n >= the
      number of transitions at the call is disabled), static nets, fire_event, the public API;
   5. further frame instances (fields never written, counters/log only grow, places stable);
   6. the strong form and its consequences up to the API and to call sequences;
   7. a boolean check for concrete states, scripts, and a non-vacuity example with run-time
      generation;
   8. fuel monotonicity of the whole block, of the API and of scripts.
   Proof file. *)
From PFDL Require Import Examples.
From PFDL Require Import NetModel NetRun NetC08.
Local Open Scope net_scope.
Notation NM := NetModel.N.

(* =========================================================================== *)
(* 1. the bodies of the mutual block with the recursive calls as parameters      *)
(* =========================================================================== *)

(* the search for the parallel-loop callback in evaluate_petri_net (verbatim) *)
Fixpoint find_pl (h : nat) (i : nat) (l : list cb) (temp : option cb) {struct h} : option cb * list cb :=
  match h with
  | O => (temp, l)
  | S h' =>
    match nth_error l i with
    | None => (temp, l)
    | Some c =>
      if is_parloop_cb c
      then find_pl h' (S i) (firstn i l ++ skipn (S i) l) (Some c)
      else find_pl h' (S i) l temp
    end
  end.

(* for callback in callbacks: callback()  -- live list, by index *)
Definition each_with (rc : cb -> NM unit) (index : nat) : nat -> nat -> NM unit :=
  fix each (h : nat) (i : nat) {struct h} : NM unit :=
    match h with
    | O => nfail Fuel
    | S h' =>
      s <~ nget ;;
      match nth_error (nth index (ns_cbs s) []) i with
      | None => nret tt
      | Some c => rc c ;;~ each h' (S i)
      end
    end.

Definition pop_cb (index : nat) : NM unit :=
  nmod (fun s => s <| ns_cbs := upd index
                       (fun l => match l with [] => [] | _ :: r => r end) (ns_cbs s) |>).

(* the scan loop of evaluate_petri_net; [rc] runs a callback, [snapshot] is the number of
   transitions that existed when the evaluation started *)
Definition scan_with (rc : cb -> NM unit) (snapshot : nat) : nat -> nat -> NM unit :=
  fix scan (g : nat) (index : nat) {struct g} : NM unit :=
    match g with
    | O => nfail Fuel
    | S g' =>
      if Nat.leb snapshot index then nret tt
      else
        s <~ nget ;;
        match nth_error (ns_trans s) index with
        | None => nret tt
        | Some t =>
          if enabled s t then
            let cbs := nth index (ns_cbs s) [] in
            let '(temp, cbs1) := find_pl (S (List.length cbs)) 0 cbs None in
            match temp with
            | Some pl =>
              nmod (fun s => s <| ns_cbs := upd index (fun _ => cbs1) (ns_cbs s) |>) ;;~
              nfor cbs1 (fun c => rc c ;;~ pop_cb index) ;;~
              rc pl
            | None =>
              fire_trans t ;;~
              each_with rc index (S (S (List.length cbs))) 0 ;;~
              scan g' 0
            end
          else scan g' (S index)
        end
    end.

(* ---- the generator (run-time generation for parallel loops uses it) ---- *)
Section GenBodies.
  Variable tasks : list task.

  Definition gen_go (gs : nat -> name -> list nat -> stmt -> nat -> nat -> bool -> NM (list nat))
             (n : nat) (ctx : nat) (tn : name) (pre : list nat) (first last : nat) (in_loop : bool)
    : nat -> list stmt -> nat -> list nat -> NM (list nat) :=
    fix go (i : nat) (l : list stmt) (prev : nat) (acc : list nat) : NM (list nat) :=
      match l with
      | [] => nret acc
      | s :: r =>
        cur <~ (if Nat.ltb 1 n
                then (if Nat.ltb i (n - 1) then create_transition else nret last)
                else nret last) ;;
        let prev' := if Nat.ltb 1 n then prev else first in
        ex <~ gs ctx tn (pre ++ [i]) s prev' cur in_loop ;;
        go (S i) r cur ex
      end.

  Theorem generate_statements_S : forall f ctx tn pre ss first last in_loop s,
      generate_statements tasks (S f) ctx tn pre ss first last in_loop s =
      gen_go (generate_stmt tasks f) (List.length ss) ctx tn pre first last in_loop 0 ss first [] s.
  Proof. intros. reflexivity. Qed.

  Definition gen_calls (gtc : call -> site -> nat -> nat -> nat -> bool -> NM (list nat))
             (ctx : nat) (tn : name) (path : list nat) (t1 sync : nat) (in_loop : bool)
    : nat -> list call -> NM unit :=
    fix calls (i : nat) (l : list call) : NM unit :=
      match l with
      | [] => nret tt
      | c :: r => gtc c (site_of tn (path ++ [i])) ctx t1 sync in_loop ;;~ calls (S i) r
      end.

  Definition gstmt_body
             (gss : nat -> name -> list nat -> list stmt -> nat -> nat -> bool -> NM (list nat))
             (gtc : call -> site -> nat -> nat -> nat -> bool -> NM (list nat))
             (ctx : nat) (tn : name) (path : list nat) (s : stmt) (t1 t2 : nat) (in_loop : bool)
    : NM (list nat) :=
    match s with
    | SService n ins _ => generate_service n ins (site_of tn path) ctx t1 t2 in_loop
    | SCall c => gtc c (site_of tn path) ctx t1 t2 in_loop
    | SParallel cs =>
      sync <~ create_transition ;;
      pfin <~ create_place ;;
      gen_calls gtc ctx tn path t1 sync in_loop 0 cs ;;~
      add_output pfin sync ;;~
      add_input pfin t2 ;;~
      nret [sync]
    | SCond e p fl =>
      passed <~ create_place ;;
      failed <~ create_place ;;
      expr_p <~ create_place ;;
      fp <~ create_transition ;;
      ff <~ create_transition ;;
      add_input expr_p fp ;;~
      add_input expr_p ff ;;~
      add_input passed fp ;;~
      add_input failed ff ;;~
      cfin <~ create_place ;;
      sp <~ create_transition ;;
      add_output cfin sp ;;~
      gss ctx tn (path ++ [0]) p fp sp in_loop ;;~
      add_output expr_p t1 ;;~
      add_input cfin t2 ;;~
      add_callback t1 (CbCond e passed failed ctx) ;;~
      match fl with
      | [] => add_output cfin ff ;;~ nret [sp; ff]
      | _ :: _ =>
        sf <~ create_transition ;;
        gss ctx tn (path ++ [1]) fl ff sf in_loop ;;~
        add_output cfin sf ;;~
        nret [sp; sf]
      end
    | SCount true v lim body =>
      match body with
      | SCall c :: _ =>
        ph <~ create_place ;;
        add_output ph t1 ;;~
        add_input ph t2 ;;~
        add_callback t1 (CbParLoop v lim ctx c (site_of tn (path ++ [0])) ph t1 t2) ;;~
        nret [t2]
      | _ => nfail Unsupported
      end
    | SCount false v lim body =>
      loop_p <~ create_place ;;
      then_p <~ create_place ;;
      else_p <~ create_place ;;
      cp <~ create_transition ;;
      cf <~ create_transition ;;
      it <~ create_transition ;;
      add_input loop_p cp ;;~
      add_input then_p cp ;;~
      add_input loop_p cf ;;~
      add_input else_p cf ;;~
      add_output loop_p it ;;~
      ldone <~ create_place ;;
      gss ctx tn path body cp it true ;;~
      add_output ldone cf ;;~
      add_output loop_p t1 ;;~
      add_input ldone t2 ;;~
      add_callback t1 (CbCount (site_of tn path) lim then_p else_p ctx) ;;~
      add_callback it (CbCount (site_of tn path) lim then_p else_p ctx) ;;~
      nret [cf]
    | SWhile e body =>
      loop_p <~ create_place ;;
      then_p <~ create_place ;;
      else_p <~ create_place ;;
      cp <~ create_transition ;;
      cf <~ create_transition ;;
      it <~ create_transition ;;
      add_input loop_p cp ;;~
      add_input then_p cp ;;~
      add_input loop_p cf ;;~
      add_input else_p cf ;;~
      add_output loop_p it ;;~
      ldone <~ create_place ;;
      gss ctx tn path body cp it true ;;~
      add_output loop_p t1 ;;~
      add_input ldone t2 ;;~
      add_callback t1 (CbWhile e then_p else_p ctx) ;;~
      add_callback it (CbWhile e then_p else_p ctx) ;;~
      add_output ldone cf ;;~
      nret [cf]
    end.

  Theorem generate_stmt_S : forall f ctx tn path s t1 t2 in_loop st,
      generate_stmt tasks (S f) ctx tn path s t1 t2 in_loop st =
      gstmt_body (generate_statements tasks f) (generate_task_call tasks f) ctx tn path s t1 t2 in_loop st.
  Proof. intros. destruct s; reflexivity. Qed.

  Definition gtc_body
             (gss : nat -> name -> list nat -> list stmt -> nat -> nat -> bool -> NM (list nat))
             (c : call) (at_ : site) (ctx : nat) (t1 t2 : nat) (in_loop : bool) : NM (list nat) :=
    match find_task (c_name c) tasks with
    | None => nfail (Exn KeyError)
    | Some t =>
      u <~ fresh_uuid ;;
      a <~ new_api {| a_is_task := true; a_name := c_name c; a_site := at_; a_uuid := u; a_ctx := Some ctx;
                      a_in_loop := in_loop; a_params := c_ins c; a_src := c_ins c; a_has_call := true |} ;;
      add_callback t1 (CbTS a) ;;~
      ex <~ gss a (t_name t) [] (t_body t) t1 t2 in_loop ;;
      nfor ex (fun e => add_callback e (CbTF a)) ;;~
      nret ex
    end.

  Theorem generate_task_call_S : forall f c at_ ctx t1 t2 in_loop st,
      generate_task_call tasks (S f) c at_ ctx t1 t2 in_loop st =
      gtc_body (generate_statements tasks f) c at_ ctx t1 t2 in_loop st.
  Proof. intros. reflexivity. Qed.
End GenBodies.

Section Bodies.
  Variable tasks : list task.
  Variable env : envcfg.

  (* ---- run_cb ---- *)
  Definition await_and_fire (sfe : event -> NM bool) (ev : event) : NM unit :=
    nmod (fun s => s <| ns_awaited := ns_awaited s ++ [ev] |>) ;;~
    sfe ev ;;~ nret tt.

  (* on_parallel_loop_started up to the final call of evaluate_petri_net *)
  Definition parloop_generate (v : name) (lim : limit) (ctx : nat) (c : call) (csite : site)
             (ph t1 t2 : nat) : NM unit :=
    l <~ get_loop_limit env lim ctx ;;
    (if Qlt_bool 0 l
     then
       nfor (seq 0 (Z.to_nat (trunc l)))
            (fun _ =>
               generate_task_call tasks 200 c csite ctx t1 t2 true ;;~
               cx <~ get_api ctx ;;
               s <~ nget ;;
               set_counters (a_uuid cx)
                            (dict_set lkey_eqb (KVar v) (CPar (-1)) (counters_of (a_uuid cx) s)))
     else generate_empty_parallel_loop t1 t2) ;;~
    s <~ nget ;;
    (if has_place s ph then remove_place ph else nret tt).

  Definition parloop_then (v : name) (lim : limit) (ctx : nat) (c : call) (csite : site)
             (ph t1 t2 : nat) (k : NM unit) : NM unit :=
    l <~ get_loop_limit env lim ctx ;;
    (if Qlt_bool 0 l
     then
       nfor (seq 0 (Z.to_nat (trunc l)))
            (fun _ =>
               generate_task_call tasks 200 c csite ctx t1 t2 true ;;~
               cx <~ get_api ctx ;;
               s <~ nget ;;
               set_counters (a_uuid cx)
                            (dict_set lkey_eqb (KVar v) (CPar (-1)) (counters_of (a_uuid cx) s)))
     else generate_empty_parallel_loop t1 t2) ;;~
    s <~ nget ;;
    (if has_place s ph then remove_place ph else nret tt) ;;~
    k.

  Lemma nbind_assoc : forall A B C (m : NM A) (k : A -> NM B) (k' : B -> NM C) s,
      nbind (nbind m k) k' s = nbind m (fun a => nbind (k a) k') s.
  Proof. intros. unfold nbind. destruct (m s) as [[a s1]| | |]; reflexivity. Qed.

  Lemma nbind_ext : forall A B (m : NM A) (k k' : A -> NM B) s,
      (forall a s1, k a s1 = k' a s1) -> nbind m k s = nbind m k' s.
  Proof. intros. unfold nbind. destruct (m s) as [[a s1]| | |]; auto. Qed.

  Lemma parloop_then_eq : forall v lim ctx c csite ph t1 t2 k s,
      parloop_then v lim ctx c csite ph t1 t2 k s =
      (parloop_generate v lim ctx c csite ph t1 t2 ;;~ k) s.
  Proof.
    intros. unfold parloop_then, parloop_generate.
    rewrite nbind_assoc. apply nbind_ext; intros l s1.
    rewrite nbind_assoc. apply nbind_ext; intros u s2.
    rewrite nbind_assoc. apply nbind_ext; intros s3 s4. reflexivity.
  Qed.

  Definition run_cb_body (ev_ : NM unit) (ots otf oss osf : nat -> NM unit)
             (sfe : event -> NM bool) (c : cb) : NM unit :=
    match c with
    | CbTS a => ots a
    | CbTF a => otf a
    | CbSS a => oss a
    | CbSF a => osf a
    | CbCond e pt pf ctx =>
      b <~ check_expression env e ctx ;;
      await_and_fire sfe (EvSetPlace (if b then pt else pf))
    | CbWhile e pt pf ctx =>
      b <~ check_expression env e ctx ;;
      await_and_fire sfe (EvSetPlace (if b then pt else pf))
    | CbCount key lim pt pf ctx =>
      cx <~ get_api ctx ;;
      s <~ nget ;;
      let u := a_uuid cx in
      let d := counters_of u s in
      let cnt := match dict_get lkey_eqb (KLoop key) d with
                 | None => 0
                 | Some (CInt n) => S n
                 | Some (CPar _) => 0
                 end in
      set_counters u (dict_set lkey_eqb (KLoop key) (CInt cnt) d) ;;~
      l <~ get_loop_limit env lim ctx ;;
      if Qlt_bool (inject_Z (Z.of_nat cnt)) l
      then await_and_fire sfe (EvSetPlace pt)
      else
        s <~ nget ;;
        set_counters u (dict_del lkey_eqb (KLoop key) (counters_of u s)) ;;~
        await_and_fire sfe (EvSetPlace pf)
    | CbParLoop v lim ctx c csite ph t1 t2 =>
      parloop_then v lim ctx c csite ph t1 t2 ev_
    end.

  Theorem run_cb_S : forall f c s,
      run_cb tasks env (S f) c s =
      run_cb_body (evaluate tasks env f) (on_task_started tasks env f) (on_task_finished tasks env f)
                  (on_service_started tasks env f) (on_service_finished tasks env f)
                  (sched_fire_event tasks env f) c s.
  Proof.
    intros f c s. destruct c; reflexivity.
  Qed.

  (* ---- on_task_started ---- *)
  Definition ots_body (nu : nkind -> nat -> bool -> NM unit) (ai : nat) : NM unit :=
    a <~ get_api ai ;;
    s <~ nget ;;
    (if a_in_loop a
     then
       u <~ new_test_or_uuid true ;;
       set_api ai (with_uuid u) ;;~
       (if a_has_call a then set_api ai (with_params (a_src a)) else nret tt) ;;~
       substitute_loop_indexes tasks ai
     else if ns_test_ids s
          then u <~ new_test_or_uuid true ;; set_api ai (with_uuid u)
          else nret tt) ;;~
    nu TS ai false.

  Theorem on_task_started_S : forall f ai s,
      on_task_started tasks env (S f) ai s = ots_body (notify_user tasks env f) ai s.
  Proof. intros. reflexivity. Qed.

  (* ---- on_service_started ---- *)
  Definition rebind_uuid (a : api) (ai : nat) (u : ident) : NM unit :=
    s <~ nget ;;
    match dict_get ident_eqb (a_uuid a) (ns_place_dict s) with
    | None => nfail (Exn KeyError)
    | Some p => nmod (fun s => s <| ns_place_dict := (u, p) :: ns_place_dict s |>) ;;~
                set_api ai (with_uuid u)
    end.

  Definition oss_body (nu : nkind -> nat -> bool -> NM unit) (ai : nat) : NM unit :=
    a <~ get_api ai ;;
    s <~ nget ;;
    (if a_in_loop a
     then
       u0 <~ fresh_uuid ;;
       u <~ (if ns_test_ids s then new_test_or_uuid false else nret u0) ;;
       rebind_uuid a ai u ;;~
       set_api ai (with_params (a_src a)) ;;~
       substitute_loop_indexes tasks ai
     else if ns_test_ids s
          then u <~ new_test_or_uuid false ;; rebind_uuid a ai u
          else nret tt) ;;~
    a' <~ get_api ai ;;
    nmod (fun s => s <| ns_awaited := ns_awaited s ++ [EvFinish (a_uuid a')] |>) ;;~
    nu SS ai false.

  Theorem on_service_started_S : forall f ai s,
      on_service_started tasks env (S f) ai s = oss_body (notify_user tasks env f) ai s.
  Proof. intros. reflexivity. Qed.

  Theorem on_service_finished_S : forall f ai s,
      on_service_finished tasks env (S f) ai s = notify_user tasks env f SF ai false s.
  Proof. intros. reflexivity. Qed.

  Definition otf_body (nu : nkind -> nat -> bool -> NM unit) (ai : nat) : NM unit :=
    a <~ get_api ai ;;
    nu TF ai (Nat.eqb (a_name a) production_task).

  Theorem on_task_finished_S : forall f ai s,
      on_task_finished tasks env (S f) ai s = otf_body (notify_user tasks env f) ai s.
  Proof. intros. reflexivity. Qed.

  (* ---- notify_user ---- *)
  Definition notify_each (er : nkind -> nat -> NM unit) (k : nkind) (ai : nat) : nat -> nat -> NM unit :=
    fix each (h : nat) (i : nat) {struct h} : NM unit :=
      match h with
      | O => nfail Fuel
      | S h' =>
        s <~ nget ;;
        match nth_error (listeners_of k (ns_ls s)) i with
        | None => nret tt
        | Some l =>
          a <~ get_api ai ;;
          nlog [ENotif l (notif_of s k a) (ns_running s)] ;;~
          (if Nat.eqb l 0 then er k ai else nret tt) ;;~
          each h' (S i)
        end
      end.

  Definition nu_body (er : nkind -> nat -> NM unit) (k : nkind) (ai : nat) (order_finished : bool)
    : NM unit :=
    s0 <~ nget ;;
    notify_each er k ai (S (List.length (ns_ls s0))) 0 ;;~
    (if order_finished then nmod (fun s => s <| ns_running := false |>) else nret tt) ;;~
    a <~ get_api ai ;;
    s <~ nget ;;
    nlog (map (fun o => EObs o k (a_name a) (ident_nat (a_uuid a)) order_finished) (ns_obs s)).

  Theorem notify_user_S : forall f k ai b s,
      notify_user tasks env (S f) k ai b s = nu_body (engine_reacts tasks env f) k ai b s.
  Proof. intros. reflexivity. Qed.

  (* ---- engine_reacts ---- *)
  Definition er_body (sfe : event -> NM bool) (k : nkind) (ai : nat) : NM unit :=
    a <~ get_api ai ;;
    let id := a_uuid a in
    (match k with
     | SS => nmod (fun s => s <| ns_pending := ns_pending s ++ [id] |>)
     | SF => nmod (fun s => s <| ns_pending :=
                               match remove_first (ident_eqb id) (ns_pending s) with
                               | Some l => l | None => ns_pending s end |>)
     | _ => nret tt
     end) ;;~
    (match k with
     | TS | SS => set_api ai (with_params (hostile (ec_mutate env) (a_params a)))
     | _ => nret tt
     end) ;;~
    (match k with
     | SS =>
       s <~ nget ;;
       nmod (fun s => s <| ns_nss := S (ns_nss s) |>) ;;~
       if ec_imm env (ns_nss s)
       then sfe (EvFinish (a_uuid a)) ;;~ nret tt
       else nret tt
     | _ => nret tt
     end) ;;~
    s <~ nget ;;
    nmod (fun s => s <| ns_nnot := S (ns_nnot s) |>) ;;~
    match (if ec_react_all env || match k with TS | SS => true | _ => false end
           then ec_react env (ns_nnot s) else None), ns_pending s with
    | Some j, p0 :: prest =>
      let pend := p0 :: prest in
      let sid := nth (Nat.modulo j (List.length pend)) pend p0 in
      nlog [EFireIn (ident_nat sid)] ;;~
      r <~ sfe (EvFinish sid) ;;
      nlog [EFireOut (ident_nat sid) r]
    | _, _ => nret tt
    end.

  Theorem engine_reacts_S : forall f k ai s,
      engine_reacts tasks env (S f) k ai s = er_body (sched_fire_event tasks env f) k ai s.
  Proof. intros. reflexivity. Qed.

  (* ---- Scheduler.fire_event / PetriNetLogic.fire_event ---- *)
  Definition sfe_body (lfe : event -> NM bool) (ev : event) : NM bool :=
    s <~ nget ;;
    if existsb (event_eqb ev) (ns_awaited s)
    then
      match remove_first (event_eqb ev) (ns_awaited s) with
      | None => nfail (Exn ValueError)
      | Some l =>
        nmod (fun s => s <| ns_awaited := l |>) ;;~
        r <~ lfe ev ;;
        if r then nret true
        else nmod (fun s => s <| ns_awaited := ns_awaited s ++ [ev] |>) ;;~ nret false
      end
    else nret false.

  Theorem sched_fire_event_S' : forall f ev s,
      sched_fire_event tasks env (S f) ev s = sfe_body (logic_fire_event tasks env f) ev s.
  Proof. intros. reflexivity. Qed.

  Definition event_place (s : NS) (ev : event) : res (option nat) :=
    match ev with
    | EvStart => Ok (Some (ns_start_place s))
    | EvSetPlace p => Ok (Some p)
    | EvFinish id => match dict_get ident_eqb id (ns_place_dict s) with
                     | Some p => Ok (Some p)
                     | None => Exn KeyError
                     end
    | EvJunk => Ok None
    end.

  Definition lfe_body (ev_ : NM unit) (ev : event) : NM bool :=
    s <~ nget ;;
    match event_place s ev with
    | Ok (Some p) =>
      if has_place s p
      then place_add p ;;~ ev_ ;;~ nret true
      else nret false
    | Ok None => nret false
    | Fuel => nfail Fuel | Exn k => nfail (Exn k) | Unsupported => nfail Unsupported
    end.

  Theorem logic_fire_event_S : forall f ev s,
      logic_fire_event tasks env (S f) ev s = lfe_body (evaluate tasks env f) ev s.
  Proof. intros. reflexivity. Qed.

  (* fuel 0 *)
  Lemma block_O :
    (forall s, evaluate tasks env 0 s = Fuel) /\
    (forall c s, run_cb tasks env 0 c s = Fuel) /\
    (forall a s, on_task_started tasks env 0 a s = Fuel) /\
    (forall a s, on_service_started tasks env 0 a s = Fuel) /\
    (forall a s, on_service_finished tasks env 0 a s = Fuel) /\
    (forall a s, on_task_finished tasks env 0 a s = Fuel) /\
    (forall k a b s, notify_user tasks env 0 k a b s = Fuel) /\
    (forall k a s, engine_reacts tasks env 0 k a s = Fuel) /\
    (forall ev s, sched_fire_event tasks env 0 ev s = Fuel) /\
    (forall ev s, logic_fire_event tasks env 0 ev s = Fuel).
  Proof. repeat split. Qed.

  Theorem evaluate_S : forall f s0,
      evaluate tasks env (S f) s0 =
      scan_with (run_cb tasks env f) (List.length (ns_trans s0)) f 0 s0.
  Proof. intros. reflexivity. Qed.
End Bodies.

(* =========================================================================== *)
(* 2. a frame rule for the whole mechanism, and: the net only grows              *)
(* =========================================================================== *)

Lemma nbind_inv : forall A B (m : NM A) (k : A -> NM B) s b s',
    nbind m k s = Ok (b, s') -> exists a s1, m s = Ok (a, s1) /\ k a s1 = Ok (b, s').
Proof.
  intros A B m k s b s' H. unfold nbind in H.
  destruct (m s) as [[a s1]| | |]; try discriminate. eauto.
Qed.

(* [fpres R m]: every successful run of m relates the state before to the state after *)
Definition fpres (R : NS -> NS -> Prop) {A} (m : NM A) : Prop :=
  forall s a s', m s = Ok (a, s') -> R s s'.

(* What a relation has to satisfy to be preserved by every function of the generator and of the
   scheduler's mutual block: it is a preorder and every primitive state update respects it.
   The updates come in two groups (together they are the complete list of state updates in
   NetModel.v's generator and mutual block):
   [frame_sched]: bookkeeping of the scheduler, the API objects and the environment, and the
                  callback table;
   [frame_net]  : marking and structure of the net. *)
Record frame_sched (R : NS -> NS -> Prop) : Prop := {
  fr_refl : forall s, R s s;
  fr_trans : forall a b c, R a b -> R b c -> R a c;
  fr_cbs : forall s index f, R s (s <| ns_cbs := upd index f (ns_cbs s) |>);
  (* API objects, identifiers *)
  fr_fresh_uuid : fpres R fresh_uuid;
  fr_set_api : forall i f, fpres R (set_api i f);
  fr_place_dict : forall s u p, R s (s <| ns_place_dict := (u, p) :: ns_place_dict s |>);
  fr_tid : forall s, R s (s <| ns_tid := S (ns_tid s) |>);
  fr_sid : forall s, R s (s <| ns_sid := S (ns_sid s) |>);
  (* scheduler and environment bookkeeping *)
  fr_log : forall es, fpres R (nlog es);
  fr_counters : forall s v, R s (s <| ns_counters := v |>);
  fr_q : forall s v, R s (s <| ns_q := v |>);
  fr_awaited : forall s v, R s (s <| ns_awaited := v |>);
  fr_running : forall s v, R s (s <| ns_running := v |>);
  fr_pending : forall s v, R s (s <| ns_pending := v |>);
  fr_nss : forall s, R s (s <| ns_nss := S (ns_nss s) |>);
  fr_nnot : forall s, R s (s <| ns_nnot := S (ns_nnot s) |>)
}.

Record frame_net (R : NS -> NS -> Prop) : Prop := {
  fr_create_place : fpres R create_place;
  fr_create_transition : fpres R create_transition;
  fr_add_input : forall p t, fpres R (add_input p t);
  fr_add_output : forall p t, fpres R (add_output p t);
  fr_add_callback : forall t c, fpres R (add_callback t c);
  fr_place_add : forall p, fpres R (place_add p);
  fr_fire_trans : forall t, fpres R (fire_trans t);
  fr_remove_place : forall p, fpres R (remove_place p);
  fr_new_api : forall a, fpres R (new_api a)
}.

Record frame_ok (R : NS -> NS -> Prop) : Prop := {
  fr_s : frame_sched R;
  fr_n : frame_net R
}.

Arguments fr_refl {R} _.
Arguments fr_trans {R} _.
Arguments fr_cbs {R} _.
Arguments fr_fresh_uuid {R} _.
Arguments fr_set_api {R} _.
Arguments fr_place_dict {R} _.
Arguments fr_tid {R} _.
Arguments fr_sid {R} _.
Arguments fr_log {R} _.
Arguments fr_counters {R} _.
Arguments fr_q {R} _.
Arguments fr_awaited {R} _.
Arguments fr_running {R} _.
Arguments fr_pending {R} _.
Arguments fr_nss {R} _.
Arguments fr_nnot {R} _.
Arguments fr_create_place {R} _.
Arguments fr_create_transition {R} _.
Arguments fr_add_input {R} _.
Arguments fr_add_output {R} _.
Arguments fr_add_callback {R} _.
Arguments fr_place_add {R} _.
Arguments fr_fire_trans {R} _.
Arguments fr_remove_place {R} _.
Arguments fr_new_api {R} _.
Arguments fr_s {R} _.
Arguments fr_n {R} _.

Section FrameCombinators.
  Variable R : NS -> NS -> Prop.
  Variable FR : frame_sched R.

  Lemma fpres_ext : forall A (m m' : NM A), (forall s, m s = m' s) -> fpres R m' -> fpres R m.
  Proof. intros A m m' E H s a s' H1. rewrite E in H1. eauto. Qed.

  Lemma fpres_ret : forall A (a : A), fpres R (nret a).
  Proof. intros A a s a' s' H. inversion H. apply (fr_refl FR). Qed.

  Lemma fpres_get : fpres R nget.
  Proof. intros s a s' H. inversion H. apply (fr_refl FR). Qed.

  Lemma fpres_fail : forall A (r : res A), fpres R (nfail r).
  Proof. intros A r s a s' H. unfold nfail in H. destruct r; inversion H. apply (fr_refl FR). Qed.

  Lemma fpres_bind : forall A B (m : NM A) (k : A -> NM B),
      fpres R m -> (forall a, fpres R (k a)) -> fpres R (nbind m k).
  Proof.
    intros A B m k Hm Hk s b s' H. apply nbind_inv in H. destruct H as (a & s1 & H1 & H2).
    eapply (fr_trans FR); [eapply Hm|eapply Hk]; eauto.
  Qed.

  Lemma fpres_mod : forall f, (forall s, R s (f s)) -> fpres R (nmod f).
  Proof. intros f Hf s a s' H. inversion H. apply Hf. Qed.

  Lemma fpres_nfor : forall A (l : list A) f, (forall x, fpres R (f x)) -> fpres R (nfor l f).
  Proof.
    intros A l f Hf. induction l as [|x l IH]; cbn [nfor].
    - apply fpres_ret.
    - apply fpres_bind; auto.
  Qed.

  Lemma fpres_get_api : forall i, fpres R (get_api i).
  Proof.
    intros i s a s' H. unfold get_api in H. destruct (nth_error (ns_apis s) i); inversion H.
    apply (fr_refl FR).
  Qed.
End FrameCombinators.
Arguments fpres_ret {R} FR.
Arguments fpres_get {R} FR.
Arguments fpres_fail {R} FR.
Arguments fpres_bind {R} FR.
Arguments fpres_nfor {R} FR.
Arguments fpres_get_api {R} FR.

(* one step of the syntax-directed proof; [FR : frame_sched R] *)
Ltac fpres_step FR :=
  match goal with
  | |- fpres _ (nbind _ _) => apply (fpres_bind FR); [| intro]
  | |- fpres _ (nret _) => apply (fpres_ret FR)
  | |- fpres _ nget => apply (fpres_get FR)
  | |- fpres _ (nfail _) => apply (fpres_fail FR)
  | |- fpres _ (get_api _) => apply (fpres_get_api FR)
  | |- fpres _ (nfor _ _) => apply (fpres_nfor FR); intro
  | |- fpres _ (nmod _) =>
    apply fpres_mod; intro; cbv beta;
    first [ apply (fr_cbs FR) | apply (fr_place_dict FR) | apply (fr_tid FR) | apply (fr_sid FR)
          | apply (fr_counters FR) | apply (fr_q FR) | apply (fr_awaited FR) | apply (fr_running FR)
          | apply (fr_pending FR) | apply (fr_nss FR) | apply (fr_nnot FR) ]
  | |- fpres _ fresh_uuid => apply (fr_fresh_uuid FR)
  | |- fpres _ (set_api _ _) => apply (fr_set_api FR)
  | |- fpres _ (nlog _) => apply (fr_log FR)
  | |- fpres _ (if ?b then _ else _) => destruct b
  | |- fpres _ (match ?x with _ => _ end) => destruct x
  | |- fpres _ _ => solve [auto with pres]
  end.
Ltac fpres_tac FR := cbv zeta; repeat (fpres_step FR).

(* the same with the net primitives; [FN : frame_net R] *)
Ltac fpres_step_n FN :=
  match goal with
  | |- fpres _ create_place => apply (fr_create_place FN)
  | |- fpres _ create_transition => apply (fr_create_transition FN)
  | |- fpres _ (add_input _ _) => apply (fr_add_input FN)
  | |- fpres _ (add_output _ _) => apply (fr_add_output FN)
  | |- fpres _ (add_callback _ _) => apply (fr_add_callback FN)
  | |- fpres _ (place_add _) => apply (fr_place_add FN)
  | |- fpres _ (fire_trans _) => apply (fr_fire_trans FN)
  | |- fpres _ (remove_place _) => apply (fr_remove_place FN)
  | |- fpres _ (new_api _) => apply (fr_new_api FN)
  end.
Ltac fpres_tacN FR FN := cbv zeta; repeat (first [fpres_step_n FN | fpres_step FR]).

(* ---- layer 1: everything that does not touch marking or structure of the net ---- *)
Section FrameSched.
  Variable R : NS -> NS -> Prop.
  Variable FR : frame_sched R.
  Variable tasks : list task.
  Variable env : envcfg.

  Lemma fpres_pop_cb : forall i, fpres R (pop_cb i).
  Proof. intros. unfold pop_cb. fpres_tac FR. Qed.
  Lemma fpres_set_counters : forall u d, fpres R (set_counters u d).
  Proof. intros. unfold set_counters. fpres_tac FR. Qed.
  Lemma fpres_new_test_or_uuid : forall b, fpres R (new_test_or_uuid b).
  Proof. intro b. unfold new_test_or_uuid. fpres_tac FR. Qed.
  Hint Resolve fpres_pop_cb fpres_set_counters fpres_new_test_or_uuid : pres.
  Lemma fpres_substitute_loop_indexes : forall ai, fpres R (substitute_loop_indexes tasks ai).
  Proof. intro ai. unfold substitute_loop_indexes. fpres_tac FR. Qed.
  Lemma fpres_get_loop_limit : forall lim ctx, fpres R (get_loop_limit env lim ctx).
  Proof. intros. unfold get_loop_limit. fpres_tac FR. Qed.
  Lemma fpres_check_expression : forall e ctx, fpres R (check_expression env e ctx).
  Proof. intros. unfold check_expression. fpres_tac FR. Qed.
  Hint Resolve fpres_substitute_loop_indexes fpres_get_loop_limit fpres_check_expression : pres.

  Lemma fpres_each_with : forall rc index, (forall c, fpres R (rc c)) ->
      forall h i, fpres R (each_with rc index h i).
  Proof.
    intros rc index Hrc. induction h as [|h IH]; intro i.
    - cbn [each_with]. fpres_tac FR.
    - cbn [each_with]. fold (each_with rc index). fpres_tac FR.
  Qed.

  (* every callback except the parallel-loop one *)
  Lemma fpres_run_cb_body_plain : forall ev_ ots otf oss osf sfe,
      (forall a, fpres R (ots a)) -> (forall a, fpres R (otf a)) ->
      (forall a, fpres R (oss a)) -> (forall a, fpres R (osf a)) -> (forall e, fpres R (sfe e)) ->
      forall c, is_parloop_cb c = false ->
                fpres R (run_cb_body tasks env ev_ ots otf oss osf sfe c).
  Proof.
    intros ev_ ots otf oss osf sfe H2 H3 H4 H5 H6 c Hc. unfold run_cb_body, await_and_fire.
    destruct c; try discriminate Hc; fpres_tac FR.
  Qed.

  Lemma fpres_ots_body : forall nu, (forall k a b, fpres R (nu k a b)) -> forall ai, fpres R (ots_body tasks nu ai).
  Proof. intros nu H ai. unfold ots_body. fpres_tac FR. Qed.
  Lemma fpres_oss_body : forall nu, (forall k a b, fpres R (nu k a b)) -> forall ai, fpres R (oss_body tasks nu ai).
  Proof. intros nu H ai. unfold oss_body, rebind_uuid. fpres_tac FR. Qed.
  Lemma fpres_otf_body : forall nu, (forall k a b, fpres R (nu k a b)) -> forall ai, fpres R (otf_body nu ai).
  Proof. intros nu H ai. unfold otf_body. fpres_tac FR. Qed.

  Lemma fpres_notify_each : forall er k ai, (forall k a, fpres R (er k a)) ->
      forall h i, fpres R (notify_each er k ai h i).
  Proof.
    intros er k ai Her. induction h as [|h IH]; intro i.
    - cbn [notify_each]. fpres_tac FR.
    - cbn [notify_each]. fold (notify_each er k ai). fpres_tac FR.
  Qed.
  Hint Resolve fpres_notify_each : pres.
  Lemma fpres_nu_body : forall er, (forall k a, fpres R (er k a)) -> forall k ai b, fpres R (nu_body er k ai b).
  Proof. intros er H k ai b. unfold nu_body. fpres_tac FR. Qed.
  Lemma fpres_er_body : forall sfe, (forall e, fpres R (sfe e)) -> forall k ai, fpres R (er_body env sfe k ai).
  Proof. intros sfe H k ai. unfold er_body. fpres_tac FR. Qed.
  Lemma fpres_sfe_body : forall lfe, (forall e, fpres R (lfe e)) -> forall ev, fpres R (sfe_body lfe ev).
  Proof. intros lfe H ev. unfold sfe_body. fpres_tac FR. Qed.
End FrameSched.

(* ---- layer 2: the generator, the scan, the parallel-loop callback, fire_event ---- *)
Section Frame.
  Variable R : NS -> NS -> Prop.
  Variable FR : frame_sched R.
  Variable FN : frame_net R.

  Hint Resolve fpres_pop_cb fpres_set_counters fpres_get_loop_limit fpres_each_with : pres.

  Lemma fpres_generate_service : forall n ins at_ ctx t1 t2 il,
      fpres R (generate_service n ins at_ ctx t1 t2 il).
  Proof. intros. unfold generate_service. fpres_tacN FR FN. Qed.
  Lemma fpres_generate_empty_parallel_loop : forall t1 t2, fpres R (generate_empty_parallel_loop t1 t2).
  Proof. intros. unfold generate_empty_parallel_loop. fpres_tacN FR FN. Qed.
  Hint Resolve fpres_generate_service fpres_generate_empty_parallel_loop : pres.

  (* ---- the generator ---- *)
  Variable tasks : list task.

  Lemma fpres_gen_go : forall gs n ctx tn pre first last il,
      (forall ctx tn path s t1 t2 il, fpres R (gs ctx tn path s t1 t2 il)) ->
      forall l i prev acc, fpres R (gen_go gs n ctx tn pre first last il i l prev acc).
  Proof.
    intros gs n ctx tn pre first last il Hgs. induction l as [|s r IH]; intros i prev acc.
    - cbn [gen_go]. fpres_tacN FR FN.
    - cbn [gen_go]. fold (gen_go gs n ctx tn pre first last il). fpres_tacN FR FN.
  Qed.

  Lemma fpres_gen_calls : forall gtc ctx tn path t1 sync il,
      (forall c at_ ctx t1 t2 il, fpres R (gtc c at_ ctx t1 t2 il)) ->
      forall l i, fpres R (gen_calls gtc ctx tn path t1 sync il i l).
  Proof.
    intros gtc ctx tn path t1 sync il Hg. induction l as [|c r IH]; intro i.
    - cbn [gen_calls]. fpres_tacN FR FN.
    - cbn [gen_calls]. fold (gen_calls gtc ctx tn path t1 sync il). fpres_tacN FR FN.
  Qed.
  Hint Resolve fpres_gen_go fpres_gen_calls : pres.

  Lemma fpres_gstmt_body : forall gss gtc,
      (forall ctx tn pre ss first last il, fpres R (gss ctx tn pre ss first last il)) ->
      (forall c at_ ctx t1 t2 il, fpres R (gtc c at_ ctx t1 t2 il)) ->
      forall ctx tn path s t1 t2 il, fpres R (gstmt_body gss gtc ctx tn path s t1 t2 il).
  Proof.
    intros gss gtc H1 H2 ctx tn path s t1 t2 il. unfold gstmt_body. fpres_tacN FR FN.
  Qed.

  Lemma fpres_gtc_body : forall gss,
      (forall ctx tn pre ss first last il, fpres R (gss ctx tn pre ss first last il)) ->
      forall c at_ ctx t1 t2 il, fpres R (gtc_body tasks gss c at_ ctx t1 t2 il).
  Proof. intros gss H1 c at_ ctx t1 t2 il. unfold gtc_body. fpres_tacN FR FN. Qed.

  Theorem frame_generate : forall f,
      (forall ctx tn pre ss first last il, fpres R (generate_statements tasks f ctx tn pre ss first last il)) /\
      (forall ctx tn path s t1 t2 il, fpres R (generate_stmt tasks f ctx tn path s t1 t2 il)) /\
      (forall c at_ ctx t1 t2 il, fpres R (generate_task_call tasks f c at_ ctx t1 t2 il)).
  Proof.
    induction f as [|f (IH1 & IH2 & IH3)].
    - split; [|split]; intros; intros ? ? ? HH; discriminate HH.
    - split; [|split]; intros.
      + eapply fpres_ext; [intro; apply generate_statements_S|]. apply fpres_gen_go. exact IH2.
      + eapply fpres_ext; [intro; apply generate_stmt_S|]. apply fpres_gstmt_body; assumption.
      + eapply fpres_ext; [intro; apply generate_task_call_S|]. apply fpres_gtc_body; assumption.
  Qed.

  (* ---- the scheduler block ---- *)
  Variable env : envcfg.

  Lemma fpres_parloop_generate : forall v lim ctx c csite ph t1 t2,
      fpres R (parloop_generate tasks env v lim ctx c csite ph t1 t2).
  Proof.
    intros. unfold parloop_generate.
    pose proof (proj2 (proj2 (frame_generate 200))) as Hg.
    fpres_tacN FR FN.
  Qed.
  Hint Resolve fpres_parloop_generate : pres.

  Lemma fpres_scan_with : forall rc snap, (forall c, fpres R (rc c)) ->
      forall g index, fpres R (scan_with rc snap g index).
  Proof.
    intros rc snap Hrc. induction g as [|g IH]; intro index.
    - cbn [scan_with]. fpres_tacN FR FN.
    - cbn [scan_with]. fold (scan_with rc snap). fpres_tacN FR FN.
  Qed.

  Lemma fpres_run_cb_body : forall ev_ ots otf oss osf sfe,
      fpres R ev_ -> (forall a, fpres R (ots a)) -> (forall a, fpres R (otf a)) ->
      (forall a, fpres R (oss a)) -> (forall a, fpres R (osf a)) -> (forall e, fpres R (sfe e)) ->
      forall c, fpres R (run_cb_body tasks env ev_ ots otf oss osf sfe c).
  Proof.
    intros ev_ ots otf oss osf sfe H1 H2 H3 H4 H5 H6 c.
    destruct (is_parloop_cb c) eqn:Hc; [|apply fpres_run_cb_body_plain; assumption].
    destruct c; try discriminate Hc. cbn [run_cb_body].
    apply fpres_ext with (m' := parloop_generate tasks env v lim ctx c csite ph t1 t2 ;;~ ev_);
      [intro; apply parloop_then_eq|]. fpres_tacN FR FN.
  Qed.

  Lemma fpres_lfe_body : forall ev_, fpres R ev_ -> forall ev, fpres R (lfe_body ev_ ev).
  Proof. intros ev_ H ev. unfold lfe_body. fpres_tacN FR FN. Qed.

  (* the frame rule: a relation respected by the primitive updates is respected by every
     function of the mutual block, at every fuel *)
  Theorem frame_block : forall f,
      fpres R (evaluate tasks env f) /\
      (forall c, fpres R (run_cb tasks env f c)) /\
      (forall a, fpres R (on_task_started tasks env f a)) /\
      (forall a, fpres R (on_service_started tasks env f a)) /\
      (forall a, fpres R (on_service_finished tasks env f a)) /\
      (forall a, fpres R (on_task_finished tasks env f a)) /\
      (forall k a b, fpres R (notify_user tasks env f k a b)) /\
      (forall k a, fpres R (engine_reacts tasks env f k a)) /\
      (forall ev, fpres R (sched_fire_event tasks env f ev)) /\
      (forall ev, fpres R (logic_fire_event tasks env f ev)).
  Proof.
    induction f as [|f (I1 & I2 & I3 & I4 & I5 & I6 & I7 & I8 & I9 & I10)].
    - repeat (split; [intros; intros ? ? ? HH; discriminate HH|]). intros; intros ? ? ? HH; discriminate HH.
    - split; [|split; [|split; [|split; [|split; [|split; [|split; [|split; [|split]]]]]]]]; intros.
      + intros s a s' HH. rewrite evaluate_S in HH. eapply fpres_scan_with; eauto.
      + eapply fpres_ext; [intro; apply run_cb_S|]. apply fpres_run_cb_body; assumption.
      + eapply fpres_ext; [intro; apply on_task_started_S|]. apply fpres_ots_body; assumption.
      + eapply fpres_ext; [intro; apply on_service_started_S|]. apply fpres_oss_body; assumption.
      + eapply fpres_ext; [intro; apply on_service_finished_S|]. apply I7.
      + eapply fpres_ext; [intro; apply on_task_finished_S|]. apply fpres_otf_body; assumption.
      + eapply fpres_ext; [intro; apply notify_user_S|]. apply fpres_nu_body; assumption.
      + eapply fpres_ext; [intro; apply engine_reacts_S|]. apply fpres_er_body; assumption.
      + eapply fpres_ext; [intro; apply sched_fire_event_S'|]. apply fpres_sfe_body; assumption.
      + eapply fpres_ext; [intro; apply logic_fire_event_S|]. apply fpres_lfe_body; assumption.
  Qed.
End Frame.

Arguments frame_generate {R} FR FN tasks f.
Arguments frame_block {R} FR FN tasks env f.
Arguments fpres_parloop_generate {R} FR FN tasks env.
Arguments fpres_scan_with {R} FR FN.

(* ---- instance: the net only grows ---- *)

(* no transition, place, API object or callback table entry ever disappears; the callback
   table stays aligned with the transition list *)
Definition le_ns (s s' : NS) : Prop :=
  List.length (ns_trans s) <= List.length (ns_trans s') /\
  List.length (ns_places s) <= List.length (ns_places s') /\
  List.length (ns_apis s) <= List.length (ns_apis s') /\
  List.length (ns_cbs s) <= List.length (ns_cbs s') /\
  (List.length (ns_cbs s) = List.length (ns_trans s) ->
   List.length (ns_cbs s') = List.length (ns_trans s')).

Lemma le_ns_refl : forall s, le_ns s s.
Proof. intro s. unfold le_ns. repeat split; auto. Qed.

Lemma le_ns_trans : forall a b c, le_ns a b -> le_ns b c -> le_ns a c.
Proof. unfold le_ns. intros a b c H1 H2. intuition lia. Qed.

Lemma upd_length : forall A n (f : A -> A) l, List.length (upd n f l) = List.length l.
Proof. intros A n f l. revert n. induction l as [|x l IH]; intros [|n]; cbn; auto. Qed.

Lemma fold_upd_length : forall A (g : A -> A) ps l,
    List.length (fold_left (fun ps p => upd p g ps) l ps) = List.length ps.
Proof.
  intros A g ps l. revert ps. induction l as [|p l IH]; intro ps; cbn; auto.
  rewrite IH. apply upd_length.
Qed.

Ltac le_ns_solve :=
  unfold le_ns; cbn;
  rewrite ?fold_upd_length, ?upd_length, ?map_length, ?app_length; cbn; repeat split; lia.

Ltac prim_solve :=
  intros; try (match goal with |- fpres _ _ => intros ? ? ? HH; inversion HH; subst; clear HH end);
  le_ns_solve.

Theorem le_ns_frame : frame_ok le_ns.
Proof.
  constructor; constructor; first [exact le_ns_refl | exact le_ns_trans | solve [prim_solve]].
Qed.

Definition pres {A} (m : NM A) : Prop := fpres le_ns m.

Definition pres_generate tasks := frame_generate (fr_s le_ns_frame) (fr_n le_ns_frame) tasks.
Definition pres_block tasks env := frame_block (fr_s le_ns_frame) (fr_n le_ns_frame) tasks env.
Definition pres_parloop_generate tasks env := fpres_parloop_generate (fr_s le_ns_frame) (fr_n le_ns_frame) tasks env.
Definition pres_fire_trans := fr_fire_trans (fr_n le_ns_frame).

(* =========================================================================== *)
(* 3. the scan: a pass that ends normally leaves every scanned transition disabled *)
(* =========================================================================== *)

Definition disabled_below (n : nat) (s : NS) : Prop :=
  forall i t, i < n -> nth_error (ns_trans s) i = Some t -> enabled s t = false.

(* nothing is enabled: without a further event the net cannot move *)
Definition quiescent (s : NS) : Prop :=
  forall t, In t (ns_trans s) -> enabled s t = false.

Lemma disabled_below_all : forall s n,
    List.length (ns_trans s) <= n -> disabled_below n s -> quiescent s.
Proof.
  intros s n Hn H t Ht. apply In_nth_error in Ht. destruct Ht as [i Hi].
  apply (H i t); [|exact Hi].
  assert (i < List.length (ns_trans s)) by (apply nth_error_Some; congruence). lia.
Qed.

Lemma quiescent_disabled_below : forall s n, quiescent s -> disabled_below n s.
Proof. intros s n H i t _ Hi. apply H. eapply nth_error_In; eauto. Qed.

Lemma disabled_below_le : forall s n m, m <= n -> disabled_below n s -> disabled_below m s.
Proof. intros s n m Hle H i t Hi. apply H. lia. Qed.

Lemma find_pl_parloop : forall h i l temp r l',
    find_pl h i l temp = (r, l') ->
    (forall c, temp = Some c -> is_parloop_cb c = true) ->
    forall c, r = Some c -> is_parloop_cb c = true.
Proof.
  induction h as [|h IH]; intros i l temp r l' H Ht c Hc; cbn [find_pl] in H.
  - inversion H; subst. auto.
  - destruct (nth_error l i) as [c0|] eqn:E.
    + destruct (is_parloop_cb c0) eqn:Ep.
      * eapply IH; [exact H| |exact Hc]. intros c1 H1. inversion H1; subst. exact Ep.
      * eapply IH; [exact H|exact Ht|exact Hc].
    + inversion H; subst. auto.
Qed.

Section ScanCore.
  Variable rc : cb -> NM unit.
  Variable snap : nat.
  (* any preorder on states that the callbacks and the scan's own updates respect *)
  Variable Rel : NS -> NS -> Prop.
  Variable Rel_refl : forall s, Rel s s.
  Variable Rel_trans : forall a b c, Rel a b -> Rel b c -> Rel a c.
  Variable Rel_rc : forall c s u s', rc c s = Ok (u, s') -> Rel s s'.
  Variable Rel_cbs : forall s index f, Rel s (s <| ns_cbs := upd index f (ns_cbs s) |>).
  Variable Rel_fire : forall t s u s', fire_trans t s = Ok (u, s') -> Rel s s'.

  Lemma each_with_rel : forall index h i s u s',
      each_with rc index h i s = Ok (u, s') -> Rel s s'.
  Proof.
    intros index. induction h as [|h IH]; intros i s u s' H; cbn [each_with] in H.
    - discriminate H.
    - fold (each_with rc index) in H. unfold nbind at 1, nget in H.
      destruct (nth_error (nth index (ns_cbs s) []) i) as [c|].
      + apply nbind_inv in H. destruct H as (u1 & s1 & H1 & H2).
        eapply Rel_trans; [eapply Rel_rc; eauto|eapply IH; eauto].
      + inversion H; subst. apply Rel_refl.
  Qed.

  Lemma nfor_pop_rel : forall index l s u s',
      nfor l (fun c => rc c ;;~ pop_cb index) s = Ok (u, s') -> Rel s s'.
  Proof.
    intros index. induction l as [|c l IH]; intros s u s' H; cbn [nfor] in H.
    - inversion H; subst. apply Rel_refl.
    - apply nbind_inv in H. destruct H as (u1 & s1 & H1 & H2).
      apply nbind_inv in H1. destruct H1 as (u2 & s2 & H3 & H4).
      inversion H4; subst.
      eapply Rel_trans; [eapply Rel_rc; eauto|].
      eapply Rel_trans; [apply Rel_cbs|]. eapply IH; eauto.
  Qed.

  (* how a scan can end: normally (everything below the snapshot is disabled in the final
     state), or in the parallel-loop exit (the final state is the final state of the
     parallel-loop callback, run from a state reachable from the scan's start) *)
  Definition parloop_exit (s s' : NS) : Prop :=
    exists pl s1 u, is_parloop_cb pl = true /\ Rel s s1 /\ rc pl s1 = Ok (u, s').

  Theorem scan_with_exits : forall g index s u s',
      scan_with rc snap g index s = Ok (u, s') ->
      disabled_below index s ->
      disabled_below snap s' \/ parloop_exit s s'.
  Proof.
    induction g as [|g IH]; intros index s u s' H Hdis; cbn [scan_with] in H.
    - discriminate H.
    - fold (scan_with rc snap) in H.
      destruct (Nat.leb snap index) eqn:Hle.
      + (* the pass is complete *)
        inversion H; subst. left. apply Nat.leb_le in Hle.
        eapply disabled_below_le; eauto.
      + unfold nbind at 1, nget in H.
        destruct (nth_error (ns_trans s) index) as [t|] eqn:Hnth.
        * destruct (enabled s t) eqn:Hen.
          -- cbv zeta in H.
             destruct (find_pl (S (List.length (nth index (ns_cbs s) []))) 0
                               (nth index (ns_cbs s) []) None) as [temp cbs1] eqn:Hfind.
             destruct temp as [pl|].
             ++ (* parallel-loop exit *)
                right.
                apply nbind_inv in H. destruct H as (u1 & s1 & H1 & H).
                apply nbind_inv in H. destruct H as (u2 & s2 & H2 & H).
                exists pl, s2, u. split; [|split].
                ** eapply find_pl_parloop; [exact Hfind| |reflexivity]. intros c Hc; discriminate Hc.
                ** inversion H1; subst. eapply Rel_trans; [apply Rel_cbs|].
                   eapply nfor_pop_rel; eauto.
                ** exact H.
             ++ (* fire, run the callbacks, restart the scan *)
                apply nbind_inv in H. destruct H as (u1 & s1 & H1 & H).
                apply nbind_inv in H. destruct H as (u2 & s2 & H2 & H).
                assert (R02 : Rel s s2).
                { eapply Rel_trans; [eapply Rel_fire; eauto|eapply each_with_rel; eauto]. }
                destruct (IH 0 s2 u s' H) as [Hn|(pl & s3 & u3 & Hp & Hr & He)].
                ** intros i t' Hi; inversion Hi.
                ** left; exact Hn.
                ** right. exists pl, s3, u3. split; [exact Hp|split; [|exact He]].
                   eapply Rel_trans; eauto.
          -- (* not enabled: next index, same state *)
             apply (IH (S index) s u s' H).
             intros i t' Hi Hi'.
             destruct (Nat.eq_dec i index) as [->|Hne].
             ++ rewrite Hnth in Hi'. inversion Hi'; subst. exact Hen.
             ++ apply (Hdis i t'); [lia|exact Hi'].
        * (* the current transition list is shorter than the snapshot *)
          inversion H; subst. left. intros i t' Hi Hi'.
          apply (Hdis i t'); [|exact Hi'].
          apply nth_error_None in Hnth.
          assert (i < List.length (ns_trans s')) by (apply nth_error_Some; congruence). lia.
  Qed.

  (* statement 1: started at index 0 *)
  Corollary scan_quiescent : forall g s u s',
      scan_with rc snap g 0 s = Ok (u, s') ->
      disabled_below snap s' \/ parloop_exit s s'.
  Proof.
    intros g s u s' H. eapply scan_with_exits; [exact H|]. intros i t Hi; inversion Hi.
  Qed.
End ScanCore.

(* statement 1 for an ARBITRARY callback runner: nothing about the rest of the block is used *)
Theorem scan_with_quiescent : forall rc snap g s u s',
    scan_with rc snap g 0 s = Ok (u, s') ->
    disabled_below snap s' \/
    exists pl s1 u1, is_parloop_cb pl = true /\ rc pl s1 = Ok (u1, s').
Proof.
  intros rc snap g s u s' H.
  destruct (scan_quiescent rc snap (fun _ _ => True)) with (g := g) (s := s) (u := u) (s' := s')
    as [Hn|(pl & s1 & u1 & Hp & _ & He)]; auto.
  right. exists pl, s1, u1. auto.
Qed.

(* a scan that meets no parallel-loop callback can only end normally *)
Corollary scan_with_quiescent_no_parloop : forall rc snap g s u s',
    (forall pl s1 u1 s2, is_parloop_cb pl = true -> rc pl s1 <> Ok (u1, s2)) ->
    scan_with rc snap g 0 s = Ok (u, s') ->
    disabled_below snap s'.
Proof.
  intros rc snap g s u s' Hno H.
  destruct (scan_with_quiescent _ _ _ _ _ _ H) as [Hn|(pl & s1 & u1 & Hp & He)]; [exact Hn|].
  exfalso. eapply Hno; eauto.
Qed.

(* =========================================================================== *)
(* 4. evaluate_petri_net runs to quiescence                                      *)
(* =========================================================================== *)
Section Quiescence.
  Variable tasks : list task.
  Variable env : envcfg.

  Lemma le_ns_fire : forall t s u s', fire_trans t s = Ok (u, s') -> le_ns s s'.
  Proof. intros t s u s' H. eapply pres_fire_trans; eauto. Qed.
  Lemma le_ns_cbs : forall s index f, le_ns s (s <| ns_cbs := upd index f (ns_cbs s) |>).
  Proof. intros. le_ns_solve. Qed.

  Lemma pres_run_cb : forall f c s u s', run_cb tasks env f c s = Ok (u, s') -> le_ns s s'.
  Proof. intros f c s u s' H. eapply (proj1 (proj2 (pres_block tasks env f))); eauto. Qed.

  Lemma pres_evaluate : forall f s u s', evaluate tasks env f s = Ok (u, s') -> le_ns s s'.
  Proof. intros f s u s' H. eapply (proj1 (pres_block tasks env f)); eauto. Qed.

  (* the two ways [evaluate] returns, one level *)
  Lemma evaluate_exits : forall f s u s',
      evaluate tasks env (S f) s = Ok (u, s') ->
      disabled_below (List.length (ns_trans s)) s' \/
      exists f' v lim ctx c csite ph t1 t2 s1 u1 s2,
        f = S f' /\ le_ns s s1 /\
        parloop_generate tasks env v lim ctx c csite ph t1 t2 s1 = Ok (u1, s2) /\
        evaluate tasks env f' s2 = Ok (u, s').
  Proof.
    intros f s u s' H. rewrite evaluate_S in H.
    destruct (scan_quiescent (run_cb tasks env f) (List.length (ns_trans s)) le_ns
                             le_ns_refl le_ns_trans (pres_run_cb f) le_ns_cbs le_ns_fire _ _ _ _ H)
      as [Hn|(pl & s1 & u1 & Hp & Hr & He)]; [left; exact Hn|right].
    destruct pl; try discriminate Hp.
    destruct f as [|f']; [discriminate He|].
    rewrite run_cb_S in He. cbn [run_cb_body] in He. rewrite parloop_then_eq in He.
    apply nbind_inv in He. destruct He as (u2 & s2 & H1 & H2).
    destruct u, u1.
    exists f', v, lim, ctx, c, csite, ph, t1, t2, s1, u2, s2. auto.
  Qed.

  (* statement 2: when evaluate_petri_net returns, there is a number n, at least the number
     of transitions that existed when it was called, such that no transition with index
     below n is enabled.  (n is the snapshot of the innermost evaluation, the one that made
     the last complete pass.) *)
  Theorem evaluate_quiescent : forall f s u s',
      evaluate tasks env f s = Ok (u, s') ->
      exists n, List.length (ns_trans s) <= n /\ n <= List.length (ns_trans s') /\
                disabled_below n s'.
  Proof.
    induction f as [f IH] using lt_wf_ind. intros s u s' H.
    destruct f as [|f]; [discriminate H|].
    destruct (evaluate_exits _ _ _ _ H)
      as [Hn|(f' & v & lim & ctx & c & csite & ph & t1 & t2 & s1 & u1 & s2 & -> & L1 & Hg & He)].
    - exists (List.length (ns_trans s)). split; [lia|split; [|exact Hn]].
      apply (pres_evaluate _ _ _ _ H).
    - destruct (IH f' ltac:(lia) _ _ _ He) as (n & N1 & N2 & N3).
      exists n. split; [|split; assumption].
      pose proof (pres_parloop_generate tasks env v lim ctx c csite ph t1 t2 _ _ _ Hg) as L2.
      destruct L1 as (L1 & _). destruct L2 as (L2 & _). lia.
  Qed.

  (* statement 3: if no transition was created during the evaluation, nothing is enabled *)
  Theorem evaluate_quiescent_static : forall f s u s',
      evaluate tasks env f s = Ok (u, s') ->
      List.length (ns_trans s') = List.length (ns_trans s) ->
      quiescent s'.
  Proof.
    intros f s u s' H Hlen. destruct (evaluate_quiescent _ _ _ _ H) as (n & N1 & N2 & N3).
    eapply disabled_below_all; [|exact N3]. lia.
  Qed.

  (* every transition that existed when evaluate was called is disabled when it returns *)
  Corollary evaluate_old_transitions_disabled : forall f s u s',
      evaluate tasks env f s = Ok (u, s') ->
      disabled_below (List.length (ns_trans s)) s'.
  Proof.
    intros f s u s' H. destruct (evaluate_quiescent _ _ _ _ H) as (n & N1 & N2 & N3).
    eapply disabled_below_le; eauto.
  Qed.

  (* ---- PetriNetLogic.fire_event / Scheduler.fire_event ---- *)

  (* the net proper: marking, transitions with their arcs, callback table *)
  Definition same_net (s s' : NS) : Prop :=
    ns_places s' = ns_places s /\ ns_trans s' = ns_trans s /\ ns_cbs s' = ns_cbs s.

  Lemma enabled_places : forall s s' t, ns_places s' = ns_places s -> enabled s' t = enabled s t.
  Proof. intros s s' t E. unfold enabled, tokens. rewrite E. reflexivity. Qed.

  Lemma same_net_quiescent : forall s s', same_net s s' -> quiescent s -> quiescent s'.
  Proof.
    intros s s' (E1 & E2 & _) Hq t Ht. rewrite (enabled_places _ _ _ E1). apply Hq.
    rewrite <- E2. exact Ht.
  Qed.

  Lemma same_net_disabled_below : forall n s s', same_net s s' -> disabled_below n s -> disabled_below n s'.
  Proof.
    intros n s s' (E1 & E2 & _) Hq i t Hi Ht. rewrite (enabled_places _ _ _ E1). apply (Hq i); [exact Hi|].
    rewrite <- E2. exact Ht.
  Qed.

  Definition ran_to_quiescence (s s' : NS) : Prop :=
    exists n, List.length (ns_trans s) <= n /\ n <= List.length (ns_trans s') /\ disabled_below n s'.

  Lemma ran_to_quiescence_static : forall s s',
      ran_to_quiescence s s' -> List.length (ns_trans s') = List.length (ns_trans s) -> quiescent s'.
  Proof. intros s s' (n & N1 & N2 & N3) E. eapply disabled_below_all; [|exact N3]. lia. Qed.

  (* PetriNetLogic.fire_event returns True only after a complete evaluation, and False only
     without having touched anything *)
  Theorem logic_fire_event_true : forall f ev s s',
      logic_fire_event tasks env f ev s = Ok (true, s') -> ran_to_quiescence s s'.
  Proof.
    intros f ev s s' H. destruct f as [|f]; [discriminate H|].
    rewrite logic_fire_event_S in H. unfold lfe_body in H. unfold nbind at 1, nget in H.
    destruct (event_place s ev) as [[p|]| | |]; try discriminate H.
    - destruct (has_place s p); [|discriminate H].
      apply nbind_inv in H. destruct H as (u1 & s1 & H1 & H).
      apply nbind_inv in H. destruct H as (u2 & s2 & H2 & H).
      inversion H; subst. inversion H1; subst.
      destruct (evaluate_quiescent _ _ _ _ H2) as (n & N1 & N2 & N3).
      exists n. split; [|split; assumption].
      exact N1.
  Qed.

  Theorem logic_fire_event_false : forall f ev s s',
      logic_fire_event tasks env f ev s = Ok (false, s') -> s' = s.
  Proof.
    intros f ev s s' H. destruct f as [|f]; [discriminate H|].
    rewrite logic_fire_event_S in H. unfold lfe_body in H. unfold nbind at 1, nget in H.
    destruct (event_place s ev) as [[p|]| | |]; try discriminate H.
    - destruct (has_place s p).
      + apply nbind_inv in H. destruct H as (u1 & s1 & H1 & H).
        apply nbind_inv in H. destruct H as (u2 & s2 & H2 & H). discriminate H.
      + inversion H; reflexivity.
    - inversion H; reflexivity.
  Qed.

  (* Scheduler.fire_event: an accepted event (True) means the net ran to quiescence; False
     means the net is exactly as before (only the awaited list may have been permuted) *)
  Theorem sched_fire_event_true : forall f ev s s',
      sched_fire_event tasks env f ev s = Ok (true, s') -> ran_to_quiescence s s'.
  Proof.
    intros f ev s s' H. destruct f as [|f]; [discriminate H|].
    rewrite sched_fire_event_S in H.
    destruct (existsb (event_eqb ev) (ns_awaited s)); [|discriminate H].
    destruct (remove_first (event_eqb ev) (ns_awaited s)) as [l|]; [|discriminate H].
    destruct (logic_fire_event tasks env f ev (s <| ns_awaited := l |>)) as [[[|] s1]| | |] eqn:E;
      try discriminate H.
    inversion H; subst. apply logic_fire_event_true in E. exact E.
  Qed.

  Theorem sched_fire_event_false : forall f ev s s',
      sched_fire_event tasks env f ev s = Ok (false, s') ->
      exists l, s' = s <| ns_awaited := l |>.
  Proof.
    intros f ev s s' H. destruct f as [|f]; [discriminate H|].
    rewrite sched_fire_event_S in H.
    destruct (existsb (event_eqb ev) (ns_awaited s)).
    - destruct (remove_first (event_eqb ev) (ns_awaited s)) as [l|]; [|discriminate H].
      destruct (logic_fire_event tasks env f ev (s <| ns_awaited := l |>)) as [[[|] s1]| | |] eqn:E;
        try discriminate H.
      inversion H; subst. apply logic_fire_event_false in E. subst s1.
      eexists. destruct s; reflexivity.
    - inversion H; subst. exists (ns_awaited s'). destruct s'; reflexivity.
  Qed.

  Corollary sched_fire_event_false_same_net : forall f ev s s',
      sched_fire_event tasks env f ev s = Ok (false, s') -> same_net s s'.
  Proof.
    intros f ev s s' H. destruct (sched_fire_event_false _ _ _ _ H) as (l & ->). repeat split.
  Qed.

  Lemma pres_sched_fire_event : forall f ev s b s',
      sched_fire_event tasks env f ev s = Ok (b, s') -> le_ns s s'.
  Proof.
    intros f ev s b s' H.
    eapply (proj1 (proj2 (proj2 (proj2 (proj2 (proj2 (proj2 (proj2 (proj2 (pres_block tasks env f))))))))));
      eauto.
  Qed.

  (* ---- the public API ---- *)

  Lemma ran_to_quiescence_cleared : forall s s',
      ran_to_quiescence (s <| ns_log := [] |>) s' -> ran_to_quiescence s s'.
  Proof. intros s s' H. exact H. Qed.

  (* whatever the call: either the net ran to quiescence or the net is untouched *)
  Theorem api_call_quiescent_or_same : forall f s c b s',
      net_api_call tasks env f s c = Ok (b, s') ->
      ran_to_quiescence s s' \/ same_net s s'.
  Proof.
    intros f s c b s' H. unfold net_api_call in H. cbv zeta in H.
    destruct c as [|id| |k l|o|o].
    - change (ns_awaited (s <| ns_log := [] |>)) with (ns_awaited s) in H.
      destruct (existsb (event_eqb EvStart) (ns_awaited s)).
      + destruct (sched_fire_event tasks env f EvStart (s <| ns_log := [] |> <| ns_running := true |>))
          as [[[|] s1]| | |] eqn:E; try discriminate H; inversion H; subst.
        * left. apply sched_fire_event_true in E. exact E.
        * right. apply sched_fire_event_false_same_net in E. exact E.
      + inversion H; subst. right. repeat split.
    - destruct b.
      + left. apply sched_fire_event_true in H. exact H.
      + right. apply sched_fire_event_false_same_net in H. exact H.
    - destruct b.
      + left. apply sched_fire_event_true in H. exact H.
      + right. apply sched_fire_event_false_same_net in H. exact H.
    - right. change (ns_ls (s <| ns_log := [] |>)) with (ns_ls s) in H.
      destruct (existsb _ (ns_ls s)); inversion H; subst; repeat split.
    - right. inversion H; subst. repeat split.
    - right. change (ns_obs (s <| ns_log := [] |>)) with (ns_obs s) in H.
      destruct (remove_first (Nat.eqb o) (ns_obs s)); inversion H; subst. repeat split.
  Qed.

  (* an accepted completion (fire_event returned True): the net ran to quiescence *)
  Theorem api_finish_accepted : forall f s id s',
      net_api_call tasks env f s (AFinish id) = Ok (true, s') -> ran_to_quiescence s s'.
  Proof. intros f s id s' H. unfold net_api_call in H. apply sched_fire_event_true in H. exact H. Qed.

  Theorem api_finish_accepted_static : forall f s id s',
      net_api_call tasks env f s (AFinish id) = Ok (true, s') ->
      List.length (ns_trans s') = List.length (ns_trans s) ->
      quiescent s'.
  Proof. intros f s id s' H E. eapply ran_to_quiescence_static; [eapply api_finish_accepted; eauto|exact E]. Qed.

  (* start(): when the start event is awaited and the start place exists, the net ran to
     quiescence when start() returns *)
  Theorem api_start_accepted : forall f s b s',
      existsb (event_eqb EvStart) (ns_awaited s) = true ->
      has_place s (ns_start_place s) = true ->
      net_api_call tasks env f s AStart = Ok (b, s') ->
      b = true /\ ran_to_quiescence s s'.
  Proof.
    intros f s b s' Haw Hp H. unfold net_api_call in H. cbv zeta in H.
    change (ns_awaited (s <| ns_log := [] |>)) with (ns_awaited s) in H. rewrite Haw in H.
    destruct (sched_fire_event tasks env f EvStart (s <| ns_log := [] |> <| ns_running := true |>))
      as [[r s1]| | |] eqn:E; try discriminate H. inversion H; subst. split; [reflexivity|].
    destruct r; [apply sched_fire_event_true in E; exact E|].
    exfalso. destruct f as [|f]; [discriminate E|].
    rewrite sched_fire_event_S in E.
    change (ns_awaited (s <| ns_log := [] |> <| ns_running := true |>)) with (ns_awaited s) in E.
    rewrite Haw in E.
    destruct (remove_first (event_eqb EvStart) (ns_awaited s)) as [l|]; [|discriminate E].
    destruct f as [|f]; [discriminate E|].
    rewrite logic_fire_event_S in E. unfold lfe_body in E. unfold nbind at 1, nget in E.
    cbn [event_place] in E.
    change (ns_start_place (s <| ns_log := [] |> <| ns_running := true |> <| ns_awaited := l |>))
      with (ns_start_place s) in E.
    change (has_place (s <| ns_log := [] |> <| ns_running := true |> <| ns_awaited := l |>) (ns_start_place s))
      with (has_place s (ns_start_place s)) in E.
    rewrite Hp in E.
    match type of E with
    | match ?m with _ => _ end = _ => destruct m as [[[|] s2]| | |] eqn:E2; try discriminate E
    end.
    apply nbind_inv in E2. destruct E2 as (u1 & s3 & _ & E2).
    apply nbind_inv in E2. destruct E2 as (u2 & s4 & _ & E2). discriminate E2.
  Qed.

  Theorem api_start_accepted_static : forall f s b s',
      existsb (event_eqb EvStart) (ns_awaited s) = true ->
      has_place s (ns_start_place s) = true ->
      net_api_call tasks env f s AStart = Ok (b, s') ->
      List.length (ns_trans s') = List.length (ns_trans s) ->
      quiescent s'.
  Proof.
    intros f s b s' H1 H2 H E. eapply ran_to_quiescence_static; [|exact E].
    eapply api_start_accepted; eauto.
  Qed.

  (* a rejected call (return value False) leaves the net untouched, so nothing becomes
     enabled by it *)
  Theorem api_rejected_same_net : forall f s c s',
      net_api_call tasks env f s c = Ok (false, s') -> same_net s s'.
  Proof.
    intros f s c s' H. unfold net_api_call in H. cbv zeta in H.
    destruct c as [|id| |k l|o|o].
    - change (ns_awaited (s <| ns_log := [] |>)) with (ns_awaited s) in H.
      destruct (existsb (event_eqb EvStart) (ns_awaited s)).
      + destruct (sched_fire_event tasks env f EvStart (s <| ns_log := [] |> <| ns_running := true |>))
          as [[r s1]| | |]; discriminate H.
      + discriminate H.
    - apply sched_fire_event_false_same_net in H. exact H.
    - apply sched_fire_event_false_same_net in H. exact H.
    - change (ns_ls (s <| ns_log := [] |>)) with (ns_ls s) in H.
      destruct (existsb _ (ns_ls s)); inversion H; subst; repeat split.
    - discriminate H.
    - change (ns_obs (s <| ns_log := [] |>)) with (ns_obs s) in H.
      destruct (remove_first (Nat.eqb o) (ns_obs s)); discriminate H.
  Qed.

  Theorem api_rejected_quiescent : forall f s c s',
      net_api_call tasks env f s c = Ok (false, s') -> quiescent s -> quiescent s'.
  Proof. intros f s c s' H. apply same_net_quiescent. eapply api_rejected_same_net; eauto. Qed.

  (* no API call on a net that does not grow leaves an enabled transition behind: whenever
     control is back at the caller, nothing is left to do without a further event *)
  Theorem api_call_keeps_quiescent : forall f s c b s',
      net_api_call tasks env f s c = Ok (b, s') ->
      List.length (ns_trans s') = List.length (ns_trans s) ->
      quiescent s -> quiescent s'.
  Proof.
    intros f s c b s' H E Hq. destruct (api_call_quiescent_or_same _ _ _ _ _ H) as [Hr|Hs].
    - eapply ran_to_quiescence_static; eauto.
    - eapply same_net_quiescent; eauto.
  Qed.

  (* with run-time generation: every transition that existed before the call is disabled
     after it (given none was enabled before) *)
  Theorem api_call_old_transitions_disabled : forall f s c b s',
      net_api_call tasks env f s c = Ok (b, s') ->
      quiescent s ->
      disabled_below (List.length (ns_trans s)) s'.
  Proof.
    intros f s c b s' H Hq. destruct (api_call_quiescent_or_same _ _ _ _ _ H) as [(n & N1 & N2 & N3)|Hs].
    - eapply disabled_below_le; eauto.
    - eapply same_net_disabled_below; [exact Hs|]. apply quiescent_disabled_below. exact Hq.
  Qed.

  Theorem api_call_le_ns : forall f s c b s',
      net_api_call tasks env f s c = Ok (b, s') -> le_ns s s'.
  Proof.
    intros f s c b s' H. unfold net_api_call in H. cbv zeta in H.
    destruct c as [|id| |k l|o|o].
    - change (ns_awaited (s <| ns_log := [] |>)) with (ns_awaited s) in H.
      destruct (existsb (event_eqb EvStart) (ns_awaited s)).
      + destruct (sched_fire_event tasks env f EvStart (s <| ns_log := [] |> <| ns_running := true |>))
          as [[r s1]| | |] eqn:E; try discriminate H. inversion H; subst.
        apply pres_sched_fire_event in E. exact E.
      + inversion H; subst. le_ns_solve.
    - apply pres_sched_fire_event in H. exact H.
    - apply pres_sched_fire_event in H. exact H.
    - change (ns_ls (s <| ns_log := [] |>)) with (ns_ls s) in H.
      destruct (existsb _ (ns_ls s)); inversion H; subst; le_ns_solve.
    - inversion H; subst. le_ns_solve.
    - change (ns_obs (s <| ns_log := [] |>)) with (ns_obs s) in H.
      destruct (remove_first (Nat.eqb o) (ns_obs s)); inversion H; subst. le_ns_solve.
  Qed.

  (* ---- any sequence of API calls ---- *)
  Inductive api_reach (f : nat) : NS -> NS -> Prop :=
  | reach_refl : forall s, api_reach f s s
  | reach_step : forall s s1 c b s2,
      api_reach f s s1 -> net_api_call tasks env f s1 c = Ok (b, s2) -> api_reach f s s2.

  Lemma api_reach_le_ns : forall f s s', api_reach f s s' -> le_ns s s'.
  Proof.
    intros f s s' H. induction H as [s|s s1 c b s2 _ IH H].
    - apply le_ns_refl.
    - eapply le_ns_trans; [exact IH|]. eapply api_call_le_ns; eauto.
  Qed.

  (* static nets (no parallel loop instantiated): quiescence is an invariant of the states in
     which control is with the caller *)
  Theorem api_reach_quiescent : forall f s s',
      api_reach f s s' ->
      List.length (ns_trans s') = List.length (ns_trans s) ->
      quiescent s -> quiescent s'.
  Proof.
    intros f s s' H. induction H as [s|s s1 c b s2 H1 IH H]; intros E Hq; [exact Hq|].
    pose proof (api_reach_le_ns _ _ _ H1) as (L1 & _).
    pose proof (api_call_le_ns _ _ _ _ _ H) as (L2 & _).
    eapply api_call_keeps_quiescent; [exact H|lia|]. apply IH; [lia|exact Hq].
  Qed.

End Quiescence.

(* =========================================================================== *)
(* 5. further instances of the frame rule                                        *)
(* =========================================================================== *)

(* (a) what the mechanism never writes: the start and final place, the identifier mode, the
   registered functions, the observers *)
Definition fixed_fields (s s' : NS) : Prop :=
  ns_start_place s' = ns_start_place s /\ ns_final_place s' = ns_final_place s /\
  ns_test_ids s' = ns_test_ids s /\ ns_ls s' = ns_ls s /\ ns_obs s' = ns_obs s.

Theorem fixed_fields_frame : frame_ok fixed_fields.
Proof.
  constructor; constructor;
    try (intros; try (match goal with |- fpres _ _ => intros ? ? ? HH; inversion HH; subst; clear HH end);
         unfold fixed_fields; cbn; repeat split; reflexivity).
  unfold fixed_fields. intros a b c H1 H2. intuition congruence.
Qed.

(* (b) counters only increase, the log is only extended at its head *)
Definition counters_grow (s s' : NS) : Prop :=
  ns_fresh s <= ns_fresh s' /\ ns_tid s <= ns_tid s' /\ ns_sid s <= ns_sid s' /\
  ns_nss s <= ns_nss s' /\ ns_nnot s <= ns_nnot s' /\
  exists es, ns_log s' = es ++ ns_log s.

Theorem counters_grow_frame : frame_ok counters_grow.
Proof.
  constructor; constructor;
    try (intros; try (match goal with |- fpres _ _ => intros ? ? ? HH; inversion HH; subst; clear HH end);
         unfold counters_grow; cbn; repeat split; try lia; first [exists []; reflexivity | eexists; reflexivity]).
  unfold counters_grow. intros a b c (A1 & A2 & A3 & A4 & A5 & ea & A6) (B1 & B2 & B3 & B4 & B5 & eb & B6).
  repeat split; try lia. exists (eb ++ ea). rewrite B6, A6, app_assoc. reflexivity.
Qed.

(* (c) a removed place stays removed, an existing place keeps its identifier; places are only
   ever added at the end *)
Definition places_stable (s s' : NS) : Prop :=
  forall p, (nth_error (ns_places s) p = Some None -> nth_error (ns_places s') p = Some None) /\
            (p < List.length (ns_places s) -> has_place s' p = true -> has_place s p = true).

Lemma nth_error_upd : forall A n (f : A -> A) l m,
    nth_error (upd n f l) m = if Nat.eqb n m then option_map f (nth_error l m) else nth_error l m.
Proof.
  intros A n f l. revert n. induction l as [|x l IH]; intros n m.
  - destruct n, m; cbn; try reflexivity; destruct (Nat.eqb n m); reflexivity.
  - destruct n as [|n], m as [|m]; cbn; try reflexivity. apply IH.
Qed.

Definition places_rel (ps ps' : list (option nat)) : Prop :=
  forall p, (nth_error ps p = Some None -> nth_error ps' p = Some None) /\
            (p < List.length ps ->
             (exists k, nth_error ps' p = Some (Some k)) -> exists k, nth_error ps p = Some (Some k)).

Lemma places_rel_refl : forall ps, places_rel ps ps.
Proof. intros ps p. split; auto. Qed.

Lemma places_rel_trans : forall a b c,
    List.length a <= List.length b -> places_rel a b -> places_rel b c -> places_rel a c.
Proof.
  intros a b c L H1 H2 p. destruct (H1 p) as (A1 & A2). destruct (H2 p) as (B1 & B2).
  split; [auto|]. intros Hp Hc. apply A2; [exact Hp|]. apply B2; [lia|exact Hc].
Qed.

Lemma places_rel_upd_map : forall ps q (g : nat -> nat), places_rel ps (upd q (option_map g) ps).
Proof.
  intros ps q g p. rewrite nth_error_upd. destruct (Nat.eqb q p).
  - split.
    + intro H. rewrite H. reflexivity.
    + intros _ (k & Hk). destruct (nth_error ps p) as [[k0|]|]; cbn in Hk; try discriminate Hk. eauto.
  - split; auto.
Qed.

Lemma places_rel_upd_none : forall ps q, places_rel ps (upd q (fun _ => None) ps).
Proof.
  intros ps q p. rewrite nth_error_upd. destruct (Nat.eqb q p).
  - split.
    + intro H. rewrite H. reflexivity.
    + intros _ (k & Hk). destruct (nth_error ps p) as [[k0|]|]; cbn in Hk; discriminate Hk.
  - split; auto.
Qed.

Lemma places_rel_app : forall ps x, places_rel ps (ps ++ [x]).
Proof.
  intros ps x p. split.
  - intro H. rewrite nth_error_app1; [exact H|]. apply nth_error_Some. congruence.
  - intros Hp (k & Hk). rewrite nth_error_app1 in Hk by exact Hp. eauto.
Qed.

Lemma places_rel_fold : forall (g : nat -> nat) l ps,
    places_rel ps (fold_left (fun ps p => upd p (option_map g) ps) l ps).
Proof.
  intros g. induction l as [|q l IH]; intro ps; cbn [fold_left].
  - apply places_rel_refl.
  - eapply places_rel_trans; [|apply places_rel_upd_map|apply IH]. rewrite upd_length. lia.
Qed.

Definition places_stable' (s s' : NS) : Prop :=
  List.length (ns_places s) <= List.length (ns_places s') /\ places_rel (ns_places s) (ns_places s').

Theorem places_stable_frame : frame_ok places_stable'.
Proof.
  constructor; constructor;
    try (intros; try (match goal with |- fpres _ _ => intros ? ? ? HH; inversion HH; subst; clear HH end);
         unfold places_stable'; cbn; split; [lia|apply places_rel_refl]).
  - intros a b c (L1 & H1) (L2 & H2). split; [lia|]. eapply places_rel_trans; eauto.
  - intros s a s' HH; inversion HH; subst; clear HH. unfold places_stable'; cbn. split.
    + rewrite app_length. lia.
    + apply places_rel_app.
  - intros p s a s' HH; inversion HH; subst; clear HH. unfold places_stable'; cbn. split.
    + rewrite upd_length. lia.
    + apply places_rel_upd_map.
  - intros t s a s' HH; inversion HH; subst; clear HH. unfold places_stable'; cbn. split.
    + rewrite !fold_upd_length. lia.
    + eapply places_rel_trans; [|apply places_rel_fold|apply places_rel_fold].
      rewrite fold_upd_length. lia.
  - intros p s a s' HH; inversion HH; subst; clear HH. unfold places_stable'; cbn. split.
    + rewrite upd_length. lia.
    + apply places_rel_upd_none.
Qed.

Lemma places_stable'_stable : forall s s', places_stable' s s' -> places_stable s s'.
Proof.
  intros s s' (L & H) p. destruct (H p) as (H1 & H2). split; [exact H1|].
  intros Hp Hh. unfold has_place in *.
  destruct (nth_error (ns_places s') p) as [[k|]|] eqn:E; try discriminate Hh.
  destruct (H2 Hp (ex_intro _ k eq_refl)) as (k0 & ->). reflexivity.
Qed.

Section FrameInstances.
  Variable tasks : list task.
  Variable env : envcfg.

  (* stated for the two entry points; [frame_block] gives the same for every function *)
  Theorem sched_fire_event_fixed_fields : forall f ev s b s',
      sched_fire_event tasks env f ev s = Ok (b, s') -> fixed_fields s s'.
  Proof.
    intros f ev s b s' H.
    eapply (proj1 (proj2 (proj2 (proj2 (proj2 (proj2 (proj2 (proj2 (proj2
             (frame_block (fr_s fixed_fields_frame) (fr_n fixed_fields_frame) tasks env f)))))))))); eauto.
  Qed.

  Theorem sched_fire_event_counters_grow : forall f ev s b s',
      sched_fire_event tasks env f ev s = Ok (b, s') -> counters_grow s s'.
  Proof.
    intros f ev s b s' H.
    eapply (proj1 (proj2 (proj2 (proj2 (proj2 (proj2 (proj2 (proj2 (proj2
             (frame_block (fr_s counters_grow_frame) (fr_n counters_grow_frame) tasks env f)))))))))); eauto.
  Qed.

  Theorem sched_fire_event_places_stable : forall f ev s b s',
      sched_fire_event tasks env f ev s = Ok (b, s') -> places_stable s s'.
  Proof.
    intros f ev s b s' H. apply places_stable'_stable.
    eapply (proj1 (proj2 (proj2 (proj2 (proj2 (proj2 (proj2 (proj2 (proj2
             (frame_block (fr_s places_stable_frame) (fr_n places_stable_frame) tasks env f)))))))))); eauto.
  Qed.

  Theorem evaluate_places_stable : forall f s u s',
      evaluate tasks env f s = Ok (u, s') -> places_stable s s'.
  Proof.
    intros f s u s' H. apply places_stable'_stable.
    eapply (proj1 (frame_block (fr_s places_stable_frame) (fr_n places_stable_frame) tasks env f)); eauto.
  Qed.
End FrameInstances.

(* =========================================================================== *)
(* 6. the strong form: when evaluate_petri_net returns, NO transition is enabled, *)
(*    also when the net grew during the call (run-time generation)                *)
(* =========================================================================== *)
(* Why transitions created during an evaluation (which its scan never looks at) cannot be left
   enabled: marking and structure of the net only change (1) by a firing inside a scan, (2) by
   PetriNetLogic.fire_event putting a token, (3) by the parallel-loop callback generating and
   removing places; (2) and (3) are immediately followed by a fresh evaluation, whose snapshot
   contains every transition existing at that moment.  So every callback either leaves marking
   and structure as they were or returns with nothing enabled at all, and a scan that has seen
   the net grow cannot fire again. *)

Definition unchanged_or_quiescent (s s' : NS) : Prop :=
  (ns_places s' = ns_places s /\ ns_trans s' = ns_trans s) \/ quiescent s'.

Lemma quiescent_same : forall s s',
    ns_places s' = ns_places s -> ns_trans s' = ns_trans s -> quiescent s -> quiescent s'.
Proof.
  intros s s' E1 E2 Hq t Ht. unfold enabled, tokens. rewrite E1. apply Hq. rewrite <- E2. exact Ht.
Qed.

Theorem unchanged_or_quiescent_sched : frame_sched unchanged_or_quiescent.
Proof.
  constructor;
    try (intros; try (match goal with |- fpres _ _ => intros ? ? ? HH; inversion HH; subst; clear HH end);
         left; split; reflexivity).
  intros a b c [(A1 & A2)|A] [(B1 & B2)|B].
  - left. split; congruence.
  - right; exact B.
  - right. eapply quiescent_same; eauto.
  - right; exact B.
Qed.

Section Strong.
  Variable tasks : list task.
  Variable env : envcfg.

  Lemma scan_with_all_quiescent : forall rc snap,
      (forall c, fpres unchanged_or_quiescent (rc c)) ->
      (forall pl s u s', is_parloop_cb pl = true -> rc pl s = Ok (u, s') -> quiescent s') ->
      forall g index s u s',
        scan_with rc snap g index s = Ok (u, s') ->
        disabled_below index s ->
        List.length (ns_trans s) = snap \/ quiescent s ->
        quiescent s'.
  Proof.
    intros rc snap Hrc Hpl.
    induction g as [|g IH]; intros index s u s' H Hdis Hinv; cbn [scan_with] in H.
    - discriminate H.
    - fold (scan_with rc snap) in H.
      destruct (Nat.leb snap index) eqn:Hle.
      + inversion H; subst. apply Nat.leb_le in Hle. destruct Hinv as [Hlen|Hq]; [|exact Hq].
        eapply disabled_below_all; [|exact Hdis]. lia.
      + unfold nbind at 1, nget in H.
        destruct (nth_error (ns_trans s) index) as [t|] eqn:Hnth.
        * destruct (enabled s t) eqn:Hen.
          -- assert (Hlen : List.length (ns_trans s) = snap).
             { destruct Hinv as [Hlen|Hq]; [exact Hlen|].
               rewrite (Hq t) in Hen; [discriminate Hen|]. eapply nth_error_In; eauto. }
             cbv zeta in H.
             destruct (find_pl (S (List.length (nth index (ns_cbs s) []))) 0
                               (nth index (ns_cbs s) []) None) as [temp cbs1] eqn:Hfind.
             destruct temp as [pl|].
             ++ apply nbind_inv in H. destruct H as (u1 & s1 & H1 & H).
                apply nbind_inv in H. destruct H as (u2 & s2 & H2 & H).
                eapply Hpl; [|exact H].
                eapply find_pl_parloop; [exact Hfind| |reflexivity]. intros c Hc; discriminate Hc.
             ++ apply nbind_inv in H. destruct H as (u1 & s1 & H1 & H).
                apply nbind_inv in H. destruct H as (u2 & s2 & H2 & H).
                apply (IH 0 s2 u s' H); [intros i t' Hi; inversion Hi|].
                pose proof (fpres_each_with unchanged_or_quiescent unchanged_or_quiescent_sched
                                            rc index Hrc _ _ _ _ _ H2) as [(E1 & E2)|Hq].
                ** left. rewrite E2. assert (Et : ns_trans s1 = ns_trans s) by (inversion H1; reflexivity).
                   rewrite Et. exact Hlen.
                ** right; exact Hq.
          -- apply (IH (S index) s u s' H); [|exact Hinv].
             intros i t' Hi Hi'.
             destruct (Nat.eq_dec i index) as [->|Hne].
             ++ rewrite Hnth in Hi'. inversion Hi'; subst. exact Hen.
             ++ apply (Hdis i t'); [lia|exact Hi'].
        * inversion H; subst. apply nth_error_None in Hnth.
          eapply disabled_below_all; [|exact Hdis]. exact Hnth.
  Qed.

  Lemma lfe_body_uq : forall ev_,
      (forall s u s', ev_ s = Ok (u, s') -> quiescent s') ->
      forall ev, fpres unchanged_or_quiescent (lfe_body ev_ ev).
  Proof.
    intros ev_ Hev ev s b s' H. unfold lfe_body in H. unfold nbind at 1, nget in H.
    destruct (event_place s ev) as [[p|]| | |]; try discriminate H.
    - destruct (has_place s p).
      + apply nbind_inv in H. destruct H as (u1 & s1 & H1 & H).
        apply nbind_inv in H. destruct H as (u2 & s2 & H2 & H).
        inversion H; subst. right. eapply Hev; eauto.
      + inversion H; subst. left; split; reflexivity.
    - inversion H; subst. left; split; reflexivity.
  Qed.

  Lemma run_cb_body_parloop_quiescent : forall ev_ ots otf oss osf sfe,
      (forall s u s', ev_ s = Ok (u, s') -> quiescent s') ->
      forall c s u s', is_parloop_cb c = true ->
                       run_cb_body tasks env ev_ ots otf oss osf sfe c s = Ok (u, s') ->
                       quiescent s'.
  Proof.
    intros ev_ ots otf oss osf sfe Hev c s u s' Hc H.
    destruct c; try discriminate Hc. cbn [run_cb_body] in H. rewrite parloop_then_eq in H.
    apply nbind_inv in H. destruct H as (u1 & s1 & H1 & H). eapply Hev; eauto.
  Qed.

  Theorem quiescent_block : forall f,
      (forall s u s', evaluate tasks env f s = Ok (u, s') -> quiescent s') /\
      (forall c, fpres unchanged_or_quiescent (run_cb tasks env f c)) /\
      (forall c s u s', is_parloop_cb c = true -> run_cb tasks env f c s = Ok (u, s') -> quiescent s') /\
      (forall a, fpres unchanged_or_quiescent (on_task_started tasks env f a)) /\
      (forall a, fpres unchanged_or_quiescent (on_service_started tasks env f a)) /\
      (forall a, fpres unchanged_or_quiescent (on_service_finished tasks env f a)) /\
      (forall a, fpres unchanged_or_quiescent (on_task_finished tasks env f a)) /\
      (forall k a b, fpres unchanged_or_quiescent (notify_user tasks env f k a b)) /\
      (forall k a, fpres unchanged_or_quiescent (engine_reacts tasks env f k a)) /\
      (forall ev, fpres unchanged_or_quiescent (sched_fire_event tasks env f ev)) /\
      (forall ev, fpres unchanged_or_quiescent (logic_fire_event tasks env f ev)).
  Proof.
    pose proof unchanged_or_quiescent_sched as FS.
    induction f as [|f (I1 & I2 & I2' & I3 & I4 & I5 & I6 & I7 & I8 & I9 & I10)].
    - split; [intros ? ? ? HH; discriminate HH|].
      split; [intros; intros ? ? ? HH; discriminate HH|].
      split; [intros ? ? ? ? ? HH; discriminate HH|].
      repeat (split; [intros; intros ? ? ? HH; discriminate HH|]). intros; intros ? ? ? HH; discriminate HH.
    - assert (E : forall s u s', evaluate tasks env (S f) s = Ok (u, s') -> quiescent s').
      { intros s u s' HH. rewrite evaluate_S in HH.
        eapply scan_with_all_quiescent; [exact I2|exact I2'|exact HH| |left; reflexivity].
        intros i t Hi; inversion Hi. }
      assert (P : forall c s u s', is_parloop_cb c = true ->
                                   run_cb tasks env (S f) c s = Ok (u, s') -> quiescent s').
      { intros c s u s' Hc HH. rewrite run_cb_S in HH.
        eapply run_cb_body_parloop_quiescent; [exact I1|exact Hc|exact HH]. }
      split; [exact E|]. split; [|split; [exact P|]].
      { intro c. destruct (is_parloop_cb c) eqn:Hc.
        - intros s u s' HH. right. eapply P; eauto.
        - eapply fpres_ext; [intro; apply run_cb_S|]. apply fpres_run_cb_body_plain; assumption. }
      split; [|split; [|split; [|split; [|split; [|split; [|split]]]]]]; intros.
      + eapply fpres_ext; [intro; apply on_task_started_S|]. apply fpres_ots_body; assumption.
      + eapply fpres_ext; [intro; apply on_service_started_S|]. apply fpres_oss_body; assumption.
      + eapply fpres_ext; [intro; apply on_service_finished_S|]. apply I7.
      + eapply fpres_ext; [intro; apply on_task_finished_S|]. apply fpres_otf_body; assumption.
      + eapply fpres_ext; [intro; apply notify_user_S|]. apply fpres_nu_body; assumption.
      + eapply fpres_ext; [intro; apply engine_reacts_S|]. apply fpres_er_body; assumption.
      + eapply fpres_ext; [intro; apply sched_fire_event_S'|]. apply fpres_sfe_body; assumption.
      + eapply fpres_ext; [intro; apply logic_fire_event_S|]. apply lfe_body_uq. exact I1.
  Qed.

  (* THE run-to-quiescence theorem: whatever the state in which evaluate_petri_net is called
     and whatever happens inside (re-entrant events, run-time generation), when it returns no
     transition of the net is enabled *)
  Theorem evaluate_all_quiescent : forall f s u s',
      evaluate tasks env f s = Ok (u, s') -> quiescent s'.
  Proof. intros f s u s' H. eapply (proj1 (quiescent_block f)); eauto. Qed.

  Theorem logic_fire_event_true_quiescent : forall f ev s s',
      logic_fire_event tasks env f ev s = Ok (true, s') -> quiescent s'.
  Proof.
    intros f ev s s' H. destruct f as [|f]; [discriminate H|].
    rewrite logic_fire_event_S in H. unfold lfe_body in H. unfold nbind at 1, nget in H.
    destruct (event_place s ev) as [[p|]| | |]; try discriminate H.
    destruct (has_place s p); [|discriminate H].
    apply nbind_inv in H. destruct H as (u1 & s1 & H1 & H).
    apply nbind_inv in H. destruct H as (u2 & s2 & H2 & H).
    inversion H; subst. eapply evaluate_all_quiescent; eauto.
  Qed.

  (* an accepted event: nothing is enabled when fire_event returns True *)
  Theorem sched_fire_event_true_quiescent : forall f ev s s',
      sched_fire_event tasks env f ev s = Ok (true, s') -> quiescent s'.
  Proof.
    intros f ev s s' H. destruct f as [|f]; [discriminate H|].
    rewrite sched_fire_event_S in H.
    destruct (existsb (event_eqb ev) (ns_awaited s)); [|discriminate H].
    destruct (remove_first (event_eqb ev) (ns_awaited s)) as [l|]; [|discriminate H].
    destruct (logic_fire_event tasks env f ev (s <| ns_awaited := l |>)) as [[[|] s1]| | |] eqn:E;
      try discriminate H.
    inversion H; subst. eapply logic_fire_event_true_quiescent; eauto.
  Qed.

  (* whatever fire_event returns: nothing enabled before, nothing enabled after *)
  Theorem sched_fire_event_keeps_quiescent : forall f ev s b s',
      sched_fire_event tasks env f ev s = Ok (b, s') -> quiescent s -> quiescent s'.
  Proof.
    intros f ev s b s' H Hq. destruct b.
    - eapply sched_fire_event_true_quiescent; eauto.
    - eapply same_net_quiescent; [|exact Hq]. eapply sched_fire_event_false_same_net; eauto.
  Qed.

  (* ---- the public API, no assumption on the shape of the net ---- *)
  Theorem api_finish_accepted_quiescent : forall f s id s',
      net_api_call tasks env f s (AFinish id) = Ok (true, s') -> quiescent s'.
  Proof. intros f s id s' H. unfold net_api_call in H. eapply sched_fire_event_true_quiescent; eauto. Qed.

  Theorem api_start_accepted_quiescent : forall f s b s',
      existsb (event_eqb EvStart) (ns_awaited s) = true ->
      has_place s (ns_start_place s) = true ->
      net_api_call tasks env f s AStart = Ok (b, s') ->
      quiescent s'.
  Proof.
    intros f s b s' Haw Hp H.
    assert (Hq : forall s0 s1, sched_fire_event tasks env f EvStart s0 = Ok (true, s1) -> quiescent s1)
      by (intros; eapply sched_fire_event_true_quiescent; eauto).
    unfold net_api_call in H. cbv zeta in H.
    change (ns_awaited (s <| ns_log := [] |>)) with (ns_awaited s) in H. rewrite Haw in H.
    destruct (sched_fire_event tasks env f EvStart (s <| ns_log := [] |> <| ns_running := true |>))
      as [[r s1]| | |] eqn:E; try discriminate H. inversion H; subst.
    destruct r; [eapply Hq; eauto|].
    exfalso. destruct f as [|f]; [discriminate E|].
    rewrite sched_fire_event_S in E.
    change (ns_awaited (s <| ns_log := [] |> <| ns_running := true |>)) with (ns_awaited s) in E.
    rewrite Haw in E.
    destruct (remove_first (event_eqb EvStart) (ns_awaited s)) as [l|]; [|discriminate E].
    destruct f as [|f]; [discriminate E|].
    rewrite logic_fire_event_S in E. unfold lfe_body in E. unfold nbind at 1, nget in E.
    cbn [event_place] in E.
    change (ns_start_place (s <| ns_log := [] |> <| ns_running := true |> <| ns_awaited := l |>))
      with (ns_start_place s) in E.
    change (has_place (s <| ns_log := [] |> <| ns_running := true |> <| ns_awaited := l |>) (ns_start_place s))
      with (has_place s (ns_start_place s)) in E.
    rewrite Hp in E.
    match type of E with
    | match ?m with _ => _ end = _ => destruct m as [[[|] s2]| | |] eqn:E2; try discriminate E
    end.
    apply nbind_inv in E2. destruct E2 as (u1 & s3 & _ & E2).
    apply nbind_inv in E2. destruct E2 as (u2 & s4 & _ & E2). discriminate E2.
  Qed.

  (* every API call: nothing enabled before the call, nothing enabled after it; so in every
     state in which control is with the caller the net is dead until the next event *)
  Theorem api_call_keeps_quiescent_dyn : forall f s c b s',
      net_api_call tasks env f s c = Ok (b, s') -> quiescent s -> quiescent s'.
  Proof.
    intros f s c b s' H Hq.
    assert (Hc : quiescent (s <| ns_log := [] |>)) by exact Hq.
    unfold net_api_call in H. cbv zeta in H.
    destruct c as [|id| |k l|o|o].
    - change (ns_awaited (s <| ns_log := [] |>)) with (ns_awaited s) in H.
      destruct (existsb (event_eqb EvStart) (ns_awaited s)).
      + destruct (sched_fire_event tasks env f EvStart (s <| ns_log := [] |> <| ns_running := true |>))
          as [[r s1]| | |] eqn:E; try discriminate H. inversion H; subst.
        eapply sched_fire_event_keeps_quiescent; [exact E|exact Hq].
      + inversion H; subst. exact Hq.
    - eapply sched_fire_event_keeps_quiescent; [exact H|exact Hc].
    - eapply sched_fire_event_keeps_quiescent; [exact H|exact Hc].
    - change (ns_ls (s <| ns_log := [] |>)) with (ns_ls s) in H.
      destruct (existsb _ (ns_ls s)); inversion H; subst; exact Hq.
    - inversion H; subst. exact Hq.
    - change (ns_obs (s <| ns_log := [] |>)) with (ns_obs s) in H.
      destruct (remove_first (Nat.eqb o) (ns_obs s)); inversion H; subst. exact Hq.
  Qed.

  Theorem api_reach_quiescent_dyn : forall f s s',
      api_reach tasks env f s s' -> quiescent s -> quiescent s'.
  Proof.
    intros f s s' H. induction H as [s|s s1 c b s2 H1 IH H]; intro Hq; [exact Hq|].
    eapply api_call_keeps_quiescent_dyn; [exact H|]. apply IH. exact Hq.
  Qed.
End Strong.

(* =========================================================================== *)
(* 7. a decidable check for concrete states, and the whole life of a scheduler    *)
(* =========================================================================== *)
Definition quiescentb (s : NS) : bool := forallb (fun t => negb (enabled s t)) (ns_trans s).

Lemma quiescentb_spec : forall s, quiescentb s = true <-> quiescent s.
Proof.
  intro s. unfold quiescentb, quiescent. rewrite forallb_forall. split; intros H t Ht.
  - apply H in Ht. destruct (enabled s t); [discriminate Ht|reflexivity].
  - rewrite (H t Ht). reflexivity.
Qed.

(* from the constructor on: if the generated net has no enabled transition (a check by
   evaluation for a concrete program: every generated transition has an input place and the
   initial marking is empty), then in every state reached by any sequence of API calls --
   whatever the engine does re-entrantly inside them, with or without run-time generation --
   nothing is enabled: the net never waits with work it could do *)
Theorem scheduler_always_quiescent : forall tasks env test_ids f s0 s',
    net_init tasks test_ids = Ok s0 ->
    quiescentb s0 = true ->
    api_reach tasks env f s0 s' ->
    quiescent s'.
Proof.
  intros tasks env test_ids f s0 s' _ Hq Hr.
  eapply api_reach_quiescent_dyn; [exact Hr|]. apply quiescentb_spec. exact Hq.
Qed.

(* the states visited by a script (net_run_script only keeps their observations) *)
Fixpoint net_run_states (tasks : list task) (env : envcfg) (f : nat) (s : NS) (cs : list apicall)
  : res (list (bool * NS)) :=
  match cs with
  | [] => Ok []
  | c :: r =>
    rbind (net_api_call tasks env f s c) (fun '(b, s') =>
    rbind (net_run_states tasks env f s' r) (fun t => Ok ((b, s') :: t)))
  end.

Lemma net_run_script_states : forall tasks env f cs s,
    net_run_script tasks env f s cs =
    rbind (net_run_states tasks env f s cs)
          (fun l => Ok (map (fun bs => net_observe (fst bs) (snd bs)) l)).
Proof.
  intros tasks env f. induction cs as [|c r IH]; intro s; cbn [net_run_script net_run_states].
  - reflexivity.
  - destruct (net_api_call tasks env f s c) as [[b s1]| | |]; cbn [rbind]; try reflexivity.
    rewrite IH. destruct (net_run_states tasks env f s1 r); reflexivity.
Qed.

Theorem net_run_states_reach : forall tasks env f cs s l,
    net_run_states tasks env f s cs = Ok l ->
    Forall (fun bs => api_reach tasks env f s (snd bs)) l.
Proof.
  intros tasks env f. induction cs as [|c r IH]; intros s l H; cbn [net_run_states] in H.
  - inversion H. constructor.
  - destruct (net_api_call tasks env f s c) as [[b s1]| | |] eqn:E; cbn [rbind] in H; try discriminate H.
    destruct (net_run_states tasks env f s1 r) as [t| | |] eqn:E2; cbn [rbind] in H; try discriminate H.
    inversion H; subst. constructor.
    + cbn [snd]. eapply reach_step; [apply reach_refl|exact E].
    + specialize (IH _ _ E2). rewrite Forall_forall in *. intros bs Hbs. specialize (IH bs Hbs).
      clear - IH E. induction IH as [s2|s2 s3 c' b' s4 _ IH' H'].
      * eapply reach_step; [apply reach_refl|exact E].
      * eapply reach_step; [exact (IH' E)|exact H'].
Qed.

(* every state a script passes through has nothing enabled, if the first one had not *)
Theorem net_run_states_quiescent : forall tasks env f cs s l,
    net_run_states tasks env f s cs = Ok l ->
    quiescent s ->
    Forall (fun bs => quiescent (snd bs)) l.
Proof.
  intros tasks env f cs s l H Hq. apply net_run_states_reach in H.
  rewrite Forall_forall in *. intros bs Hbs. eapply api_reach_quiescent_dyn; [apply H; exact Hbs|exact Hq].
Qed.

(* the statements are not vacuous: on the example of Examples.v (all statement kinds, a
   parallel loop, an immediately completing service, rejected and junk calls) the 16 calls
   return, the net grows at run time (from 25 to 27 transitions), and every state is found
   quiescent by evaluation as well *)
Definition inhabited_check : bool :=
  match net_init (p_tasks (rc_prog ex_case)) true with
  | Ok s0 =>
    match net_run_states (p_tasks (rc_prog ex_case)) (env_of ex_case) net_fuel s0 (rc_script ex_case) with
    | Ok l =>
      quiescentb s0 && Nat.eqb (List.length l) 16 && Nat.eqb (List.length (ns_trans s0)) 25
      && existsb (fun bs => Nat.eqb (List.length (ns_trans (snd bs))) 27) l
      && forallb (fun bs => quiescentb (snd bs)) l
    | _ => false
    end
  | _ => false
  end.

Lemma inhabited_check_true : inhabited_check = true.
Proof. vm_compute. reflexivity. Qed.

Example quiescence_inhabited :
  exists s0 l,
    net_init (p_tasks (rc_prog ex_case)) true = Ok s0 /\
    quiescentb s0 = true /\
    net_run_states (p_tasks (rc_prog ex_case)) (env_of ex_case) net_fuel s0 (rc_script ex_case) = Ok l /\
    List.length l = 16 /\
    List.length (ns_trans s0) = 25 /\
    existsb (fun bs => Nat.eqb (List.length (ns_trans (snd bs))) 27) l = true /\
    forallb (fun bs => quiescentb (snd bs)) l = true.
Proof.
  pose proof inhabited_check_true as H. unfold inhabited_check in H.
  destruct (net_init (p_tasks (rc_prog ex_case)) true) as [s0| | |] eqn:E0; try discriminate H.
  destruct (net_run_states (p_tasks (rc_prog ex_case)) (env_of ex_case) net_fuel s0 (rc_script ex_case))
    as [l| | |] eqn:E1; try discriminate H.
  exists s0, l.
  repeat (apply andb_true_iff in H; destruct H as [H ?]).
  split; [reflexivity|]. split; [assumption|]. split; [exact E1|].
  split; [apply Nat.eqb_eq; assumption|]. split; [apply Nat.eqb_eq; assumption|]. split; assumption.
Qed.

(* =========================================================================== *)
(* 8. the fuel only bounds the search: a result obtained with some fuel is the    *)
(*    result with any larger fuel                                                 *)
(* =========================================================================== *)
Definition mle {A} (m m' : NM A) : Prop := forall s r, m s = Ok r -> m' s = Ok r.

Lemma mle_refl : forall A (m : NM A), mle m m.
Proof. intros A m s r H. exact H. Qed.

Lemma mle_bind : forall A B (m m' : NM A) (k k' : A -> NM B),
    mle m m' -> (forall a, mle (k a) (k' a)) -> mle (nbind m k) (nbind m' k').
Proof.
  intros A B m m' k k' Hm Hk s [b s'] H. apply nbind_inv in H. destruct H as (a & s1 & H1 & H2).
  unfold nbind. rewrite (Hm _ _ H1). apply Hk. exact H2.
Qed.

Lemma mle_nfor : forall A (l : list A) (f f' : A -> NM unit),
    (forall x, mle (f x) (f' x)) -> mle (nfor l f) (nfor l f').
Proof.
  intros A l f f' Hf. induction l as [|x l IH]; cbn [nfor].
  - apply mle_refl.
  - apply mle_bind; auto.
Qed.

Lemma mle_ext : forall A (m1 m1' m2 m2' : NM A),
    (forall s, m1 s = m1' s) -> (forall s, m2 s = m2' s) -> mle m1' m2' -> mle m1 m2.
Proof. intros A m1 m1' m2 m2' E1 E2 H s r H1. rewrite E2. apply H. rewrite <- E1. exact H1. Qed.

Create HintDb mle.
Ltac mle_step :=
  match goal with
  | |- mle ?x ?x => apply mle_refl
  | |- mle (nbind _ _) (nbind _ _) => apply mle_bind; [|intro]
  | |- mle (nfor _ _) (nfor _ _) => apply mle_nfor; intro
  | |- mle (if ?b then _ else _) (if ?b then _ else _) => destruct b
  | |- mle (match ?x with _ => _ end) (match ?x with _ => _ end) => destruct x
  | |- mle _ _ => solve [auto with mle]
  end.
Ltac mle_tac := cbv zeta; repeat mle_step.

Section FuelMono.
  Variable tasks : list task.
  Variable env : envcfg.

  Lemma mle_each_with : forall rc rc' index, (forall c, mle (rc c) (rc' c)) ->
      forall h i, mle (each_with rc index h i) (each_with rc' index h i).
  Proof.
    intros rc rc' index Hrc. induction h as [|h IH]; intro i.
    - apply mle_refl.
    - cbn [each_with]. fold (each_with rc index). fold (each_with rc' index). mle_tac.
  Qed.

  Lemma mle_scan_with : forall rc rc' snap, (forall c, mle (rc c) (rc' c)) ->
      forall g g', g <= g' -> forall index, mle (scan_with rc snap g index) (scan_with rc' snap g' index).
  Proof.
    intros rc rc' snap Hrc. pose proof (mle_each_with rc rc') as He.
    induction g as [|g IH]; intros g' Hle index.
    - intros s r H. discriminate H.
    - destruct g' as [|g']; [lia|]. assert (Hle' : g <= g') by lia.
      cbn [scan_with]. fold (scan_with rc snap). fold (scan_with rc' snap). mle_tac.
  Qed.

  Lemma mle_parloop_then : forall v lim ctx c csite ph t1 t2 k k',
      mle k k' -> mle (parloop_then tasks env v lim ctx c csite ph t1 t2 k)
                      (parloop_then tasks env v lim ctx c csite ph t1 t2 k').
  Proof. intros. unfold parloop_then. mle_tac. Qed.

  Lemma mle_run_cb_body : forall ev_ ev_' ots ots' otf otf' oss oss' osf osf' sfe sfe',
      mle ev_ ev_' -> (forall a, mle (ots a) (ots' a)) -> (forall a, mle (otf a) (otf' a)) ->
      (forall a, mle (oss a) (oss' a)) -> (forall a, mle (osf a) (osf' a)) ->
      (forall e, mle (sfe e) (sfe' e)) ->
      forall c, mle (run_cb_body tasks env ev_ ots otf oss osf sfe c)
                    (run_cb_body tasks env ev_' ots' otf' oss' osf' sfe' c).
  Proof.
    intros ev_ ev_' ots ots' otf otf' oss oss' osf osf' sfe sfe' H1 H2 H3 H4 H5 H6 c.
    pose proof mle_parloop_then as Hp.
    unfold run_cb_body, await_and_fire. destruct c; mle_tac.
  Qed.

  Lemma mle_ots_body : forall nu nu', (forall k a b, mle (nu k a b) (nu' k a b)) ->
      forall ai, mle (ots_body tasks nu ai) (ots_body tasks nu' ai).
  Proof. intros nu nu' H ai. unfold ots_body. mle_tac. Qed.
  Lemma mle_oss_body : forall nu nu', (forall k a b, mle (nu k a b) (nu' k a b)) ->
      forall ai, mle (oss_body tasks nu ai) (oss_body tasks nu' ai).
  Proof. intros nu nu' H ai. unfold oss_body. mle_tac. Qed.
  Lemma mle_otf_body : forall nu nu', (forall k a b, mle (nu k a b) (nu' k a b)) ->
      forall ai, mle (otf_body nu ai) (otf_body nu' ai).
  Proof. intros nu nu' H ai. unfold otf_body. mle_tac. Qed.

  Lemma mle_notify_each : forall er er' k ai, (forall k a, mle (er k a) (er' k a)) ->
      forall h i, mle (notify_each er k ai h i) (notify_each er' k ai h i).
  Proof.
    intros er er' k ai Her. induction h as [|h IH]; intro i.
    - apply mle_refl.
    - cbn [notify_each]. fold (notify_each er k ai). fold (notify_each er' k ai). mle_tac.
  Qed.
  Lemma mle_nu_body : forall er er', (forall k a, mle (er k a) (er' k a)) ->
      forall k ai b, mle (nu_body er k ai b) (nu_body er' k ai b).
  Proof.
    intros er er' H k ai b. pose proof (mle_notify_each er er') as Hn. unfold nu_body. mle_tac.
  Qed.
  Lemma mle_er_body : forall sfe sfe', (forall e, mle (sfe e) (sfe' e)) ->
      forall k ai, mle (er_body env sfe k ai) (er_body env sfe' k ai).
  Proof. intros sfe sfe' H k ai. unfold er_body. mle_tac. Qed.
  Lemma mle_sfe_body : forall lfe lfe', (forall e, mle (lfe e) (lfe' e)) ->
      forall ev, mle (sfe_body lfe ev) (sfe_body lfe' ev).
  Proof. intros lfe lfe' H ev. unfold sfe_body. mle_tac. Qed.
  Lemma mle_lfe_body : forall ev_ ev_', mle ev_ ev_' -> forall ev, mle (lfe_body ev_ ev) (lfe_body ev_' ev).
  Proof. intros ev_ ev_' H ev. unfold lfe_body. mle_tac. Qed.

  Theorem fuel_mono_block : forall f f', f <= f' ->
      mle (evaluate tasks env f) (evaluate tasks env f') /\
      (forall c, mle (run_cb tasks env f c) (run_cb tasks env f' c)) /\
      (forall a, mle (on_task_started tasks env f a) (on_task_started tasks env f' a)) /\
      (forall a, mle (on_service_started tasks env f a) (on_service_started tasks env f' a)) /\
      (forall a, mle (on_service_finished tasks env f a) (on_service_finished tasks env f' a)) /\
      (forall a, mle (on_task_finished tasks env f a) (on_task_finished tasks env f' a)) /\
      (forall k a b, mle (notify_user tasks env f k a b) (notify_user tasks env f' k a b)) /\
      (forall k a, mle (engine_reacts tasks env f k a) (engine_reacts tasks env f' k a)) /\
      (forall ev, mle (sched_fire_event tasks env f ev) (sched_fire_event tasks env f' ev)) /\
      (forall ev, mle (logic_fire_event tasks env f ev) (logic_fire_event tasks env f' ev)).
  Proof.
    induction f as [|f IH]; intros f' Hle.
    - repeat (split; [intros; intros ? ? HH; discriminate HH|]). intros; intros ? ? HH; discriminate HH.
    - destruct f' as [|f']; [lia|]. assert (Hle' : f <= f') by lia.
      destruct (IH f' Hle') as (I1 & I2 & I3 & I4 & I5 & I6 & I7 & I8 & I9 & I10).
      split; [|split; [|split; [|split; [|split; [|split; [|split; [|split; [|split]]]]]]]]; intros.
      + intros s r HH. rewrite evaluate_S in *. eapply mle_scan_with; eauto.
      + eapply mle_ext; [intro; apply run_cb_S|intro; apply run_cb_S|]. apply mle_run_cb_body; assumption.
      + eapply mle_ext; [intro; apply on_task_started_S|intro; apply on_task_started_S|].
        apply mle_ots_body; assumption.
      + eapply mle_ext; [intro; apply on_service_started_S|intro; apply on_service_started_S|].
        apply mle_oss_body; assumption.
      + eapply mle_ext; [intro; apply on_service_finished_S|intro; apply on_service_finished_S|]. apply I7.
      + eapply mle_ext; [intro; apply on_task_finished_S|intro; apply on_task_finished_S|].
        apply mle_otf_body; assumption.
      + eapply mle_ext; [intro; apply notify_user_S|intro; apply notify_user_S|].
        apply mle_nu_body; assumption.
      + eapply mle_ext; [intro; apply engine_reacts_S|intro; apply engine_reacts_S|].
        apply mle_er_body; assumption.
      + eapply mle_ext; [intro; apply sched_fire_event_S'|intro; apply sched_fire_event_S'|].
        apply mle_sfe_body; assumption.
      + eapply mle_ext; [intro; apply logic_fire_event_S|intro; apply logic_fire_event_S|].
        apply mle_lfe_body; assumption.
  Qed.

  Theorem sched_fire_event_fuel_mono : forall f f' ev s r,
      f <= f' -> sched_fire_event tasks env f ev s = Ok r -> sched_fire_event tasks env f' ev s = Ok r.
  Proof.
    intros f f' ev s r Hle H.
    eapply (proj1 (proj2 (proj2 (proj2 (proj2 (proj2 (proj2 (proj2 (proj2
             (fuel_mono_block f f' Hle)))))))))); eauto.
  Qed.

  Theorem evaluate_fuel_mono : forall f f' s r,
      f <= f' -> evaluate tasks env f s = Ok r -> evaluate tasks env f' s = Ok r.
  Proof. intros f f' s r Hle H. eapply (proj1 (fuel_mono_block f f' Hle)); eauto. Qed.

  (* the public API: a call that returns with fuel f returns the same with more fuel *)
  Theorem api_call_fuel_mono : forall f f' s c r,
      f <= f' -> net_api_call tasks env f s c = Ok r -> net_api_call tasks env f' s c = Ok r.
  Proof.
    intros f f' s c r Hle H. unfold net_api_call in *. cbv zeta in *.
    destruct c as [|id| |k l|o|o]; try exact H.
    - destruct (existsb (event_eqb EvStart) (ns_awaited (s <| ns_log := [] |>))); [|exact H].
      destruct (sched_fire_event tasks env f EvStart (s <| ns_log := [] |> <| ns_running := true |>))
        as [[b s1]| | |] eqn:E; try discriminate H.
      rewrite (sched_fire_event_fuel_mono _ _ _ _ _ Hle E). exact H.
    - eapply sched_fire_event_fuel_mono; eauto.
    - eapply sched_fire_event_fuel_mono; eauto.
  Qed.

  Theorem net_run_script_fuel_mono : forall f f' cs s r,
      f <= f' -> net_run_script tasks env f s cs = Ok r -> net_run_script tasks env f' s cs = Ok r.
  Proof.
    intros f f' cs. induction cs as [|c cs IH]; intros s r Hle H; cbn [net_run_script] in *; [exact H|].
    destruct (net_api_call tasks env f s c) as [[b s1]| | |] eqn:E; cbn [rbind] in H; try discriminate H.
    rewrite (api_call_fuel_mono _ _ _ _ _ Hle E). cbn [rbind].
    destruct (net_run_script tasks env f s1 cs) as [t| | |] eqn:E2; cbn [rbind] in H; try discriminate H.
    rewrite (IH _ _ Hle E2). exact H.
  Qed.
End FuelMono.
