(* NetQuiescent.v — "run to quiescence" on the FAITHFUL model (NetModel.v): when
   PetriNetLogic.evaluate_petri_net returns, no transition that it looked at is enabled; for a
   net that did not grow during the call, no transition at all is enabled.  So when an accepted
   API call returns there is nothing left to do without a further event (no lost wake-up on the
   mechanism side).  Also: structural frame facts of the whole mutual block (the net only
   grows).  Proof file. *)
From PFDL Require Import NetModel NetRun NetC08.
Local Open Scope net_scope.
Notation NM := NetModel.N.

(* =========================================================================== *)
(* 1. the bodies of the mutual block with the recursive calls as parameters      *)
(* =========================================================================== *)

(* the search for the parallel-loop callback in evaluate_petri_net (verbatim) *)
Fixpoint find_pl (h : nat) (i : nat) (l : list cb) (temp : option cb) {struct h} : option cb * list cb :=
  match h with
  | O => (temp, l)
  | S h' =>
    match nth_error l i with
    | None => (temp, l)
    | Some c =>
      if is_parloop_cb c
      then find_pl h' (S i) (firstn i l ++ skipn (S i) l) (Some c)
      else find_pl h' (S i) l temp
    end
  end.

(* for callback in callbacks: callback()  -- live list, by index *)
Definition each_with (rc : cb -> NM unit) (index : nat) : nat -> nat -> NM unit :=
  fix each (h : nat) (i : nat) {struct h} : NM unit :=
    match h with
    | O => nfail Fuel
    | S h' =>
      s <~ nget ;;
      match nth_error (nth index (ns_cbs s) []) i with
      | None => nret tt
      | Some c => rc c ;;~ each h' (S i)
      end
    end.

Definition pop_cb (index : nat) : NM unit :=
  nmod (fun s => s <| ns_cbs := upd index
                       (fun l => match l with [] => [] | _ :: r => r end) (ns_cbs s) |>).

(* the scan loop of evaluate_petri_net; [rc] runs a callback, [snapshot] is the number of
   transitions that existed when the evaluation started *)
Definition scan_with (rc : cb -> NM unit) (snapshot : nat) : nat -> nat -> NM unit :=
  fix scan (g : nat) (index : nat) {struct g} : NM unit :=
    match g with
    | O => nfail Fuel
    | S g' =>
      if Nat.leb snapshot index then nret tt
      else
        s <~ nget ;;
        match nth_error (ns_trans s) index with
        | None => nret tt
        | Some t =>
          if enabled s t then
            let cbs := nth index (ns_cbs s) [] in
            let '(temp, cbs1) := find_pl (S (List.length cbs)) 0 cbs None in
            match temp with
            | Some pl =>
              nmod (fun s => s <| ns_cbs := upd index (fun _ => cbs1) (ns_cbs s) |>) ;;~
              nfor cbs1 (fun c => rc c ;;~ pop_cb index) ;;~
              rc pl
            | None =>
              fire_trans t ;;~
              each_with rc index (S (S (List.length cbs))) 0 ;;~
              scan g' 0
            end
          else scan g' (S index)
        end
    end.

Section Bodies.
  Variable tasks : list task.
  Variable env : envcfg.

  (* ---- run_cb ---- *)
  Definition await_and_fire (sfe : event -> NM bool) (ev : event) : NM unit :=
    nmod (fun s => s <| ns_awaited := ns_awaited s ++ [ev] |>) ;;~
    sfe ev ;;~ nret tt.

  (* on_parallel_loop_started up to the final call of evaluate_petri_net *)
  Definition parloop_generate (v : name) (lim : limit) (ctx : nat) (c : call) (csite : site)
             (ph t1 t2 : nat) : NM unit :=
    l <~ get_loop_limit env lim ctx ;;
    (if Qlt_bool 0 l
     then
       nfor (seq 0 (Z.to_nat (trunc l)))
            (fun _ =>
               generate_task_call tasks 200 c csite ctx t1 t2 true ;;~
               cx <~ get_api ctx ;;
               s <~ nget ;;
               set_counters (a_uuid cx)
                            (dict_set lkey_eqb (KVar v) (CPar (-1)) (counters_of (a_uuid cx) s)))
     else generate_empty_parallel_loop t1 t2) ;;~
    s <~ nget ;;
    (if has_place s ph then remove_place ph else nret tt).

  Definition parloop_then (v : name) (lim : limit) (ctx : nat) (c : call) (csite : site)
             (ph t1 t2 : nat) (k : NM unit) : NM unit :=
    l <~ get_loop_limit env lim ctx ;;
    (if Qlt_bool 0 l
     then
       nfor (seq 0 (Z.to_nat (trunc l)))
            (fun _ =>
               generate_task_call tasks 200 c csite ctx t1 t2 true ;;~
               cx <~ get_api ctx ;;
               s <~ nget ;;
               set_counters (a_uuid cx)
                            (dict_set lkey_eqb (KVar v) (CPar (-1)) (counters_of (a_uuid cx) s)))
     else generate_empty_parallel_loop t1 t2) ;;~
    s <~ nget ;;
    (if has_place s ph then remove_place ph else nret tt) ;;~
    k.

  Lemma nbind_assoc : forall A B C (m : NM A) (k : A -> NM B) (k' : B -> NM C) s,
      nbind (nbind m k) k' s = nbind m (fun a => nbind (k a) k') s.
  Proof. intros. unfold nbind. destruct (m s) as [[a s1]| | |]; reflexivity. Qed.

  Lemma nbind_ext : forall A B (m : NM A) (k k' : A -> NM B) s,
      (forall a s1, k a s1 = k' a s1) -> nbind m k s = nbind m k' s.
  Proof. intros. unfold nbind. destruct (m s) as [[a s1]| | |]; auto. Qed.

  Lemma parloop_then_eq : forall v lim ctx c csite ph t1 t2 k s,
      parloop_then v lim ctx c csite ph t1 t2 k s =
      (parloop_generate v lim ctx c csite ph t1 t2 ;;~ k) s.
  Proof.
    intros. unfold parloop_then, parloop_generate.
    rewrite nbind_assoc. apply nbind_ext; intros l s1.
    rewrite nbind_assoc. apply nbind_ext; intros u s2.
    rewrite nbind_assoc. apply nbind_ext; intros s3 s4. reflexivity.
  Qed.

  Definition run_cb_body (ev_ : NM unit) (ots otf oss osf : nat -> NM unit)
             (sfe : event -> NM bool) (c : cb) : NM unit :=
    match c with
    | CbTS a => ots a
    | CbTF a => otf a
    | CbSS a => oss a
    | CbSF a => osf a
    | CbCond e pt pf ctx =>
      b <~ check_expression env e ctx ;;
      await_and_fire sfe (EvSetPlace (if b then pt else pf))
    | CbWhile e pt pf ctx =>
      b <~ check_expression env e ctx ;;
      await_and_fire sfe (EvSetPlace (if b then pt else pf))
    | CbCount key lim pt pf ctx =>
      cx <~ get_api ctx ;;
      s <~ nget ;;
      let u := a_uuid cx in
      let d := counters_of u s in
      let cnt := match dict_get lkey_eqb (KLoop key) d with
                 | None => 0
                 | Some (CInt n) => S n
                 | Some (CPar _) => 0
                 end in
      set_counters u (dict_set lkey_eqb (KLoop key) (CInt cnt) d) ;;~
      l <~ get_loop_limit env lim ctx ;;
      if Qlt_bool (inject_Z (Z.of_nat cnt)) l
      then await_and_fire sfe (EvSetPlace pt)
      else
        s <~ nget ;;
        set_counters u (dict_del lkey_eqb (KLoop key) (counters_of u s)) ;;~
        await_and_fire sfe (EvSetPlace pf)
    | CbParLoop v lim ctx c csite ph t1 t2 =>
      parloop_then v lim ctx c csite ph t1 t2 ev_
    end.

  Theorem run_cb_S : forall f c s,
      run_cb tasks env (S f) c s =
      run_cb_body (evaluate tasks env f) (on_task_started tasks env f) (on_task_finished tasks env f)
                  (on_service_started tasks env f) (on_service_finished tasks env f)
                  (sched_fire_event tasks env f) c s.
  Proof.
    intros f c s. destruct c; reflexivity.
  Qed.

  (* ---- on_task_started ---- *)
  Definition ots_body (nu : nkind -> nat -> bool -> NM unit) (ai : nat) : NM unit :=
    a <~ get_api ai ;;
    s <~ nget ;;
    (if a_in_loop a
     then
       u <~ new_test_or_uuid true ;;
       set_api ai (with_uuid u) ;;~
       (if a_has_call a then set_api ai (with_params (a_src a)) else nret tt) ;;~
       substitute_loop_indexes tasks ai
     else if ns_test_ids s
          then u <~ new_test_or_uuid true ;; set_api ai (with_uuid u)
          else nret tt) ;;~
    nu TS ai false.

  Theorem on_task_started_S : forall f ai s,
      on_task_started tasks env (S f) ai s = ots_body (notify_user tasks env f) ai s.
  Proof. intros. reflexivity. Qed.

  (* ---- on_service_started ---- *)
  Definition rebind_uuid (a : api) (ai : nat) (u : ident) : NM unit :=
    s <~ nget ;;
    match dict_get ident_eqb (a_uuid a) (ns_place_dict s) with
    | None => nfail (Exn KeyError)
    | Some p => nmod (fun s => s <| ns_place_dict := (u, p) :: ns_place_dict s |>) ;;~
                set_api ai (with_uuid u)
    end.

  Definition oss_body (nu : nkind -> nat -> bool -> NM unit) (ai : nat) : NM unit :=
    a <~ get_api ai ;;
    s <~ nget ;;
    (if a_in_loop a
     then
       u0 <~ fresh_uuid ;;
       u <~ (if ns_test_ids s then new_test_or_uuid false else nret u0) ;;
       rebind_uuid a ai u ;;~
       (match a_src a with [] => nret tt | _ :: _ => set_api ai (with_params (a_src a)) end) ;;~
       substitute_loop_indexes tasks ai
     else if ns_test_ids s
          then u <~ new_test_or_uuid false ;; rebind_uuid a ai u
          else nret tt) ;;~
    a' <~ get_api ai ;;
    nmod (fun s => s <| ns_awaited := ns_awaited s ++ [EvFinish (a_uuid a')] |>) ;;~
    nu SS ai false.

  Theorem on_service_started_S : forall f ai s,
      on_service_started tasks env (S f) ai s = oss_body (notify_user tasks env f) ai s.
  Proof. intros. reflexivity. Qed.

  Theorem on_service_finished_S : forall f ai s,
      on_service_finished tasks env (S f) ai s = notify_user tasks env f SF ai false s.
  Proof. intros. reflexivity. Qed.

  Definition otf_body (nu : nkind -> nat -> bool -> NM unit) (ai : nat) : NM unit :=
    a <~ get_api ai ;;
    nu TF ai (Nat.eqb (a_name a) production_task).

  Theorem on_task_finished_S : forall f ai s,
      on_task_finished tasks env (S f) ai s = otf_body (notify_user tasks env f) ai s.
  Proof. intros. reflexivity. Qed.

  (* ---- notify_user ---- *)
  Definition notify_each (er : nkind -> nat -> NM unit) (k : nkind) (ai : nat) : nat -> nat -> NM unit :=
    fix each (h : nat) (i : nat) {struct h} : NM unit :=
      match h with
      | O => nfail Fuel
      | S h' =>
        s <~ nget ;;
        match nth_error (listeners_of k (ns_ls s)) i with
        | None => nret tt
        | Some l =>
          a <~ get_api ai ;;
          nlog [ENotif l (notif_of s k a) (ns_running s)] ;;~
          (if Nat.eqb l 0 then er k ai else nret tt) ;;~
          each h' (S i)
        end
      end.

  Definition nu_body (er : nkind -> nat -> NM unit) (k : nkind) (ai : nat) (order_finished : bool)
    : NM unit :=
    s0 <~ nget ;;
    notify_each er k ai (S (List.length (ns_ls s0))) 0 ;;~
    (if order_finished then nmod (fun s => s <| ns_running := false |>) else nret tt) ;;~
    a <~ get_api ai ;;
    s <~ nget ;;
    nlog (map (fun o => EObs o k (a_name a) (ident_nat (a_uuid a)) order_finished) (ns_obs s)).

  Theorem notify_user_S : forall f k ai b s,
      notify_user tasks env (S f) k ai b s = nu_body (engine_reacts tasks env f) k ai b s.
  Proof. intros. reflexivity. Qed.

  (* ---- engine_reacts ---- *)
  Definition er_body (sfe : event -> NM bool) (k : nkind) (ai : nat) : NM unit :=
    a <~ get_api ai ;;
    let id := a_uuid a in
    (match k with
     | SS => nmod (fun s => s <| ns_pending := ns_pending s ++ [id] |>)
     | SF => nmod (fun s => s <| ns_pending :=
                               match remove_first (ident_eqb id) (ns_pending s) with
                               | Some l => l | None => ns_pending s end |>)
     | _ => nret tt
     end) ;;~
    (match k with
     | TS | SS => set_api ai (with_params (hostile (ec_mutate env) (a_params a)))
     | _ => nret tt
     end) ;;~
    (match k with
     | SS =>
       s <~ nget ;;
       nmod (fun s => s <| ns_nss := S (ns_nss s) |>) ;;~
       if ec_imm env (ns_nss s)
       then sfe (EvFinish (a_uuid a)) ;;~ nret tt
       else nret tt
     | _ => nret tt
     end) ;;~
    s <~ nget ;;
    nmod (fun s => s <| ns_nnot := S (ns_nnot s) |>) ;;~
    match (if ec_react_all env || match k with TS | SS => true | _ => false end
           then ec_react env (ns_nnot s) else None), ns_pending s with
    | Some j, p0 :: prest =>
      let pend := p0 :: prest in
      let sid := nth (Nat.modulo j (List.length pend)) pend p0 in
      nlog [EFireIn (ident_nat sid)] ;;~
      r <~ sfe (EvFinish sid) ;;
      nlog [EFireOut (ident_nat sid) r]
    | _, _ => nret tt
    end.

  Theorem engine_reacts_S : forall f k ai s,
      engine_reacts tasks env (S f) k ai s = er_body (sched_fire_event tasks env f) k ai s.
  Proof. intros. reflexivity. Qed.

  (* ---- Scheduler.fire_event / PetriNetLogic.fire_event ---- *)
  Definition sfe_body (lfe : event -> NM bool) (ev : event) : NM bool :=
    s <~ nget ;;
    if existsb (event_eqb ev) (ns_awaited s)
    then
      match remove_first (event_eqb ev) (ns_awaited s) with
      | None => nfail (Exn ValueError)
      | Some l =>
        nmod (fun s => s <| ns_awaited := l |>) ;;~
        r <~ lfe ev ;;
        if r then nret true
        else nmod (fun s => s <| ns_awaited := ns_awaited s ++ [ev] |>) ;;~ nret false
      end
    else nret false.

  Theorem sched_fire_event_S' : forall f ev s,
      sched_fire_event tasks env (S f) ev s = sfe_body (logic_fire_event tasks env f) ev s.
  Proof. intros. reflexivity. Qed.

  Definition event_place (s : NS) (ev : event) : res (option nat) :=
    match ev with
    | EvStart => Ok (Some (ns_start_place s))
    | EvSetPlace p => Ok (Some p)
    | EvFinish id => match dict_get ident_eqb id (ns_place_dict s) with
                     | Some p => Ok (Some p)
                     | None => Exn KeyError
                     end
    | EvJunk => Ok None
    end.

  Definition lfe_body (ev_ : NM unit) (ev : event) : NM bool :=
    s <~ nget ;;
    match event_place s ev with
    | Ok (Some p) =>
      if has_place s p
      then place_add p ;;~ ev_ ;;~ nret true
      else nret false
    | Ok None => nret false
    | Fuel => nfail Fuel | Exn k => nfail (Exn k) | Unsupported => nfail Unsupported
    end.

  Theorem logic_fire_event_S : forall f ev s,
      logic_fire_event tasks env (S f) ev s = lfe_body (evaluate tasks env f) ev s.
  Proof. intros. reflexivity. Qed.

  (* fuel 0 *)
  Lemma block_O :
    (forall s, evaluate tasks env 0 s = Fuel) /\
    (forall c s, run_cb tasks env 0 c s = Fuel) /\
    (forall a s, on_task_started tasks env 0 a s = Fuel) /\
    (forall a s, on_service_started tasks env 0 a s = Fuel) /\
    (forall a s, on_service_finished tasks env 0 a s = Fuel) /\
    (forall a s, on_task_finished tasks env 0 a s = Fuel) /\
    (forall k a b s, notify_user tasks env 0 k a b s = Fuel) /\
    (forall k a s, engine_reacts tasks env 0 k a s = Fuel) /\
    (forall ev s, sched_fire_event tasks env 0 ev s = Fuel) /\
    (forall ev s, logic_fire_event tasks env 0 ev s = Fuel).
  Proof. repeat split. Qed.

  Theorem evaluate_S : forall f s0,
      evaluate tasks env (S f) s0 =
      scan_with (run_cb tasks env f) (List.length (ns_trans s0)) f 0 s0.
  Proof. intros. reflexivity. Qed.
End Bodies.
