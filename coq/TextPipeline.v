(* TextPipeline.v — parse_string as a whole, from the characters of the text to the verdict:
   CharLexer.lex  ->  Denter.denter_init  ->  recursive-descent parser  ->  CheckModel.validate
   (model support file: definitions only; proofs in TextPipelineProofs.v, property theorems in
   Properties/C16text.v).

   utils/parsing_utils.py::parse_string:
     - a token recognition error or a syntax error: the error listener printed at least one
       message, has_error() is True, the result is (False, None) and NEITHER the visitor NOR
       the semantic checker runs                                       -> [Ok [MSyntax]]
     - otherwise the visitor builds the Process (printing its own messages: duplicate
       definitions, array length given by a name, list inside a list) and the semantic checker
       runs on it whatever the visitor printed; the verdict is "nothing was printed"
                                                                         -> [validate p]
       ([CheckModel.validate] = [visit_errs] ++ the checker's messages).

   Two places where the parser of Front/Parser.v is more specific than what the validator
   needs, and which would make the composition lose a verdict:
     - [top_expr]: a guard that is a lone string literal (visitExpression returns None) makes
       Front/Parser.v answer [FUnsupported].  parse_string does validate such a program:
       check_expression(None) prints nothing — exactly what CheckModel.check_expression does for
       [EStr _].  The text pipeline therefore keeps the guard as [EStr s].
     - [json_norm]: Front/Parser.v stores a struct literal the way Struct.parse_json stores it
       (list inside a list dropped, repeated keys collapsed).  CheckModel.validate wants the
       literal as written: [nested_in] counts the lists inside lists (message KNestedArray,
       repair 4069f8b) and [CheckModel.parse_json] does the dropping / collapsing itself.  The
       text pipeline therefore keeps the literal as the grammar rule json_object read it.
   The statement-level rules of Front/Parser.v are restated below with these two functions as
   parameters ([top], [norm]); instantiated with [top_expr] and [json_norm] they ARE the
   functions of Front/Parser.v (TextPipelineProofs.gparse_program_agrees), instantiated with
   [keep_expr] and [keep_json] they are the parser of the text pipeline.  Everything below the
   statement level (expressions, paths, JSON, variable definitions) is used as it is. *)
From PFDL Require Import Base Syntax.
From PFDL.Front Require Import CharLexer FrontEnd.
From PFDL.Check Require Import CheckModel.
From Coq Require Import String Ascii.

Section Generic.
  Variable top : expr -> fres expr.
  Variable norm : json -> json.
  Variable T : level_table.
  Variable not_level : nat.

  Definition gparse_param (f : nat) (ts : toks) : fres (param * toks) :=
    match ts with
    | DTok (TLower v) :: r =>
      if starts_dot r then
        do '(p, r1) <- parse_path_tail f r ;;
        do r2 <- nl_plus r1 ;; FOk (PPath v p, r2)
      else
        do r2 <- nl_plus r ;; FOk (PVar v, r2)
    | DTok (TUpper s) :: DIndent :: r =>
      do '(j, r1) <- parse_json_object f r ;;
      do r2 <- nl_plus r1 ;;
      do r3 <- expect_dedent r2 ;;
      FOk (PLit s (norm j), r3)
    | DTok (TUpper s) :: r =>
      do '(j, r1) <- parse_json_object f (skip_nls r) ;;
      FOk (PLit s (norm j), skip_nls r1)
    | _ => FSyntax
    end.

  Fixpoint gparse_params (f : nat) (ts : toks) : fres (list param * toks) :=
    match f with
    | O => FFuel
    | S f' =>
      do '(p, r) <- gparse_param f' ts ;;
      if starts_param r then
        do '(ps, r1) <- gparse_params f' r ;; FOk (p :: ps, r1)
      else FOk ([p], r)
    end.

  Definition gparse_call_body (f : nat) (ts : toks) : fres ((list param * outparams) * toks) :=
    do '(ins, r) <-
      match ts with
      | DTok KIn :: r0 =>
        do r1 <- expect_indent r0 ;;
        do '(ps, r2) <- gparse_params f r1 ;;
        do r3 <- expect_dedent r2 ;; FOk (ps, r3)
      | _ => FOk ([], ts)
      end ;;
    do '(outs, r') <-
      match r with
      | DTok KOut :: r0 => parse_vardef_block f r0
      | _ => FOk ([], r)
      end ;;
    FOk ((ins, outs), r').

  Definition gparse_call_rest (f : nat) (ts : toks) : fres ((list param * outparams) * toks) :=
    match ts with
    | DNL :: _ => do r <- nl_plus ts ;; FOk (([], []), r)
    | DIndent :: r =>
      do '(io, r1) <- gparse_call_body f r ;;
      do r2 <- expect_dedent r1 ;; FOk (io, r2)
    | _ => FSyntax
    end.

  Fixpoint gparse_task_calls (f : nat) (ts : toks) : fres (list call * toks) :=
    match f with
    | O => FFuel
    | S f' =>
      match ts with
      | DTok (TLower n) :: r =>
        do '((ins, outs), r1) <- gparse_call_rest f' r ;;
        let c := {| c_name := n; c_ins := ins; c_outs := outs |} in
        if starts_lower r1 then
          do '(cs, r2) <- gparse_task_calls f' r1 ;; FOk (c :: cs, r2)
        else FOk ([c], r1)
      | _ => FSyntax
      end
    end.

  Fixpoint gparse_stmt (f : nat) (ts : toks) : fres (stmt * toks) :=
    match f with
    | O => FFuel
    | S f' =>
      match ts with
      | DTok (TUpper n) :: r =>
        do '((ins, outs), r1) <- gparse_call_rest f' r ;; FOk (SService n ins outs, r1)
      | DTok (TLower n) :: r =>
        do '((ins, outs), r1) <- gparse_call_rest f' r ;;
        FOk (SCall {| c_name := n; c_ins := ins; c_outs := outs |}, r1)
      | DTok KParallel :: DTok KLoop :: r => gparse_counting f' true r
      | DTok KParallel :: r =>
        do r1 <- expect_indent r ;;
        do '(cs, r2) <- gparse_task_calls f' r1 ;;
        do r3 <- expect_dedent r2 ;; FOk (SParallel cs, r3)
      | DTok KLoop :: DTok KWhile :: r =>
        do '(e, r1) <- parse_expr T not_level (expr_fuel f') 0 r ;;
        do e' <- top e ;;
        do '(body, r2) <- gparse_block f' r1 ;; FOk (SWhile e' body, r2)
      | DTok KLoop :: r => gparse_counting f' false r
      | DTok KCondition :: r =>
        do r1 <- expect_indent r ;;
        do '(e, r2) <- parse_expr T not_level (expr_fuel f') 0 r1 ;;
        do e' <- top e ;;
        do r3 <- nl_plus r2 ;;
        do r4 <- expect_dedent r3 ;;
        match r4 with
        | DTok KPassed :: r5 =>
          do '(passed, r6) <- gparse_block f' r5 ;;
          match r6 with
          | DTok KFailed :: r7 =>
            do '(failed, r8) <- gparse_block f' r7 ;; FOk (SCond e' passed failed, r8)
          | _ => FOk (SCond e' passed [], r6)
          end
        | _ => FSyntax
        end
      | _ => FSyntax
      end
    end
  with gparse_counting (f : nat) (par : bool) (ts : toks) : fres (stmt * toks) :=
    match f with
    | O => FFuel
    | S f' =>
      match ts with
      | DTok (TLower v) :: DTok KTo :: DTok (TInt n) :: r =>
        do '(body, r1) <- gparse_block f' r ;; FOk (SCount par v (LimInt n) body, r1)
      | DTok (TLower v) :: DTok KTo :: DTok (TLower x) :: r =>
        do '(p, r1) <- parse_path_rest f' r ;;
        do '(body, r2) <- gparse_block f' r1 ;; FOk (SCount par v (LimPath x p) body, r2)
      | _ => FSyntax
      end
    end
  with gparse_block (f : nat) (ts : toks) : fres (list stmt * toks) :=
    match f with
    | O => FFuel
    | S f' =>
      do r <- expect_indent ts ;;
      do '(ss, r1) <- gparse_stmts f' r ;;
      do r2 <- expect_dedent r1 ;; FOk (ss, r2)
    end
  with gparse_stmts (f : nat) (ts : toks) : fres (list stmt * toks) :=
    match f with
    | O => FFuel
    | S f' =>
      do '(s, r) <- gparse_stmt f' ts ;;
      if starts_stmt r then
        do '(ss, r1) <- gparse_stmts f' r ;; FOk (s :: ss, r1)
      else FOk ([s], r)
    end.

  Definition gparse_task (f : nat) (ts : toks) : fres (task * toks) :=
    match ts with
    | DTok KTask :: DTok (TLower n) :: r =>
      do r0 <- expect_indent r ;;
      do '(ins, r1) <- parse_task_in f r0 ;;
      do '(body, r2) <- gparse_stmts f r1 ;;
      do '(outs, r3) <- parse_task_out f r2 ;;
      do r4 <- expect_dedent r3 ;;
      match r4 with
      | DTok KEnd :: r5 =>
        FOk ({| t_name := n; t_ins := ins; t_body := body; t_outs := outs |}, r5)
      | _ => FSyntax
      end
    | _ => FSyntax
    end.

  Fixpoint gparse_program (f : nat) (ts : toks) : fres program :=
    match f with
    | O => FFuel
    | S f' =>
      match ts with
      | [DEOF] => FOk {| p_structs := []; p_tasks := [] |}
      | DNL :: r => gparse_program f' r
      | DTok KStruct :: _ =>
        do '(s, r) <- parse_struct f' ts ;;
        do p <- gparse_program f' r ;;
        FOk {| p_structs := s :: p_structs p; p_tasks := p_tasks p |}
      | DTok KTask :: _ =>
        do '(t, r) <- gparse_task f' ts ;;
        do p <- gparse_program f' r ;;
        FOk {| p_structs := p_structs p; p_tasks := t :: p_tasks p |}
      | _ => FSyntax
      end
    end.
End Generic.

(* a lone string literal as guard stays in the AST; a literal stays as it was written *)
Definition keep_expr (e : expr) : fres expr := FOk e.
Definition keep_json (j : json) : json := j.

(* the parser of the text pipeline on the denter's tokens, with the fuel FrontEnd.fuel_for
   computes from the number of tokens *)
Definition parse_text_tokens (ts : toks) : fres program :=
  gparse_program keep_expr keep_json impl_levels impl_not_level (fuel_for ts) ts.

(* characters -> AST: CharLexer.front_end_chars without the visitor's early exit *)
Definition parse_text (intern : list ascii -> name) (cs : list ascii) : fres program :=
  match lex intern cs with
  | LexError _ _ => FSyntax
  | LexOk ts col => parse_text_tokens (denter_init col ts)
  end.

(* what parse_string printed: at least one message of the error listener (ANTLR's recovery,
   which makes the implementation print several, is not modelled), or the messages of the
   visitor and of the semantic checker *)
Inductive tmsg :=
| MSyntax
| MCheck (e : err).

Definition validate_ast (p : program) : res (list tmsg) :=
  match validate p with
  | Ok es => Ok (map MCheck es)
  | Fuel => Fuel | Exn k => Exn k | Unsupported => Unsupported
  end.

(* parse_string on a text: [Ok ms] = it returned, having printed ms; [Exn k] = a Python
   exception escaped; [Fuel] = a fuelled function of the model ran out of fuel;
   [Unsupported] = the model does not describe the input *)
Definition validate_text (intern : list ascii -> name) (cs : list ascii) : res (list tmsg) :=
  match parse_text intern cs with
  | FSyntax => Ok [MSyntax]
  | FOk p => validate_ast p
  | FFuel => Fuel
  | FVisitor | FUnsupported => Unsupported
  end.

(* the boolean parse_string returns *)
Definition text_valid (intern : list ascii -> name) (cs : list ascii) : bool :=
  match validate_text intern cs with Ok [] => true | _ => false end.

(* the second component of parse_string's result is None exactly for a syntax error *)
Definition text_has_process (intern : list ascii -> name) (cs : list ascii) : bool :=
  match parse_text intern cs with FOk _ => true | _ => false end.

(* ---- support for the correspondence check (harness/kind_c16text.py) ---- *)
(* (status, number of syntax messages, number of other messages); status 0 = Ok, 1 = Exn,
   2 = Fuel, 3 = Unsupported *)
Definition text_view (intern : list ascii -> name) (cs : list ascii) : nat * nat * nat :=
  match validate_text intern cs with
  | Ok ms => (0, List.length (filter (fun m => match m with MSyntax => true | _ => false end) ms),
              List.length (filter (fun m => match m with MSyntax => false | _ => true end) ms))
  | Exn _ => (1, 0, 0)
  | Fuel => (2, 0, 0)
  | Unsupported => (3, 0, 0)
  end.

(* ---- example texts (non-vacuity of the theorems of Properties/C16text.v) ---- *)
Local Open Scope string_scope.

(* an interning given by a table of names; texts outside the table are name 0 *)
Fixpoint intern_of_names (tab : list (string * name)) (cs : list ascii) : name :=
  match tab with
  | [] => 0
  | (s, n) :: r => if String.eqb s (string_of_list_ascii cs) then n else intern_of_names r cs
  end.

Definition text_of_lines (ls : list string) : list ascii :=
  flat_map (fun l => (chars l ++ [ch_lf])%list) ls.

Definition example_names : list ascii -> name :=
  intern_of_names [("productionTask", 0); ("Pos", 1); ("x", 2); ("y", 3); ("Move", 4); ("target", 5);
                   ("Check", 6); ("z", 7)].

(* a valid program: struct, comment and blank line, struct literal over four lines, call
   output, a While loop with a five-token guard, a task-free service call with a parameter *)
Definition example_valid_text : list ascii := text_of_lines
  [ "Struct Pos"; "    x: number"; "    y: number"; "End"; "";
    "# the start task"; "Task productionTask";
    "    Move"; "        In"; "            Pos"; "            {";
    "                ""x"": 1,"; "                ""y"": 2.5"; "            }";
    "        Out"; "            target: Pos";
    "    Loop While target.x < 10 And !(target.y == 0)";
    "        Check"; "            In"; "                target"; "End" ].

(* it parses; the literal misses 'y' and has an unknown 'z', the guard compares an unknown attribute *)
Definition example_semantic_text : list ascii := text_of_lines
  [ "Struct Pos"; "    x: number"; "    y: number"; "End";
    "Task productionTask";
    "    Move"; "        In"; "            Pos"; "            {";
    "                ""x"": 1,"; "                ""z"": true"; "            }";
    "        Out"; "            target: Pos";
    "    Loop While target.z < 10";
    "        Check"; "End" ].

(* '$' is in no lexer rule's alphabet *)
Definition example_illegal_text : list ascii := text_of_lines
  [ "Task productionTask"; "    Move $"; "End" ].

(* the bytes 01 7f, then { ] T a s k, 00, a blank, 9 . e, a quote, ~ and a backquote, c3 a9 *)
Definition example_bytes : list ascii := unhex "017f7b5d5461736b0020392e65227e60c3a9".

(* the first 200 characters of the valid text: it ends inside the struct literal *)
Definition example_truncated : list ascii := firstn 200 example_valid_text.

(* a lone string literal as guard: Front/Parser.v says FUnsupported, parse_string validates it *)
Definition example_lone_string : list ascii := text_of_lines
  [ "Task productionTask"; "    Loop While ""go"""; "        Move"; "End" ].

(* a list inside a list: Front/Parser.v drops it (json_norm), parse_string reports it *)
Definition example_nested_array : list ascii := text_of_lines
  [ "Struct Pos"; "    x: number[]"; "End";
    "Task productionTask";
    "    Move"; "        In"; "            Pos"; "            {";
    "                ""x"": [[1], 2]"; "            }"; "End" ].

(* n times '!' before the guard 'true' (finding D29: the implementation raised RecursionError from
   about n = 246 on; since 6d2e0d4 it answers invalid there — the recursion limit is not modelled) *)
Definition example_deep_not (n : nat) : list ascii :=
  (chars "Task productionTask" ++ [ch_lf] ++ chars "    Loop While " ++ repeat "!"%char n ++ chars "true"
   ++ [ch_lf] ++ chars "        Move" ++ [ch_lf] ++ chars "End" ++ [ch_lf])%list.
