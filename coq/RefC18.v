(* RefC18.v — in the reference semantics scheduler instances share nothing: the run of
   two instances driven by one interleaved history projects onto the two independent runs.
   (The models are pure functions of the case, so "repeating a run reproduces it" holds by
   construction.)  What this cannot express - state shared through the Python runtime
   (module / class attributes, mutable default arguments, files) - is covered by the
   configuration sweep of the check on the implementation.  Proof file. *)
From PFDL Require Import RefSem RunCase Monitors.

Section Two.
  Variable orcA orcB : oracle.
  Variable immA immB : nat -> bool.
  Variable bodyA bodyB : list xstmt.

  (* one history for two schedulers: (true, c) is a call on A, (false, c) a call on B *)
  Fixpoint run_two (f : nat) (sA sB : sched) (cs : list (bool * apicall)) : res (list (bool * callrec)) :=
    match cs with
    | [] => Ok []
    | (true, c) :: r =>
      rbind (api_call orcA immA f bodyA sA c) (fun '(b, sA') =>
      rbind (run_two f sA' sB r) (fun t => Ok ((true, observe b sA') :: t)))
    | (false, c) :: r =>
      rbind (api_call orcB immB f bodyB sB c) (fun '(b, sB') =>
      rbind (run_two f sA sB' r) (fun t => Ok ((false, observe b sB') :: t)))
    end.

  Definition proj_calls (w : bool) (cs : list (bool * apicall)) : list apicall :=
    map snd (filter (fun p => Bool.eqb (fst p) w) cs).
  Definition proj_recs (w : bool) (tr : list (bool * callrec)) : list callrec :=
    map snd (filter (fun p => Bool.eqb (fst p) w) tr).

  Theorem two_schedulers_independent : forall f cs sA sB tr,
      run_two f sA sB cs = Ok tr ->
      run_script orcA immA f bodyA sA (proj_calls true cs) = Ok (proj_recs true tr) /\
      run_script orcB immB f bodyB sB (proj_calls false cs) = Ok (proj_recs false tr).
  Proof.
    intros f cs. induction cs as [|[w c] cs IH]; intros sA sB tr H; cbn [run_two] in H.
    - inversion H. split; reflexivity.
    - destruct w.
      + destruct (api_call orcA immA f bodyA sA c) as [[b sA']| | |] eqn:E; try discriminate.
        cbn [rbind] in H.
        destruct (run_two f sA' sB cs) as [t| | |] eqn:E2; try discriminate.
        cbn [rbind] in H. inversion H; subst tr. destruct (IH _ _ _ E2) as [IA IB].
        unfold proj_calls, proj_recs. cbn [filter fst Bool.eqb map snd run_script].
        split; [|exact IB].
        rewrite E. cbn [rbind]. unfold proj_calls, proj_recs in IA. rewrite IA. reflexivity.
      + destruct (api_call orcB immB f bodyB sB c) as [[b sB']| | |] eqn:E; try discriminate.
        cbn [rbind] in H.
        destruct (run_two f sA sB' cs) as [t| | |] eqn:E2; try discriminate.
        cbn [rbind] in H. inversion H; subst tr. destruct (IH _ _ _ E2) as [IA IB].
        unfold proj_calls, proj_recs. cbn [filter fst Bool.eqb map snd run_script].
        split; [exact IA|].
        rewrite E. cbn [rbind]. unfold proj_calls, proj_recs in IB. rewrite IB. reflexivity.
  Qed.
End Two.
